import Sucds.Proofs.DacsOptWidthsBits
/-! # `nums_ints` of `compute_opt_widths` (task F3, deliverable 1)

`DacO.numsInts c vals W` (with `W` the bit length of the maximum) read through `wordAt` is the function
`Ncount vals j` = number of values with more than `j` bits — for **every** `j` (beyond `W` both are 0). -/
namespace Sucds.DacsOptW
open Sucds

/-- number of values with more than `j` bits -/
def Ncount (vals : List Nat) (j : Nat) : Nat := (vals.filter fun v => decide (j < SpecX.bitlen v)).length

/-! ### counting helpers (`k` is the histogram slot of a value) -/

def cntEq (k : Nat → Nat) (vals : List Nat) (i : Nat) : Nat := vals.countP fun v => decide (k v = i)
def cntLt (k : Nat → Nat) (vals : List Nat) (i : Nat) : Nat := vals.countP fun v => decide (k v < i)
def cntGe (k : Nat → Nat) (vals : List Nat) (i : Nat) : Nat := vals.countP fun v => decide (i ≤ k v)

theorem cntLt_succ (k : Nat → Nat) (vals : List Nat) (i : Nat) :
    cntLt k vals (i+1) = cntLt k vals i + cntEq k vals i := by
  induction vals with
  | nil => rfl
  | cons x t ih =>
    simp only [cntLt, cntEq, List.countP_cons, decide_eq_true_eq] at ih ⊢
    split <;> split <;> split <;> omega

theorem cntLt_add_cntGe (k : Nat → Nat) (vals : List Nat) (i : Nat) :
    cntLt k vals i + cntGe k vals i = vals.length := by
  induction vals with
  | nil => rfl
  | cons x t ih =>
    simp only [cntLt, cntGe, List.countP_cons, decide_eq_true_eq, List.length_cons] at ih ⊢
    split <;> split <;> omega

theorem cntLt_all (k : Nat → Nat) (vals : List Nat) (i : Nat) (h : ∀ v ∈ vals, k v < i) :
    cntLt k vals i = vals.length := by
  induction vals with
  | nil => rfl
  | cons x t ih =>
    have hx := h x (by simp)
    have := ih (fun v hv => h v (List.mem_cons_of_mem _ hv))
    simp only [cntLt, List.countP_cons, decide_eq_true_eq, List.length_cons] at this ⊢
    rw [if_pos hx, this]

theorem cntLt_zero (k : Nat → Nat) (vals : List Nat) : cntLt k vals 0 = 0 := by
  induction vals with
  | nil => rfl
  | cons x t ih =>
    simp only [cntLt, List.countP_cons, decide_eq_true_eq] at ih ⊢
    rw [if_neg (by omega), ih]

/-- prefix sums of a function -/
def tot (f : Nat → Nat) : Nat → Nat
  | 0 => 0
  | m+1 => tot f m + f m

theorem tot_congr (f g : Nat → Nat) (m : Nat) (h : ∀ t, t < m → f t = g t) : tot f m = tot g m := by
  induction m with
  | zero => rfl
  | succ m ih => simp only [tot]; rw [ih (fun t ht => h t (by omega)), h m (by omega)]

theorem tot_cntEq (k : Nat → Nat) (vals : List Nat) (m : Nat) : tot (cntEq k vals) m = cntLt k vals m := by
  induction m with
  | zero => simp only [tot]; rw [cntLt_zero]
  | succ m ih => simp only [tot]; rw [ih, cntLt_succ]

/-! ### the histogram loop -/

theorem foldl_congr_mem {α β} (f g : β → α → β) (l : List α) : ∀ (b : β), (∀ b, ∀ x ∈ l, f b x = g b x) →
    l.foldl f b = l.foldl g b := by
  induction l with
  | nil => intro b _; rfl
  | cons x t ih =>
    intro b h
    simp only [List.foldl_cons]
    rw [h b x (by simp)]
    exact ih _ (fun b y hy => h b y (List.mem_cons_of_mem _ hy))

theorem hist_spec (k : Nat → Nat) (vals : List Nat) : ∀ (h0 : Array Nat),
    (vals.foldl (fun (h : Array Nat) x => h.modify (k x) (· + 1)) h0).size = h0.size ∧
    ∀ i, i < h0.size → wordAt (vals.foldl (fun (h : Array Nat) x => h.modify (k x) (· + 1)) h0) i
      = wordAt h0 i + cntEq k vals i := by
  induction vals with
  | nil => intro h0; simp [cntEq]
  | cons x t ih =>
    intro h0
    simp only [List.foldl_cons]
    obtain ⟨a1, a2⟩ := ih (h0.modify (k x) (· + 1))
    refine ⟨by rw [a1, Array.size_modify], ?_⟩
    intro i hi
    rw [a2 i (by rw [Array.size_modify]; exact hi)]
    have hget : h0[i]? = some h0[i] := Array.getElem?_eq_getElem hi
    simp only [wordAt, Array.getElem?_modify, cntEq, List.countP_cons, decide_eq_true_eq]
    by_cases hk : k x = i
    · simp only [hk, if_true, hget, Option.map_some, Option.getD_some]
      omega
    · simp only [hk, if_false, Nat.add_zero]

/-! ### the suffix-sum loop -/

def sufStep (h : Array Nat) (j : Nat) : Array Nat := h.set! j (wordAt h j + wordAt h (j + 1))

theorem wordAt_sufStep (h : Array Nat) (j i : Nat) (hj : j < h.size) :
    wordAt (sufStep h j) i = if i = j then wordAt h j + wordAt h (j + 1) else wordAt h i := by
  simp only [sufStep, wordAt, Array.set!_eq_setIfInBounds, Array.getElem?_setIfInBounds, hj, if_true]
  by_cases hij : i = j
  · subst hij; simp
  · have : ¬ j = i := fun e => hij e.symm
    simp only [this, hij, if_false]

theorem suffix_spec : ∀ (k : Nat) (h : Array Nat), k < h.size →
    ((List.range k).reverse.foldl sufStep h).size = h.size ∧
    ∀ i, wordAt ((List.range k).reverse.foldl sufStep h) i
      = if i < k then tot (wordAt h) (k + 1) - tot (wordAt h) i else wordAt h i := by
  intro k
  induction k with
  | zero => intro h _; simp
  | succ k ih =>
    intro h hk
    have hsz : (sufStep h k).size = h.size := by
      simp [sufStep, Array.set!_eq_setIfInBounds]
    rw [List.range_succ, List.reverse_append, List.reverse_singleton, List.singleton_append, List.foldl_cons]
    obtain ⟨a1, a2⟩ := ih (sufStep h k) (by rw [hsz]; omega)
    refine ⟨by rw [a1, hsz], ?_⟩
    intro i
    rw [a2 i]
    have hlow : ∀ m, m ≤ k → tot (wordAt (sufStep h k)) m = tot (wordAt h) m := by
      intro m hm
      apply tot_congr
      intro t ht
      rw [wordAt_sufStep h k t (by omega), if_neg (by omega)]
    have hmono : ∀ m, tot (wordAt h) m ≤ tot (wordAt h) (m+1) := by
      intro m; simp only [tot]; omega
    by_cases hik : i < k
    · have hik' : i < k + 1 := by omega
      simp only [hik, hik', if_true]
      rw [hlow i (by omega)]
      have e1 : tot (wordAt (sufStep h k)) (k+1) = tot (wordAt h) k + (wordAt h k + wordAt h (k+1)) := by
        simp only [tot]
        rw [hlow k (Nat.le_refl _), wordAt_sufStep h k k (by omega), if_pos rfl]
      rw [e1]
      simp only [tot]; omega
    · simp only [hik, if_false]
      rw [wordAt_sufStep h k i (by omega)]
      by_cases hek : i = k
      · subst hek
        simp only [if_true, Nat.lt_succ_self, tot]; omega
      · have : ¬ i < k + 1 := by omega
        simp only [hek, this, if_false]

/-! ### `numsInts` -/

theorem numsInts_eq_sufStep (c : Cfg) (vals : List Nat) (numBits : Nat) :
    DacO.numsInts c vals numBits =
      (List.range numBits).reverse.foldl sufStep
        (vals.foldl (fun (h : Array Nat) x => h.modify (neededBits c x - 1) (· + 1)) (Array.replicate (numBits + 1) 0)) := rfl

theorem Ncount_eq_cntGe (vals : List Nat) (j : Nat) : Ncount vals j = cntGe (fun v => SpecX.bitlen v - 1) vals j := by
  unfold Ncount cntGe
  rw [← List.countP_eq_length_filter]
  apply List.countP_congr
  intro v _
  have := bitlen_pos v
  by_cases h : j < SpecX.bitlen v
  · have h' : j ≤ SpecX.bitlen v - 1 := by omega
    simp [h, h']
  · have h' : ¬ j ≤ SpecX.bitlen v - 1 := by omega
    simp [h, h']

/-- **Deliverable 1**: `nums_ints[j]` is the number of values with more than `j` bits -/
theorem numsInts_spec (c : Cfg) (vals : List Nat) (hv : ∀ v ∈ vals, v < 2^64) :
    (DacO.numsInts c vals (SpecX.bitlen (vals.foldl max 0))).size = SpecX.bitlen (vals.foldl max 0) + 1 ∧
    ∀ j, wordAt (DacO.numsInts c vals (SpecX.bitlen (vals.foldl max 0))) j = Ncount vals j := by
  generalize hW : SpecX.bitlen (vals.foldl max 0) = W
  let k : Nat → Nat := fun v => SpecX.bitlen v - 1
  have hkW : ∀ v ∈ vals, k v < W := by
    intro v hm
    have h1 := bitlen_mono ((foldl_max_ge vals 0).2 v hm)
    have h2 := bitlen_pos v
    simp only [k]; omega
  rw [numsInts_eq_sufStep]
  have hfold : vals.foldl (fun (h : Array Nat) x => h.modify (neededBits c x - 1) (· + 1)) (Array.replicate (W + 1) 0)
      = vals.foldl (fun (h : Array Nat) x => h.modify (k x) (· + 1)) (Array.replicate (W + 1) 0) := by
    apply foldl_congr_mem
    intro b x hx
    rw [neededBits_eq c x (hv x hx)]
  rw [hfold]
  obtain ⟨h1, h2⟩ := hist_spec k vals (Array.replicate (W + 1) 0)
  generalize hh : vals.foldl (fun (h : Array Nat) x => h.modify (k x) (· + 1)) (Array.replicate (W + 1) 0) = hist at h1 h2
  rw [Array.size_replicate] at h1 h2
  have hhist : ∀ i, i < W + 1 → wordAt hist i = cntEq k vals i := by
    intro i hi
    rw [h2 i hi]
    simp [wordAt, hi]
  obtain ⟨s1, s2⟩ := suffix_spec W hist (by omega)
  refine ⟨by rw [s1, h1], ?_⟩
  intro j
  have hNc : Ncount vals j = cntGe k vals j := Ncount_eq_cntGe vals j
  rw [s2 j, hNc]
  have hge := cntLt_add_cntGe k vals j
  by_cases hj : j < W
  · simp only [hj, if_true]
    rw [tot_congr (wordAt hist) (cntEq k vals) (W+1) hhist,
      tot_congr (wordAt hist) (cntEq k vals) j (fun t ht => hhist t (by omega)), tot_cntEq, tot_cntEq,
      cntLt_all k vals (W+1) (fun v hm => by have := hkW v hm; omega)]
    omega
  · simp only [hj, if_false]
    have hall := cntLt_all k vals j (fun v hm => by have := hkW v hm; omega)
    have hz : cntGe k vals j = 0 := by omega
    rw [hz]
    by_cases hjW : j < W + 1
    · rw [hhist j hjW]
      have := cntLt_succ k vals j
      have hall' := cntLt_all k vals (j+1) (fun v hm => by have := hkW v hm; omega)
      omega
    · simp only [wordAt]
      rw [Array.getElem?_eq_none (by omega)]; rfl

theorem Ncount_zero (vals : List Nat) : Ncount vals 0 = vals.length := by
  unfold Ncount
  congr 1
  rw [List.filter_eq_self]
  intro v _
  have := bitlen_pos v
  simp; omega

theorem Ncount_le (vals : List Nat) (j : Nat) : Ncount vals j ≤ vals.length := List.length_filter_le _ _

theorem Ncount_top (vals : List Nat) (j : Nat) (hj : SpecX.bitlen (vals.foldl max 0) ≤ j) : Ncount vals j = 0 := by
  unfold Ncount
  rw [List.length_eq_zero_iff, List.filter_eq_nil_iff]
  intro v hm
  have h1 := bitlen_mono ((foldl_max_ge vals 0).2 v hm)
  simp; omega

/-- the maximum has `numBits` bits, so at least one value reaches every level below `numBits` -/
theorem Ncount_pos (vals : List Nat) (hne : vals ≠ []) (j : Nat) (hj : j < SpecX.bitlen (vals.foldl max 0)) :
    1 ≤ Ncount vals j := by
  unfold Ncount
  apply List.length_pos_of_mem (a := vals.foldl max 0)
  rw [List.mem_filter]
  exact ⟨maxv_mem vals hne, by simpa using hj⟩

end Sucds.DacsOptW
