import Std.Tactic.BVDecide
import Sucds.Model.Rank9Select
import Sucds.Proofs.Rank9Dir
set_option linter.unusedSimpArgs false
set_option linter.unusedVariables false
namespace Sucds
open Spec
namespace R9Index
open Broadword

/-- `uleq_step_9` with wrapping arithmetic -/
def uleqStep9W (x y : BitVec 64) : BitVec 64 :=
  (((((y ||| MSBS_STEP_9) - (x &&& ~~~MSBS_STEP_9)) ||| (x ^^^ y)) ^^^ (x &&& ~~~y)) &&& MSBS_STEP_9) >>> 8

/-- the subtraction inside `uleq_step_9` cannot borrow -/
theorem uleqStep9_eq (c : Cfg) (x y : BitVec 64) (hx : x >>> 63 = 0) : uleqStep9 c x y = .ok (uleqStep9W x y) := by
  have hle : (x &&& ~~~MSBS_STEP_9) ≤ (y ||| MSBS_STEP_9) := by
    simp only [MSBS_STEP_9, Gen.MSBS_STEP_9]; bv_decide
  unfold uleqStep9 uleqStep9W
  rw [bsub_ok c (by rw [← BitVec.le_def]; exact hle)]
  simp only [Except.bind]

theorem uleq9_count (x r : BitVec 64) (hx : x >>> 63 = 0) (hr : r < 512#64) :
    (((uleqStep9W x (r * ONES_STEP_9)) * ONES_STEP_9) >>> 54) &&& 0x7#64 =
      (if ((x >>> 0) &&& 0x1FF#64) ≤ r then 1#64 else 0#64) + (if ((x >>> 9) &&& 0x1FF#64) ≤ r then 1#64 else 0#64) +
      (if ((x >>> 18) &&& 0x1FF#64) ≤ r then 1#64 else 0#64) + (if ((x >>> 27) &&& 0x1FF#64) ≤ r then 1#64 else 0#64) +
      (if ((x >>> 36) &&& 0x1FF#64) ≤ r then 1#64 else 0#64) + (if ((x >>> 45) &&& 0x1FF#64) ≤ r then 1#64 else 0#64) +
      (if ((x >>> 54) &&& 0x1FF#64) ≤ r then 1#64 else 0#64) := by
  simp only [uleqStep9W, MSBS_STEP_9, ONES_STEP_9, Gen.MSBS_STEP_9, Gen.ONES_STEP_9]
  bv_decide (config := { timeout := 300 })

def b2n (b : Bool) : Nat := if b then 1 else 0

theorem ite7_toNat (p0 p1 p2 p3 p4 p5 p6 : Prop) [Decidable p0] [Decidable p1] [Decidable p2] [Decidable p3]
    [Decidable p4] [Decidable p5] [Decidable p6] :
    ((if p0 then 1#64 else 0#64) + (if p1 then 1#64 else 0#64) + (if p2 then 1#64 else 0#64) + (if p3 then 1#64 else 0#64)
      + (if p4 then 1#64 else 0#64) + (if p5 then 1#64 else 0#64) + (if p6 then 1#64 else 0#64)).toNat
      = b2n (decide p0) + b2n (decide p1) + b2n (decide p2) + b2n (decide p3) + b2n (decide p4) + b2n (decide p5) + b2n (decide p6) := by
  by_cases h0 : p0 <;> by_cases h1 : p1 <;> by_cases h2 : p2 <;> by_cases h3 : p3 <;> by_cases h4 : p4 <;>
    by_cases h5 : p5 <;> by_cases h6 : p6 <;> simp [h0, h1, h2, h3, h4, h5, h6, b2n]

theorem field_toNat (e : Nat → Nat) (he : ∀ j, e j < 512) (j : Nat) (hj : j ≤ 6) :
    (((BitVec.ofNat 64 (packTo e 7)) >>> (9 * j)) &&& 0x1FF#64).toNat = e (7 - j) := by
  have h1 := he 1; have h2 := he 2; have h3 := he 3; have h4 := he 4; have h5 := he 5; have h6 := he 6; have h7 := he 7
  rw [BitVec.toNat_and, BitVec.toNat_ushiftRight, BitVec.toNat_ofNat]
  have hm : (0x1FF#64).toNat = 2^9 - 1 := by decide
  rw [hm, Nat.and_two_pow_sub_one_eq_mod, Nat.shiftRight_eq_div_pow]
  simp only [packTo]
  have : j = 0 ∨ j = 1 ∨ j = 2 ∨ j = 3 ∨ j = 4 ∨ j = 5 ∨ j = 6 := by omega
  rcases this with h|h|h|h|h|h|h <;> subst h <;> simp <;> omega

theorem pack_lt (e : Nat → Nat) (he : ∀ j, e j < 512) : packTo e 7 < 2^63 := by
  have h1 := he 1; have h2 := he 2; have h3 := he 3; have h4 := he 4; have h5 := he 5; have h6 := he 6; have h7 := he 7
  simp only [packTo, Nat.zero_add, Nat.reduceAdd]; omega

theorem pack_hi (e : Nat → Nat) (he : ∀ j, e j < 512) : (BitVec.ofNat 64 (packTo e 7)) >>> 63 = 0 := by
  have hp := pack_lt e he
  apply BitVec.eq_of_toNat_eq
  rw [BitVec.toNat_ushiftRight, BitVec.toNat_ofNat, Nat.shiftRight_eq_div_pow]
  show _ = 0
  omega

/-- counting with an opaque packed word `X` whose fields are known -/
theorem offset_count_gen (X R : BitVec 64) (e : Nat → Nat) (r : Nat) (hx : X >>> 63 = 0) (hr' : R < 512#64) (hrn : R.toNat = r)
    (f0 : ((X >>> 0) &&& 0x1FF#64).toNat = e 7) (f1 : ((X >>> 9) &&& 0x1FF#64).toNat = e 6)
    (f2 : ((X >>> 18) &&& 0x1FF#64).toNat = e 5) (f3 : ((X >>> 27) &&& 0x1FF#64).toNat = e 4)
    (f4 : ((X >>> 36) &&& 0x1FF#64).toNat = e 3) (f5 : ((X >>> 45) &&& 0x1FF#64).toNat = e 2)
    (f6 : ((X >>> 54) &&& 0x1FF#64).toNat = e 1) :
    ((((uleqStep9W X (R * ONES_STEP_9)) * ONES_STEP_9) >>> 54) &&& 0x7#64).toNat
      = b2n (decide (e 7 ≤ r)) + b2n (decide (e 6 ≤ r)) + b2n (decide (e 5 ≤ r)) + b2n (decide (e 4 ≤ r))
        + b2n (decide (e 3 ≤ r)) + b2n (decide (e 2 ≤ r)) + b2n (decide (e 1 ≤ r)) := by
  rw [uleq9_count _ _ hx hr', ite7_toNat]
  simp only [BitVec.le_def, f0, f1, f2, f3, f4, f5, f6, hrn]

/-- the number of packed counters `≤ r`, as computed by the broadword expression -/
theorem offset_count (e : Nat → Nat) (he : ∀ j, e j < 512) (r : Nat) (hr : r < 512) :
    ((((uleqStep9W (BitVec.ofNat 64 (packTo e 7)) (BitVec.ofNat 64 r * ONES_STEP_9)) * ONES_STEP_9) >>> 54) &&& 0x7#64).toNat
      = b2n (decide (e 7 ≤ r)) + b2n (decide (e 6 ≤ r)) + b2n (decide (e 5 ≤ r)) + b2n (decide (e 4 ≤ r))
        + b2n (decide (e 3 ≤ r)) + b2n (decide (e 2 ≤ r)) + b2n (decide (e 1 ≤ r)) := by
  have hx := pack_hi e he
  have hr' : BitVec.ofNat 64 r < 512#64 := by
    rw [BitVec.lt_def, BitVec.toNat_ofNat]; simp only [BitVec.toNat_ofNat]; omega
  have hrn : (BitVec.ofNat 64 r).toNat = r := by rw [BitVec.toNat_ofNat]; omega
  have f0 := field_toNat e he 0 (by omega); have f1 := field_toNat e he 1 (by omega)
  have f2 := field_toNat e he 2 (by omega); have f3 := field_toNat e he 3 (by omega)
  have f4 := field_toNat e he 4 (by omega); have f5 := field_toNat e he 5 (by omega)
  have f6 := field_toNat e he 6 (by omega)
  simp only [Nat.mul_zero, Nat.mul_one, Nat.reduceMul, Nat.sub_zero, Nat.reduceSub] at f0 f1 f2 f3 f4 f5 f6
  generalize BitVec.ofNat 64 (packTo e 7) = X at hx f0 f1 f2 f3 f4 f5 f6 ⊢
  generalize BitVec.ofNat 64 r = R at hr' hrn ⊢
  exact offset_count_gen X R e r hx hr' hrn f0 f1 f2 f3 f4 f5 f6

/-- evaluation of `inBlock` for an opaque counters word `sr` whose relevant facts are given -/
theorem inBlock_gen (c : Cfg) (sr r off val : Nat) (hr : r < 512) (hoff7 : off ≤ 7)
    (hhi : (BitVec.ofNat 64 sr) >>> 63 = 0)
    (hcnt : ((((uleqStep9W (BitVec.ofNat 64 sr) (BitVec.ofNat 64 r * ONES_STEP_9)) * ONES_STEP_9) >>> 54) &&& 0x7#64).toNat = off)
    (hext : (sr >>> ((7 - off) * 9)) &&& 0x1FF = val) :
    inBlock c sr r = .ok (off, val) := by
  have hones : Gen.ONES_STEP_9 = 18049651735527937 := rfl
  unfold inBlock
  rw [cmul_ok c (by rw [hones]; omega)]
  simp only [Except.bind]
  rw [uleqStep9_eq c _ _ hhi]
  simp only [Except.bind]
  have hrip : BitVec.ofNat 64 (r * Gen.ONES_STEP_9) = BitVec.ofNat 64 r * ONES_STEP_9 := by
    rw [BitVec.ofNat_mul]; rfl
  rw [hrip, hcnt]
  have hsh : (7 - off) * 9 % 64 = (7 - off) * 9 := by omega
  rw [hsh, hext]

/-- **in-block step**: for non-decreasing counters `e 1 ≤ … ≤ e 7` (all `< 512`) and `r < 512`, the model
    returns the index `off` of the last counter `≤ r` (0 if none) and that counter's value -/
theorem inBlock_ok (c : Cfg) (e : Nat → Nat) (he : ∀ j, e j < 512) (hmono : ∀ i j, 1 ≤ i → i ≤ j → j ≤ 7 → e i ≤ e j)
    (r : Nat) (hr : r < 512) :
    ∃ off, off ≤ 7 ∧ inBlock c (packTo e 7) r = .ok (off, if off = 0 then 0 else e off) ∧
      (1 ≤ off → e off ≤ r) ∧ (off < 7 → r < e (off + 1)) := by
  have h12 := hmono 1 2 (by omega) (by omega) (by omega); have h23 := hmono 2 3 (by omega) (by omega) (by omega)
  have h34 := hmono 3 4 (by omega) (by omega) (by omega); have h45 := hmono 4 5 (by omega) (by omega) (by omega)
  have h56 := hmono 5 6 (by omega) (by omega) (by omega); have h67 := hmono 6 7 (by omega) (by omega) (by omega)
  have hcnt := offset_count e he r hr
  -- the count as a number
  have hoff : ∃ off, off ≤ 7 ∧
      b2n (decide (e 7 ≤ r)) + b2n (decide (e 6 ≤ r)) + b2n (decide (e 5 ≤ r)) + b2n (decide (e 4 ≤ r))
        + b2n (decide (e 3 ≤ r)) + b2n (decide (e 2 ≤ r)) + b2n (decide (e 1 ≤ r)) = off ∧
      (1 ≤ off → e off ≤ r) ∧ (off < 7 → r < e (off + 1)) := by
    by_cases c1 : e 1 ≤ r
    ·
      by_cases c2 : e 2 ≤ r
      ·
        by_cases c3 : e 3 ≤ r
        ·
          by_cases c4 : e 4 ≤ r
          ·
            by_cases c5 : e 5 ≤ r
            ·
              by_cases c6 : e 6 ≤ r
              ·
                by_cases c7 : e 7 ≤ r
                ·
                  exact ⟨7, by omega, by simp [b2n, c1, c2, c3, c4, c5, c6, c7], fun _ => c7, fun h => by omega⟩
                ·
                  exact ⟨6, by omega, by simp [b2n, c1, c2, c3, c4, c5, c6, c7], fun _ => c6, fun _ => by show r < e 7; omega⟩
              ·
                have c7 : ¬ e 7 ≤ r := by omega
                exact ⟨5, by omega, by simp [b2n, c1, c2, c3, c4, c5, c6, c7], fun _ => c5, fun _ => by show r < e 6; omega⟩
            ·
              have c6 : ¬ e 6 ≤ r := by omega
              have c7 : ¬ e 7 ≤ r := by omega
              exact ⟨4, by omega, by simp [b2n, c1, c2, c3, c4, c5, c6, c7], fun _ => c4, fun _ => by show r < e 5; omega⟩
          ·
            have c5 : ¬ e 5 ≤ r := by omega
            have c6 : ¬ e 6 ≤ r := by omega
            have c7 : ¬ e 7 ≤ r := by omega
            exact ⟨3, by omega, by simp [b2n, c1, c2, c3, c4, c5, c6, c7], fun _ => c3, fun _ => by show r < e 4; omega⟩
        ·
          have c4 : ¬ e 4 ≤ r := by omega
          have c5 : ¬ e 5 ≤ r := by omega
          have c6 : ¬ e 6 ≤ r := by omega
          have c7 : ¬ e 7 ≤ r := by omega
          exact ⟨2, by omega, by simp [b2n, c1, c2, c3, c4, c5, c6, c7], fun _ => c2, fun _ => by show r < e 3; omega⟩
      ·
        have c3 : ¬ e 3 ≤ r := by omega
        have c4 : ¬ e 4 ≤ r := by omega
        have c5 : ¬ e 5 ≤ r := by omega
        have c6 : ¬ e 6 ≤ r := by omega
        have c7 : ¬ e 7 ≤ r := by omega
        exact ⟨1, by omega, by simp [b2n, c1, c2, c3, c4, c5, c6, c7], fun _ => c1, fun _ => by show r < e 2; omega⟩
    ·
      have c2 : ¬ e 2 ≤ r := by omega
      have c3 : ¬ e 3 ≤ r := by omega
      have c4 : ¬ e 4 ≤ r := by omega
      have c5 : ¬ e 5 ≤ r := by omega
      have c6 : ¬ e 6 ≤ r := by omega
      have c7 : ¬ e 7 ≤ r := by omega
      exact ⟨0, by omega, by simp [b2n, c1, c2, c3, c4, c5, c6, c7], fun h => by omega, fun _ => by show r < e 1; omega⟩
  obtain ⟨off, hoff7, hsum, hlo, hhi⟩ := hoff
  refine ⟨off, hoff7, ?_, hlo, hhi⟩
  have hext := extract (fun j => if j ≤ 7 then e j else 0) (fun j => by split <;> simp [he]) off hoff7
  have hpk : packTo e 7 = packTo (fun j => if j ≤ 7 then e j else 0) 7 := packTo_congr _ _ 7 (fun j _ h2 => by simp [h2])
  rw [← hpk] at hext
  simp only [hoff7, if_true] at hext
  have hc2 : ((((uleqStep9W (BitVec.ofNat 64 (packTo e 7)) (BitVec.ofNat 64 r * ONES_STEP_9)) * ONES_STEP_9) >>> 54) &&& 0x7#64).toNat = off := by
    rw [hcnt, hsum]
  have hh := pack_hi e he
  generalize packTo e 7 = sr at hext hc2 hh ⊢
  exact inBlock_gen c sr r off _ hr hoff7 hh hc2 hext

end R9Index
end Sucds
