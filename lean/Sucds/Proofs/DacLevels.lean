/-! The mathematical core of DACs (C10, C11): level sequences and the access walk. -/
set_option linter.unusedSimpArgs false
set_option linter.unusedVariables false
namespace Sucds.Dac

/-- the element at `p` that satisfies `f` sits, in the filtered list, at index
    "number of satisfying elements before `p`" (what `rank1` of the flag vector computes) -/
theorem filter_getElem_count {α} (f : α → Bool) (l : List α) (p : Nat) (hp : p < l.length) (hf : f l[p] = true) :
    ∃ h : (l.take p).countP f < (l.filter f).length, (l.filter f)[(l.take p).countP f] = l[p] := by
  induction l generalizing p with
  | nil => simp at hp
  | cons a t ih =>
    cases p with
    | zero =>
      simp only [List.getElem_cons_zero] at hf
      simp [List.filter_cons, hf]
    | succ q =>
      simp only [List.length_cons] at hp
      simp only [List.getElem_cons_succ] at hf ⊢
      obtain ⟨h, e⟩ := ih q (by omega) hf
      by_cases ha : f a = true
      · simp only [List.take_succ_cons, List.countP_cons_of_pos ha, List.filter_cons_of_pos ha,
          List.length_cons, List.getElem_cons_succ]
        exact ⟨by omega, e⟩
      · have ha' : ¬ f a = true := ha
        simp only [List.take_succ_cons, List.countP_cons_of_neg ha', List.filter_cons_of_neg ha']
        exact ⟨h, e⟩

/-- does a value continue beyond a level of width `w`? (the continuation flag) -/
def more (w x : Nat) : Bool := x >>> w != 0
/-- the values stored from the next level on -/
def next (w : Nat) (vs : List Nat) : List Nat := (vs.filter (more w)).map (· >>> w)

/-- the access walk: chunk of this level, then — if the flag is set — the rest, found at the rank of the flag -/
def walk : List Nat → List Nat → Nat → Nat
  | [], _, _ => 0
  | [w], vs, pos => vs[pos]! % 2^w
  | w :: w' :: ws, vs, pos =>
    let x := vs[pos]!
    x % 2^w + (if more w x then 2^w * walk (w' :: ws) (next w vs) ((vs.take pos).countP (more w)) else 0)

theorem split_chunk (x w : Nat) : x % 2^w + 2^w * (x >>> w) = x := by
  rw [Nat.shiftRight_eq_div_pow]; exact Nat.mod_add_div x (2^w)

/-- **losslessness**: with level widths `ws` covering every value, the walk returns the stored value -/
theorem walk_ok : ∀ (ws : List Nat) (vs : List Nat) (pos : Nat), ws ≠ [] → pos < vs.length →
    (∀ v ∈ vs, v < 2^ws.sum) → walk ws vs pos = vs[pos]! := by
  intro ws
  induction ws with
  | nil => intro vs pos h; exact absurd rfl h
  | cons w t ih =>
    intro vs pos _ hpos hv
    have hget : vs[pos]! = vs[pos] := by simp [hpos]
    cases t with
    | nil =>
      simp only [walk]
      have := hv vs[pos] (List.getElem_mem hpos)
      simp only [List.sum_cons, List.sum_nil, Nat.add_zero] at this
      rw [hget, Nat.mod_eq_of_lt this]
    | cons w' ws' =>
      simp only [walk]
      by_cases hm : more w vs[pos]! = true
      · simp only [hm, if_true]
        have hm' : more w vs[pos] = true := by rw [← hget]; exact hm
        obtain ⟨hlt, heq⟩ := filter_getElem_count (more w) vs pos hpos hm'
        have hlen : (vs.take pos).countP (more w) < (next w vs).length := by simpa [next] using hlt
        have hnext : (next w vs)[(vs.take pos).countP (more w)]! = vs[pos] >>> w := by
          rw [getElem!_pos (next w vs) _ hlen]
          simp only [next, List.getElem_map, heq]
        have hvn : ∀ v ∈ next w vs, v < 2^(w' :: ws').sum := by
          intro v hvm
          simp only [next, List.mem_map, List.mem_filter] at hvm
          obtain ⟨u, ⟨hu, _⟩, rfl⟩ := hvm
          have := hv u hu
          simp only [List.sum_cons] at this ⊢
          rw [Nat.shiftRight_eq_div_pow]
          rw [Nat.pow_add] at this
          exact Nat.div_lt_of_lt_mul this
        rw [ih (next w vs) _ (by simp) hlen hvn, hnext, hget]
        exact split_chunk _ _
      · have hm0 : more w vs[pos]! = false := by simpa using hm
        simp only [hm0, Bool.false_eq_true, if_false, Nat.add_zero]
        have : vs[pos]! >>> w = 0 := by simpa [more] using hm0
        have h2 := split_chunk vs[pos]! w
        rw [this, Nat.mul_zero, Nat.add_zero] at h2
        exact h2

end Sucds.Dac
