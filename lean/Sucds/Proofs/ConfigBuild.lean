import Sucds.Proofs.ConfigPrim
import Sucds.Model.WaveletMatrix
/-! C15, part A (2): the builders of Elias-Fano, SArray, both DACs, PrefixSummedEliasFano and the
    wavelet matrix produce the same *values* (hence the same serialized bytes and the same later
    answers) in every build configuration. -/
set_option linter.unusedSimpArgs false
set_option linter.unusedVariables false
namespace Sucds.Config
open Sucds

/-! ### Elias-Fano -/

/-- `EliasFanoBuilder::build` -/
theorem EF_ofBuilder_cfg (c c' : Cfg) (b : EFB) : EF.ofBuilder c b = EF.ofBuilder c' b := by
  unfold EF.ofBuilder; rw [DA_fromBV_cfg c c']

theorem EF_default_cfg (c c' : Cfg) : EF.default c = EF.default c' := by
  unfold EF.default; rw [DA_fromBV_cfg c c']

theorem EF_enableRank_cfg (c c' : Cfg) (e : EF) : e.enableRank c = e.enableRank c' := by
  unfold EF.enableRank; rw [DA_enableSelect0_cfg c c']

theorem sumPop_cfg (c c' : Cfg) (ws : Array Nat) (i : Nat) : BV.sumPop c ws i = BV.sumPop c' ws i := by
  induction i with
  | zero => rfl
  | succ i ih => unfold BV.sumPop; rw [ih, popcountN_cfg c c']

/-- `EliasFano::from_bits` -/
theorem EF_fromBV_cfg (c c' : Cfg) (bv : BV) : EF.fromBV c bv = EF.fromBV c' bv := by
  unfold EF.fromBV
  simp only [sumPop_cfg c c', EF_ofBuilder_cfg c c']

/-! ### SArray -/

theorem UIter_next_cfg (c c' : Cfg) (bv : BV) (it : UIter) : UIter.next c bv it = UIter.next c' bv it := by
  unfold UIter.next; simp only [lsbW_cfg c c']

theorem unaryAll_cfg (c c' : Cfg) (bv : BV) (fuel : Nat) :
    ∀ (it : UIter) (acc : Array Nat), SA.unaryAll c bv fuel it acc = SA.unaryAll c' bv fuel it acc := by
  induction fuel with
  | zero => intro _ _; rfl
  | succ fuel ih =>
    intro it acc
    unfold SA.unaryAll
    simp only [UIter_next_cfg c c', ih]

/-- `SArray::from_bits` (no side condition is needed: the build depends on the configuration only
    through `popcount` and `lsb`) -/
theorem SA_fromBV_cfg (c c' : Cfg) (bv : BV) : SA.fromBV c bv = SA.fromBV c' bv := by
  unfold SA.fromBV
  simp only [sumPop_cfg c c', unaryAll_cfg c c', EF_ofBuilder_cfg c c']

theorem SA_enableRank_cfg (c c' : Cfg) (s : SA) : s.enableRank c = s.enableRank c' := by
  unfold SA.enableRank; rw [show EF.enableRank c = EF.enableRank c' from funext (EF_enableRank_cfg c c')]

/-! ### DACs -/

/-- `DacsByte::from_slice` -/
theorem DacB_fromSlice_cfg (c c' : Cfg) (vals : List Nat) : DacB.fromSlice c vals = DacB.fromSlice c' vals := by
  unfold DacB.fromSlice
  simp only [neededBits_cfg c c', R9_new_fun c c']

theorem numsInts_cfg (c c' : Cfg) (vals : List Nat) (n : Nat) : DacO.numsInts c vals n = DacO.numsInts c' vals n := by
  unfold DacO.numsInts
  simp only [neededBits_cfg c c']

/-- `compute_opt_widths` -/
theorem optWidths_cfg (c c' : Cfg) (vals : List Nat) (ml : Nat) : DacO.optWidths c vals ml = DacO.optWidths c' vals ml := by
  unfold DacO.optWidths
  simp only [neededBits_cfg c c', numsInts_cfg c c']

theorem DacO_build_cfg (c c' : Cfg) (vals ws : List Nat) : DacO.build c vals ws = DacO.build c' vals ws := by
  unfold DacO.build
  simp only [R9_new_fun c c']

/-- `DacsOpt::from_slice` -/
theorem DacO_fromSlice_cfg (c c' : Cfg) (vals : List Nat) (ml : Option Nat) :
    DacO.fromSlice c vals ml = DacO.fromSlice c' vals ml := by
  unfold DacO.fromSlice
  simp only [optWidths_cfg c c', DacO_build_cfg c c']

/-! ### PrefixSummedEliasFano -/

theorem sumAll_cfg (c c' : Cfg) : ∀ (vals : List Nat) (acc : Nat), acc + vals.sum < 2^64 →
    PS.sumAll c vals acc = PS.sumAll c' vals acc
  | [], _, _ => rfl
  | x :: xs, acc, h => by
    simp only [List.sum_cons] at h
    unfold PS.sumAll
    rw [cadd_ok c (by omega), cadd_ok c' (by omega), bind_ok, bind_ok]
    exact sumAll_cfg c c' xs (acc + x) (by omega)

theorem sumAll_val (c : Cfg) : ∀ (vals : List Nat) (acc : Nat), acc + vals.sum < 2^64 →
    PS.sumAll c vals acc = .ok (acc + vals.sum)
  | [], _, _ => by simp [PS.sumAll]
  | x :: xs, acc, h => by
    simp only [List.sum_cons] at h
    unfold PS.sumAll
    rw [cadd_ok c (by omega), bind_ok, sumAll_val c xs (acc + x) (by omega)]
    simp only [List.sum_cons]; congr 1; omega

theorem pushSums_cfg (c c' : Cfg) : ∀ (vals : List Nat) (b : EFB) (cur : Nat), cur + vals.sum < 2^64 →
    PS.pushSums c b vals cur = PS.pushSums c' b vals cur
  | [], _, _, _ => rfl
  | x :: xs, b, cur, h => by
    simp only [List.sum_cons] at h
    unfold PS.pushSums
    rw [cadd_ok c (by omega), cadd_ok c' (by omega), bind_ok, bind_ok]
    cases hp : b.push (cur + x) with
    | error e => rfl
    | ok r =>
      rw [bind_ok, bind_ok]
      split
      · exact pushSums_cfg c c' xs r.1 (cur + x) (by omega)
      · rfl

/-- `PrefixSummedEliasFano::from_slice` when the sum of the values plus one fits a `usize` (the
    contract of the constructor) -/
theorem PS_fromSlice_cfg (c c' : Cfg) (vals : List Nat) (hs : vals.sum + 1 < 2^64) :
    PS.fromSlice c vals = PS.fromSlice c' vals := by
  unfold PS.fromSlice
  split
  · rfl
  · rw [sumAll_val c vals 0 (by omega), sumAll_val c' vals 0 (by omega), bind_ok, bind_ok,
      cadd_ok c (by omega), cadd_ok c' (by omega), bind_ok, bind_ok]
    simp only [pushSums_cfg c c' vals _ 0 (by omega), EF_ofBuilder_cfg c c']

/-! ### wavelet matrix -/

theorem Lay_build_cfg (c c' : Cfg) (k : Backing) (bv : BV) (h : bv.Inv) : Lay.build c k bv = Lay.build c' k bv := by
  unfold Lay.build
  cases k with
  | r9 => simp only [R9_build_cfg c c' bv h]
  | da => simp only [DA_build_cfg c c']
  | bv => rfl

theorem buildLayers_cfg (c c' : Cfg) (k : Backing) (width : Nat) (fuel : Nat) :
    ∀ (depth : Nat) (zeros ones : List Nat) (acc : Array Lay),
      WM.buildLayers c k width depth zeros ones acc fuel = WM.buildLayers c' k width depth zeros ones acc fuel := by
  induction fuel with
  | zero => intro _ _ _ _; rfl
  | succ fuel ih =>
    intro depth zeros ones acc
    unfold WM.buildLayers
    simp only [Lay_build_cfg c c' k _ (BV.fromBits_spec _).1, ih]

/-- `WaveletMatrix::new` for every backing, when the alphabet size `max + 1` fits a `usize` -/
theorem WM_new_cfg (c c' : Cfg) (k : Backing) (s : List Nat) (hmax : s.foldl max 0 + 1 < 2^64) :
    WM.new c k s = WM.new c' k s := by
  unfold WM.new
  split
  · rfl
  · rw [cadd_ok c hmax, cadd_ok c' hmax, bind_ok, bind_ok]
    simp only [neededBits_cfg c c', buildLayers_cfg c c']

end Sucds.Config
