import Sucds.Proofs.SArrayBridge
/-! `SArray` (`src/bit_vectors/sarray.rs`), part 2: `from_bits` never panics and the structure it returns
    (with or without `enable_rank`) answers `access`, `select1`, `rank1`, `rank0`, `predecessor1`, `successor1`
    exactly like the plain bit sequence, for every argument, including the vector without a set bit. -/
set_option linter.unusedSimpArgs false
set_option linter.unusedVariables false
namespace Sucds.SA
open Sucds Sucds.Spec Sucds.EFB Sucds.EFQ

/-! ### the positions collected through the unary iterator -/

theorem unaryAll_rep (c : Cfg) (bv : BV) (h : bv.Inv) : ∀ (fuel : Nat) (it : UIter) (cur : Nat) (acc : Array Nat),
    UIter.Rep bv it cur → cur ≤ bv.len → (ones bv.bitAt bv.len).length < fuel + cnt bv.bitAt cur →
    ∃ ps, unaryAll c bv fuel it acc = .ok ps ∧
      ps.toList = acc.toList ++ (ones bv.bitAt bv.len).drop (cnt bv.bitAt cur) := by
  intro fuel
  induction fuel with
  | zero =>
    intro it cur acc hr hc hf
    have := cnt_mono bv.bitAt hc
    rw [ones_length] at hf
    omega
  | succ fuel ih =>
    intro it cur acc hr hc hf
    obtain ⟨it', e, h1, h2⟩ := UIter.next_ok c bv h it cur hr
    have hse : selFrom bv.bitAt bv.len cur 0 = (ones bv.bitAt bv.len)[cnt bv.bitAt cur]? := by
      rw [selFrom_eq _ _ _ _ hc, Nat.add_zero, ones_getElem?]
    simp only [unaryAll]
    rw [e, EFQ.bind_ok]
    simp only []
    cases hs : selFrom bv.bitAt bv.len cur 0 with
    | none =>
      simp only []
      refine ⟨acc, rfl, ?_⟩
      rw [hs] at hse
      have := List.getElem?_eq_none_iff.mp hse.symm
      rw [List.drop_eq_nil_of_le this, List.append_nil]
    | some q =>
      simp only []
      rw [hs] at hse
      obtain ⟨hq, hqe⟩ := List.getElem?_eq_some_iff.mp hse.symm
      have hk : IsKth bv.bitAt bv.len (cnt bv.bitAt cur) q := by
        apply sel_isKth
        rw [← ones_getElem?]; exact hse.symm
      obtain ⟨k1, k2, k3⟩ := hk
      have hc1 : cnt bv.bitAt (q + 1) = cnt bv.bitAt cur + 1 := by
        rw [cnt_succ_of_true _ _ k2, k3]
      obtain ⟨ps, hps, hl⟩ := ih it' (q + 1) (acc.push q) (h1 q hs).1 (by omega) (by rw [hc1]; omega)
      refine ⟨ps, hps, ?_⟩
      rw [hl, hc1, List.drop_eq_getElem_cons hq, hqe, Array.toList_push, List.append_assoc]
      rfl

theorem unaryAll_ok (c : Cfg) (bv : BV) (h : bv.Inv) :
    ∃ ps, unaryAll c bv (bv.len + 1) (UIter.new bv 0) #[] = .ok ps ∧ ps.toList = ones bv.bitAt bv.len := by
  obtain ⟨ps, h1, h2⟩ := unaryAll_rep c bv h (bv.len + 1) (UIter.new bv 0) 0 #[] (UIter.new_rep bv 0).rep
    (Nat.zero_le _) (by rw [ones_length]; have := cnt_le bv.bitAt bv.len; simp only [cnt]; omega)
  refine ⟨ps, h1, ?_⟩
  rw [h2]
  simp [cnt]

/-! ### `from_bits` -/

/-- the shape of what `SArray::from_bits` returns -/
theorem fromBV_ok (c : Cfg) (bv : BV) (h : bv.Inv) (hn : bv.len < 2^64) :
    ∃ s, SA.fromBV c bv = .ok s ∧ s.numBits = bv.len ∧ s.numOnes = cnt bv.bitAt bv.len ∧ s.hasRank = false ∧
      ((cnt bv.bitAt bv.len = 0 ∧ s.ef = none) ∨
       (cnt bv.bitAt bv.len ≠ 0 ∧ ∃ b, s.ef = some (EF.ofBuilder c b) ∧ Holds b (ones bv.bitAt bv.len) ∧
          b.univ = bv.len)) := by
  unfold SA.fromBV
  simp only [sumPop_all c bv h]
  by_cases hz : cnt bv.bitAt bv.len = 0
  · rw [if_neg (by simp [hz])]
    exact ⟨_, rfl, rfl, rfl, rfl, Or.inl ⟨hz, rfl⟩⟩
  · rw [if_pos hz]
    obtain ⟨b0, hnew, hh0, hu0, hm0⟩ := new_holds bv.len (cnt bv.bitAt bv.len) hz hn
    rw [hnew]
    simp only []
    obtain ⟨ps, hps, hl⟩ := unaryAll_ok c bv h
    rw [hps, EFQ.bind_ok, hl]
    obtain ⟨b', hpa, hh', hu', _⟩ := pushAll_ok (ones bv.bitAt bv.len) b0 [] hh0
      (by simpa using ones_sorted bv.bitAt bv.len)
      (by rw [hu0]; exact ones_lt bv.bitAt bv.len)
      (by rw [hm0, ones_length]; simp)
    rw [hpa, EFQ.bind_ok]
    simp only []
    refine ⟨_, rfl, rfl, rfl, rfl, Or.inr ⟨hz, b', rfl, by simpa using hh', by rw [hu', hu0]⟩⟩

/-! ### the answers -/

/-- queries available without the rank index -/
structure PlainAnswers (c : Cfg) (s : SA) (P : Nat → Bool) (n : Nat) : Prop where
  numBits : s.numBits = n
  numOnes : s.numOnes = cnt P n
  access  : ∀ i, s.access c i = .ok (if i < n then some (P i) else none)
  select1 : ∀ k, s.select1 c k = .ok (sel P n k)

/-- queries that need `enable_rank` -/
structure RankAnswers (c : Cfg) (s : SA) (P : Nat → Bool) (n : Nat) : Prop where
  rank1 : ∀ i, s.rank1 c i = .ok (if i ≤ n then some (cnt P i) else none)
  rank0 : ∀ i, s.rank0 c i = .ok (if i ≤ n then some (i - cnt P i) else none)
  pred1 : ∀ i, s.predecessor1 c i = .ok (if i < n then Spec.predP P i else none)
  succ1 : ∀ i, s.successor1 c i = .ok (if i < n then Spec.succP P n i else none)

/-- `rank0` from `rank1` -/
theorem rank0_of_rank1 (c : Cfg) (s : SA) (P : Nat → Bool) (n : Nat)
    (h : ∀ i, s.rank1 c i = .ok (if i ≤ n then some (cnt P i) else none)) (i : Nat) :
    s.rank0 c i = .ok (if i ≤ n then some (i - cnt P i) else none) := by
  unfold SA.rank0
  rw [h i, EFQ.bind_ok]
  by_cases hi : i ≤ n
  · simp only [hi, if_true]
    rw [csub_ok c (cnt_le P i), EFQ.bind_ok]
  · simp only [hi, if_false]

/-- no set bit: `ef = none` -/
theorem plain_none (c : Cfg) (s : SA) (P : Nat → Bool) (n : Nat) (hb : s.numBits = n) (ho : s.numOnes = cnt P n)
    (hz : cnt P n = 0) (he : s.ef = none) : PlainAnswers c s P n := by
  refine ⟨hb, ho, ?_, ?_⟩
  · intro i
    unfold SA.access
    rw [hb, he]
    by_cases hi : n ≤ i
    · rw [if_pos hi, if_neg (by omega)]
    · rw [if_neg hi, if_pos (by omega)]
      simp only []
      rw [ScanB.false_of_cnt_zero P n hz i (by omega)]
  · intro k
    unfold SA.select1
    rw [he]
    simp only []
    rw [sel_eq_none P n k (by omega)]

theorem rank_none (c : Cfg) (s : SA) (P : Nat → Bool) (n : Nat) (hb : s.numBits = n)
    (hz : cnt P n = 0) (he : s.ef = none) (hr : s.hasRank = true) : RankAnswers c s P n := by
  have hf := ScanB.false_of_cnt_zero P n hz
  have hr1 : ∀ i, s.rank1 c i = .ok (if i ≤ n then some (cnt P i) else none) := by
    intro i
    unfold SA.rank1
    rw [hr, hb, he]
    simp only [Bool.not_true, Bool.false_eq_true, if_false]
    by_cases hi : n < i
    · rw [if_pos hi, if_neg (by omega)]
    · rw [if_neg hi, if_pos (by omega)]
      have := cnt_mono P (show i ≤ n by omega)
      rw [show cnt P i = 0 by omega]
  refine ⟨hr1, rank0_of_rank1 c s P n hr1, ?_, ?_⟩
  · intro i
    unfold SA.predecessor1
    rw [hr, he]
    simp only [Bool.not_true, Bool.false_eq_true, if_false]
    by_cases hi : i < n
    · rw [if_pos hi, (Spec.predP_eq_none P i).mpr (fun q hq => hf q (by omega))]
    · rw [if_neg hi]
  · intro i
    unfold SA.successor1
    rw [hr, he]
    simp only [Bool.not_true, Bool.false_eq_true, if_false]
    by_cases hi : i < n
    · rw [if_pos hi, (Spec.succP_eq_none P n i).mpr (fun q _ hq => hf q hq)]
    · rw [if_neg hi]

/-- at least one set bit: the answers of the Elias-Fano sequence over `ones P n` -/
theorem plain_some (c : Cfg) (s : SA) (e : EF) (P : Nat → Bool) (n : Nat) (hb : s.numBits = n)
    (ho : s.numOnes = cnt P n) (hz : cnt P n ≠ 0) (he : s.ef = some e)
    (hsel : ∀ k, e.select c k = .ok (ones P n)[k]?)
    (hbs : ∀ lo hi v, lo < hi → hi ≤ (ones P n).length → ∃ r, e.binsearchRange c lo hi v = .ok r ∧
      match r with
      | some i => lo ≤ i ∧ i < hi ∧ (ones P n)[i]? = some v
      | none => ∀ i, lo ≤ i → i < hi → (ones P n)[i]? ≠ some v)
    (hbe : ∀ v, e.binsearch c v = e.binsearchRange c 0 (ones P n).length v) : PlainAnswers c s P n := by
  refine ⟨hb, ho, ?_, ?_⟩
  · intro i
    unfold SA.access
    rw [hb, he]
    by_cases hi : n ≤ i
    · rw [if_pos hi, if_neg (by omega)]
    · rw [if_neg hi, if_pos (by omega)]
      simp only []
      obtain ⟨r, hr, hm⟩ := hbs 0 (ones P n).length i (by rw [ones_length]; omega) (Nat.le_refl _)
      rw [hbe, hr, EFQ.bind_ok]
      cases r with
      | some j =>
        simp only [] at hm
        have := (ones_index_iff P n i).mp ⟨j, hm.2.2⟩
        rw [this.2]; rfl
      | none =>
        simp only [] at hm
        cases hP : P i with
        | false => rfl
        | true =>
          exfalso
          obtain ⟨j, hj⟩ := (ones_index_iff P n i).mpr ⟨by omega, hP⟩
          have hjl : j < (ones P n).length := (List.getElem?_eq_some_iff.mp hj).1
          exact hm j (Nat.zero_le _) hjl hj
  · intro k
    unfold SA.select1
    rw [he]
    simp only []
    rw [hsel k, ones_getElem?]

theorem rank_some (c : Cfg) (s : SA) (e : EF) (P : Nat → Bool) (n : Nat) (hb : s.numBits = n)
    (he : s.ef = some e) (hr : s.hasRank = true)
    (hrk : ∀ p, e.rank c p = .ok (if p ≤ n then some (rk (ones P n) p) else none))
    (hpr : ∀ p, e.predecessor c p = .ok (if p < n then predV (ones P n) p else none))
    (hsu : ∀ p, e.successor c p = .ok (if p < n then succV (ones P n) p else none)) : RankAnswers c s P n := by
  have hr1 : ∀ i, s.rank1 c i = .ok (if i ≤ n then some (cnt P i) else none) := by
    intro i
    unfold SA.rank1
    rw [hr, hb, he]
    simp only [Bool.not_true, Bool.false_eq_true, if_false]
    by_cases hi : n < i
    · rw [if_pos hi, if_neg (by omega)]
    · rw [if_neg hi, if_pos (by omega), hrk i, if_pos (by omega), ones_rk P n i (by omega)]
  refine ⟨hr1, rank0_of_rank1 c s P n hr1, ?_, ?_⟩
  · intro i
    unfold SA.predecessor1
    rw [hr, he]
    simp only [Bool.not_true, Bool.false_eq_true, if_false]
    rw [hpr i]
    by_cases hi : i < n
    · rw [if_pos hi, if_pos hi, ones_predV P n i hi]
    · rw [if_neg hi, if_neg hi]
  · intro i
    unfold SA.successor1
    rw [hr, he]
    simp only [Bool.not_true, Bool.false_eq_true, if_false]
    rw [hsu i, ones_succV]

/-- **SArray answers like the plain bit sequence.**  For every build configuration and every valid bit vector
    shorter than `2^64`: `from_bits` returns without panic; the result records `len` and the number of set bits;
    `access` and `select1` agree with the bit sequence both before and after `enable_rank`; after `enable_rank`
    so do `rank1`, `rank0`, `predecessor1`, `successor1` — for every argument, `None` exactly outside the
    domain, and also when no bit is set. -/
theorem fromBV_answers (c : Cfg) (bv : BV) (h : bv.Inv) (hn : bv.len < 2^64) :
    ∃ s, SA.fromBV c bv = .ok s ∧ s.hasRank = false ∧
      PlainAnswers c s bv.bitAt bv.len ∧
      PlainAnswers c (s.enableRank c) bv.bitAt bv.len ∧
      RankAnswers c (s.enableRank c) bv.bitAt bv.len := by
  obtain ⟨s, hs, hb, ho, hr, hcase⟩ := fromBV_ok c bv h hn
  refine ⟨s, hs, hr, ?_⟩
  rcases hcase with ⟨hz, he⟩ | ⟨hz, b, he, hh, hu⟩
  · have he' : (s.enableRank c).ef = none := by simp [SA.enableRank, he]
    exact ⟨plain_none c s _ _ hb ho hz he, plain_none c _ _ _ hb ho hz he', rank_none c _ _ _ hb hz he' rfl⟩
  · have hu' : b.univ < 2^64 := by rw [hu]; exact hn
    obtain ⟨_, a2, _, _, _, a6, a7⟩ := built_queries c b _ hh hu' (high_ofBuilder c b _ hh)
    obtain ⟨_, r2, _, r4, r5, r6, _, _, r9, r10⟩ := ranked_queries c b _ hh hu' (high_enableRank c b _ hh)
    rw [hu] at r4 r5 r6
    have he' : (s.enableRank c).ef = some ((EF.ofBuilder c b).enableRank c) := by simp [SA.enableRank, he]
    exact ⟨plain_some c s _ _ _ hb ho hz he a2 a6 a7,
      plain_some c _ _ _ _ hb ho hz he' r2 r9 r10,
      rank_some c _ _ _ _ hb he' rfl r4 r5 r6⟩

/-- without `enable_rank` the rank-based queries hit their assertion (as in the Rust code) -/
theorem norank (c : Cfg) (s : SA) (hs : s.hasRank = false) (i : Nat) :
    s.rank1 c i = .error .assertFail ∧ s.rank0 c i = .error .assertFail ∧
    s.predecessor1 c i = .error .assertFail ∧ s.successor1 c i = .error .assertFail := by
  refine ⟨?_, ?_, ?_, ?_⟩ <;> simp [SA.rank1, SA.rank0, SA.predecessor1, SA.successor1, hs, Except.bind]

end Sucds.SA
