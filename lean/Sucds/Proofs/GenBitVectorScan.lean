import Sucds.Proofs.GenBroadword
import Sucds.Proofs.GenBitVectorRW
import Sucds.Proofs.BitVectorFromBit
/-! # The linear scans of `BitVector` generated from `src/bit_vectors/bit_vector.rs` agree with the model

`Sucds.GenFn.BitVector.{rank1, rank0, num_ones, select1, select0, predecessor1/0, successor1/0}` (generated, over
`Sucds.RS`) versus `BV.rank1 …` (`Model/BitVectorScan.lean`, `Model/BitVectorPred.lean`), for every build
configuration; then the specification-level corollaries in the vocabulary of `Spec/Bits.lean`, exactly as
`Props/C07.lean` states them for the model.

The first section holds general lemmas about the loop combinators of `Model/RustSem.lean` (`forList`, `forCount`,
`whileFuel`, `loopFuel`): one-step unrolling, append/add splitting, fuel monotonicity, and the measure lemmas
`loopFuel_measure` / `whileFuel_measure` ("a loop whose measure decreases and is below the fuel equals any function
satisfying the unrolling equation"). -/
set_option linter.unusedSimpArgs false
set_option linter.unusedVariables false
namespace Sucds.GenEq
open Sucds Sucds.Spec BV

/-! ## General loop lemmas -/

/-- what a `loop` does with the result of one iteration, given what it does from the next state (`F`) -/
def stepK {σ ρ : Type} (F : σ → R (RS.Exit σ ρ)) : RS.Step σ ρ → R (RS.Exit σ ρ)
  | .next s' => F s'
  | .brk s' => .ok (.done s')
  | .ret v => .ok (.ret v)

@[simp] theorem stepK_next {σ ρ : Type} (F : σ → R (RS.Exit σ ρ)) (s : σ) : stepK F (.next s) = F s := rfl
@[simp] theorem stepK_brk {σ ρ : Type} (F : σ → R (RS.Exit σ ρ)) (s : σ) : stepK F (.brk s) = .ok (.done s) := rfl
@[simp] theorem stepK_ret {σ ρ : Type} (F : σ → R (RS.Exit σ ρ)) (v : ρ) : stepK F (.ret v : RS.Step σ ρ) = .ok (.ret v) := rfl

theorem loopFuel_zero {σ ρ : Type} (body : σ → R (RS.Step σ ρ)) (s : σ) :
    RS.loopFuel body 0 s = .error .fuel := rfl

theorem loopFuel_succ {σ ρ : Type} (body : σ → R (RS.Step σ ρ)) (n : Nat) (s : σ) :
    RS.loopFuel body (n+1) s = (body s).bind (stepK (RS.loopFuel body n)) := by
  show (body s).bind _ = (body s).bind _
  congr 1

theorem loopB_eq {σ ρ : Type} (init : σ) (body : σ → R (RS.Step σ ρ)) :
    RS.loopB init body = RS.loopFuel body RS.FUEL init := rfl

theorem FUEL_eq : RS.FUEL = 2^64 := rfl

/-- **measure lemma for `loop`/`while … break`**: if `F` satisfies the unrolling equation on the states of an
    invariant `I`, and every `next` step keeps `I` and decreases `μ`, then the loop run with any fuel above `μ s`
    equals `F s` (in particular it does not run out of fuel). -/
theorem loopFuel_measure {σ ρ : Type} (body : σ → R (RS.Step σ ρ)) (I : σ → Prop) (μ : σ → Nat)
    (F : σ → R (RS.Exit σ ρ))
    (hF : ∀ s, I s → F s = (body s).bind (stepK F))
    (hI : ∀ s s', I s → body s = .ok (.next s') → I s' ∧ μ s' < μ s) :
    ∀ (fuel : Nat) (s : σ), I s → μ s < fuel → RS.loopFuel body fuel s = F s := by
  intro fuel
  induction fuel with
  | zero => intro s _ h; omega
  | succ n ih =>
    intro s hs hμ
    rw [loopFuel_succ, hF s hs]
    cases hb : body s with
    | error e => rfl
    | ok r =>
      cases r with
      | next s' =>
        obtain ⟨h1, h2⟩ := hI s s' hs hb
        rw [bok, bok, stepK_next, stepK_next]
        exact ih s' h1 (by omega)
      | brk s' => rfl
      | ret v => rfl

/-- the same for `RS.loopB` (fuel `2^64`) -/
theorem loopB_measure {σ ρ : Type} (body : σ → R (RS.Step σ ρ)) (I : σ → Prop) (μ : σ → Nat)
    (F : σ → R (RS.Exit σ ρ))
    (hF : ∀ s, I s → F s = (body s).bind (stepK F))
    (hI : ∀ s s', I s → body s = .ok (.next s') → I s' ∧ μ s' < μ s)
    (init : σ) (h0 : I init) (hμ : μ init < 2^64) : RS.loopB init body = F init :=
  loopFuel_measure body I μ F hF hI RS.FUEL init h0 hμ

/-- more fuel does not change a result other than "out of fuel" -/
theorem loopFuel_mono {σ ρ : Type} (body : σ → R (RS.Step σ ρ)) (k : Nat) :
    ∀ (n : Nat) (s : σ), RS.loopFuel body n s ≠ .error .fuel → RS.loopFuel body (n + k) s = RS.loopFuel body n s := by
  intro n
  induction n with
  | zero => intro s h; exact absurd rfl h
  | succ n ih =>
    intro s h
    rw [show n + 1 + k = (n + k) + 1 by omega, loopFuel_succ]
    rw [loopFuel_succ] at h ⊢
    cases hb : body s with
    | error e => rfl
    | ok r =>
      rw [hb] at h
      cases r with
      | next s' =>
        rw [bok, stepK_next] at h
        rw [bok, bok, stepK_next, stepK_next]
        exact ih s' h
      | brk s' => rfl
      | ret v => rfl

theorem whileFuel_zero {σ : Type} (cond : σ → R Bool) (body : σ → R σ) (s : σ) :
    RS.whileFuel cond body 0 s = .error .fuel := rfl

theorem whileFuel_succ {σ : Type} (cond : σ → R Bool) (body : σ → R σ) (n : Nat) (s : σ) :
    RS.whileFuel cond body (n+1) s =
      (cond s).bind fun b => if b then (body s).bind fun s' => RS.whileFuel cond body n s' else .ok s := rfl

theorem whileLoop_eq {σ : Type} (init : σ) (cond : σ → R Bool) (body : σ → R σ) :
    RS.whileLoop init cond body = RS.whileFuel cond body RS.FUEL init := rfl

/-- **measure lemma for `while`** -/
theorem whileFuel_measure {σ : Type} (cond : σ → R Bool) (body : σ → R σ) (I : σ → Prop) (μ : σ → Nat)
    (F : σ → R σ)
    (hF : ∀ s, I s → F s = (cond s).bind fun b => if b then (body s).bind F else .ok s)
    (hI : ∀ s s', I s → cond s = .ok true → body s = .ok s' → I s' ∧ μ s' < μ s) :
    ∀ (fuel : Nat) (s : σ), I s → μ s < fuel → RS.whileFuel cond body fuel s = F s := by
  intro fuel
  induction fuel with
  | zero => intro s _ h; omega
  | succ n ih =>
    intro s hs hμ
    rw [whileFuel_succ, hF s hs]
    cases hc : cond s with
    | error e => rfl
    | ok b =>
      cases b with
      | false => rfl
      | true =>
        rw [bok, bok, if_pos rfl, if_pos rfl]
        cases hb : body s with
        | error e => rfl
        | ok s' =>
          obtain ⟨h1, h2⟩ := hI s s' hs hc hb
          rw [bok, bok]
          exact ih s' h1 (by omega)

theorem whileLoop_measure {σ : Type} (cond : σ → R Bool) (body : σ → R σ) (I : σ → Prop) (μ : σ → Nat)
    (F : σ → R σ)
    (hF : ∀ s, I s → F s = (cond s).bind fun b => if b then (body s).bind F else .ok s)
    (hI : ∀ s s', I s → cond s = .ok true → body s = .ok s' → I s' ∧ μ s' < μ s)
    (init : σ) (h0 : I init) (hμ : μ init < 2^64) : RS.whileLoop init cond body = F init :=
  whileFuel_measure cond body I μ F hF hI RS.FUEL init h0 hμ

/-- `for x in l1 ++ l2` -/
theorem forList_append {α σ : Type} (body : α → σ → R σ) (l1 l2 : List α) :
    ∀ s, RS.forList body (l1 ++ l2) s = (RS.forList body l1 s).bind (RS.forList body l2) := by
  induction l1 with
  | nil => intro s; rfl
  | cons x xs ih =>
    intro s
    show (body x s).bind _ = ((body x s).bind _).bind _
    cases body x s with
    | error e => rfl
    | ok s' => exact ih s'

theorem forList_nil {α σ : Type} (body : α → σ → R σ) (s : σ) : RS.forList body [] s = .ok s := rfl
theorem forList_cons {α σ : Type} (body : α → σ → R σ) (x : α) (xs : List α) (s : σ) :
    RS.forList body (x :: xs) s = (body x s).bind fun s' => RS.forList body xs s' := rfl
theorem forList_singleton {α σ : Type} (body : α → σ → R σ) (x : α) (s : σ) :
    RS.forList body [x] s = body x s := by
  rw [forList_cons]; cases body x s <;> rfl

/-- `for i in lo..lo+(n+m)` -/
theorem forCount_add {σ : Type} (body : Nat → σ → R σ) (m : Nat) :
    ∀ (n i : Nat) (s : σ), RS.forCount body i (n + m) s = (RS.forCount body i n s).bind (RS.forCount body (i + n) m) := by
  intro n
  induction n with
  | zero => intro i s; rw [Nat.zero_add]; rfl
  | succ n ih =>
    intro i s
    rw [show n + 1 + m = (n + m) + 1 by omega]
    show (body i s).bind _ = ((body i s).bind _).bind _
    cases body i s with
    | error e => rfl
    | ok s' =>
      rw [bok, bok, ih (i+1) s', show i + 1 + n = i + (n + 1) by omega]

/-- a `for` loop over a list that maintains an invariant and never fails: folds a pure function -/
theorem forList_fold {α σ : Type} (body : α → σ → R σ) (g : σ → α → σ) (I : σ → List α → Prop) :
    ∀ (l : List α) (s : σ), I s l →
      (∀ s x xs, I s (x :: xs) → body x s = .ok (g s x) ∧ I (g s x) xs) →
      RS.forList body l s = .ok (l.foldl g s) := by
  intro l
  induction l with
  | nil => intro s _ _; rfl
  | cons x xs ih =>
    intro s hs hstep
    obtain ⟨h1, h2⟩ := hstep s x xs hs
    rw [forList_cons, h1, bok]
    exact ih (g s x) h2 hstep

/-! ## Facts about the model's counters -/

theorem sumPop_mono (c : Cfg) (ws : Array Nat) {i j : Nat} (h : i ≤ j) : sumPop c ws i ≤ sumPop c ws j := by
  rw [sumPop_eq_prefixPop, sumPop_eq_prefixPop]; exact R9Index.prefixPop_mono c ws h

theorem sumPop_le (c : Cfg) (ws : Array Nat) (hw : ∀ i, wordAt ws i < 2^64) (i : Nat) : sumPop c ws i ≤ 64 * i := by
  have := R9Index.prefixPop_le c ws hw 0 i
  rw [Nat.zero_add] at this
  rw [sumPop_eq_prefixPop]
  simpa [R9Index.prefixPop] using this

theorem extract_succ_toList (ws : Array Nat) (i : Nat) (h : i < ws.size) :
    (ws.extract 0 (i+1)).toList = (ws.extract 0 i).toList ++ [wordAt ws i] := by
  simp [Array.toList_extract, List.take_add_one, wordAt, h]

/-- the representation invariant and `len < 2^64` bound the word count: every bit position of a stored word is a `usize` -/
theorem words_bound (b : BV) (h : b.Inv) (hl : b.len < 2^64) : 64 * b.words.size ≤ 2^64 := by
  have := h.size; omega

/-! ## `rank1`, `rank0`, `num_ones` -/

/-- body of the `for &w in &self.words[..wpos]` loop of `rank1` -/
def rankBody (c : Cfg) : Nat → Nat → R Nat := fun w r =>
  (GenFn.broadword.popcount c w).bind fun t1 => cadd c r t1

/-- the `for` loop of `rank1` computes `sumPop` (invariant: after `i` words the accumulator is `sumPop c ws i`) -/
theorem rank_loop (c : Cfg) (ws : Array Nat) (hw : ∀ i, wordAt ws i < 2^64) :
    ∀ i, i ≤ ws.size → sumPop c ws i < 2^64 →
      RS.forList (rankBody c) (ws.extract 0 i).toList 0 = .ok (sumPop c ws i) := by
  intro i
  induction i with
  | zero => intro _ _; simp [forList_nil, sumPop]
  | succ i ih =>
    intro hi hb
    have hm := sumPop_mono c ws (show i ≤ i + 1 by omega)
    rw [extract_succ_toList ws i (by omega), forList_append, ih (by omega) (by omega), bok, forList_singleton]
    unfold rankBody
    rw [popcount_spec c _ (hw i), bok]
    exact cadd_ok c hb

/-- `rank1` agrees with the model (only the word bound of the invariant is used) -/
theorem rank1_eq_of_lt (c : Cfg) (b : BV) (hw : ∀ i, wordAt b.words i < 2^64) (pos : Nat) (hp : pos < 2^64) :
    GenFn.BitVector.rank1 c b pos = b.rank1 c pos := by
  unfold GenFn.BitVector.rank1 BV.rank1
  simp only [GenFn.bit_vector.WORD_LEN, len_eq]
  by_cases h1 : b.len < pos
  · rw [if_pos h1, if_pos h1]
  · rw [if_neg h1, if_neg h1]
    unfold RS.slice
    by_cases h2 : b.words.size < pos / 64
    · rw [if_pos h2, if_neg (by omega)]; rfl
    · rw [if_neg h2, if_pos ⟨Nat.zero_le _, by omega⟩, bok]
      have hs := sumPop_le c b.words hw (pos / 64)
      have hloop := rank_loop c b.words hw (pos / 64) (by omega) (by omega)
      unfold rankBody at hloop
      rw [hloop, bok]
      by_cases h3 : pos % 64 ≠ 0
      · rw [if_pos h3, if_pos h3, index_eq]
        rcases idx_cases b.words (pos / 64) with ⟨_, hi⟩ | ⟨_, hi⟩
        · have hlt : pos % 64 < 64 := Nat.mod_lt _ (by decide)
          rw [hi, bok, bok, csub_ok c (Nat.le_of_lt hlt), bok, cshl_ok c (by omega : 64 - pos % 64 < 64), bok,
            popcount_spec c _ (Nat.mod_lt _ (Nat.two_pow_pos 64)), bok]
          have hsh := R9Index.popcount_shifted c (wordAt b.words (pos / 64)) (pos % 64) (by omega) hlt
          have hc := cnt_le (fun j => (wordAt b.words (pos / 64)).testBit j) (pos % 64)
          rw [cadd_ok c (by omega), bok]
        · rw [hi]; rfl
      · rw [if_neg h3, if_neg h3, bok]

theorem rank1_eq (c : Cfg) (b : BV) (h : b.Inv) (pos : Nat) (hp : pos < 2^64) :
    GenFn.BitVector.rank1 c b pos = b.rank1 c pos := rank1_eq_of_lt c b h.lt pos hp

theorem rank0_eq (c : Cfg) (b : BV) (h : b.Inv) (pos : Nat) (hp : pos < 2^64) :
    GenFn.BitVector.rank0 c b pos = b.rank0 c pos := by
  unfold GenFn.BitVector.rank0 BV.rank0
  rw [rank1_eq c b h pos hp]
  congr 1

theorem num_ones_eq (c : Cfg) (b : BV) (h : b.Inv) (hl : b.len < 2^64) :
    GenFn.BitVector.num_ones c b = b.numOnes c := by
  unfold GenFn.BitVector.num_ones BV.numOnes
  rw [rank1_eq c b h b.len hl]
  congr 1; funext r; cases r <;> rfl


/-! ## `select1`, `select0` -/

/-- body of the `while wpos < self.words.len()` loop of `select1` (`f = id`) / `select0` (`f = wnot`) -/
def selBody (c : Cfg) (f : Nat → Nat) (ws : Array Nat) (k : Nat) :
    Nat × Nat → R (RS.Step (Nat × Nat) (Option Nat)) := fun st =>
  if st.1 < ws.size then
    (RS.index ws st.1).bind fun t =>
    (GenFn.broadword.popcount c (f t)).bind fun cnt =>
    (cadd c st.2 cnt).bind fun t1 =>
    if k < t1 then
      .ok (.brk (st.1, st.2))
    else
      (cadd c st.1 1).bind fun wpos1 =>
      (cadd c st.2 cnt).bind fun cur_rank1 =>
      .ok (.next (wpos1, cur_rank1))
  else
    .ok (.brk (st.1, st.2))

/-- one iteration, under the invariant `cur = #(f-bits below 64·wpos)` -/
theorem selBody_eval (c : Cfg) (f : Nat → Nat) (b : BV) (hf : ∀ i, f (wordAt b.words i) < 2^64) (k : Nat)
    (hsz : b.words.size < 2^64) (hB : cnt (ScanB.fbit f b) (64 * b.words.size) < 2^64)
    (wpos cur : Nat) (h1 : wpos ≤ b.words.size) (h2 : cur = cnt (ScanB.fbit f b) (64 * wpos)) :
    selBody c f b.words k (wpos, cur) =
      if wpos < b.words.size then
        if k < cur + popcountN c (f (wordAt b.words wpos)) then .ok (.brk (wpos, cur))
        else .ok (.next (wpos + 1, cur + popcountN c (f (wordAt b.words wpos))))
      else .ok (.brk (wpos, cur)) := by
  unfold selBody
  simp only []
  by_cases hlt : wpos < b.words.size
  · rw [if_pos hlt, if_pos hlt, index_eq, idx_ok _ _ hlt, bok, popcount_spec c _ (hf wpos), bok]
    have hstep := ScanB.cnt_word c (ScanB.fbit f b) wpos _ (hf wpos) (fun j hj => ScanB.fbit_word f b wpos j hj)
    have hmono := cnt_mono (ScanB.fbit f b) (show 64 * (wpos + 1) ≤ 64 * b.words.size by omega)
    have hsum : cur + popcountN c (f (wordAt b.words wpos)) < 2^64 := by omega
    rw [cadd_ok c hsum, bok]
    by_cases hk : k < cur + popcountN c (f (wordAt b.words wpos))
    · rw [if_pos hk, if_pos hk]
    · rw [if_neg hk, if_neg hk, cadd_ok c (by omega : wpos + 1 < 2^64), bok, bok]
  · rw [if_neg hlt, if_neg hlt]

/-- the `while` loop of `select1`/`select0` is the model's `selLoop`
    (invariant: `wpos ≤ #words`, `cur = #(f-bits below 64·wpos)`; measure `#words - wpos`) -/
theorem sel_loop (c : Cfg) (f : Nat → Nat) (b : BV) (hf : ∀ i, f (wordAt b.words i) < 2^64) (k : Nat)
    (hsz : b.words.size < 2^64) (hB : cnt (ScanB.fbit f b) (64 * b.words.size) < 2^64) :
    RS.loopB (0, 0) (selBody c f b.words k) = .ok (.done (selLoop c f b.words k 0 0 b.words.size)) := by
  have key := loopB_measure (selBody c f b.words k)
    (fun st => st.1 ≤ b.words.size ∧ st.2 = cnt (ScanB.fbit f b) (64 * st.1))
    (fun st => b.words.size - st.1)
    (fun st => .ok (.done (selLoop c f b.words k st.1 st.2 (b.words.size - st.1))))
    ?hF ?hI (0, 0) ⟨Nat.zero_le _, rfl⟩ (by simpa using hsz)
  · rw [key]; simp only [Nat.sub_zero]
  case hF =>
    rintro ⟨wpos, cur⟩ ⟨h1, h2⟩
    simp only [] at h1 h2 ⊢
    rw [selBody_eval c f b hf k hsz hB wpos cur h1 h2]
    by_cases hlt : wpos < b.words.size
    · rw [if_pos hlt, show b.words.size - wpos = (b.words.size - (wpos + 1)) + 1 by omega]
      simp only [selLoop, if_pos hlt]
      by_cases hk : k < cur + popcountN c (f (wordAt b.words wpos))
      · rw [if_pos hk, if_pos hk]; rfl
      · rw [if_neg hk, if_neg hk]; rfl
    · rw [if_neg hlt, show b.words.size - wpos = 0 by omega]
      rfl
  case hI =>
    rintro ⟨wpos, cur⟩ ⟨wpos', cur'⟩ ⟨h1, h2⟩ hb
    simp only [] at h1 h2 hb ⊢
    rw [selBody_eval c f b hf k hsz hB wpos cur h1 h2] at hb
    by_cases hlt : wpos < b.words.size
    · rw [if_pos hlt] at hb
      by_cases hk : k < cur + popcountN c (f (wordAt b.words wpos))
      · rw [if_pos hk] at hb; cases hb
      · rw [if_neg hk] at hb
        cases hb
        have hstep := ScanB.cnt_word c (ScanB.fbit f b) wpos _ (hf wpos) (fun j hj => ScanB.fbit_word f b wpos j hj)
        exact ⟨⟨by omega, by rw [hstep, h2]⟩, by omega⟩
    · rw [if_neg hlt] at hb; cases hb

theorem selectInWordN_lt (c : Cfg) (w k p : Nat) (hw : w < 2^64) (h : selectInWordN c w k = some p) : p < 64 := by
  rw [selectInWordN_eq c w k hw] at h
  exact (sel_isKth _ _ _ _ h).1

/-- all set bits lie below `len`: the count over the stored words is the count below `len` -/
theorem cnt_words_eq (b : BV) (h : b.Inv) : cnt b.bitAt (64 * b.words.size) = cnt b.bitAt b.len := by
  have hs := h.size
  obtain ⟨d, hd⟩ := Nat.exists_eq_add_of_le (show b.len ≤ 64 * b.words.size by omega)
  rw [hd, cnt_add, C14.cnt_zero_of_false _ d (fun i _ => h.pad _ (by omega))]
  rfl

theorem select1_eq (c : Cfg) (b : BV) (h : b.Inv) (hl : b.len < 2^64) (k : Nat) (hk : k < 2^64) :
    GenFn.BitVector.select1 c b k = b.select1 c k := by
  have hsz := h.size
  have hwb := words_bound b h hl
  have hf : ∀ i, id (wordAt b.words i) < 2^64 := fun i => h.lt i
  have hB : cnt (ScanB.fbit id b) (64 * b.words.size) < 2^64 := by
    rw [ScanB.fbit_id, cnt_words_eq b h]
    exact Nat.lt_of_le_of_lt (cnt_le _ _) hl
  obtain ⟨r2, rle, rsz, rnext⟩ := selLoop_spec c id b hf k b.words.size 0 (Nat.zero_le _) (by omega) (Nat.zero_le _)
  simp only [Nat.mul_zero, cnt] at r2 rle rsz rnext
  unfold GenFn.BitVector.select1 BV.select1
  show (RS.loopB (0, 0) (selBody c id b.words k)).bind _ = _
  rw [sel_loop c id b hf k (by omega) hB, bok]
  cases hr : selLoop c id b.words k 0 0 b.words.size with
  | mk wpos cur =>
    rw [hr] at r2 rle rsz rnext
    simp only [] at r2 rle rsz rnext
    simp only [GenFn.bit_vector.WORD_LEN]
    by_cases hend : wpos = b.words.size
    · rw [if_pos hend, if_pos hend]
    · rw [if_neg hend, if_neg hend]
      have hlt : wpos < b.words.size := by omega
      rw [cmul_ok c (by omega : wpos * 64 < 2^64), bok, index_eq, idx_ok _ _ hlt, bok,
        csub_ok c (by omega : cur ≤ k), bok, select_in_word_spec c _ _ (h.lt wpos) (by omega), bok]
      cases hs : selectInWordN c (wordAt b.words wpos) (k - cur) with
      | none => rfl
      | some p =>
        have hp := selectInWordN_lt c _ _ p (h.lt wpos) hs
        show (cadd c (wpos * 64) p).bind _ = _
        rw [cadd_ok c (by omega), bok]

theorem select0_eq (c : Cfg) (b : BV) (h : b.Inv) (hl : b.len + 63 < 2^64) (k : Nat) (hk : k < 2^64) :
    GenFn.BitVector.select0 c b k = b.select0 c k := by
  have hsz := h.size
  have hwb : 64 * b.words.size < 2^64 := by omega
  have hf : ∀ i, wnot (wordAt b.words i) < 2^64 := fun i => ScanB.wnot_lt _
  have hB : cnt (ScanB.fbit wnot b) (64 * b.words.size) < 2^64 :=
    Nat.lt_of_le_of_lt (cnt_le _ _) hwb
  obtain ⟨r2, rle, rsz, rnext⟩ := selLoop_spec c wnot b hf k b.words.size 0 (Nat.zero_le _) (by omega) (Nat.zero_le _)
  simp only [Nat.mul_zero, cnt] at r2 rle rsz rnext
  unfold GenFn.BitVector.select0 BV.select0
  show (RS.loopB (0, 0) (selBody c wnot b.words k)).bind _ = _
  rw [sel_loop c wnot b hf k (by omega) hB, bok]
  cases hr : selLoop c wnot b.words k 0 0 b.words.size with
  | mk wpos cur =>
    rw [hr] at r2 rle rsz rnext
    simp only [] at r2 rle rsz rnext
    simp only [GenFn.bit_vector.WORD_LEN, len_eq]
    by_cases hend : wpos = b.words.size
    · rw [if_pos hend, if_pos hend]
    · rw [if_neg hend, if_neg hend]
      have hlt : wpos < b.words.size := by omega
      rw [cmul_ok c (by omega : wpos * 64 < 2^64), bok, index_eq, idx_ok _ _ hlt, bok,
        csub_ok c (by omega : cur ≤ k), bok, select_in_word_spec c _ _ (hf wpos) (by omega), bok]
      cases hs : selectInWordN c (wnot (wordAt b.words wpos)) (k - cur) with
      | none => rfl
      | some p =>
        have hp := selectInWordN_lt c _ _ p (hf wpos) hs
        show (cadd c (wpos * 64) p).bind _ = _
        rw [cadd_ok c (by omega), bok]
        by_cases hq : wpos * 64 + p < b.len
        · simp only [hq, decide_true, if_true]
        · simp only [hq, decide_false, if_false]; rfl


/-! ## `predecessor1`, `predecessor0` -/

/-- body of the backward `loop` of `predecessor1` (`f = id`) / `predecessor0` (`f = wnot`) -/
def predBody (c : Cfg) (f : Nat → Nat) (ws : Array Nat) :
    Nat × Nat → R (RS.Step (Nat × Nat) (Option Nat)) := fun st =>
  (GenFn.broadword.msb c st.2).bind fun m =>
  (match m with
    | some ret =>
      (cmul c st.1 64).bind fun t3 =>
      (cadd c t3 ret).bind fun t4 =>
      .ok (.ret (some t4))
    | _ =>
      if st.1 = 0 then
        .ok (.ret none)
      else
        (csub c st.1 1).bind fun block2 =>
        (RS.index ws block2).bind fun t5 =>
        .ok (.next (block2, f t5)))

theorem predBody_eval (c : Cfg) (f : Nat → Nat) (ws : Array Nat) (block word : Nat)
    (hb : block * 64 + 64 ≤ 2^64) (hw : word < 2^64) :
    predBody c f ws (block, word) =
      match msbW c word with
      | some r => .ok (.ret (some (block * 64 + r)))
      | none =>
        if block = 0 then .ok (.ret none)
        else (idx ws (block - 1)).bind fun w => .ok (.next (block - 1, f w)) := by
  unfold predBody
  simp only []
  rw [msb_spec c word hw, bok]
  cases hm : msbW c word with
  | none =>
    simp only []
    by_cases h0 : block = 0
    · rw [if_pos h0, if_pos h0]
    · rw [if_neg h0, if_neg h0, csub_ok c (by omega : 1 ≤ block), bok, index_eq]
  | some r =>
    have hr := (ScanB.msbW_some c word r hw hm).1
    simp only []
    rw [cmul_ok c (by omega : block * 64 < 2^64), bok, cadd_ok c (by omega : block * 64 + r < 2^64), bok]

/-- the backward loop is the model's `predLoop` (invariant: `block·64 + 64 ≤ 2^64`, `word < 2^64`; measure `block`);
    `K` is the continuation after the loop, which only ever sees an early `return` -/
theorem pred_loop (c : Cfg) (f : Nat → Nat) (ws : Array Nat) (hws : ∀ i, wordAt ws i < 2^64)
    (hfw : ∀ w, w < 2^64 → f w < 2^64) (block word : Nat) (hb : block * 64 + 64 ≤ 2^64) (hw : word < 2^64)
    (K : RS.Exit (Nat × Nat) (Option Nat) → R (Option Nat)) (hK : ∀ rv, K (.ret rv) = .ok rv) :
    (RS.loopB (block, word) (predBody c f ws)).bind K = predLoop c f ws block word block := by
  have key := loopB_measure (predBody c f ws)
    (fun st => st.1 * 64 + 64 ≤ 2^64 ∧ st.2 < 2^64)
    (fun st => st.1)
    (fun st => (predLoop c f ws st.1 st.2 st.1).bind fun r => .ok (.ret r))
    ?hF ?hI (block, word) ⟨hb, hw⟩ (by simp only []; omega)
  · rw [key]
    simp only []
    cases predLoop c f ws block word block with
    | error e => rfl
    | ok r => rw [bok, bok, hK]
  case hF =>
    rintro ⟨bl, wd⟩ ⟨h1, h2⟩
    simp only [] at h1 h2 ⊢
    rw [predBody_eval c f ws bl wd h1 h2]
    cases bl with
    | zero =>
      simp only [predLoop]
      cases msbW c wd with
      | none => rfl
      | some r => rfl
    | succ n =>
      simp only [predLoop]
      cases msbW c wd with
      | none =>
        simp only [Nat.add_one_ne_zero, if_false, Nat.add_sub_cancel]
        cases idx ws n with
        | error e => rfl
        | ok w => rfl
      | some r => rfl
  case hI =>
    rintro ⟨bl, wd⟩ ⟨bl', wd'⟩ ⟨h1, h2⟩ hbd
    simp only [] at h1 h2 hbd ⊢
    rw [predBody_eval c f ws bl wd h1 h2] at hbd
    cases hm : msbW c wd with
    | some r => rw [hm] at hbd; cases hbd
    | none =>
      rw [hm] at hbd
      simp only [] at hbd
      by_cases h0 : bl = 0
      · rw [if_pos h0] at hbd; cases hbd
      · rw [if_neg h0] at hbd
        rcases idx_cases ws (bl - 1) with ⟨_, hi⟩ | ⟨_, hi⟩
        · rw [hi, bok] at hbd
          cases hbd
          exact ⟨⟨by omega, hfw _ (hws _)⟩, by omega⟩
        · rw [hi] at hbd; cases hbd

theorem predecessor1_eq (c : Cfg) (b : BV) (h : b.Inv) (hl : b.len < 2^64) (pos : Nat) :
    GenFn.BitVector.predecessor1 c b pos = b.predecessor1 c pos := by
  have hsz := h.size
  have hwb := words_bound b h hl
  unfold GenFn.BitVector.predecessor1 BV.predecessor1 BV.predecessor GenFn.BitVector.len
  simp only [GenFn.bit_vector.WORD_LEN]
  by_cases hle : b.len ≤ pos
  · rw [if_pos hle, if_pos hle]
  · rw [if_neg hle, if_neg hle]
    have hlt : pos % 64 < 64 := Nat.mod_lt _ (by decide)
    have hblk : pos / 64 < b.words.size := by omega
    rw [csub_ok c (Nat.le_of_lt hlt), bok, csub_ok c (by omega : 1 ≤ 64 - pos % 64), bok, index_eq,
      idx_ok _ _ hblk, bok, bok, cshl_ok c (by omega : 64 - pos % 64 - 1 < 64), bok,
      cshr_ok c (by omega : 64 - pos % 64 - 1 < 64), bok]
    show (RS.loopB _ (predBody c id b.words)).bind _ = _
    exact pred_loop c id b.words h.lt (fun w hw => hw) _ _ (by omega)
      (Nat.lt_of_le_of_lt (Nat.shiftRight_le _ _) (Nat.mod_lt _ (by decide))) _ (fun rv => rfl)

theorem predecessor0_eq (c : Cfg) (b : BV) (h : b.Inv) (hl : b.len < 2^64) (pos : Nat) :
    GenFn.BitVector.predecessor0 c b pos = b.predecessor0 c pos := by
  have hsz := h.size
  have hwb := words_bound b h hl
  unfold GenFn.BitVector.predecessor0 BV.predecessor0 BV.predecessor GenFn.BitVector.len
  simp only [GenFn.bit_vector.WORD_LEN]
  by_cases hle : b.len ≤ pos
  · rw [if_pos hle, if_pos hle]
  · rw [if_neg hle, if_neg hle]
    have hlt : pos % 64 < 64 := Nat.mod_lt _ (by decide)
    have hblk : pos / 64 < b.words.size := by omega
    rw [csub_ok c (Nat.le_of_lt hlt), bok, csub_ok c (by omega : 1 ≤ 64 - pos % 64), bok, index_eq,
      idx_ok _ _ hblk, bok, bok, cshl_ok c (by omega : 64 - pos % 64 - 1 < 64), bok,
      cshr_ok c (by omega : 64 - pos % 64 - 1 < 64), bok]
    show (RS.loopB _ (predBody c wnot b.words)).bind _ = _
    exact pred_loop c wnot b.words h.lt (fun w _ => ScanB.wnot_lt w) _ _ (by omega)
      (Nat.lt_of_le_of_lt (Nat.shiftRight_le _ _) (Nat.mod_lt _ (by decide))) _ (fun rv => rfl)

/-! ## `successor1`, `successor0` -/

/-- body of the forward `loop` of `successor1` (`f = id`) / `successor0` (`f = wnot`) -/
def succBody (c : Cfg) (f : Nat → Nat) (b : BV) :
    Nat × Nat → R (RS.Step (Nat × Nat) (Option Nat)) := fun st =>
  (GenFn.broadword.lsb c st.2).bind fun m =>
  (match m with
    | some ret =>
      (cmul c st.1 64).bind fun t2 =>
      (cadd c t2 ret).bind fun t3 =>
      (match some t3 with
        | none => .ok none
        | some i =>
          .ok (if (decide (i < (GenFn.BitVector.len b))) = true then some i else none) : R _).bind fun t4 =>
      .ok (.ret t4)
    | _ =>
      (cadd c st.1 1).bind fun block2 =>
      if block2 = b.words.size then
        .ok (.ret none)
      else
        (RS.index b.words block2).bind fun t5 =>
        .ok (.next (block2, f t5)))

theorem succBody_eval (c : Cfg) (f : Nat → Nat) (b : BV) (block word : Nat)
    (hb : block * 64 + 64 ≤ 2^64) (hw : word < 2^64) :
    succBody c f b (block, word) =
      match lsbW c word with
      | some r => .ok (.ret (if block * 64 + r < b.len then some (block * 64 + r) else none))
      | none =>
        if block + 1 = b.words.size then .ok (.ret none)
        else (idx b.words (block + 1)).bind fun w => .ok (.next (block + 1, f w)) := by
  unfold succBody
  simp only []
  rw [lsb_spec c word hw, bok]
  cases hm : lsbW c word with
  | none =>
    simp only []
    rw [cadd_ok c (by omega : block + 1 < 2^64), bok, index_eq]
  | some r =>
    have hr := (ScanB.lsbW_some c word r hw hm).1
    simp only []
    rw [cmul_ok c (by omega : block * 64 < 2^64), bok, cadd_ok c (by omega : block * 64 + r < 2^64), bok]
    rw [bok]
    by_cases hq : block * 64 + r < b.len
    · simp only [len_eq, hq, decide_true, if_true]
    · simp only [len_eq, hq, decide_false, if_false]; rfl

/-- the forward loop is the model's `succLoop`, whose fuel `N - block` only has to stay positive while
    `block < #words` (invariant: `block < #words`, `word < 2^64`; measure `#words - block`) -/
theorem succ_loop (c : Cfg) (f : Nat → Nat) (b : BV) (hws : ∀ i, wordAt b.words i < 2^64)
    (hfw : ∀ w, w < 2^64 → f w < 2^64) (hwb : 64 * b.words.size ≤ 2^64) (N : Nat) (hN : b.words.size ≤ N)
    (block word : Nat) (hb : block < b.words.size) (hw : word < 2^64)
    (K : RS.Exit (Nat × Nat) (Option Nat) → R (Option Nat)) (hK : ∀ rv, K (.ret rv) = .ok rv) :
    (RS.loopB (block, word) (succBody c f b)).bind K = succLoop c f b block word (N - block) := by
  have key := loopB_measure (succBody c f b)
    (fun st => st.1 < b.words.size ∧ st.2 < 2^64)
    (fun st => b.words.size - st.1)
    (fun st => (succLoop c f b st.1 st.2 (N - st.1)).bind fun r => .ok (.ret r))
    ?hF ?hI (block, word) ⟨hb, hw⟩ (by simp only []; omega)
  · rw [key]
    simp only []
    cases succLoop c f b block word (N - block) with
    | error e => rfl
    | ok r => rw [bok, bok, hK]
  case hF =>
    rintro ⟨bl, wd⟩ ⟨h1, h2⟩
    simp only [] at h1 h2 ⊢
    rw [succBody_eval c f b bl wd (by omega) h2, show N - bl = (N - (bl + 1)) + 1 by omega]
    simp only [succLoop]
    cases lsbW c wd with
    | none =>
      simp only []
      by_cases he : bl + 1 = b.words.size
      · rw [if_pos he, if_pos he]; rfl
      · rw [if_neg he, if_neg he]
        cases idx b.words (bl + 1) with
        | error e => rfl
        | ok w => rfl
    | some r => rfl
  case hI =>
    rintro ⟨bl, wd⟩ ⟨bl', wd'⟩ ⟨h1, h2⟩ hbd
    simp only [] at h1 h2 hbd ⊢
    rw [succBody_eval c f b bl wd (by omega) h2] at hbd
    cases hm : lsbW c wd with
    | some r => rw [hm] at hbd; cases hbd
    | none =>
      rw [hm] at hbd
      simp only [] at hbd
      by_cases he : bl + 1 = b.words.size
      · rw [if_pos he] at hbd; cases hbd
      · rw [if_neg he] at hbd
        rcases idx_cases b.words (bl + 1) with ⟨_, hi⟩ | ⟨_, hi⟩
        · rw [hi, bok] at hbd
          cases hbd
          exact ⟨⟨by omega, hfw _ (hws _)⟩, by omega⟩
        · rw [hi] at hbd; cases hbd

theorem successor1_eq (c : Cfg) (b : BV) (h : b.Inv) (hl : b.len < 2^64) (pos : Nat) :
    GenFn.BitVector.successor1 c b pos = b.successor1 c pos := by
  have hsz := h.size
  have hwb := words_bound b h hl
  unfold GenFn.BitVector.successor1 BV.successor1 BV.successor GenFn.BitVector.len
  simp only [GenFn.bit_vector.WORD_LEN]
  by_cases hle : b.len ≤ pos
  · rw [if_pos hle, if_pos hle]
  · rw [if_neg hle, if_neg hle]
    have hlt : pos % 64 < 64 := Nat.mod_lt _ (by decide)
    have hblk : pos / 64 < b.words.size := by omega
    rw [index_eq, idx_ok _ _ hblk, bok, bok, cshr_ok c hlt, bok, cshl_ok c hlt, bok]
    show (RS.loopB _ (succBody c id b)).bind _ = _
    refine (succ_loop c id b h.lt (fun w hw => hw) hwb (b.words.size + pos / 64) (by omega) (pos / 64) _ hblk
      (Nat.mod_lt _ (Nat.two_pow_pos 64)) _ (fun rv => rfl)).trans ?_
    rw [Nat.add_sub_cancel]; rfl

theorem successor0_eq (c : Cfg) (b : BV) (h : b.Inv) (hl : b.len < 2^64) (pos : Nat) :
    GenFn.BitVector.successor0 c b pos = b.successor0 c pos := by
  have hsz := h.size
  have hwb := words_bound b h hl
  unfold GenFn.BitVector.successor0 BV.successor0 BV.successor GenFn.BitVector.len
  simp only [GenFn.bit_vector.WORD_LEN]
  by_cases hle : b.len ≤ pos
  · rw [if_pos hle, if_pos hle]
  · rw [if_neg hle, if_neg hle]
    have hlt : pos % 64 < 64 := Nat.mod_lt _ (by decide)
    have hblk : pos / 64 < b.words.size := by omega
    rw [index_eq, idx_ok _ _ hblk, bok, bok, cshr_ok c hlt, bok, cshl_ok c hlt, bok]
    show (RS.loopB _ (succBody c wnot b)).bind _ = _
    refine (succ_loop c wnot b h.lt (fun w _ => ScanB.wnot_lt w) hwb (b.words.size + pos / 64) (by omega) (pos / 64) _ hblk
      (Nat.mod_lt _ (Nat.two_pow_pos 64)) _ (fun rv => rfl)).trans ?_
    rw [Nat.add_sub_cancel]


/-! ## Specification-level corollaries (the statements of `Props/C07.lean`, for the generated definitions) -/

/-- **rank1**: the number of set bits before `pos`, `none` iff `pos > len` -/
theorem rank1_spec (c : Cfg) (b : BV) (h : b.Inv) (pos : Nat) (hp : pos < 2^64) :
    GenFn.BitVector.rank1 c b pos = .ok (if pos ≤ b.len then some (cnt b.bitAt pos) else none) := by
  rw [rank1_eq c b h pos hp, rank1_ok c b h pos]

/-- **rank0** = `pos - rank1(pos)` -/
theorem rank0_spec (c : Cfg) (b : BV) (h : b.Inv) (pos : Nat) (hp : pos < 2^64) :
    GenFn.BitVector.rank0 c b pos = .ok (if pos ≤ b.len then some (pos - cnt b.bitAt pos) else none) := by
  rw [rank0_eq c b h pos hp, rank0_ok c b h pos]

/-- **num_ones**: the number of set bits -/
theorem num_ones_spec (c : Cfg) (b : BV) (h : b.Inv) (hl : b.len < 2^64) :
    GenFn.BitVector.num_ones c b = .ok (cnt b.bitAt b.len) := by
  rw [num_ones_eq c b h hl, numOnes_ok c b h]

/-- **select1**: the position of the `k`-th set bit, `none` iff there are at most `k` -/
theorem select1_spec (c : Cfg) (b : BV) (h : b.Inv) (hl : b.len < 2^64) (k : Nat) (hk : k < 2^64) :
    GenFn.BitVector.select1 c b k = .ok (sel b.bitAt b.len k) := by
  rw [select1_eq c b h hl k hk, select1_ok c b h k]

/-- **select0**: the position of the `k`-th unset bit, `none` iff there are at most `k` -/
theorem select0_spec (c : Cfg) (b : BV) (h : b.Inv) (hl : b.len + 63 < 2^64) (k : Nat) (hk : k < 2^64) :
    GenFn.BitVector.select0 c b k = .ok (sel (fun i => !b.bitAt i) b.len k) := by
  rw [select0_eq c b h hl k hk, select0_ok c b h k]

/-- **predecessor1**: the largest set position `≤ pos`; `none` when there is none or `pos ≥ len` -/
theorem predecessor1_spec (c : Cfg) (b : BV) (h : b.Inv) (hl : b.len < 2^64) (pos : Nat) :
    GenFn.BitVector.predecessor1 c b pos = .ok (if pos < b.len then predP b.bitAt pos else none) := by
  rw [predecessor1_eq c b h hl pos, predecessor1_ok c b h pos]

/-- **predecessor0**: the largest unset position `≤ pos`; `none` when there is none or `pos ≥ len` -/
theorem predecessor0_spec (c : Cfg) (b : BV) (h : b.Inv) (hl : b.len < 2^64) (pos : Nat) :
    GenFn.BitVector.predecessor0 c b pos = .ok (if pos < b.len then predP (fun i => !b.bitAt i) pos else none) := by
  rw [predecessor0_eq c b h hl pos, predecessor0_ok c b h pos]

/-- **successor1**: the smallest set position in `[pos, len)`; `none` when there is none or `pos ≥ len` -/
theorem successor1_spec (c : Cfg) (b : BV) (h : b.Inv) (hl : b.len < 2^64) (pos : Nat) :
    GenFn.BitVector.successor1 c b pos = .ok (if pos < b.len then succP b.bitAt b.len pos else none) := by
  rw [successor1_eq c b h hl pos, successor1_ok c b h pos]

/-- **successor0**: the smallest unset position in `[pos, len)`; `none` when there is none or `pos ≥ len` -/
theorem successor0_spec (c : Cfg) (b : BV) (h : b.Inv) (hl : b.len < 2^64) (pos : Nat) :
    GenFn.BitVector.successor0 c b pos = .ok (if pos < b.len then succP (fun i => !b.bitAt i) b.len pos else none) := by
  rw [successor0_eq c b h hl pos, successor0_ok c b h pos]

/-- the scan fields of `C07.ReadsOK`, for the definitions generated from the code -/
structure ScansOK (c : Cfg) (b : BV) : Prop where
  rank1    : ∀ pos, pos < 2^64 → GenFn.BitVector.rank1 c b pos = .ok (if pos ≤ b.len then some (cnt b.bitAt pos) else none)
  rank0    : ∀ pos, pos < 2^64 → GenFn.BitVector.rank0 c b pos = .ok (if pos ≤ b.len then some (pos - cnt b.bitAt pos) else none)
  select1  : ∀ k, k < 2^64 → GenFn.BitVector.select1 c b k = .ok (sel b.bitAt b.len k)
  select0  : ∀ k, k < 2^64 → GenFn.BitVector.select0 c b k = .ok (sel (fun i => !b.bitAt i) b.len k)
  pred1    : ∀ pos, GenFn.BitVector.predecessor1 c b pos = .ok (if pos < b.len then predP b.bitAt pos else none)
  pred0    : ∀ pos, GenFn.BitVector.predecessor0 c b pos = .ok (if pos < b.len then predP (fun i => !b.bitAt i) pos else none)
  succ1    : ∀ pos, GenFn.BitVector.successor1 c b pos = .ok (if pos < b.len then succP b.bitAt b.len pos else none)
  succ0    : ∀ pos, GenFn.BitVector.successor0 c b pos = .ok (if pos < b.len then succP (fun i => !b.bitAt i) b.len pos else none)
  num_ones : GenFn.BitVector.num_ones c b = .ok (cnt b.bitAt b.len)

/-- every valid bit vector of at most `2^64 - 64` bits: all scans of the generated code meet the specification,
    in every build configuration (in particular none panics and every loop terminates within its fuel) -/
theorem scans_ok (c : Cfg) (b : BV) (h : b.Inv) (hl : b.len + 63 < 2^64) : ScansOK c b where
  rank1 pos hp := rank1_spec c b h pos hp
  rank0 pos hp := rank0_spec c b h pos hp
  select1 k hk := select1_spec c b h (by omega) k hk
  select0 k hk := select0_spec c b h hl k hk
  pred1 pos := predecessor1_spec c b h (by omega) pos
  pred0 pos := predecessor0_spec c b h (by omega) pos
  succ1 pos := successor1_spec c b h (by omega) pos
  succ0 pos := successor0_spec c b h (by omega) pos
  num_ones := num_ones_spec c b h (by omega)


/-! ## Boundary of `select0`: why `len + 63 < 2^64` is needed

`select0` counts the zeros of whole words, *including the padding of the last word*, so on an all-zero vector
of more than `2^64 - 64` bits (`2^58` words) the running count `cur_rank + cnt` reaches `2^64`: a checked build panics
with an arithmetic overflow, although the model (unbounded `Nat`) answers — correctly — `Some(k)`. Such a vector
needs `2^61` bytes, so no real execution reaches this; every other scan only needs `len < 2^64`. -/

theorem popcountN_wnot_zero (c : Cfg) : popcountN c (wnot 0) = 64 := by
  rw [popcountN_eq c _ (ScanB.wnot_lt 0)]
  have : cnt (fun i => (wnot 0).testBit i) 64 = cnt (fun _ => true) 64 :=
    cnt_congr _ _ 64 (fun i hi => by rw [ScanB.wnot_testBit 0 i (by decide) hi]; simp)
  rw [this]; rfl

theorem words_zero_of_bits (b : BV) (h : b.Inv) (hz : ∀ i, b.bitAt i = false) (i : Nat) : wordAt b.words i = 0 :=
  eq_zero_of_bits _ (h.lt i) (fun j hj => by rw [word_testBit b i j hj]; exact hz _)

/-- generated code, checked build: `select0(k)` on an all-zero vector of `≥ 2^64 - 63` bits panics for every
    `k ≥ 2^64 - 64` -/
theorem select0_overflows_near_usize_max (c : Cfg) (hc : c.checked = true) (b : BV) (h : b.Inv)
    (hz : ∀ i, b.bitAt i = false) (hl : b.len < 2^64) (hbig : 2^64 ≤ b.len + 63) (k : Nat) (hk : 2^64 ≤ k + 64) :
    GenFn.BitVector.select0 c b k = .error .overflow := by
  have hsz := h.size
  have hsz64 : 64 * b.words.size = 2^64 := by omega
  have hw0 := words_zero_of_bits b h hz
  have eval : ∀ wpos, wpos < b.words.size →
      selBody c wnot b.words k (wpos, 64 * wpos) =
        if wpos + 1 = b.words.size then .error .overflow else .ok (.next (wpos + 1, 64 * wpos + 64)) := by
    intro wpos h1
    unfold selBody
    simp only []
    rw [if_pos h1, index_eq, idx_ok _ _ h1, bok, hw0, popcount_spec c _ (ScanB.wnot_lt 0), bok, popcountN_wnot_zero]
    by_cases hlast : wpos + 1 = b.words.size
    · rw [if_pos hlast]
      unfold cadd
      rw [if_neg (by omega), hc]; rfl
    · rw [if_neg hlast, cadd_ok c (by omega : 64 * wpos + 64 < 2^64), bok, if_neg (by omega),
        cadd_ok c (by omega : wpos + 1 < 2^64), bok, bok]
  unfold GenFn.BitVector.select0
  show (RS.loopB (0, 0) (selBody c wnot b.words k)).bind _ = _
  have key := loopB_measure (selBody c wnot b.words k)
    (fun st => st.1 < b.words.size ∧ st.2 = 64 * st.1)
    (fun st => b.words.size - st.1)
    (fun _ => .error .overflow)
    ?hF ?hI (0, 0) ⟨by simp only []; omega, rfl⟩ (by simp only []; omega)
  · rw [key]; rfl
  case hF =>
    rintro ⟨wpos, cur⟩ ⟨h1, h2⟩
    simp only [] at h1 h2 ⊢
    subst h2
    rw [eval wpos h1]
    by_cases hlast : wpos + 1 = b.words.size
    · rw [if_pos hlast]; rfl
    · rw [if_neg hlast]; rfl
  case hI =>
    rintro ⟨wpos, cur⟩ ⟨wpos', cur'⟩ ⟨h1, h2⟩ hb
    simp only [] at h1 h2 hb ⊢
    subst h2
    rw [eval wpos h1] at hb
    by_cases hlast : wpos + 1 = b.words.size
    · rw [if_pos hlast] at hb; cases hb
    · rw [if_neg hlast] at hb
      cases hb
      exact ⟨⟨by omega, by omega⟩, by omega⟩

/-- model (and specification): the `k`-th zero of an all-zero vector is position `k` -/
theorem select0_model_all_zero (c : Cfg) (b : BV) (h : b.Inv) (hz : ∀ i, b.bitAt i = false) (k : Nat) (hk : k < b.len) :
    b.select0 c k = .ok (some k) := by
  rw [select0_ok c b h k]
  congr 1
  apply sel_eq_some
  refine ⟨hk, by simp [hz], ?_⟩
  have h1 := cnt_compl b.bitAt k
  rw [C14.cnt_zero_of_false _ k (fun i _ => hz i)] at h1
  omega

/-- the two facts together on the concrete vector `BitVector::from_bit(false, 2^64 - 1)`, `k = 2^64 - 64`
    (debug build): the generated code panics, the model returns `Some(k)` -/
theorem select0_differs_near_usize_max (c : Cfg) (hc : c.checked = true) :
    GenFn.BitVector.select0 c (fromBit false (2^64 - 1)) (2^64 - 64) = .error .overflow ∧
    (fromBit false (2^64 - 1)).select0 c (2^64 - 64) = .ok (some (2^64 - 64)) := by
  obtain ⟨hinv, hlen, hbits⟩ := fromBit_spec false (2^64 - 1)
  have hz : ∀ i, (fromBit false (2^64 - 1)).bitAt i = false := fun i => by rw [hbits i]; simp
  exact ⟨select0_overflows_near_usize_max c hc _ hinv hz (by rw [hlen]; omega) (by rw [hlen]; omega) _ (by omega),
    select0_model_all_zero c _ hinv hz _ (by rw [hlen]; omega)⟩


end Sucds.GenEq
