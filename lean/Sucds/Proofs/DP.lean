namespace DP

/-- the inner `for b in 1..=m` loop of compute_opt_widths with its `<=` update:
    returns (dp_s entry, dp_b entry) -/
def scan (f : Nat → Nat) : Nat → Nat × Nat
  | 0 => (2^64 - 1, 0)
  | m+1 => if f (m+1) ≤ (scan f m).1 then (f (m+1), m+1) else scan f m

theorem scan_spec (f : Nat → Nat) (hf : ∀ b, f b ≤ 2^64 - 1) (m : Nat) (hm : 1 ≤ m) :
    1 ≤ (scan f m).2 ∧ (scan f m).2 ≤ m ∧ (scan f m).1 = f (scan f m).2 ∧
    ∀ b, 1 ≤ b → b ≤ m → (scan f m).1 ≤ f b := by
  induction m with
  | zero => omega
  | succ m ih =>
    by_cases hm0 : m = 0
    · subst hm0
      have h01 : f 1 ≤ (scan f 0).1 := by simp only [scan]; exact hf 1
      have e : scan f (0+1) = (f 1, 1) := by
        simp only [scan, Nat.zero_add] at h01 ⊢
        simp only [h01, if_true]
      rw [e]
      refine ⟨Nat.le_refl _, Nat.le_refl _, rfl, ?_⟩
      intro b h1 h2
      have : b = 1 := by omega
      subst this; exact Nat.le_refl _
    · obtain ⟨h1, h2, h3, h4⟩ := ih (by omega)
      unfold scan
      split
      · rename_i hle
        refine ⟨by simp, by simp, rfl, ?_⟩
        intro b hb1 hb2
        by_cases hb : b = m + 1
        · subst hb; exact Nat.le_refl _
        · exact Nat.le_trans hle (h4 b hb1 (by omega))
      · rename_i hnle
        refine ⟨h1, by omega, h3, ?_⟩
        intro b hb1 hb2
        by_cases hb : b = m + 1
        · subst hb; omega
        · exact h4 b hb1 (by omega)

variable (W : Nat) (N : Nat → Nat)

/-- dp_s[j][r] -/
def S : Nat → Nat → Nat
  | 0, j => (W - j) * N j
  | r+1, j => if j < W then (scan (fun b => (b+1) * N j + S r (j+b)) (W - j)).1 else 0
/-- dp_b[j][r] -/
def B : Nat → Nat → Nat
  | 0, j => W - j
  | r+1, j => if j < W then (scan (fun b => (b+1) * N j + S W N r (j+b)) (W - j)).2 else 0

/-- the reconstruction loop, started with `r+1` levels at bit offset `j` -/
def recon : Nat → Nat → List Nat
  | 0, j => if j < W then [W - j] else []
  | r+1, j => if j < W then B W N (r+1) j :: recon r (j + B W N (r+1) j) else []

/-- the property's cost: (width + 1 flag) × reaching values per level, no flag on the last level -/
def cost : Nat → List Nat → Nat
  | _, [] => 0
  | j, [w] => w * N j
  | j, w :: w' :: ws => (w+1) * N j + cost (j+w) (w' :: ws)
/-- every level pays a flag -/
def fcost : Nat → List Nat → Nat
  | _, [] => 0
  | j, w :: ws => (w+1) * N j + fcost (j+w) ws

/-- `ws` splits the remaining `W - j` bits into positive widths -/
def Comp : Nat → List Nat → Prop
  | j, [] => j = W
  | j, w :: ws => 1 ≤ w ∧ j + w ≤ W ∧ Comp (j+w) ws

theorem comp_lt {j : Nat} {ws : List Nat} (h : Comp W j ws) (hne : ws ≠ []) : j < W := by
  cases ws with
  | nil => exact absurd rfl hne
  | cons w t => obtain ⟨h1, h2, _⟩ := h; omega

/-- all intermediate costs fit a machine word (sizes bounded by memory) -/
def Small : Prop := ∀ r j b, (b+1) * N j + S W N r (j+b) ≤ 2^64 - 1

/-- lower bound: a split into exactly r+1 parts costs at least dp_s[j][r] -/
theorem S_le_cost (hs : Small W N) (r : Nat) : ∀ (j : Nat) (ws : List Nat), Comp W j ws → ws.length = r + 1 →
    S W N r j ≤ cost N j ws := by
  induction r with
  | zero =>
    intro j ws hc hl
    match ws, hl with
    | [w], _ =>
      obtain ⟨h1, h2, h3⟩ := hc
      simp only [Comp] at h3
      simp only [S, cost]
      have : W - j = w := by omega
      rw [this]; exact Nat.le_refl _
  | succ r ih =>
    intro j ws hc hl
    match ws, hl with
    | w :: w' :: t, hl =>
      obtain ⟨h1, h2, h3⟩ := hc
      have hjw : j + w < W := comp_lt W h3 (by simp)
      have hj : j < W := by omega
      have ihh := ih (j+w) (w' :: t) h3 (by simpa using hl)
      simp only [S, hj, if_true, cost]
      have sp := scan_spec (fun b => (b+1) * N j + S W N r (j+b)) (fun b => hs r j b) (W - j) (by omega)
      have := sp.2.2.2 w h1 (by omega)
      omega

theorem cost_le_fcost : ∀ (ws : List Nat) (j : Nat), cost N j ws ≤ fcost N j ws := by
  intro ws
  induction ws with
  | nil => intro j; simp [cost, fcost]
  | cons w t ih =>
    intro j
    cases t with
    | nil => simp only [cost, fcost]; rw [Nat.add_mul]; omega
    | cons w' t' => simp only [cost, fcost]; have := ih (j+w); simp only [fcost] at this; omega

/-- with a flag bit costing at least one per level (N ≥ 1 below W), flagged cost is strictly larger -/
theorem cost_lt_fcost (hN : ∀ i, i < W → 1 ≤ N i) : ∀ (ws : List Nat) (j : Nat), Comp W j ws → ws ≠ [] →
    cost N j ws < fcost N j ws := by
  intro ws
  induction ws with
  | nil => intro j _ h; exact absurd rfl h
  | cons w t ih =>
    intro j hc _
    obtain ⟨h1, h2, h3⟩ := hc
    cases t with
    | nil =>
      simp only [cost, fcost]
      have := hN j (by omega)
      rw [Nat.add_mul]; omega
    | cons w' t' =>
      have := ih (j+w) h3 (by simp)
      simp only [cost, fcost] at this ⊢
      omega

/-- what the DP value accounts for along its own reconstruction path -/
theorem recon_props (hs : Small W N) (r : Nat) : ∀ j, j < W →
    Comp W j (recon W N r j) ∧ (recon W N r j).length ≤ r + 1 ∧ recon W N r j ≠ [] ∧
    S W N r j = (if (recon W N r j).length = r + 1 then cost N j (recon W N r j) else fcost N j (recon W N r j)) := by
  induction r with
  | zero =>
    intro j hj
    simp only [recon, hj, if_true, S, cost, List.length_cons, List.length_nil, Nat.zero_add]
    refine ⟨⟨by omega, by omega, ?_⟩, by omega, by simp, trivial⟩
    simp only [Comp]; omega
  | succ r ih =>
    intro j hj
    have sp := scan_spec (fun b => (b+1) * N j + S W N r (j+b)) (fun b => hs r j b) (W - j) (by omega)
    obtain ⟨b1, b2, b3, _⟩ := sp
    have hB : B W N (r+1) j = (scan (fun b => (b+1) * N j + S W N r (j+b)) (W - j)).2 := by simp [B, hj]
    have hS : S W N (r+1) j = (scan (fun b => (b+1) * N j + S W N r (j+b)) (W - j)).1 := by simp [S, hj]
    rw [← hB] at b1 b2 b3
    rw [← hS] at b3
    simp only [recon, hj, if_true]
    by_cases hend : j + B W N (r+1) j < W
    · obtain ⟨c1, c2, c3, c4⟩ := ih _ hend
      refine ⟨⟨b1, by omega, c1⟩, by simp; omega, by simp, ?_⟩
      rw [b3, c4]
      cases hrec : recon W N r (j + B W N (r+1) j) with
      | nil => exact absurd hrec c3
      | cons w' t' =>
        simp only [List.length_cons, cost, fcost]
        by_cases hl : t'.length + 1 = r + 1
        · simp [hl]
        · have h' : ¬ (t'.length = r) := by omega
          simp [h']
    · -- the path reaches W early: the remaining levels cost nothing, and every level paid a flag
      have hW : j + B W N (r+1) j = W := by omega
      have hr : recon W N r (j + B W N (r+1) j) = [] := by
        rw [hW]; cases r <;> simp [recon]
      have hS0 : S W N r (j + B W N (r+1) j) = 0 := by
        rw [hW]; cases r <;> simp [S]
      rw [hr]
      refine ⟨⟨b1, by omega, by simp only [Comp]; omega⟩, by simp, by simp, ?_⟩
      rw [b3, hS0]
      simp [fcost]

/-- Main step for C10: if dp_s[0][r] is strictly below every dp_s[0][r'] with r' < r
    (the "first strict minimum" chosen by the code), the reconstruction uses exactly r+1 levels,
    so `assert_eq!(r, num_levels)` cannot fire. -/
theorem recon_full (hs : Small W N) (hN : ∀ i, i < W → 1 ≤ N i) (hW : 0 < W) (r : Nat)
    (hmin : ∀ r', r' < r → S W N r 0 < S W N r' 0) : (recon W N r 0).length = r + 1 := by
  obtain ⟨c1, c2, c3, c4⟩ := recon_props W N hs r 0 hW
  by_cases hl : (recon W N r 0).length = r + 1
  · exact hl
  · exfalso
    simp only [hl, if_false] at c4
    have hlen : 1 ≤ (recon W N r 0).length := by
      cases h : recon W N r 0 with
      | nil => exact absurd h c3
      | cons _ _ => simp
    have h1 := cost_lt_fcost W N hN _ 0 c1 c3
    have h2 := S_le_cost W N hs ((recon W N r 0).length - 1) 0 _ c1 (by omega)
    have h3 := hmin ((recon W N r 0).length - 1) (by omega)
    omega

/-- C18: the reconstructed widths are an optimal split into at most L parts,
    when r is the first index attaining min_{r' < L} dp_s[0][r'] -/
theorem optimal (hs : Small W N) (hN : ∀ i, i < W → 1 ≤ N i) (hW : 0 < W) (L r : Nat) (hr : r < L)
    (hmin1 : ∀ r', r' < r → S W N r 0 < S W N r' 0) (hmin2 : ∀ r', r' < L → S W N r 0 ≤ S W N r' 0)
    (ws : List Nat) (hc : Comp W 0 ws) (hl : ws.length ≤ L) :
    Comp W 0 (recon W N r 0) ∧ (recon W N r 0).length = r + 1 ∧
    cost N 0 (recon W N r 0) ≤ cost N 0 ws := by
  have hfull := recon_full W N hs hN hW r hmin1
  obtain ⟨c1, c2, c3, c4⟩ := recon_props W N hs r 0 hW
  simp only [hfull, if_true] at c4
  refine ⟨c1, hfull, ?_⟩
  have hne : ws ≠ [] := by
    intro h; subst h; simp only [Comp] at hc; omega
  have hlen : 1 ≤ ws.length := by
    cases ws with
    | nil => exact absurd rfl hne
    | cons _ _ => simp
  have h2 := S_le_cost W N hs (ws.length - 1) 0 ws hc (by omega)
  have h3 := hmin2 (ws.length - 1) (by omega)
  omega

end DP
