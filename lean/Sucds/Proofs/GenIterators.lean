import Sucds.Gen.Fns
import Sucds.Proofs.GenBroadword
import Sucds.Proofs.GenBitVectorRW
import Sucds.Proofs.UnarySkips
import Sucds.Proofs.IndexIter
import Sucds.Props.C17
/-! # The iterators generated from `bit_vector/unary.rs`, `bit_vector.rs`, `compact_vector.rs` agree with the model

    `GenFn.UnaryIter` carries the borrowed bit vector as the field `bv`; the model `UIter` keeps `pos`, `buf` and
    takes the bit vector as an argument.  `uiAbs` forgets the container, `uiCon bv` puts it back.  Every theorem
    says: same answer, same successor cursor, same (unchanged) container. -/
set_option linter.unusedVariables false
set_option linter.unusedSimpArgs false
namespace Sucds.GenEq
open Sucds Sucds.Spec Sucds.BV Sucds.ScanB

/-! ## Loops with an iteration budget: enough fuel is enough -/

/-- a `loop`/`while`-with-`break` that finishes within `n` iterations finishes with the same result under any
    larger budget -/
theorem it_loopFuel_mono {σ ρ : Type} (body : σ → R (RS.Step σ ρ)) :
    ∀ (n m : Nat) (s : σ) (r : RS.Exit σ ρ), RS.loopFuel body n s = .ok r → n ≤ m → RS.loopFuel body m s = .ok r := by
  intro n
  induction n with
  | zero => intro m s r h _; simp only [RS.loopFuel] at h; cases h
  | succ n ih =>
    intro m s r h hm
    obtain ⟨m', rfl⟩ : ∃ m', m = m' + 1 := ⟨m - 1, by omega⟩
    simp only [RS.loopFuel] at h ⊢
    cases hb : body s with
    | error e => rw [hb] at h; cases h
    | ok st =>
      rw [hb] at h
      rw [bok] at h ⊢
      cases st with
      | next s' => exact ih m' s' r h (by omega)
      | brk s' => exact h
      | ret v => exact h

theorem loopB_of_fuel {σ ρ : Type} (body : σ → R (RS.Step σ ρ)) (n : Nat) (s : σ) (r : RS.Exit σ ρ)
    (h : RS.loopFuel body n s = .ok r) (hn : n ≤ 2^64) : RS.loopB s body = .ok r :=
  it_loopFuel_mono body n RS.FUEL s r h hn

/-- the same for `while` loops without `break` -/
theorem whileFuel_mono {σ : Type} (cond : σ → R Bool) (body : σ → R σ) :
    ∀ (n m : Nat) (s r : σ), RS.whileFuel cond body n s = .ok r → n ≤ m → RS.whileFuel cond body m s = .ok r := by
  intro n
  induction n with
  | zero => intro m s r h _; simp only [RS.whileFuel] at h; cases h
  | succ n ih =>
    intro m s r h hm
    obtain ⟨m', rfl⟩ : ∃ m', m = m' + 1 := ⟨m - 1, by omega⟩
    simp only [RS.whileFuel] at h ⊢
    cases hc : cond s with
    | error e => rw [hc] at h; cases h
    | ok b =>
      rw [hc] at h
      rw [bok] at h ⊢
      cases b with
      | false => exact h
      | true =>
        simp only [if_true] at h ⊢
        cases hb : body s with
        | error e => rw [hb] at h; cases h
        | ok s' =>
          rw [hb] at h
          rw [bok] at h ⊢
          exact ih m' s' r h (by omega)

theorem whileLoop_of_fuel {σ : Type} (cond : σ → R Bool) (body : σ → R σ) (n : Nat) (s r : σ)
    (h : RS.whileFuel cond body n s = .ok r) (hn : n ≤ 2^64) : RS.whileLoop s cond body = .ok r :=
  whileFuel_mono cond body n RS.FUEL s r h hn

/-! ## Bridging lemmas -/

theorem index_wordAt (ws : Array Nat) (i : Nat) (h : i < ws.size) : RS.index ws i = .ok (wordAt ws i) := by
  unfold RS.index wordAt
  rw [Array.getElem?_eq_getElem h]; rfl

/-- `usize::MAX.wrapping_shl(p as u32)` -/
theorem wshl_eq (p : Nat) : RS.wrappingShl RS.MAX (p % 4294967296) = UIter.shlMax p := by
  unfold RS.wrappingShl UIter.shlMax
  rw [show p % 4294967296 % 64 = p % 64 by omega]; rfl

theorem wnot63 : wnot 63 = (2^58 - 1) * 2^6 := by decide

/-- `pos & !(WORD_LEN - 1)` -/
theorem and_wnot63 (p : Nat) (hp : p < 2^64) : p &&& wnot 63 = p / 64 * 64 := by
  rw [wnot63, show p / 64 * 64 = p / 2^6 * 2^6 by rfl]
  apply Nat.eq_of_testBit_eq
  intro i
  rw [Nat.testBit_and, Nat.testBit_mul_two_pow, Nat.testBit_mul_two_pow, Nat.testBit_two_pow_sub_one,
    Nat.testBit_div_two_pow]
  by_cases h6 : 6 ≤ i
  · by_cases h64 : i < 64
    · have : i - 6 < 58 := by omega
      simp [h6, this, show i - 6 + 6 = i by omega]
    · have hlt : p < 2^i := Nat.lt_of_lt_of_le hp (Nat.pow_le_pow_right (by decide) (by omega))
      simp [Nat.testBit_lt_two_pow hlt, show i - 6 + 6 = i by omega]
  · simp [h6]

theorem it_selectInWordN_lt (c : Cfg) (w k p : Nat) (hw : w < 2^64) (h : selectInWordN c w k = some p) : p < 64 := by
  rw [selectInWordN_eq c w k hw] at h
  exact (sel_isKth _ _ _ _ h).1

/-- `len ≤ 2^64 - 64`: the word count times 64 still fits a `usize` -/
theorem size_bound (bv : BV) (h : bv.Inv) (hl : bv.len + 63 < 2^64) : bv.words.size * 64 < 2^64 := by
  have := h.size; omega

/-! ## `UnaryIter` -/

def uiAbs (it : GenFn.UnaryIter) : UIter := ⟨it.pos, it.buf⟩
def uiCon (bv : BV) (u : UIter) : GenFn.UnaryIter := ⟨bv, u.pos, u.buf⟩

@[simp] theorem uiAbs_uiCon (bv : BV) (u : UIter) : uiAbs (uiCon bv u) = u := rfl
@[simp] theorem uiCon_bv (bv : BV) (u : UIter) : (uiCon bv u).bv = bv := rfl
theorem uiCon_uiAbs (it : GenFn.UnaryIter) : uiCon it.bv (uiAbs it) = it := rfl

theorem unary_new_eq (bv : BV) (pos : Nat) :
    uiAbs (GenFn.UnaryIter.new bv pos) = UIter.new bv pos ∧ (GenFn.UnaryIter.new bv pos).bv = bv := by
  refine ⟨?_, rfl⟩
  show UIter.mk pos _ = UIter.mk pos _
  congr 1
  show wordAt bv.words (pos / 64) &&& RS.wrappingShl RS.MAX (pos % 64 % 4294967296) = _
  rw [wshl_eq]

theorem unary_new_con (bv : BV) (pos : Nat) : GenFn.UnaryIter.new bv pos = uiCon bv (UIter.new bv pos) := by
  have h := (unary_new_eq bv pos).1
  show GenFn.UnaryIter.mk bv pos _ = GenFn.UnaryIter.mk bv pos _
  congr 1
  exact congrArg UIter.buf h

theorem unary_iter_eq (bv : BV) (pos : Nat) : GenFn.BitVector.unary_iter bv pos = uiCon bv (UIter.new bv pos) :=
  unary_new_con bv pos

theorem unary_position_eq (it : GenFn.UnaryIter) : GenFn.UnaryIter.position it = (uiAbs it).pos := rfl

/-! ### `next` -/

/-- the body of the refill loop of `UnaryIter::next`, in our own words (`next_unfold` ties it to the generated text) -/
def nextBody (c : Cfg) (st : GenFn.UnaryIter × Nat) :
    R (RS.Step (GenFn.UnaryIter × Nat) (GenFn.UnaryIter × Option Nat)) :=
  if st.2 = 0 then
    (cadd c st.1.pos 64).bind fun p =>
      if st.1.bv.words.size ≤ p / 64 then .ok (.ret ({ st.1 with pos := p }, none))
      else (RS.index st.1.bv.words (p / 64)).bind fun t => .ok (.next ({ st.1 with pos := p }, t))
  else .ok (.brk st)

/-- what follows the loop of `next` -/
def nextTail (c : Cfg) (ex : RS.Exit (GenFn.UnaryIter × Nat) (GenFn.UnaryIter × Option Nat)) :
    R (GenFn.UnaryIter × Option Nat) :=
  match ex with
  | .ret rv => .ok rv
  | .done st =>
    (GenFn.broadword.lsb c st.2).bind fun t1 =>
    (RS.unwrap t1).bind fun q =>
    (csub c st.2 1).bind fun t2 =>
    (csub c 64 1).bind fun t3 =>
    (cadd c (st.1.pos &&& wnot t3) q).bind fun t4 =>
    .ok ({ st.1 with buf := st.2 &&& t2, pos := t4 }, some t4)

theorem next_unfold (c : Cfg) (it : GenFn.UnaryIter) :
    GenFn.UnaryIter.next c it = (RS.loopB (it, it.buf) (nextBody c)).bind (nextTail c) := rfl

/-- bounds on what the model's refill loop returns -/
theorem nextLoop_bounds (bv : BV) (hw : ∀ i, wordAt bv.words i < 2^64) (hsz : bv.words.size * 64 < 2^64) :
    ∀ (n pos buf : Nat), pos + 64 < 2^64 → buf < 2^64 →
      (UIter.nextLoop bv pos buf n).1 < 2^64 ∧
      ∀ b, (UIter.nextLoop bv pos buf n).2 = some b → b < 2^64 ∧ (UIter.nextLoop bv pos buf n).1 + 64 < 2^64 := by
  intro n
  induction n with
  | zero =>
    intro pos buf hp hb
    simp only [UIter.nextLoop]
    split
    · exact ⟨by omega, fun b h => by cases h⟩
    · refine ⟨by omega, fun b h => ?_⟩
      cases h; exact ⟨hb, hp⟩
  | succ n ih =>
    intro pos buf hp hb
    simp only [UIter.nextLoop]
    by_cases hb0 : buf ≠ 0
    · rw [if_pos hb0]
      refine ⟨by omega, fun b h => ?_⟩
      cases h; exact ⟨hb, hp⟩
    · rw [if_neg hb0]
      by_cases hs : bv.words.size ≤ (pos + 64) / 64
      · rw [if_pos hs]
        exact ⟨by show pos + 64 < 2^64; omega, fun b h => by cases h⟩
      · rw [if_neg hs]
        exact ih (pos + 64) _ (by omega) (hw _)

/-- the generated refill loop against the model's, with the model's fuel -/
theorem next_loop (c : Cfg) (bv : BV) (hsz : bv.words.size * 64 < 2^64) (sbuf : Nat) :
    ∀ (n pos buf : Nat), 1 ≤ n → bv.words.size < n + (pos + 64) / 64 → pos + 64 < 2^64 →
      RS.loopFuel (nextBody c) n (⟨bv, pos, sbuf⟩, buf) =
        .ok (match UIter.nextLoop bv pos buf n with
          | (p, none) => .ret (⟨bv, p, sbuf⟩, none)
          | (p, some b) => .done (⟨bv, p, sbuf⟩, b)) := by
  intro n
  induction n with
  | zero => intro pos buf h1; omega
  | succ n ih =>
    intro pos buf _ hn hp
    simp only [RS.loopFuel, UIter.nextLoop, nextBody]
    by_cases hb0 : buf = 0
    · rw [if_pos hb0, if_neg (by simpa using hb0), cadd_ok c hp, bok]
      by_cases hs : bv.words.size ≤ (pos + 64) / 64
      · rw [if_pos hs, if_pos hs, bok]
      · rw [if_neg hs, if_neg hs, index_wordAt _ _ (by omega), bok, bok]
        exact ih (pos + 64) _ (by omega) (by omega) (by omega)
    · rw [if_neg hb0, if_pos hb0, bok]

theorem unary_next_eq (c : Cfg) (it : GenFn.UnaryIter) (h : it.bv.Inv) (hl : it.bv.len + 63 < 2^64)
    (hp : it.pos + 64 < 2^64) (hb : it.buf < 2^64) :
    GenFn.UnaryIter.next c it = (UIter.next c it.bv (uiAbs it)).map fun r => (uiCon it.bv r.1, r.2) := by
  obtain ⟨bv, pos, buf⟩ := it
  have hsz : bv.words.size * 64 < 2^64 := size_bound bv h hl
  rw [next_unfold]
  rw [loopB_of_fuel _ _ _ _ (next_loop c bv hsz buf (bv.words.size + 1) pos buf (by omega) (by omega) hp) (by omega), bok]
  obtain ⟨hq1, hq2⟩ := nextLoop_bounds bv h.lt hsz (bv.words.size + 1) pos buf hp hb
  simp only [UIter.next, uiAbs]
  generalize UIter.nextLoop bv pos buf (bv.words.size + 1) = res at hq1 hq2
  obtain ⟨q, ob⟩ := res
  cases ob with
  | none => rfl
  | some b =>
    obtain ⟨hb2, hq3⟩ := hq2 b rfl
    simp only [nextTail]
    rw [lsb_spec c b hb2, bok]
    cases hm : lsbW c b with
    | none => rfl
    | some r =>
      obtain ⟨hr1, hr2, _⟩ := lsbW_some c b r hb2 hm
      have hb1 : 1 ≤ b := by
        cases b with
        | zero => simp at hr2
        | succ b => omega
      simp only [RS.unwrap]
      rw [bok, csub_ok c hb1, bok, csub_ok c (show 1 ≤ 64 by decide), bok]
      simp only [Nat.reduceSub]
      rw [and_wnot63 q hq1, cadd_ok c (by omega), bok]
      rfl

/-! ### `skip1`, `skip0` -/

/-- the loop body of `skip1` (`g = id`) and `skip0` (`g = wnot`) -/
def skipBody (c : Cfg) (g : Nat → Nat) (k : Nat) (st : Nat × GenFn.UnaryIter × Nat) :
    R (RS.Step (Nat × GenFn.UnaryIter × Nat) (GenFn.UnaryIter × Option Nat)) :=
  (GenFn.broadword.popcount c st.2.2).bind fun w =>
  (cadd c st.1 w).bind fun t =>
  if t > k then .ok (.brk st)
  else
    (cadd c st.1 w).bind fun sk =>
    (cadd c st.2.1.pos 64).bind fun p =>
    if st.2.1.bv.words.size ≤ p / 64 then .ok (.ret ({ st.2.1 with pos := p, buf := 0 }, none))
    else (RS.index st.2.1.bv.words (p / 64)).bind fun t1 => .ok (.next (sk, { st.2.1 with pos := p }, g t1))

/-- what follows the loop of `skip1` -/
def skip1Tail (c : Cfg) (k : Nat) (ex : RS.Exit (Nat × GenFn.UnaryIter × Nat) (GenFn.UnaryIter × Option Nat)) :
    R (GenFn.UnaryIter × Option Nat) :=
  match ex with
  | .ret rv => .ok rv
  | .done st =>
    (dassert c (st.2.2 != 0)).bind fun _ =>
    (csub c k st.1).bind fun t2 =>
    (GenFn.broadword.select_in_word c st.2.2 t2).bind fun t3 =>
    (RS.unwrap t3).bind fun q =>
    (csub c 64 1).bind fun t4 =>
    (cadd c (st.2.1.pos &&& wnot t4) q).bind fun t5 =>
    .ok ({ st.2.1 with buf := st.2.2 &&& RS.wrappingShl RS.MAX (q % 4294967296), pos := t5 }, some t5)

/-- what follows the loop of `skip0` -/
def skip0Tail (c : Cfg) (k : Nat) (ex : RS.Exit (Nat × GenFn.UnaryIter × Nat) (GenFn.UnaryIter × Option Nat)) :
    R (GenFn.UnaryIter × Option Nat) :=
  match ex with
  | .ret rv => .ok rv
  | .done st =>
    (dassert c (st.2.2 != 0)).bind fun _ =>
    (csub c k st.1).bind fun t2 =>
    (GenFn.broadword.select_in_word c st.2.2 t2).bind fun t3 =>
    (RS.unwrap t3).bind fun q =>
    (csub c 64 1).bind fun t4 =>
    (cadd c (st.2.1.pos &&& wnot t4) q).bind fun t5 =>
    .ok ({ st.2.1 with buf := wnot st.2.2 &&& RS.wrappingShl RS.MAX (q % 4294967296), pos := t5 },
      if t5 < st.2.1.bv.len then some t5 else none)

theorem skip1_unfold (c : Cfg) (it : GenFn.UnaryIter) (k : Nat) :
    GenFn.UnaryIter.skip1 c it k = (RS.loopB (0, it, it.buf) (skipBody c id k)).bind (skip1Tail c k) := rfl

theorem skip0_unfold (c : Cfg) (it : GenFn.UnaryIter) (k : Nat) :
    GenFn.UnaryIter.skip0 c it k =
      (RS.loopB (0, it, wnot it.buf &&& RS.wrappingShl RS.MAX (it.pos % 64 % 4294967296)) (skipBody c wnot k)).bind
        (skip0Tail c k) := by
  unfold GenFn.UnaryIter.skip0 skip0Tail
  simp only [decide_eq_true_eq]
  rfl

/-- bounds on what the model's skip loop returns -/
theorem skipLoop_bounds (c : Cfg) (g : Nat → Nat) (bv : BV) (hg : ∀ i, g (wordAt bv.words i) < 2^64)
    (hsz : bv.words.size * 64 < 2^64) (k : Nat) :
    ∀ (n pos sk buf : Nat), pos + 64 < 2^64 → buf < 2^64 → sk ≤ k →
      (UIter.skipLoop c g bv k pos sk buf n).1 < 2^64 ∧
      ∀ b, (UIter.skipLoop c g bv k pos sk buf n).2.2 = some b →
        b < 2^64 ∧ (UIter.skipLoop c g bv k pos sk buf n).1 + 64 < 2^64 ∧ (UIter.skipLoop c g bv k pos sk buf n).2.1 ≤ k := by
  intro n
  induction n with
  | zero =>
    intro pos sk buf hp hb hk
    simp only [UIter.skipLoop]
    refine ⟨by omega, fun b h => ?_⟩
    split at h
    · cases h; exact ⟨hb, hp, hk⟩
    · cases h
  | succ n ih =>
    intro pos sk buf hp hb hk
    simp only [UIter.skipLoop]
    by_cases hgt : sk + popcountN c buf > k
    · rw [if_pos hgt]
      refine ⟨by omega, fun b h => ?_⟩
      cases h; exact ⟨hb, hp, hk⟩
    · rw [if_neg hgt]
      by_cases hs : bv.words.size ≤ (pos + 64) / 64
      · rw [if_pos hs]
        exact ⟨by show pos + 64 < 2^64; omega, fun b h => by cases h⟩
      · rw [if_neg hs]
        exact ih (pos + 64) _ _ (by omega) (hg _) (by omega)

/-- the generated skip loop against the model's, with the model's fuel -/
theorem skip_loop (c : Cfg) (g : Nat → Nat) (bv : BV) (hg : ∀ i, g (wordAt bv.words i) < 2^64)
    (hsz : bv.words.size * 64 < 2^64) (k sbuf : Nat) :
    ∀ (n pos sk buf : Nat), 1 ≤ n → bv.words.size < n + (pos + 64) / 64 → pos + 64 < 2^64 → buf < 2^64 → sk ≤ pos →
      RS.loopFuel (skipBody c g k) n (sk, ⟨bv, pos, sbuf⟩, buf) =
        .ok (match UIter.skipLoop c g bv k pos sk buf n with
          | (p, _, none) => .ret (⟨bv, p, 0⟩, none)
          | (p, s, some b) => .done (s, ⟨bv, p, sbuf⟩, b)) := by
  intro n
  induction n with
  | zero => intro pos sk buf h1; omega
  | succ n ih =>
    intro pos sk buf _ hn hp hb hsk
    have hw := popcountN_le c buf hb
    simp only [RS.loopFuel, UIter.skipLoop, skipBody]
    rw [popcount_spec c buf hb, bok, cadd_ok c (show sk + popcountN c buf < 2^64 by omega), bok]
    by_cases hgt : sk + popcountN c buf > k
    · rw [if_pos hgt, if_pos hgt, bok]
    · rw [if_neg hgt, if_neg hgt, bok, cadd_ok c hp, bok]
      by_cases hs : bv.words.size ≤ (pos + 64) / 64
      · rw [if_pos hs, if_pos hs, bok]
      · rw [if_neg hs, if_neg hs, index_wordAt _ _ (by omega), bok, bok]
        exact ih (pos + 64) _ _ (by omega) (by omega) (by omega) (hg _) (by omega)

theorem unary_skip1_eq (c : Cfg) (it : GenFn.UnaryIter) (k : Nat) (h : it.bv.Inv) (hl : it.bv.len + 63 < 2^64)
    (hp : it.pos + 64 < 2^64) (hb : it.buf < 2^64) (hk : k < 2^64) :
    GenFn.UnaryIter.skip1 c it k = (UIter.skip1 c it.bv (uiAbs it) k).map fun r => (uiCon it.bv r.1, r.2) := by
  obtain ⟨bv, pos, buf⟩ := it
  have hsz : bv.words.size * 64 < 2^64 := size_bound bv h hl
  have hg : ∀ i, id (wordAt bv.words i) < 2^64 := h.lt
  rw [skip1_unfold]
  rw [loopB_of_fuel _ _ _ _
    (skip_loop c id bv hg hsz k buf (bv.words.size + 1) pos 0 buf (by omega) (by omega) hp hb (by omega)) (by omega), bok]
  obtain ⟨hq1, hq2⟩ := skipLoop_bounds c id bv hg hsz k (bv.words.size + 1) pos 0 buf hp hb (by omega)
  simp only [UIter.skip1, uiAbs]
  generalize UIter.skipLoop c id bv k pos 0 buf (bv.words.size + 1) = res at hq1 hq2
  obtain ⟨q, s, ob⟩ := res
  cases ob with
  | none => rfl
  | some b =>
    obtain ⟨hb2, hq3, hs⟩ := hq2 b rfl
    simp only [skip1Tail]
    cases hd : dassert c (b != 0) with
    | error e => rfl
    | ok u =>
      rw [bok, bok, csub_ok c hs, bok, select_in_word_spec c b (k - s) hb2 (by omega), bok]
      cases hm : selectInWordN c b (k - s) with
      | none => rfl
      | some r =>
        have hr := it_selectInWordN_lt c b (k - s) r hb2 hm
        simp only [RS.unwrap]
        rw [bok, csub_ok c (show 1 ≤ 64 by decide), bok]
        simp only [Nat.reduceSub]
        rw [and_wnot63 q hq1, cadd_ok c (by omega), bok, wshl_eq]
        rfl

theorem unary_skip0_eq (c : Cfg) (it : GenFn.UnaryIter) (k : Nat) (h : it.bv.Inv) (hl : it.bv.len + 63 < 2^64)
    (hp : it.pos + 64 < 2^64) (hb : it.buf < 2^64) (hk : k < 2^64) :
    GenFn.UnaryIter.skip0 c it k = (UIter.skip0 c it.bv (uiAbs it) k).map fun r => (uiCon it.bv r.1, r.2) := by
  obtain ⟨bv, pos, buf⟩ := it
  have hsz : bv.words.size * 64 < 2^64 := size_bound bv h hl
  have hg : ∀ i, wnot (wordAt bv.words i) < 2^64 := fun i => wnot_lt _
  have hb0 : wnot buf &&& UIter.shlMax (pos % 64) < 2^64 := Nat.and_lt_two_pow _ (shlMax_lt _)
  rw [skip0_unfold]
  simp only [wshl_eq]
  rw [loopB_of_fuel _ _ _ _
    (skip_loop c wnot bv hg hsz k buf (bv.words.size + 1) pos 0 _ (by omega) (by omega) hp hb0 (by omega)) (by omega), bok]
  obtain ⟨hq1, hq2⟩ := skipLoop_bounds c wnot bv hg hsz k (bv.words.size + 1) pos 0 _ hp hb0 (by omega)
  simp only [UIter.skip0, uiAbs]
  generalize UIter.skipLoop c wnot bv k pos 0 (wnot buf &&& UIter.shlMax (pos % 64)) (bv.words.size + 1) = res at hq1 hq2
  obtain ⟨q, s, ob⟩ := res
  cases ob with
  | none => rfl
  | some b =>
    obtain ⟨hb2, hq3, hs⟩ := hq2 b rfl
    simp only [skip0Tail]
    cases hd : dassert c (b != 0) with
    | error e => rfl
    | ok u =>
      rw [bok, bok, csub_ok c hs, bok, select_in_word_spec c b (k - s) hb2 (by omega), bok]
      cases hm : selectInWordN c b (k - s) with
      | none => rfl
      | some r =>
        have hr := it_selectInWordN_lt c b (k - s) r hb2 hm
        simp only [RS.unwrap]
        rw [bok, csub_ok c (show 1 ≤ 64 by decide), bok]
        simp only [Nat.reduceSub]
        rw [and_wnot63 q hq1, cadd_ok c (by omega), bok, wshl_eq]
        rfl

/-! ## `bit_vector::Iter` -/
open Sucds.IndexIter

def biAbs (it : GenFn.bit_vector_Iter) : It := ⟨it.pos⟩

theorem bv_iter_new_eq (bv : BV) : GenFn.bit_vector_Iter.new bv = ⟨bv, 0⟩ := rfl
theorem bv_iter_eq (bv : BV) : GenFn.BitVector.iter bv = ⟨bv, 0⟩ := rfl

/-- `next`: the answer and the successor cursor of the model `IndexIter.next` over `access`; the container is unchanged.
    (`C17.okv` unwraps the model's `R (Option _)`, as in `C17.Statement`.) -/
theorem bv_iter_next_eq (c : Cfg) (it : GenFn.bit_vector_Iter) (h : it.bv.Inv) (hl : it.bv.len < 2^64) :
    GenFn.bit_vector_Iter.next c it =
      .ok (⟨it.bv, (IndexIter.next it.bv.len (fun i => C17.okv (it.bv.getBit i)) (biAbs it)).2.pos⟩,
           (IndexIter.next it.bv.len (fun i => C17.okv (it.bv.getBit i)) (biAbs it)).1) := by
  obtain ⟨bv, pos⟩ := it
  show ((if pos < bv.len then
      (GenFn.BitVector.access c bv pos).bind fun t => (RS.unwrap t).bind fun x => (cadd c pos 1).bind fun p =>
        .ok ((⟨bv, p⟩ : GenFn.bit_vector_Iter), some x)
    else .ok (⟨bv, pos⟩, none) : R _).bind fun j => .ok (j.1, j.2)) = _
  unfold IndexIter.next biAbs
  by_cases hp : pos < bv.len
  · rw [if_pos hp, if_pos hp, access_eq, BV.getBit_ok bv h pos, if_pos hp, bok]
    simp only [RS.unwrap]
    rw [bok, cadd_ok c (by simp only [] at hl; omega), bok, bok]
    simp only [C17.okv, BV.getBit_ok bv h pos, if_pos hp]
  · rw [if_neg hp, if_neg hp, bok]

/-- `size_hint` while the cursor is within the vector (true initially and kept by `next`) -/
theorem bv_iter_size_hint_eq (c : Cfg) (it : GenFn.bit_vector_Iter) (hp : it.pos ≤ it.bv.len) :
    GenFn.bit_vector_Iter.size_hint c it = .ok (IndexIter.sizeHint it.bv.len (biAbs it)) := by
  unfold GenFn.bit_vector_Iter.size_hint IndexIter.sizeHint biAbs
  simp only [len_eq]
  rw [csub_ok c hp, bok]

/-- the cursor stays within the vector -/
theorem indexNext_pos_le {α : Type} (len : Nat) (acc : Nat → Option α) (it : It) (h : it.pos ≤ len) :
    (IndexIter.next len acc it).2.pos ≤ len := by
  unfold IndexIter.next
  split
  · show it.pos + 1 ≤ len; omega
  · exact h

/-- `n` calls of the generated `next`, each preceded by the generated `size_hint` -/
def bvRunN (c : Cfg) : GenFn.bit_vector_Iter → Nat → R (List (Option Bool × (Nat × Option Nat)))
  | _, 0 => .ok []
  | it, n+1 =>
    (GenFn.bit_vector_Iter.size_hint c it).bind fun sh =>
    (GenFn.bit_vector_Iter.next c it).bind fun r =>
    (bvRunN c r.1 n).bind fun l => .ok ((r.2, sh) :: l)

theorem bv_iter_runN (c : Cfg) (bv : BV) (h : bv.Inv) (hl : bv.len < 2^64) :
    ∀ (n pos : Nat), pos ≤ bv.len →
      bvRunN c ⟨bv, pos⟩ n = .ok (runN bv.len (fun i => C17.okv (bv.getBit i)) ⟨pos⟩ n) := by
  intro n
  induction n with
  | zero => intro pos _; rfl
  | succ n ih =>
    intro pos hp
    simp only [bvRunN, runN]
    rw [bv_iter_size_hint_eq c ⟨bv, pos⟩ hp, bok, bv_iter_next_eq c ⟨bv, pos⟩ h hl, bok]
    simp only [biAbs]
    rw [ih _ (indexNext_pos_le bv.len _ ⟨pos⟩ hp), bok]

/-- C17 for the generated `BitVector::iter`: the stored bits in order, then `None` forever, exact size hints -/
theorem bv_iter_c17 (c : Cfg) (bv : BV) (h : bv.Inv) (hl : bv.len < 2^64) (n : Nat) :
    bvRunN c (GenFn.BitVector.iter bv) n = .ok (C17.expected bv.toList n) := by
  rw [bv_iter_eq, bv_iter_runN c bv h hl n 0 (Nat.zero_le _)]
  have := C17.holds.1 bv h n
  rw [BV.toList_length] at this
  rw [this]

/-! ## `compact_vector::Iter` -/

def ciAbs (it : GenFn.compact_vector_Iter) : It := ⟨it.pos⟩

theorem cv_iter_new_eq (cv : CV) : GenFn.compact_vector_Iter.new cv = ⟨cv, 0⟩ := rfl
theorem cv_iter_eq (cv : CV) : GenFn.CompactVector.iter cv = ⟨cv, 0⟩ := rfl

/-- `CompactVector::access` against the model (self-contained copy of the argument of `GenCompactVector.cv_access_eq`) -/
theorem cv_access_getInt (c : Cfg) (v : CV) (hsz : v.len * v.width < 2^64) (pos : Nat) :
    GenFn.CompactVector.access c v pos = v.getInt pos := by
  unfold GenFn.CompactVector.access GenFn.CompactVector.get_int GenFn.CompactVector.len CV.getInt
  by_cases hp : v.len ≤ pos
  · rw [if_pos hp, if_pos hp]
  · have hb : pos * v.width + v.width ≤ v.len * v.width := by
      have : (pos + 1) * v.width ≤ v.len * v.width := Nat.mul_le_mul_right _ (by omega)
      rw [Nat.add_mul, Nat.one_mul] at this; exact this
    rw [if_neg hp, if_neg hp, cmul_ok c (by omega : pos * v.width < 2^64), bok,
      get_bits_eq_of c v.chunks _ _ (.inl (by omega))]

theorem cv_iter_next_eq (c : Cfg) (it : GenFn.compact_vector_Iter) (xs : List Nat) (h : CV.Rep it.cv xs)
    (hsz : it.cv.len * it.cv.width < 2^64) (hl : it.cv.len < 2^64) :
    GenFn.compact_vector_Iter.next c it =
      .ok (⟨it.cv, (IndexIter.next it.cv.len (fun i => C17.okv (it.cv.getInt i)) (ciAbs it)).2.pos⟩,
           (IndexIter.next it.cv.len (fun i => C17.okv (it.cv.getInt i)) (ciAbs it)).1) := by
  obtain ⟨cv, pos⟩ := it
  show ((if pos < cv.len then
      (GenFn.CompactVector.access c cv pos).bind fun t => (RS.unwrap t).bind fun x => (cadd c pos 1).bind fun p =>
        .ok ((⟨cv, p⟩ : GenFn.compact_vector_Iter), some x)
    else .ok (⟨cv, pos⟩, none) : R _).bind fun j => .ok (j.1, j.2)) = _
  unfold IndexIter.next ciAbs
  by_cases hp : pos < cv.len
  · have hx : pos < xs.length := by rw [← h.len]; exact hp
    rw [if_pos hp, if_pos hp, cv_access_getInt c cv hsz, CV.getInt_ok cv xs h pos, List.getElem?_eq_getElem hx, bok]
    simp only [RS.unwrap]
    rw [bok, cadd_ok c (by simp only [] at hl; omega), bok, bok]
    simp only [C17.okv, CV.getInt_ok cv xs h pos, List.getElem?_eq_getElem hx]
  · rw [if_neg hp, if_neg hp, bok]

theorem cv_iter_size_hint_eq (c : Cfg) (it : GenFn.compact_vector_Iter) (hp : it.pos ≤ it.cv.len) :
    GenFn.compact_vector_Iter.size_hint c it = .ok (IndexIter.sizeHint it.cv.len (ciAbs it)) := by
  unfold GenFn.compact_vector_Iter.size_hint IndexIter.sizeHint ciAbs
  simp only [GenFn.CompactVector.len]
  rw [csub_ok c hp, bok]

def cvRunN (c : Cfg) : GenFn.compact_vector_Iter → Nat → R (List (Option Nat × (Nat × Option Nat)))
  | _, 0 => .ok []
  | it, n+1 =>
    (GenFn.compact_vector_Iter.size_hint c it).bind fun sh =>
    (GenFn.compact_vector_Iter.next c it).bind fun r =>
    (cvRunN c r.1 n).bind fun l => .ok ((r.2, sh) :: l)

theorem cv_iter_runN (c : Cfg) (cv : CV) (xs : List Nat) (h : CV.Rep cv xs) (hsz : cv.len * cv.width < 2^64)
    (hl : cv.len < 2^64) :
    ∀ (n pos : Nat), pos ≤ cv.len →
      cvRunN c ⟨cv, pos⟩ n = .ok (runN cv.len (fun i => C17.okv (cv.getInt i)) ⟨pos⟩ n) := by
  intro n
  induction n with
  | zero => intro pos _; rfl
  | succ n ih =>
    intro pos hp
    simp only [cvRunN, runN]
    rw [cv_iter_size_hint_eq c ⟨cv, pos⟩ hp, bok, cv_iter_next_eq c ⟨cv, pos⟩ xs h hsz hl, bok]
    simp only [ciAbs]
    rw [ih _ (indexNext_pos_le cv.len _ ⟨pos⟩ hp), bok]

/-- C17 for the generated `CompactVector::iter` -/
theorem cv_iter_c17 (c : Cfg) (cv : CV) (xs : List Nat) (h : CV.Rep cv xs) (hsz : cv.len * cv.width < 2^64)
    (hl : cv.len < 2^64) (n : Nat) :
    cvRunN c (GenFn.CompactVector.iter cv) n = .ok (C17.expected xs n) := by
  rw [cv_iter_eq, cv_iter_runN c cv xs h hsz hl n 0 (Nat.zero_le _), h.len]
  rw [C17.holds.2.1 cv xs h n]

/-! ## Sequences of calls on the generated `UnaryIter`

    The generated iterator agrees with the model as long as `pos + 64` fits a `usize`.  One call moves the cursor's
    word index to at most `max (pos / 64 + 1) (number of words)` (an exhausted iterator keeps adding 64 per call —
    in the code as in the model), so `n` calls are covered when `pos + 64 * n < 2^64` and `len + 64 * n ≤ 2^64`. -/

theorem nextLoop_words (bv : BV) (T : Nat) (hT : bv.words.size ≤ T) :
    ∀ (n pos buf : Nat), pos / 64 + 1 ≤ T → (UIter.nextLoop bv pos buf n).1 / 64 ≤ T := by
  intro n
  induction n with
  | zero => intro pos buf hp; simp only [UIter.nextLoop]; split <;> (show pos / 64 ≤ T; omega)
  | succ n ih =>
    intro pos buf hp
    simp only [UIter.nextLoop]
    by_cases hb0 : buf ≠ 0
    · rw [if_pos hb0]; show pos / 64 ≤ T; omega
    · rw [if_neg hb0]
      by_cases hs : bv.words.size ≤ (pos + 64) / 64
      · rw [if_pos hs]; show (pos + 64) / 64 ≤ T; omega
      · rw [if_neg hs]; exact ih (pos + 64) _ (by omega)

theorem skipLoop_words (c : Cfg) (g : Nat → Nat) (bv : BV) (k T : Nat) (hT : bv.words.size ≤ T) :
    ∀ (n pos sk buf : Nat), pos / 64 + 1 ≤ T → (UIter.skipLoop c g bv k pos sk buf n).1 / 64 ≤ T := by
  intro n
  induction n with
  | zero => intro pos sk buf hp; simp only [UIter.skipLoop]; omega
  | succ n ih =>
    intro pos sk buf hp
    simp only [UIter.skipLoop]
    by_cases hgt : sk + popcountN c buf > k
    · rw [if_pos hgt]; show pos / 64 ≤ T; omega
    · rw [if_neg hgt]
      by_cases hs : bv.words.size ≤ (pos + 64) / 64
      · rw [if_pos hs]; show (pos + 64) / 64 ≤ T; omega
      · rw [if_neg hs]; exact ih (pos + 64) _ _ (by omega)

/-- one model `next`: where the cursor can be afterwards, and the buffer stays a word -/
theorem next_step_bound (c : Cfg) (bv : BV) (h : bv.Inv) (hsz : bv.words.size * 64 < 2^64) (u u' : UIter) (a : Option Nat)
    (T : Nat) (hT : bv.words.size ≤ T) (hp : u.pos / 64 + 1 ≤ T) (hp64 : u.pos + 64 < 2^64) (hb : u.buf < 2^64)
    (he : UIter.next c bv u = .ok (u', a)) : u'.pos / 64 ≤ T ∧ u'.buf < 2^64 := by
  obtain ⟨pos, buf⟩ := u
  have hq0 := nextLoop_words bv T hT (bv.words.size + 1) pos buf hp
  obtain ⟨hq1, hq2⟩ := nextLoop_bounds bv h.lt hsz (bv.words.size + 1) pos buf hp64 hb
  simp only [UIter.next] at he
  generalize UIter.nextLoop bv pos buf (bv.words.size + 1) = res at hq0 hq1 hq2 he
  obtain ⟨q, ob⟩ := res
  cases ob with
  | none =>
    simp only [] at he
    cases he
    exact ⟨hq0, hb⟩
  | some b =>
    obtain ⟨hb2, hq3⟩ := hq2 b rfl
    simp only [] at he
    cases hm : lsbW c b with
    | none => rw [hm] at he; cases he
    | some r =>
      rw [hm] at he
      obtain ⟨hr1, _, _⟩ := lsbW_some c b r hb2 hm
      cases he
      refine ⟨?_, Nat.and_lt_two_pow _ (by omega)⟩
      show (q / 64 * 64 + r) / 64 ≤ T
      simp only [] at hq0
      omega

theorem skip1_step_bound (c : Cfg) (bv : BV) (h : bv.Inv) (hsz : bv.words.size * 64 < 2^64) (u u' : UIter) (k : Nat)
    (a : Option Nat) (T : Nat) (hT : bv.words.size ≤ T) (hp : u.pos / 64 + 1 ≤ T) (hp64 : u.pos + 64 < 2^64)
    (hb : u.buf < 2^64) (he : UIter.skip1 c bv u k = .ok (u', a)) : u'.pos / 64 ≤ T ∧ u'.buf < 2^64 := by
  obtain ⟨pos, buf⟩ := u
  have hg : ∀ i, id (wordAt bv.words i) < 2^64 := h.lt
  have hq0 := skipLoop_words c id bv k T hT (bv.words.size + 1) pos 0 buf hp
  obtain ⟨hq1, hq2⟩ := skipLoop_bounds c id bv hg hsz k (bv.words.size + 1) pos 0 buf hp64 hb (by omega)
  simp only [UIter.skip1] at he
  generalize UIter.skipLoop c id bv k pos 0 buf (bv.words.size + 1) = res at hq0 hq1 hq2 he
  obtain ⟨q, s, ob⟩ := res
  cases ob with
  | none =>
    simp only [] at he
    cases he
    exact ⟨hq0, show (0 : Nat) < 2^64 by decide⟩
  | some b =>
    obtain ⟨hb2, hq3, hs⟩ := hq2 b rfl
    simp only [] at he
    cases hd : dassert c (b != 0) with
    | error e => rw [hd] at he; cases he
    | ok _ =>
      rw [hd, bok] at he
      cases hm : selectInWordN c b (k - s) with
      | none => rw [hm] at he; cases he
      | some r =>
        rw [hm] at he
        have hr := it_selectInWordN_lt c b (k - s) r hb2 hm
        cases he
        refine ⟨?_, Nat.and_lt_two_pow _ (shlMax_lt _)⟩
        show (q / 64 * 64 + r) / 64 ≤ T
        simp only [] at hq0
        omega

theorem skip0_step_bound (c : Cfg) (bv : BV) (h : bv.Inv) (hsz : bv.words.size * 64 < 2^64) (u u' : UIter) (k : Nat)
    (a : Option Nat) (T : Nat) (hT : bv.words.size ≤ T) (hp : u.pos / 64 + 1 ≤ T) (hp64 : u.pos + 64 < 2^64)
    (hb : u.buf < 2^64) (he : UIter.skip0 c bv u k = .ok (u', a)) : u'.pos / 64 ≤ T ∧ u'.buf < 2^64 := by
  obtain ⟨pos, buf⟩ := u
  have hg : ∀ i, wnot (wordAt bv.words i) < 2^64 := fun i => wnot_lt _
  have hb0 : wnot buf &&& UIter.shlMax (pos % 64) < 2^64 := Nat.and_lt_two_pow _ (shlMax_lt _)
  have hq0 := skipLoop_words c wnot bv k T hT (bv.words.size + 1) pos 0 (wnot buf &&& UIter.shlMax (pos % 64)) hp
  obtain ⟨hq1, hq2⟩ := skipLoop_bounds c wnot bv hg hsz k (bv.words.size + 1) pos 0 _ hp64 hb0 (by omega)
  simp only [UIter.skip0] at he
  generalize UIter.skipLoop c wnot bv k pos 0 (wnot buf &&& UIter.shlMax (pos % 64)) (bv.words.size + 1) = res
    at hq0 hq1 hq2 he
  obtain ⟨q, s, ob⟩ := res
  cases ob with
  | none =>
    simp only [] at he
    cases he
    exact ⟨hq0, show (0 : Nat) < 2^64 by decide⟩
  | some b =>
    obtain ⟨hb2, hq3, hs⟩ := hq2 b rfl
    simp only [] at he
    cases hd : dassert c (b != 0) with
    | error e => rw [hd] at he; cases he
    | ok _ =>
      rw [hd, bok] at he
      cases hm : selectInWordN c b (k - s) with
      | none => rw [hm] at he; cases he
      | some r =>
        rw [hm] at he
        have hr := it_selectInWordN_lt c b (k - s) r hb2 hm
        cases he
        refine ⟨?_, Nat.and_lt_two_pow _ (shlMax_lt _)⟩
        show (q / 64 * 64 + r) / 64 ≤ T
        simp only [] at hq0
        omega

/-- the answers of `n` successive calls of the generated `next` (cf. `UIter.nexts`) -/
def gNexts (c : Cfg) : Nat → GenFn.UnaryIter → R (List (Option Nat))
  | 0, _ => .ok []
  | n+1, it => (GenFn.UnaryIter.next c it).bind fun r => (gNexts c n r.1).bind fun l => .ok (r.2 :: l)

theorem unary_nexts_eq (c : Cfg) (bv : BV) (h : bv.Inv) :
    ∀ (n : Nat) (u : UIter), u.pos + 64 * n < 2^64 → bv.len + 64 * n ≤ 2^64 → u.buf < 2^64 →
      gNexts c n (uiCon bv u) = UIter.nexts c bv n u := by
  intro n
  induction n with
  | zero => intro u _ _ _; rfl
  | succ n ih =>
    intro u hp hl hb
    have hs := h.size
    have hsz : bv.words.size * 64 < 2^64 := size_bound bv h (by omega)
    simp only [gNexts, UIter.nexts]
    rw [unary_next_eq c (uiCon bv u) h (show bv.len + 63 < 2^64 by omega) (show u.pos + 64 < 2^64 by omega) hb]
    simp only [uiCon_bv, uiAbs_uiCon]
    cases he : UIter.next c bv u with
    | error e => rfl
    | ok r =>
      obtain ⟨u', a⟩ := r
      obtain ⟨hb1, hb2⟩ := next_step_bound c bv h hsz u u' a (2^58 - (n + 1)) (by omega) (by omega) (by omega) hb he
      rw [map_ok, bok, bok]
      simp only []
      rw [ih u' (by omega) (by omega) hb2]

/-- C17 (unary iterator, `next`) for the generated `BitVector::unary_iter(p)`: the set positions `≥ p` in increasing
    order, then `None` -/
theorem unary_nexts_c17 (c : Cfg) (bv : BV) (h : bv.Inv) (p n : Nat) (hp : p + 64 * n < 2^64)
    (hl : bv.len + 64 * n ≤ 2^64) :
    gNexts c n (GenFn.BitVector.unary_iter bv p) = .ok ((List.range n).map (selFrom bv.bitAt bv.len p)) := by
  rw [unary_iter_eq, unary_nexts_eq c bv h n _ hp hl (Nat.and_lt_two_pow _ (shlMax_lt _))]
  exact UIter.nexts_new c bv h p n

def skipArg : UIter.Skip → Nat
  | .s1 k => k
  | .s0 k => k

/-- run a sequence of `skip1`/`skip0` calls on the generated iterator (cf. `UIter.runSkips`) -/
def gRunSkips (c : Cfg) : GenFn.UnaryIter → List UIter.Skip → R (List (Option Nat))
  | _, [] => .ok []
  | it, .s1 k :: r => (GenFn.UnaryIter.skip1 c it k).bind fun s => (gRunSkips c s.1 r).bind fun l => .ok (s.2 :: l)
  | it, .s0 k :: r => (GenFn.UnaryIter.skip0 c it k).bind fun s => (gRunSkips c s.1 r).bind fun l => .ok (s.2 :: l)

theorem unary_skips_eq (c : Cfg) (bv : BV) (h : bv.Inv) :
    ∀ (ops : List UIter.Skip) (u : UIter), (∀ op, op ∈ ops → skipArg op < 2^64) →
      u.pos + 64 * ops.length < 2^64 → bv.len + 64 * ops.length ≤ 2^64 → u.buf < 2^64 →
      gRunSkips c (uiCon bv u) ops = UIter.runSkips c bv u ops := by
  intro ops
  induction ops with
  | nil => intro u _ _ _ _; rfl
  | cons op ops ih =>
    intro u hk hp hl hb
    rw [List.length_cons] at hp hl
    have hs := h.size
    have hsz : bv.words.size * 64 < 2^64 := size_bound bv h (by omega)
    have hk' : ∀ op, op ∈ ops → skipArg op < 2^64 := fun o ho => hk o (List.mem_cons_of_mem _ ho)
    cases op with
    | s1 k =>
      have hk1 : k < 2^64 := hk (.s1 k) (List.mem_cons_self ..)
      simp only [gRunSkips, UIter.runSkips]
      rw [unary_skip1_eq c (uiCon bv u) k h (show bv.len + 63 < 2^64 by omega) (show u.pos + 64 < 2^64 by omega) hb hk1]
      simp only [uiCon_bv, uiAbs_uiCon]
      cases he : UIter.skip1 c bv u k with
      | error e => rfl
      | ok r =>
        obtain ⟨u', a⟩ := r
        obtain ⟨hb1, hb2⟩ := skip1_step_bound c bv h hsz u u' k a (2^58 - (ops.length + 1)) (by omega) (by omega)
          (by omega) hb he
        rw [map_ok, bok, bok]
        simp only []
        rw [ih u' hk' (by omega) (by omega) hb2]
    | s0 k =>
      have hk1 : k < 2^64 := hk (.s0 k) (List.mem_cons_self ..)
      simp only [gRunSkips, UIter.runSkips]
      rw [unary_skip0_eq c (uiCon bv u) k h (show bv.len + 63 < 2^64 by omega) (show u.pos + 64 < 2^64 by omega) hb hk1]
      simp only [uiCon_bv, uiAbs_uiCon]
      cases he : UIter.skip0 c bv u k with
      | error e => rfl
      | ok r =>
        obtain ⟨u', a⟩ := r
        obtain ⟨hb1, hb2⟩ := skip0_step_bound c bv h hsz u u' k a (2^58 - (ops.length + 1)) (by omega) (by omega)
          (by omega) hb he
        rw [map_ok, bok, bok]
        simp only []
        rw [ih u' hk' (by omega) (by omega) hb2]

/-- C17 (unary iterator, any sequence of skips) for the generated `BitVector::unary_iter(p)` -/
theorem unary_skips_c17 (c : Cfg) (bv : BV) (h : bv.Inv) (p : Nat) (ops : List UIter.Skip)
    (hk : ∀ op, op ∈ ops → skipArg op < 2^64) (hp : p + 64 * ops.length < 2^64)
    (hl : bv.len + 64 * ops.length ≤ 2^64) :
    gRunSkips c (GenFn.BitVector.unary_iter bv p) ops = .ok (UIter.specSkips bv.bitAt bv.len (some p) ops) := by
  rw [unary_iter_eq, unary_skips_eq c bv h ops _ hk hp hl (Nat.and_lt_two_pow _ (shlMax_lt _))]
  exact UIter.skips_from_new c bv h p ops

/-! ## Outside the hypotheses: a cursor within 64 of `usize::MAX`

    The model counts positions in unbounded `Nat`; the code does `self.pos += WORD_LEN` on a `usize`.  With
    `pos + 64 ≥ 2^64` and an empty buffer the two part ways (this is outside `hp : it.pos + 64 < 2^64`, so it does not
    contradict the theorems above; it bounds what C17's "every `p`" means for the code): on the one-bit vector `[1]`,
    `unary_iter(usize::MAX).next()` panics on overflow in a checked build and, in an unchecked build, wraps around
    to word 0 and answers `Some(0)` — a position *before* the start — where the model answers `None`. -/
theorem next_near_max_unchecked :
    (GenFn.UnaryIter.next ⟨false, false⟩ (GenFn.BitVector.unary_iter (BV.fromBits [true]) (2^64 - 1))).map
      (fun r => (r.1.pos, r.1.buf, r.2)) = .ok (0, 0, some 0) := by rfl
theorem next_near_max_checked :
    (GenFn.UnaryIter.next ⟨true, false⟩ (GenFn.BitVector.unary_iter (BV.fromBits [true]) (2^64 - 1))).map
      (fun r => (r.1.pos, r.1.buf, r.2)) = .error .overflow := by rfl
theorem next_near_max_model (c : Cfg) :
    (UIter.next c (BV.fromBits [true]) (UIter.new (BV.fromBits [true]) (2^64 - 1))).map
      (fun r => (r.1.pos, r.1.buf, r.2)) = .ok (2^64 + 63, 0, none) := by rfl

end Sucds.GenEq
