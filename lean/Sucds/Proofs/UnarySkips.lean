import Sucds.Proofs.UnaryIter
/-! C17: any sequence of `skip1(k)` / `skip0(k)` calls on a unary iterator, from the cursor established by
    `unary_iter(p)`: each call returns the k-th set / unset position at or after the cursor and moves the cursor
    there; when there is none it returns `None` and the iterator is exhausted (every later call answers `None`). -/
namespace Sucds.UIter
open Sucds Sucds.Spec

inductive Skip
  | s1 (k : Nat)   -- skip1(k)
  | s0 (k : Nat)   -- skip0(k)

/-- the cursor semantics of the property: `some cur` = standing at `cur`, `none` = exhausted -/
def specSkips (P : Nat → Bool) (n : Nat) : Option Nat → List Skip → List (Option Nat)
  | _, [] => []
  | none, _ :: r => none :: specSkips P n none r
  | some cur, .s1 k :: r => selFrom P n cur k :: specSkips P n (selFrom P n cur k) r
  | some cur, .s0 k :: r => selFrom (fun i => !P i) n cur k :: specSkips P n (selFrom (fun i => !P i) n cur k) r

/-- run the calls on the model -/
def runSkips (c : Cfg) (bv : BV) : UIter → List Skip → R (List (Option Nat))
  | _, [] => .ok []
  | it, .s1 k :: r => (it.skip1 c bv k).bind fun s => (runSkips c bv s.1 r).bind fun l => .ok (s.2 :: l)
  | it, .s0 k :: r => (it.skip0 c bv k).bind fun s => (runSkips c bv s.1 r).bind fun l => .ok (s.2 :: l)

theorem runSkips_done (c : Cfg) (bv : BV) (h : bv.Inv) : ∀ (ops : List Skip) (it : UIter), Done bv it →
    runSkips c bv it ops = .ok (specSkips bv.bitAt bv.len none ops) := by
  intro ops
  induction ops with
  | nil => intro it _; rfl
  | cons op r ih =>
    intro it hd
    cases op with
    | s1 k =>
      obtain ⟨it', e, hd'⟩ := done_skip1 c bv h it k hd
      simp only [runSkips, e, Except.bind, ih it' hd', specSkips]
    | s0 k =>
      obtain ⟨it', e, hd'⟩ := done_skip0 c bv h it k hd
      simp only [runSkips, e, Except.bind, ih it' hd', specSkips]

theorem runSkips_ok (c : Cfg) (bv : BV) (h : bv.Inv) : ∀ (ops : List Skip) (it : UIter) (cur : Nat),
    RepAt bv it cur → runSkips c bv it ops = .ok (specSkips bv.bitAt bv.len (some cur) ops) := by
  intro ops
  induction ops with
  | nil => intro it cur _; rfl
  | cons op r ih =>
    intro it cur hr
    cases op with
    | s1 k =>
      obtain ⟨it', e, h1, h2⟩ := skip1_ok c bv h it cur k hr.rep
      simp only [runSkips, e, Except.bind, specSkips]
      cases hs : selFrom bv.bitAt bv.len cur k with
      | none => rw [runSkips_done c bv h r it' (h2 hs)]
      | some q => rw [ih it' q (h1 q hs)]
    | s0 k =>
      obtain ⟨it', e, h1, h2⟩ := skip0_ok c bv h it cur k hr
      simp only [runSkips, e, Except.bind, specSkips]
      cases hs : selFrom (fun i => !bv.bitAt i) bv.len cur k with
      | none => rw [runSkips_done c bv h r it' (h2 hs)]
      | some q => rw [ih it' q (h1 q hs)]

/-- from `unary_iter(p)`, for every `p` (in particular every `p ≤ len`) -/
theorem skips_from_new (c : Cfg) (bv : BV) (h : bv.Inv) (p : Nat) (ops : List Skip) :
    runSkips c bv (UIter.new bv p) ops = .ok (specSkips bv.bitAt bv.len (some p) ops) :=
  runSkips_ok c bv h ops _ p (new_rep bv p)
end Sucds.UIter
