import Sucds.Proofs.EliasFanoSelect
set_option linter.unusedSimpArgs false
set_option linter.unusedVariables false
namespace Sucds
namespace EFB
open BV Spec

/-- greedy acceptance (the specification of C16): the values a builder with universe `u` and capacity
    `m` keeps from a push history, starting from the already accepted `acc` -/
def accepted (u m : Nat) : List Nat → List Nat → List Nat
  | acc, [] => acc
  | acc, v :: vs =>
    if acc.getLast?.getD 0 ≤ v ∧ v < u ∧ acc.length < m then accepted u m (acc ++ [v]) vs
    else accepted u m acc vs

/-- run a push history through the model builder, collecting the verdicts (`extend` is this loop stopped
    at the first `false`) -/
def run : EFB → List Nat → R (EFB × List Bool)
  | b, [] => .ok (b, [])
  | b, v :: vs => (b.push v).bind fun r => (run r.1 vs).bind fun rr => .ok (rr.1, r.2 :: rr.2)

/-- verdicts of the specification -/
def verdicts (u m : Nat) : List Nat → List Nat → List Bool
  | _, [] => []
  | acc, v :: vs =>
    if acc.getLast?.getD 0 ≤ v ∧ v < u ∧ acc.length < m then true :: verdicts u m (acc ++ [v]) vs
    else false :: verdicts u m acc vs

/-- **C16 over whole histories**: whatever is pushed, in whatever order, the builder never panics,
    accepts exactly the greedy filter of the history, reports each verdict truthfully, and a rejected
    push has no effect on what follows -/
theorem run_spec : ∀ (hist : List Nat) (b : EFB) (xs : List Nat), Holds b xs →
    ∃ b', run b hist = .ok (b', verdicts b.univ b.numVals xs hist) ∧
      Holds b' (accepted b.univ b.numVals xs hist) ∧ b'.univ = b.univ ∧ b'.numVals = b.numVals := by
  intro hist
  induction hist with
  | nil => intro b xs h; exact ⟨b, rfl, h, rfl, rfl⟩
  | cons v vs ih =>
    intro b xs h
    simp only [run, accepted, verdicts]
    by_cases hacc : xs.getLast?.getD 0 ≤ v ∧ v < b.univ ∧ xs.length < b.numVals
    · obtain ⟨h1, h2, h3⟩ := hacc
      obtain ⟨b1, hp, hh, hu, hm, _⟩ := push_holds b xs h v (by rw [h.last]; exact h1) h2 (by rw [h.pos]; exact h3)
      rw [hp]
      simp only [Except.bind]
      obtain ⟨b', hr, hh', hu', hm'⟩ := ih b1 (xs ++ [v]) hh
      rw [hu, hm] at hr hh'
      rw [hr]
      simp only [h1, h2, h3, and_self, if_true]
      exact ⟨b', rfl, hh', by rw [hu', hu], by rw [hm', hm]⟩
    · have hrej : v < b.last ∨ b.univ ≤ v ∨ b.numVals ≤ b.pos := by
        rw [h.last, h.pos]; omega
      rw [push_rej b v hrej]
      simp only [Except.bind]
      obtain ⟨b', hr, hh', hu', hm'⟩ := ih b xs h
      rw [hr]
      simp only [hacc, if_false]
      exact ⟨b', rfl, hh', hu', hm'⟩

/-- read-back: after any history, `select` returns exactly the accepted values -/
theorem run_select (u m : Nat) (hm : m ≠ 0) (hu : u < 2^64) (hist : List Nat) :
    ∃ b0 b', new u m = some b0 ∧ run b0 hist = .ok (b', verdicts u m [] hist) ∧
      ∀ k, b'.selectWith (sel b'.high.bitAt b'.high.len k) k = .ok (accepted u m [] hist)[k]? := by
  obtain ⟨b0, hn, hh, hu0, hm0⟩ := new_holds u m hm hu
  obtain ⟨b', hr, hh', _, _⟩ := run_spec hist b0 [] hh
  rw [hu0, hm0] at hr hh'
  exact ⟨b0, b', hn, hr, fun k => select_ok b' _ hh' k⟩

theorem new_zero (u : Nat) : new u 0 = none := by simp [new]

end EFB
end Sucds
