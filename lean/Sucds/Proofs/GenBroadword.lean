import Sucds.Gen.Fns
import Sucds.Props.C14
import Sucds.Proofs.BitVectorPredSucc
import Sucds.Proofs.DacsAccess
/-! # The functions generated from `src/broadword.rs`, `src/intrinsics.rs`, `src/utils.rs` agree with the model

`Sucds.GenFn.broadword.*` (generated, over `Nat` words and `Sucds.RS`) versus `Sucds.Broadword.*` (hand-written
model over `BitVec 64`), for every word and every build configuration; corollaries over plain `Nat` words in the
spec vocabulary (`cnt`, `sel`, `popcountN`, `selectInWordN`, `lsbW`, `msbW`). -/
namespace Sucds.GenEq
open Sucds Sucds.Spec Sucds.Broadword

/-! ## Stepping through `Except` chains -/

theorem bok {ε α β : Type} (v : α) (f : α → Except ε β) : (Except.ok v : Except ε α).bind f = f v := rfl
theorem berr {ε α β : Type} (e : ε) (f : α → Except ε β) : (Except.error e : Except ε α).bind f = .error e := rfl
theorem map_ok {ε α β : Type} (g : α → β) (v : α) : (Except.ok v : Except ε α).map g = .ok (g v) := rfl
theorem map_err {ε α β : Type} (g : α → β) (e : ε) : (Except.error e : Except ε α).map g = .error e := rfl

/-- one step of a chain whose intermediate value is a word: generated side over `Nat`, model side over `BitVec 64`,
    results compared through `h` -/
theorem step_map {ε α β γ : Type} (m : Except ε γ) (t : γ → Nat) (f : Nat → Except ε α) (g : γ → Except ε β) (h : β → α)
    (H : ∀ v, f (t v) = (g v).map h) : (m.map t).bind f = (m.bind g).map h := by
  cases m with
  | error e => rfl
  | ok v => exact H v

/-- the same when both sides return the same type -/
theorem step_id {ε α γ : Type} (m : Except ε γ) (t : γ → Nat) (f : Nat → Except ε α) (g : γ → Except ε α)
    (H : ∀ v, f (t v) = g v) : (m.map t).bind f = m.bind g := by
  cases m with
  | error e => rfl
  | ok v => exact H v

theorem bind_congr {ε α β : Type} (m : Except ε α) (f g : α → Except ε β) (H : ∀ v, f v = g v) : m.bind f = m.bind g := by
  cases m with
  | error e => rfl
  | ok v => exact H v

theorem bind_map_congr {ε α β γ : Type} (m : Except ε α) (f : α → Except ε γ) (g : α → Except ε β) (h : β → γ)
    (H : ∀ v, f v = (g v).map h) : m.bind f = (m.bind g).map h := by
  cases m with
  | error e => rfl
  | ok v => exact H v

/-! ## Homomorphism lemmas: `BitVec 64` operations versus the `Nat` operations of `RS` / `Prim` -/

theorem toNat_lt (x : BitVec 64) : x.toNat < 2^64 := x.isLt

theorem toNat_ofNat_lt (w : Nat) (hw : w < 2^64) : (BitVec.ofNat 64 w).toNat = w := by
  rw [BitVec.toNat_ofNat]; exact Nat.mod_eq_of_lt hw

theorem toNat_not64 (x : BitVec 64) : (~~~x).toNat = wnot x.toNat := by
  rw [BitVec.toNat_not]; unfold wnot; rw [Nat.mod_eq_of_lt x.isLt]

theorem toNat_mul64 (x y : BitVec 64) : (x * y).toNat = RS.wrappingMul x.toNat y.toNat := by
  rw [BitVec.toNat_mul]; rfl

theorem toNat_shl64 (x : BitVec 64) (n : Nat) : (x <<< n).toNat = RS.shlConst x.toNat n := by
  rw [BitVec.toNat_shiftLeft]; rfl

theorem toNat_ushr_bv (x p : BitVec 64) : (x >>> p).toNat = x.toNat >>> p.toNat := by
  rw [BitVec.ushiftRight_eq', BitVec.toNat_ushiftRight]

/-- checked subtraction -/
theorem csub_bv (c : Cfg) (a b : BitVec 64) (A B : Nat) (hA : A = a.toNat) (hB : B = b.toNat) :
    csub c A B = (bsub c a b).map BitVec.toNat := by
  subst hA; subst hB
  unfold csub bsub
  by_cases h : b.toNat ≤ a.toNat
  · rw [if_pos h, if_pos h, map_ok, BitVec.toNat_sub]
    have := a.isLt; have := b.isLt
    congr 1
    rw [show 2^64 - b.toNat + a.toNat = (a.toNat - b.toNat) + 2^64 by omega, Nat.add_mod_right, Nat.mod_eq_of_lt (by omega)]
  · rw [if_neg h, if_neg h]
    cases c.checked
    · simp only [Bool.false_eq_true, if_false, map_ok, BitVec.toNat_sub]
      have := b.isLt
      congr 2; omega
    · rfl

/-- checked addition -/
theorem cadd_bv (c : Cfg) (a b : BitVec 64) (A B : Nat) (hA : A = a.toNat) (hB : B = b.toNat) :
    cadd c A B = (badd c a b).map BitVec.toNat := by
  subst hA; subst hB
  unfold cadd badd
  by_cases h : a.toNat + b.toNat < 2^64
  · rw [if_pos h, if_pos h, map_ok, BitVec.toNat_add, Nat.mod_eq_of_lt h]
  · rw [if_neg h, if_neg h]
    cases c.checked
    · simp only [Bool.false_eq_true, if_false, map_ok, BitVec.toNat_add]
    · rfl

/-- checked multiplication -/
theorem cmul_bv (c : Cfg) (a b : BitVec 64) (A B : Nat) (hA : A = a.toNat) (hB : B = b.toNat) :
    cmul c A B = (bmul c a b).map BitVec.toNat := by
  subst hA; subst hB
  unfold cmul bmul
  by_cases h : a.toNat * b.toNat < 2^64
  · rw [if_pos h, if_pos h, map_ok, BitVec.toNat_mul, Nat.mod_eq_of_lt h]
  · rw [if_neg h, if_neg h]
    cases c.checked
    · simp only [Bool.false_eq_true, if_false, map_ok, BitVec.toNat_mul]
    · rfl

/-- `usize >> j` with a run-time shift amount: the generated `cshr` against the model's `shiftAmount` -/
theorem cshr_of_shiftAmount_ok (c : Cfg) (a p : BitVec 64) (A j : Nat) (hA : A = a.toNat) (h : shiftAmount c j = .ok p) :
    cshr c A j = .ok (a >>> p).toNat := by
  subst hA
  unfold shiftAmount at h
  unfold cshr
  by_cases hj : j < 64
  · rw [if_pos hj] at h; rw [if_pos hj]
    cases h
    rw [toNat_ushr_bv, toNat_ofNat_lt j (by omega)]
  · rw [if_neg hj] at h; rw [if_neg hj]
    cases hc : c.checked
    · rw [hc] at h
      simp only [Bool.false_eq_true, if_false] at h ⊢
      cases h
      rw [toNat_ushr_bv, toNat_ofNat_lt (j % 64) (by omega)]
    · rw [hc] at h; simp at h

theorem cshr_of_shiftAmount_err (c : Cfg) (A j : Nat) (e : Panic) (h : shiftAmount c j = .error e) :
    cshr c A j = .error e := by
  unfold shiftAmount at h
  unfold cshr
  by_cases hj : j < 64
  · rw [if_pos hj] at h; cases h
  · rw [if_neg hj] at h; rw [if_neg hj]
    cases hc : c.checked
    · rw [hc] at h; simp at h
    · rw [hc] at h; simpa using h

/-- `count_ones` -/
theorem countOnes_eq (x : BitVec 64) : RS.countOnes x.toNat = Broadword.countOnes x := by
  unfold RS.countOnes Broadword.countOnes
  have : (fun i => x.toNat.testBit i) = (fun i => x.getLsbD i) := funext fun i => BitVec.testBit_toNat x
  rw [this]

theorem toNat_eq_zero_iff (x : BitVec 64) : x.toNat = 0 ↔ x = 0 := by
  constructor
  · intro h; exact BitVec.eq_of_toNat_eq (by simpa using h)
  · intro h; subst h; rfl

/-- a non-zero word has a set bit, so the `find?` of the model's `trailing_zeros`/`leading_zeros` succeed -/
theorem exists_bit_of_ne_zero (x : BitVec 64) (hx : x ≠ 0) : ∃ i, i < 64 ∧ x.getLsbD i = true := by
  apply Classical.byContradiction
  intro hne
  apply hx
  apply BitVec.eq_of_getLsbD_eq
  intro i hi
  have : x.getLsbD i ≠ true := fun h => hne ⟨i, hi, h⟩
  simpa using this

/-! ## The generated constants -/

theorem ones4_toNat : Broadword.ONES_STEP_4.toNat = GenFn.broadword.ONES_STEP_4 := by decide
theorem ones8_toNat : Broadword.ONES_STEP_8.toNat = GenFn.broadword.ONES_STEP_8 := by decide
theorem ones9_toNat : Broadword.ONES_STEP_9.toNat = GenFn.broadword.ONES_STEP_9 := by decide
theorem msbs8_toNat : Broadword.MSBS_STEP_8.toNat = GenFn.broadword.MSBS_STEP_8 := by decide
theorem msbs9_toNat : Broadword.MSBS_STEP_9.toNat = GenFn.broadword.MSBS_STEP_9 := by decide
theorem debruijn_toNat : Broadword.DEBRUIJN64.toNat = GenFn.broadword.DEBRUIJN64 := by decide
theorem c10_ones4 : (0xa#64 * Broadword.ONES_STEP_4).toNat = 10 * GenFn.broadword.ONES_STEP_4 := by decide
theorem c3_ones4 : (3#64 * Broadword.ONES_STEP_4).toNat = 3 * GenFn.broadword.ONES_STEP_4 := by decide
theorem c15_ones8 : (0x0f#64 * Broadword.ONES_STEP_8).toNat = 15 * GenFn.broadword.ONES_STEP_8 := by decide
theorem max_toNat : (0xFFFFFFFFFFFFFFFF#64).toNat = RS.MAX := by decide

/-! ## `byte_counts`, `bytes_sum`, `popcount` -/

theorem byte_counts_eq (c : Cfg) (x : BitVec 64) :
    GenFn.broadword.byte_counts c x.toNat = (Broadword.byteCounts c x).map BitVec.toNat := by
  unfold GenFn.broadword.byte_counts Broadword.byteCounts
  rw [cmul_ok c (by decide : 10 * GenFn.broadword.ONES_STEP_4 < 2^64), bok]
  rw [csub_bv c x ((x &&& (0xa#64 * Broadword.ONES_STEP_4)) >>> 1) _ _ rfl
    (by rw [BitVec.toNat_ushiftRight, BitVec.toNat_and, c10_ones4])]
  refine step_map _ _ _ _ _ (fun x1 => ?_)
  rw [cmul_ok c (by decide : 3 * GenFn.broadword.ONES_STEP_4 < 2^64), bok, bok]
  rw [cadd_bv c (x1 &&& (3#64 * Broadword.ONES_STEP_4)) ((x1 >>> 2) &&& (3#64 * Broadword.ONES_STEP_4)) _ _
    (by rw [BitVec.toNat_and, c3_ones4])
    (by rw [BitVec.toNat_and, BitVec.toNat_ushiftRight, c3_ones4])]
  refine step_map _ _ _ _ _ (fun x2 => ?_)
  rw [cadd_bv c x2 (x2 >>> 4) _ _ rfl (by rw [BitVec.toNat_ushiftRight])]
  refine step_map _ _ _ _ _ (fun x3 => ?_)
  rw [cmul_ok c (by decide : 15 * GenFn.broadword.ONES_STEP_8 < 2^64), bok, map_ok, BitVec.toNat_and, c15_ones8]

theorem bytes_sum_eq (y : BitVec 64) : GenFn.broadword.bytes_sum y.toNat = (Broadword.bytesSum y).toNat := by
  unfold GenFn.broadword.bytes_sum Broadword.bytesSum
  rw [BitVec.toNat_ushiftRight, toNat_mul64, ones8_toNat]

theorem popcount_eq (c : Cfg) (x : BitVec 64) : GenFn.broadword.popcount c x.toNat = Broadword.popcount c x := by
  unfold GenFn.broadword.popcount Broadword.popcount
  by_cases hi : c.intrinsics = true
  · rw [if_pos hi, if_pos hi]; unfold GenFn.intrinsics.popcount; rw [countOnes_eq]
  · rw [if_neg hi, if_neg hi, byte_counts_eq]
    refine step_id _ _ _ _ (fun y => ?_)
    rw [bytes_sum_eq]

/-! ## `bit_position` -/

theorem debruijn_index (x : BitVec 64) :
    (RS.wrappingMul GenFn.broadword.DEBRUIJN64 x.toNat) >>> 58 = ((Broadword.DEBRUIJN64 * x) >>> 58).toNat := by
  rw [BitVec.toNat_ushiftRight, toNat_mul64, debruijn_toNat]

theorem bit_position_eq (c : Cfg) (x : BitVec 64) : GenFn.broadword.bit_position c x.toNat = Broadword.bitPosition c x := by
  unfold GenFn.broadword.bit_position Broadword.bitPosition
  rw [popcount_eq]
  refine bind_congr _ _ _ (fun pc => ?_)
  refine bind_congr _ _ _ (fun _ => ?_)
  rw [debruijn_index]
  unfold RS.index Broadword.debruijnMapping
  generalize Gen.DEBRUIJN64_MAPPING.toArray[((Broadword.DEBRUIJN64 * x) >>> 58).toNat]? = o
  cases o <;> rfl

/-! ## `lsb`, `msb` (with `bsf64`, `bsr64`) -/

theorem find_ne_none (x : BitVec 64) (hx : x ≠ 0) : (List.range 64).find? (fun i => x.getLsbD i) ≠ none := by
  obtain ⟨i, hi, hb⟩ := exists_bit_of_ne_zero x hx
  intro h
  rw [List.find?_eq_none] at h
  exact h i (List.mem_range.mpr hi) hb

theorem rfind_ne_none (x : BitVec 64) (hx : x ≠ 0) : (List.range 64).reverse.find? (fun i => x.getLsbD i) ≠ none := by
  obtain ⟨i, hi, hb⟩ := exists_bit_of_ne_zero x hx
  intro h
  rw [List.find?_eq_none] at h
  exact h i (List.mem_reverse.mpr (List.mem_range.mpr hi)) hb

theorem testBit_fun (x : BitVec 64) : (fun i => x.toNat.testBit i) = (fun i => x.getLsbD i) :=
  funext fun _ => BitVec.testBit_toNat x

theorem lsb_eq (c : Cfg) (x : BitVec 64) : GenFn.broadword.lsb c x.toNat = Broadword.lsb c x := by
  unfold GenFn.broadword.lsb Broadword.lsb
  by_cases hi : c.intrinsics = true
  · rw [if_pos hi, if_pos hi]
    unfold GenFn.intrinsics.bsf64 RS.trailingZeros
    rw [testBit_fun]
    by_cases h0 : x = 0
    · subst h0; rfl
    · have hn : x.toNat ≠ 0 := fun h => h0 ((toNat_eq_zero_iff x).mp h)
      rw [if_pos hn, if_neg h0]
      cases hf : (List.range 64).find? (fun i => x.getLsbD i) with
      | none => exact absurd hf (find_ne_none x h0)
      | some p => rfl
  · rw [if_neg hi, if_neg hi]
    by_cases h0 : x = 0
    · subst h0; rfl
    · have hn : x.toNat ≠ 0 := fun h => h0 ((toNat_eq_zero_iff x).mp h)
      rw [if_neg hn, if_neg h0]
      rw [show x.toNat &&& RS.wrappingMul RS.MAX x.toNat = (x &&& (0xFFFFFFFFFFFFFFFF#64 * x)).toNat by
        rw [BitVec.toNat_and, toNat_mul64, max_toNat]]
      rw [bit_position_eq]

theorem msb_eq (c : Cfg) (x : BitVec 64) : GenFn.broadword.msb c x.toNat = Broadword.msb c x := by
  unfold GenFn.broadword.msb Broadword.msb
  by_cases hi : c.intrinsics = true
  · rw [if_pos hi, if_pos hi]
    unfold GenFn.intrinsics.bsr64 RS.leadingZeros
    rw [testBit_fun]
    by_cases h0 : x = 0
    · subst h0; rfl
    · have hn : x.toNat ≠ 0 := fun h => h0 ((toNat_eq_zero_iff x).mp h)
      rw [if_pos hn, if_neg h0]
      cases hf : (List.range 64).reverse.find? (fun i => x.getLsbD i) with
      | none => exact absurd hf (rfind_ne_none x h0)
      | some p =>
        have hp : p < 64 := by
          have := List.mem_of_find?_eq_some hf
          rw [List.mem_reverse, List.mem_range] at this
          exact this
        show (csub c 63 (63 - p)).bind _ = _
        rw [csub_ok c (by omega), bok]
        congr 2; omega
  · rw [if_neg hi, if_neg hi]
    by_cases h0 : x = 0
    · subst h0; rfl
    · have hn : x.toNat ≠ 0 := fun h => h0 ((toNat_eq_zero_iff x).mp h)
      rw [if_neg hn, if_neg h0]
      rw [← bit_position_eq]
      simp only [Broadword.msbIsolate, BitVec.toNat_xor, BitVec.toNat_or, BitVec.toNat_ushiftRight]

/-! ## `uleq_step_9`, `leq_step_8`, `uleq_step_8` -/

theorem uleq_step_9_eq (c : Cfg) (x y : BitVec 64) :
    GenFn.broadword.uleq_step_9 c x.toNat y.toNat = (Broadword.uleqStep9 c x y).map BitVec.toNat := by
  unfold GenFn.broadword.uleq_step_9 Broadword.uleqStep9
  rw [csub_bv c (y ||| Broadword.MSBS_STEP_9) (x &&& ~~~Broadword.MSBS_STEP_9) _ _
    (by rw [BitVec.toNat_or, msbs9_toNat]) (by rw [BitVec.toNat_and, toNat_not64, msbs9_toNat])]
  refine step_map _ _ _ _ _ (fun d => ?_)
  rw [map_ok]
  simp only [BitVec.toNat_ushiftRight, BitVec.toNat_and, BitVec.toNat_xor, BitVec.toNat_or, toNat_not64, msbs9_toNat]

theorem bind_congr2 {ε α β : Type} (m m' : Except ε α) (f g : α → Except ε β) (hm : m = m') (H : ∀ v, f v = g v) :
    m.bind f = m'.bind g := by
  subst hm; exact bind_congr m f g H

/-! ## `select_in_word` -/

theorem select_in_word_eq (c : Cfg) (x : BitVec 64) (k : Nat) (hk : k < 2^64) :
    GenFn.broadword.select_in_word c x.toNat k = Broadword.selectInWord c x k := by
  unfold GenFn.broadword.select_in_word Broadword.selectInWord
  rw [popcount_eq]
  refine bind_congr _ _ _ (fun pc => ?_)
  by_cases hpk : pc ≤ k
  · rw [if_pos hpk, if_pos hpk]
  · rw [if_neg hpk, if_neg hpk, byte_counts_eq]
    refine step_id _ _ _ _ (fun bc => ?_)
    unfold Broadword.selectTail
    dsimp only
    rw [show RS.wrappingMul GenFn.broadword.ONES_STEP_8 bc.toNat = (Broadword.ONES_STEP_8 * bc).toNat by
      rw [toNat_mul64, ones8_toNat]]
    generalize Broadword.ONES_STEP_8 * bc = S
    -- k * ONES_STEP_8
    rw [cmul_bv c (BitVec.ofNat 64 k) Broadword.ONES_STEP_8 _ _ (toNat_ofNat_lt k hk).symm ones8_toNat.symm]
    refine step_id _ _ _ _ (fun ks => ?_)
    rw [csub_bv c (ks ||| Broadword.MSBS_STEP_8) S _ _ (by rw [BitVec.toNat_or, msbs8_toNat]) rfl]
    refine step_id _ _ _ _ (fun d => ?_)
    refine bind_congr2 _ _ _ _ ?_ (fun j => ?_)
    · -- the `place` block
      unfold Broadword.selPlaceM
      have hg : d.toNat &&& GenFn.broadword.MSBS_STEP_8 = (d &&& Broadword.MSBS_STEP_8).toNat := by
        rw [BitVec.toNat_and, msbs8_toNat]
      rw [hg]
      by_cases hi : c.intrinsics = true
      · rw [if_pos hi, if_pos hi, popcount_eq]
      · rw [if_neg hi, if_neg hi]
        apply congrArg Except.ok
        unfold Broadword.placePortable
        simp only [BitVec.toNat_and, BitVec.toNat_ushiftRight, toNat_mul64, toNat_not64, ones8_toNat, msbs8_toNat]
        rfl
    · -- the shifts by `place`
      cases hs : Broadword.shiftAmount c j with
      | error e => rw [cshr_of_shiftAmount_err c _ j e hs]; rfl
      | ok p =>
        rw [cshr_of_shiftAmount_ok c (S <<< 8) p _ j (toNat_shl64 S 8).symm hs, bok, bok]
        rw [cshr_of_shiftAmount_ok c x p _ j rfl hs]
        rw [csub_bv c (BitVec.ofNat 64 k) (((S <<< 8) >>> p) &&& 0xFF#64) _ _ (toNat_ofNat_lt k hk).symm
          (by rw [BitVec.toNat_and]; rfl)]
        refine step_id _ _ _ _ (fun br => ?_)
        rw [bok]
        rw [show ((x >>> p).toNat &&& 255) ||| RS.shlConst br.toNat 8 = (((x >>> p) &&& 0xFF#64) ||| (br <<< 8)).toNat by
          rw [BitVec.toNat_or, BitVec.toNat_and, toNat_shl64]; rfl]
        unfold RS.index Broadword.selectInByte
        generalize Gen.SELECT_IN_BYTE.toArray[(((x >>> p) &&& 0xFF#64) ||| (br <<< 8)).toNat]? = o
        cases o <;> rfl

/-! ## Corollaries over plain `Nat` words, in the spec vocabulary -/

theorem popcount_spec (c : Cfg) (w : Nat) (hw : w < 2^64) : GenFn.broadword.popcount c w = .ok (popcountN c w) := by
  have h := popcount_eq c (BitVec.ofNat 64 w)
  rw [toNat_ofNat_lt w hw] at h
  rw [h]; unfold popcountN; rw [C14.popcount_ok]

theorem popcount_cnt (c : Cfg) (w : Nat) (hw : w < 2^64) :
    GenFn.broadword.popcount c w = .ok (cnt (fun i => w.testBit i) 64) := by
  rw [popcount_spec c w hw, popcountN_eq c w hw]

theorem select_in_word_spec (c : Cfg) (w k : Nat) (hw : w < 2^64) (hk : k < 2^64) :
    GenFn.broadword.select_in_word c w k = .ok (selectInWordN c w k) := by
  have h := select_in_word_eq c (BitVec.ofNat 64 w) k hk
  rw [toNat_ofNat_lt w hw] at h
  rw [h]; unfold selectInWordN; rw [C14.selectInWord_ok]

theorem select_in_word_sel (c : Cfg) (w k : Nat) (hw : w < 2^64) (hk : k < 2^64) :
    GenFn.broadword.select_in_word c w k = .ok (sel (fun i => w.testBit i) 64 k) := by
  rw [select_in_word_spec c w k hw hk, selectInWordN_eq c w k hw]

theorem lsb_spec (c : Cfg) (w : Nat) (hw : w < 2^64) : GenFn.broadword.lsb c w = .ok (lsbW c w) := by
  have h := lsb_eq c (BitVec.ofNat 64 w)
  rw [toNat_ofNat_lt w hw] at h
  rw [h]; unfold lsbW; rw [C14.lsb_ok]

/-- `lsb` returns the lowest set position (`sel … 0`) -/
theorem lsb_sel (c : Cfg) (w : Nat) (hw : w < 2^64) :
    GenFn.broadword.lsb c w = .ok (sel (fun i => w.testBit i) 64 0) := by
  rw [lsb_spec c w hw, ScanB.lsbW_eq c w hw]

theorem msb_spec (c : Cfg) (w : Nat) (hw : w < 2^64) : GenFn.broadword.msb c w = .ok (msbW c w) := by
  have h := msb_eq c (BitVec.ofNat 64 w)
  rw [toNat_ofNat_lt w hw] at h
  rw [h]; unfold msbW; rw [C14.msb_ok]

/-- `msb` returns the highest set position (the last of the `cnt` set positions), `none` for 0 -/
theorem msb_sel (c : Cfg) (w : Nat) (hw : w < 2^64) :
    GenFn.broadword.msb c w =
      .ok (if w = 0 then none else sel (fun i => w.testBit i) 64 (cnt (fun i => w.testBit i) 64 - 1)) := by
  rw [msb_spec c w hw, ScanB.msbW_eq c w hw]

theorem msb_log2 (c : Cfg) (w : Nat) (hw : w < 2^64) :
    GenFn.broadword.msb c w = .ok (if w = 0 then none else some (Nat.log2 w)) := by
  rw [msb_spec c w hw, msbW_ok c w hw]

theorem eq_zero_of_bits (w : Nat) (hw : w < 2^64) (h : ∀ j, j < 64 → w.testBit j = false) : w = 0 := by
  apply Nat.eq_of_testBit_eq
  intro i
  rw [Nat.zero_testBit]
  by_cases hi : i < 64
  · exact h i hi
  · exact Nat.testBit_lt_two_pow (Nat.lt_of_lt_of_le hw (Nat.pow_le_pow_right (by decide) (by omega)))

theorem lsb_none_iff (c : Cfg) (w : Nat) (hw : w < 2^64) : GenFn.broadword.lsb c w = .ok none ↔ w = 0 := by
  rw [lsb_spec c w hw]
  constructor
  · intro h
    have h' : lsbW c w = none := by injection h
    exact eq_zero_of_bits w hw (ScanB.lsbW_none c w hw h')
  · intro h; subst h
    rw [ScanB.lsbW_eq c 0 hw, sel_eq_none]
    rw [C14.cnt_zero_of_false _ 64 (fun i _ => Nat.zero_testBit i)]; exact Nat.zero_le _

theorem lsb_some (c : Cfg) (w r : Nat) (hw : w < 2^64) (h : GenFn.broadword.lsb c w = .ok (some r)) :
    r < 64 ∧ w.testBit r = true ∧ ∀ j, j < r → w.testBit j = false := by
  rw [lsb_spec c w hw] at h
  exact ScanB.lsbW_some c w r hw (by injection h)

theorem msb_none_iff (c : Cfg) (w : Nat) (hw : w < 2^64) : GenFn.broadword.msb c w = .ok none ↔ w = 0 := by
  rw [msb_log2 c w hw]
  by_cases h0 : w = 0
  · simp [h0]
  · simp [h0]

theorem msb_some (c : Cfg) (w r : Nat) (hw : w < 2^64) (h : GenFn.broadword.msb c w = .ok (some r)) :
    r < 64 ∧ w.testBit r = true ∧ ∀ j, r < j → j < 64 → w.testBit j = false := by
  rw [msb_spec c w hw] at h
  exact ScanB.msbW_some c w r hw (by injection h)

/-! ## `utils.rs` -/

theorem needed_bits_spec (c : Cfg) (x : Nat) (hx : x < 2^64) :
    GenFn.utils.needed_bits c x = .ok (if x = 0 then 1 else Nat.log2 x + 1) := by
  unfold GenFn.utils.needed_bits
  rw [msb_log2 c x hx, bok]
  by_cases h0 : x = 0
  · rw [if_pos h0, if_pos h0]
  · rw [if_neg h0, if_neg h0]
    have hl : Nat.log2 x < 64 := (Nat.log2_lt h0).mpr hx
    exact cadd_ok c (by omega)

/-- `ceiled_divide`: the sum `x + y` must not overflow (it panics in checked builds otherwise) and `y ≠ 0` -/
theorem ceiled_divide_spec (c : Cfg) (x y : Nat) (hy : 0 < y) (hxy : x + y < 2^64) :
    GenFn.utils.ceiled_divide c x y = .ok ((x + y - 1) / y) := by
  unfold GenFn.utils.ceiled_divide
  rw [cadd_ok c hxy, bok, csub_ok c (by omega), bok]
  unfold RS.cdiv
  rw [if_neg (by omega)]

/-- in wrapping builds the result is also right when `x + y = 2^64` exactly (the sum wraps to 0 and `0 - 1` wraps back) -/
theorem ceiled_divide_spec_wrapping (c : Cfg) (hc : c.checked = false) (x y : Nat) (hy : 0 < y) (hxy : x + y ≤ 2^64) :
    GenFn.utils.ceiled_divide c x y = .ok ((x + y - 1) / y) := by
  by_cases h : x + y < 2^64
  · exact ceiled_divide_spec c x y hy h
  · have he : x + y = 2^64 := by omega
    unfold GenFn.utils.ceiled_divide
    have h1 : cadd c x y = .ok 0 := by
      unfold cadd; rw [if_neg h, hc, he]; rfl
    have h2 : csub c 0 1 = .ok (2^64 - 1) := by
      unfold csub; rw [if_neg (by omega), hc]; rfl
    rw [h1, bok, h2, bok, he]
    unfold RS.cdiv
    rw [if_neg (by omega)]

/-! ## `leq_step_8`, `uleq_step_8` (unused helpers of the crate; the model has no counterpart, so they are stated
    against the direct `BitVec 64` transcription of the Rust expression) -/

theorem leq_step_8_eq (c : Cfg) (x y : BitVec 64) :
    GenFn.broadword.leq_step_8 c x.toNat y.toNat =
      ((bsub c (y ||| Broadword.MSBS_STEP_8) (x &&& ~~~Broadword.MSBS_STEP_8)).bind fun d =>
        .ok (((d ^^^ (x ^^^ y)) &&& Broadword.MSBS_STEP_8) >>> 7)).map BitVec.toNat := by
  unfold GenFn.broadword.leq_step_8
  rw [csub_bv c (y ||| Broadword.MSBS_STEP_8) (x &&& ~~~Broadword.MSBS_STEP_8) _ _
    (by rw [BitVec.toNat_or, msbs8_toNat]) (by rw [BitVec.toNat_and, toNat_not64, msbs8_toNat])]
  refine step_map _ _ _ _ _ (fun d => ?_)
  rw [map_ok]
  simp only [BitVec.toNat_ushiftRight, BitVec.toNat_and, BitVec.toNat_xor, msbs8_toNat]

theorem uleq_step_8_eq (c : Cfg) (x y : BitVec 64) :
    GenFn.broadword.uleq_step_8 c x.toNat y.toNat =
      ((bsub c (y ||| Broadword.MSBS_STEP_8) (x &&& ~~~Broadword.MSBS_STEP_8)).bind fun d =>
        .ok ((((d ^^^ (x ^^^ y)) ^^^ (x &&& ~~~y)) &&& Broadword.MSBS_STEP_8) >>> 7)).map BitVec.toNat := by
  unfold GenFn.broadword.uleq_step_8
  rw [csub_bv c (y ||| Broadword.MSBS_STEP_8) (x &&& ~~~Broadword.MSBS_STEP_8) _ _
    (by rw [BitVec.toNat_or, msbs8_toNat]) (by rw [BitVec.toNat_and, toNat_not64, msbs8_toNat])]
  refine step_map _ _ _ _ _ (fun d => ?_)
  rw [map_ok]
  simp only [BitVec.toNat_ushiftRight, BitVec.toNat_and, BitVec.toNat_xor, toNat_not64, msbs8_toNat]

end Sucds.GenEq
