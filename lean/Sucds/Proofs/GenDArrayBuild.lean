import Sucds.Proofs.GenBroadword
import Sucds.Proofs.GenBitVectorRW
import Sucds.Proofs.GenBitVectorScan
import Sucds.Proofs.GenRank9Build
import Sucds.Proofs.GenRank9Query
import Sucds.Proofs.DArray
/-! `DArrayIndex::{flush_cur_block, build, new}` as *generated* from `src/bit_vectors/darray/inner.rs`
    agree with the hand-written model (`DAIndex.flush`, `DAIndex.build`). -/
set_option linter.unusedSimpArgs false
set_option linter.unusedVariables false
namespace Sucds.GenEq
open Sucds Sucds.Spec Sucds.DAProof

/-! ### bridging facts -/

theorem getElem?_wordAt (a : Array Nat) (i : Nat) (h : i < a.size) : a[i]? = some (wordAt a i) := by
  unfold wordAt; rw [Array.getElem?_eq_getElem h]; rfl

theorem back?_wordAt (a : Array Nat) (h : a.size ≠ 0) : a.back? = some (wordAt a (a.size - 1)) := by
  rw [Array.back?_eq_getElem?]; exact getElem?_wordAt a _ (by omega)

theorem unwrap_some {α : Type} (x : α) : RS.unwrap (some x) = .ok x := rfl

theorem isizeOfUsize_small (n : Nat) (h : n < 2^63) : RS.isizeOfUsize n = Int.ofNat n := by
  unfold RS.isizeOfUsize; rw [if_pos h]; rfl

theorem ineg_natCast (c : Cfg) (n : Nat) (h : n ≤ 2^63) : RS.ineg c (Int.ofNat n) = .ok (-(Int.ofNat n)) := by
  have h1 : -(2^63 : Int) ≤ -(Int.ofNat n) := by simp only [Int.ofNat_eq_natCast]; omega
  have h2 : -(Int.ofNat n) < 2^63 := by simp only [Int.ofNat_eq_natCast]; omega
  have hr : RS.inRangeI (-(Int.ofNat n)) = true := by
    unfold RS.inRangeI; simp only [Bool.and_eq_true, decide_eq_true_eq]; exact ⟨h1, h2⟩
  unfold RS.ineg; rw [if_pos hr]

/-- `for x in v { w.push(x) }` -/
theorem push_all_loop (l : List Nat) : ∀ (ov : Array Nat),
    RS.forList (fun x (o : Array Nat) => (Except.ok (o.push x) : R (Array Nat))) l ov = .ok (ov ++ l.toArray) := by
  induction l with
  | nil => intro ov; simp [RS.forList]
  | cons x xs ih =>
    intro ov
    rw [RS.forList, bok, ih]
    congr 1
    apply Array.ext'
    simp

/-- `for i in (0..cur.len()).step_by(32) { sub.push(g(i)) }` is the model's `subPush` -/
theorem subPush_loop (cur : Array Nat) (first : Nat) (dense : Bool) (body : Nat → Array Nat → R (Array Nat))
    (hbody : ∀ j sub, 32 * j < cur.size →
      body j sub = .ok (sub.push (if dense then (wordAt cur (32 * j) - first) % 65536 else 65535))) :
    ∀ (n j fuel : Nat) (sub : Array Nat), n = (cur.size - 32 * j + 31) / 32 → n ≤ fuel →
      RS.forCount body j n sub = .ok (DAIndex.subPush cur first dense sub (32 * j) fuel) := by
  intro n
  induction n with
  | zero =>
    intro j fuel sub hn _
    cases fuel with
    | zero => rfl
    | succ f => simp only [RS.forCount, DAIndex.subPush]; rw [if_neg (by omega)]
  | succ n ih =>
    intro j fuel sub hn hf
    cases fuel with
    | zero => omega
    | succ f =>
      have hj : 32 * j < cur.size := by omega
      simp only [RS.forCount, DAIndex.subPush]
      rw [if_pos hj, hbody j sub hj, bok, hS, show 32 * j + 32 = 32 * (j + 1) by omega]
      exact ih (j + 1) f _ (by omega) (by omega)

theorem forStep32 {σ : Type} (n : Nat) (init : σ) (body : Nat → σ → R σ) :
    RS.forStep 0 n 32 init body = RS.forCount (fun j s => body (32 * j) s) 0 ((n + 31) / 32) init := by
  unfold RS.forStep
  rw [if_neg (by decide)]
  simp only [Nat.sub_zero, Nat.zero_add]
  congr 1
  funext j s
  rw [Nat.mul_comm]

/-! ### `flush_cur_block` -/

/-- the four `&mut Vec` results of `flush_cur_block` for a model state -/
def flushOut (s : DAIndex.BSt) : Array Nat × Array Int × Array Nat × Array Nat × Unit :=
  (s.cur, s.blockInv, s.subInv, s.overflow, ())

/-- **`flush_cur_block`** (generated) = the model's `flush`: the block is non-empty, its first position is its
    least and fits an `isize`, and the overflow vector stays below `isize::MAX` entries -/
theorem da_flush_eq (c : Cfg) (s : DAIndex.BSt) (h0 : s.cur.size ≠ 0)
    (hmono : ∀ i, i < s.cur.size → wordAt s.cur 0 ≤ wordAt s.cur i)
    (hfirst : wordAt s.cur 0 < 2^63) (hov : s.overflow.size + 1 < 2^63) :
    GenFn.DArrayIndex.flush_cur_block c s.cur s.blockInv s.subInv s.overflow = .ok (flushOut (DAIndex.flush s)) := by
  unfold GenFn.DArrayIndex.flush_cur_block
  simp only [GenFn.darray_inner.MAX_IN_BLOCK_DISTANCE, GenFn.darray_inner.SUBBLOCK_LEN]
  rw [getElem?_wordAt s.cur 0 (by omega), unwrap_some, bok, back?_wordAt s.cur h0, unwrap_some, bok,
    csub_ok c (hmono _ (by omega)), bok]
  unfold DAIndex.flush flushOut
  simp only []
  rw [hD]
  by_cases hd : wordAt s.cur (s.cur.size - 1) - wordAt s.cur 0 < 65536
  · rw [if_pos hd, if_pos hd, forStep32]
    rw [subPush_loop s.cur (wordAt s.cur 0) true _ (fun j sub hj => by
      rw [index_eq, idx_ok _ _ hj, bok, csub_ok c (hmono _ hj), bok]; rfl)
      _ 0 s.cur.size s.subInv (by omega) (by omega), bok, bok, isizeOfUsize_small _ hfirst]
  · rw [if_neg hd, if_neg hd, cadd_ok c (by omega), bok, isizeOfUsize_small _ (by omega), ineg_natCast c _ (by omega), bok,
      push_all_loop, bok, forStep32, Array.toArray_toList]
    rw [subPush_loop s.cur (wordAt s.cur 0) false (fun j sub => .ok (sub.push 65535)) (fun j sub hj => rfl)
      _ 0 s.cur.size s.subInv (by omega) (by omega), bok, bok]

/-! ### the invariant that bounds the checked arithmetic of `build` -/

/-- everything recorded so far lies below `Q`: the number of positions, the size of the overflow vector and the
    positions of the open block (whose first entry is its least) -/
structure Rng (B : Array Int) (S : Array Nat) (Q : Nat) : Prop where
  bi : ∀ (j : Nat) (bp : Int), B[j]? = some bp → -(Q : Int) ≤ bp ∧ bp < (Q : Int)
  si : ∀ (j v : Nat), S[j]? = some v → v < 65536

theorem Rng.weaken {B : Array Int} {S : Array Nat} {Q Q' : Nat} (h : Rng B S Q) (hq : Q ≤ Q') : Rng B S Q' :=
  ⟨fun j bp hb => by have := h.bi j bp hb; omega, h.si⟩

theorem Rng.init : Rng #[] #[] 0 := ⟨fun j bp hb => by simp at hb, fun j v hv => by simp at hv⟩

theorem getElem?_push_cases {α : Type} (a : Array α) (x : α) (j : Nat) (v : α) (h : (a.push x)[j]? = some v) :
    a[j]? = some v ∨ v = x := by
  rw [Array.getElem?_push] at h
  split at h
  · right; injection h with h; exact h.symm
  · left; exact h

theorem subPush_bound (cur : Array Nat) (first : Nat) (dense : Bool) : ∀ (fuel i : Nat) (sub : Array Nat),
    (∀ (j v : Nat), sub[j]? = some v → v < 65536) →
    ∀ (j v : Nat), (DAIndex.subPush cur first dense sub i fuel)[j]? = some v → v < 65536 := by
  intro fuel
  induction fuel with
  | zero => intro i sub hs; exact hs
  | succ fuel ih =>
    intro i sub hs
    simp only [DAIndex.subPush]
    split
    · apply ih
      intro j v hv
      rcases getElem?_push_cases _ _ j v hv with h1 | h1
      · exact hs j v h1
      · rw [h1]; split
        · exact Nat.mod_lt _ (by decide)
        · decide
    · exact hs

/-- `flush` keeps the inventories inside the ranges of their Rust types -/
theorem flush_Rng (s : DAIndex.BSt) (Q : Nat) (h : Rng s.blockInv s.subInv Q) (hfirst : wordAt s.cur 0 < Q)
    (hov : s.overflow.size + 1 ≤ Q) : Rng (DAIndex.flush s).blockInv (DAIndex.flush s).subInv Q := by
  unfold DAIndex.flush
  simp only []
  split
  · refine ⟨?_, subPush_bound _ _ _ _ _ _ h.si⟩
    intro j bp hb
    rcases getElem?_push_cases _ _ j bp hb with h1 | h1
    · exact h.bi j bp h1
    · rw [h1]; simp only [Int.ofNat_eq_natCast]; omega
  · refine ⟨?_, subPush_bound _ _ _ _ _ _ h.si⟩
    intro j bp hb
    rcases getElem?_push_cases _ _ j bp hb with h1 | h1
    · exact h.bi j bp h1
    · rw [h1]; simp only [Int.ofNat_eq_natCast]; omega

structure J (s : DAIndex.BSt) (Q : Nat) : Prop where
  rng : Rng s.blockInv s.subInv Q
  np : s.numPos ≤ Q
  ov : s.overflow.size + s.cur.size ≤ s.numPos
  lt : ∀ i, i < s.cur.size → wordAt s.cur i < Q
  mono : ∀ i, i < s.cur.size → wordAt s.cur 0 ≤ wordAt s.cur i

theorem J.init : J ⟨#[], #[], #[], #[], 0⟩ 0 :=
  ⟨Rng.init, Nat.le_refl _, Nat.le_refl _, fun i hi => absurd hi (Nat.not_lt_zero i), fun i hi => absurd hi (Nat.not_lt_zero i)⟩

theorem J.weaken {s : DAIndex.BSt} {Q Q' : Nat} (h : J s Q) (hq : Q ≤ Q') : J s Q' :=
  ⟨h.rng.weaken hq, Nat.le_trans h.np hq, h.ov, fun i hi => Nat.lt_of_lt_of_le (h.lt i hi) hq, h.mono⟩

theorem flush_cur (s : DAIndex.BSt) : (DAIndex.flush s).cur = #[] := by
  unfold DAIndex.flush; simp only []; split <;> rfl

theorem flush_numPos (s : DAIndex.BSt) : (DAIndex.flush s).numPos = s.numPos := by
  unfold DAIndex.flush; simp only []; split <;> rfl

theorem flush_overflow_size (s : DAIndex.BSt) : (DAIndex.flush s).overflow.size ≤ s.overflow.size + s.cur.size := by
  unfold DAIndex.flush; simp only []
  split
  · simp only []; omega
  · simp only [Array.size_append]; omega

/-- the block with one more position can be flushed by the generated code -/
theorem J.flushable {s : DAIndex.BSt} {Q p : Nat} (h : J s Q) (hp : Q ≤ p) :
    (s.cur.push p).size ≠ 0 ∧ (∀ i, i < (s.cur.push p).size → wordAt (s.cur.push p) 0 ≤ wordAt (s.cur.push p) i) ∧
    wordAt (s.cur.push p) 0 ≤ p ∧ s.overflow.size + 1 ≤ p + 1 := by
  have h0 : wordAt (s.cur.push p) 0 ≤ p := by
    rw [wordAt_push]
    by_cases hz : 0 = s.cur.size
    · rw [if_pos hz]; omega
    · rw [if_neg hz]; have := h.lt 0 (by omega); omega
  refine ⟨by rw [Array.size_push]; omega, ?_, h0, ?_⟩
  · intro i hi
    rw [Array.size_push] at hi
    rw [wordAt_push _ _ i]
    by_cases hz : i = s.cur.size
    · rw [if_pos hz]; exact h0
    · rw [if_neg hz, wordAt_push]
      have hi' : i < s.cur.size := by omega
      rw [if_neg (by omega)]
      exact h.mono i hi'
  · have := h.ov; have := h.np; omega

theorem J.pushOne {s : DAIndex.BSt} {Q p : Nat} (h : J s Q) (hp : Q ≤ p) : J (pushOne s p) (p + 1) := by
  obtain ⟨f1, f2, f3, f4⟩ := h.flushable hp
  have hnp := h.np
  have hov := h.ov
  unfold DAProof.pushOne
  simp only []
  by_cases hfull : (s.cur.push p).size = Gen.DA_BLOCK_LEN
  · rw [if_pos hfull]
    refine ⟨?_, ?_, ?_, ?_, ?_⟩
    · exact flush_Rng { s with cur := s.cur.push p } (p + 1) (h.rng.weaken (by omega)) (by show wordAt (s.cur.push p) 0 < p + 1; omega) f4
    · show (DAIndex.flush _).numPos + 1 ≤ p + 1
      rw [flush_numPos]; show s.numPos + 1 ≤ p + 1; omega
    · show (DAIndex.flush _).overflow.size + (DAIndex.flush _).cur.size ≤ (DAIndex.flush _).numPos + 1
      have := flush_overflow_size { s with cur := s.cur.push p }
      rw [flush_cur, flush_numPos]
      simp only [Array.size_push] at this ⊢
      show _ + 0 ≤ s.numPos + 1
      omega
    · intro i hi
      have : i < (DAIndex.flush { s with cur := s.cur.push p }).cur.size := hi
      rw [flush_cur] at this; exact absurd this (Nat.not_lt_zero i)
    · intro i hi
      have : i < (DAIndex.flush { s with cur := s.cur.push p }).cur.size := hi
      rw [flush_cur] at this; exact absurd this (Nat.not_lt_zero i)
  · rw [if_neg hfull]
    refine ⟨?_, ?_, ?_, ?_, ?_⟩
    · exact h.rng.weaken (by omega)
    · show s.numPos + 1 ≤ p + 1; omega
    · show s.overflow.size + (s.cur.push p).size ≤ s.numPos + 1
      rw [Array.size_push]; omega
    · intro i hi
      have hi' : i < (s.cur.push p).size := hi
      show wordAt (s.cur.push p) i < p + 1
      rw [Array.size_push] at hi'
      rw [wordAt_push]
      by_cases hz : i = s.cur.size
      · rw [if_pos hz]; omega
      · rw [if_neg hz]; have := h.lt i (by omega); omega
    · intro i hi
      exact f2 i hi

/-! ### the `while let Some(l) = lsb(cur_word)` loop over one word -/

abbrev WSt := Nat × Nat × Array Nat × Array Int × Array Nat × Array Nat × Nat
abbrev BTup := Array Nat × Array Int × Array Nat × Array Nat × Nat

/-- the state tuple of the generated inner loop for a model state -/
def wtup (cp w : Nat) (s : DAIndex.BSt) : WSt := (cp, w, s.cur, s.blockInv, s.subInv, s.overflow, s.numPos)
/-- the state tuple of the generated outer loop for a model state -/
def btup (s : DAIndex.BSt) : BTup := (s.cur, s.blockInv, s.subInv, s.overflow, s.numPos)

/-- body of the inner loop of the generated `build` (copied; tied to the generated text by `build_shape : … := rfl`) -/
def daWordBody (c : Cfg) (bv : BV) : WSt → R (RS.Step WSt Empty) :=
        (fun st1 =>
          let cur_pos1 := st1.1
          let cur_word1 := st1.2.1
          let cur_block_positions2 := st1.2.2.1
          let block_inventory2 := st1.2.2.2.1
          let subblock_inventory2 := st1.2.2.2.2.1
          let overflow_positions2 := st1.2.2.2.2.2.1
          let num_positions1 := st1.2.2.2.2.2.2
          (GenFn.broadword.lsb c cur_word1).bind fun m =>
          (match m with
            | some l =>
              (cadd c cur_pos1 l).bind fun cur_pos2 =>
              (cshr c cur_word1 l).bind fun cur_word2 =>
              if cur_pos2 ≥ bv.len then
                .ok (.brk (cur_pos2, cur_word2, cur_block_positions2, block_inventory2, subblock_inventory2, overflow_positions2, num_positions1))
              else
                let cur_block_positions3 := cur_block_positions2.push cur_pos2
                (if cur_block_positions3.size = 1024 then
                  (GenFn.DArrayIndex.flush_cur_block c cur_block_positions3 block_inventory2 subblock_inventory2 overflow_positions2).bind fun r =>
                  let cur_block_positions4 := r.1
                  let block_inventory3 := r.2.1
                  let subblock_inventory3 := r.2.2.1
                  let overflow_positions3 := r.2.2.2.1
                  .ok (cur_block_positions4, block_inventory3, subblock_inventory3, overflow_positions3)
                else
                  .ok (cur_block_positions3, block_inventory2, subblock_inventory2, overflow_positions2) : R _).bind fun j =>
                let cur_block_positions5 := j.1
                let block_inventory4 := j.2.1
                let subblock_inventory4 := j.2.2.1
                let overflow_positions4 := j.2.2.2
                let cur_word3 := (cur_word2 >>> 1)
                (cadd c cur_pos2 1).bind fun cur_pos3 =>
                (cadd c num_positions1 1).bind fun num_positions2 =>
                .ok (.next (cur_pos3, cur_word3, cur_block_positions5, block_inventory4, subblock_inventory4, overflow_positions4, num_positions2))
            | _ =>
              .ok (.brk (cur_pos1, cur_word1, cur_block_positions2, block_inventory2, subblock_inventory2, overflow_positions2, num_positions1))))

/-- body of the outer loop of the generated `build` -/
def daBuildBody (c : Cfg) (bv : BV) (over_one : Bool) : Nat → BTup → R BTup :=
    (fun word_idx st =>
      let cur_block_positions1 := st.1
      let block_inventory1 := st.2.1
      let subblock_inventory1 := st.2.2.1
      let overflow_positions1 := st.2.2.2.1
      let num_positions := st.2.2.2.2
      (cmul c word_idx 64).bind fun cur_pos =>
      (if over_one = true then (GenFn.DArrayIndex.get_word_over_one bv word_idx) else (GenFn.DArrayIndex.get_word_over_zero bv word_idx) : R _).bind fun cur_word =>
      (RS.loopB (ρ := Empty) (cur_pos, cur_word, cur_block_positions1, block_inventory1, subblock_inventory1, overflow_positions1, num_positions)
        (daWordBody c bv)).bind fun ex =>
      match ex with
        | .ret rv => nomatch rv
        | .done st2 =>
          let cur_block_positions6 := st2.2.2.1
          let block_inventory5 := st2.2.2.2.1
          let subblock_inventory5 := st2.2.2.2.2.1
          let overflow_positions5 := st2.2.2.2.2.2.1
          let num_positions3 := st2.2.2.2.2.2.2
          .ok (cur_block_positions6, block_inventory5, subblock_inventory5, overflow_positions5, num_positions3))

/-- what the generated `build` does after its loop -/
def daBuildTail (c : Cfg) (over_one : Bool) (st3 : BTup) : R DAIndex :=
  let cur_block_positions7 := st3.1
  let block_inventory6 := st3.2.1
  let subblock_inventory6 := st3.2.2.1
  let overflow_positions6 := st3.2.2.2.1
  let num_positions4 := st3.2.2.2.2
  (if ¬ ((cur_block_positions7.size == 0) = true) then
    (GenFn.DArrayIndex.flush_cur_block c cur_block_positions7 block_inventory6 subblock_inventory6 overflow_positions6).bind fun r1 =>
    let cur_block_positions8 := r1.1
    let block_inventory7 := r1.2.1
    let subblock_inventory7 := r1.2.2.1
    let overflow_positions7 := r1.2.2.2.1
    .ok (cur_block_positions8, block_inventory7, subblock_inventory7, overflow_positions7)
  else
    .ok (cur_block_positions7, block_inventory6, subblock_inventory6, overflow_positions6) : R _).bind fun j1 =>
  let block_inventory8 := j1.2.1
  let subblock_inventory8 := j1.2.2.1
  let overflow_positions8 := j1.2.2.2
  .ok ({ blockInv := block_inventory8, subInv := subblock_inventory8, overflow := overflow_positions8, numPos := num_positions4, overOne := over_one } : Sucds.DAIndex)

theorem build_shape (c : Cfg) (bv : BV) (o : Bool) :
    GenFn.DArrayIndex.build c bv o =
      (RS.forRange 0 bv.words.size ((#[], #[], #[], #[], 0) : BTup) (daBuildBody c bv o)).bind (daBuildTail c o) := rfl

theorem wordBody_none (c : Cfg) (bv : BV) (cp w : Nat) (s : DAIndex.BSt) (hw : w < 2^64) (hl : lsbW c w = none) :
    daWordBody c bv (wtup cp w s) = .ok (.brk (wtup cp w s)) := by
  unfold daWordBody wtup
  simp only []
  rw [lsb_spec c w hw, bok, hl]

theorem wordBody_ge (c : Cfg) (bv : BV) (cp w l : Nat) (s : DAIndex.BSt) (hw : w < 2^64) (hl : lsbW c w = some l)
    (hl64 : l < 64) (hcp : cp + l < 2^64) (hge : cp + l ≥ bv.len) :
    daWordBody c bv (wtup cp w s) = .ok (.brk (wtup (cp + l) (w >>> l) s)) := by
  unfold daWordBody wtup
  simp only []
  rw [lsb_spec c w hw, bok, hl]
  simp only []
  rw [cadd_ok c hcp, bok, cshr_ok c hl64, bok, if_pos hge]

theorem wordBody_push (c : Cfg) (bv : BV) (cp w l Q : Nat) (s : DAIndex.BSt) (hw : w < 2^64) (hl : lsbW c w = some l)
    (hl64 : l < 64) (hlt : ¬ cp + l ≥ bv.len) (hL : bv.len < 2^63) (hJ : J s Q) (hQ : Q ≤ cp + l) :
    daWordBody c bv (wtup cp w s) = .ok (.next (wtup (cp + l + 1) (w >>> l >>> 1) (pushOne s (cp + l)))) := by
  obtain ⟨f1, f2, f3, f4⟩ := hJ.flushable hQ
  have hnp := hJ.np
  unfold daWordBody wtup
  simp only []
  rw [lsb_spec c w hw, bok, hl]
  simp only []
  rw [cadd_ok c (by omega), bok, cshr_ok c hl64, bok, if_neg hlt]
  unfold DAProof.pushOne
  simp only []
  rw [hB]
  by_cases hfull : (s.cur.push (cp + l)).size = 1024
  · rw [if_pos hfull, if_pos hfull]
    have hf := da_flush_eq c { s with cur := s.cur.push (cp + l) } f1 f2 (by simp only []; omega) (by simp only []; omega)
    simp only [] at hf
    rw [hf, bok, bok, cadd_ok c (by omega), bok, cadd_ok c (by omega), bok]
    simp only [flushOut, flush_numPos]
  · rw [if_neg hfull, if_neg hfull, bok, cadd_ok c (by omega), bok, cadd_ok c (by omega), bok]

/-- **the inner loop** of the generated `build` = the model's `wordLoop` (whose fuel 65 suffices) -/
theorem da_word_loop (c : Cfg) (bv : BV) (h : bv.Inv) (o : Bool) (i : Nat) (hi : i < bv.words.size) (hL : bv.len < 2^63) :
    ∀ (n off : Nat) (s : DAIndex.BSt), off ≤ 64 → 64 - off < n →
      (∃ Q, Q ≤ 64 * i + off ∧ Q ≤ bv.len ∧ J s Q) → ∀ fuel, n ≤ fuel →
      ∃ cp' w', RS.loopFuel (daWordBody c bv) fuel (wtup (64 * i + off) (gw bv o i >>> off) s)
          = .ok (.done (wtup cp' w' (DAIndex.wordLoop c bv.len (64 * i + off) (gw bv o i >>> off) s n))) ∧
        ∃ Q, Q ≤ 64 * i + 64 ∧ Q ≤ bv.len ∧ J (DAIndex.wordLoop c bv.len (64 * i + off) (gw bv o i >>> off) s n) Q := by
  have hsz := h.size
  intro n
  induction n with
  | zero => intro off s h1 h2; omega
  | succ n ih =>
    intro off s h1 h2 hJ fuel hf
    obtain ⟨Q, hQ1, hQ2, hJ⟩ := hJ
    cases fuel with
    | zero => omega
    | succ fuel =>
    have hwlt : gw bv o i >>> off < 2^64 := Nat.lt_of_le_of_lt (Nat.shiftRight_le _ _) (gw_lt bv h o i)
    rw [loopFuel_succ]
    cases hs : lsbW c (gw bv o i >>> off) with
    | none =>
      rw [wordBody_none c bv _ _ s hwlt hs, bok, stepK_brk, wordLoop_none c _ _ _ _ _ hs]
      exact ⟨_, _, rfl, Q, by omega, hQ2, hJ⟩
    | some l =>
      obtain ⟨hl1, hl2, hl3⟩ := ScanB.lsbW_some c _ l hwlt hs
      rw [Nat.testBit_shiftRight] at hl2
      have hol : off + l < 64 := by
        by_cases hq : off + l < 64
        · exact hq
        · rw [gw_testBit_high bv h o i _ (by omega)] at hl2; cases hl2
      by_cases hge : 64 * i + off + l ≥ bv.len
      · rw [wordBody_ge c bv _ _ l s hwlt hs hl1 (by omega) hge, bok, stepK_brk, wordLoop_ge c _ _ _ _ _ _ hs hge]
        exact ⟨_, _, rfl, Q, by omega, hQ2, hJ⟩
      · rw [wordBody_push c bv _ _ l Q s hwlt hs hl1 hge hL hJ (by omega), bok, stepK_next,
          wordLoop_push c _ _ _ _ _ _ hs hge]
        have := ih (off + l + 1) (pushOne s (64 * i + off + l)) (by omega) (by omega)
          ⟨64 * i + off + l + 1, by omega, by omega, hJ.pushOne (by omega)⟩ fuel (by omega)
        rw [show 64 * i + (off + l + 1) = 64 * i + off + l + 1 by omega, Nat.shiftRight_add, Nat.shiftRight_add] at this
        exact this

/-! ### the outer loop and the final flush -/

theorem fuel_ge : 65 ≤ RS.FUEL := by unfold RS.FUEL; omega

theorem get_word_gen (bv : BV) (o : Bool) (i : Nat) (hi : i < bv.words.size) :
    (if o = true then GenFn.DArrayIndex.get_word_over_one bv i else GenFn.DArrayIndex.get_word_over_zero bv i : R Nat)
      = .ok (gw bv o i) := by
  unfold GenFn.DArrayIndex.get_word_over_one GenFn.DArrayIndex.get_word_over_zero gw
  rw [words_eq, index_eq, idx_ok _ _ hi]
  cases o
  · rw [if_neg (by decide), if_neg (by decide), bok]
  · rw [if_pos rfl, if_pos rfl]

theorem buildBody_step (c : Cfg) (bv : BV) (h : bv.Inv) (o : Bool) (hL : bv.len < 2^63) (i : Nat) (hi : i < bv.words.size)
    (s : DAIndex.BSt) (hJ : ∃ Q, Q ≤ 64 * i ∧ Q ≤ bv.len ∧ J s Q) :
    daBuildBody c bv o i (btup s)
        = .ok (btup (DAIndex.wordLoop c bv.len (i * 64) (if o then wordAt bv.words i else wnot (wordAt bv.words i)) s 65)) ∧
      ∃ Q, Q ≤ 64 * (i + 1) ∧ Q ≤ bv.len ∧
        J (DAIndex.wordLoop c bv.len (i * 64) (if o then wordAt bv.words i else wnot (wordAt bv.words i)) s 65) Q := by
  have hsz := h.size
  obtain ⟨cp', w', e1, e2⟩ := da_word_loop c bv h o i hi hL 65 0 s (by omega) (by omega) hJ RS.FUEL fuel_ge
  simp only [Nat.add_zero, Nat.shiftRight_zero] at e1 e2
  rw [Nat.mul_comm i 64]
  refine ⟨?_, ?_⟩
  · unfold daBuildBody btup
    simp only []
    rw [cmul_ok c (by omega), bok, get_word_gen bv o i hi, bok, Nat.mul_comm i 64]
    have e1' : RS.loopB (ρ := Empty) (64 * i, gw bv o i, s.cur, s.blockInv, s.subInv, s.overflow, s.numPos) (daWordBody c bv)
        = .ok (.done (wtup cp' w' (DAIndex.wordLoop c bv.len (64 * i) (gw bv o i) s 65))) := e1
    rw [e1', bok]
    rfl
  · obtain ⟨Q, q1, q2, q3⟩ := e2
    exact ⟨Q, by omega, q2, q3⟩

theorem da_build_loop (c : Cfg) (bv : BV) (h : bv.Inv) (o : Bool) (hL : bv.len < 2^63) :
    ∀ (n i : Nat) (s : DAIndex.BSt), i + n = bv.words.size → (∃ Q, Q ≤ 64 * i ∧ Q ≤ bv.len ∧ J s Q) →
      RS.forCount (daBuildBody c bv o) i n (btup s) = .ok (btup (DAIndex.buildLoop c bv o i s n)) ∧
      ∃ Q, Q ≤ bv.len ∧ J (DAIndex.buildLoop c bv o i s n) Q := by
  intro n
  induction n with
  | zero =>
    intro i s _ hJ
    obtain ⟨Q, _, q2, q3⟩ := hJ
    exact ⟨rfl, Q, q2, q3⟩
  | succ n ih =>
    intro i s hn hJ
    have hi : i < bv.words.size := by omega
    obtain ⟨e1, e2⟩ := buildBody_step c bv h o hL i hi s hJ
    have hm : DAIndex.buildLoop c bv o i s (n + 1) = DAIndex.buildLoop c bv o (i + 1)
        (DAIndex.wordLoop c bv.len (i * 64) (if o then wordAt bv.words i else wnot (wordAt bv.words i)) s 65) n := by
      simp only [DAIndex.buildLoop]; rw [if_pos hi]
    have hg : RS.forCount (daBuildBody c bv o) i (n + 1) (btup s) = RS.forCount (daBuildBody c bv o) (i + 1) n
        (btup (DAIndex.wordLoop c bv.len (i * 64) (if o then wordAt bv.words i else wnot (wordAt bv.words i)) s 65)) := by
      simp only [RS.forCount]; rw [e1, bok]
    rw [hm, hg]
    exact ih (i + 1) _ (by omega) e2

theorem buildTail_eq (c : Cfg) (o : Bool) (L : Nat) (hL : L < 2^63) (s : DAIndex.BSt) (hJ : ∃ Q, Q ≤ L ∧ J s Q) :
    daBuildTail c o (btup s) = .ok
      (let s' := if s.cur.size ≠ 0 then DAIndex.flush s else s
       ⟨s'.blockInv, s'.subInv, s'.overflow, s'.numPos, o⟩) := by
  obtain ⟨Q, hQ, hJ⟩ := hJ
  unfold daBuildTail btup
  simp only []
  by_cases h0 : s.cur.size = 0
  · rw [if_neg (by simp [h0]), if_neg (by simp [h0]), bok]
  · have hlt := hJ.lt 0 (by omega)
    have hov := hJ.ov
    have hnp := hJ.np
    rw [if_pos (by simp [h0]), if_pos h0, da_flush_eq c s h0 hJ.mono (by omega) (by omega), bok, bok]
    unfold flushOut
    simp only [flush_numPos]

/-- **`DArrayIndex::build`** (generated) = the model's `DAIndex.build`, for every well-formed bit vector of fewer than
    `2^63` bits (positions are stored as `isize`), indexing ones or zeros, in every configuration -/
theorem da_build_eq (c : Cfg) (bv : BV) (h : bv.Inv) (hL : bv.len < 2^63) (overOne : Bool) :
    GenFn.DArrayIndex.build c bv overOne = .ok (DAIndex.build c bv overOne) := by
  rw [build_shape, RS.forRange, Nat.sub_zero]
  obtain ⟨e1, Q, q1, q2⟩ := da_build_loop c bv h overOne hL bv.words.size 0 ⟨#[], #[], #[], #[], 0⟩ (by omega)
    ⟨0, by omega, by omega, J.init⟩
  rw [show ((#[], #[], #[], #[], 0) : BTup) = btup ⟨#[], #[], #[], #[], 0⟩ from rfl, e1, bok,
    buildTail_eq c overOne bv.len hL _ ⟨Q, q1, q2⟩]
  rfl

/-- the inventories of the model's index hold values of their Rust types: `isize` block entries of magnitude at most
    `len` (so never `isize::MIN`), `u16` sub-block entries -/
theorem build_Rng (c : Cfg) (bv : BV) (h : bv.Inv) (hL : bv.len < 2^63) (overOne : Bool) :
    Rng (DAIndex.build c bv overOne).blockInv (DAIndex.build c bv overOne).subInv bv.len := by
  obtain ⟨_, Q, q1, q2⟩ := da_build_loop c bv h overOne hL bv.words.size 0 ⟨#[], #[], #[], #[], 0⟩ (by omega)
    ⟨0, by omega, by omega, J.init⟩
  unfold DAIndex.build
  simp only []
  generalize DAIndex.buildLoop c bv overOne 0 ⟨#[], #[], #[], #[], 0⟩ bv.words.size = s at q2
  by_cases h0 : s.cur.size ≠ 0
  · rw [if_pos h0]
    have := q2.lt 0 (by omega)
    have := q2.ov
    have := q2.np
    exact flush_Rng s bv.len (q2.rng.weaken q1) (by omega) (by omega)
  · rw [if_neg h0]
    exact q2.rng.weaken q1

/-- **`DArrayIndex::new`** -/
theorem da_new_eq (c : Cfg) (bv : BV) (h : bv.Inv) (hL : bv.len < 2^63) (overOne : Bool) :
    GenFn.DArrayIndex.new c bv overOne = .ok (DAIndex.build c bv overOne) :=
  da_build_eq c bv h hL overOne

end Sucds.GenEq
