import Sucds.Proofs.DP
/-! # The dynamic program of `compute_opt_widths` under a satisfiable size hypothesis (task F3)

`DP.Small W N` (in `Sucds/Proofs/DP.lean`) quantifies over *every* `b`, hence it is false as soon as one
`N j` is positive (`not_small` below), and the theorems of `DP.lean` that assume it together with
`1 ≤ N i` are vacuous. Here the same statements are proved from `SmallB`, which only bounds the sums the
code really forms (`j < W`, `1 ≤ b ≤ W - j`). The definitions (`DP.scan`, `DP.S`, `DP.B`, `DP.recon`,
`DP.cost`, `DP.fcost`, `DP.Comp`) are those of `DP.lean`, unchanged. -/
namespace DPB
open DP

/-- `DP.Small` is unsatisfiable for every real input (some `N j ≥ 1`) -/
theorem not_small (W : Nat) (N : Nat → Nat) (j : Nat) (hj : 1 ≤ N j) : ¬ DP.Small W N := by
  intro h
  have h1 := h 0 j (2^64)
  have h2 : (2^64 + 1) * 1 ≤ (2^64 + 1) * N j := Nat.mul_le_mul_left _ hj
  omega

theorem scan_congr (f g : Nat → Nat) (m : Nat) (h : ∀ b, 1 ≤ b → b ≤ m → f b = g b) : scan f m = scan g m := by
  induction m with
  | zero => rfl
  | succ m ih =>
    have e := ih (fun b h1 h2 => h b h1 (by omega))
    simp only [scan]
    rw [e, h (m+1) (by omega) (by omega)]

/-- `DP.scan_spec` with the bound required only on the scanned range -/
theorem scan_spec (f : Nat → Nat) (m : Nat) (hf : ∀ b, 1 ≤ b → b ≤ m → f b ≤ 2^64 - 1) (hm : 1 ≤ m) :
    1 ≤ (scan f m).2 ∧ (scan f m).2 ≤ m ∧ (scan f m).1 = f (scan f m).2 ∧
    ∀ b, 1 ≤ b → b ≤ m → (scan f m).1 ≤ f b := by
  let g : Nat → Nat := fun b => if 1 ≤ b ∧ b ≤ m then f b else 0
  have hfg : ∀ b, 1 ≤ b → b ≤ m → f b = g b := by
    intro b h1 h2; simp [g, h1, h2]
  have hg : ∀ b, g b ≤ 2^64 - 1 := by
    intro b
    by_cases hb : 1 ≤ b ∧ b ≤ m
    · simp only [g, hb, and_self, if_true]; exact hf b hb.1 hb.2
    · simp only [g, hb, if_false]; omega
  have sp := DP.scan_spec g hg m hm
  rw [← scan_congr f g m hfg] at sp
  obtain ⟨s1, s2, s3, s4⟩ := sp
  refine ⟨s1, s2, ?_, ?_⟩
  · rw [s3, ← hfg _ s1 s2]
  · intro b h1 h2; rw [hfg b h1 h2]; exact s4 b h1 h2

variable (W : Nat) (N : Nat → Nat)

/-- every sum the code forms fits a machine word -/
def SmallB : Prop := ∀ r j b, j < W → 1 ≤ b → b ≤ W - j → (b+1) * N j + S W N r (j+b) ≤ 2^64 - 1

theorem S_ge (r j : Nat) (hj : W ≤ j) : S W N r j = 0 := by
  cases r with
  | zero => simp only [S]; have : W - j = 0 := by omega
            rw [this, Nat.zero_mul]
  | succ r => simp only [S]; rw [if_neg (by omega)]

theorem B_ge (r j : Nat) (hj : W ≤ j) : B W N r j = 0 := by
  cases r with
  | zero => simp only [B]; omega
  | succ r => simp only [B]; rw [if_neg (by omega)]

/-- lower bound: a split into exactly r+1 parts costs at least dp_s[j][r] -/
theorem S_le_cost (hs : SmallB W N) (r : Nat) : ∀ (j : Nat) (ws : List Nat), Comp W j ws → ws.length = r + 1 →
    S W N r j ≤ cost N j ws := by
  induction r with
  | zero =>
    intro j ws hc hl
    match ws, hl with
    | [w], _ =>
      obtain ⟨h1, h2, h3⟩ := hc
      simp only [Comp] at h3
      simp only [S, cost]
      have : W - j = w := by omega
      rw [this]; exact Nat.le_refl _
  | succ r ih =>
    intro j ws hc hl
    match ws, hl with
    | w :: w' :: t, hl =>
      obtain ⟨h1, h2, h3⟩ := hc
      have hjw : j + w < W := comp_lt W h3 (by simp)
      have hj : j < W := by omega
      have ihh := ih (j+w) (w' :: t) h3 (by simpa using hl)
      simp only [S, hj, if_true, cost]
      have sp := scan_spec (fun b => (b+1) * N j + S W N r (j+b)) (W - j) (fun b h1 h2 => hs r j b hj h1 h2) (by omega)
      have := sp.2.2.2 w h1 (by omega)
      omega

/-- what the DP value accounts for along its own reconstruction path -/
theorem recon_props (hs : SmallB W N) (r : Nat) : ∀ j, j < W →
    Comp W j (recon W N r j) ∧ (recon W N r j).length ≤ r + 1 ∧ recon W N r j ≠ [] ∧
    S W N r j = (if (recon W N r j).length = r + 1 then cost N j (recon W N r j) else fcost N j (recon W N r j)) := by
  induction r with
  | zero =>
    intro j hj
    simp only [recon, hj, if_true, S, cost, List.length_cons, List.length_nil, Nat.zero_add]
    refine ⟨⟨by omega, by omega, ?_⟩, by omega, by simp, trivial⟩
    simp only [Comp]; omega
  | succ r ih =>
    intro j hj
    have sp := scan_spec (fun b => (b+1) * N j + S W N r (j+b)) (W - j) (fun b h1 h2 => hs r j b hj h1 h2) (by omega)
    obtain ⟨b1, b2, b3, _⟩ := sp
    have hB : B W N (r+1) j = (scan (fun b => (b+1) * N j + S W N r (j+b)) (W - j)).2 := by simp [B, hj]
    have hS : S W N (r+1) j = (scan (fun b => (b+1) * N j + S W N r (j+b)) (W - j)).1 := by simp [S, hj]
    rw [← hB] at b1 b2 b3
    rw [← hS] at b3
    simp only [recon, hj, if_true]
    by_cases hend : j + B W N (r+1) j < W
    · obtain ⟨c1, c2, c3, c4⟩ := ih _ hend
      refine ⟨⟨b1, by omega, c1⟩, by simp; omega, by simp, ?_⟩
      rw [b3, c4]
      cases hrec : recon W N r (j + B W N (r+1) j) with
      | nil => exact absurd hrec c3
      | cons w' t' =>
        simp only [List.length_cons, cost, fcost]
        by_cases hl : t'.length + 1 = r + 1
        · simp [hl]
        · have h' : ¬ (t'.length = r) := by omega
          simp [h']
    · have hW : j + B W N (r+1) j = W := by omega
      have hr : recon W N r (j + B W N (r+1) j) = [] := by
        rw [hW]; cases r <;> simp [recon]
      have hS0 : S W N r (j + B W N (r+1) j) = 0 := by
        rw [hW]; cases r <;> simp [S]
      rw [hr]
      refine ⟨⟨b1, by omega, by simp only [Comp]; omega⟩, by simp, by simp, ?_⟩
      rw [b3, hS0]
      simp [fcost]

/-- if dp_s[0][r] is strictly below every dp_s[0][r'] with r' < r (the first minimum chosen by the code),
    the reconstruction uses exactly r+1 levels: `assert_eq!(r, num_levels)` cannot fire. -/
theorem recon_full (hs : SmallB W N) (hN : ∀ i, i < W → 1 ≤ N i) (hW : 0 < W) (r : Nat)
    (hmin : ∀ r', r' < r → S W N r 0 < S W N r' 0) : (recon W N r 0).length = r + 1 := by
  obtain ⟨c1, c2, c3, c4⟩ := recon_props W N hs r 0 hW
  by_cases hl : (recon W N r 0).length = r + 1
  · exact hl
  · exfalso
    simp only [hl, if_false] at c4
    have hlen : 1 ≤ (recon W N r 0).length := by
      cases h : recon W N r 0 with
      | nil => exact absurd h c3
      | cons _ _ => simp
    have h1 := cost_lt_fcost W N hN _ 0 c1 c3
    have h2 := S_le_cost W N hs ((recon W N r 0).length - 1) 0 _ c1 (by omega)
    have h3 := hmin ((recon W N r 0).length - 1) (by omega)
    omega

/-- the reconstructed widths are an optimal split into at most L parts, when r is the first index
    attaining min_{r' < L} dp_s[0][r'] -/
theorem optimal (hs : SmallB W N) (hN : ∀ i, i < W → 1 ≤ N i) (hW : 0 < W) (L r : Nat) (hr : r < L)
    (hmin1 : ∀ r', r' < r → S W N r 0 < S W N r' 0) (hmin2 : ∀ r', r' < L → S W N r 0 ≤ S W N r' 0)
    (ws : List Nat) (hc : Comp W 0 ws) (hl : ws.length ≤ L) :
    Comp W 0 (recon W N r 0) ∧ (recon W N r 0).length = r + 1 ∧
    cost N 0 (recon W N r 0) ≤ cost N 0 ws := by
  have hfull := recon_full W N hs hN hW r hmin1
  obtain ⟨c1, c2, c3, c4⟩ := recon_props W N hs r 0 hW
  simp only [hfull, if_true] at c4
  refine ⟨c1, hfull, ?_⟩
  have hne : ws ≠ [] := by
    intro h; subst h; simp only [Comp] at hc; omega
  have hlen : 1 ≤ ws.length := by
    cases ws with
    | nil => exact absurd rfl hne
    | cons _ _ => simp
  have h2 := S_le_cost W N hs (ws.length - 1) 0 ws hc (by omega)
  have h3 := hmin2 (ws.length - 1) (by omega)
  omega

/-! ### `SmallB` from a bound on the counts -/

/-- `N ≤ n` everywhere, `W ≤ 64`, `n < 2^57` : every sum formed by the code is below `2^64` -/
theorem S_bound (n : Nat) (hN : ∀ j, N j ≤ n) (hW : W ≤ 64) (hn : n < 2^57) :
    ∀ r j, S W N r j ≤ (W - j + 1) * n ∧
      ∀ b, j < W → 1 ≤ b → b ≤ W - j → (b+1) * N j + S W N r (j+b) ≤ (W - j + 2) * n := by
  have key : ∀ r, (∀ j, S W N r j ≤ (W - j + 1) * n) →
      ∀ j b, j < W → 1 ≤ b → b ≤ W - j → (b+1) * N j + S W N r (j+b) ≤ (W - j + 2) * n := by
    intro r hr j b hj h1 h2
    have a1 : (b+1) * N j ≤ (b+1) * n := Nat.mul_le_mul_left _ (hN j)
    have a2 := hr (j+b)
    have a3 : (b+1) * n + (W - (j+b) + 1) * n = (W - j + 2) * n := by
      rw [← Nat.add_mul]; congr 1; omega
    omega
  intro r
  induction r with
  | zero =>
    have h0 : ∀ j, S W N 0 j ≤ (W - j + 1) * n := by
      intro j
      simp only [S]
      have a1 : (W - j) * N j ≤ (W - j) * n := Nat.mul_le_mul_left _ (hN j)
      have a2 : (W - j) * n ≤ (W - j + 1) * n := Nat.mul_le_mul_right _ (by omega)
      omega
    intro j
    exact ⟨h0 j, key 0 h0 j⟩
  | succ r ih =>
    have h1 : ∀ j, S W N (r+1) j ≤ (W - j + 1) * n := by
      intro j
      by_cases hj : j < W
      · have hb : ∀ b, 1 ≤ b → b ≤ W - j → (b+1) * N j + S W N r (j+b) ≤ 2^64 - 1 := by
          intro b h1 h2
          have a := (ih j).2 b hj h1 h2
          have a2 : (W - j + 2) * n ≤ 66 * n := Nat.mul_le_mul_right _ (by omega)
          omega
        have sp := scan_spec (fun b => (b+1) * N j + S W N r (j+b)) (W - j) hb (by omega)
        have s4 := sp.2.2.2 (W - j) (by omega) (Nat.le_refl _)
        have hS : S W N (r+1) j = (scan (fun b => (b+1) * N j + S W N r (j+b)) (W - j)).1 := by simp [S, hj]
        rw [hS]
        have e0 : S W N r (j + (W - j)) = 0 := S_ge W N r _ (by omega)
        simp only [e0, Nat.add_zero] at s4
        have a1 : (W - j + 1) * N j ≤ (W - j + 1) * n := Nat.mul_le_mul_left _ (hN j)
        omega
      · rw [S_ge W N (r+1) j (by omega)]; exact Nat.zero_le _
    intro j
    exact ⟨h1 j, key (r+1) h1 j⟩

theorem smallB_of_bound (n : Nat) (hN : ∀ j, N j ≤ n) (hW : W ≤ 64) (hn : n < 2^57) : SmallB W N := by
  intro r j b hj h1 h2
  have a := (S_bound W N n hN hW hn r j).2 b hj h1 h2
  have a2 : (W - j + 2) * n ≤ 66 * n := Nat.mul_le_mul_right _ (by omega)
  omega

/-! ### `Comp` in terms of sum and positivity -/

theorem comp_iff : ∀ (ws : List Nat) (j : Nat), Comp W j ws ↔ ((∀ w ∈ ws, 1 ≤ w) ∧ j + ws.sum = W) := by
  intro ws
  induction ws with
  | nil => intro j; simp [Comp]
  | cons w t ih =>
    intro j
    simp only [Comp, ih (j+w), List.mem_cons, List.sum_cons, forall_eq_or_imp]
    constructor
    · rintro ⟨h1, h2, h3, h4⟩; exact ⟨⟨h1, h3⟩, by omega⟩
    · rintro ⟨⟨h1, h3⟩, h4⟩; exact ⟨h1, by omega, h3, by omega⟩

end DPB
