import Sucds.Model.IndexIter
/-! C17: the six index-based iterators (`BitVector`, `CompactVector`, `DacsByte`, `DacsOpt`,
    `PrefixSummedEliasFano`, `WaveletMatrix`) share one shape: `next` = `access(pos)` then `pos += 1`
    while `pos < len`; `size_hint` after repair F2 = `(len - pos, Some(len - pos))` (the pinned tree
    returns `(len, Some(len))` — defect D2). -/
set_option linter.unusedSimpArgs false
set_option linter.unusedVariables false
namespace Sucds.IndexIter


/-- the iterator yields the stored list in order, then `none` on every further call, and its size hint
    is exact at every step -/
theorem runN_spec {α} (xs : List α) (acc : Nat → Option α) (hacc : ∀ i, i < xs.length → acc i = xs[i]?) :
    ∀ (n p : Nat), p ≤ xs.length →
      runN xs.length acc ⟨p⟩ n =
        (List.range n).map (fun j => (xs[p + j]?, (xs.length - (p + j), some (xs.length - (p + j))))) := by
  intro n
  induction n with
  | zero => intro p _; rfl
  | succ n ih =>
    intro p hp
    rw [List.range_succ_eq_map, List.map_cons, List.map_map]
    simp only [runN, next, sizeHint]
    by_cases hlt : p < xs.length
    · simp only [hlt, if_true, Nat.add_zero, hacc p hlt]
      rw [ih (p + 1) (by omega)]
      congr 1
      apply List.map_congr_left
      intro j _
      simp only [Function.comp, Nat.add_assoc, Nat.add_comm 1 j]
    · have hpe : p = xs.length := by omega
      simp only [hlt, if_false, Nat.add_zero]
      have hnone : xs[p]? = none := List.getElem?_eq_none (by omega)
      rw [hnone]
      -- the iterator is stuck at the end: same state, all further answers `none`
      have hstuck : ∀ m, runN xs.length acc ⟨p⟩ m = (List.range m).map (fun j => (none, (xs.length - p, some (xs.length - p)))) := by
        intro m
        induction m with
        | zero => rfl
        | succ m ihm =>
          rw [List.range_succ_eq_map, List.map_cons, List.map_map]
          simp only [runN, next, sizeHint, hlt, if_false, ihm]
          congr 1
      rw [hstuck n]
      congr 1
      apply List.map_congr_left
      intro j _
      have h1 : xs[p + j.succ]? = none := List.getElem?_eq_none (by omega)
      have h2 : xs.length - (p + j.succ) = xs.length - p := by omega
      simp only [Function.comp, h1, h2]

/-- the pinned-tree hint is wrong as soon as one element has been consumed (D2) -/
example : (sizeHint0 3 ⟨1⟩).1 > 3 - 1 := by decide

end Sucds.IndexIter
