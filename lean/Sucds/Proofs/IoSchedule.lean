/-! C13, second half: `std::io::Read::read_exact` over a reader that delivers the bytes in arbitrary
    positive pieces and reports `Interrupted` at arbitrary points gives the same result as an
    uninterrupted reader. The loop below is the documented default implementation of `read_exact`
    (modelled, trusted — it is `std`, not the crate). -/
set_option linter.unusedSimpArgs false
set_option linter.unusedVariables false
namespace Sucds.Io

/-- one scheduled behaviour of a `read` call -/
inductive Ev
  | chunk (n : Nat)   -- deliver at most `max n 1` bytes
  | eintr             -- fail with `ErrorKind::Interrupted`

structure Reader where
  data : List Nat
  sched : List Ev

inductive ReadRes
  | bytes (bs : List Nat)
  | interrupted

/-- `read(buf)` with `buf.len() = want` -/
def Reader.read (r : Reader) (want : Nat) : ReadRes × Reader :=
  match r.sched with
  | [] => (.bytes (r.data.take want), ⟨r.data.drop want, []⟩)
  | .eintr :: s => (.interrupted, ⟨r.data, s⟩)
  | .chunk n :: s => (.bytes (r.data.take (min (max n 1) want)), ⟨r.data.drop (min (max n 1) want), s⟩)

/-- `read_exact`: `none` = `Err(UnexpectedEof)` -/
def readExact (r : Reader) (want : Nat) : Nat → Option (List Nat) × Reader
  | 0 => (none, r)    -- out of fuel (never reached with enough fuel)
  | fuel+1 =>
    if want = 0 then (some [], r)
    else match r.read want with
      | (.interrupted, r') => readExact r' want fuel                         -- retry
      | (.bytes [], r') => (none, r')                                        -- Ok(0): UnexpectedEof
      | (.bytes (b :: bs), r') =>
        match readExact r' (want - (b :: bs).length) fuel with
        | (some rest, r'') => (some ((b :: bs) ++ rest), r'')
        | (none, r'') => (none, r'')

theorem take_split (l : List Nat) (k want : Nat) (h : k ≤ want) : l.take k ++ (l.drop k).take (want - k) = l.take want := by
  have : want = k + (want - k) := by omega
  conv => rhs; rw [this, List.take_add]
theorem drop_split (l : List Nat) (k want : Nat) (h : k ≤ want) : (l.drop k).drop (want - k) = l.drop want := by
  rw [List.drop_drop]; congr 1; omega

/-- schedule independence: the outcome depends only on the data -/
theorem readExact_spec : ∀ (fuel : Nat) (data : List Nat) (sched : List Ev) (want : Nat),
    sched.length + want < fuel →
    (want ≤ data.length →
      ∃ s', readExact ⟨data, sched⟩ want fuel = (some (data.take want), ⟨data.drop want, s'⟩)) ∧
    (data.length < want → ∃ r', readExact ⟨data, sched⟩ want fuel = (none, r')) := by
  intro fuel
  induction fuel with
  | zero => intro data sched want h; omega
  | succ fuel ih =>
    intro data sched want hf
    unfold readExact
    by_cases hw : want = 0
    · subst hw
      refine ⟨fun _ => ⟨sched, by simp⟩, fun h => by omega⟩
    · simp only [hw, if_false]
      cases sched with
      | nil =>
        simp only [Reader.read]
        cases hd : data.take want with
        | nil =>
          have hdl : data = [] := by
            cases data with
            | nil => rfl
            | cons a t => cases want with
              | zero => exact absurd rfl hw
              | succ k => simp at hd
          subst hdl
          refine ⟨fun h => by simp at h; omega, fun _ => ⟨_, rfl⟩⟩
        | cons b bs =>
          simp only []
          have hlen : (b :: bs).length = min want data.length := by rw [← hd, List.length_take]
          obtain ⟨ih1, ih2⟩ := ih (data.drop want) [] (want - (b :: bs).length) (by simp at hf ⊢; omega)
          refine ⟨?_, ?_⟩
          · intro hle
            have e : want - (b :: bs).length = 0 := by rw [hlen]; omega
            obtain ⟨s', hs⟩ := ih1 (by rw [e]; omega)
            rw [hs]
            refine ⟨s', ?_⟩
            simp only [e, List.take_zero, List.append_nil, List.drop_zero, hd]
          · intro hlt
            obtain ⟨r', hr⟩ := ih2 (by rw [List.length_drop, hlen]; omega)
            rw [hr]; exact ⟨r', rfl⟩
      | cons ev s =>
        cases ev with
        | eintr =>
          simp only [Reader.read]
          exact ih data s want (by simp at hf ⊢; omega)
        | chunk n =>
          simp only [Reader.read]
          have hk1 : 1 ≤ min (max n 1) want := by omega
          cases hd : data.take (min (max n 1) want) with
          | nil =>
            have hdl : data = [] := by
              cases data with
              | nil => rfl
              | cons a t =>
                have : (List.take (min (max n 1) want) (a :: t)).length = 0 := by rw [hd]; rfl
                rw [List.length_take] at this
                simp at this; omega
            subst hdl
            refine ⟨fun h => by simp at h; omega, fun _ => ⟨_, rfl⟩⟩
          | cons b bs =>
            simp only []
            have hlen : (b :: bs).length = min (min (max n 1) want) data.length := by rw [← hd, List.length_take]
            obtain ⟨ih1, ih2⟩ := ih (data.drop (min (max n 1) want)) s (want - (b :: bs).length) (by simp at hf ⊢; omega)
            refine ⟨?_, ?_⟩
            · intro hle
              have hk : (b :: bs).length = min (max n 1) want := by rw [hlen]; omega
              obtain ⟨s', hs⟩ := ih1 (by rw [List.length_drop, hk]; omega)
              rw [hs]
              refine ⟨s', ?_⟩
              have hlk : (List.take (min (max n 1) want) data).length = min (max n 1) want := by
                rw [List.length_take]; omega
              simp only [← hd]
              rw [hlk, take_split data _ want (by omega), drop_split data _ want (by omega)]
            · intro hlt
              obtain ⟨r', hr⟩ := ih2 (by rw [List.length_drop, hlen]; omega)
              rw [hr]; exact ⟨r', rfl⟩

end Sucds.Io
