import Sucds.Proofs.GenBroadword
import Sucds.Proofs.GenBitVectorRW
import Sucds.Proofs.Rank9Full
/-! The builders of `Rank9SelIndex` as *generated* from `src/bit_vectors/rank9sel/inner.rs`
    (`GenFn.Rank9SelIndex.{new, build_rank, build_select1, build_select0, select1_hints, select0_hints}`)
    agree with the hand-written model (`R9Index.buildRank`, `buildSelect1`, `buildSelect0`). -/
set_option linter.unusedSimpArgs false
set_option linter.unusedVariables false
namespace Sucds.GenEq
open Sucds Sucds.Spec Sucds.R9Index

/-! ### small bridging facts -/

/-- `x << 9` with a literal amount does not lose bits while `x` has at most 55 bits -/
theorem shlConst9_small (a : Nat) (h : a < 2^55) : RS.shlConst a 9 = a <<< 9 := by
  unfold RS.shlConst
  rw [Nat.shiftLeft_eq]
  exact Nat.mod_eq_of_lt (by omega)

theorem ite_ok_bind {ε α β : Type} (p : Prop) [Decidable p] (a b : α) (f : α → Except ε β) :
    ((if p then Except.ok a else Except.ok b : Except ε α)).bind f = f (if p then a else b) := by
  split <;> rfl

/-- `k` packed 9-bit counters occupy `9·k` bits -/
theorem packTo_lt (e : Nat → Nat) (he : ∀ j, 1 ≤ j → j ≤ 7 → e j < 512) (k : Nat) (hk : k ≤ 7) :
    packTo e k < 2^(9*k) := by
  induction k with
  | zero => simp [packTo]
  | succ k ih =>
    have h1 := ih (by omega)
    have h2 := he (k+1) (by omega) hk
    simp only [packTo]
    rw [show 9 * (k+1) = 9 * k + 9 by omega, Nat.pow_add]
    generalize 2^(9*k) = Q at *
    omega

theorem pow9_le (k n : Nat) (h : k ≤ n) : 2^(9*k) ≤ 2^(9*n) := Nat.pow_le_pow_right (by decide) (by omega)

theorem wordAt_of_idx (ws : Array Nat) (i v : Nat) (h : idx ws i = .ok v) : wordAt ws i = v := by
  unfold idx at h; unfold wordAt
  split at h
  · next w hw => rw [hw]; injection h
  · cases h

/-! ### `build_rank` -/

abbrev RankSt := Nat × Nat × Nat × Array Nat
/-- the state tuple of the generated loop (`subranks, next_rank, cur_subrank, block_rank_pairs`) for a model state -/
def tup (s : St) : RankSt := (s.subranks, s.nextRank, s.curSub, s.out)

/-- body of the first loop of the generated `build_rank` (copied; tied to the generated text by `build_rank_shape : … := rfl`) -/
def r9RankBody (c : Cfg) (bv : BV) : Nat → RankSt → R RankSt :=
    (fun i st =>
      let subranks := st.1
      let next_rank := st.2.1
      let cur_subrank := st.2.2.1
      let block_rank_pairs1 := st.2.2.2
      (RS.index bv.words i).bind fun t =>
      (GenFn.broadword.popcount c t).bind fun word_pop =>
      let shift := (i % 8)
      (if shift ≠ 0 then
        let subranks1 := (RS.shlConst subranks 9)
        let subranks2 := (subranks1 ||| cur_subrank)
        .ok subranks2
      else
        .ok subranks : R _).bind fun subranks3 =>
      (cadd c next_rank word_pop).bind fun next_rank1 =>
      (cadd c cur_subrank word_pop).bind fun cur_subrank1 =>
      (csub c 8 1).bind fun t1 =>
      (if shift = t1 then
        let block_rank_pairs2 := block_rank_pairs1.push subranks3
        let block_rank_pairs3 := block_rank_pairs2.push next_rank1
        let subranks4 := 0
        let cur_subrank2 := 0
        .ok (block_rank_pairs3, subranks4, cur_subrank2)
      else
        .ok (block_rank_pairs1, subranks3, cur_subrank1) : R _).bind fun j =>
      let block_rank_pairs4 := j.1
      let subranks5 := j.2.1
      let cur_subrank3 := j.2.2
      .ok (subranks5, next_rank1, cur_subrank3, block_rank_pairs4))

/-- what the generated `build_rank` does after its first loop -/
def rankTail (c : Cfg) (bv : BV) (st1 : RankSt) : R R9Index :=
  let subranks6 := st1.1
  let next_rank2 := st1.2.1
  let cur_subrank4 := st1.2.2.1
  let block_rank_pairs5 := st1.2.2.2
  (csub c 8 (bv.words.size % 8)).bind fun left =>
  (RS.forRange 0 left subranks6
    (fun _ subranks7 =>
      let subranks8 := (RS.shlConst subranks7 9)
      let subranks9 := (subranks8 ||| cur_subrank4)
      .ok subranks9)).bind fun subranks10 =>
  let block_rank_pairs6 := block_rank_pairs5.push subranks10
  (if (bv.words.size % 8) ≠ 0 then
    let block_rank_pairs7 := block_rank_pairs6.push next_rank2
    let block_rank_pairs8 := block_rank_pairs7.push 0
    .ok block_rank_pairs8
  else
    .ok block_rank_pairs6 : R _).bind fun block_rank_pairs9 =>
  .ok ({ len := bv.len, pairs := block_rank_pairs9, sel1 := none, sel0 := none } : Sucds.R9Index)

theorem build_rank_shape (c : Cfg) (bv : BV) :
    GenFn.Rank9SelIndex.build_rank c bv =
      (RS.forRange 0 (GenFn.BitVector.num_words bv) (0, 0, 0, #[0]) (r9RankBody c bv)).bind (rankTail c bv) := rfl

/-- one iteration of the generated loop = the model's `step`, on states satisfying the model's invariant -/
theorem r9RankBody_step (c : Cfg) (bv : BV) (hw : ∀ i, wordAt bv.words i < 2^64)
    (hb : prefixPop c bv.words bv.words.size < 2^64) (i : Nat) (hi : i < bv.words.size) (s : St)
    (hinv : R9Index.Inv c bv.words i s) :
    r9RankBody c bv i (tup s) = .ok (tup (step c s i (wordAt bv.words i))) := by
  obtain ⟨h1, h2, h3, h4⟩ := hinv
  have hpop := popcountN_le c (wordAt bv.words i) (hw i)
  have hcur : s.curSub < 512 := by rw [h2]; exact inBlk_lt c bv.words hw (i/8) (i%8) (by omega)
  have hsub : s.subranks < 2^55 := by
    rw [h3]
    have := packTo_lt (inBlk c bv.words (i/8)) (fun j _ hj => inBlk_lt c bv.words hw (i/8) j hj) (i%8 - 1) (by omega)
    have := pow9_le (i%8 - 1) 6 (by omega)
    omega
  have hnr : s.nextRank + popcountN c (wordAt bv.words i) < 2^64 := by
    rw [h1]
    have : prefixPop c bv.words (i+1) ≤ prefixPop c bv.words bv.words.size := prefixPop_mono c bv.words (by omega)
    simp only [prefixPop] at this
    omega
  unfold r9RankBody tup
  simp only []
  rw [index_eq, idx_ok _ _ hi, bok, popcount_spec c _ (hw i), bok, ite_ok_bind, cadd_ok c hnr, bok,
    cadd_ok c (by omega), bok, csub_ok c (by decide), bok, ite_ok_bind]
  unfold step
  generalize hg : Gen.R9_BLOCK_LEN = H
  have hH : H = 8 := by rw [← hg]; rfl
  subst hH
  simp only [shlConst9_small _ hsub]
  by_cases h7 : i % 8 = 8 - 1
  · rw [if_pos h7, if_pos h7]
  · rw [if_neg h7, if_neg h7]

theorem r9_rank_loop (c : Cfg) (bv : BV) (hw : ∀ i, wordAt bv.words i < 2^64)
    (hb : prefixPop c bv.words bv.words.size < 2^64) :
    ∀ (n i : Nat) (s : St), i + n = bv.words.size → R9Index.Inv c bv.words i s →
      RS.forCount (r9RankBody c bv) i n (tup s) = .ok (tup (run c bv.words i s n)) := by
  intro n
  induction n with
  | zero => intro i s _ _; rfl
  | succ n ih =>
    intro i s hn hinv
    rw [RS.forCount, r9RankBody_step c bv hw hb i (by omega) s hinv, bok, run, if_pos (by omega)]
    exact ih (i+1) _ (by omega) (inv_step c bv.words hw i s hinv)

/-- the padding loop while the packed counters stay below 64 bits: `k` counters present, `n` more to add, `k + n ≤ 7` -/
theorem pad_loop (body : Nat → Nat → R Nat) (cur : Nat) (hcur : cur < 512)
    (hbody : ∀ i sub, body i sub = .ok (RS.shlConst sub 9 ||| cur)) :
    ∀ (n k i sub : Nat), sub < 2^(9*k) → k + n ≤ 7 → RS.forCount body i n sub = .ok (pad sub cur n) := by
  intro n
  induction n with
  | zero => intro k i sub _ _; rfl
  | succ n ih =>
    intro k i sub hs hk
    have h54 := pow9_le k 6 (by omega)
    rw [RS.forCount, hbody, bok, shlConst9_small _ (by omega), pad]
    refine ih (k+1) (i+1) _ ?_ (by omega)
    rw [shl_or _ _ hcur, show 9 * (k+1) = 9 * k + 9 by omega, Nat.pow_add]
    generalize 2^(9*k) = Q at *
    omega

/-- the padding loop after a full last block: everything is zero, any number of rounds -/
theorem pad_loop_zero (body : Nat → Nat → R Nat)
    (hbody : ∀ i sub, body i sub = .ok (RS.shlConst sub 9 ||| 0)) :
    ∀ (n i : Nat), RS.forCount body i n 0 = .ok (pad 0 0 n) := by
  intro n
  induction n with
  | zero => intro i; rfl
  | succ n ih =>
    intro i
    rw [RS.forCount, hbody, bok, pad]
    exact ih (i+1)

theorem rankTail_eq (c : Cfg) (bv : BV) (hw : ∀ i, wordAt bv.words i < 2^64) (s : St)
    (hinv : R9Index.Inv c bv.words bv.words.size s) :
    rankTail c bv (tup s) = .ok
      ⟨bv.len,
       (if bv.words.size % 8 ≠ 0 then
          ((s.out.push (pad s.subranks s.curSub (8 - bv.words.size % 8))).push s.nextRank).push 0
        else s.out.push (pad s.subranks s.curSub (8 - bv.words.size % 8))), none, none⟩ := by
  obtain ⟨h1, h2, h3, h4⟩ := hinv
  have hcur : s.curSub < 512 := by
    rw [h2]; exact inBlk_lt c bv.words hw _ _ (by omega)
  unfold rankTail tup
  simp only [RS.forRange, Nat.sub_zero]
  rw [csub_ok c (by omega), bok]
  by_cases hr : bv.words.size % 8 = 0
  · have e3 : s.subranks = 0 := by rw [h3, hr]; rfl
    have e2 : s.curSub = 0 := by rw [h2, hr]; simp [inBlk]
    rw [e3, e2, pad_loop_zero _ (fun _ _ => rfl), bok, ite_ok_bind]
  · have hs : s.subranks < 2^(9 * (bv.words.size % 8 - 1)) := by
      rw [h3]
      exact packTo_lt _ (fun j _ hj => inBlk_lt c bv.words hw _ j hj) _ (by omega)
    rw [pad_loop _ s.curSub hcur (fun _ _ => rfl) _ (bv.words.size % 8 - 1) 0 _ hs (by omega), bok, ite_ok_bind]

/-- **`build_rank`** (generated) = the model's `buildRank`, whenever the words are 64-bit values and the
    total number of set bits fits a `usize` -/
theorem build_rank_eq_of (c : Cfg) (bv : BV) (hw : ∀ i, wordAt bv.words i < 2^64)
    (hb : prefixPop c bv.words bv.words.size < 2^64) :
    GenFn.Rank9SelIndex.build_rank c bv = .ok (R9Index.buildRank c bv) := by
  rw [build_rank_shape, RS.forRange, num_words_eq, Nat.sub_zero]
  have hl := r9_rank_loop c bv hw hb bv.words.size 0 ⟨0, 0, 0, #[0]⟩ (by omega) (inv_init c bv.words)
  have hi := inv_run c bv.words hw bv.words.size 0 ⟨0, 0, 0, #[0]⟩ (inv_init c bv.words) (by omega) (by omega)
  rw [show ((0, 0, 0, #[0]) : RankSt) = tup ⟨0, 0, 0, #[0]⟩ from rfl, hl, bok, rankTail_eq c bv hw _ hi]
  unfold buildRank
  generalize hg : Gen.R9_BLOCK_LEN = H
  have hH : H = 8 := by rw [← hg]; rfl
  subst hH
  by_cases hr : bv.words.size % 8 ≠ 0
  · simp only [if_pos hr]
  · simp only [if_neg hr]

/-- the set bits of a well-formed bit vector are at most `len` -/
theorem prefixPop_le_len (c : Cfg) (bv : BV) (h : bv.Inv) : prefixPop c bv.words bv.words.size ≤ bv.len := by
  have hsz := h.size
  rw [prefixPop_eq c bv h]
  have hsplit := cnt_add bv.bitAt bv.len (64 * bv.words.size - bv.len)
  rw [show bv.len + (64 * bv.words.size - bv.len) = 64 * bv.words.size by omega] at hsplit
  rw [hsplit, C14.cnt_zero_of_false _ _ (fun i _ => h.pad (bv.len + i) (by omega))]
  have := cnt_le bv.bitAt bv.len
  omega

/-- **`build_rank`** on a well-formed bit vector -/
theorem build_rank_eq (c : Cfg) (bv : BV) (h : bv.Inv) (hl : bv.len < 2^64) :
    GenFn.Rank9SelIndex.build_rank c bv = .ok (R9Index.buildRank c bv) :=
  build_rank_eq_of c bv h.lt (by have := prefixPop_le_len c bv h; omega)

/-- **`Rank9SelIndex::new`** -/
theorem r9_new_eq (c : Cfg) (bv : BV) (h : bv.Inv) (hl : bv.len < 2^64) :
    GenFn.Rank9SelIndex.new c bv = .ok (R9Index.buildRank c bv) :=
  build_rank_eq c bv h hl

/-! ### `build_select1` / `build_select0` -/

/-- what the hint builders need of a directory: it has its sentinel pair, its length is a `usize`, and
    the block ranks leave room for one more threshold step (`wordAt pairs (2t)` = `block_rank(t)`) -/
structure DirOk (x : R9Index) : Prop where
  two : 2 ≤ x.pairs.size
  size : x.pairs.size < 2^64
  rank : ∀ t, t ≤ x.numBlocks → wordAt x.pairs (t * 2) + 1023 < 2^64

/-- additionally for the zero side: `block_rank(t) ≤ 512·t` and `512·num_blocks` leaves room for a threshold step -/
structure DirOk0 (x : R9Index) : Prop where
  two : 2 ≤ x.pairs.size
  size : x.pairs.size < 2^64
  le : ∀ t, t ≤ x.numBlocks → wordAt x.pairs (t * 2) ≤ t * 512
  room : x.numBlocks * 512 + 1023 < 2^64

theorem num_blocks_eq (c : Cfg) (x : R9Index) (h2 : 2 ≤ x.pairs.size) :
    GenFn.Rank9SelIndex.num_blocks c x = .ok x.numBlocks := by
  unfold GenFn.Rank9SelIndex.num_blocks numBlocks
  rw [csub_ok c (by omega)]

theorem block_rank_eq (c : Cfg) (x : R9Index) (t : Nat) (ht : t * 2 < 2^64) :
    GenFn.Rank9SelIndex.block_rank c x t = x.blockRank t := by
  unfold GenFn.Rank9SelIndex.block_rank blockRank
  rw [cmul_ok c ht, bok, index_eq]

theorem block_rank0_eq (c : Cfg) (x : R9Index) (t : Nat) (ht : t * 512 < 2^64) :
    GenFn.Rank9SelIndex.block_rank0 c x t = x.blockRank0 c t := by
  unfold GenFn.Rank9SelIndex.block_rank0 blockRank0
  simp only [GenFn.rank9sel_inner.BLOCK_LEN]
  rw [cmul_ok c (by omega), bok, cmul_ok c (by omega), bok, block_rank_eq c x t (by omega), hB]

/-- the generic loop: a body that agrees with the model's step on `i < N` gives the model's loop -/
theorem hint_loop (step : Array Nat × Nat → Nat → R (Array Nat × Nat))
    (loop : Nat → Nat → Array Nat × Nat → R (Array Nat × Nat))
    (hloop0 : ∀ i st, loop i 0 st = .ok st)
    (hloopS : ∀ i n st, loop i (n+1) st = (step st i).bind fun st' => loop (i+1) n st')
    (body : Nat → Array Nat × Nat → R (Array Nat × Nat)) (N : Nat)
    (hbody : ∀ i st, i < N → body i st = step st i) :
    ∀ (n i : Nat) (st : Array Nat × Nat), i + n ≤ N → RS.forCount body i n st = loop i n st := by
  intro n
  induction n with
  | zero => intro i st _; rw [hloop0]; rfl
  | succ n ih =>
    intro i st hn
    rw [RS.forCount, hloopS, hbody i st (by omega)]
    exact bind_congr _ _ _ (fun st' => ih (i+1) st' (by omega))

/-- **`build_select1`** (generated) = the model's `buildSelect1` -/
theorem build_select1_eq_of (c : Cfg) (x : R9Index) (hx : DirOk x) :
    GenFn.Rank9SelIndex.build_select1 c x = x.buildSelect1 := by
  obtain ⟨h2, hs, hr⟩ := hx
  have hnb : x.numBlocks * 2 + 2 ≤ x.pairs.size := by unfold numBlocks; omega
  unfold GenFn.Rank9SelIndex.build_select1 buildSelect1
  simp only [GenFn.rank9sel_inner.SELECT_ONES_PER_HINT]
  rw [num_blocks_eq c x h2, bok, RS.forRange, Nat.sub_zero, hH]
  rw [hint_loop (hintStep x) (hintLoop x) (fun _ _ => rfl) (fun _ _ _ => rfl) _ x.numBlocks ?_ x.numBlocks 0 _ (by omega)]
  · exact bind_congr _ _ _ (fun st => by rw [bok])
  · intro i st hi
    rw [cadd_ok c (by omega), bok, block_rank_eq c x (i+1) (by omega)]
    unfold hintStep
    rw [hH]
    cases e : x.blockRank (i + 1) with
    | error err => rfl
    | ok v =>
      rw [bok, bok]
      have hv : wordAt x.pairs ((i+1) * 2) = v := wordAt_of_idx _ _ _ e
      have := hr (i+1) (by omega)
      by_cases hgt : v > st.2
      · rw [if_pos hgt, if_pos hgt, cadd_ok c (by omega)]; rfl
      · rw [if_neg hgt, if_neg hgt]; rfl

/-- **`build_select0`** (generated) = the model's `buildSelect0` -/
theorem build_select0_eq_of (c : Cfg) (x : R9Index) (hx : DirOk0 x) :
    GenFn.Rank9SelIndex.build_select0 c x = x.buildSelect0 c := by
  obtain ⟨h2, hs, hle, hroom⟩ := hx
  unfold GenFn.Rank9SelIndex.build_select0 buildSelect0
  simp only [GenFn.rank9sel_inner.SELECT_ZEROS_PER_HINT]
  rw [num_blocks_eq c x h2, bok, RS.forRange, Nat.sub_zero, hH0]
  rw [hint_loop (hintStep0 c x) (hintLoop0 c x) (fun _ _ => rfl) (fun _ _ _ => rfl) _ x.numBlocks ?_ x.numBlocks 0 _ (by omega)]
  · exact bind_congr _ _ _ (fun st => by rw [bok])
  · intro i st hi
    rw [cadd_ok c (by omega), bok, block_rank0_eq c x (i+1) (by omega)]
    unfold hintStep0
    rw [hH0]
    cases e : x.blockRank0 c (i + 1) with
    | error err => rfl
    | ok v =>
      rw [bok, bok]
      have hv : v ≤ (i+1) * 512 := by
        unfold blockRank0 at e
        cases e1 : x.blockRank (i+1) with
        | error err => rw [e1] at e; cases e
        | ok r =>
          rw [e1, bok, hB, csub_ok c (by
            have := hle (i+1) (by omega)
            rw [wordAt_of_idx _ _ _ e1] at this; omega)] at e
          injection e with e; omega
      by_cases hgt : v > st.2
      · rw [if_pos hgt, if_pos hgt, cadd_ok c (by omega)]; rfl
      · rw [if_neg hgt, if_neg hgt]; rfl

/-! ### the directories the model's `buildRank` produces satisfy `DirOk` / `DirOk0` -/

theorem wordAt_pairs_build (c : Cfg) (bv : BV) (h : bv.Inv) (x : R9Index) (hx : x.pairs = (buildRank c bv).pairs)
    (t : Nat) (ht : t ≤ x.numBlocks) : wordAt x.pairs (t * 2) = prefixPop c bv.words (8 * t) := by
  rw [numBlocks_congr x _ hx] at ht
  have := blockRank_ok c bv h t ht
  unfold blockRank at this
  rw [hx]; exact wordAt_of_idx _ _ _ this

theorem prefixPop_le_len' (c : Cfg) (bv : BV) (h : bv.Inv) (i : Nat) : prefixPop c bv.words i ≤ bv.len := by
  have := prefixPop_le_len c bv h
  by_cases hi : i ≤ bv.words.size
  · have := prefixPop_mono c bv.words hi; omega
  · rw [prefixPop_beyond c bv.words i (by omega)]; exact this

theorem dirOk_build (c : Cfg) (bv : BV) (h : bv.Inv) (hl : bv.len + 1023 < 2^64)
    (x : R9Index) (hx : x.pairs = (buildRank c bv).pairs) : DirOk x := by
  have hsz := h.size
  have hps := pairs_size c bv h
  refine ⟨?_, ?_, ?_⟩
  · rw [hx, hps]; omega
  · rw [hx, hps]; split <;> omega
  · intro t ht
    rw [wordAt_pairs_build c bv h x hx t ht]
    have := prefixPop_le_len' c bv h (8 * t)
    omega

theorem dirOk0_build (c : Cfg) (bv : BV) (h : bv.Inv) (hl : bv.len + 1534 < 2^64)
    (x : R9Index) (hx : x.pairs = (buildRank c bv).pairs) : DirOk0 x := by
  have hsz := h.size
  have hps := pairs_size c bv h
  have hnb : x.numBlocks = bv.words.size / 8 + (if bv.words.size % 8 ≠ 0 then 1 else 0) := by
    rw [numBlocks_congr x _ hx]; exact numBlocks_eq c bv h
  refine ⟨?_, ?_, ?_, ?_⟩
  · rw [hx, hps]; omega
  · rw [hx, hps]; split <;> omega
  · intro t ht
    rw [wordAt_pairs_build c bv h x hx t ht]
    have := prefixPop_le64 c bv.words h.lt (8 * t)
    omega
  · rw [hnb]; split <;> omega

/-- **`build_select1`** on any index carrying the directory of `buildRank c bv` -/
theorem build_select1_eq (c : Cfg) (bv : BV) (h : bv.Inv) (hl : bv.len + 1023 < 2^64)
    (x : R9Index) (hx : x.pairs = (buildRank c bv).pairs) :
    GenFn.Rank9SelIndex.build_select1 c x = x.buildSelect1 :=
  build_select1_eq_of c x (dirOk_build c bv h hl x hx)

/-- **`build_select0`** on any index carrying the directory of `buildRank c bv` -/
theorem build_select0_eq (c : Cfg) (bv : BV) (h : bv.Inv) (hl : bv.len + 1534 < 2^64)
    (x : R9Index) (hx : x.pairs = (buildRank c bv).pairs) :
    GenFn.Rank9SelIndex.build_select0 c x = x.buildSelect0 c :=
  build_select0_eq_of c x (dirOk0_build c bv h hl x hx)

/-- **`select1_hints`** (public wrapper) -/
theorem select1_hints_eq_of (c : Cfg) (x : R9Index) (hx : DirOk x) :
    GenFn.Rank9SelIndex.select1_hints c x = x.buildSelect1 :=
  build_select1_eq_of c x hx
theorem select1_hints_eq (c : Cfg) (bv : BV) (h : bv.Inv) (hl : bv.len + 1023 < 2^64)
    (x : R9Index) (hx : x.pairs = (buildRank c bv).pairs) :
    GenFn.Rank9SelIndex.select1_hints c x = x.buildSelect1 :=
  build_select1_eq c bv h hl x hx

/-- **`select0_hints`** (public wrapper) -/
theorem select0_hints_eq_of (c : Cfg) (x : R9Index) (hx : DirOk0 x) :
    GenFn.Rank9SelIndex.select0_hints c x = x.buildSelect0 c :=
  build_select0_eq_of c x hx
theorem select0_hints_eq (c : Cfg) (bv : BV) (h : bv.Inv) (hl : bv.len + 1534 < 2^64)
    (x : R9Index) (hx : x.pairs = (buildRank c bv).pairs) :
    GenFn.Rank9SelIndex.select0_hints c x = x.buildSelect0 c :=
  build_select0_eq c bv h hl x hx

/-- the whole construction `new(bv).select1_hints().select0_hints()` as generated = the model's chain
    (which `R9.build c bv true true` runs, `Rank9Full.lean`) -/
theorem new_hints_chain_eq (c : Cfg) (bv : BV) (h : bv.Inv) (hl : bv.len + 1534 < 2^64) :
    ((GenFn.Rank9SelIndex.new c bv).bind fun x =>
      (GenFn.Rank9SelIndex.select1_hints c x).bind fun y => GenFn.Rank9SelIndex.select0_hints c y)
    = (buildRank c bv).buildSelect1.bind fun y => y.buildSelect0 c := by
  rw [r9_new_eq c bv h (by omega), bok, select1_hints_eq c bv h (by omega) _ rfl]
  cases e : (buildRank c bv).buildSelect1 with
  | error err => rfl
  | ok y =>
    rw [bok, bok]
    exact select0_hints_eq c bv h hl y (buildSelect1_fields _ _ e).2.1

end Sucds.GenEq
