import Sucds.Model.DArray
import Sucds.Proofs.BitVectorSelect
import Sucds.Proofs.C14Lsb
/-! DArray, part 1: `DAIndex.build` pushes exactly the positions `p < len` with `bitAt p = overOne`,
    in increasing order (`buildLoop_eq`), and that list is indexed by `sel` (`plist_getElem?`). -/
set_option linter.unusedSimpArgs false
set_option linter.unusedVariables false
namespace Sucds
open Spec
namespace DAProof

theorem lsbW_eq (c : Cfg) (w : Nat) (hw : w < 2^64) : lsbW c w = sel (fun i => w.testBit i) 64 0 := by
  unfold lsbW
  rw [C14.lsb_ok]
  exact sel_congr _ _ 64 0 (fun i hi => by rw [bitsOf_ofNat w i hw]; simp [hi])

/-- the word the index looks at: `get_word_over_one` / `get_word_over_zero` on a total accessor -/
def gw (bv : BV) (o : Bool) (i : Nat) : Nat := if o then wordAt bv.words i else wnot (wordAt bv.words i)

/-- the indexed predicate: the bit equals `o`, and the position is inside the vector -/
def Pb (bv : BV) (o : Bool) (p : Nat) : Bool := decide (p < bv.len) && (bv.bitAt p == o)

theorem gw_lt (bv : BV) (h : bv.Inv) (o : Bool) (i : Nat) : gw bv o i < 2^64 := by
  unfold gw
  cases o
  · simp only [Bool.false_eq_true, if_false]; unfold wnot; omega
  · simp only [if_true]; exact h.lt i

theorem wnot_testBit (w j : Nat) (hw : w < 2^64) (hj : j < 64) : (wnot w).testBit j = !w.testBit j := by
  unfold wnot
  rw [Nat.mod_eq_of_lt hw, show 2^64 - 1 - w = 2^64 - (w + 1) by omega, Nat.testBit_two_pow_sub_succ hw]
  simp [hj]

theorem gw_testBit (bv : BV) (h : bv.Inv) (o : Bool) (i j : Nat) (hj : j < 64) :
    (gw bv o i).testBit j = (bv.bitAt (64 * i + j) == o) := by
  unfold gw
  cases o
  · simp only [Bool.false_eq_true, if_false]
    rw [wnot_testBit _ _ (h.lt i) hj, BV.word_testBit bv i j hj]
    cases bv.bitAt (64 * i + j) <;> rfl
  · simp only [if_true]
    rw [BV.word_testBit bv i j hj]
    cases bv.bitAt (64 * i + j) <;> rfl

theorem gw_testBit_high (bv : BV) (h : bv.Inv) (o : Bool) (i j : Nat) (hj : 64 ≤ j) : (gw bv o i).testBit j = false := by
  apply Nat.testBit_lt_two_pow
  calc gw bv o i < 2^64 := gw_lt bv h o i
    _ ≤ 2^j := Nat.pow_le_pow_right (by omega) hj

theorem Pb_lt (bv : BV) (o : Bool) (p : Nat) (hp : Pb bv o p = true) : p < bv.len := by
  unfold Pb at hp; simp at hp; exact hp.1

theorem Pb_gw (bv : BV) (h : bv.Inv) (o : Bool) (i j : Nat) (hj : j < 64) :
    Pb bv o (64 * i + j) = (decide (64 * i + j < bv.len) && (gw bv o i).testBit j) := by
  unfold Pb; rw [gw_testBit bv h o i j hj]

/-! ### the build loop as a fold over the pushed positions -/

/-- one pass through the body of the `while let` loop -/
def pushOne (s : DAIndex.BSt) (p : Nat) : DAIndex.BSt :=
  let s1 : DAIndex.BSt := { s with cur := s.cur.push p }
  let s2 := if s1.cur.size = Gen.DA_BLOCK_LEN then DAIndex.flush s1 else s1
  { s2 with numPos := s2.numPos + 1 }

def pushAll (s : DAIndex.BSt) (L : List Nat) : DAIndex.BSt := L.foldl pushOne s

theorem pushAll_nil (s : DAIndex.BSt) : pushAll s [] = s := rfl
theorem pushAll_cons (s : DAIndex.BSt) (p : Nat) (L : List Nat) : pushAll s (p :: L) = pushAll (pushOne s p) L := rfl
theorem pushAll_append (s : DAIndex.BSt) (L M : List Nat) : pushAll s (L ++ M) = pushAll (pushAll s L) M := by
  unfold pushAll; rw [List.foldl_append]

/-- the positions in `[lo, lo+n)` satisfying the indexed predicate -/
def plist (bv : BV) (o : Bool) (lo n : Nat) : List Nat := (List.range' lo n).filter (Pb bv o)

theorem plist_zero (bv : BV) (o : Bool) (lo : Nat) : plist bv o lo 0 = [] := rfl

theorem plist_add (bv : BV) (o : Bool) (lo a b : Nat) : plist bv o lo (a + b) = plist bv o lo a ++ plist bv o (lo + a) b := by
  unfold plist
  rw [← List.filter_append, List.range'_append_1]

theorem plist_nil_of_false (bv : BV) (o : Bool) (lo n : Nat) (h : ∀ p, lo ≤ p → p < lo + n → Pb bv o p = false) :
    plist bv o lo n = [] := by
  unfold plist
  rw [List.filter_eq_nil_iff]
  intro p hp
  rw [List.mem_range'_1] at hp
  rw [h p hp.1 hp.2]; simp

theorem plist_one (bv : BV) (o : Bool) (lo : Nat) : plist bv o lo 1 = if Pb bv o lo then [lo] else [] := by
  unfold plist
  simp [List.range'_one, List.filter_cons]

end DAProof
end Sucds
