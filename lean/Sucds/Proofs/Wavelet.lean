import Sucds.Proofs.WaveletIntersect
/-! Wavelet matrix: the collected statement. For every build configuration `c` and every backing `k` that
    builds correct layers (`BackingOK`, or only `BackingOKFor … s.length`), `WaveletMatrix::new` on a
    non-empty sequence `s` with `max s + 1 < 2^64` succeeds and every query answers what the executable
    spec (`Sucds.SpecX`) says, without panic.

    Size hypotheses: `s.length < 2^64` for `new`/`access`/`rank_range`/`rank`;
    `s.length < 2^63` for `select` (`pos + k` at the bottom of the recursion) and for `quantile`/`intersect`
    (`num_zeros + pos`), whose checked additions stay below `2·n`. -/
namespace Sucds.Wav
open Sucds Sucds.Spec WMr

theorem wavelet_correct_for (c : Cfg) (k : Backing) (s : List Nat) (hk : BackingOKFor c k s.length)
    (hne : s ≠ []) (hmax : s.foldl max 0 + 1 < 2 ^ 64) (hn : s.length < 2 ^ 64) :
    ∃ wm, WM.new c k s = .ok (some wm) ∧
      wm.alphSize = s.foldl max 0 + 1 ∧ wm.len = s.length ∧ wm.alphWidth = SpecX.bitlen (s.foldl max 0 + 1) ∧
      (∀ d (hd : d < wm.layers.size),
        LayOK c wm.layers[d] ((seqAt wm.alphWidth s d).map (bitOf (wm.alphWidth - 1 - d)))) ∧
      (∀ i, wm.access c i = .ok s[i]?) ∧
      (∀ a b v, wm.rankRange c a b v = .ok (if b ≤ s.length then some (SpecX.occ s.toArray a b v) else none)) ∧
      (∀ p v, wm.rank c p v = .ok (if p ≤ s.length then some ((s.take p).count v) else none)) ∧
      (s.length < 2 ^ 63 →
        (∀ j v, wm.select c j v = .ok (SpecX.selectVal s.toArray j v)) ∧
        (∀ a b j, wm.quantile c a b j = .ok (SpecX.quantile s.toArray a b j)) ∧
        (∀ ranges j, wm.intersect c ranges j = .ok (SpecX.intersect s.toArray ranges j))) := by
  obtain ⟨wm, hnew, hb⟩ := new_ok c k s hk hne hmax hn
  refine ⟨wm, hnew, hb.alph, hb.len, hb.alphWidth, ?_, access_ok c wm s hb, rankRange_spec c wm s hb,
    rank_ok c wm s hb, fun h63 => ⟨select_spec c wm s hb h63, quantile_spec c wm s hb h63,
      intersect_spec c wm s hb h63⟩⟩
  intro d hd
  have hch : Chain c wm.layers.toList (seqAt wm.alphWidth s 0) := hb.chain
  have := Chain.layer (w := wm.alphWidth) (s := s) wm.layers.toList 0 (by simp [WM.alphWidth]) hch d (by simpa using hd)
  simpa using this

theorem wavelet_correct (c : Cfg) (k : Backing) (hk : BackingOK c k) (s : List Nat)
    (hne : s ≠ []) (hmax : s.foldl max 0 + 1 < 2 ^ 64) (hn : s.length < 2 ^ 64) :
    ∃ wm, WM.new c k s = .ok (some wm) ∧
      wm.alphSize = s.foldl max 0 + 1 ∧ wm.len = s.length ∧ wm.alphWidth = SpecX.bitlen (s.foldl max 0 + 1) ∧
      (∀ d (hd : d < wm.layers.size),
        LayOK c wm.layers[d] ((seqAt wm.alphWidth s d).map (bitOf (wm.alphWidth - 1 - d)))) ∧
      (∀ i, wm.access c i = .ok s[i]?) ∧
      (∀ a b v, wm.rankRange c a b v = .ok (if b ≤ s.length then some (SpecX.occ s.toArray a b v) else none)) ∧
      (∀ p v, wm.rank c p v = .ok (if p ≤ s.length then some ((s.take p).count v) else none)) ∧
      (s.length < 2 ^ 63 →
        (∀ j v, wm.select c j v = .ok (SpecX.selectVal s.toArray j v)) ∧
        (∀ a b j, wm.quantile c a b j = .ok (SpecX.quantile s.toArray a b j)) ∧
        (∀ ranges j, wm.intersect c ranges j = .ok (SpecX.intersect s.toArray ranges j))) :=
  wavelet_correct_for c k s (hk.for _) hne hmax hn

/-- `intersect` in list terms: `None` iff some range ends beyond the sequence; otherwise a strictly ascending
    list holding exactly the values that occur in more than `j` of the non-empty ranges -/
theorem intersect_ok (c : Cfg) (wm : WM) (s : List Nat) (h : Built c wm s) (hn : s.length < 2 ^ 63)
    (ranges : List (Nat × Nat)) (j : Nat) :
    (ranges.any (fun r => decide (s.length < r.2)) = true → wm.intersect c ranges j = .ok none) ∧
    (ranges.any (fun r => decide (s.length < r.2)) = false →
      ∃ out, wm.intersect c ranges j = .ok (some out) ∧ out.Pairwise (· < ·) ∧
        ∀ x, x ∈ out ↔
          j < ((ranges.filter fun r => decide (r.1 < r.2)).countP fun r => decide (x ∈ (s.take r.2).drop r.1))) := by
  rw [intersect_spec c wm s h hn]
  unfold SpecX.intersect
  have hsz : s.toArray.size = s.length := rfl
  rw [hsz]
  constructor
  · intro ho; rw [ho]; rfl
  · intro ho
    rw [ho]
    refine ⟨_, rfl, List.Pairwise.filter _ (dedup_strict _ (sort_sorted _)), ?_⟩
    intro x
    rw [List.mem_filter, dedup_mem, (sort_perm _).mem_iff, List.mem_flatMap, ← List.countP_eq_length_filter]
    have hcongr : ((ranges.filter fun r => decide (r.1 < r.2)).countP fun r => (SpecX.slice s.toArray r.1 r.2).contains x)
        = ((ranges.filter fun r => decide (r.1 < r.2)).countP fun r => decide (x ∈ (s.take r.2).drop r.1)) := by
      apply List.countP_congr
      intro r _
      rw [List.contains_iff_mem, decide_eq_true_eq]; rfl
    rw [hcongr]
    simp only [decide_eq_true_eq]
    constructor
    · exact fun hx => hx.2
    · intro hx
      refine ⟨?_, hx⟩
      have hpos : 0 < ((ranges.filter fun r => decide (r.1 < r.2)).countP
          fun r => decide (x ∈ (s.take r.2).drop r.1)) := by omega
      obtain ⟨r, hr, hxr⟩ := List.countP_pos_iff.mp hpos
      have hxr' : x ∈ (s.take r.2).drop r.1 := by simpa using hxr
      exact ⟨r, hr, hxr'⟩

theorem wavelet_new_empty (c : Cfg) (k : Backing) : WM.new c k [] = .ok none := new_nil c k

#print axioms wavelet_correct
#print axioms access_ok
#print axioms rankRange_ok
#print axioms quantile_ok
#print axioms select_ok
#print axioms intersect_spec
#print axioms intersect_ok
end Sucds.Wav
