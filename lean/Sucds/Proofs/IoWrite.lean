import Sucds.Proofs.IoSchedule
/-! C13, write side: `std::io::Write::write_all` to a writer that accepts the bytes in arbitrary positive
    pieces, reports `Interrupted` at arbitrary points and fails for good once `limit` bytes were accepted.
    The loop is the documented default implementation of `write_all` (modelled, trusted — it is `std`). -/
set_option linter.unusedSimpArgs false
set_option linter.unusedVariables false
namespace Sucds.Io

structure Writer where
  out : List Nat        -- bytes accepted so far
  limit : Nat           -- the device fails once this many bytes were accepted
  sched : List Ev

/-- number of bytes an event lets through for a buffer of `len` bytes -/
def evLen (ev : Option Ev) (len : Nat) : Nat :=
  match ev with
  | some (.chunk n) => min (max n 1) len
  | _ => len

/-- `write(buf)`: `none` = `Interrupted`; `some none` = hard error; `some (some k)` = `Ok(k)` -/
def Writer.write (w : Writer) (buf : List Nat) : Option (Option Nat) × Writer :=
  match w.sched with
  | .eintr :: s => (none, ⟨w.out, w.limit, s⟩)
  | s =>
    if w.limit ≤ w.out.length then (some none, ⟨w.out, w.limit, s.tail⟩)
    else
      let k := min (evLen s.head? buf.length) (w.limit - w.out.length)
      (some (some k), ⟨w.out ++ buf.take k, w.limit, s.tail⟩)

/-- `write_all`: `true` = `Ok(())` -/
def writeAll (w : Writer) (buf : List Nat) : Nat → Bool × Writer
  | 0 => (false, w)
  | fuel+1 =>
    if buf = [] then (true, w)
    else match w.write buf with
      | (none, w') => writeAll w' buf fuel                 -- Interrupted: retry
      | (some none, w') => (false, w')                     -- error propagated
      | (some (some 0), w') => (false, w')                 -- Ok(0): WriteZero
      | (some (some (k+1)), w') => writeAll w' (buf.drop (k+1)) fuel

/-- schedule independence of `write_all`: it succeeds iff everything fits below the limit, and then the
    output is extended by exactly the buffer; otherwise it fails having written exactly up to the limit -/
theorem writeAll_spec : ∀ (fuel : Nat) (out : List Nat) (limit : Nat) (sched : List Ev) (buf : List Nat),
    sched.length + buf.length < fuel → out.length ≤ limit →
    (out.length + buf.length ≤ limit →
      ∃ s', writeAll ⟨out, limit, sched⟩ buf fuel = (true, ⟨out ++ buf, limit, s'⟩)) ∧
    (limit < out.length + buf.length →
      ∃ s', writeAll ⟨out, limit, sched⟩ buf fuel = (false, ⟨out ++ buf.take (limit - out.length), limit, s'⟩)) := by
  intro fuel
  induction fuel with
  | zero => intro out limit sched buf h; omega
  | succ fuel ih =>
    intro out limit sched buf hf hol
    unfold writeAll
    by_cases hb : buf = []
    · subst hb
      simp only [if_true, List.append_nil, List.length_nil, Nat.add_zero]
      exact ⟨fun _ => ⟨sched, rfl⟩, fun h => by omega⟩
    · simp only [hb, if_false]
      have hbl : 0 < buf.length := List.length_pos_iff.mpr hb
      cases sched with
      | cons ev s =>
        cases ev with
        | eintr =>
          simp only [Writer.write]
          exact ih out limit s buf (by simp at hf ⊢; omega) hol
        | chunk n =>
          simp only [Writer.write, List.tail_cons, List.head?_cons, evLen]
          by_cases hfull : limit ≤ out.length
          · simp only [hfull, if_true]
            have : limit - out.length = 0 := by omega
            refine ⟨fun h => by omega, fun _ => ⟨s, by simp [this]⟩⟩
          · simp only [hfull, if_false]
            have hk : 1 ≤ min (min (max n 1) buf.length) (limit - out.length) := by omega
            obtain ⟨k, hkk⟩ : ∃ k, min (min (max n 1) buf.length) (limit - out.length) = k + 1 := ⟨_, (Nat.sub_add_cancel hk).symm⟩
            rw [hkk]
            simp only []
            have hkb : k + 1 ≤ buf.length := by omega
            have hkl : k + 1 ≤ limit - out.length := by omega
            obtain ⟨ih1, ih2⟩ := ih (out ++ buf.take (k+1)) limit s (buf.drop (k+1))
              (by simp at hf ⊢; omega) (by simp [List.length_take]; omega)
            have hlen : (out ++ buf.take (k+1)).length = out.length + (k+1) := by simp [List.length_take]; omega
            refine ⟨?_, ?_⟩
            · intro hfit
              obtain ⟨s', hs⟩ := ih1 (by rw [hlen, List.length_drop]; omega)
              exact ⟨s', by rw [hs, List.append_assoc, List.take_append_drop]⟩
            · intro hover
              obtain ⟨s', hs⟩ := ih2 (by rw [hlen, List.length_drop]; omega)
              refine ⟨s', ?_⟩
              have e : limit - out.length = (k+1) + (limit - (out.length + (k+1))) := by omega
              rw [hs, hlen, List.append_assoc]
              conv => rhs; rw [e, List.take_add]
      | nil =>
        simp only [Writer.write, List.tail_nil, List.head?_nil, evLen]
        by_cases hfull : limit ≤ out.length
        · simp only [hfull, if_true]
          have : limit - out.length = 0 := by omega
          refine ⟨fun h => by omega, fun _ => ⟨[], by simp [this]⟩⟩
        · simp only [hfull, if_false]
          have hk : 1 ≤ min buf.length (limit - out.length) := by omega
          obtain ⟨k, hkk⟩ : ∃ k, min buf.length (limit - out.length) = k + 1 := ⟨_, (Nat.sub_add_cancel hk).symm⟩
          rw [hkk]
          simp only []
          have hkb : k + 1 ≤ buf.length := by omega
          have hkl : k + 1 ≤ limit - out.length := by omega
          obtain ⟨ih1, ih2⟩ := ih (out ++ buf.take (k+1)) limit [] (buf.drop (k+1))
            (by simp at hf ⊢; omega) (by simp [List.length_take]; omega)
          have hlen : (out ++ buf.take (k+1)).length = out.length + (k+1) := by simp [List.length_take]; omega
          refine ⟨?_, ?_⟩
          · intro hfit
            obtain ⟨s', hs⟩ := ih1 (by rw [hlen, List.length_drop]; omega)
            exact ⟨s', by rw [hs, List.append_assoc, List.take_append_drop]⟩
          · intro hover
            obtain ⟨s', hs⟩ := ih2 (by rw [hlen, List.length_drop]; omega)
            refine ⟨s', ?_⟩
            have e : limit - out.length = (k+1) + (limit - (out.length + (k+1))) := by omega
            rw [hs, hlen, List.append_assoc]
            conv => rhs; rw [e, List.take_add]

end Sucds.Io

namespace Sucds.Io

theorem write_sched_le (w : Writer) (buf : List Nat) : (w.write buf).2.sched.length ≤ w.sched.length := by
  unfold Writer.write
  cases hs : w.sched with
  | nil => simp only []; split <;> simp
  | cons ev s =>
    cases ev with
    | eintr => simp
    | chunk n => simp only []; split <;> simp

theorem writeAll_sched_le : ∀ (fuel : Nat) (w : Writer) (buf : List Nat),
    (writeAll w buf fuel).2.sched.length ≤ w.sched.length := by
  intro fuel
  induction fuel with
  | zero => intro w buf; simp [writeAll]
  | succ fuel ih =>
    intro w buf
    unfold writeAll
    by_cases hb : buf = []
    · simp [hb]
    · simp only [hb, if_false]
      have hw := write_sched_le w buf
      cases hr : w.write buf with
      | mk r w' =>
        rw [hr] at hw
        simp only at hw
        cases r with
        | none => exact Nat.le_trans (ih w' buf) hw
        | some r' =>
          cases r' with
          | none => exact hw
          | some k =>
            cases k with
            | zero => exact hw
            | succ k => exact Nat.le_trans (ih w' _) hw

/-- `serialize_into` of a structure is a sequence of `write_all` calls (one per primitive), stopping at the first
    error (`?`): `true` = `Ok` -/
def writeChunks : Writer → List (List Nat) → Nat → Bool × Writer
  | w, [], _ => (true, w)
  | w, c :: cs, fuel =>
    match writeAll w c fuel with
    | (true, w') => writeChunks w' cs fuel
    | (false, w') => (false, w')

/-- however the bytes are cut into `write_all` calls and whatever the schedule of short writes and interruptions:
    the serialization succeeds iff all the bytes fit below the failure point, having written exactly all of them; and
    otherwise it returns `Err` having written exactly the first `limit` bytes -/
theorem writeChunks_spec : ∀ (chunks : List (List Nat)) (out : List Nat) (limit : Nat) (sched : List Ev) (fuel : Nat),
    (∀ c ∈ chunks, sched.length + c.length < fuel) → out.length ≤ limit →
    (out.length + chunks.flatten.length ≤ limit →
      ∃ s', writeChunks ⟨out, limit, sched⟩ chunks fuel = (true, ⟨out ++ chunks.flatten, limit, s'⟩)) ∧
    (limit < out.length + chunks.flatten.length →
      ∃ s', writeChunks ⟨out, limit, sched⟩ chunks fuel =
        (false, ⟨out ++ chunks.flatten.take (limit - out.length), limit, s'⟩)) := by
  intro chunks
  induction chunks with
  | nil =>
    intro out limit sched fuel _ _
    exact ⟨fun _ => ⟨sched, by simp [writeChunks]⟩, fun h => by simp at h; omega⟩
  | cons c cs ih =>
    intro out limit sched fuel hf hol
    have hc := hf c (by simp)
    obtain ⟨w1, w2⟩ := writeAll_spec fuel out limit sched c hc hol
    have hsl := writeAll_sched_le fuel ⟨out, limit, sched⟩ c
    simp only [List.flatten_cons, List.length_append]
    by_cases hfit : out.length + c.length ≤ limit
    · obtain ⟨s1, e1⟩ := w1 hfit
      rw [e1] at hsl; simp only at hsl
      have hf' : ∀ c' ∈ cs, s1.length + c'.length < fuel := fun c' hc' => by
        have := hf c' (by simp [hc']); omega
      have hl : (out ++ c).length = out.length + c.length := List.length_append
      obtain ⟨i1, i2⟩ := ih (out ++ c) limit s1 fuel hf' (by rw [hl]; omega)
      simp only [writeChunks, e1]
      refine ⟨?_, ?_⟩
      · intro h
        obtain ⟨s', e⟩ := i1 (by rw [hl]; omega)
        exact ⟨s', by rw [e, List.append_assoc]⟩
      · intro h
        obtain ⟨s', e⟩ := i2 (by rw [hl]; omega)
        refine ⟨s', ?_⟩
        rw [e, List.append_assoc]
        congr 3
        rw [List.take_append]
        rw [hl]
        have : limit - out.length - c.length = limit - (out.length + c.length) := by omega
        rw [List.take_of_length_le (show c.length ≤ limit - out.length by omega), this]
    · have hov : limit < out.length + c.length := by omega
      obtain ⟨s1, e1⟩ := w2 hov
      simp only [writeChunks, e1]
      refine ⟨fun h => by omega, fun _ => ⟨s1, ?_⟩⟩
      congr 3
      rw [List.take_append]
      have : limit - out.length - c.length = 0 := by omega
      rw [this]; simp
end Sucds.Io
