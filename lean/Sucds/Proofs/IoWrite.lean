import Sucds.Proofs.IoSchedule
/-! C13, write side: `std::io::Write::write_all` to a writer that accepts the bytes in arbitrary positive
    pieces, reports `Interrupted` at arbitrary points and fails for good once `limit` bytes were accepted.
    The loop is the documented default implementation of `write_all` (modelled, trusted — it is `std`). -/
set_option linter.unusedSimpArgs false
set_option linter.unusedVariables false
namespace Sucds.Io

structure Writer where
  out : List Nat        -- bytes accepted so far
  limit : Nat           -- the device fails once this many bytes were accepted
  sched : List Ev

/-- number of bytes an event lets through for a buffer of `len` bytes -/
def evLen (ev : Option Ev) (len : Nat) : Nat :=
  match ev with
  | some (.chunk n) => min (max n 1) len
  | _ => len

/-- `write(buf)`: `none` = `Interrupted`; `some none` = hard error; `some (some k)` = `Ok(k)` -/
def Writer.write (w : Writer) (buf : List Nat) : Option (Option Nat) × Writer :=
  match w.sched with
  | .eintr :: s => (none, ⟨w.out, w.limit, s⟩)
  | s =>
    if w.limit ≤ w.out.length then (some none, ⟨w.out, w.limit, s.tail⟩)
    else
      let k := min (evLen s.head? buf.length) (w.limit - w.out.length)
      (some (some k), ⟨w.out ++ buf.take k, w.limit, s.tail⟩)

/-- `write_all`: `true` = `Ok(())` -/
def writeAll (w : Writer) (buf : List Nat) : Nat → Bool × Writer
  | 0 => (false, w)
  | fuel+1 =>
    if buf = [] then (true, w)
    else match w.write buf with
      | (none, w') => writeAll w' buf fuel                 -- Interrupted: retry
      | (some none, w') => (false, w')                     -- error propagated
      | (some (some 0), w') => (false, w')                 -- Ok(0): WriteZero
      | (some (some (k+1)), w') => writeAll w' (buf.drop (k+1)) fuel

/-- schedule independence of `write_all`: it succeeds iff everything fits below the limit, and then the
    output is extended by exactly the buffer; otherwise it fails having written exactly up to the limit -/
theorem writeAll_spec : ∀ (fuel : Nat) (out : List Nat) (limit : Nat) (sched : List Ev) (buf : List Nat),
    sched.length + buf.length < fuel → out.length ≤ limit →
    (out.length + buf.length ≤ limit →
      ∃ s', writeAll ⟨out, limit, sched⟩ buf fuel = (true, ⟨out ++ buf, limit, s'⟩)) ∧
    (limit < out.length + buf.length →
      ∃ s', writeAll ⟨out, limit, sched⟩ buf fuel = (false, ⟨out ++ buf.take (limit - out.length), limit, s'⟩)) := by
  intro fuel
  induction fuel with
  | zero => intro out limit sched buf h; omega
  | succ fuel ih =>
    intro out limit sched buf hf hol
    unfold writeAll
    by_cases hb : buf = []
    · subst hb
      simp only [if_true, List.append_nil, List.length_nil, Nat.add_zero]
      exact ⟨fun _ => ⟨sched, rfl⟩, fun h => by omega⟩
    · simp only [hb, if_false]
      have hbl : 0 < buf.length := List.length_pos_iff.mpr hb
      cases sched with
      | cons ev s =>
        cases ev with
        | eintr =>
          simp only [Writer.write]
          exact ih out limit s buf (by simp at hf ⊢; omega) hol
        | chunk n =>
          simp only [Writer.write, List.tail_cons, List.head?_cons, evLen]
          by_cases hfull : limit ≤ out.length
          · simp only [hfull, if_true]
            have : limit - out.length = 0 := by omega
            refine ⟨fun h => by omega, fun _ => ⟨s, by simp [this]⟩⟩
          · simp only [hfull, if_false]
            have hk : 1 ≤ min (min (max n 1) buf.length) (limit - out.length) := by omega
            obtain ⟨k, hkk⟩ : ∃ k, min (min (max n 1) buf.length) (limit - out.length) = k + 1 := ⟨_, (Nat.sub_add_cancel hk).symm⟩
            rw [hkk]
            simp only []
            have hkb : k + 1 ≤ buf.length := by omega
            have hkl : k + 1 ≤ limit - out.length := by omega
            obtain ⟨ih1, ih2⟩ := ih (out ++ buf.take (k+1)) limit s (buf.drop (k+1))
              (by simp at hf ⊢; omega) (by simp [List.length_take]; omega)
            have hlen : (out ++ buf.take (k+1)).length = out.length + (k+1) := by simp [List.length_take]; omega
            refine ⟨?_, ?_⟩
            · intro hfit
              obtain ⟨s', hs⟩ := ih1 (by rw [hlen, List.length_drop]; omega)
              exact ⟨s', by rw [hs, List.append_assoc, List.take_append_drop]⟩
            · intro hover
              obtain ⟨s', hs⟩ := ih2 (by rw [hlen, List.length_drop]; omega)
              refine ⟨s', ?_⟩
              have e : limit - out.length = (k+1) + (limit - (out.length + (k+1))) := by omega
              rw [hs, hlen, List.append_assoc]
              conv => rhs; rw [e, List.take_add]
      | nil =>
        simp only [Writer.write, List.tail_nil, List.head?_nil, evLen]
        by_cases hfull : limit ≤ out.length
        · simp only [hfull, if_true]
          have : limit - out.length = 0 := by omega
          refine ⟨fun h => by omega, fun _ => ⟨[], by simp [this]⟩⟩
        · simp only [hfull, if_false]
          have hk : 1 ≤ min buf.length (limit - out.length) := by omega
          obtain ⟨k, hkk⟩ : ∃ k, min buf.length (limit - out.length) = k + 1 := ⟨_, (Nat.sub_add_cancel hk).symm⟩
          rw [hkk]
          simp only []
          have hkb : k + 1 ≤ buf.length := by omega
          have hkl : k + 1 ≤ limit - out.length := by omega
          obtain ⟨ih1, ih2⟩ := ih (out ++ buf.take (k+1)) limit [] (buf.drop (k+1))
            (by simp at hf ⊢; omega) (by simp [List.length_take]; omega)
          have hlen : (out ++ buf.take (k+1)).length = out.length + (k+1) := by simp [List.length_take]; omega
          refine ⟨?_, ?_⟩
          · intro hfit
            obtain ⟨s', hs⟩ := ih1 (by rw [hlen, List.length_drop]; omega)
            exact ⟨s', by rw [hs, List.append_assoc, List.take_append_drop]⟩
          · intro hover
            obtain ⟨s', hs⟩ := ih2 (by rw [hlen, List.length_drop]; omega)
            refine ⟨s', ?_⟩
            have e : limit - out.length = (k+1) + (limit - (out.length + (k+1))) := by omega
            rw [hs, hlen, List.append_assoc]
            conv => rhs; rw [e, List.take_add]

end Sucds.Io
