import Sucds.Proofs.BitVectorChunks
set_option linter.unusedSimpArgs false
set_option linter.unusedVariables false
namespace Sucds
namespace BV

/-! ### set_bits -/
theorem setBits_rej (b : BV) (pos bits len : Nat) (h : ¬ (len ≤ 64 ∧ pos + len ≤ b.len)) :
    b.setBits pos bits len = .ok (b, false) := by
  unfold setBits
  by_cases h1 : 64 < len
  · simp [h1]
  · have : b.len < len ∨ b.len - len < pos := by omega
    simp [h1, this]

/-- what a chunk write does to every bit, as a function of the new word array -/
theorem setBits_ok (b : BV) (h : b.Inv) (pos bits len : Nat) (hl : len ≤ 64) (hr : pos + len ≤ b.len) :
    ∃ b', b.setBits pos bits len = .ok (b', true) ∧ b'.Inv ∧ b'.len = b.len ∧
      ∀ i, b'.bitAt i = if pos ≤ i ∧ i < pos + len then bits.testBit (i - pos) else b.bitAt i := by
  have hsz := h.size
  unfold setBits
  have hg1 : ¬ 64 < len := by omega
  have hg2 : ¬ (b.len < len ∨ b.len - len < pos) := by omega
  simp only [hg1, hg2, if_false]
  by_cases h0 : len = 0
  · subst h0
    refine ⟨b, by simp, h, rfl, ?_⟩
    intro i
    have : ¬ (pos ≤ i ∧ i < pos + 0) := by omega
    rw [if_neg this]
  · simp only [h0, if_false]
    have hblt := and_mask_lt bits len hl
    have hp64 : pos % 64 < 64 := Nat.mod_lt _ (by decide)
    rw [idx_ok _ _ (by omega)]
    simp only [Except.bind]
    by_cases h2 : 64 - pos % 64 < len
    · -- the chunk spills into the next word
      simp only [h2, if_true]
      have hsz2 : pos / 64 + 1 < b.words.size := by omega
      rw [idx_ok _ _ (by rw [Array.size_set!]; exact hsz2)]
      simp only [Except.bind]
      have hw1 : wordAt (b.words.set! (pos / 64) (wr0 (wordAt b.words (pos / 64)) (bits &&& mask len) len (pos % 64))) (pos / 64 + 1)
          = wordAt b.words (pos / 64 + 1) := by
        rw [wordAt_set!]; simp
      rw [hw1]
      have hbit : ∀ i, BV.bitAt ⟨(b.words.set! (pos / 64) (wr0 (wordAt b.words (pos / 64)) (bits &&& mask len) len (pos % 64))).set!
            (pos / 64 + 1) (wr1 (wordAt b.words (pos / 64 + 1)) (bits &&& mask len) len (64 - pos % 64)), b.len⟩ i
          = if pos ≤ i ∧ i < pos + len then bits.testBit (i - pos) else b.bitAt i := by
        intro i
        simp only [bitAt, wordAt_set!, Array.size_set!]
        by_cases hc1 : i / 64 = pos / 64 + 1
        · have e1 : pos / 64 + 1 = i / 64 ∧ i / 64 < b.words.size := by omega
          simp only [e1, and_self, if_true]
          rw [wr1_testBit _ _ _ _ _ hblt hl (by omega) (h.lt _), and_mask_testBit _ _ _ hl]
          by_cases hin : i % 64 < len - (64 - pos % 64)
          · have : pos ≤ i ∧ i < pos + len := by omega
            have e2 : i % 64 + (64 - pos % 64) = i - pos := by omega
            have e3 : i - pos < len := by omega
            simp [hin, this, e2, e3]
          · have : ¬ (pos ≤ i ∧ i < pos + len) := by omega
            simp [hin, this, hc1]
        · have e1 : ¬ (pos / 64 + 1 = i / 64 ∧ i / 64 < b.words.size) := by omega
          simp only [e1, if_false]
          by_cases hc0 : i / 64 = pos / 64
          · have e0 : pos / 64 = i / 64 ∧ i / 64 < b.words.size := by omega
            simp only [e0, and_self, if_true]
            rw [hc0, wr0_testBit _ _ _ _ _ hblt hl (Nat.mod_lt _ (by decide)), and_mask_testBit _ _ _ hl]
            by_cases hin : pos % 64 ≤ i % 64 ∧ i % 64 < pos % 64 + len
            · have : pos ≤ i ∧ i < pos + len := by omega
              have e2 : i % 64 - pos % 64 = i - pos := by omega
              have e3 : i - pos < len := by omega
              simp [hin, this, e2, e3]
            · have : ¬ (pos ≤ i ∧ i < pos + len) := by omega
              simp [hin, this]
          · have e0 : ¬ (pos / 64 = i / 64 ∧ i / 64 < b.words.size) := by omega
            have : ¬ (pos ≤ i ∧ i < pos + len) := by omega
            simp [e0, this]
      refine ⟨_, rfl, ⟨?_, ?_, ?_⟩, rfl, hbit⟩
      · simp [Array.size_set!, hsz]
      · intro i
        simp only [wordAt_set!, Array.size_set!]
        split
        · exact wr1_lt _ _ _ _ (h.lt _) hblt hl
        · split
          · exact wr0_lt _ _ _ _ (h.lt _)
          · exact h.lt i
      · intro i hi
        have hi' : b.len ≤ i := hi
        rw [hbit i]
        have : ¬ (pos ≤ i ∧ i < pos + len) := by omega
        simp only [this, if_false]
        exact h.pad i hi'
    · simp only [h2, if_false]
      have hbit : ∀ i, BV.bitAt ⟨b.words.set! (pos / 64) (wr0 (wordAt b.words (pos / 64)) (bits &&& mask len) len (pos % 64)), b.len⟩ i
          = if pos ≤ i ∧ i < pos + len then bits.testBit (i - pos) else b.bitAt i := by
        intro i
        simp only [bitAt, wordAt_set!]
        by_cases hc0 : i / 64 = pos / 64
        · by_cases hin2 : i / 64 < b.words.size
          · have e0 : pos / 64 = i / 64 ∧ i / 64 < b.words.size := by omega
            simp only [e0, and_self, if_true]
            rw [hc0, wr0_testBit _ _ _ _ _ hblt hl (Nat.mod_lt _ (by decide)), and_mask_testBit _ _ _ hl]
            by_cases hin : pos % 64 ≤ i % 64 ∧ i % 64 < pos % 64 + len
            · have : pos ≤ i ∧ i < pos + len := by omega
              have e2 : i % 64 - pos % 64 = i - pos := by omega
              have e3 : i - pos < len := by omega
              simp [hin, this, e2, e3]
            · have : ¬ (pos ≤ i ∧ i < pos + len) := by omega
              simp [hin, this]
          · omega
        · have e0 : ¬ (pos / 64 = i / 64 ∧ i / 64 < b.words.size) := by omega
          have : ¬ (pos ≤ i ∧ i < pos + len) := by omega
          simp [e0, this]
      refine ⟨_, rfl, ⟨?_, ?_, ?_⟩, rfl, hbit⟩
      · simp [Array.size_set!, hsz]
      · intro i
        simp only [wordAt_set!]
        split
        · exact wr0_lt _ _ _ _ (h.lt _)
        · exact h.lt i
      · intro i hi
        have hi' : b.len ≤ i := hi
        rw [hbit i]
        have : ¬ (pos ≤ i ∧ i < pos + len) := by omega
        simp only [this, if_false]
        exact h.pad i hi'

end BV
end Sucds
