import Sucds.Proofs.BitVectorSelect
/-! `select0` of the linear-scan bit vector, and the word-level vocabulary shared by the scans over the
    complemented words (`f = wnot`) and the plain words (`f = id`). -/
set_option linter.unusedSimpArgs false
set_option linter.unusedVariables false
namespace Sucds
open Spec

namespace ScanB

/-! ### bits of the word operations used by the scans -/

theorem wnot_lt (w : Nat) : wnot w < 2^64 := by
  unfold wnot; omega

theorem wnot_testBit (w j : Nat) (hw : w < 2^64) (hj : j < 64) : (wnot w).testBit j = !w.testBit j := by
  unfold wnot
  rw [Nat.mod_eq_of_lt hw, show 2^64 - 1 - w = 2^64 - (w + 1) by omega, Nat.testBit_two_pow_sub_succ hw]
  simp [hj]

/-- the bit at position `i` of the vector whose words are `f` applied to the stored words -/
def fbit (f : Nat → Nat) (b : BV) (i : Nat) : Bool := (f (wordAt b.words (i / 64))).testBit (i % 64)

theorem fbit_id (b : BV) : fbit id b = b.bitAt := rfl

theorem fbit_wnot (b : BV) (h : b.Inv) : fbit wnot b = fun i => !b.bitAt i := by
  funext i
  unfold fbit
  rw [wnot_testBit _ _ (h.lt _) (Nat.mod_lt _ (by decide))]
  rfl

theorem fbit_word (f : Nat → Nat) (b : BV) (w j : Nat) (hj : j < 64) :
    (f (wordAt b.words w)).testBit j = fbit f b (64 * w + j) := by
  unfold fbit
  rw [show (64 * w + j) / 64 = w by omega, show (64 * w + j) % 64 = j by omega]

/-- a word `v` whose bits are `S (base + j)`: its popcount -/
theorem pop_word (c : Cfg) (S : Nat → Bool) (base v : Nat) (hv : v < 2^64)
    (hb : ∀ j, j < 64 → v.testBit j = S (base + j)) :
    popcountN c v = cnt (fun j => S (base + j)) 64 := by
  rw [popcountN_eq c v hv]
  exact cnt_congr _ _ 64 hb

theorem cnt_word (c : Cfg) (S : Nat → Bool) (w v : Nat) (hv : v < 2^64)
    (hb : ∀ j, j < 64 → v.testBit j = S (64 * w + j)) :
    cnt S (64 * (w + 1)) = cnt S (64 * w) + popcountN c v := by
  rw [show 64 * (w + 1) = 64 * w + 64 by omega, cnt_add, pop_word c S (64 * w) v hv hb]

/-- selection inside a word `v` whose bits are `S (64 * w + j)`: the `k`-th `S`-position overall -/
theorem sel_word (c : Cfg) (S : Nat → Bool) (w v k : Nat) (hv : v < 2^64)
    (hb : ∀ j, j < 64 → v.testBit j = S (64 * w + j))
    (hlo : cnt S (64 * w) ≤ k) (hhi : k < cnt S (64 * w) + popcountN c v) :
    ∃ p, selectInWordN c v (k - cnt S (64 * w)) = some p ∧ p < 64 ∧ S (64 * w + p) = true ∧ cnt S (64 * w + p) = k := by
  rw [selectInWordN_eq c _ _ hv]
  have hword : cnt (fun i => v.testBit i) 64 = popcountN c v := (popcountN_eq c _ hv).symm
  cases hs : sel (fun i => v.testBit i) 64 (k - cnt S (64 * w)) with
  | none =>
    have := sel_none_le _ _ _ hs
    rw [hword] at this; omega
  | some p =>
    obtain ⟨hp1, hp2, hp3⟩ := sel_isKth _ _ _ _ hs
    refine ⟨p, rfl, hp1, ?_, ?_⟩
    · rw [← hb p hp1]; exact hp2
    · rw [cnt_add, cnt_congr (fun i => S (64 * w + i)) (fun i => v.testBit i) p (fun i hi => (hb i (by omega)).symm), hp3]
      omega

/-- the `k`-th position of `S` overall, cut at `n` -/
theorem sel_of_kth (S : Nat → Bool) (n k q : Nat) (hq : S q = true) (hc : cnt S q = k) :
    sel S n k = if q < n then some q else none := by
  by_cases h : q < n
  · rw [if_pos h]; exact sel_eq_some S n k q ⟨h, hq, hc⟩
  · rw [if_neg h]; exact sel_eq_none S n k (by rw [← hc]; exact cnt_mono S (by omega))

end ScanB

namespace BV
open ScanB

/-- the select loop over the words mapped by `f` stops at the first word whose cumulative count exceeds `k` -/
theorem selLoop_spec (c : Cfg) (f : Nat → Nat) (b : BV) (hf : ∀ i, f (wordAt b.words i) < 2^64) (k : Nat) :
    ∀ (fuel wpos : Nat),
    cnt (fbit f b) (64 * wpos) ≤ k → b.words.size ≤ wpos + fuel → wpos ≤ b.words.size →
    let r := selLoop c f b.words k wpos (cnt (fbit f b) (64 * wpos)) fuel
    r.2 = cnt (fbit f b) (64 * r.1) ∧ cnt (fbit f b) (64 * r.1) ≤ k ∧ r.1 ≤ b.words.size ∧
      (r.1 < b.words.size → k < cnt (fbit f b) (64 * r.1) + popcountN c (f (wordAt b.words r.1))) := by
  intro fuel
  induction fuel with
  | zero =>
    intro wpos h1 h2 h3
    have : wpos = b.words.size := by omega
    simp only [selLoop]
    exact ⟨trivial, h1, h3, fun h => by omega⟩
  | succ fuel ih =>
    intro wpos h1 h2 h3
    simp only [selLoop]
    by_cases hlt : wpos < b.words.size
    · simp only [hlt, if_true]
      by_cases hk : k < cnt (fbit f b) (64 * wpos) + popcountN c (f (wordAt b.words wpos))
      · rw [if_pos hk]
        exact ⟨rfl, h1, h3, fun _ => hk⟩
      · rw [if_neg hk]
        have hstep := cnt_word c (fbit f b) wpos _ (hf wpos) (fun j hj => fbit_word f b wpos j hj)
        have := ih (wpos + 1) (by omega) (by omega) (by omega)
        rw [hstep] at this
        exact this
    · simp only [hlt, if_false]
      exact ⟨trivial, h1, h3, fun h => h.elim⟩

/-- **select0** (linear scan): the position of the k-th unset bit, `none` iff there are at most `k` -/
theorem select0_ok (c : Cfg) (b : BV) (h : b.Inv) (k : Nat) :
    b.select0 c k = .ok (sel (fun i => !b.bitAt i) b.len k) := by
  have hsz := h.size
  have hf : ∀ i, wnot (wordAt b.words i) < 2^64 := fun i => wnot_lt _
  unfold select0
  obtain ⟨r2, rle, rsz, rnext⟩ := selLoop_spec c wnot b hf k b.words.size 0 (Nat.zero_le _) (by omega) (Nat.zero_le _)
  simp only [Nat.mul_zero, cnt] at r2 rle rsz rnext
  rw [← fbit_wnot b h]
  cases hr : selLoop c wnot b.words k 0 0 b.words.size with
  | mk wpos cur =>
    rw [hr] at r2 rle rsz rnext
    simp only at r2 rle rsz rnext
    simp only []
    by_cases hend : wpos = b.words.size
    · rw [if_pos hend]
      rw [sel_eq_none]
      exact Nat.le_trans (cnt_mono _ (by omega)) rle
    · rw [if_neg hend]
      have hlt : wpos < b.words.size := by omega
      obtain ⟨p, hp, hp64, hS, hcnt⟩ := sel_word c (fbit wnot b) wpos _ k (hf wpos)
        (fun j hj => fbit_word wnot b wpos j hj) rle (rnext hlt)
      rw [r2, hp]
      simp only []
      rw [sel_of_kth (fbit wnot b) b.len k (64 * wpos + p) hS hcnt, Nat.mul_comm]

end BV
end Sucds
