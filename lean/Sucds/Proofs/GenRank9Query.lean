import Sucds.Gen.Fns
import Sucds.Proofs.GenBroadword
import Sucds.Proofs.GenBitVectorRW
import Sucds.Proofs.Rank9Full
import Sucds.Props.C01
/-! # The query functions of `Rank9SelIndex` generated from `src/bit_vectors/rank9sel/inner.rs` agree with the model

`Sucds.GenFn.Rank9SelIndex.{num_ones, num_zeros, num_blocks, block_rank, block_rank0, sub_block_ranks,
sub_block_rank, rank1, rank0, select1, select0}` (generated, checked arithmetic everywhere, the binary search a
`RS.whileLoop` with fuel `2^64`) versus `Sucds.R9Index.*` (hand-written model, unbounded `Nat` in places, the
binary search a structural recursion with fuel `num_blocks + 1`), and hence with the specification theorems
proved about the model (`Props/C01.lean`). -/
set_option linter.unusedSimpArgs false
set_option linter.unusedVariables false
namespace Sucds.GenEq
open Sucds Sucds.Spec Sucds.R9Index

/-! ## `while` loops: enough fuel is as good as any -/

/-- **Fuel irrelevance.** If an invariant `I` is preserved by the loop body and a measure `μ` strictly decreases
    with every iteration, `RS.whileFuel` gives the same result for every fuel above the measure of the initial
    state: with enough fuel the loop *is* the structural recursion on `μ s + 1`. -/
theorem whileFuel_irrel {σ : Type} (cond : σ → R Bool) (body : σ → R σ) (μ : σ → Nat) (I : σ → Prop)
    (hstep : ∀ s s', I s → cond s = .ok true → body s = .ok s' → I s' ∧ μ s' < μ s) :
    ∀ (n m : Nat) (s : σ), I s → μ s < n → μ s < m → RS.whileFuel cond body n s = RS.whileFuel cond body m s := by
  intro n
  induction n with
  | zero => intro m s _ h; omega
  | succ n ih =>
    intro m s hI hn hm
    cases m with
    | zero => omega
    | succ m =>
      unfold RS.whileFuel
      cases hc : cond s with
      | error e => rfl
      | ok b =>
        rw [bok, bok]
        cases b with
        | false => rfl
        | true =>
          simp only [if_true]
          cases hb : body s with
          | error e => rfl
          | ok s' =>
            rw [bok, bok]
            obtain ⟨hI', hμ⟩ := hstep s s' hI hc hb
            exact ih m s' hI' (by omega) (by omega)

/-- the translated `while` (fuel `2^64`) equals the structural recursion on the measure -/
theorem whileLoop_eq_measure {σ : Type} (cond : σ → R Bool) (body : σ → R σ) (μ : σ → Nat) (I : σ → Prop)
    (hstep : ∀ s s', I s → cond s = .ok true → body s = .ok s' → I s' ∧ μ s' < μ s)
    (init : σ) (hI : I init) (hμ : μ init < 2^64) :
    RS.whileLoop init cond body = RS.whileFuel cond body (μ init + 1) init := by
  unfold RS.whileLoop
  exact whileFuel_irrel cond body μ I hstep _ _ init hI (by unfold RS.FUEL; omega) (by omega)

theorem map_bind {ε α β γ : Type} (m : Except ε α) (f : α → β) (g : β → Except ε γ) :
    (m.map f).bind g = m.bind fun a => g (f a) := by
  cases m <;> rfl

/-- **The binary search of `select1`/`select0`.** The `while b - a > 1` loop of the generated code (any fuel
    above `b - a`), run on a window `a ≤ b ≤ B < 2^64` with a rank function `rk'` that agrees with the model's
    `rk` below `B`, computes the model's `searchBlock` (any fuel `≥ b - a`). -/
theorem search_gen (c : Cfg) (rk rk' : Nat → R Nat) (k B : Nat) (hB : B < 2^64) (hrk : ∀ t, t < B → rk' t = rk t) :
    ∀ (fuel n a b : Nat), a ≤ b → b ≤ B → b - a ≤ fuel → fuel < n →
      (RS.whileFuel (fun st : Nat × Nat => (csub c st.2 st.1).bind fun t6 => .ok (decide (t6 > 1)))
        (fun st1 : Nat × Nat =>
          (csub c st1.2 st1.1).bind fun t7 =>
          (cadd c st1.1 (t7 / 2)).bind fun mid =>
          (rk' mid).bind fun x =>
          (if x ≤ k then .ok (mid, st1.2) else .ok (st1.1, mid) : R (Nat × Nat)).bind fun j1 => .ok (j1.1, j1.2))
        n (a, b)).map Prod.fst = searchBlock rk k a b fuel := by
  intro fuel
  induction fuel with
  | zero =>
    intro n a b hab _ hf hn
    have : b = a := by omega
    subst this
    cases n with
    | zero => omega
    | succ n =>
      unfold RS.whileFuel searchBlock
      simp only []
      rw [csub_ok c (Nat.le_refl _), bok, bok]
      simp
      rfl
  | succ fuel ih =>
    intro n a b hab hbB hf hn
    cases n with
    | zero => omega
    | succ n =>
      unfold RS.whileFuel searchBlock
      simp only []
      rw [csub_ok c hab, bok, bok]
      by_cases hgap : b - a > 1
      · rw [if_pos hgap]
        simp only [hgap, decide_true, if_true]
        rw [bok, cadd_ok c (by omega), bok, hrk _ (by omega)]
        cases hr : rk (a + (b - a) / 2) with
        | error e => rfl
        | ok v =>
          rw [bok, bok]
          by_cases hv : v ≤ k
          · rw [if_pos hv, if_pos hv, bok, bok]
            exact ih n _ _ (by omega) hbB (by omega) (by omega)
          · rw [if_neg hv, if_neg hv, bok, bok]
            exact ih n _ _ (by omega) (by omega) (by omega) (by omega)
      · rw [if_neg hgap]
        simp only [hgap, decide_false]
        rfl

/-! ## The directory accessors -/

theorem r9_num_blocks_eq (c : Cfg) (x : R9Index) (h : 2 ≤ x.pairs.size) :
    GenFn.Rank9SelIndex.num_blocks c x = .ok x.numBlocks := by
  unfold GenFn.Rank9SelIndex.num_blocks numBlocks
  rw [csub_ok c (by omega)]

theorem r9_num_ones_eq (c : Cfg) (x : R9Index) (h : 2 ≤ x.pairs.size) :
    GenFn.Rank9SelIndex.num_ones c x = x.numOnes := by
  unfold GenFn.Rank9SelIndex.num_ones numOnes
  rw [csub_ok c h, bok, index_eq]

theorem r9_num_zeros_eq (c : Cfg) (x : R9Index) (h : 2 ≤ x.pairs.size) :
    GenFn.Rank9SelIndex.num_zeros c x = x.numZeros c := by
  unfold GenFn.Rank9SelIndex.num_zeros numZeros
  rw [r9_num_ones_eq c x h]

theorem r9_block_rank_eq (c : Cfg) (x : R9Index) (t : Nat) (h : t * 2 < 2^64) :
    GenFn.Rank9SelIndex.block_rank c x t = x.blockRank t := by
  unfold GenFn.Rank9SelIndex.block_rank blockRank
  rw [cmul_ok c h, bok, index_eq]

theorem r9_sub_block_ranks_eq (c : Cfg) (x : R9Index) (t : Nat) (h : t * 2 + 1 < 2^64) :
    GenFn.Rank9SelIndex.sub_block_ranks c x t = x.subBlockRanks t := by
  unfold GenFn.Rank9SelIndex.sub_block_ranks subBlockRanks
  rw [cmul_ok c (by omega), bok, cadd_ok c h, bok, index_eq]

theorem r9_block_rank0_eq (c : Cfg) (x : R9Index) (t : Nat) (h : t * 8 * 64 < 2^64) :
    GenFn.Rank9SelIndex.block_rank0 c x t = x.blockRank0 c t := by
  unfold GenFn.Rank9SelIndex.block_rank0 blockRank0
  rw [cmul_ok c (show t * GenFn.rank9sel_inner.BLOCK_LEN < 2^64 by show t * 8 < 2^64; omega), bok,
    cmul_ok c (show t * GenFn.rank9sel_inner.BLOCK_LEN * 64 < 2^64 from h), bok, r9_block_rank_eq c x t (by omega)]
  rfl

/-- `sub_block_rank`: the only arithmetic that can overflow is the final addition; it does not as soon as the
    model's (unbounded) value is a `usize` -/
theorem r9_sub_block_rank_eq (c : Cfg) (x : R9Index) (sb : Nat) (hsb : sb < 2^64)
    (hv : ∀ v, x.subBlockRank sb = .ok v → v < 2^64) :
    GenFn.Rank9SelIndex.sub_block_rank c x sb = x.subBlockRank sb := by
  unfold GenFn.Rank9SelIndex.sub_block_rank
  unfold subBlockRank at hv ⊢
  simp only [hB] at hv ⊢
  show (GenFn.Rank9SelIndex.block_rank c x (sb / 8)).bind _ = _
  rw [r9_block_rank_eq c x (sb / 8) (by omega)]
  cases hb : x.blockRank (sb / 8) with
  | error e => rfl
  | ok br =>
    rw [bok, bok]
    show (GenFn.Rank9SelIndex.sub_block_ranks c x (sb / 8)).bind _ = _
    rw [r9_sub_block_ranks_eq c x (sb / 8) (by omega)]
    cases hs : x.subBlockRanks (sb / 8) with
    | error e => rfl
    | ok sr =>
      rw [bok, bok]
      rw [hb, hs] at hv
      have hlt := hv _ rfl
      have hm : sb % 8 ≤ 7 := by omega
      show (csub c 7 (sb % 8)).bind _ = _
      rw [csub_ok c hm, bok, cmul_ok c (by omega), bok, cshr_ok c (by omega), bok]
      exact cadd_ok c hlt

/-! ## `rank1`, `rank0` -/

/-- **rank1**: the generated function agrees with the model on an index whose directory is the one of
    `build_rank` — for every position that is a `usize`; no bound on the length of the vector is needed (every
    intermediate value is at most `pos`). -/
theorem r9_rank1_eq (c : Cfg) (bv : BV) (h : bv.Inv) (x : R9Index) (hx : x.pairs = (buildRank c bv).pairs)
    (pos : Nat) (hpos : pos < 2^64) :
    GenFn.Rank9SelIndex.rank1 c x bv pos = x.rank1 c bv pos := by
  have hsz := h.size
  have hps := pairs_size c bv h
  have h2 : 2 ≤ x.pairs.size := by rw [hx, hps]; omega
  have esb : ∀ t, x.subBlockRank t = (buildRank c bv).subBlockRank t := fun t => by
    unfold subBlockRank blockRank subBlockRanks; rw [hx]
  unfold GenFn.Rank9SelIndex.rank1 rank1
  simp only [words_eq]
  by_cases h1 : bv.len < pos
  · rw [if_pos (show GenFn.BitVector.num_bits bv < pos from h1), if_pos h1]
  · rw [if_neg (show ¬ GenFn.BitVector.num_bits bv < pos from h1), if_neg h1]
    by_cases h2' : pos = bv.len
    · rw [if_pos (show pos = GenFn.BitVector.num_bits bv from h2'), if_pos h2', r9_num_ones_eq c x h2]
    · rw [if_neg (show ¬ pos = GenFn.BitVector.num_bits bv from h2'), if_neg h2']
      have hw : pos / 64 < bv.words.size := by omega
      have hsub := subBlockRank_ok c bv h (pos / 64) hw
      have hpp := prefixPop_le64 c bv.words h.lt (pos / 64)
      rw [r9_sub_block_rank_eq c x (pos / 64) (by omega) (fun v hv => by rw [esb, hsub] at hv; cases hv; omega)]
      rw [esb, hsub, bok, bok]
      by_cases h3 : pos % 64 ≠ 0
      · rw [if_pos h3, if_pos h3, index_eq, idx_ok _ _ hw, bok, bok, csub_ok c (by omega), bok,
          cshl_ok c (by omega), bok, popcount_spec c _ (Nat.mod_lt _ (by decide)), bok]
        have hps := popcount_shifted c (wordAt bv.words (pos / 64)) (pos % 64) (by omega) (by omega)
        have hc := cnt_le (fun j => (wordAt bv.words (pos / 64)).testBit j) (pos % 64)
        rw [cadd_ok c (by omega), bok]
      · rw [if_neg h3, if_neg h3, bok]

/-- **rank0** -/
theorem r9_rank0_eq (c : Cfg) (bv : BV) (h : bv.Inv) (x : R9Index) (hx : x.pairs = (buildRank c bv).pairs)
    (pos : Nat) (hpos : pos < 2^64) :
    GenFn.Rank9SelIndex.rank0 c x bv pos = x.rank0 c bv pos := by
  unfold GenFn.Rank9SelIndex.rank0 rank0
  rw [r9_rank1_eq c bv h x hx pos hpos]
  refine bind_congr _ _ _ (fun r => ?_)
  cases r <;> rfl

/-! ## pieces of `select1` / `select0` -/

theorem map_eq_ok {ε α β : Type} (m : Except ε α) (f : α → β) (v : β) (h : m.map f = .ok v) :
    ∃ s, m = .ok s ∧ f s = v := by
  cases m with
  | error e => cases h
  | ok s => exact ⟨s, rfl, by injection h⟩

theorem bind_eq_of {ε α β : Type} {m : Except ε α} {f : α → Except ε β} {r : Except ε β} (v : α)
    (hm : m = .ok v) (hf : f v = r) : m.bind f = r := by
  subst hm; exact hf

/-- the translated binary search finds the block the model's search finds -/
theorem search_gen_ok (c : Cfg) (rk rk' : Nat → R Nat) (k B : Nat) (hB : B < 2^64) (hrk : ∀ t, t < B → rk' t = rk t)
    (fuel a b blk : Nat) (hab : a ≤ b) (hbB : b ≤ B) (hf : b - a ≤ fuel) (hfn : fuel < 2^64)
    (hs : searchBlock rk k a b fuel = .ok blk) :
    ∃ b', RS.whileLoop (a, b) (fun st : Nat × Nat => (csub c st.2 st.1).bind fun t6 => .ok (decide (t6 > 1)))
        (fun st1 : Nat × Nat =>
          (csub c st1.2 st1.1).bind fun t7 =>
          (cadd c st1.1 (t7 / 2)).bind fun mid =>
          (rk' mid).bind fun x =>
          (if x ≤ k then .ok (mid, st1.2) else .ok (st1.1, mid) : R (Nat × Nat)).bind fun j1 => .ok (j1.1, j1.2))
      = .ok (blk, b') := by
  have := search_gen c rk rk' k B hB hrk fuel RS.FUEL a b hab hbB hf (by unfold RS.FUEL; omega)
  rw [hs] at this
  obtain ⟨s, e, hfst⟩ := map_eq_ok _ _ _ this
  refine ⟨s.2, ?_⟩
  unfold RS.whileLoop
  rw [e, ← hfst]

/-- the hint window of the generated code is the model's, when the latter's end is a `usize` -/
theorem window_some_gen (c : Cfg) (hs : Array Nat) (per k a b : Nat) (hb : b < 2^64)
    (hw : ((if k / per ≠ 0 then idx hs (k / per - 1) else .ok 0).bind fun a =>
      (idx hs (k / per)).bind fun hb => .ok (a, hb + 1) : R (Nat × Nat)) = .ok (a, b)) :
    ((if k / per ≠ 0 then (csub c (k / per) 1).bind fun t2 => RS.index hs t2 else .ok 0 : R Nat).bind fun a =>
      (RS.index hs (k / per)).bind fun t4 => (cadd c t4 1).bind fun t5 => .ok (a, t5) : R (Nat × Nat)) = .ok (a, b) := by
  have e1 : (if k / per ≠ 0 then (csub c (k / per) 1).bind fun t2 => RS.index hs t2 else .ok 0 : R Nat)
      = (if k / per ≠ 0 then idx hs (k / per - 1) else .ok 0) := by
    by_cases h0 : k / per ≠ 0
    · rw [if_pos h0, if_pos h0, csub_ok c (Nat.pos_of_ne_zero h0), bok, index_eq]
    · rw [if_neg h0, if_neg h0]
  rw [e1, index_eq]
  cases h1 : (if k / per ≠ 0 then idx hs (k / per - 1) else .ok 0 : R Nat) with
  | error e => rw [h1, berr] at hw; cases hw
  | ok a' =>
    rw [h1, bok] at hw
    rw [bok]
    cases h2 : idx hs (k / per) with
    | error e => rw [h2, berr] at hw; cases hw
    | ok v =>
      rw [h2, bok] at hw
      injection hw with hw
      injection hw with ha hbv
      subst ha; subst hbv
      rw [bok, cadd_ok c hb, bok]

/-- the in-block step of the generated code, from the model's `inBlock` -/
theorem gen_inBlock (c : Cfg) (sr r off val : Nat) (hsr : sr < 2^64) (hr : r < 512)
    (h : inBlock c sr r = .ok (off, val)) :
    ∃ u, GenFn.broadword.uleq_step_9 c sr (r * GenFn.broadword.ONES_STEP_9) = .ok u ∧
      ((RS.wrappingMul u GenFn.broadword.ONES_STEP_9) >>> 54) &&& 7 = off ∧ off ≤ 7 ∧
      (sr >>> ((7 - off) * 9)) &&& 511 = val := by
  have hones : Gen.ONES_STEP_9 = 18049651735527937 := rfl
  unfold inBlock at h
  rw [cmul_ok c (by rw [hones]; omega), bok] at h
  have hg := uleq_step_9_eq c (BitVec.ofNat 64 sr) (BitVec.ofNat 64 (r * Gen.ONES_STEP_9))
  rw [toNat_ofNat_lt sr hsr, toNat_ofNat_lt _ (by rw [hones]; omega)] at hg
  cases hu : Broadword.uleqStep9 c (BitVec.ofNat 64 sr) (BitVec.ofNat 64 (r * Gen.ONES_STEP_9)) with
  | error e => rw [hu, berr] at h; cases h
  | ok u =>
    rw [hu, bok] at h
    rw [hu, map_ok] at hg
    injection h with h
    injection h with h1 h2
    have hoff : ((RS.wrappingMul u.toNat GenFn.broadword.ONES_STEP_9) >>> 54) &&& 7 = off := by
      rw [← h1, BitVec.toNat_and, BitVec.toNat_ushiftRight, toNat_mul64, ones9_toNat]
      rfl
    have hoff7 : off ≤ 7 := by rw [← hoff]; exact Nat.and_le_right
    refine ⟨u.toNat, hg, hoff, hoff7, ?_⟩
    rw [h1] at h2
    rw [← h2, show (7 - off) * 9 % 64 = (7 - off) * 9 by omega]

/-! ## `select1` -/

/-- **select1 of the generated code, from any valid window** (the statement of `R9Index.select1_window_ok` for the
    generated function): no panic, no fuel exhaustion, the position of the `k`-th set bit. -/
theorem select1_gen_ok (c : Cfg) (bv : BV) (h : bv.Inv) (hl : bv.len < 2^64) (k : Nat) (hk64 : k < 2^64) (x : R9Index)
    (hx : x.pairs = (buildRank c bv).pairs)
    (hwin : k < prefixPop c bv.words bv.words.size → ∃ a b, window1 x k = .ok (a, b) ∧ a < b ∧
      b ≤ (buildRank c bv).numBlocks + 1 ∧ prefixPop c bv.words (8 * a) ≤ k ∧ k < prefixPop c bv.words (8 * b)) :
    GenFn.Rank9SelIndex.select1 c x bv k = .ok (sel bv.bitAt bv.len k) := by
  have hsz := h.size
  have hnb := numBlocks_eq c bv h
  have hps := pairs_size c bv h
  have h2 : 2 ≤ x.pairs.size := by rw [hx, hps]; omega
  have e1 : x.numOnes = (buildRank c bv).numOnes := by unfold numOnes; rw [hx]
  have e2 : x.numBlocks = (buildRank c bv).numBlocks := by unfold numBlocks; rw [hx]
  have e3 : ∀ t, x.blockRank t = (buildRank c bv).blockRank t := fun t => by unfold blockRank; rw [hx]
  have e4 : ∀ t, x.subBlockRanks t = (buildRank c bv).subBlockRanks t := fun t => by unfold subBlockRanks; rw [hx]
  have hsdm : 8 * (bv.words.size / 8) + bv.words.size % 8 = bv.words.size := Nat.div_add_mod _ 8
  have htot : cnt bv.bitAt (64 * bv.words.size) = cnt bv.bitAt bv.len := by
    have hsplit := cnt_add bv.bitAt bv.len (64 * bv.words.size - bv.len)
    rw [show bv.len + (64 * bv.words.size - bv.len) = 64 * bv.words.size by omega] at hsplit
    rw [hsplit, C14.cnt_zero_of_false _ _ (fun i _ => h.pad (bv.len + i) (by omega))]; omega
  have hnbB : (buildRank c bv).numBlocks + 1 < 2^60 := by rw [hnb]; split <;> omega
  unfold GenFn.Rank9SelIndex.select1
  simp only [words_eq]
  rw [r9_num_ones_eq c x h2, e1, numOnes_ok c bv h, bok]
  by_cases hk : prefixPop c bv.words bv.words.size ≤ k
  · rw [if_pos hk, sel_eq_none]
    rw [← htot, ← prefixPop_eq c bv h]; exact hk
  · rw [if_neg hk]
    obtain ⟨a, b, hw, hab, hbn, hloa, hhib⟩ := hwin (by omega)
    rw [r9_num_blocks_eq c x h2, bok, e2]
    obtain ⟨blk, hs, _, hb2', hlo, hhi'⟩ := searchBlock_ok c bv h k ((buildRank c bv).numBlocks + 1) a b hab hbn
      (by omega) hloa hhib
    have hhi : k < prefixPop c bv.words (8 * (blk + 1)) := hhi'
    have hb2 : blk < (buildRank c bv).numBlocks := by
      by_cases hq : blk < (buildRank c bv).numBlocks
      · exact hq
      · exfalso
        have hcov : bv.words.size ≤ 8 * (buildRank c bv).numBlocks := by rw [hnb]; split <;> omega
        have q1 := prefixPop_beyond c bv.words (8 * blk) (by omega)
        have q2 := prefixPop_beyond c bv.words (8 * (blk + 1)) (by omega)
        omega
    -- the window
    refine bind_eq_of (a, b) ?_ ?_
    · unfold window1 at hw
      generalize x.sel1 = o at hw ⊢
      cases o with
      | none =>
        simp only [] at hw ⊢
        rw [← e2]; exact hw
      | some hints =>
        simp only [] at hw ⊢
        exact window_some_gen c hints _ k a b (by omega) hw
    simp only []
    -- the binary search
    obtain ⟨b', hloop⟩ := search_gen_ok c (buildRank c bv).blockRank (GenFn.Rank9SelIndex.block_rank c x) k
      ((buildRank c bv).numBlocks + 1) (by omega) (fun t ht => by rw [r9_block_rank_eq c x t (by omega), e3])
      ((buildRank c bv).numBlocks + 1) a b blk (by omega) hbn (by omega) (by omega) hs
    rw [hloop, bok, bok]
    simp only []
    rw [dassert_ok c (by simpa using hb2), bok]
    rw [cmul_ok c (show blk * GenFn.rank9sel_inner.BLOCK_LEN < 2^64 by show blk * 8 < 2^64; omega), bok]
    rw [show blk * GenFn.rank9sel_inner.BLOCK_LEN = blk * 8 from rfl]
    rw [r9_block_rank_eq c x blk (by omega), e3, blockRank_ok c bv h blk (by omega), bok]
    rw [dassert_ok c (by simpa using hlo), bok]
    rw [csub_ok c hlo, bok]
    -- the in-block step
    have hblk8 : prefixPop c bv.words (8 * (blk + 1)) ≤ prefixPop c bv.words (8 * blk) + 512 := by
      have := prefixPop_le c bv.words h.lt (8 * blk) 8
      rw [show 8 * (blk + 1) = 8 * blk + 8 by omega]; omega
    have hr : k - prefixPop c bv.words (8 * blk) < 512 := by omega
    rw [cmul_ok c (show (k - prefixPop c bv.words (8 * blk)) * GenFn.broadword.ONES_STEP_9 < 2^64 by
      show _ * 18049651735527937 < 2^64; omega), bok]
    rw [r9_sub_block_ranks_eq c x blk (by omega), e4, subBlockRanks_ok c bv h blk hb2, bok]
    have hpk : packTo (inBlk c bv.words blk) 7 = packTo (fun j => if j ≤ 7 then inBlk c bv.words blk j else 0) 7 :=
      packTo_congr _ _ 7 (fun j _ h2 => by simp [h2])
    have he : ∀ j, (fun j => if j ≤ 7 then inBlk c bv.words blk j else 0) j < 512 := fun j => by
      by_cases hj : j ≤ 7
      · simp only [hj, if_true]; exact inBlk_lt' c bv h _ _ hj
      · simp [hj]
    obtain ⟨off, hoff, hin, hle, hlt⟩ := inBlock_ok c (fun j => if j ≤ 7 then inBlk c bv.words blk j else 0) he
      (fun i j hi hij hj => by
        have hi7 : i ≤ 7 := by omega
        simp only [hi7, hj, if_true]
        unfold inBlk
        have := prefixPop_mono c bv.words (show 8 * blk + i ≤ 8 * blk + j by omega)
        omega)
      (k - prefixPop c bv.words (8 * blk)) hr
    have hsr := pack_lt _ he
    rw [hpk]
    obtain ⟨u, hu, hoffg, _, hvalg⟩ := gen_inBlock c _ _ off _ (by omega) hr hin
    generalize packTo (fun j => if j ≤ 7 then inBlk c bv.words blk j else 0) 7 = sr at hu hvalg hsr ⊢
    rw [hu, bok, hoffg, csub_ok c hoff, bok]
    rw [show RS.wrappingMul (7 - off) 9 = (7 - off) * 9 by unfold RS.wrappingMul; omega]
    rw [cshr_ok c (by omega), bok, hvalg]
    -- the value consumed before the chosen word is the prefix count up to it
    have hbase : prefixPop c bv.words (8 * blk) ≤ prefixPop c bv.words (8 * blk + off) :=
      prefixPop_mono c bv.words (by omega)
    have hval : prefixPop c bv.words (8 * blk) + (if off = 0 then 0 else (if off ≤ 7 then inBlk c bv.words blk off else 0))
        = prefixPop c bv.words (8 * blk + off) := by
      by_cases h0 : off = 0
      · subst h0; simp
      · simp only [h0, if_false, hoff, if_true]; unfold inBlk; omega
    have hlo' : prefixPop c bv.words (8 * blk + off) ≤ k := by
      by_cases h0 : off = 0
      · subst h0; simpa using hlo
      · have := hle (by omega)
        simp only [hoff, if_true] at this
        unfold inBlk at this; omega
    have hhi2 : k < prefixPop c bv.words (8 * blk + off + 1) := by
      by_cases h7 : off < 7
      · have := hlt h7
        have h71 : off + 1 ≤ 7 := by omega
        simp only [h71, if_true] at this
        unfold inBlk at this
        have := prefixPop_mono c bv.words (show 8 * blk ≤ 8 * blk + (off + 1) by omega)
        rw [show 8 * blk + off + 1 = 8 * blk + (off + 1) by omega]; omega
      · have : off = 7 := by omega
        subst this
        rw [show 8 * blk + 7 + 1 = 8 * (blk + 1) by omega]; exact hhi
    rw [cadd_ok c (by rw [hval]; omega), bok, hval]
    rw [dassert_ok c (by simpa using hlo'), bok]
    -- the chosen word exists
    have hwin' : blk * 8 + off < bv.words.size := by
      by_cases hq : blk * 8 + off < bv.words.size
      · exact hq
      · exfalso
        have e1 := prefixPop_beyond c bv.words (8 * blk + off) (by omega)
        have e2 := prefixPop_beyond c bv.words (8 * blk + off + 1) (by omega)
        omega
    rw [cadd_ok c (by omega), bok, cmul_ok c (by omega), bok, index_eq, idx_ok _ _ hwin', bok]
    rw [csub_ok c hlo', bok]
    rw [select_in_word_spec c _ _ (h.lt _) (by omega), bok]
    obtain ⟨p, hp, hsel⟩ := BV.word_sel c bv h (8 * blk + off) k hlo' hhi2
    have hpl := (sel_isKth _ _ _ _ hsel).1
    rw [show blk * 8 + off = 8 * blk + off by omega, hp]
    rw [show RS.unwrap (some p) = .ok p from rfl, bok, cadd_ok c (by omega), bok, hsel]
    congr 2; omega

/-! ## `select0` -/

/-- **select0 of the generated code, from any valid window** (the statement of `R9Index.select0_window_ok` for the
    generated function). The bound `bv.len + 511 < 2^64` keeps `block * BLOCK_LEN * 64` of `block_rank0` a `usize`
    for every block index up to `num_blocks` (the padding of the last block counts as zeros). -/
theorem select0_gen_ok (c : Cfg) (bv : BV) (h : bv.Inv) (hl : bv.len + 511 < 2^64) (k : Nat) (hk64 : k < 2^64)
    (x : R9Index) (hx : x.pairs = (buildRank c bv).pairs) (hlen : x.len = bv.len)
    (hwin : k < cnt (fun i => !bv.bitAt i) bv.len → ∃ a b, window0 x k = .ok (a, b) ∧ a < b ∧
      b ≤ (buildRank c bv).numBlocks + 1 ∧ prefixZ c bv.words (8 * a) ≤ k ∧ k < prefixZ c bv.words (8 * b)) :
    GenFn.Rank9SelIndex.select0 c x bv k = .ok (sel (fun i => !bv.bitAt i) bv.len k) := by
  have hsz := h.size
  have hnb := numBlocks_eq c bv h
  have hps := pairs_size c bv h
  have h2 : 2 ≤ x.pairs.size := by rw [hx, hps]; omega
  have e2 : x.numBlocks = (buildRank c bv).numBlocks := numBlocks_congr x _ hx
  have e4 : ∀ t, x.subBlockRanks t = (buildRank c bv).subBlockRanks t := fun t => by unfold subBlockRanks; rw [hx]
  have hsdm : 8 * (bv.words.size / 8) + bv.words.size % 8 = bv.words.size := Nat.div_add_mod _ 8
  have hcov : bv.words.size ≤ 8 * (buildRank c bv).numBlocks := by rw [hnb]; split <;> omega
  have hZ := zeros_le_prefixZ c bv h
  have hnbB : (buildRank c bv).numBlocks * 512 < 2^64 := by rw [hnb]; split <;> omega
  unfold GenFn.Rank9SelIndex.select0
  simp only [words_eq]
  rw [r9_num_zeros_eq c x h2, numZeros_ok c bv h x hx hlen, bok]
  by_cases hk : cnt (fun i => !bv.bitAt i) bv.len ≤ k
  · rw [if_pos hk, sel_eq_none _ _ _ hk]
  · rw [if_neg hk]
    have hk' : k < cnt (fun i => !bv.bitAt i) bv.len := by omega
    obtain ⟨a, b, hw, hab, hbn, hloa, hhib⟩ := hwin hk'
    rw [r9_num_blocks_eq c x h2, bok, e2]
    obtain ⟨blk, hs, _, hb2', hlo, hhi'⟩ := searchBlockG_ok (x.blockRank0 c) (fun t => prefixZ c bv.words (8 * t)) k
      ((buildRank c bv).numBlocks + 1) a b hab
      (fun t _ h2 => blockRank0_ok c bv h x hx t (by omega)) (by omega) hloa hhib
    have hlo : prefixZ c bv.words (8 * blk) ≤ k := hlo
    have hhi : k < prefixZ c bv.words (8 * (blk + 1)) := hhi'
    have hb2 : blk < (buildRank c bv).numBlocks := by
      by_cases hq : blk < (buildRank c bv).numBlocks
      · exact hq
      · exfalso
        have := prefixZ_mono c bv.words h.lt (show bv.words.size ≤ 8 * blk by omega)
        omega
    -- the window
    refine bind_eq_of (a, b) ?_ ?_
    · unfold window0 at hw
      generalize x.sel0 = o at hw ⊢
      cases o with
      | none =>
        simp only [] at hw ⊢
        rw [← e2]; exact hw
      | some hints =>
        simp only [] at hw ⊢
        exact window_some_gen c hints _ k a b (by omega) hw
    simp only []
    -- the binary search
    obtain ⟨b', hloop⟩ := search_gen_ok c (x.blockRank0 c) (GenFn.Rank9SelIndex.block_rank0 c x) k
      ((buildRank c bv).numBlocks + 1) (by omega) (fun t ht => r9_block_rank0_eq c x t (by omega))
      ((buildRank c bv).numBlocks + 1) a b blk (by omega) hbn (by omega) (by omega) hs
    rw [hloop, bok, bok]
    simp only []
    rw [dassert_ok c (by simpa using hb2), bok]
    rw [cmul_ok c (show blk * GenFn.rank9sel_inner.BLOCK_LEN < 2^64 by show blk * 8 < 2^64; omega), bok]
    rw [show blk * GenFn.rank9sel_inner.BLOCK_LEN = blk * 8 from rfl]
    rw [r9_block_rank0_eq c x blk (by omega), blockRank0_ok c bv h x hx blk (by omega), bok]
    rw [dassert_ok c (by simpa using hlo), bok]
    rw [csub_ok c hlo, bok]
    -- the in-block step
    have hblk8 := (prefixZ_add c bv.words h.lt (8 * blk) 8).2
    rw [show 8 * blk + 8 = 8 * (blk + 1) by omega] at hblk8
    have hr : k - prefixZ c bv.words (8 * blk) < 512 := by omega
    rw [cmul_ok c (show (k - prefixZ c bv.words (8 * blk)) * GenFn.broadword.ONES_STEP_9 < 2^64 from
      Nat.lt_of_le_of_lt (Nat.mul_le_mul_right _ (Nat.le_of_lt_succ hr)) (by decide)), bok]
    rw [cmul_ok c (show 64 * GenFn.broadword.INV_COUNT_STEP_9 < 2^64 by decide), bok]
    rw [r9_sub_block_ranks_eq c x blk (by omega), e4, subBlockRanks_ok c bv h blk hb2, bok]
    -- the counters word of the zeros
    obtain ⟨hzle, hzeq⟩ := zero_counters (inBlk c bv.words blk) (fun j _ _ => inBlk_le c bv.words h.lt blk j)
    rw [show 64 * GenFn.broadword.INV_COUNT_STEP_9 = 64 * Gen.INV_COUNT_STEP_9 from rfl, csub_ok c hzle, bok, hzeq]
    have hpk : packTo (fun j => 64 * j - inBlk c bv.words blk j) 7
        = packTo (fun j => if j ≤ 7 then 64 * j - inBlk c bv.words blk j else 0) 7 :=
      packTo_congr _ _ 7 (fun j _ h2 => by simp [h2])
    have he : ∀ j, (fun j => if j ≤ 7 then 64 * j - inBlk c bv.words blk j else 0) j < 512 := fun j => by
      by_cases hj : j ≤ 7
      · simp only [hj, if_true]; omega
      · simp [hj]
    obtain ⟨off, hoff, hin, hle, hlt⟩ := inBlock_ok c (fun j => if j ≤ 7 then 64 * j - inBlk c bv.words blk j else 0) he
      (fun i j hi hij hj => by
        have hi7 : i ≤ 7 := by omega
        simp only [hi7, hj, if_true]
        unfold inBlk
        have q1 := prefixPop_mono c bv.words (show 8 * blk ≤ 8 * blk + i by omega)
        have q2 := prefixPop_mono c bv.words (show 8 * blk + i ≤ 8 * blk + j by omega)
        have q3 := prefixPop_le c bv.words h.lt (8 * blk + i) (j - i)
        rw [show 8 * blk + i + (j - i) = 8 * blk + j by omega] at q3
        have q4 := prefixPop_le c bv.words h.lt (8 * blk) i
        omega)
      (k - prefixZ c bv.words (8 * blk)) hr
    have hsr := pack_lt _ he
    rw [hpk]
    obtain ⟨u, hu, hoffg, _, hvalg⟩ := gen_inBlock c _ _ off _ (by omega) hr hin
    generalize packTo (fun j => if j ≤ 7 then 64 * j - inBlk c bv.words blk j else 0) 7 = sr at hu hvalg hsr ⊢
    rw [hu, bok, hoffg, csub_ok c hoff, bok]
    rw [show RS.wrappingMul (7 - off) 9 = (7 - off) * 9 by unfold RS.wrappingMul; omega]
    rw [cshr_ok c (by omega), bok, hvalg]
    -- the value consumed before the chosen word is the zero count up to it
    have p0 := prefixPop_le64 c bv.words h.lt (8 * blk)
    have p1 := prefixPop_mono c bv.words (show 8 * blk ≤ 8 * blk + off by omega)
    have p2 := prefixPop_le c bv.words h.lt (8 * blk) off
    have hval : prefixZ c bv.words (8 * blk) + (if off = 0 then 0 else (if off ≤ 7 then 64 * off - inBlk c bv.words blk off else 0))
        = prefixZ c bv.words (8 * blk + off) := by
      by_cases h0 : off = 0
      · subst h0; simp
      · simp only [h0, if_false, hoff, if_true]; unfold inBlk prefixZ; omega
    have hlo' : prefixZ c bv.words (8 * blk + off) ≤ k := by
      by_cases h0 : off = 0
      · subst h0; simpa using hlo
      · have := hle (by omega)
        simp only [hoff, if_true] at this
        rw [← hval]; simp only [h0, if_false, hoff, if_true]; omega
    have hhi2 : k < prefixZ c bv.words (8 * blk + off + 1) := by
      by_cases h7 : off < 7
      · have := hlt h7
        have h71 : off + 1 ≤ 7 := by omega
        simp only [h71, if_true] at this
        have p3 := prefixPop_mono c bv.words (show 8 * blk ≤ 8 * blk + (off + 1) by omega)
        have p4 := prefixPop_le c bv.words h.lt (8 * blk) (off + 1)
        rw [show 8 * blk + off + 1 = 8 * blk + (off + 1) by omega]
        unfold inBlk at this; unfold prefixZ at this hlo ⊢; omega
      · have : off = 7 := by omega
        subst this
        rw [show 8 * blk + 7 + 1 = 8 * (blk + 1) by omega]; exact hhi
    rw [cadd_ok c (by rw [hval]; omega), bok, hval]
    rw [dassert_ok c (by simpa using hlo'), bok]
    -- the chosen word exists
    have hwin' : blk * 8 + off < bv.words.size := by
      by_cases hq : blk * 8 + off < bv.words.size
      · exact hq
      · exfalso
        have := prefixZ_mono c bv.words h.lt (show bv.words.size ≤ 8 * blk + off by omega)
        omega
    rw [cadd_ok c (by omega), bok, cmul_ok c (by omega), bok, index_eq, idx_ok _ _ hwin', bok]
    rw [csub_ok c hlo', bok]
    rw [select_in_word_spec c _ _ (wnot_lt _) (by omega), bok]
    obtain ⟨p, hp, hsel⟩ := BV.word_sel0 c bv h (8 * blk + off) k hlo' hhi2 hk'
    have hpl := (sel_isKth _ _ _ _ hsel).1
    rw [show blk * 8 + off = 8 * blk + off by omega, hp]
    rw [show RS.unwrap (some p) = .ok p from rfl, bok, cadd_ok c (by omega), bok, hsel]
    congr 2; omega

/-! ## Agreement with the model under the invariant of `R9.build` -/

/-- the invariant that the model's `R9.build` establishes between a bit vector and its index (`R9.build_ok`):
    the directory is the one of `build_rank`, the length is recorded, and each hint table (present or not) yields
    a bracketing window -/
structure R9Inv (c : Cfg) (bv : BV) (x : R9Index) : Prop where
  pairs : x.pairs = (buildRank c bv).pairs
  len : x.len = bv.len
  win1 : Win1 c bv x
  win0 : Win0 c bv x

theorem build_inv (c : Cfg) (bv : BV) (h : bv.Inv) (h1 h0 : Bool) :
    ∃ rs, R9.build c bv h1 h0 = .ok ⟨bv, rs⟩ ∧ R9Inv c bv rs := by
  obtain ⟨rs, e, hp, hl, w1, w0⟩ := R9.build_ok c bv h h1 h0
  exact ⟨rs, e, ⟨hp, hl, w1, w0⟩⟩

/-- **select1**: generated = model, for every `usize` argument, when the length of the vector is a `usize` -/
theorem r9_select1_eq (c : Cfg) (bv : BV) (h : bv.Inv) (hl : bv.len < 2^64) (x : R9Index)
    (hx : x.pairs = (buildRank c bv).pairs) (hw : Win1 c bv x) (k : Nat) (hk : k < 2^64) :
    GenFn.Rank9SelIndex.select1 c x bv k = x.select1 c bv k := by
  rw [select1_gen_ok c bv h hl k hk x hx (hw k), select1_window_ok c bv h k x hx (hw k)]

/-- **select0**: generated = model, for every `usize` argument, when `len + 511` is a `usize` -/
theorem r9_select0_eq (c : Cfg) (bv : BV) (h : bv.Inv) (hl : bv.len + 511 < 2^64) (x : R9Index)
    (hx : x.pairs = (buildRank c bv).pairs) (hlen : x.len = bv.len) (hw : Win0 c bv x) (k : Nat) (hk : k < 2^64) :
    GenFn.Rank9SelIndex.select0 c x bv k = x.select0 c bv k := by
  rw [select0_gen_ok c bv h hl k hk x hx hlen (hw k), select0_window_ok c bv h k x hx hlen (hw k)]

theorem pairs_size_ge (c : Cfg) (bv : BV) (h : bv.Inv) (x : R9Index) (hx : x.pairs = (buildRank c bv).pairs) :
    2 ≤ x.pairs.size := by
  rw [hx, pairs_size c bv h]; omega

/-- all query functions at once, under the invariant of `R9.build` -/
theorem r9_queries_eq (c : Cfg) (bv : BV) (h : bv.Inv) (x : R9Index) (hx : R9Inv c bv x) :
    GenFn.Rank9SelIndex.num_ones c x = x.numOnes ∧
    GenFn.Rank9SelIndex.num_zeros c x = x.numZeros c ∧
    GenFn.Rank9SelIndex.num_blocks c x = .ok x.numBlocks ∧
    (∀ pos, pos < 2^64 → GenFn.Rank9SelIndex.rank1 c x bv pos = x.rank1 c bv pos) ∧
    (∀ pos, pos < 2^64 → GenFn.Rank9SelIndex.rank0 c x bv pos = x.rank0 c bv pos) ∧
    (bv.len < 2^64 → ∀ k, k < 2^64 → GenFn.Rank9SelIndex.select1 c x bv k = x.select1 c bv k) ∧
    (bv.len + 511 < 2^64 → ∀ k, k < 2^64 → GenFn.Rank9SelIndex.select0 c x bv k = x.select0 c bv k) := by
  have h2 := pairs_size_ge c bv h x hx.pairs
  exact ⟨r9_num_ones_eq c x h2, r9_num_zeros_eq c x h2, r9_num_blocks_eq c x h2,
    fun pos hp => r9_rank1_eq c bv h x hx.pairs pos hp, fun pos hp => r9_rank0_eq c bv h x hx.pairs pos hp,
    fun hl k hk => r9_select1_eq c bv h hl x hx.pairs hx.win1 k hk,
    fun hl k hk => r9_select0_eq c bv h hl x hx.pairs hx.len hx.win0 k hk⟩

/-! ## Specification-level corollaries: the generated queries on the structure built by the model -/

/-- **The generated queries over a valid bit vector** (right-hand sides of `R9.build_answers_bv`). -/
theorem r9_gen_answers_bv (c : Cfg) (bv : BV) (h : bv.Inv) (h1 h0 : Bool) :
    ∃ x, R9.build c bv h1 h0 = .ok x ∧ x.bv = bv ∧
      (∀ i, i < 2^64 → GenFn.Rank9SelIndex.rank1 c x.rs x.bv i = .ok (if i ≤ bv.len then some (cnt bv.bitAt i) else none)) ∧
      (∀ i, i < 2^64 → GenFn.Rank9SelIndex.rank0 c x.rs x.bv i =
        .ok (if i ≤ bv.len then some (cnt (fun j => !bv.bitAt j) i) else none)) ∧
      (bv.len < 2^64 → ∀ k, k < 2^64 → GenFn.Rank9SelIndex.select1 c x.rs x.bv k = .ok (sel bv.bitAt bv.len k)) ∧
      (bv.len + 511 < 2^64 → ∀ k, k < 2^64 →
        GenFn.Rank9SelIndex.select0 c x.rs x.bv k = .ok (sel (fun j => !bv.bitAt j) bv.len k)) ∧
      GenFn.Rank9SelIndex.num_ones c x.rs = .ok (cnt bv.bitAt bv.len) ∧
      GenFn.Rank9SelIndex.num_zeros c x.rs = .ok (bv.len - cnt bv.bitAt bv.len) := by
  obtain ⟨rs, e, hI⟩ := build_inv c bv h h1 h0
  obtain ⟨y, ey, _, _, a2, a3, a4, a5, _, a7, a8⟩ := R9.build_answers_bv c bv h h1 h0
  rw [e] at ey; injection ey with ey; subst ey
  obtain ⟨q1, q2, _, q4, q5, q6, q7⟩ := r9_queries_eq c bv h rs hI
  refine ⟨_, e, rfl, ?_, ?_, ?_, ?_, ?_, ?_⟩
  · intro i hi; rw [q4 i hi]; exact a2 i
  · intro i hi; rw [q5 i hi]; exact a3 i
  · intro hl k hk; rw [q6 hl k hk]; exact a4 k
  · intro hl k hk; rw [q7 hl k hk]; exact a5 k
  · rw [q1]; exact a7
  · rw [q2]
    have : rs.numZeros c = R9.numZeros c ⟨bv, rs⟩ := by
      unfold numZeros R9.numZeros R9.numOnes R9.numBits; rw [hI.len]
    rw [this]; exact a8

/-- **The generated queries on `Rank9Sel::from_bits(bs)`** with any combination of hint tables: exactly the
    right-hand sides of `C01.Statement`, for every `usize` argument, in every build configuration. `rank1`,
    `rank0`, `num_ones`, `num_zeros` need no bound on the length; `select1` needs the length to be a `usize`,
    `select0` needs `length + 511` to be one. -/
theorem r9_gen_answers (c : Cfg) (bs : List Bool) (h1 h0 : Bool) :
    ∃ x, R9.build c (BV.fromBits bs) h1 h0 = .ok x ∧
      (∀ i, i < 2^64 → GenFn.Rank9SelIndex.rank1 c x.rs x.bv i =
        .ok (if i ≤ bs.length then some (cnt (C01.bitOf bs) i) else none)) ∧
      (∀ i, i < 2^64 → GenFn.Rank9SelIndex.rank0 c x.rs x.bv i =
        .ok (if i ≤ bs.length then some (i - cnt (C01.bitOf bs) i) else none)) ∧
      (bs.length < 2^64 → ∀ k, k < 2^64 →
        GenFn.Rank9SelIndex.select1 c x.rs x.bv k = .ok (sel (C01.bitOf bs) bs.length k)) ∧
      (bs.length + 511 < 2^64 → ∀ k, k < 2^64 →
        GenFn.Rank9SelIndex.select0 c x.rs x.bv k = .ok (sel (fun j => !C01.bitOf bs j) bs.length k)) ∧
      GenFn.Rank9SelIndex.num_ones c x.rs = .ok (cnt (C01.bitOf bs) bs.length) ∧
      GenFn.Rank9SelIndex.num_zeros c x.rs = .ok (bs.length - cnt (C01.bitOf bs) bs.length) := by
  have hinv := (BV.fromBits_spec bs).1
  have hlen := BV.fromBits_len bs
  obtain ⟨rs, e, hI⟩ := build_inv c (BV.fromBits bs) hinv h1 h0
  obtain ⟨y, ey, _, a2, a3, a4, a5, _, a7, a8⟩ := C01.holds c bs h1 h0
  rw [e] at ey; injection ey with ey; subst ey
  obtain ⟨q1, q2, _, q4, q5, q6, q7⟩ := r9_queries_eq c (BV.fromBits bs) hinv rs hI
  refine ⟨_, e, ?_, ?_, ?_, ?_, ?_, ?_⟩
  · intro i hi; rw [q4 i hi]; exact a2 i
  · intro i hi; rw [q5 i hi]; exact a3 i
  · intro hl k hk; rw [q6 (by rw [hlen]; exact hl) k hk]; exact a4 k
  · intro hl k hk; rw [q7 (by rw [hlen]; exact hl) k hk]; exact a5 k
  · rw [q1]; exact a7
  · rw [q2]
    have : rs.numZeros c = R9.numZeros c ⟨BV.fromBits bs, rs⟩ := by
      unfold numZeros R9.numZeros R9.numOnes R9.numBits; rw [hI.len]
    rw [this]; exact a8

end Sucds.GenEq
