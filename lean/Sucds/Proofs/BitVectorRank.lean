import Sucds.Model.BitVectorScan
import Sucds.Proofs.Rank9Rank1
set_option linter.unusedSimpArgs false
set_option linter.unusedVariables false
namespace Sucds
namespace BV
open Spec

theorem sumPop_eq_prefixPop (c : Cfg) (ws : Array Nat) (i : Nat) : sumPop c ws i = R9Index.prefixPop c ws i := by
  induction i with
  | zero => rfl
  | succ i ih => simp only [sumPop, R9Index.prefixPop, ih]

/-- **rank1** (linear scan): the number of set bits before `pos`, `none` iff `pos > len` -/
theorem rank1_ok (c : Cfg) (b : BV) (h : b.Inv) (pos : Nat) :
    b.rank1 c pos = .ok (if pos ≤ b.len then some (cnt b.bitAt pos) else none) := by
  have hsz := h.size
  unfold rank1
  by_cases h1 : b.len < pos
  · have : ¬ pos ≤ b.len := by omega
    simp [h1, this]
  · have hle : pos ≤ b.len := by omega
    have h2 : ¬ b.words.size < pos / 64 := by omega
    simp only [h1, h2, if_false, hle, if_true]
    rw [sumPop_eq_prefixPop, R9Index.prefixPop_eq c b h]
    by_cases h3 : pos % 64 ≠ 0
    · simp only [h3, if_true, ne_eq, not_false_eq_true]
      rw [idx_ok _ _ (by omega)]
      simp only [Except.bind]
      rw [R9Index.popcount_shifted c _ _ (by omega) (Nat.mod_lt _ (by decide))]
      have hdm : 64 * (pos / 64) + pos % 64 = pos := Nat.div_add_mod pos 64
      conv => rhs; rw [← hdm, cnt_add]
      congr 3
      exact cnt_congr _ _ _ (fun j hj => word_testBit b _ j (by omega))
    · have : 64 * (pos / 64) = pos := by omega
      simp only [h3, if_false, this]

/-- **rank0** = `pos - rank1(pos)`; the subtraction cannot underflow -/
theorem rank0_ok (c : Cfg) (b : BV) (h : b.Inv) (pos : Nat) :
    b.rank0 c pos = .ok (if pos ≤ b.len then some (pos - cnt b.bitAt pos) else none) := by
  unfold rank0
  rw [rank1_ok c b h pos]
  simp only [Except.bind]
  by_cases hle : pos ≤ b.len
  · simp only [hle, if_true]
    rw [csub_ok c (cnt_le _ _)]
  · simp [hle]

end BV
end Sucds
