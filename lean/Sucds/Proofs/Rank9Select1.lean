import Sucds.Proofs.Rank9Search
import Sucds.Proofs.Rank9InBlock
import Sucds.Proofs.BitVectorSelect
set_option linter.unusedSimpArgs false
set_option linter.unusedVariables false
namespace Sucds
open Spec

/-- the word holding the `k`-th set bit yields its position -/
theorem BV.word_sel (c : Cfg) (b : BV) (h : b.Inv) (wpos k : Nat)
    (hlo : R9Index.prefixPop c b.words wpos ≤ k) (hhi : k < R9Index.prefixPop c b.words (wpos + 1)) :
    ∃ p, selectInWordN c (wordAt b.words wpos) (k - R9Index.prefixPop c b.words wpos) = some p ∧
      sel b.bitAt b.len k = some (64 * wpos + p) := by
  have hstep : R9Index.prefixPop c b.words (wpos + 1)
      = R9Index.prefixPop c b.words wpos + popcountN c (wordAt b.words wpos) := rfl
  rw [selectInWordN_eq c _ _ (h.lt wpos)]
  have hword : cnt (fun i => (wordAt b.words wpos).testBit i) 64 = popcountN c (wordAt b.words wpos) :=
    (popcountN_eq c _ (h.lt wpos)).symm
  cases hs : sel (fun i => (wordAt b.words wpos).testBit i) 64 (k - R9Index.prefixPop c b.words wpos) with
  | none =>
    have := sel_none_le _ _ _ hs
    rw [hword] at this; omega
  | some p =>
    obtain ⟨hp1, hp2, hp3⟩ := sel_isKth _ _ _ _ hs
    refine ⟨p, rfl, ?_⟩
    have hbit : b.bitAt (64 * wpos + p) = true := by rw [← BV.word_testBit b wpos p hp1]; exact hp2
    have hpl : 64 * wpos + p < b.len := by
      by_cases hq : 64 * wpos + p < b.len
      · exact hq
      · have := h.pad (64 * wpos + p) (by omega); rw [this] at hbit; cases hbit
    have hcnt : cnt b.bitAt (64 * wpos + p) = k := by
      rw [cnt_add, ← R9Index.prefixPop_eq c b h,
          cnt_congr (fun i => b.bitAt (64 * wpos + i)) (fun i => (wordAt b.words wpos).testBit i) p
            (fun i hi => (BV.word_testBit b wpos i (by omega)).symm), hp3]
      omega
    exact sel_eq_some b.bitAt b.len k (64 * wpos + p) ⟨hpl, hbit, hcnt⟩

namespace R9Index

theorem bind_ok {ε α β : Type} (v : α) (f : α → Except ε β) : (Except.ok v : Except ε α).bind f = f v := rfl

theorem blockRank_congr (x y : R9Index) (hxy : x.pairs = y.pairs) : x.blockRank = y.blockRank := by
  funext t; unfold blockRank; rw [hxy]

/-- **select1 from any valid window**: whatever the hint tables contain, if the window they produce
    brackets the `k`-th one (`a < b ≤ num_blocks`, `rank(a) ≤ k < rank(b)`), `select1` returns the
    position of the `k`-th set bit; and `none` iff there are at most `k` — never a panic, in either
    arithmetic mode and with either broadword variant. -/
theorem select1_window_ok (c : Cfg) (bv : BV) (h : bv.Inv) (k : Nat) (x : R9Index)
    (hx : x.pairs = (buildRank c bv).pairs)
    (hwin : k < prefixPop c bv.words bv.words.size → ∃ a b, window1 x k = .ok (a, b) ∧ a < b ∧
      b ≤ (buildRank c bv).numBlocks + 1 ∧ prefixPop c bv.words (8 * a) ≤ k ∧ k < prefixPop c bv.words (8 * b)) :
    select1 c x bv k = .ok (sel bv.bitAt bv.len k) := by
  have hsz := h.size
  have hnb := numBlocks_eq c bv h
  have e1 : x.numOnes = (buildRank c bv).numOnes := by unfold numOnes; rw [hx]
  have e2 : x.numBlocks = (buildRank c bv).numBlocks := by unfold numBlocks; rw [hx]
  have e3 : ∀ t, x.blockRank t = (buildRank c bv).blockRank t := fun t => by unfold blockRank; rw [hx]
  have e4 : ∀ t, x.subBlockRanks t = (buildRank c bv).subBlockRanks t := fun t => by unfold subBlockRanks; rw [hx]
  have hsdm : 8 * (bv.words.size / 8) + bv.words.size % 8 = bv.words.size := Nat.div_add_mod _ 8
  have htot : cnt bv.bitAt (64 * bv.words.size) = cnt bv.bitAt bv.len := by
    have hsplit := cnt_add bv.bitAt bv.len (64 * bv.words.size - bv.len)
    rw [show bv.len + (64 * bv.words.size - bv.len) = 64 * bv.words.size by omega] at hsplit
    rw [hsplit, C14.cnt_zero_of_false _ _ (fun i _ => h.pad (bv.len + i) (by omega))]; omega
  unfold select1
  rw [e1, numOnes_ok c bv h]
  rw [bind_ok]
  by_cases hk : prefixPop c bv.words bv.words.size ≤ k
  · rw [if_pos hk, sel_eq_none]
    rw [← htot, ← prefixPop_eq c bv h]; exact hk
  · rw [if_neg hk]
    obtain ⟨a, b, hw, hab, hbn, hloa, hhib⟩ := hwin (by omega)
    rw [hw]
    rw [bind_ok]
    obtain ⟨blk, hs, _, hb2', hlo, hhi'⟩ := searchBlock_ok c bv h k ((buildRank c bv).numBlocks + 1) a b hab hbn
      (by omega) hloa hhib
    have hhi : k < prefixPop c bv.words (8 * (blk + 1)) := hhi'
    -- the block found is a real block: it contains a set bit
    have hb2 : blk < (buildRank c bv).numBlocks := by
      by_cases hq : blk < (buildRank c bv).numBlocks
      · exact hq
      · exfalso
        have hcov : bv.words.size ≤ 8 * (buildRank c bv).numBlocks := by rw [hnb]; split <;> omega
        have q1 := prefixPop_beyond c bv.words (8 * blk) (by omega)
        have q2 := prefixPop_beyond c bv.words (8 * (blk + 1)) (by omega)
        omega
    rw [e2, blockRank_congr x (buildRank c bv) hx]
    rw [hs]
    rw [bind_ok]
    rw [dassert_ok c (by simpa using hb2)]
    rw [bind_ok]
    rw [blockRank_ok c bv h blk (by omega)]
    rw [bind_ok]
    rw [dassert_ok c (by simpa using hlo)]
    rw [bind_ok]
    rw [csub_ok c hlo]
    rw [bind_ok]
    rw [e4, subBlockRanks_ok c bv h blk hb2]
    rw [bind_ok]
    -- the in-block step
    have hblk8 : prefixPop c bv.words (8 * (blk + 1)) ≤ prefixPop c bv.words (8 * blk) + 512 := by
      have := prefixPop_le c bv.words h.lt (8 * blk) 8
      rw [show 8 * (blk + 1) = 8 * blk + 8 by omega]; omega
    have hpk : packTo (inBlk c bv.words blk) 7 = packTo (fun j => if j ≤ 7 then inBlk c bv.words blk j else 0) 7 :=
      packTo_congr _ _ 7 (fun j _ h2 => by simp [h2])
    obtain ⟨off, hoff, hin, hle, hlt⟩ := inBlock_ok c (fun j => if j ≤ 7 then inBlk c bv.words blk j else 0)
      (fun j => by
        by_cases hj : j ≤ 7
        · simp only [hj, if_true]; exact inBlk_lt' c bv h _ _ hj
        · simp [hj])
      (fun i j hi hij hj => by
        have hi7 : i ≤ 7 := by omega
        simp only [hi7, hj, if_true]
        unfold inBlk
        have := prefixPop_mono c bv.words (show 8 * blk + i ≤ 8 * blk + j by omega)
        omega)
      (k - prefixPop c bv.words (8 * blk)) (by omega)
    rw [hpk, hin]
    rw [bind_ok]
    -- the value consumed before the chosen word is the prefix count up to it
    have hbase : prefixPop c bv.words (8 * blk) ≤ prefixPop c bv.words (8 * blk + off) :=
      prefixPop_mono c bv.words (by omega)
    have hval : prefixPop c bv.words (8 * blk) + (if off = 0 then 0 else (if off ≤ 7 then inBlk c bv.words blk off else 0))
        = prefixPop c bv.words (8 * blk + off) := by
      by_cases h0 : off = 0
      · subst h0; simp
      · simp only [h0, if_false, hoff, if_true]; unfold inBlk; omega
    rw [hval]
    have hlo' : prefixPop c bv.words (8 * blk + off) ≤ k := by
      by_cases h0 : off = 0
      · subst h0; simpa using hlo
      · have := hle (by omega)
        simp only [hoff, if_true] at this
        unfold inBlk at this; omega
    have hhi' : k < prefixPop c bv.words (8 * blk + off + 1) := by
      by_cases h7 : off < 7
      · have := hlt h7
        have h71 : off + 1 ≤ 7 := by omega
        simp only [h71, if_true] at this
        unfold inBlk at this
        have := prefixPop_mono c bv.words (show 8 * blk ≤ 8 * blk + (off + 1) by omega)
        rw [show 8 * blk + off + 1 = 8 * blk + (off + 1) by omega]; omega
      · have : off = 7 := by omega
        subst this
        rw [show 8 * blk + 7 + 1 = 8 * (blk + 1) by omega]; exact hhi
    rw [dassert_ok c (by simpa using hlo')]
    rw [bind_ok]
    -- the chosen word exists
    have hwin : blk * 8 + off < bv.words.size := by
      by_cases hq : blk * 8 + off < bv.words.size
      · exact hq
      · exfalso
        have e1 := prefixPop_beyond c bv.words (8 * blk + off) (by omega)
        have e2 := prefixPop_beyond c bv.words (8 * blk + off + 1) (by omega)
        omega
    rw [hB, idx_ok _ _ hwin]
    rw [bind_ok]
    obtain ⟨p, hp, hsel⟩ := BV.word_sel c bv h (8 * blk + off) k hlo' hhi'
    rw [show blk * 8 + off = 8 * blk + off by omega, hp, hsel]
    simp only []
    congr 2; omega

/-- **select1 without hints** (window = the whole directory) -/
theorem select1_nohints_ok (c : Cfg) (bv : BV) (h : bv.Inv) (k : Nat) :
    select1 c (buildRank c bv) bv k = .ok (sel bv.bitAt bv.len k) := by
  apply select1_window_ok c bv h k (buildRank c bv) rfl
  intro hk
  have hnb := numBlocks_eq c bv h
  have hsdm : 8 * (bv.words.size / 8) + bv.words.size % 8 = bv.words.size := Nat.div_add_mod _ 8
  have hpos : 0 < bv.words.size := by
    cases hz : bv.words.size with
    | zero => rw [hz] at hk; simp [prefixPop] at hk
    | succ n => omega
  have hnb0 : 0 < (buildRank c bv).numBlocks := by rw [hnb]; split <;> omega
  have hcover : bv.words.size ≤ 8 * (buildRank c bv).numBlocks := by rw [hnb]; split <;> omega
  exact ⟨0, (buildRank c bv).numBlocks, rfl, hnb0, Nat.le_succ _, by simp [prefixPop],
    by rw [prefixPop_beyond c bv.words _ hcover]; exact hk⟩

end R9Index
end Sucds
