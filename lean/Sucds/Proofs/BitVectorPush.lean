import Sucds.Proofs.BitVectorWrites
set_option linter.unusedSimpArgs false
set_option linter.unusedVariables false
namespace Sucds
namespace BV

/-! ### push_bits -/
theorem pushBits_rej (b : BV) (bits len : Nat) (h : 64 < len) : b.pushBits bits len = (b, false) := by
  simp [pushBits, h]

theorem pushBits_ok (b : BV) (h : b.Inv) (bits len : Nat) (hl : len ≤ 64) :
    (b.pushBits bits len).2 = true ∧ (b.pushBits bits len).1.Inv ∧ (b.pushBits bits len).1.len = b.len + len ∧
      ∀ i, (b.pushBits bits len).1.bitAt i =
        if i < b.len then b.bitAt i else (decide (i < b.len + len) && bits.testBit (i - b.len)) := by
  have hsz := h.size
  unfold pushBits
  have hg : ¬ 64 < len := by omega
  simp only [hg, if_false]
  by_cases h0 : len = 0
  · subst h0
    refine ⟨by simp, by simpa using h, by simp, ?_⟩
    intro i
    simp only [if_true]
    by_cases hi : i < b.len
    · simp [hi]
    · simp [hi, h.pad i (by omega)]
  · simp only [h0, if_false]
    have hblt := and_mask_lt bits len hl
    have hb64 : bits &&& mask len < 2^64 := Nat.lt_of_lt_of_le hblt (Nat.pow_le_pow_right (by omega) hl)
    by_cases hp : b.len % 64 = 0
    · -- a fresh word
      simp only [hp, if_true]
      have hbit : ∀ i, BV.bitAt ⟨b.words.push (bits &&& mask len), b.len + len⟩ i =
          if i < b.len then b.bitAt i else (decide (i < b.len + len) && bits.testBit (i - b.len)) := by
        intro i
        simp only [bitAt, wordAt_push]
        by_cases hw : i / 64 = b.words.size
        · have hge : ¬ i < b.len := by omega
          have e : i % 64 = i - b.len := by omega
          simp only [hw, if_true, hge, if_false, and_mask_testBit _ _ _ hl, e]
          by_cases hin : i - b.len < len
          · have : i < b.len + len := by omega
            simp [hin, this]
          · have : ¬ i < b.len + len := by omega
            simp [hin, this]
        · simp only [hw, if_false]
          by_cases hi : i < b.len
          · simp [hi]
          · have : ¬ i < b.len + len := by omega
            have hz := wordAt_ge b.words (i / 64) (by omega)
            simp [hi, this, hz]
      refine ⟨by first | rfl | trivial, ⟨?_, ?_, ?_⟩, by first | rfl | trivial, hbit⟩
      · simp only [Array.size_push]; omega
      · intro i; simp only [wordAt_push]; split
        · exact hb64
        · exact h.lt i
      · intro i hi
        have hi' : b.len + len ≤ i := hi
        rw [hbit i]
        have h1 : ¬ i < b.len := by omega
        have h2 : ¬ i < b.len + len := by omega
        simp [h1, h2]
    · simp only [hp, if_false]
      have hpos : 0 < b.words.size := by omega
      have hlast : b.words.size - 1 = b.len / 64 := by omega
      -- bits of the or-ed last word
      have hor : ∀ j, j < 64 → ((wordAt b.words (b.len / 64)) ||| (((bits &&& mask len) <<< (b.len % 64)) % 2^64)).testBit j
          = if j < b.len % 64 then (wordAt b.words (b.len / 64)).testBit j
            else (decide (j - b.len % 64 < len) && bits.testBit (j - b.len % 64)) := by
        intro j hj
        rw [Nat.testBit_or, Nat.testBit_mod_two_pow, Nat.testBit_shiftLeft, and_mask_testBit _ _ _ hl]
        by_cases hlt : j < b.len % 64
        · have : ¬ j ≥ b.len % 64 := by omega
          simp [hj, hlt, this]
        · have hge : j ≥ b.len % 64 := by omega
          have hpad := h.pad (64 * (b.len / 64) + j) (by omega)
          rw [← word_testBit b _ _ hj] at hpad
          simp [hj, hlt, hge, hpad]
      have horlt : (wordAt b.words (b.len / 64)) ||| (((bits &&& mask len) <<< (b.len % 64)) % 2^64) < 2^64 :=
        Nat.or_lt_two_pow (h.lt _) (Nat.mod_lt _ (Nat.two_pow_pos 64))
      by_cases hsp : len > 64 - b.len % 64
      · -- spills into a new word
        simp only [hsp, if_true]
        have hbit : ∀ i, BV.bitAt ⟨(b.words.modify (b.words.size - 1) (fun w => w ||| (((bits &&& mask len) <<< (b.len % 64)) % 2^64))).push
              ((bits &&& mask len) >>> (64 - b.len % 64)), b.len + len⟩ i =
            if i < b.len then b.bitAt i else (decide (i < b.len + len) && bits.testBit (i - b.len)) := by
          intro i
          simp only [bitAt, wordAt_push, Array.size_modify, wordAt_modify]
          by_cases hw : i / 64 = b.words.size
          · have hge : ¬ i < b.len := by omega
            simp only [hw, if_true, hge, if_false, Nat.testBit_shiftRight, and_mask_testBit _ _ _ hl]
            have e : 64 - b.len % 64 + i % 64 = i - b.len := by omega
            rw [e]
            by_cases hin : i - b.len < len
            · have : i < b.len + len := by omega
              simp [hin, this]
            · have : ¬ i < b.len + len := by omega
              simp [hin, this]
          · simp only [hw, if_false]
            by_cases hlw : b.words.size - 1 = i / 64 ∧ i / 64 < b.words.size
            · simp only [hlw, and_self, if_true]
              have e0 : i / 64 = b.len / 64 := by omega
              rw [e0, hor _ (Nat.mod_lt _ (by decide))]
              by_cases hi : i < b.len
              · have : i % 64 < b.len % 64 := by omega
                simp [hi, this, bitAt, e0]
              · have h1 : ¬ i % 64 < b.len % 64 := by omega
                have e : i % 64 - b.len % 64 = i - b.len := by omega
                have h2 : i - b.len < len := by omega
                have h3 : i < b.len + len := by omega
                simp [hi, h1, e, h2, h3]
            · simp only [hlw, if_false]
              by_cases hi : i < b.len
              · simp [hi]
              · have : ¬ i < b.len + len := by omega
                have hz := wordAt_ge b.words (i / 64) (by omega)
                simp [hi, this, hz]
        refine ⟨by first | rfl | trivial, ⟨?_, ?_, ?_⟩, by first | rfl | trivial, hbit⟩
        · simp only [Array.size_push, Array.size_modify]; omega
        · intro i
          simp only [wordAt_push, Array.size_modify, wordAt_modify]
          split
          · rw [Nat.shiftRight_eq_div_pow]; exact Nat.lt_of_le_of_lt (Nat.div_le_self _ _) hb64
          · split
            · rename_i h2; rw [← h2.1, hlast]; exact horlt
            · exact h.lt i
        · intro i hi
          have hi' : b.len + len ≤ i := hi
          rw [hbit i]
          have h1 : ¬ i < b.len := by omega
          have h2 : ¬ i < b.len + len := by omega
          simp [h1, h2]
      · simp only [hsp, if_false]
        have hbit : ∀ i, BV.bitAt ⟨b.words.modify (b.words.size - 1) (fun w => w ||| (((bits &&& mask len) <<< (b.len % 64)) % 2^64)), b.len + len⟩ i =
            if i < b.len then b.bitAt i else (decide (i < b.len + len) && bits.testBit (i - b.len)) := by
          intro i
          simp only [bitAt, wordAt_modify]
          by_cases hlw : b.words.size - 1 = i / 64 ∧ i / 64 < b.words.size
          · simp only [hlw, and_self, if_true]
            have e0 : i / 64 = b.len / 64 := by omega
            rw [e0, hor _ (Nat.mod_lt _ (by decide))]
            by_cases hi : i < b.len
            · have : i % 64 < b.len % 64 := by omega
              simp [hi, this, bitAt, e0]
            · have h1 : ¬ i % 64 < b.len % 64 := by omega
              have e : i % 64 - b.len % 64 = i - b.len := by omega
              simp only [hi, h1, if_false, e]
              by_cases h2 : i - b.len < len
              · have h3 : i < b.len + len := by omega
                simp [h2, h3]
              · have h3 : ¬ i < b.len + len := by omega
                simp [h2, h3]
          · simp only [hlw, if_false]
            by_cases hi : i < b.len
            · simp [hi, bitAt]
            · have : ¬ i < b.len + len := by omega
              have hz := wordAt_ge b.words (i / 64) (by omega)
              simp [hi, this, hz]
        refine ⟨by first | rfl | trivial, ⟨?_, ?_, ?_⟩, by first | rfl | trivial, hbit⟩
        · simp only [Array.size_modify]; omega
        · intro i
          simp only [wordAt_modify]
          split
          · rename_i h2; rw [← h2.1, hlast]; exact horlt
          · exact h.lt i
        · intro i hi
          have hi' : b.len + len ≤ i := hi
          rw [hbit i]
          have h1 : ¬ i < b.len := by omega
          have h2 : ¬ i < b.len + len := by omega
          simp [h1, h2]

end BV
end Sucds
