import Sucds.Proofs.EliasFanoQueries
/-! Elias-Fano queries, part 3: the iterator (`src/mii_sequences/elias_fano/iter.rs`). -/
set_option linter.unusedSimpArgs false
set_option linter.unusedVariables false
namespace Sucds
namespace EFQ
open BV Spec EFB

/-- `m` successive calls of `Iter::next`, collecting the answers -/
def itRun (c : Cfg) (e : EF) : Nat → EF.It → R (EF.It × List (Option Nat))
  | 0, it => .ok (it, [])
  | m+1, it => (itRun c e m it).bind fun r =>
      (EF.It.next c e r.1).bind fun s => .ok (s.1, r.2 ++ [s.2])

/-- state of the unary iterator after `j` steps -/
def ust (c : Cfg) (bv : BV) (it0 : UIter) (j : Nat) : UIter :=
  match unaryRun c bv j it0 with
  | .ok r => r.1
  | .error _ => it0

section
variable {c : Cfg} {e : EF} {b : EFB} {xs : List Nat}

theorem ust_zero (bv : BV) (it0 : UIter) : ust c bv it0 0 = it0 := rfl

/-- one step of the unary iterator over the high bits, started at the k-th one -/
theorem unary_step (S : Setting c e b xs) (k j : Nat) (hj : k + j < xs.length) :
    UIter.next c b.high (ust c b.high (UIter.new b.high (hp b xs k)) j)
      = .ok (ust c b.high (UIter.new b.high (hp b xs k)) (j + 1), some (hp b xs (k + j))) := by
  have hk : k < xs.length := by omega
  obtain ⟨hlt, hbit, hcnt⟩ := hp_kth S k hk
  have hn := cnt_len S
  obtain ⟨it1, h1⟩ := S.high.unary (hp b xs k) hlt hbit j (by omega)
  obtain ⟨it2, h2⟩ := S.high.unary (hp b xs k) hlt hbit (j + 1) (by omega)
  have hu1 : ust c b.high (UIter.new b.high (hp b xs k)) j = it1 := by unfold ust; rw [h1]
  have hu2 : ust c b.high (UIter.new b.high (hp b xs k)) (j + 1) = it2 := by unfold ust; rw [h2]
  rw [hu1, hu2]
  rw [unaryRun, h1, bind_ok] at h2
  cases hnx : UIter.next c b.high it1 with
  | error err => rw [hnx] at h2; cases h2
  | ok s =>
    rw [hnx, bind_ok] at h2
    simp only [Except.ok.injEq, Prod.mk.injEq] at h2
    obtain ⟨g1, g2⟩ := h2
    rw [List.range_succ, List.map_append, List.map_singleton] at g2
    have g3 := List.append_cancel_left g2
    simp only [List.cons.injEq, and_true] at g3
    rw [hcnt, sel1 S (k + j) hj] at g3
    obtain ⟨s1, s2⟩ := s
    simp only at g1 g3
    rw [g1, g3]

/-- the invariant of the iterator after `j` steps from `k` (while values remain) -/
structure ItOK (b : EFB) (xs : List Nat) (st : Nat → UIter) (k j : Nat) (it : EF.It) : Prop where
  pos : it.k = k + j
  high : it.high = some (st j)
  mask : it.lowMask = 2 ^ b.lowLen - 1
  ciw : it.chunksInWord = 64 / b.lowLen
  buf : b.lowLen ≠ 0 → ∀ i, i < it.chunksAvail * b.lowLen →
          it.lowBuf.testBit i = b.low.bitAt ((k + j) * b.lowLen + i)
  avail0 : b.lowLen = 0 → xs.length ≤ it.chunksAvail + (k + j)

theorem assemble_val (S : Setting c e b xs) (k : Nat) (hk : k < xs.length) :
    ((hp b xs k - k) <<< b.lowLen) % 2 ^ 64 ||| (X xs k % 2 ^ b.lowLen) = X xs k := by
  have hx := X_lt S k hk
  have hu := S.ulim
  have := shl_le (X xs k) b.lowLen
  rw [hp_sub, Nat.mod_eq_of_lt (by omega), split_or]

theorem chunk_bound (l i : Nat) (hl0 : l ≠ 0) (hi : i < (64 / l - 1) * l) : l + i < 64 := by
  have h1 := Nat.div_mul_le_self 64 l
  rw [Nat.sub_mul, Nat.one_mul] at hi
  generalize 64 / l * l = q at *
  omega

/-- the low-bits buffer step of `next` -/
theorem refill (S : Setting c e b xs) (st : Nat → UIter) (k j : Nat) (it : EF.It) (I : ItOK b xs st k j it)
    (hj : k + j < xs.length) :
    ∃ w a, (if it.chunksAvail = 0 then
        (unwrapO (b.low.getWord64 (it.k * b.lowLen))).bind fun w =>
        (csub c it.chunksInWord 1).bind fun a => (.ok (w, a) : R (Nat × Nat))
      else .ok (it.lowBuf, it.chunksAvail - 1)) = .ok (w, a) ∧
      (∀ i, i < b.lowLen → w.testBit i = b.low.bitAt ((k + j) * b.lowLen + i)) ∧
      (b.lowLen ≠ 0 → ∀ i, i < a * b.lowLen → (w >>> b.lowLen).testBit i = b.low.bitAt ((k + j + 1) * b.lowLen + i)) ∧
      (b.lowLen = 0 → xs.length ≤ a + (k + j + 1)) := by
  have hl := S.holds.llt
  have hmul : (k + j + 1) * b.lowLen = (k + j) * b.lowLen + b.lowLen := by rw [Nat.add_mul, Nat.one_mul]
  by_cases h0 : it.chunksAvail = 0
  · have hl0 : b.lowLen ≠ 0 := by
      intro hh; have := I.avail0 hh; omega
    simp only [h0, if_true]
    have hpos : (k + j) * b.lowLen < b.low.len := by
      rw [S.holds.llen]
      exact Nat.mul_lt_mul_of_lt_of_le hj (Nat.le_refl _) (by omega)
    obtain ⟨w, hw, hbits⟩ := getWord64_ok b.low S.holds.linv ((k + j) * b.lowLen) hpos
    have hdiv : 1 ≤ 64 / b.lowLen := Nat.div_pos (by omega) (by omega)
    rw [I.pos, hw, unwrapO_some, bind_ok, I.ciw, csub_ok c hdiv, bind_ok]
    refine ⟨w, 64 / b.lowLen - 1, rfl, ?_, ?_, fun hh => absurd hh hl0⟩
    · intro i hi
      rw [hbits]
      have : i < 64 := by omega
      simp [this]
    · intro _ i hi
      have := chunk_bound b.lowLen i hl0 hi
      rw [Nat.testBit_shiftRight, hbits, hmul, Nat.add_assoc]
      simp [this]
  · simp only [h0, if_false]
    refine ⟨it.lowBuf, it.chunksAvail - 1, rfl, ?_, ?_, ?_⟩
    · intro i hi
      have hl0 : b.lowLen ≠ 0 := by omega
      apply I.buf hl0
      have : 1 * b.lowLen ≤ it.chunksAvail * b.lowLen := Nat.mul_le_mul_right _ (by omega)
      omega
    · intro hl0 i hi
      rw [Nat.testBit_shiftRight, hmul, Nat.add_assoc]
      apply I.buf hl0
      rw [Nat.sub_mul, Nat.one_mul] at hi
      have : 1 * b.lowLen ≤ it.chunksAvail * b.lowLen := Nat.mul_le_mul_right _ (by omega)
      omega
    · intro hh
      have := I.avail0 hh
      omega

/-- one `next` while values remain: yields the value number `k + j` -/
theorem next_ok (S : Setting c e b xs) (st : Nat → UIter) (k j : Nat)
    (hst : UIter.next c b.high (st j) = .ok (st (j + 1), some (hp b xs (k + j))))
    (it : EF.It) (I : ItOK b xs st k j it) (hj : k + j < xs.length) :
    ∃ it', EF.It.next c e it = .ok (it', some (X xs (k + j))) ∧ ItOK b xs st k (j + 1) it' := by
  have hl := S.holds.llt
  obtain ⟨w, a, hr, hw, hbuf, hav⟩ := refill (c := c) S st k j it I hj
  unfold EF.It.next
  rw [len_eq S, S.low, S.lowLen, S.high.bv]
  have hne : ¬ it.k = xs.length := by rw [I.pos]; omega
  simp only [hne, if_false, I.high]
  rw [hr, bind_ok, hst, bind_ok]
  simp only []
  rw [I.pos, csub_ok c (le_hp b xs (k + j)), bind_ok, cshl_ok c hl, bind_ok]
  have hval : w &&& it.lowMask = X xs (k + j) % 2 ^ b.lowLen := by
    apply Nat.eq_of_testBit_eq
    intro i
    rw [I.mask, Nat.testBit_and, Nat.testBit_two_pow_sub_one, Nat.testBit_mod_two_pow]
    by_cases hi : i < b.lowLen
    · rw [hw i hi, S.holds.lows (k + j) hj i hi]
      simp [hi, X]
    · simp [hi]
  rw [hval, assemble_val S (k + j) hj]
  refine ⟨_, rfl, ?_⟩
  exact {
    pos := by show k + j + 1 = k + (j + 1); omega
    high := rfl
    mask := I.mask
    ciw := I.ciw
    buf := by
      intro hl0 i hi
      show (w >>> b.lowLen).testBit i = _
      rw [hbuf hl0 i hi]
      have : k + (j + 1) = k + j + 1 := by omega
      rw [this]
    avail0 := by
      intro hh
      show xs.length ≤ a + (k + (j + 1))
      have := hav hh
      omega }

/-- `next` once the values are used up (or for an iterator created past the end): `None`, and it stays so -/
theorem next_done (S : Setting c e b xs) (it : EF.It) (h : it.k = xs.length ∨ it.high = none) :
    EF.It.next c e it = .ok ({ it with high := none }, none) := by
  unfold EF.It.next
  rw [len_eq S]
  rcases h with h | h
  · simp [h]
  · rw [h]; simp

/-- **iter**: creating the iterator never fails (`low_len < 64`, the `select1` answer exists) -/
theorem iter_ok (S : Setting c e b xs) (k : Nat) :
    ∃ it0, e.iter c k = .ok it0 ∧
      (k < xs.length → ItOK b xs (ust c b.high (UIter.new b.high (hp b xs k))) k 0 it0) ∧
      (xs.length ≤ k → it0.k = xs.length ∨ it0.high = none) := by
  have hl := S.holds.llt
  unfold EF.iter
  rw [len_eq S, S.lowLen, S.high.bv, dassert_ok c (by simpa using hl), bind_ok]
  by_cases hk : k < xs.length
  · simp only [hk, if_true]
    rw [S.high.select1, sel1 S k hk, unwrapO_some, bind_ok, bind_ok]
    refine ⟨_, rfl, ?_, fun h => by omega⟩
    intro _
    by_cases hl0 : b.lowLen = 0
    · exact {
        pos := rfl
        high := rfl
        mask := by rw [Nat.one_shiftLeft]
        ciw := by simp [hl0]
        buf := fun h => absurd hl0 h
        avail0 := by intro _; simp [hl0] }
    · exact {
        pos := rfl
        high := rfl
        mask := by rw [Nat.one_shiftLeft]
        ciw := by simp [hl0]
        buf := by intro _ i hi; simp [hl0] at hi
        avail0 := fun h => absurd h hl0 }
  · simp only [hk, if_false]
    rw [bind_ok]
    refine ⟨_, rfl, fun h => h.elim, ?_⟩
    intro _; right; rfl

/-- combined invariant: either values remain and the state is good, or the iterator is finished -/
def Good (b : EFB) (xs : List Nat) (st : Nat → UIter) (k m : Nat) (it : EF.It) : Prop :=
  if k + m < xs.length then ItOK b xs st k m it else (it.k = xs.length ∨ it.high = none)

/-- **one step of the iterator, in every state reachable from `iter(k)`**: the m-th call yields `xs[k+m]?` -/
theorem good_step (S : Setting c e b xs) (k m : Nat) (it : EF.It)
    (G : Good b xs (ust c b.high (UIter.new b.high (hp b xs k))) k m it) :
    ∃ it', EF.It.next c e it = .ok (it', xs[k + m]?) ∧
      Good b xs (ust c b.high (UIter.new b.high (hp b xs k))) k (m + 1) it' := by
  unfold Good at G
  by_cases hm : k + m < xs.length
  · rw [if_pos hm] at G
    obtain ⟨it', h1, h2⟩ := next_ok S _ k m (unary_step S k m hm) it G hm
    refine ⟨it', by rw [h1, getElem?_X xs _ hm], ?_⟩
    unfold Good
    by_cases hm1 : k + (m + 1) < xs.length
    · rw [if_pos hm1]; exact h2
    · rw [if_neg hm1]; left; rw [h2.pos]; omega
  · rw [if_neg hm] at G
    refine ⟨_, by rw [next_done S it G, List.getElem?_eq_none (by omega)], ?_⟩
    unfold Good
    rw [if_neg (by omega)]
    right; rfl

theorem iter_good (S : Setting c e b xs) (k : Nat) :
    ∃ it0, e.iter c k = .ok it0 ∧ Good b xs (ust c b.high (UIter.new b.high (hp b xs k))) k 0 it0 := by
  obtain ⟨it0, h1, h2, h3⟩ := iter_ok S k
  refine ⟨it0, h1, ?_⟩
  unfold Good
  by_cases hk : k < xs.length
  · rw [if_pos (by omega)]; exact h2 hk
  · rw [if_neg (by omega)]; exact h3 (by omega)

theorem run_good (S : Setting c e b xs) (k : Nat) (it0 : EF.It)
    (G : Good b xs (ust c b.high (UIter.new b.high (hp b xs k))) k 0 it0) (m : Nat) :
    ∃ it', itRun c e m it0 = .ok (it', (List.range m).map fun j => xs[k + j]?) ∧
      Good b xs (ust c b.high (UIter.new b.high (hp b xs k))) k m it' := by
  induction m with
  | zero => exact ⟨it0, rfl, G⟩
  | succ m ih =>
    obtain ⟨it1, h1, G1⟩ := ih
    obtain ⟨it2, h2, G2⟩ := good_step S k m it1 G1
    refine ⟨it2, ?_, G2⟩
    rw [itRun, h1, bind_ok, h2, bind_ok, List.range_succ, List.map_append, List.map_singleton]

/-- **the iterator**: `iter(k)` succeeds, and the successive `next()` calls yield `xs[k]`, `xs[k+1]`, …, then
    `None` for ever (also for `k ≥ len` and the empty sequence); no `unwrap` fails, no subtraction underflows -/
theorem iter_run (S : Setting c e b xs) (k : Nat) :
    ∃ it0, e.iter c k = .ok it0 ∧
      ∀ m, ∃ it', itRun c e m it0 = .ok (it', (List.range m).map fun j => xs[k + j]?) := by
  obtain ⟨it0, h1, G⟩ := iter_good S k
  refine ⟨it0, h1, fun m => ?_⟩
  obtain ⟨it', h, _⟩ := run_good S k it0 G m
  exact ⟨it', h⟩

theorem answers_eq (xs : List Nat) (k t : Nat) :
    ((List.range (xs.length - k + t)).map fun j => xs[k + j]?) = (xs.drop k).map some ++ List.replicate t none := by
  apply List.ext_getElem?
  intro i
  rw [List.getElem?_map, List.getElem?_append, List.getElem?_map, List.getElem?_drop]
  simp only [List.length_map, List.length_drop]
  by_cases hi : i < xs.length - k
  · have h1 : i < xs.length - k + t := by omega
    have h2 : k + i < xs.length := by omega
    rw [List.getElem?_range h1, if_pos hi]; simp [List.getElem?_eq_getElem h2]
  · rw [if_neg hi]
    by_cases hi2 : i < xs.length - k + t
    · rw [List.getElem?_range hi2, List.getElem?_replicate]
      have : i - (xs.length - k) < t := by omega
      simp only [this, if_true, Option.map_some]
      rw [List.getElem?_eq_none (by omega)]
    · rw [List.getElem?_eq_none (by simp; omega), List.getElem?_replicate]
      have : ¬ i - (xs.length - k) < t := by omega
      simp [this]

/-- the same, as a list: exactly `xs.drop k`, then `None`s -/
theorem iter_all (S : Setting c e b xs) (k : Nat) :
    ∃ it0, e.iter c k = .ok it0 ∧
      ∀ t, ∃ it', itRun c e (xs.length - k + t) it0 = .ok (it', (xs.drop k).map some ++ List.replicate t none) := by
  obtain ⟨it0, h1, h2⟩ := iter_run S k
  refine ⟨it0, h1, fun t => ?_⟩
  obtain ⟨it', h⟩ := h2 (xs.length - k + t)
  exact ⟨it', by rw [h, answers_eq]⟩

end
end EFQ
end Sucds
