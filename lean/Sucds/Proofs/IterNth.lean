import Sucds.Proofs.GenIterators
/-! # `Iterator::nth` on the six index-based iterators

    None of the iterators of the crate overrides `Iterator::nth`, so `it.nth(k)` is the default of std:
    `k` calls of `next` whose answers are dropped, then one more `next` whose answer is returned (`skip` and
    `step_by` are built on it).  std stops at the first `None` (`advance_by`); `nthStd` below does the same and
    `nthStd_eq_nth` shows that it makes no difference, because an exhausted iterator stays exhausted and no longer
    changes its state.

    Results, for the stored list `xs` and `acc i = xs[i]?`, from **any** state `it` (also `it.pos > xs.length`):
    * `nth_spec` — answer `xs[it.pos + k]?`; cursor afterwards `it.pos + k + 1` if that element exists, else
      `max it.pos xs.length` (`next` leaves `pos` alone once `pos ≥ len`);
    * `next_after_nth`, `nth_after_nth`, `runN_after_nth`, `answers_after_nth` — what the iterator yields afterwards:
      exactly `xs.drop (it.pos + k + 1)` and then `none` on every call, with exact size hints;
    * `nth_none_stays` — once `nth` has answered `none`, every later `next`/`nth` answers `none` and the state is frozen;
    * `sizeHint_after_nth` — `size_hint` is `(n, Some(n))` with `n = xs.length - (it.pos + k + 1)` (truncated), with
      no side condition in the model; the generated `size_hint` computes `len - pos` on `usize` and needs `pos ≤ len`,
      which `nth_pos_le` provides;
    * `cv_nth_eq`, `cv_nth_spec` — the same for `nth` defined over the `next` generated from `compact_vector.rs`. -/
set_option linter.unusedVariables false
set_option linter.unusedSimpArgs false
namespace Sucds.IndexIter

/-- `Iterator::nth(k)` as std provides it for an iterator that does not override it -/
def nth {α} (len : Nat) (acc : Nat → Option α) (it : It) : Nat → Option α × It
  | 0 => next len acc it
  | k+1 => nth len acc (next len acc it).2 k

/-- std's `nth` to the letter: `advance_by(k)` gives up at the first `None`, and then `nth` answers `None` -/
def nthStd {α} (len : Nat) (acc : Nat → Option α) (it : It) : Nat → Option α × It
  | 0 => next len acc it
  | k+1 =>
    match (next len acc it).1 with
    | none => (none, (next len acc it).2)
    | some _ => nthStd len acc (next len acc it).2 k

/-! ## An exhausted iterator -/

theorem next_exhausted {α} (len : Nat) (acc : Nat → Option α) (it : It) (h : len ≤ it.pos) :
    next len acc it = (none, it) := by
  unfold next
  rw [if_neg (by omega)]

theorem nth_exhausted {α} (len : Nat) (acc : Nat → Option α) (it : It) (h : len ≤ it.pos) :
    ∀ k, nth len acc it k = (none, it) := by
  intro k
  induction k with
  | zero => exact next_exhausted len acc it h
  | succ k ih => simp only [nth, next_exhausted len acc it h, ih]

theorem next_live {α} (len : Nat) (acc : Nat → Option α) (it : It) (h : it.pos < len) :
    next len acc it = (acc it.pos, ⟨it.pos + 1⟩) := by
  unfold next
  rw [if_pos h]

/-! ## `nth` -/

/-- the answer of `nth(k)` is the element `k` places after the cursor, and the cursor afterwards stands behind that
    element — or, when there is no such element, at `max pos len` (at `len`, unless it started beyond) -/
theorem nth_spec {α} (xs : List α) (acc : Nat → Option α) (hacc : ∀ i, acc i = xs[i]?) :
    ∀ (k : Nat) (it : It),
      (nth xs.length acc it k).1 = xs[it.pos + k]? ∧
      (nth xs.length acc it k).2.pos =
        if it.pos + k < xs.length then it.pos + k + 1 else max it.pos xs.length := by
  intro k
  induction k with
  | zero =>
    intro it
    by_cases h : it.pos < xs.length
    · simp only [nth, next_live _ acc it h, hacc, Nat.add_zero, if_pos h, and_self]
    · rw [show nth xs.length acc it 0 = (none, it) from next_exhausted _ acc it (by omega)]
      simp only [Nat.add_zero, if_neg h]
      exact ⟨(List.getElem?_eq_none (by omega)).symm, by omega⟩
  | succ k ih =>
    intro it
    by_cases h : it.pos < xs.length
    · obtain ⟨h1, h2⟩ := ih ⟨it.pos + 1⟩
      simp only [nth, next_live _ acc it h]
      rw [h1, h2]
      simp only [show it.pos + 1 + k = it.pos + (k + 1) by omega, true_and]
      split <;> omega
    · rw [nth_exhausted _ acc it (by omega)]
      simp only [if_neg (show ¬ it.pos + (k + 1) < xs.length by omega)]
      exact ⟨(List.getElem?_eq_none (by omega)).symm, by omega⟩

theorem nth_fst {α} (xs : List α) (acc : Nat → Option α) (hacc : ∀ i, acc i = xs[i]?) (it : It) (k : Nat) :
    (nth xs.length acc it k).1 = xs[it.pos + k]? := (nth_spec xs acc hacc k it).1

theorem nth_pos {α} (xs : List α) (acc : Nat → Option α) (hacc : ∀ i, acc i = xs[i]?) (it : It) (k : Nat) :
    (nth xs.length acc it k).2.pos =
      if it.pos + k < xs.length then it.pos + k + 1 else max it.pos xs.length := (nth_spec xs acc hacc k it).2

/-- a cursor within the container stays within it (what the `usize` subtraction of the real `size_hint` needs) -/
theorem nth_pos_le {α} (xs : List α) (acc : Nat → Option α) (hacc : ∀ i, acc i = xs[i]?) (it : It) (k : Nat)
    (h : it.pos ≤ xs.length) : (nth xs.length acc it k).2.pos ≤ xs.length := by
  rw [nth_pos xs acc hacc]
  split <;> omega

/-- `nth` answers `none` exactly when there is no element `k` places after the cursor -/
theorem nth_eq_none_iff {α} (xs : List α) (acc : Nat → Option α) (hacc : ∀ i, acc i = xs[i]?) (it : It) (k : Nat) :
    (nth xs.length acc it k).1 = none ↔ xs.length ≤ it.pos + k := by
  rw [nth_fst xs acc hacc, List.getElem?_eq_none_iff]

/-- stopping at the first `None`, as std does, gives the same answer and the same state -/
theorem nthStd_eq_nth {α} (xs : List α) (acc : Nat → Option α) (hacc : ∀ i, acc i = xs[i]?) :
    ∀ (k : Nat) (it : It), nthStd xs.length acc it k = nth xs.length acc it k := by
  intro k
  induction k with
  | zero => intro it; rfl
  | succ k ih =>
    intro it
    by_cases h : it.pos < xs.length
    · simp only [nthStd, nth, next_live _ acc it h, hacc, List.getElem?_eq_getElem h, ih]
    · simp only [nthStd, nth_exhausted _ acc it (Nat.le_of_not_lt h), next_exhausted _ acc it (Nat.le_of_not_lt h)]

/-! ## What the iterator yields after `nth` -/

/-- the element after the one `nth` returned -/
theorem next_after_nth {α} (xs : List α) (acc : Nat → Option α) (hacc : ∀ i, acc i = xs[i]?) (it : It) (k : Nat) :
    (next xs.length acc (nth xs.length acc it k).2).1 = xs[it.pos + k + 1]? := by
  have h := nth_fst xs acc hacc (nth xs.length acc it k).2 0
  rw [nth_pos xs acc hacc] at h
  rw [show nth xs.length acc (nth xs.length acc it k).2 0 = next xs.length acc (nth xs.length acc it k).2 from rfl] at h
  rw [h]
  split
  · rfl
  · rw [List.getElem?_eq_none (by omega), List.getElem?_eq_none (by omega)]

/-- `nth(j)` after `nth(k)` (the step of `skip`/`step_by`): element `k + 1 + j` places after the original cursor -/
theorem nth_after_nth {α} (xs : List α) (acc : Nat → Option α) (hacc : ∀ i, acc i = xs[i]?) (it : It) (k j : Nat) :
    (nth xs.length acc (nth xs.length acc it k).2 j).1 = xs[it.pos + k + 1 + j]? := by
  rw [nth_fst xs acc hacc, nth_pos xs acc hacc]
  split
  · rfl
  · rw [List.getElem?_eq_none (by omega), List.getElem?_eq_none (by omega)]

/-- `runN_spec` from any cursor, also one beyond the end -/
theorem runN_any {α} (xs : List α) (acc : Nat → Option α) (hacc : ∀ i, acc i = xs[i]?) :
    ∀ (n : Nat) (it : It),
      runN xs.length acc it n =
        (List.range n).map (fun j => (xs[it.pos + j]?, (xs.length - (it.pos + j), some (xs.length - (it.pos + j))))) := by
  intro n
  induction n with
  | zero => intro it; rfl
  | succ n ih =>
    intro it
    rw [List.range_succ_eq_map, List.map_cons, List.map_map]
    by_cases h : it.pos < xs.length
    · simp only [runN, sizeHint, next_live _ acc it h, hacc, Nat.add_zero, ih]
      congr 1
      apply List.map_congr_left
      intro j _
      simp only [Function.comp, Nat.add_assoc, Nat.add_comm 1 j]
    · simp only [runN, sizeHint, next_exhausted _ acc it (Nat.le_of_not_lt h), Nat.add_zero, ih]
      congr 1
      · rw [List.getElem?_eq_none (by omega)]
      · apply List.map_congr_left
        intro j _
        simp only [Function.comp]
        rw [List.getElem?_eq_none (by omega), List.getElem?_eq_none (by omega),
          show xs.length - (it.pos + j) = 0 by omega, show xs.length - (it.pos + j.succ) = 0 by omega]

/-- after `nth(k)`: `n` calls of `next`, each preceded by `size_hint`, yield the elements from `pos + k + 1` on and
    then `none`, and every size hint is exact -/
theorem runN_after_nth {α} (xs : List α) (acc : Nat → Option α) (hacc : ∀ i, acc i = xs[i]?) (it : It) (k n : Nat) :
    runN xs.length acc (nth xs.length acc it k).2 n =
      (List.range n).map (fun j => (xs[it.pos + k + 1 + j]?,
        (xs.length - (it.pos + k + 1 + j), some (xs.length - (it.pos + k + 1 + j))))) := by
  rw [runN_any xs acc hacc, nth_pos xs acc hacc]
  apply List.map_congr_left
  intro j _
  split
  · rfl
  · rw [List.getElem?_eq_none (by omega), List.getElem?_eq_none (by omega),
      show xs.length - (max it.pos xs.length + j) = 0 by omega, show xs.length - (it.pos + k + 1 + j) = 0 by omega]

/-- the answers alone: exactly `xs.drop (pos + k + 1)`, then `none` `t` times, for every `t` -/
theorem answers_after_nth {α} (xs : List α) (acc : Nat → Option α) (hacc : ∀ i, acc i = xs[i]?) (it : It) (k t : Nat) :
    (runN xs.length acc (nth xs.length acc it k).2 (xs.length - (it.pos + k + 1) + t)).map (·.1) =
      (xs.drop (it.pos + k + 1)).map some ++ List.replicate t none := by
  rw [runN_after_nth xs acc hacc, List.map_map]
  apply List.ext_getElem?
  intro j
  by_cases hj : j < xs.length - (it.pos + k + 1)
  · rw [List.getElem?_append_left (by rw [List.length_map, List.length_drop]; exact hj),
      List.getElem?_map, List.getElem?_map, List.getElem?_range (by omega), List.getElem?_drop]
    simp only [Option.map_some, Function.comp]
    rw [List.getElem?_eq_getElem (by omega)]
    rfl
  · rw [List.getElem?_append_right (by rw [List.length_map, List.length_drop]; omega),
      List.length_map, List.length_drop, List.getElem?_map, List.getElem?_replicate]
    by_cases hj2 : j < xs.length - (it.pos + k + 1) + t
    · rw [List.getElem?_range hj2, if_pos (by omega)]
      simp only [Option.map_some, Function.comp]
      rw [List.getElem?_eq_none (by omega)]
    · rw [List.getElem?_eq_none (by rw [List.length_range]; omega), if_neg (by omega)]
      rfl

/-- once `nth` has answered `none`, every later `next` and every later `nth` answers `none`, and neither changes the
    state any more -/
theorem nth_none_stays {α} (xs : List α) (acc : Nat → Option α) (hacc : ∀ i, acc i = xs[i]?) (it : It) (k : Nat)
    (h : (nth xs.length acc it k).1 = none) :
    next xs.length acc (nth xs.length acc it k).2 = (none, (nth xs.length acc it k).2) ∧
    ∀ j, nth xs.length acc (nth xs.length acc it k).2 j = (none, (nth xs.length acc it k).2) := by
  rw [nth_eq_none_iff xs acc hacc] at h
  have hp : xs.length ≤ (nth xs.length acc it k).2.pos := by
    rw [nth_pos xs acc hacc, if_neg (by omega)]; omega
  exact ⟨next_exhausted _ acc _ hp, nth_exhausted _ acc _ hp⟩

/-! ## `size_hint` after `nth` -/

/-- `size_hint` after `nth(k)` is exact.  No side condition: when `it.pos + k ≥ len` (also with `it.pos > len`) the
    cursor is `max it.pos len ≥ len`, the hint is `(0, Some(0))`, and the truncated `len - (pos + k + 1)` is `0` too. -/
theorem sizeHint_after_nth {α} (xs : List α) (acc : Nat → Option α) (hacc : ∀ i, acc i = xs[i]?) (it : It) (k : Nat) :
    sizeHint xs.length (nth xs.length acc it k).2 =
      (xs.length - (it.pos + k + 1), some (xs.length - (it.pos + k + 1))) := by
  unfold sizeHint
  rw [nth_pos xs acc hacc]
  split
  · rfl
  · rw [show xs.length - max it.pos xs.length = 0 by omega, show xs.length - (it.pos + k + 1) = 0 by omega]

/-- the same, as the number of elements that the following `next` calls will yield -/
theorem sizeHint_after_nth_drop {α} (xs : List α) (acc : Nat → Option α) (hacc : ∀ i, acc i = xs[i]?) (it : It) (k : Nat) :
    sizeHint xs.length (nth xs.length acc it k).2 =
      ((xs.drop (it.pos + k + 1)).length, some (xs.drop (it.pos + k + 1)).length) := by
  rw [sizeHint_after_nth xs acc hacc, List.length_drop]

end Sucds.IndexIter

/-! ## `nth` over the `next` generated from `compact_vector.rs` -/
namespace Sucds.GenEq
open Sucds Sucds.IndexIter

/-- std's `nth(k)` over the generated `compact_vector::Iter::next` (a panic of `next` propagates) -/
def cvNth (c : Cfg) : GenFn.compact_vector_Iter → Nat → R (GenFn.compact_vector_Iter × Option Nat)
  | it, 0 => GenFn.compact_vector_Iter.next c it
  | it, k+1 => (GenFn.compact_vector_Iter.next c it).bind fun r => cvNth c r.1 k

/-- the generated `nth` is the model `nth` over `get_int`; the container is unchanged and nothing panics -/
theorem cv_nth_eq (c : Cfg) (cv : CV) (xs : List Nat) (h : CV.Rep cv xs) (hsz : cv.len * cv.width < 2^64)
    (hl : cv.len < 2^64) :
    ∀ (k pos : Nat),
      cvNth c ⟨cv, pos⟩ k =
        .ok (⟨cv, (nth cv.len (fun i => C17.okv (cv.getInt i)) ⟨pos⟩ k).2.pos⟩,
             (nth cv.len (fun i => C17.okv (cv.getInt i)) ⟨pos⟩ k).1) := by
  intro k
  induction k with
  | zero =>
    intro pos
    simp only [cvNth, nth]
    rw [cv_iter_next_eq c ⟨cv, pos⟩ xs h hsz hl]
    rfl
  | succ k ih =>
    intro pos
    simp only [cvNth, nth]
    rw [cv_iter_next_eq c ⟨cv, pos⟩ xs h hsz hl, bok]
    simp only [ciAbs]
    rw [ih]

/-- `nth_spec` for the generated `CompactVector` iterator, from any cursor: no panic, the answer is
    `xs[pos + k]?`, the cursor afterwards is `pos + k + 1` or `max pos len` -/
theorem cv_nth_spec (c : Cfg) (cv : CV) (xs : List Nat) (h : CV.Rep cv xs) (hsz : cv.len * cv.width < 2^64)
    (hl : cv.len < 2^64) (k pos : Nat) :
    cvNth c ⟨cv, pos⟩ k =
      .ok (⟨cv, if pos + k < xs.length then pos + k + 1 else max pos xs.length⟩, xs[pos + k]?) := by
  have hacc : ∀ i, (fun i => C17.okv (cv.getInt i)) i = xs[i]? := by
    intro i
    show C17.okv (cv.getInt i) = xs[i]?
    rw [CV.getInt_ok cv xs h i]; rfl
  rw [cv_nth_eq c cv xs h hsz hl, h.len]
  obtain ⟨h1, h2⟩ := nth_spec xs _ hacc k ⟨pos⟩
  rw [h1, h2]

/-- `CompactVector::iter().nth(k)` -/
theorem cv_iter_nth (c : Cfg) (cv : CV) (xs : List Nat) (h : CV.Rep cv xs) (hsz : cv.len * cv.width < 2^64)
    (hl : cv.len < 2^64) (k : Nat) :
    cvNth c (GenFn.CompactVector.iter cv) k = .ok (⟨cv, min (k + 1) xs.length⟩, xs[k]?) := by
  rw [cv_iter_eq, cv_nth_spec c cv xs h hsz hl k 0]
  simp only [Nat.zero_add]
  congr 2

end Sucds.GenEq
