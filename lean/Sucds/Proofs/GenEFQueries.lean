import Sucds.Gen.Fns
import Sucds.Proofs.GenBroadword
import Sucds.Proofs.GenBitVectorRW
import Sucds.Proofs.GenBitVectorScan
import Sucds.Proofs.GenIterators
import Sucds.Proofs.GenDArray
import Sucds.Proofs.GenEFBuilder
import Sucds.Props.C16
/-! # `EliasFano` as generated from `src/mii_sequences/elias_fano.rs` agrees with the model `EF` — part 1

`Sucds.GenFn.EliasFanoBuilder.build`, `Sucds.GenFn.EliasFano.{enable_rank, has_rank, len, is_empty, universe, select,
delta, rank, predecessor, successor}` (generated) versus `EF.ofBuilder`, `EF.enableRank`, `EF.select` …
(`Sucds/Model/EliasFanoFull.lean`), for every build configuration.

The hypothesis of the query theorems is `EFOk c e` (below): the `DArray` over the high bits is well formed
(`DAWf`, so the generated `DArray` queries are the model's) and answers `select1`/`select0`/`num_ones` per the
specification, `low_len < 64`, `len * low_len` and `universe` fit a `usize`.  `efok_of_setting` derives it from the
invariant of the C04 proofs (`EFQ.Setting`: "`e` stores what a builder holding `xs` holds"), `efok_ofBuilder` /
`efok_enableRank` for `build()` / `build().enable_rank()`. -/
set_option linter.unusedSimpArgs false
set_option linter.unusedVariables false
namespace Sucds.GenEq
open Sucds Sucds.Spec

/-! ## The invariant -/

/-- what the equivalence of the generated queries with the model needs of an `EliasFano` value -/
structure EFOk (c : Cfg) (e : EF) : Prop where
  /-- the high-bit `DArray`: well-formed vector below `2^63` bits, inventories within their Rust types -/
  wf      : DAWf c e.high
  numOnes : e.high.numOnes = cnt e.high.bv.bitAt e.high.bv.len
  select1 : ∀ k, e.high.select1 c k = .ok (sel e.high.bv.bitAt e.high.bv.len k)
  select0 : e.high.s0.isSome → ∀ k, e.high.select0 c k = .ok (sel (fun i => !e.high.bv.bitAt i) e.high.bv.len k)
  llt     : e.lowLen < 64
  /-- `k * low_len` does not overflow for `k ≤ len` -/
  lowFits : e.len * e.lowLen < 2^64
  ulim    : e.univ < 2^64

theorem ef_toList_length (b : BV) : b.toList.length = b.len := by
  unfold BV.toList; rw [List.length_map, List.length_range]

theorem ef_sel_of_lt (P : Nat → Bool) (n k : Nat) (h : k < cnt P n) : ∃ p, sel P n k = some p ∧ IsKth P n k p := by
  cases hs : sel P n k with
  | none => have := sel_none_le P n k hs; omega
  | some p => exact ⟨p, rfl, sel_isKth P n k p hs⟩

theorem ef_unwrap_bind_eq {α β : Type} (r : R (Option α)) (f : α → R β) :
    (r.bind fun t => (RS.unwrap t).bind f) = (unwrapO r).bind f := by
  cases r with
  | error e => rfl
  | ok o => cases o <;> rfl

/-! ## Constructors and accessors -/

/-- **`EliasFanoBuilder::build`** -/
theorem ef_build_eq (c : Cfg) (b : EFB) (hl : b.high.len < 2^63) :
    GenFn.EliasFanoBuilder.build c b = .ok (EF.ofBuilder c b) := by
  unfold GenFn.EliasFanoBuilder.build EF.ofBuilder
  rw [da_from_bits_eq c _ (by rw [ef_toList_length]; exact hl), bok]

/-- **`EliasFano::enable_rank`** -/
theorem ef_enable_rank_eq (c : Cfg) (e : EF) (h : e.high.bv.Inv) (hl : e.high.bv.len < 2^63) :
    GenFn.EliasFano.enable_rank c e = .ok (e.enableRank c) := by
  unfold GenFn.EliasFano.enable_rank EF.enableRank
  rw [da_enable_select0_eq c e.high h hl, bok]

theorem ef_len_eq (e : EF) : GenFn.EliasFano.len e = e.len := rfl
theorem ef_is_empty_eq (e : EF) : GenFn.EliasFano.is_empty e = (e.len == 0) := rfl
theorem ef_universe_eq (e : EF) : GenFn.EliasFano.universe e = e.univ := rfl
theorem ef_has_rank_eq (e : EF) : GenFn.EliasFano.has_rank e = e.hasRank := rfl

/-! ## `select`, `delta` -/

/-- the position of the `k`-th one of the high bits, for `k < len` -/
theorem ef_high_one (c : Cfg) (e : EF) (ok : EFOk c e) (k : Nat) (hk : k < e.len) :
    ∃ p, GenFn.DArray.select1 c e.high k = .ok (some p) ∧ e.high.select1 c k = .ok (some p) ∧
      IsKth e.high.bv.bitAt e.high.bv.len k p ∧ k ≤ p := by
  have hk' : k < cnt e.high.bv.bitAt e.high.bv.len := by rw [← ok.numOnes]; exact hk
  obtain ⟨p, hp, hkth⟩ := ef_sel_of_lt _ _ _ hk'
  refine ⟨p, ?_, ?_, hkth, ?_⟩
  · rw [wf_select1_eq c _ ok.wf k, ok.select1 k, hp]
  · rw [ok.select1 k, hp]
  · rw [← hkth.2.2]; exact cnt_le _ _

theorem ef_chunk_fits (c : Cfg) (e : EF) (ok : EFOk c e) (k : Nat) (hk : k < e.len) :
    k * e.lowLen + e.lowLen < 2^64 := by
  have h1 : (k + 1) * e.lowLen ≤ e.len * e.lowLen := Nat.mul_le_mul_right _ hk
  rw [Nat.add_mul, Nat.one_mul] at h1
  have := ok.lowFits
  omega

/-- **`EliasFano::select`** -/
theorem ef_select_eq (c : Cfg) (e : EF) (ok : EFOk c e) (k : Nat) :
    GenFn.EliasFano.select c e k = EF.select c e k := by
  unfold GenFn.EliasFano.select EF.select
  rw [ef_len_eq]
  by_cases hk : e.len ≤ k
  · rw [if_pos hk, if_pos hk]
  · rw [if_neg hk, if_neg hk]
    have hk' : k < e.len := Nat.lt_of_not_le hk
    obtain ⟨p, hg, hm, _, hkp⟩ := ef_high_one c e ok k hk'
    have hf := ef_chunk_fits c e ok k hk'
    rw [hg, hm, bok, EFQ.unwrapO_some, bok]
    show (csub c p k).bind _ = _
    rw [csub_ok c hkp, bok, cshl_ok c ok.llt, bok, cmul_ok c (by omega), bok,
      get_bits_eq_of c _ _ _ (.inl hf), ef_unwrap_bind_eq]
    cases unwrapO (e.low.getBits (k * e.lowLen) e.lowLen) with
    | error x => rfl
    | ok v => rw [bok, bok, bok, cshl_ok c ok.llt, bok]

/-- one common step of two bind chains, the generated one being followed by a continuation `G` -/
theorem ef_op_step {α β γ : Type} {A : R α} {f : α → R β} {G : β → R γ} {f' : α → R γ}
    (h : ∀ v, (f v).bind G = f' v) : (A.bind f).bind G = A.bind f' := by
  cases A with
  | error e => rfl
  | ok v => exact h v

/-- the same for `x.unwrap()` against the model's `unwrapO` -/
theorem ef_unwrap_step {α β γ : Type} {A : R (Option α)} {f : α → R β} {G : β → R γ} {f' : α → R γ}
    (h : ∀ v, (f v).bind G = f' v) : (A.bind fun t => (RS.unwrap t).bind f).bind G = (unwrapO A).bind f' := by
  cases A with
  | error e => rfl
  | ok o =>
    cases o with
    | none => rfl
    | some v => exact h v

theorem ef_bind_assoc {α β γ : Type} (A : R α) (f : α → R β) (g : β → R γ) :
    (A.bind f).bind g = A.bind fun v => (f v).bind g := by
  cases A <;> rfl

theorem ef_bind_congr {α β : Type} {A : R α} {f g : α → R β} (h : ∀ v, f v = g v) : A.bind f = A.bind g := by
  cases A with
  | error e => rfl
  | ok v => exact h v

/-- **`EliasFano::delta`** -/
theorem ef_delta_eq (c : Cfg) (e : EF) (ok : EFOk c e) (k : Nat) :
    GenFn.EliasFano.delta c e k = EF.delta c e k := by
  unfold GenFn.EliasFano.delta EF.delta
  rw [ef_len_eq]
  by_cases hk : e.len ≤ k
  · rw [if_pos hk, if_pos hk]
  · rw [if_neg hk, if_neg hk]
    have hk' : k < e.len := Nat.lt_of_not_le hk
    obtain ⟨p, hg, hm, _, hkp⟩ := ef_high_one c e ok k hk'
    have hf := ef_chunk_fits c e ok k hk'
    rw [hg, hm, bok, EFQ.unwrapO_some, bok]
    show (cmul c k e.lowLen).bind _ = _
    rw [cmul_ok c (by omega), bok, get_bits_eq_of c _ _ _ (.inl hf), ef_unwrap_bind_eq]
    refine ef_bind_congr fun lv => ?_
    by_cases h0 : k ≠ 0
    · rw [if_pos h0, if_pos h0]
      have hf1 := ef_chunk_fits c e ok (k - 1) (by omega)
      refine ef_op_step fun t3 => ?_
      rw [da_bit_vector_eq, predecessor1_eq c e.high.bv ok.wf.inv (by have := ok.wf.len; omega)]
      refine ef_unwrap_step fun t5 => ?_
      refine ef_op_step fun t6 => ?_
      refine ef_op_step fun t7 => ?_
      refine ef_op_step fun t8 => ?_
      refine ef_op_step fun t9 => ?_
      rw [csub_ok c (by omega : 1 ≤ k), bok, cmul_ok c (by omega), bok, get_bits_eq_of c _ _ _ (.inl hf1)]
      refine ef_unwrap_step fun t13 => ?_
      cases csub c t9 t13 <;> rfl
    · rw [if_neg h0, if_neg h0]
      refine ef_op_step fun d => ?_
      refine ef_op_step fun hi => ?_
      rfl

/-! ## `rank` -/

/-- the condition of the backward scan of `rank` (`ef_rank_unfold` ties it to the generated text) -/
def efRankCond (c : Cfg) (e : EF) (l_pos : Nat) (st : Nat × Nat) : R Bool :=
  (if (decide (st.2 > 0)) then
    (csub c st.2 1).bind fun t3 =>
    (GenFn.DArray.access c e.high t3).bind fun t4 =>
    RS.unwrap t4
  else .ok false : R _).bind fun t6 =>
  (if t6 then
    (csub c st.1 1).bind fun t7 =>
    (cmul c t7 e.lowLen).bind fun t8 =>
    (GenFn.BitVector.get_bits c e.low t8 e.lowLen).bind fun t9 =>
    (RS.unwrap t9).bind fun t10 =>
    .ok (decide (t10 ≥ l_pos))
  else .ok false : R _)

/-- its body -/
def efRankBody (c : Cfg) (st : Nat × Nat) : R (Nat × Nat) :=
  (csub c st.1 1).bind fun rank3 =>
  (csub c st.2 1).bind fun h_pos3 =>
  .ok (rank3, h_pos3)

theorem ef_rank_unfold (c : Cfg) (e : EF) (pos : Nat) :
    GenFn.EliasFano.rank c e pos =
      if e.univ < pos then .ok none
      else if e.univ = pos then .ok (some e.len)
      else
        (cshr c pos e.lowLen).bind fun h_rank =>
        (GenFn.DArray.select0 c e.high h_rank).bind fun t =>
        (RS.unwrap t).bind fun h_pos =>
        (csub c h_pos h_rank).bind fun rank =>
        (cshl c 1 e.lowLen).bind fun t1 =>
        (csub c t1 1).bind fun t2 =>
        (RS.whileLoop (rank, h_pos) (efRankCond c e (pos &&& t2)) (efRankBody c)).bind fun st2 =>
        .ok (some st2.1) := rfl

/-- the generated `while` loop of `rank` against the model's `rankLoop`: the loop state satisfies
    `rank = #ones below h_pos`, so `rank - 1` cannot underflow when the bit below `h_pos` is set -/
theorem ef_rank_loop (c : Cfg) (e : EF) (ok : EFOk c e) (lPos : Nat) :
    ∀ (n N rank hPos : Nat), rank < n → rank < N → hPos ≤ e.high.bv.len → rank = cnt e.high.bv.bitAt hPos →
      (RS.whileFuel (efRankCond c e lPos) (efRankBody c) N (rank, hPos)).bind (fun st => .ok (some st.1))
        = (e.rankLoop lPos hPos rank n).bind fun r => .ok (some r) := by
  intro n
  induction n with
  | zero => intro N rank hPos h; omega
  | succ n ih =>
    intro N rank hPos hn hN hlen hcnt
    obtain ⟨N', rfl⟩ : ∃ N', N = N' + 1 := ⟨N - 1, by omega⟩
    rw [whileFuel_succ, EF.rankLoop]
    by_cases h0 : hPos = 0
    · subst h0
      rw [if_pos rfl]
      rfl
    · rw [if_neg h0]
      have hlt : hPos - 1 < e.high.bv.len := by omega
      have hacc : GenFn.DArray.access c e.high (hPos - 1) = .ok (some (e.high.bv.bitAt (hPos - 1))) := by
        rw [da_access_eq]; unfold DA.access
        rw [BV.getBit_ok _ ok.wf.inv, if_pos hlt]
      have hacc' : e.high.access (hPos - 1) = .ok (some (e.high.bv.bitAt (hPos - 1))) := by
        unfold DA.access
        rw [BV.getBit_ok _ ok.wf.inv, if_pos hlt]
      have hc1 : (if (decide (hPos > 0)) then
            (csub c hPos 1).bind fun t3 => (GenFn.DArray.access c e.high t3).bind fun t4 => RS.unwrap t4
          else .ok false : R Bool) = .ok (e.high.bv.bitAt (hPos - 1)) := by
        rw [if_pos (decide_eq_true (by omega : hPos > 0)), csub_ok c (by omega : 1 ≤ hPos), bok, hacc, bok]; rfl
      rw [hacc', EFQ.unwrapO_some, bok]
      unfold efRankCond
      simp only []
      rw [hc1, bok]
      cases hb : e.high.bv.bitAt (hPos - 1) with
      | false => rfl
      | true =>
        have hstep : cnt e.high.bv.bitAt hPos = cnt e.high.bv.bitAt (hPos - 1) + 1 := by
          have := cnt_succ_of_true e.high.bv.bitAt (hPos - 1) hb
          rw [show hPos - 1 + 1 = hPos by omega] at this
          exact this
        have hr0 : rank ≠ 0 := by omega
        have hrl : rank ≤ e.len := by
          have h1 := cnt_mono e.high.bv.bitAt hlen
          have h2 := ok.numOnes
          show rank ≤ e.high.numOnes
          omega
        have hf := ef_chunk_fits c e ok (rank - 1) (by omega)
        rw [if_pos rfl, csub_ok c (by omega : 1 ≤ rank), bok, cmul_ok c (by omega), bok,
          get_bits_eq_of c _ _ _ (.inl hf)]
        simp only [Bool.not_true, Bool.false_eq_true, if_false, hr0]
        refine ((ef_bind_assoc _ _ _).trans ?_).trans (ef_bind_assoc _ _ _).symm
        refine ef_unwrap_step fun lv => ?_
        by_cases hlv : lv ≥ lPos
        · rw [if_pos hlv, bok, if_pos (decide_eq_true hlv)]
          unfold efRankBody
          simp only []
          rw [csub_ok c (by omega : 1 ≤ rank), bok, csub_ok c (by omega : 1 ≤ hPos), bok, bok]
          exact ih N' (rank - 1) (hPos - 1) (by omega) (by omega) (by omega) (by omega)
        · rw [if_neg hlv, bok, if_neg (by simpa using hlv)]
          rfl

/-- **`EliasFano::rank`** -/
theorem ef_rank_eq (c : Cfg) (e : EF) (ok : EFOk c e) (pos : Nat) :
    GenFn.EliasFano.rank c e pos = EF.rank c e pos := by
  rw [ef_rank_unfold]
  unfold EF.rank
  by_cases h1 : e.univ < pos
  · rw [if_pos h1, if_pos h1]
  · rw [if_neg h1, if_neg h1]
    by_cases h2 : e.univ = pos
    · rw [if_pos h2, if_pos h2]
    · rw [if_neg h2, if_neg h2]
      have hl := ok.llt
      rw [cshr_ok c hl, bok, wf_select0_eq c _ ok.wf, ef_unwrap_bind_eq]
      simp only []
      cases hs0 : e.high.s0 with
      | none =>
        have : e.high.select0 c (pos >>> e.lowLen) = .error .expect := by
          unfold DA.select0; rw [hs0]
        rw [this]; rfl
      | some s =>
        rw [ok.select0 (by rw [hs0]; rfl)]
        cases hsel : sel (fun i => !e.high.bv.bitAt i) e.high.bv.len (pos >>> e.lowLen) with
        | none => rfl
        | some hPos =>
          obtain ⟨k1, k2, k3⟩ := sel_isKth _ _ _ _ hsel
          have hcc := cnt_compl e.high.bv.bitAt hPos
          have hle : pos >>> e.lowLen ≤ hPos := by omega
          rw [EFQ.unwrapO_some, bok, bok, csub_ok c hle, bok, bok, cshl_ok c hl, bok,
            Nat.mod_eq_of_lt (one_shl_lt _ hl), csub_ok c (one_shl_pos _), bok, whileLoop_eq]
          have hmono := cnt_mono e.high.bv.bitAt (Nat.le_of_lt k1)
          have hno := ok.numOnes
          have hlen := ok.wf.len
          have hcl := cnt_le e.high.bv.bitAt hPos
          have hel : e.len = e.high.numOnes := rfl
          exact ef_rank_loop c e ok _ (e.len + 1) RS.FUEL (hPos - pos >>> e.lowLen) hPos (by omega)
            (by rw [FUEL_eq]; omega) (Nat.le_of_lt k1) (by omega)

/-! ## `predecessor`, `successor` -/

/-- **`EliasFano::predecessor`** -/
theorem ef_predecessor_eq (c : Cfg) (e : EF) (ok : EFOk c e) (pos : Nat) :
    GenFn.EliasFano.predecessor c e pos = EF.predecessor c e pos := by
  unfold GenFn.EliasFano.predecessor EF.predecessor
  rw [ef_universe_eq]
  by_cases h1 : e.univ ≤ pos
  · rw [if_pos h1, if_pos h1]
  · rw [if_neg h1, if_neg h1]
    have hu := ok.ulim
    rw [cadd_ok c (by omega), bok, ef_rank_eq c e ok, ef_unwrap_bind_eq]
    refine ef_bind_congr fun i => ?_
    simp only []
    by_cases hi : i > 0
    · rw [if_pos (decide_eq_true hi), if_pos hi, bok]
      simp only []
      rw [csub_ok c (by omega : 1 ≤ i), bok, ef_select_eq c e ok, ef_unwrap_bind_eq]
    · rw [if_neg (by simpa using hi), if_neg hi, bok]

/-- **`EliasFano::successor`** -/
theorem ef_successor_eq (c : Cfg) (e : EF) (ok : EFOk c e) (pos : Nat) :
    GenFn.EliasFano.successor c e pos = EF.successor c e pos := by
  unfold GenFn.EliasFano.successor EF.successor
  rw [ef_universe_eq, ef_len_eq]
  by_cases h1 : e.univ ≤ pos
  · rw [if_pos h1, if_pos h1]
  · rw [if_neg h1, if_neg h1]
    rw [ef_rank_eq c e ok, ef_unwrap_bind_eq]
    refine ef_bind_congr fun i => ?_
    simp only []
    by_cases hi : i < e.len
    · rw [if_pos (decide_eq_true hi), if_pos hi, bok]
      simp only []
      rw [ef_select_eq c e ok, ef_unwrap_bind_eq]
    · rw [if_neg (by simpa using hi), if_neg hi, bok]

/-! ## Where `EFOk` comes from -/

/-- the invariant of the C04 proofs (`EFQ.Setting`), a well-formed high-bit `DArray` and `len * low_len < 2^64`
    give `EFOk` -/
theorem efok_of_setting (c : Cfg) (e : EF) (b : EFB) (xs : List Nat) (S : EFQ.Setting c e b xs)
    (wf : DAWf c e.high) (hf : xs.length * b.lowLen < 2^64) : EFOk c e where
  wf := wf
  numOnes := by rw [S.high.bv]; exact S.high.numOnes
  select1 := by rw [S.high.bv]; exact S.high.select1
  select0 := by rw [S.high.bv]; exact S.high.select0
  llt := by rw [S.lowLen]; exact S.holds.llt
  lowFits := by rw [EFQ.len_eq S, S.lowLen]; exact hf
  ulim := by rw [S.univ]; exact S.ulim

theorem ef_fromBits_toList (b : BV) (h : b.Inv) : BV.fromBits b.toList = b :=
  BV.eq_of_toList _ _ (BV.fromBits_spec _).1 h (BV.fromBits_spec _).2

theorem ef_ofBuilder_high (c : Cfg) (b : EFB) (h : b.high.Inv) : (EF.ofBuilder c b).high = DA.build c b.high false false := by
  show DA.fromBV c (BV.fromBits b.high.toList) = DA.build c b.high false false
  rw [ef_fromBits_toList _ h]; rfl

theorem ef_enableRank_high (c : Cfg) (b : EFB) (h : b.high.Inv) :
    ((EF.ofBuilder c b).enableRank c).high = DA.build c b.high false true := by
  show (DA.fromBV c (BV.fromBits b.high.toList)).enableSelect0 c = DA.build c b.high false true
  rw [ef_fromBits_toList _ h]; rfl

/-- `build()` of a builder holding `xs` (high bits below `2^63`, low bits below `2^64`) satisfies `EFOk` -/
theorem efok_ofBuilder (c : Cfg) (b : EFB) (xs : List Nat) (h : EFB.Holds b xs) (hu : b.univ < 2^64)
    (hl : b.high.len < 2^63) (hf : xs.length * b.lowLen < 2^64) : EFOk c (EF.ofBuilder c b) := by
  refine efok_of_setting c _ b xs (EFQ.setting_ofBuilder c b xs h hu (EFQ.high_ofBuilder c b xs h)) ?_ hf
  rw [ef_ofBuilder_high c b h.hinv]
  exact build_wf c b.high h.hinv hl false false

/-- `build().enable_rank()` likewise -/
theorem efok_enableRank (c : Cfg) (b : EFB) (xs : List Nat) (h : EFB.Holds b xs) (hu : b.univ < 2^64)
    (hl : b.high.len < 2^63) (hf : xs.length * b.lowLen < 2^64) : EFOk c ((EF.ofBuilder c b).enableRank c) := by
  refine efok_of_setting c _ b xs (EFQ.setting_enableRank c b xs h hu (EFQ.high_enableRank c b xs h)) ?_ hf
  rw [ef_enableRank_high c b h.hinv]
  exact build_wf c b.high h.hinv hl false true

/-- the generated `enable_rank` on the result of the generated `build` -/
theorem ef_build_enable_rank_eq (c : Cfg) (b : EFB) (hi : b.high.Inv) (hl : b.high.len < 2^63) :
    (GenFn.EliasFanoBuilder.build c b).bind (GenFn.EliasFano.enable_rank c) = .ok ((EF.ofBuilder c b).enableRank c) := by
  rw [ef_build_eq c b hl, bok]
  have hbv : (EF.ofBuilder c b).high.bv = b.high := EFQ.ofBuilder_bv c b hi
  exact ef_enable_rank_eq c _ (by rw [hbv]; exact hi) (by rw [hbv]; exact hl)

end Sucds.GenEq
