import Sucds.Proofs.GenWaveletSpec
import Sucds.Proofs.GenRank9Sel
import Sucds.Proofs.GenDArray
/-! # The functions generated from `src/char_sequences/wavelet_matrix.rs` agree with the model `WM`

    For each of the three backings `B` (`Rank9Sel`, `DArray`, `BitVector`) the translator emits a copy
    `GenFn.WaveletMatrix_<B>.*`.  Each copy is, definitionally, the generic `GW.*` of `GenWaveletOps.lean` at the
    operations of `B` (`r9ops`, `daops`, `bvops`; the `*_bridge` theorems, by unfolding and `rfl`).  The layer-level
    facts (`*_buildOK`: `B::build_from_bits(bits, true, true, true)` is `Lay.build`, and the layer answers like the
    model's: `LOK`) come from `GenRank9Sel`, `GenDArray`, `GenBitVectorRW/Scan`.  Everything else is the generic
    development (`GenWaveletQueries`, `GenWaveletNew`, `GenWaveletSpec`).

    Abstraction: `absR9 g = ⟨g.layers.map Lay.r9, g.alph_size_⟩` (resp. `absDA`, `absBV`).
    Well-formedness: `WOK r9ops c g.layers` (every layer `LOK`, at most 64 layers) — established by `new`. -/
set_option linter.unusedSimpArgs false
set_option linter.unusedVariables false
namespace Sucds.GenEq
open Sucds Sucds.Spec

/-- the generated `DArray` operations -/
def daops : LOps DA where
  kind := .da
  toLay := Lay.da
  build := GenFn.DArray.build_from_bits
  access := GenFn.DArray.access
  rank1 := GenFn.DArray.rank1
  rank0 := GenFn.DArray.rank0
  select1 := GenFn.DArray.select1
  select0 := GenFn.DArray.select0
  numZeros := GenFn.DArray.num_zeros
  numBits := GenFn.DArray.num_bits

/-- the generated `BitVector` operations -/
def bvops : LOps BV where
  kind := .bv
  toLay := Lay.bv
  build := GenFn.BitVector.build_from_bits
  access := GenFn.BitVector.access
  rank1 := GenFn.BitVector.rank1
  rank0 := GenFn.BitVector.rank0
  select1 := GenFn.BitVector.select1
  select0 := GenFn.BitVector.select0
  numZeros := GenFn.BitVector.num_zeros
  numBits := GenFn.BitVector.num_bits

/-! ## Layer level: the three backings -/

/-- **`Rank9Sel`** as a wavelet layer -/
theorem r9_buildOK (c : Cfg) (n : Nat) (hn : n + 1534 < 2^64) : BuildOK r9ops c n := by
  intro bits hl
  obtain ⟨x, hx, hg, _, q⟩ := rank9sel_eq c bits true true true (by omega)
  obtain ⟨l, hl1, hl2⟩ := Wav.backing_r9 c bits
  have hlay : Lay.build c .r9 (BV.fromBits bits) = .ok (.r9 x) := by
    simp only [Lay.build, hx, bok]
  rw [hlay] at hl1
  injection hl1 with hl1
  subst hl1
  exact ⟨x, hg, hlay, ⟨⟨bits, hl2, by omega⟩, fun p _ => q.access p, q.rank1, q.rank0, q.select1, q.select0,
    q.num_zeros, q.num_bits⟩⟩

/-- **`DArray`** as a wavelet layer -/
theorem da_buildOK (c : Cfg) (n : Nat) (hn : n < 2^63) : BuildOK daops c n := by
  intro bits hl
  have hinv := (BV.fromBits_spec bits).1
  have hlen := BV.fromBits_len bits
  have w := build_wf c (BV.fromBits bits) hinv (by omega) true true
  obtain ⟨l, hl1, hl2⟩ := Wav.backing_da c bits
  have hlay : Lay.build c .da (BV.fromBits bits) = .ok (.da (DA.build c (BV.fromBits bits) true true)) := rfl
  rw [hlay] at hl1
  injection hl1 with hl1
  subst hl1
  exact ⟨_, da_build_from_bits_eq c bits true true true (by omega), hlay,
    ⟨⟨bits, hl2, by omega⟩, fun p _ => da_access_eq c _ p, wf_rank1_eq c _ w, wf_rank0_eq c _ w,
      fun k _ => wf_select1_eq c _ w k, fun k _ => wf_select0_eq c _ w k, rfl, rfl⟩⟩

/-- **`BitVector`** as a wavelet layer -/
theorem bv_buildOK (c : Cfg) (n : Nat) (hn : n + 63 < 2^64) : BuildOK bvops c n := by
  intro bits hl
  have hinv := (BV.fromBits_spec bits).1
  have hlen := BV.fromBits_len bits
  obtain ⟨l, hl1, hl2⟩ := Wav.backing_bv c bits
  have hlay : Lay.build c .bv (BV.fromBits bits) = .ok (.bv (BV.fromBits bits)) := rfl
  rw [hlay] at hl1
  injection hl1 with hl1
  subst hl1
  refine ⟨_, build_from_bits_eq c bits true true true (by omega), hlay,
    ⟨⟨bits, hl2, by omega⟩, fun p _ => access_eq c _ p, rank1_eq c _ hinv, rank0_eq c _ hinv,
      select1_eq c _ hinv (by omega), select0_eq c _ hinv (by omega), ?_, rfl⟩⟩
  show GenFn.BitVector.num_zeros c (BV.fromBits bits) = Lay.numZeros c (.bv (BV.fromBits bits))
  unfold GenFn.BitVector.num_zeros Lay.numZeros
  rw [num_ones_eq c _ hinv (by omega)]
  rfl

/-! ## `WaveletMatrix<Rank9Sel>` -/

/-- the model value a generated `WaveletMatrix<Rank9Sel>` stands for -/
def absR9 (g : GenFn.WaveletMatrix_Rank9Sel) : WM := ⟨g.layers.map Lay.r9, g.alph_size_⟩

/-! ### the generated copy is the generic definition at `r9ops` -/

theorem r9_len_bridge (self : GenFn.WaveletMatrix_Rank9Sel) :
    GenFn.WaveletMatrix_Rank9Sel.len self = GW.len r9ops self.layers := by
  unfold GenFn.WaveletMatrix_Rank9Sel.len GW.len
  unfold_matchers
  rfl

theorem r9_access_bridge (c : Cfg) (self : GenFn.WaveletMatrix_Rank9Sel) (pos : Nat) :
    GenFn.WaveletMatrix_Rank9Sel.access c self pos = GW.access r9ops c self.layers pos := by
  unfold GenFn.WaveletMatrix_Rank9Sel.access GW.access
  rw [r9_len_bridge]
  rfl

theorem r9_rank_range_bridge (c : Cfg) (self : GenFn.WaveletMatrix_Rank9Sel) (range : Nat × Nat) (val : Nat) :
    GenFn.WaveletMatrix_Rank9Sel.rank_range c self range val = GW.rankRange r9ops c self.layers self.alph_size_ range val := by
  unfold GenFn.WaveletMatrix_Rank9Sel.rank_range GW.rankRange
  rw [r9_len_bridge]
  rfl

theorem r9_rank_bridge (c : Cfg) (self : GenFn.WaveletMatrix_Rank9Sel) (pos val : Nat) :
    GenFn.WaveletMatrix_Rank9Sel.rank c self pos val = GW.rank r9ops c self.layers self.alph_size_ pos val :=
  r9_rank_range_bridge c self (0, pos) val

theorem r9_select_helper_bridge (c : Cfg) (self : GenFn.WaveletMatrix_Rank9Sel) : ∀ (fuel k val pos depth : Nat),
    GenFn.WaveletMatrix_Rank9Sel.select_helper c fuel self k val pos depth =
      GW.selectHelper r9ops c fuel self.layers k val pos depth := by
  intro fuel
  induction fuel with
  | zero => intro k val pos depth; rfl
  | succ f ih =>
    intro k val pos depth
    rw [GenFn.WaveletMatrix_Rank9Sel.select_helper, GW.selectHelper]
    simp only [ih]
    unfold_matchers
    rfl

theorem r9_select_bridge (c : Cfg) (self : GenFn.WaveletMatrix_Rank9Sel) (k val : Nat) :
    GenFn.WaveletMatrix_Rank9Sel.select c self k val = GW.select r9ops c self.layers self.alph_size_ k val := by
  unfold GenFn.WaveletMatrix_Rank9Sel.select GW.select
  rw [r9_len_bridge, r9_select_helper_bridge]
  rfl

theorem r9_quantile_bridge (c : Cfg) (self : GenFn.WaveletMatrix_Rank9Sel) (range : Nat × Nat) (k : Nat) :
    GenFn.WaveletMatrix_Rank9Sel.quantile c self range k = GW.quantile r9ops c self.layers range k := by
  unfold GenFn.WaveletMatrix_Rank9Sel.quantile GW.quantile
  rw [r9_len_bridge]
  rfl

theorem r9_intersect_helper_bridge (c : Cfg) (self : GenFn.WaveletMatrix_Rank9Sel) :
    ∀ (fuel : Nat) (ranges : Array (Nat × Nat)) (k depth pre : Nat),
    GenFn.WaveletMatrix_Rank9Sel.intersect_helper c fuel self ranges k depth pre =
      GW.intersectHelper r9ops c fuel self.layers ranges k depth pre := by
  intro fuel
  induction fuel with
  | zero => intro ranges k depth pre; rfl
  | succ f ih =>
    intro ranges k depth pre
    rw [GenFn.WaveletMatrix_Rank9Sel.intersect_helper, GW.intersectHelper]
    simp only [ih]
    unfold_matchers
    rfl

theorem r9_intersect_bridge (c : Cfg) (self : GenFn.WaveletMatrix_Rank9Sel) (ranges : Array (Nat × Nat)) (k : Nat) :
    GenFn.WaveletMatrix_Rank9Sel.intersect c self ranges k = GW.intersect r9ops c self.layers ranges k := by
  unfold GenFn.WaveletMatrix_Rank9Sel.intersect GW.intersect
  rw [r9_intersect_helper_bridge]

theorem r9_is_empty_bridge (self : GenFn.WaveletMatrix_Rank9Sel) :
    GenFn.WaveletMatrix_Rank9Sel.is_empty self = GW.isEmpty r9ops self.layers := by
  unfold GenFn.WaveletMatrix_Rank9Sel.is_empty GW.isEmpty
  rw [r9_len_bridge]

theorem r9_filter_bridge : @GenFn.WaveletMatrix_Rank9Sel.filter = @GW.filter := rfl

theorem r9_new_bridge (c : Cfg) (seq : CV) :
    GenFn.WaveletMatrix_Rank9Sel.new c seq =
      GW.new r9ops (fun l a => ({ layers := l, alph_size_ := a } : GenFn.WaveletMatrix_Rank9Sel)) c seq := by
  unfold GenFn.WaveletMatrix_Rank9Sel.new GW.new GW.maxBody GW.newBody
  rw [r9_filter_bridge]
  unfold_matchers
  rfl

theorem r9_iter_next_bridge (c : Cfg) (it : GenFn.wavelet_matrix_Iter_Rank9Sel) :
    GenFn.wavelet_matrix_Iter_Rank9Sel.next c it =
      (GW.iterNext r9ops c it.wm.layers it.pos).bind fun r => .ok (({ it with pos := r.1 } : GenFn.wavelet_matrix_Iter_Rank9Sel), r.2) := by
  unfold GenFn.wavelet_matrix_Iter_Rank9Sel.next GW.iterNext
  rw [r9_len_bridge, r9_access_bridge]
  cases GW.len r9ops it.wm.layers with
  | error e => rfl
  | ok t =>
    simp only [bok]
    by_cases hp : it.pos < t
    · simp only [hp, if_true]
      cases GW.access r9ops c it.wm.layers it.pos with
      | error e => rfl
      | ok t1 =>
        simp only [bok]
        cases RS.unwrap t1 with
        | error e => rfl
        | ok x =>
          simp only [bok]
          cases cadd c it.pos 1 <;> rfl
    · simp only [hp, if_false, bok]

theorem r9_iter_size_hint_bridge (c : Cfg) (it : GenFn.wavelet_matrix_Iter_Rank9Sel) :
    GenFn.wavelet_matrix_Iter_Rank9Sel.size_hint c it = GW.iterSizeHint r9ops c it.wm.layers it.pos := by
  unfold GenFn.wavelet_matrix_Iter_Rank9Sel.size_hint GW.iterSizeHint
  rw [r9_len_bridge]

/-! ### generated = model on the abstraction

    `hg : WOK r9ops c g.layers` (every layer answers like its model layer; at most 64 layers) holds of every value
    returned by `new` (`wm_new_eq`); the arguments are `usize` values. -/

/-- **`new`** on a non-empty sequence: the generated constructor returns `Ok(g)` where the model returns `absR9 g` -/
theorem wm_new_eq (c : Cfg) (cv : CV) (s : List Nat) (h : CV.Rep cv s) (hne : s ≠ [])
    (hmax : s.foldl max 0 + 1 < 2^64) (hn : s.length < 2^63) (hsz : cv.len * cv.width < 2^64)
    (hnW : s.length * SpecX.bitlen (s.foldl max 0 + 1) < 2^64) :
    ∃ g, GenFn.WaveletMatrix_Rank9Sel.new c cv = .ok (.ok g) ∧ WM.new c .r9 s = .ok (some (absR9 g)) ∧
      g.alph_size_ = s.foldl max 0 + 1 ∧ GBuilt r9ops c g.layers g.alph_size_ s := by
  obtain ⟨ls, hg, hm, hb⟩ := gw_new_built r9ops c (fun l a => ({ layers := l, alph_size_ := a } : GenFn.WaveletMatrix_Rank9Sel))
    cv s h hne hmax hn hsz hnW (r9_buildOK c s.length (by omega))
  exact ⟨⟨ls, s.foldl max 0 + 1⟩, by rw [r9_new_bridge]; exact hg, hm, rfl, hb⟩

/-- **`new`** on the empty sequence: `Err` in the code, `none` in the model -/
theorem wm_new_nil (c : Cfg) (cv : CV) (h : CV.Rep cv []) :
    GenFn.WaveletMatrix_Rank9Sel.new c cv = .ok .err ∧ WM.new c .r9 [] = .ok none :=
  ⟨by rw [r9_new_bridge]; exact gw_new_nil r9ops c _ cv h, rfl⟩

theorem wm_access_eq (c : Cfg) (g : GenFn.WaveletMatrix_Rank9Sel) (hg : WOK r9ops c g.layers) (pos : Nat) (hp : pos < 2^64) :
    GenFn.WaveletMatrix_Rank9Sel.access c g pos = (absR9 g).access c pos := by
  rw [r9_access_bridge]; exact gw_access_eq r9ops c g.layers g.alph_size_ hg pos hp

theorem wm_rank_range_eq (c : Cfg) (g : GenFn.WaveletMatrix_Rank9Sel) (hg : WOK r9ops c g.layers) (a b val : Nat)
    (ha : a < 2^64) (hb : b < 2^64) :
    GenFn.WaveletMatrix_Rank9Sel.rank_range c g (a, b) val = (absR9 g).rankRange c a b val := by
  rw [r9_rank_range_bridge]; exact gw_rankRange_eq r9ops c g.layers g.alph_size_ hg a b val ha hb

theorem wm_rank_eq (c : Cfg) (g : GenFn.WaveletMatrix_Rank9Sel) (hg : WOK r9ops c g.layers) (pos val : Nat) (hp : pos < 2^64) :
    GenFn.WaveletMatrix_Rank9Sel.rank c g pos val = (absR9 g).rank c pos val := by
  rw [r9_rank_bridge]; exact gw_rank_eq r9ops c g.layers g.alph_size_ hg pos val hp

theorem wm_select_eq (c : Cfg) (g : GenFn.WaveletMatrix_Rank9Sel) (hg : WOK r9ops c g.layers) (k val : Nat) (hk : k < 2^64) :
    GenFn.WaveletMatrix_Rank9Sel.select c g k val = (absR9 g).select c k val := by
  rw [r9_select_bridge]; exact gw_select_eq r9ops c g.layers g.alph_size_ hg k val hk

/-- `select_helper` with enough fuel (the callers pass `RS.FUEL = 2^64`) is the model's recursion on the remaining layers -/
theorem wm_select_helper_eq (c : Cfg) (g : GenFn.WaveletMatrix_Rank9Sel) (hg : WOK r9ops c g.layers) (fuel k val pos depth : Nat)
    (hd : depth ≤ g.layers.size) (hf : g.layers.size - depth < fuel) (hk : k < 2^64) (hp : pos < 2^64) :
    GenFn.WaveletMatrix_Rank9Sel.select_helper c fuel g k val pos depth =
      WM.selectHelper c g.layers.size val ((g.layers.toList.drop depth).map Lay.r9) depth k pos := by
  rw [r9_select_helper_bridge]
  exact (selectHelper_eq r9ops c g.layers hg k val hk (g.layers.size - depth) fuel depth pos (by omega) hf hp).1

theorem wm_quantile_eq (c : Cfg) (g : GenFn.WaveletMatrix_Rank9Sel) (hg : WOK r9ops c g.layers) (a b k : Nat)
    (ha : a < 2^64) (hb : b < 2^64) :
    GenFn.WaveletMatrix_Rank9Sel.quantile c g (a, b) k = (absR9 g).quantile c a b k := by
  rw [r9_quantile_bridge]; exact gw_quantile_eq r9ops c g.layers g.alph_size_ hg a b k ha hb

/-- `intersect` (the code returns a `Vec<usize>`, the model a list; no hypothesis on the ranges) -/
theorem wm_intersect_eq (c : Cfg) (g : GenFn.WaveletMatrix_Rank9Sel) (hg : WOK r9ops c g.layers)
    (ranges : Array (Nat × Nat)) (k : Nat) :
    ((GenFn.WaveletMatrix_Rank9Sel.intersect c g ranges k).bind fun r => .ok (r.map Array.toList)) =
      (absR9 g).intersect c ranges.toList k := by
  rw [r9_intersect_bridge]; exact gw_intersect_eq r9ops c g.layers g.alph_size_ hg ranges k

/-- `intersect_helper` with enough fuel is the model's recursion on the remaining layers -/
theorem wm_intersect_helper_eq (c : Cfg) (g : GenFn.WaveletMatrix_Rank9Sel) (hg : WOK r9ops c g.layers)
    (fuel : Nat) (ranges : Array (Nat × Nat)) (k depth pre : Nat) (hd : depth ≤ g.layers.size) (hf : g.layers.size - depth < fuel) :
    ((GenFn.WaveletMatrix_Rank9Sel.intersect_helper c fuel g ranges k depth pre).bind fun r => .ok (r.map Array.toList)) =
      WM.intersectHelper c k ((g.layers.toList.drop depth).map Lay.r9) ranges.toList pre := by
  rw [r9_intersect_helper_bridge]
  exact intersectHelper_eq r9ops c g.layers hg k (g.layers.size - depth) fuel depth ranges pre (by omega) hf

/-- `get_msb` (for `pos < width ≤ 64`, as in every call) -/
theorem wm_get_msb_eq (c : Cfg) (val pos width : Nat) (hp : pos < width) (hw : width ≤ 64) :
    GenFn.WaveletMatrix_Rank9Sel.get_msb c val pos width = .ok (WM.getMsb val pos width) :=
  gw_getMsb_eq c val pos width hp hw

/-! accessors -/
theorem wm_len_eq (c : Cfg) (g : GenFn.WaveletMatrix_Rank9Sel) (hg : WOK r9ops c g.layers) :
    GenFn.WaveletMatrix_Rank9Sel.len g = .ok (absR9 g).len := by
  rw [r9_len_bridge]; exact gw_len_eq r9ops c g.layers g.alph_size_ hg.lay

theorem wm_is_empty_eq (c : Cfg) (g : GenFn.WaveletMatrix_Rank9Sel) (hg : WOK r9ops c g.layers) :
    GenFn.WaveletMatrix_Rank9Sel.is_empty g = .ok ((absR9 g).len == 0) := by
  rw [r9_is_empty_bridge]; unfold GW.isEmpty; rw [gw_len_eq r9ops c g.layers g.alph_size_ hg.lay, bok]; rfl

theorem wm_alph_size_eq (g : GenFn.WaveletMatrix_Rank9Sel) : GenFn.WaveletMatrix_Rank9Sel.alph_size g = (absR9 g).alphSize := rfl

theorem wm_alph_width_eq (g : GenFn.WaveletMatrix_Rank9Sel) : GenFn.WaveletMatrix_Rank9Sel.alph_width g = (absR9 g).alphWidth := by
  simp [GenFn.WaveletMatrix_Rank9Sel.alph_width, absR9, WM.alphWidth]

theorem wm_iter_eq (g : GenFn.WaveletMatrix_Rank9Sel) : GenFn.WaveletMatrix_Rank9Sel.iter g = ⟨g, 0⟩ := rfl
theorem wm_iter_new_eq (g : GenFn.WaveletMatrix_Rank9Sel) : GenFn.wavelet_matrix_Iter_Rank9Sel.new g = ⟨g, 0⟩ := rfl

/-! ### specification level (right-hand sides of `Props/C05.lean`, `C06.lean`, `C17.lean`)

    `hg : GBuilt r9ops c g.layers g.alph_size_ s` is what `wm_new_eq` returns for the sequence `s`. -/
section
variable {c : Cfg} {g : GenFn.WaveletMatrix_Rank9Sel} {s : List Nat}

theorem wm_len_spec (hg : GBuilt r9ops c g.layers g.alph_size_ s) : GenFn.WaveletMatrix_Rank9Sel.len g = .ok s.length := by
  rw [r9_len_bridge]; exact hg.len_eq
theorem wm_is_empty_spec (hg : GBuilt r9ops c g.layers g.alph_size_ s) :
    GenFn.WaveletMatrix_Rank9Sel.is_empty g = .ok (s.length == 0) := by
  rw [r9_is_empty_bridge]; exact hg.isEmpty_eq
theorem wm_alph_size_spec (hg : GBuilt r9ops c g.layers g.alph_size_ s) :
    GenFn.WaveletMatrix_Rank9Sel.alph_size g = s.foldl max 0 + 1 := hg.alph_eq
theorem wm_alph_width_spec (hg : GBuilt r9ops c g.layers g.alph_size_ s) :
    GenFn.WaveletMatrix_Rank9Sel.alph_width g = SpecX.bitlen (s.foldl max 0 + 1) := hg.width_eq
theorem wm_access_spec (hg : GBuilt r9ops c g.layers g.alph_size_ s) (i : Nat) (hi : i < 2^64) :
    GenFn.WaveletMatrix_Rank9Sel.access c g i = .ok s[i]? := by
  rw [r9_access_bridge]; exact hg.access_spec i hi
theorem wm_rank_range_spec (hg : GBuilt r9ops c g.layers g.alph_size_ s) (a b v : Nat) (ha : a < 2^64) (hb : b < 2^64) :
    GenFn.WaveletMatrix_Rank9Sel.rank_range c g (a, b) v =
      .ok (if b ≤ s.length then some (((s.take b).drop a).count v) else none) := by
  rw [r9_rank_range_bridge]; exact hg.rankRange_spec a b v ha hb
theorem wm_rank_spec (hg : GBuilt r9ops c g.layers g.alph_size_ s) (p v : Nat) (hp : p < 2^64) :
    GenFn.WaveletMatrix_Rank9Sel.rank c g p v = .ok (if p ≤ s.length then some ((s.take p).count v) else none) := by
  rw [r9_rank_bridge]; exact hg.rank_spec p v hp
theorem wm_select_spec (hg : GBuilt r9ops c g.layers g.alph_size_ s) (k v : Nat) (hk : k < 2^64) :
    GenFn.WaveletMatrix_Rank9Sel.select c g k v = .ok (sel (fun i => decide (s[i]? = some v)) s.length k) := by
  rw [r9_select_bridge]; exact hg.select_spec k v hk
theorem wm_quantile_spec (hg : GBuilt r9ops c g.layers g.alph_size_ s) (a b k : Nat) (ha : a < 2^64) (hb : b < 2^64) :
    GenFn.WaveletMatrix_Rank9Sel.quantile c g (a, b) k =
      .ok (if b ≤ s.length ∧ k < b - a then (SpecX.sort ((s.take b).drop a))[k]? else none) := by
  rw [r9_quantile_bridge]; exact hg.quantile_spec a b k ha hb
theorem wm_intersect_spec (hg : GBuilt r9ops c g.layers g.alph_size_ s) (ranges : Array (Nat × Nat)) (j : Nat) :
    (ranges.toList.any (fun r => decide (s.length < r.2)) = true →
      GenFn.WaveletMatrix_Rank9Sel.intersect c g ranges j = .ok none) ∧
    (ranges.toList.any (fun r => decide (s.length < r.2)) = false →
      ∃ out : Array Nat, GenFn.WaveletMatrix_Rank9Sel.intersect c g ranges j = .ok (some out) ∧ out.toList.Pairwise (· < ·) ∧
        ∀ x, x ∈ out.toList ↔
          j < ((ranges.toList.filter fun r => decide (r.1 < r.2)).countP fun r => decide (x ∈ (s.take r.2).drop r.1))) := by
  rw [r9_intersect_bridge]; exact hg.intersect_spec ranges j

/-- `Iter::next`: the stored value and the advanced cursor while `pos < len`, `None` and the same cursor afterwards -/
theorem wm_iter_next_spec (hg : GBuilt r9ops c g.layers g.alph_size_ s) (pos : Nat) :
    GenFn.wavelet_matrix_Iter_Rank9Sel.next c ⟨g, pos⟩ =
      .ok (⟨g, if pos < s.length then pos + 1 else pos⟩, s[pos]?) := by
  rw [r9_iter_next_bridge]
  simp only []
  by_cases hp : pos < s.length
  · rw [hg.iterNext_lt pos hp, bok, if_pos hp, List.getElem?_eq_getElem hp]
  · rw [hg.iterNext_ge pos (by omega), bok, if_neg hp, List.getElem?_eq_none (by omega)]

/-- `Iter::size_hint` is exact -/
theorem wm_iter_size_hint_spec (hg : GBuilt r9ops c g.layers g.alph_size_ s) (pos : Nat) (hp : pos ≤ s.length) :
    GenFn.wavelet_matrix_Iter_Rank9Sel.size_hint c ⟨g, pos⟩ = .ok (s.length - pos, some (s.length - pos)) := by
  rw [r9_iter_size_hint_bridge]; exact hg.iterSizeHint_eq pos hp
end

/-- `n` rounds of `size_hint(); next()` on the generated iterator -/
def wmRunN (c : Cfg) : GenFn.wavelet_matrix_Iter_Rank9Sel → Nat → R (List (Option Nat × (Nat × Option Nat)))
  | _, 0 => .ok []
  | it, n+1 =>
    (GenFn.wavelet_matrix_Iter_Rank9Sel.size_hint c it).bind fun sh =>
    (GenFn.wavelet_matrix_Iter_Rank9Sel.next c it).bind fun r =>
    (wmRunN c r.1 n).bind fun l => .ok ((r.2, sh) :: l)

theorem wmRunN_eq (c : Cfg) (g : GenFn.WaveletMatrix_Rank9Sel) : ∀ (n pos : Nat),
    wmRunN c ⟨g, pos⟩ n = gwRunN r9ops c g.layers pos n
  | 0, _ => rfl
  | n + 1, pos => by
    rw [wmRunN, gwRunN, r9_iter_size_hint_bridge, r9_iter_next_bridge]
    simp only []
    cases GW.iterSizeHint r9ops c g.layers pos with
    | error e => rfl
    | ok sh =>
      simp only [bok]
      cases GW.iterNext r9ops c g.layers pos with
      | error e => rfl
      | ok r =>
        simp only [bok]
        rw [wmRunN_eq c g n r.1]

/-- **C17 for the generated iterator**: the stored values in order, then `None` forever, exact size hints -/
theorem wm_iter (c : Cfg) (g : GenFn.WaveletMatrix_Rank9Sel) (s : List Nat) (hg : GBuilt r9ops c g.layers g.alph_size_ s) (n : Nat) :
    wmRunN c (GenFn.WaveletMatrix_Rank9Sel.iter g) n = .ok (C17.expected s n) := by
  rw [wm_iter_eq, wmRunN_eq]; exact hg.iter_c17 n

/-- **C05 for the generated `WaveletMatrix<Rank9Sel>`** -/
theorem wm_c05 (c : Cfg) (cv : CV) (s : List Nat) (h : CV.Rep cv s) (hne : s ≠ [])
    (hmax : s.foldl max 0 + 1 < 2^64) (hn : s.length < 2^63) (hsz : cv.len * cv.width < 2^64)
    (hnW : s.length * SpecX.bitlen (s.foldl max 0 + 1) < 2^64) :
    ∃ g, GenFn.WaveletMatrix_Rank9Sel.new c cv = .ok (.ok g) ∧
      GenFn.WaveletMatrix_Rank9Sel.alph_size g = s.foldl max 0 + 1 ∧ GenFn.WaveletMatrix_Rank9Sel.len g = .ok s.length ∧
      (∀ i, i < 2^64 → GenFn.WaveletMatrix_Rank9Sel.access c g i = .ok s[i]?) ∧
      (∀ a b v, a < 2^64 → b < 2^64 → GenFn.WaveletMatrix_Rank9Sel.rank_range c g (a, b) v =
        .ok (if b ≤ s.length then some (((s.take b).drop a).count v) else none)) ∧
      (∀ p v, p < 2^64 → GenFn.WaveletMatrix_Rank9Sel.rank c g p v =
        .ok (if p ≤ s.length then some ((s.take p).count v) else none)) ∧
      (∀ j v, j < 2^64 → GenFn.WaveletMatrix_Rank9Sel.select c g j v =
        .ok (sel (fun i => decide (s[i]? = some v)) s.length j)) := by
  obtain ⟨g, h1, _, h3, hg⟩ := wm_new_eq c cv s h hne hmax hn hsz hnW
  exact ⟨g, h1, h3, wm_len_spec hg, wm_access_spec hg, wm_rank_range_spec hg, wm_rank_spec hg, wm_select_spec hg⟩

/-- **C06 for the generated `WaveletMatrix<Rank9Sel>`** -/
theorem wm_c06 (c : Cfg) (cv : CV) (s : List Nat) (h : CV.Rep cv s) (hne : s ≠ [])
    (hmax : s.foldl max 0 + 1 < 2^64) (hn : s.length < 2^63) (hsz : cv.len * cv.width < 2^64)
    (hnW : s.length * SpecX.bitlen (s.foldl max 0 + 1) < 2^64) :
    ∃ g, GenFn.WaveletMatrix_Rank9Sel.new c cv = .ok (.ok g) ∧
      (∀ a b j, a < 2^64 → b < 2^64 → GenFn.WaveletMatrix_Rank9Sel.quantile c g (a, b) j =
        .ok (if b ≤ s.length ∧ j < b - a then (SpecX.sort ((s.take b).drop a))[j]? else none)) ∧
      (∀ (ranges : Array (Nat × Nat)) j,
        (ranges.toList.any (fun r => decide (s.length < r.2)) = true →
          GenFn.WaveletMatrix_Rank9Sel.intersect c g ranges j = .ok none) ∧
        (ranges.toList.any (fun r => decide (s.length < r.2)) = false →
          ∃ out : Array Nat, GenFn.WaveletMatrix_Rank9Sel.intersect c g ranges j = .ok (some out) ∧
            out.toList.Pairwise (· < ·) ∧
            ∀ x, x ∈ out.toList ↔
              j < ((ranges.toList.filter fun r => decide (r.1 < r.2)).countP
                fun r => decide (x ∈ (s.take r.2).drop r.1)))) := by
  obtain ⟨g, h1, _, _, hg⟩ := wm_new_eq c cv s h hne hmax hn hsz hnW
  exact ⟨g, h1, wm_quantile_spec hg, wm_intersect_spec hg⟩

/-- **C17 (wavelet matrix clause) for the generated `WaveletMatrix<Rank9Sel>`** -/
theorem wm_c17 (c : Cfg) (cv : CV) (s : List Nat) (h : CV.Rep cv s) (hne : s ≠ [])
    (hmax : s.foldl max 0 + 1 < 2^64) (hn : s.length < 2^63) (hsz : cv.len * cv.width < 2^64)
    (hnW : s.length * SpecX.bitlen (s.foldl max 0 + 1) < 2^64) :
    ∃ g, GenFn.WaveletMatrix_Rank9Sel.new c cv = .ok (.ok g) ∧
      ∀ n, wmRunN c (GenFn.WaveletMatrix_Rank9Sel.iter g) n = .ok (C17.expected s n) := by
  obtain ⟨g, h1, _, _, hg⟩ := wm_new_eq c cv s h hne hmax hn hsz hnW
  exact ⟨g, h1, wm_iter c g s hg⟩

/-! ## `WaveletMatrix<DArray>` -/

/-- the model value a generated `WaveletMatrix<DArray>` stands for -/
def absDA (g : GenFn.WaveletMatrix_DArray) : WM := ⟨g.layers.map Lay.da, g.alph_size_⟩

/-! ### the generated copy is the generic definition at `daops` -/

theorem da_len_bridge (self : GenFn.WaveletMatrix_DArray) :
    GenFn.WaveletMatrix_DArray.len self = GW.len daops self.layers := by
  unfold GenFn.WaveletMatrix_DArray.len GW.len
  unfold_matchers
  rfl

theorem da_access_bridge (c : Cfg) (self : GenFn.WaveletMatrix_DArray) (pos : Nat) :
    GenFn.WaveletMatrix_DArray.access c self pos = GW.access daops c self.layers pos := by
  unfold GenFn.WaveletMatrix_DArray.access GW.access
  rw [da_len_bridge]
  rfl

theorem da_rank_range_bridge (c : Cfg) (self : GenFn.WaveletMatrix_DArray) (range : Nat × Nat) (val : Nat) :
    GenFn.WaveletMatrix_DArray.rank_range c self range val = GW.rankRange daops c self.layers self.alph_size_ range val := by
  unfold GenFn.WaveletMatrix_DArray.rank_range GW.rankRange
  rw [da_len_bridge]
  rfl

theorem da_rank_bridge (c : Cfg) (self : GenFn.WaveletMatrix_DArray) (pos val : Nat) :
    GenFn.WaveletMatrix_DArray.rank c self pos val = GW.rank daops c self.layers self.alph_size_ pos val :=
  da_rank_range_bridge c self (0, pos) val

theorem da_select_helper_bridge (c : Cfg) (self : GenFn.WaveletMatrix_DArray) : ∀ (fuel k val pos depth : Nat),
    GenFn.WaveletMatrix_DArray.select_helper c fuel self k val pos depth =
      GW.selectHelper daops c fuel self.layers k val pos depth := by
  intro fuel
  induction fuel with
  | zero => intro k val pos depth; rfl
  | succ f ih =>
    intro k val pos depth
    rw [GenFn.WaveletMatrix_DArray.select_helper, GW.selectHelper]
    simp only [ih]
    unfold_matchers
    rfl

theorem da_select_bridge (c : Cfg) (self : GenFn.WaveletMatrix_DArray) (k val : Nat) :
    GenFn.WaveletMatrix_DArray.select c self k val = GW.select daops c self.layers self.alph_size_ k val := by
  unfold GenFn.WaveletMatrix_DArray.select GW.select
  rw [da_len_bridge, da_select_helper_bridge]
  rfl

theorem da_quantile_bridge (c : Cfg) (self : GenFn.WaveletMatrix_DArray) (range : Nat × Nat) (k : Nat) :
    GenFn.WaveletMatrix_DArray.quantile c self range k = GW.quantile daops c self.layers range k := by
  unfold GenFn.WaveletMatrix_DArray.quantile GW.quantile
  rw [da_len_bridge]
  rfl

theorem da_intersect_helper_bridge (c : Cfg) (self : GenFn.WaveletMatrix_DArray) :
    ∀ (fuel : Nat) (ranges : Array (Nat × Nat)) (k depth pre : Nat),
    GenFn.WaveletMatrix_DArray.intersect_helper c fuel self ranges k depth pre =
      GW.intersectHelper daops c fuel self.layers ranges k depth pre := by
  intro fuel
  induction fuel with
  | zero => intro ranges k depth pre; rfl
  | succ f ih =>
    intro ranges k depth pre
    rw [GenFn.WaveletMatrix_DArray.intersect_helper, GW.intersectHelper]
    simp only [ih]
    unfold_matchers
    rfl

theorem da_intersect_bridge (c : Cfg) (self : GenFn.WaveletMatrix_DArray) (ranges : Array (Nat × Nat)) (k : Nat) :
    GenFn.WaveletMatrix_DArray.intersect c self ranges k = GW.intersect daops c self.layers ranges k := by
  unfold GenFn.WaveletMatrix_DArray.intersect GW.intersect
  rw [da_intersect_helper_bridge]

theorem da_is_empty_bridge (self : GenFn.WaveletMatrix_DArray) :
    GenFn.WaveletMatrix_DArray.is_empty self = GW.isEmpty daops self.layers := by
  unfold GenFn.WaveletMatrix_DArray.is_empty GW.isEmpty
  rw [da_len_bridge]

theorem da_filter_bridge : @GenFn.WaveletMatrix_DArray.filter = @GW.filter := rfl

theorem da_new_bridge (c : Cfg) (seq : CV) :
    GenFn.WaveletMatrix_DArray.new c seq =
      GW.new daops (fun l a => ({ layers := l, alph_size_ := a } : GenFn.WaveletMatrix_DArray)) c seq := by
  unfold GenFn.WaveletMatrix_DArray.new GW.new GW.maxBody GW.newBody
  rw [da_filter_bridge]
  unfold_matchers
  rfl

theorem da_iter_next_bridge (c : Cfg) (it : GenFn.wavelet_matrix_Iter_DArray) :
    GenFn.wavelet_matrix_Iter_DArray.next c it =
      (GW.iterNext daops c it.wm.layers it.pos).bind fun r => .ok (({ it with pos := r.1 } : GenFn.wavelet_matrix_Iter_DArray), r.2) := by
  unfold GenFn.wavelet_matrix_Iter_DArray.next GW.iterNext
  rw [da_len_bridge, da_access_bridge]
  cases GW.len daops it.wm.layers with
  | error e => rfl
  | ok t =>
    simp only [bok]
    by_cases hp : it.pos < t
    · simp only [hp, if_true]
      cases GW.access daops c it.wm.layers it.pos with
      | error e => rfl
      | ok t1 =>
        simp only [bok]
        cases RS.unwrap t1 with
        | error e => rfl
        | ok x =>
          simp only [bok]
          cases cadd c it.pos 1 <;> rfl
    · simp only [hp, if_false, bok]

theorem da_iter_size_hint_bridge (c : Cfg) (it : GenFn.wavelet_matrix_Iter_DArray) :
    GenFn.wavelet_matrix_Iter_DArray.size_hint c it = GW.iterSizeHint daops c it.wm.layers it.pos := by
  unfold GenFn.wavelet_matrix_Iter_DArray.size_hint GW.iterSizeHint
  rw [da_len_bridge]

/-! ### generated = model on the abstraction

    `hg : WOK daops c g.layers` (every layer answers like its model layer; at most 64 layers) holds of every value
    returned by `new` (`wm_da_new_eq`); the arguments are `usize` values. -/

/-- **`new`** on a non-empty sequence: the generated constructor returns `Ok(g)` where the model returns `absDA g` -/
theorem wm_da_new_eq (c : Cfg) (cv : CV) (s : List Nat) (h : CV.Rep cv s) (hne : s ≠ [])
    (hmax : s.foldl max 0 + 1 < 2^64) (hn : s.length < 2^63) (hsz : cv.len * cv.width < 2^64)
    (hnW : s.length * SpecX.bitlen (s.foldl max 0 + 1) < 2^64) :
    ∃ g, GenFn.WaveletMatrix_DArray.new c cv = .ok (.ok g) ∧ WM.new c .da s = .ok (some (absDA g)) ∧
      g.alph_size_ = s.foldl max 0 + 1 ∧ GBuilt daops c g.layers g.alph_size_ s := by
  obtain ⟨ls, hg, hm, hb⟩ := gw_new_built daops c (fun l a => ({ layers := l, alph_size_ := a } : GenFn.WaveletMatrix_DArray))
    cv s h hne hmax hn hsz hnW (da_buildOK c s.length (by omega))
  exact ⟨⟨ls, s.foldl max 0 + 1⟩, by rw [da_new_bridge]; exact hg, hm, rfl, hb⟩

/-- **`new`** on the empty sequence: `Err` in the code, `none` in the model -/
theorem wm_da_new_nil (c : Cfg) (cv : CV) (h : CV.Rep cv []) :
    GenFn.WaveletMatrix_DArray.new c cv = .ok .err ∧ WM.new c .da [] = .ok none :=
  ⟨by rw [da_new_bridge]; exact gw_new_nil daops c _ cv h, rfl⟩

theorem wm_da_access_eq (c : Cfg) (g : GenFn.WaveletMatrix_DArray) (hg : WOK daops c g.layers) (pos : Nat) (hp : pos < 2^64) :
    GenFn.WaveletMatrix_DArray.access c g pos = (absDA g).access c pos := by
  rw [da_access_bridge]; exact gw_access_eq daops c g.layers g.alph_size_ hg pos hp

theorem wm_da_rank_range_eq (c : Cfg) (g : GenFn.WaveletMatrix_DArray) (hg : WOK daops c g.layers) (a b val : Nat)
    (ha : a < 2^64) (hb : b < 2^64) :
    GenFn.WaveletMatrix_DArray.rank_range c g (a, b) val = (absDA g).rankRange c a b val := by
  rw [da_rank_range_bridge]; exact gw_rankRange_eq daops c g.layers g.alph_size_ hg a b val ha hb

theorem wm_da_rank_eq (c : Cfg) (g : GenFn.WaveletMatrix_DArray) (hg : WOK daops c g.layers) (pos val : Nat) (hp : pos < 2^64) :
    GenFn.WaveletMatrix_DArray.rank c g pos val = (absDA g).rank c pos val := by
  rw [da_rank_bridge]; exact gw_rank_eq daops c g.layers g.alph_size_ hg pos val hp

theorem wm_da_select_eq (c : Cfg) (g : GenFn.WaveletMatrix_DArray) (hg : WOK daops c g.layers) (k val : Nat) (hk : k < 2^64) :
    GenFn.WaveletMatrix_DArray.select c g k val = (absDA g).select c k val := by
  rw [da_select_bridge]; exact gw_select_eq daops c g.layers g.alph_size_ hg k val hk

/-- `select_helper` with enough fuel (the callers pass `RS.FUEL = 2^64`) is the model's recursion on the remaining layers -/
theorem wm_da_select_helper_eq (c : Cfg) (g : GenFn.WaveletMatrix_DArray) (hg : WOK daops c g.layers) (fuel k val pos depth : Nat)
    (hd : depth ≤ g.layers.size) (hf : g.layers.size - depth < fuel) (hk : k < 2^64) (hp : pos < 2^64) :
    GenFn.WaveletMatrix_DArray.select_helper c fuel g k val pos depth =
      WM.selectHelper c g.layers.size val ((g.layers.toList.drop depth).map Lay.da) depth k pos := by
  rw [da_select_helper_bridge]
  exact (selectHelper_eq daops c g.layers hg k val hk (g.layers.size - depth) fuel depth pos (by omega) hf hp).1

theorem wm_da_quantile_eq (c : Cfg) (g : GenFn.WaveletMatrix_DArray) (hg : WOK daops c g.layers) (a b k : Nat)
    (ha : a < 2^64) (hb : b < 2^64) :
    GenFn.WaveletMatrix_DArray.quantile c g (a, b) k = (absDA g).quantile c a b k := by
  rw [da_quantile_bridge]; exact gw_quantile_eq daops c g.layers g.alph_size_ hg a b k ha hb

/-- `intersect` (the code returns a `Vec<usize>`, the model a list; no hypothesis on the ranges) -/
theorem wm_da_intersect_eq (c : Cfg) (g : GenFn.WaveletMatrix_DArray) (hg : WOK daops c g.layers)
    (ranges : Array (Nat × Nat)) (k : Nat) :
    ((GenFn.WaveletMatrix_DArray.intersect c g ranges k).bind fun r => .ok (r.map Array.toList)) =
      (absDA g).intersect c ranges.toList k := by
  rw [da_intersect_bridge]; exact gw_intersect_eq daops c g.layers g.alph_size_ hg ranges k

/-- `intersect_helper` with enough fuel is the model's recursion on the remaining layers -/
theorem wm_da_intersect_helper_eq (c : Cfg) (g : GenFn.WaveletMatrix_DArray) (hg : WOK daops c g.layers)
    (fuel : Nat) (ranges : Array (Nat × Nat)) (k depth pre : Nat) (hd : depth ≤ g.layers.size) (hf : g.layers.size - depth < fuel) :
    ((GenFn.WaveletMatrix_DArray.intersect_helper c fuel g ranges k depth pre).bind fun r => .ok (r.map Array.toList)) =
      WM.intersectHelper c k ((g.layers.toList.drop depth).map Lay.da) ranges.toList pre := by
  rw [da_intersect_helper_bridge]
  exact intersectHelper_eq daops c g.layers hg k (g.layers.size - depth) fuel depth ranges pre (by omega) hf

/-- `get_msb` (for `pos < width ≤ 64`, as in every call) -/
theorem wm_da_get_msb_eq (c : Cfg) (val pos width : Nat) (hp : pos < width) (hw : width ≤ 64) :
    GenFn.WaveletMatrix_DArray.get_msb c val pos width = .ok (WM.getMsb val pos width) :=
  gw_getMsb_eq c val pos width hp hw

/-! accessors -/
theorem wm_da_len_eq (c : Cfg) (g : GenFn.WaveletMatrix_DArray) (hg : WOK daops c g.layers) :
    GenFn.WaveletMatrix_DArray.len g = .ok (absDA g).len := by
  rw [da_len_bridge]; exact gw_len_eq daops c g.layers g.alph_size_ hg.lay

theorem wm_da_is_empty_eq (c : Cfg) (g : GenFn.WaveletMatrix_DArray) (hg : WOK daops c g.layers) :
    GenFn.WaveletMatrix_DArray.is_empty g = .ok ((absDA g).len == 0) := by
  rw [da_is_empty_bridge]; unfold GW.isEmpty; rw [gw_len_eq daops c g.layers g.alph_size_ hg.lay, bok]; rfl

theorem wm_da_alph_size_eq (g : GenFn.WaveletMatrix_DArray) : GenFn.WaveletMatrix_DArray.alph_size g = (absDA g).alphSize := rfl

theorem wm_da_alph_width_eq (g : GenFn.WaveletMatrix_DArray) : GenFn.WaveletMatrix_DArray.alph_width g = (absDA g).alphWidth := by
  simp [GenFn.WaveletMatrix_DArray.alph_width, absDA, WM.alphWidth]

theorem wm_da_iter_eq (g : GenFn.WaveletMatrix_DArray) : GenFn.WaveletMatrix_DArray.iter g = ⟨g, 0⟩ := rfl
theorem wm_da_iter_new_eq (g : GenFn.WaveletMatrix_DArray) : GenFn.wavelet_matrix_Iter_DArray.new g = ⟨g, 0⟩ := rfl

/-! ### specification level (right-hand sides of `Props/C05.lean`, `C06.lean`, `C17.lean`)

    `hg : GBuilt daops c g.layers g.alph_size_ s` is what `wm_da_new_eq` returns for the sequence `s`. -/
section
variable {c : Cfg} {g : GenFn.WaveletMatrix_DArray} {s : List Nat}

theorem wm_da_len_spec (hg : GBuilt daops c g.layers g.alph_size_ s) : GenFn.WaveletMatrix_DArray.len g = .ok s.length := by
  rw [da_len_bridge]; exact hg.len_eq
theorem wm_da_is_empty_spec (hg : GBuilt daops c g.layers g.alph_size_ s) :
    GenFn.WaveletMatrix_DArray.is_empty g = .ok (s.length == 0) := by
  rw [da_is_empty_bridge]; exact hg.isEmpty_eq
theorem wm_da_alph_size_spec (hg : GBuilt daops c g.layers g.alph_size_ s) :
    GenFn.WaveletMatrix_DArray.alph_size g = s.foldl max 0 + 1 := hg.alph_eq
theorem wm_da_alph_width_spec (hg : GBuilt daops c g.layers g.alph_size_ s) :
    GenFn.WaveletMatrix_DArray.alph_width g = SpecX.bitlen (s.foldl max 0 + 1) := hg.width_eq
theorem wm_da_access_spec (hg : GBuilt daops c g.layers g.alph_size_ s) (i : Nat) (hi : i < 2^64) :
    GenFn.WaveletMatrix_DArray.access c g i = .ok s[i]? := by
  rw [da_access_bridge]; exact hg.access_spec i hi
theorem wm_da_rank_range_spec (hg : GBuilt daops c g.layers g.alph_size_ s) (a b v : Nat) (ha : a < 2^64) (hb : b < 2^64) :
    GenFn.WaveletMatrix_DArray.rank_range c g (a, b) v =
      .ok (if b ≤ s.length then some (((s.take b).drop a).count v) else none) := by
  rw [da_rank_range_bridge]; exact hg.rankRange_spec a b v ha hb
theorem wm_da_rank_spec (hg : GBuilt daops c g.layers g.alph_size_ s) (p v : Nat) (hp : p < 2^64) :
    GenFn.WaveletMatrix_DArray.rank c g p v = .ok (if p ≤ s.length then some ((s.take p).count v) else none) := by
  rw [da_rank_bridge]; exact hg.rank_spec p v hp
theorem wm_da_select_spec (hg : GBuilt daops c g.layers g.alph_size_ s) (k v : Nat) (hk : k < 2^64) :
    GenFn.WaveletMatrix_DArray.select c g k v = .ok (sel (fun i => decide (s[i]? = some v)) s.length k) := by
  rw [da_select_bridge]; exact hg.select_spec k v hk
theorem wm_da_quantile_spec (hg : GBuilt daops c g.layers g.alph_size_ s) (a b k : Nat) (ha : a < 2^64) (hb : b < 2^64) :
    GenFn.WaveletMatrix_DArray.quantile c g (a, b) k =
      .ok (if b ≤ s.length ∧ k < b - a then (SpecX.sort ((s.take b).drop a))[k]? else none) := by
  rw [da_quantile_bridge]; exact hg.quantile_spec a b k ha hb
theorem wm_da_intersect_spec (hg : GBuilt daops c g.layers g.alph_size_ s) (ranges : Array (Nat × Nat)) (j : Nat) :
    (ranges.toList.any (fun r => decide (s.length < r.2)) = true →
      GenFn.WaveletMatrix_DArray.intersect c g ranges j = .ok none) ∧
    (ranges.toList.any (fun r => decide (s.length < r.2)) = false →
      ∃ out : Array Nat, GenFn.WaveletMatrix_DArray.intersect c g ranges j = .ok (some out) ∧ out.toList.Pairwise (· < ·) ∧
        ∀ x, x ∈ out.toList ↔
          j < ((ranges.toList.filter fun r => decide (r.1 < r.2)).countP fun r => decide (x ∈ (s.take r.2).drop r.1))) := by
  rw [da_intersect_bridge]; exact hg.intersect_spec ranges j

/-- `Iter::next`: the stored value and the advanced cursor while `pos < len`, `None` and the same cursor afterwards -/
theorem wm_da_iter_next_spec (hg : GBuilt daops c g.layers g.alph_size_ s) (pos : Nat) :
    GenFn.wavelet_matrix_Iter_DArray.next c ⟨g, pos⟩ =
      .ok (⟨g, if pos < s.length then pos + 1 else pos⟩, s[pos]?) := by
  rw [da_iter_next_bridge]
  simp only []
  by_cases hp : pos < s.length
  · rw [hg.iterNext_lt pos hp, bok, if_pos hp, List.getElem?_eq_getElem hp]
  · rw [hg.iterNext_ge pos (by omega), bok, if_neg hp, List.getElem?_eq_none (by omega)]

/-- `Iter::size_hint` is exact -/
theorem wm_da_iter_size_hint_spec (hg : GBuilt daops c g.layers g.alph_size_ s) (pos : Nat) (hp : pos ≤ s.length) :
    GenFn.wavelet_matrix_Iter_DArray.size_hint c ⟨g, pos⟩ = .ok (s.length - pos, some (s.length - pos)) := by
  rw [da_iter_size_hint_bridge]; exact hg.iterSizeHint_eq pos hp
end

/-- `n` rounds of `size_hint(); next()` on the generated iterator -/
def wm_daRunN (c : Cfg) : GenFn.wavelet_matrix_Iter_DArray → Nat → R (List (Option Nat × (Nat × Option Nat)))
  | _, 0 => .ok []
  | it, n+1 =>
    (GenFn.wavelet_matrix_Iter_DArray.size_hint c it).bind fun sh =>
    (GenFn.wavelet_matrix_Iter_DArray.next c it).bind fun r =>
    (wm_daRunN c r.1 n).bind fun l => .ok ((r.2, sh) :: l)

theorem wm_daRunN_eq (c : Cfg) (g : GenFn.WaveletMatrix_DArray) : ∀ (n pos : Nat),
    wm_daRunN c ⟨g, pos⟩ n = gwRunN daops c g.layers pos n
  | 0, _ => rfl
  | n + 1, pos => by
    rw [wm_daRunN, gwRunN, da_iter_size_hint_bridge, da_iter_next_bridge]
    simp only []
    cases GW.iterSizeHint daops c g.layers pos with
    | error e => rfl
    | ok sh =>
      simp only [bok]
      cases GW.iterNext daops c g.layers pos with
      | error e => rfl
      | ok r =>
        simp only [bok]
        rw [wm_daRunN_eq c g n r.1]

/-- **C17 for the generated iterator**: the stored values in order, then `None` forever, exact size hints -/
theorem wm_da_iter (c : Cfg) (g : GenFn.WaveletMatrix_DArray) (s : List Nat) (hg : GBuilt daops c g.layers g.alph_size_ s) (n : Nat) :
    wm_daRunN c (GenFn.WaveletMatrix_DArray.iter g) n = .ok (C17.expected s n) := by
  rw [wm_da_iter_eq, wm_daRunN_eq]; exact hg.iter_c17 n

/-- **C05 for the generated `WaveletMatrix<DArray>`** -/
theorem wm_da_c05 (c : Cfg) (cv : CV) (s : List Nat) (h : CV.Rep cv s) (hne : s ≠ [])
    (hmax : s.foldl max 0 + 1 < 2^64) (hn : s.length < 2^63) (hsz : cv.len * cv.width < 2^64)
    (hnW : s.length * SpecX.bitlen (s.foldl max 0 + 1) < 2^64) :
    ∃ g, GenFn.WaveletMatrix_DArray.new c cv = .ok (.ok g) ∧
      GenFn.WaveletMatrix_DArray.alph_size g = s.foldl max 0 + 1 ∧ GenFn.WaveletMatrix_DArray.len g = .ok s.length ∧
      (∀ i, i < 2^64 → GenFn.WaveletMatrix_DArray.access c g i = .ok s[i]?) ∧
      (∀ a b v, a < 2^64 → b < 2^64 → GenFn.WaveletMatrix_DArray.rank_range c g (a, b) v =
        .ok (if b ≤ s.length then some (((s.take b).drop a).count v) else none)) ∧
      (∀ p v, p < 2^64 → GenFn.WaveletMatrix_DArray.rank c g p v =
        .ok (if p ≤ s.length then some ((s.take p).count v) else none)) ∧
      (∀ j v, j < 2^64 → GenFn.WaveletMatrix_DArray.select c g j v =
        .ok (sel (fun i => decide (s[i]? = some v)) s.length j)) := by
  obtain ⟨g, h1, _, h3, hg⟩ := wm_da_new_eq c cv s h hne hmax hn hsz hnW
  exact ⟨g, h1, h3, wm_da_len_spec hg, wm_da_access_spec hg, wm_da_rank_range_spec hg, wm_da_rank_spec hg, wm_da_select_spec hg⟩

/-- **C06 for the generated `WaveletMatrix<DArray>`** -/
theorem wm_da_c06 (c : Cfg) (cv : CV) (s : List Nat) (h : CV.Rep cv s) (hne : s ≠ [])
    (hmax : s.foldl max 0 + 1 < 2^64) (hn : s.length < 2^63) (hsz : cv.len * cv.width < 2^64)
    (hnW : s.length * SpecX.bitlen (s.foldl max 0 + 1) < 2^64) :
    ∃ g, GenFn.WaveletMatrix_DArray.new c cv = .ok (.ok g) ∧
      (∀ a b j, a < 2^64 → b < 2^64 → GenFn.WaveletMatrix_DArray.quantile c g (a, b) j =
        .ok (if b ≤ s.length ∧ j < b - a then (SpecX.sort ((s.take b).drop a))[j]? else none)) ∧
      (∀ (ranges : Array (Nat × Nat)) j,
        (ranges.toList.any (fun r => decide (s.length < r.2)) = true →
          GenFn.WaveletMatrix_DArray.intersect c g ranges j = .ok none) ∧
        (ranges.toList.any (fun r => decide (s.length < r.2)) = false →
          ∃ out : Array Nat, GenFn.WaveletMatrix_DArray.intersect c g ranges j = .ok (some out) ∧
            out.toList.Pairwise (· < ·) ∧
            ∀ x, x ∈ out.toList ↔
              j < ((ranges.toList.filter fun r => decide (r.1 < r.2)).countP
                fun r => decide (x ∈ (s.take r.2).drop r.1)))) := by
  obtain ⟨g, h1, _, _, hg⟩ := wm_da_new_eq c cv s h hne hmax hn hsz hnW
  exact ⟨g, h1, wm_da_quantile_spec hg, wm_da_intersect_spec hg⟩

/-- **C17 (wavelet matrix clause) for the generated `WaveletMatrix<DArray>`** -/
theorem wm_da_c17 (c : Cfg) (cv : CV) (s : List Nat) (h : CV.Rep cv s) (hne : s ≠ [])
    (hmax : s.foldl max 0 + 1 < 2^64) (hn : s.length < 2^63) (hsz : cv.len * cv.width < 2^64)
    (hnW : s.length * SpecX.bitlen (s.foldl max 0 + 1) < 2^64) :
    ∃ g, GenFn.WaveletMatrix_DArray.new c cv = .ok (.ok g) ∧
      ∀ n, wm_daRunN c (GenFn.WaveletMatrix_DArray.iter g) n = .ok (C17.expected s n) := by
  obtain ⟨g, h1, _, _, hg⟩ := wm_da_new_eq c cv s h hne hmax hn hsz hnW
  exact ⟨g, h1, wm_da_iter c g s hg⟩

/-! ## `WaveletMatrix<BitVector>` -/

/-- the model value a generated `WaveletMatrix<BitVector>` stands for -/
def absBV (g : GenFn.WaveletMatrix_BitVector) : WM := ⟨g.layers.map Lay.bv, g.alph_size_⟩

/-! ### the generated copy is the generic definition at `bvops` -/

theorem bv_len_bridge (self : GenFn.WaveletMatrix_BitVector) :
    GenFn.WaveletMatrix_BitVector.len self = GW.len bvops self.layers := by
  unfold GenFn.WaveletMatrix_BitVector.len GW.len
  unfold_matchers
  rfl

theorem bv_access_bridge (c : Cfg) (self : GenFn.WaveletMatrix_BitVector) (pos : Nat) :
    GenFn.WaveletMatrix_BitVector.access c self pos = GW.access bvops c self.layers pos := by
  unfold GenFn.WaveletMatrix_BitVector.access GW.access
  rw [bv_len_bridge]
  rfl

theorem bv_rank_range_bridge (c : Cfg) (self : GenFn.WaveletMatrix_BitVector) (range : Nat × Nat) (val : Nat) :
    GenFn.WaveletMatrix_BitVector.rank_range c self range val = GW.rankRange bvops c self.layers self.alph_size_ range val := by
  unfold GenFn.WaveletMatrix_BitVector.rank_range GW.rankRange
  rw [bv_len_bridge]
  rfl

theorem bv_rank_bridge (c : Cfg) (self : GenFn.WaveletMatrix_BitVector) (pos val : Nat) :
    GenFn.WaveletMatrix_BitVector.rank c self pos val = GW.rank bvops c self.layers self.alph_size_ pos val :=
  bv_rank_range_bridge c self (0, pos) val

theorem bv_select_helper_bridge (c : Cfg) (self : GenFn.WaveletMatrix_BitVector) : ∀ (fuel k val pos depth : Nat),
    GenFn.WaveletMatrix_BitVector.select_helper c fuel self k val pos depth =
      GW.selectHelper bvops c fuel self.layers k val pos depth := by
  intro fuel
  induction fuel with
  | zero => intro k val pos depth; rfl
  | succ f ih =>
    intro k val pos depth
    rw [GenFn.WaveletMatrix_BitVector.select_helper, GW.selectHelper]
    simp only [ih]
    unfold_matchers
    rfl

theorem bv_select_bridge (c : Cfg) (self : GenFn.WaveletMatrix_BitVector) (k val : Nat) :
    GenFn.WaveletMatrix_BitVector.select c self k val = GW.select bvops c self.layers self.alph_size_ k val := by
  unfold GenFn.WaveletMatrix_BitVector.select GW.select
  rw [bv_len_bridge, bv_select_helper_bridge]
  rfl

theorem bv_quantile_bridge (c : Cfg) (self : GenFn.WaveletMatrix_BitVector) (range : Nat × Nat) (k : Nat) :
    GenFn.WaveletMatrix_BitVector.quantile c self range k = GW.quantile bvops c self.layers range k := by
  unfold GenFn.WaveletMatrix_BitVector.quantile GW.quantile
  rw [bv_len_bridge]
  rfl

theorem bv_intersect_helper_bridge (c : Cfg) (self : GenFn.WaveletMatrix_BitVector) :
    ∀ (fuel : Nat) (ranges : Array (Nat × Nat)) (k depth pre : Nat),
    GenFn.WaveletMatrix_BitVector.intersect_helper c fuel self ranges k depth pre =
      GW.intersectHelper bvops c fuel self.layers ranges k depth pre := by
  intro fuel
  induction fuel with
  | zero => intro ranges k depth pre; rfl
  | succ f ih =>
    intro ranges k depth pre
    rw [GenFn.WaveletMatrix_BitVector.intersect_helper, GW.intersectHelper]
    simp only [ih]
    unfold_matchers
    rfl

theorem bv_intersect_bridge (c : Cfg) (self : GenFn.WaveletMatrix_BitVector) (ranges : Array (Nat × Nat)) (k : Nat) :
    GenFn.WaveletMatrix_BitVector.intersect c self ranges k = GW.intersect bvops c self.layers ranges k := by
  unfold GenFn.WaveletMatrix_BitVector.intersect GW.intersect
  rw [bv_intersect_helper_bridge]

theorem bv_is_empty_bridge (self : GenFn.WaveletMatrix_BitVector) :
    GenFn.WaveletMatrix_BitVector.is_empty self = GW.isEmpty bvops self.layers := by
  unfold GenFn.WaveletMatrix_BitVector.is_empty GW.isEmpty
  rw [bv_len_bridge]

theorem bv_filter_bridge : @GenFn.WaveletMatrix_BitVector.filter = @GW.filter := rfl

theorem bv_new_bridge (c : Cfg) (seq : CV) :
    GenFn.WaveletMatrix_BitVector.new c seq =
      GW.new bvops (fun l a => ({ layers := l, alph_size_ := a } : GenFn.WaveletMatrix_BitVector)) c seq := by
  unfold GenFn.WaveletMatrix_BitVector.new GW.new GW.maxBody GW.newBody
  rw [bv_filter_bridge]
  unfold_matchers
  rfl

theorem bv_iter_next_bridge (c : Cfg) (it : GenFn.wavelet_matrix_Iter_BitVector) :
    GenFn.wavelet_matrix_Iter_BitVector.next c it =
      (GW.iterNext bvops c it.wm.layers it.pos).bind fun r => .ok (({ it with pos := r.1 } : GenFn.wavelet_matrix_Iter_BitVector), r.2) := by
  unfold GenFn.wavelet_matrix_Iter_BitVector.next GW.iterNext
  rw [bv_len_bridge, bv_access_bridge]
  cases GW.len bvops it.wm.layers with
  | error e => rfl
  | ok t =>
    simp only [bok]
    by_cases hp : it.pos < t
    · simp only [hp, if_true]
      cases GW.access bvops c it.wm.layers it.pos with
      | error e => rfl
      | ok t1 =>
        simp only [bok]
        cases RS.unwrap t1 with
        | error e => rfl
        | ok x =>
          simp only [bok]
          cases cadd c it.pos 1 <;> rfl
    · simp only [hp, if_false, bok]

theorem bv_iter_size_hint_bridge (c : Cfg) (it : GenFn.wavelet_matrix_Iter_BitVector) :
    GenFn.wavelet_matrix_Iter_BitVector.size_hint c it = GW.iterSizeHint bvops c it.wm.layers it.pos := by
  unfold GenFn.wavelet_matrix_Iter_BitVector.size_hint GW.iterSizeHint
  rw [bv_len_bridge]

/-! ### generated = model on the abstraction

    `hg : WOK bvops c g.layers` (every layer answers like its model layer; at most 64 layers) holds of every value
    returned by `new` (`wm_bv_new_eq`); the arguments are `usize` values. -/

/-- **`new`** on a non-empty sequence: the generated constructor returns `Ok(g)` where the model returns `absBV g` -/
theorem wm_bv_new_eq (c : Cfg) (cv : CV) (s : List Nat) (h : CV.Rep cv s) (hne : s ≠ [])
    (hmax : s.foldl max 0 + 1 < 2^64) (hn : s.length < 2^63) (hsz : cv.len * cv.width < 2^64)
    (hnW : s.length * SpecX.bitlen (s.foldl max 0 + 1) < 2^64) :
    ∃ g, GenFn.WaveletMatrix_BitVector.new c cv = .ok (.ok g) ∧ WM.new c .bv s = .ok (some (absBV g)) ∧
      g.alph_size_ = s.foldl max 0 + 1 ∧ GBuilt bvops c g.layers g.alph_size_ s := by
  obtain ⟨ls, hg, hm, hb⟩ := gw_new_built bvops c (fun l a => ({ layers := l, alph_size_ := a } : GenFn.WaveletMatrix_BitVector))
    cv s h hne hmax hn hsz hnW (bv_buildOK c s.length (by omega))
  exact ⟨⟨ls, s.foldl max 0 + 1⟩, by rw [bv_new_bridge]; exact hg, hm, rfl, hb⟩

/-- **`new`** on the empty sequence: `Err` in the code, `none` in the model -/
theorem wm_bv_new_nil (c : Cfg) (cv : CV) (h : CV.Rep cv []) :
    GenFn.WaveletMatrix_BitVector.new c cv = .ok .err ∧ WM.new c .bv [] = .ok none :=
  ⟨by rw [bv_new_bridge]; exact gw_new_nil bvops c _ cv h, rfl⟩

theorem wm_bv_access_eq (c : Cfg) (g : GenFn.WaveletMatrix_BitVector) (hg : WOK bvops c g.layers) (pos : Nat) (hp : pos < 2^64) :
    GenFn.WaveletMatrix_BitVector.access c g pos = (absBV g).access c pos := by
  rw [bv_access_bridge]; exact gw_access_eq bvops c g.layers g.alph_size_ hg pos hp

theorem wm_bv_rank_range_eq (c : Cfg) (g : GenFn.WaveletMatrix_BitVector) (hg : WOK bvops c g.layers) (a b val : Nat)
    (ha : a < 2^64) (hb : b < 2^64) :
    GenFn.WaveletMatrix_BitVector.rank_range c g (a, b) val = (absBV g).rankRange c a b val := by
  rw [bv_rank_range_bridge]; exact gw_rankRange_eq bvops c g.layers g.alph_size_ hg a b val ha hb

theorem wm_bv_rank_eq (c : Cfg) (g : GenFn.WaveletMatrix_BitVector) (hg : WOK bvops c g.layers) (pos val : Nat) (hp : pos < 2^64) :
    GenFn.WaveletMatrix_BitVector.rank c g pos val = (absBV g).rank c pos val := by
  rw [bv_rank_bridge]; exact gw_rank_eq bvops c g.layers g.alph_size_ hg pos val hp

theorem wm_bv_select_eq (c : Cfg) (g : GenFn.WaveletMatrix_BitVector) (hg : WOK bvops c g.layers) (k val : Nat) (hk : k < 2^64) :
    GenFn.WaveletMatrix_BitVector.select c g k val = (absBV g).select c k val := by
  rw [bv_select_bridge]; exact gw_select_eq bvops c g.layers g.alph_size_ hg k val hk

/-- `select_helper` with enough fuel (the callers pass `RS.FUEL = 2^64`) is the model's recursion on the remaining layers -/
theorem wm_bv_select_helper_eq (c : Cfg) (g : GenFn.WaveletMatrix_BitVector) (hg : WOK bvops c g.layers) (fuel k val pos depth : Nat)
    (hd : depth ≤ g.layers.size) (hf : g.layers.size - depth < fuel) (hk : k < 2^64) (hp : pos < 2^64) :
    GenFn.WaveletMatrix_BitVector.select_helper c fuel g k val pos depth =
      WM.selectHelper c g.layers.size val ((g.layers.toList.drop depth).map Lay.bv) depth k pos := by
  rw [bv_select_helper_bridge]
  exact (selectHelper_eq bvops c g.layers hg k val hk (g.layers.size - depth) fuel depth pos (by omega) hf hp).1

theorem wm_bv_quantile_eq (c : Cfg) (g : GenFn.WaveletMatrix_BitVector) (hg : WOK bvops c g.layers) (a b k : Nat)
    (ha : a < 2^64) (hb : b < 2^64) :
    GenFn.WaveletMatrix_BitVector.quantile c g (a, b) k = (absBV g).quantile c a b k := by
  rw [bv_quantile_bridge]; exact gw_quantile_eq bvops c g.layers g.alph_size_ hg a b k ha hb

/-- `intersect` (the code returns a `Vec<usize>`, the model a list; no hypothesis on the ranges) -/
theorem wm_bv_intersect_eq (c : Cfg) (g : GenFn.WaveletMatrix_BitVector) (hg : WOK bvops c g.layers)
    (ranges : Array (Nat × Nat)) (k : Nat) :
    ((GenFn.WaveletMatrix_BitVector.intersect c g ranges k).bind fun r => .ok (r.map Array.toList)) =
      (absBV g).intersect c ranges.toList k := by
  rw [bv_intersect_bridge]; exact gw_intersect_eq bvops c g.layers g.alph_size_ hg ranges k

/-- `intersect_helper` with enough fuel is the model's recursion on the remaining layers -/
theorem wm_bv_intersect_helper_eq (c : Cfg) (g : GenFn.WaveletMatrix_BitVector) (hg : WOK bvops c g.layers)
    (fuel : Nat) (ranges : Array (Nat × Nat)) (k depth pre : Nat) (hd : depth ≤ g.layers.size) (hf : g.layers.size - depth < fuel) :
    ((GenFn.WaveletMatrix_BitVector.intersect_helper c fuel g ranges k depth pre).bind fun r => .ok (r.map Array.toList)) =
      WM.intersectHelper c k ((g.layers.toList.drop depth).map Lay.bv) ranges.toList pre := by
  rw [bv_intersect_helper_bridge]
  exact intersectHelper_eq bvops c g.layers hg k (g.layers.size - depth) fuel depth ranges pre (by omega) hf

/-- `get_msb` (for `pos < width ≤ 64`, as in every call) -/
theorem wm_bv_get_msb_eq (c : Cfg) (val pos width : Nat) (hp : pos < width) (hw : width ≤ 64) :
    GenFn.WaveletMatrix_BitVector.get_msb c val pos width = .ok (WM.getMsb val pos width) :=
  gw_getMsb_eq c val pos width hp hw

/-! accessors -/
theorem wm_bv_len_eq (c : Cfg) (g : GenFn.WaveletMatrix_BitVector) (hg : WOK bvops c g.layers) :
    GenFn.WaveletMatrix_BitVector.len g = .ok (absBV g).len := by
  rw [bv_len_bridge]; exact gw_len_eq bvops c g.layers g.alph_size_ hg.lay

theorem wm_bv_is_empty_eq (c : Cfg) (g : GenFn.WaveletMatrix_BitVector) (hg : WOK bvops c g.layers) :
    GenFn.WaveletMatrix_BitVector.is_empty g = .ok ((absBV g).len == 0) := by
  rw [bv_is_empty_bridge]; unfold GW.isEmpty; rw [gw_len_eq bvops c g.layers g.alph_size_ hg.lay, bok]; rfl

theorem wm_bv_alph_size_eq (g : GenFn.WaveletMatrix_BitVector) : GenFn.WaveletMatrix_BitVector.alph_size g = (absBV g).alphSize := rfl

theorem wm_bv_alph_width_eq (g : GenFn.WaveletMatrix_BitVector) : GenFn.WaveletMatrix_BitVector.alph_width g = (absBV g).alphWidth := by
  simp [GenFn.WaveletMatrix_BitVector.alph_width, absBV, WM.alphWidth]

theorem wm_bv_iter_eq (g : GenFn.WaveletMatrix_BitVector) : GenFn.WaveletMatrix_BitVector.iter g = ⟨g, 0⟩ := rfl
theorem wm_bv_iter_new_eq (g : GenFn.WaveletMatrix_BitVector) : GenFn.wavelet_matrix_Iter_BitVector.new g = ⟨g, 0⟩ := rfl

/-! ### specification level (right-hand sides of `Props/C05.lean`, `C06.lean`, `C17.lean`)

    `hg : GBuilt bvops c g.layers g.alph_size_ s` is what `wm_bv_new_eq` returns for the sequence `s`. -/
section
variable {c : Cfg} {g : GenFn.WaveletMatrix_BitVector} {s : List Nat}

theorem wm_bv_len_spec (hg : GBuilt bvops c g.layers g.alph_size_ s) : GenFn.WaveletMatrix_BitVector.len g = .ok s.length := by
  rw [bv_len_bridge]; exact hg.len_eq
theorem wm_bv_is_empty_spec (hg : GBuilt bvops c g.layers g.alph_size_ s) :
    GenFn.WaveletMatrix_BitVector.is_empty g = .ok (s.length == 0) := by
  rw [bv_is_empty_bridge]; exact hg.isEmpty_eq
theorem wm_bv_alph_size_spec (hg : GBuilt bvops c g.layers g.alph_size_ s) :
    GenFn.WaveletMatrix_BitVector.alph_size g = s.foldl max 0 + 1 := hg.alph_eq
theorem wm_bv_alph_width_spec (hg : GBuilt bvops c g.layers g.alph_size_ s) :
    GenFn.WaveletMatrix_BitVector.alph_width g = SpecX.bitlen (s.foldl max 0 + 1) := hg.width_eq
theorem wm_bv_access_spec (hg : GBuilt bvops c g.layers g.alph_size_ s) (i : Nat) (hi : i < 2^64) :
    GenFn.WaveletMatrix_BitVector.access c g i = .ok s[i]? := by
  rw [bv_access_bridge]; exact hg.access_spec i hi
theorem wm_bv_rank_range_spec (hg : GBuilt bvops c g.layers g.alph_size_ s) (a b v : Nat) (ha : a < 2^64) (hb : b < 2^64) :
    GenFn.WaveletMatrix_BitVector.rank_range c g (a, b) v =
      .ok (if b ≤ s.length then some (((s.take b).drop a).count v) else none) := by
  rw [bv_rank_range_bridge]; exact hg.rankRange_spec a b v ha hb
theorem wm_bv_rank_spec (hg : GBuilt bvops c g.layers g.alph_size_ s) (p v : Nat) (hp : p < 2^64) :
    GenFn.WaveletMatrix_BitVector.rank c g p v = .ok (if p ≤ s.length then some ((s.take p).count v) else none) := by
  rw [bv_rank_bridge]; exact hg.rank_spec p v hp
theorem wm_bv_select_spec (hg : GBuilt bvops c g.layers g.alph_size_ s) (k v : Nat) (hk : k < 2^64) :
    GenFn.WaveletMatrix_BitVector.select c g k v = .ok (sel (fun i => decide (s[i]? = some v)) s.length k) := by
  rw [bv_select_bridge]; exact hg.select_spec k v hk
theorem wm_bv_quantile_spec (hg : GBuilt bvops c g.layers g.alph_size_ s) (a b k : Nat) (ha : a < 2^64) (hb : b < 2^64) :
    GenFn.WaveletMatrix_BitVector.quantile c g (a, b) k =
      .ok (if b ≤ s.length ∧ k < b - a then (SpecX.sort ((s.take b).drop a))[k]? else none) := by
  rw [bv_quantile_bridge]; exact hg.quantile_spec a b k ha hb
theorem wm_bv_intersect_spec (hg : GBuilt bvops c g.layers g.alph_size_ s) (ranges : Array (Nat × Nat)) (j : Nat) :
    (ranges.toList.any (fun r => decide (s.length < r.2)) = true →
      GenFn.WaveletMatrix_BitVector.intersect c g ranges j = .ok none) ∧
    (ranges.toList.any (fun r => decide (s.length < r.2)) = false →
      ∃ out : Array Nat, GenFn.WaveletMatrix_BitVector.intersect c g ranges j = .ok (some out) ∧ out.toList.Pairwise (· < ·) ∧
        ∀ x, x ∈ out.toList ↔
          j < ((ranges.toList.filter fun r => decide (r.1 < r.2)).countP fun r => decide (x ∈ (s.take r.2).drop r.1))) := by
  rw [bv_intersect_bridge]; exact hg.intersect_spec ranges j

/-- `Iter::next`: the stored value and the advanced cursor while `pos < len`, `None` and the same cursor afterwards -/
theorem wm_bv_iter_next_spec (hg : GBuilt bvops c g.layers g.alph_size_ s) (pos : Nat) :
    GenFn.wavelet_matrix_Iter_BitVector.next c ⟨g, pos⟩ =
      .ok (⟨g, if pos < s.length then pos + 1 else pos⟩, s[pos]?) := by
  rw [bv_iter_next_bridge]
  simp only []
  by_cases hp : pos < s.length
  · rw [hg.iterNext_lt pos hp, bok, if_pos hp, List.getElem?_eq_getElem hp]
  · rw [hg.iterNext_ge pos (by omega), bok, if_neg hp, List.getElem?_eq_none (by omega)]

/-- `Iter::size_hint` is exact -/
theorem wm_bv_iter_size_hint_spec (hg : GBuilt bvops c g.layers g.alph_size_ s) (pos : Nat) (hp : pos ≤ s.length) :
    GenFn.wavelet_matrix_Iter_BitVector.size_hint c ⟨g, pos⟩ = .ok (s.length - pos, some (s.length - pos)) := by
  rw [bv_iter_size_hint_bridge]; exact hg.iterSizeHint_eq pos hp
end

/-- `n` rounds of `size_hint(); next()` on the generated iterator -/
def wm_bvRunN (c : Cfg) : GenFn.wavelet_matrix_Iter_BitVector → Nat → R (List (Option Nat × (Nat × Option Nat)))
  | _, 0 => .ok []
  | it, n+1 =>
    (GenFn.wavelet_matrix_Iter_BitVector.size_hint c it).bind fun sh =>
    (GenFn.wavelet_matrix_Iter_BitVector.next c it).bind fun r =>
    (wm_bvRunN c r.1 n).bind fun l => .ok ((r.2, sh) :: l)

theorem wm_bvRunN_eq (c : Cfg) (g : GenFn.WaveletMatrix_BitVector) : ∀ (n pos : Nat),
    wm_bvRunN c ⟨g, pos⟩ n = gwRunN bvops c g.layers pos n
  | 0, _ => rfl
  | n + 1, pos => by
    rw [wm_bvRunN, gwRunN, bv_iter_size_hint_bridge, bv_iter_next_bridge]
    simp only []
    cases GW.iterSizeHint bvops c g.layers pos with
    | error e => rfl
    | ok sh =>
      simp only [bok]
      cases GW.iterNext bvops c g.layers pos with
      | error e => rfl
      | ok r =>
        simp only [bok]
        rw [wm_bvRunN_eq c g n r.1]

/-- **C17 for the generated iterator**: the stored values in order, then `None` forever, exact size hints -/
theorem wm_bv_iter (c : Cfg) (g : GenFn.WaveletMatrix_BitVector) (s : List Nat) (hg : GBuilt bvops c g.layers g.alph_size_ s) (n : Nat) :
    wm_bvRunN c (GenFn.WaveletMatrix_BitVector.iter g) n = .ok (C17.expected s n) := by
  rw [wm_bv_iter_eq, wm_bvRunN_eq]; exact hg.iter_c17 n

/-- **C05 for the generated `WaveletMatrix<BitVector>`** -/
theorem wm_bv_c05 (c : Cfg) (cv : CV) (s : List Nat) (h : CV.Rep cv s) (hne : s ≠ [])
    (hmax : s.foldl max 0 + 1 < 2^64) (hn : s.length < 2^63) (hsz : cv.len * cv.width < 2^64)
    (hnW : s.length * SpecX.bitlen (s.foldl max 0 + 1) < 2^64) :
    ∃ g, GenFn.WaveletMatrix_BitVector.new c cv = .ok (.ok g) ∧
      GenFn.WaveletMatrix_BitVector.alph_size g = s.foldl max 0 + 1 ∧ GenFn.WaveletMatrix_BitVector.len g = .ok s.length ∧
      (∀ i, i < 2^64 → GenFn.WaveletMatrix_BitVector.access c g i = .ok s[i]?) ∧
      (∀ a b v, a < 2^64 → b < 2^64 → GenFn.WaveletMatrix_BitVector.rank_range c g (a, b) v =
        .ok (if b ≤ s.length then some (((s.take b).drop a).count v) else none)) ∧
      (∀ p v, p < 2^64 → GenFn.WaveletMatrix_BitVector.rank c g p v =
        .ok (if p ≤ s.length then some ((s.take p).count v) else none)) ∧
      (∀ j v, j < 2^64 → GenFn.WaveletMatrix_BitVector.select c g j v =
        .ok (sel (fun i => decide (s[i]? = some v)) s.length j)) := by
  obtain ⟨g, h1, _, h3, hg⟩ := wm_bv_new_eq c cv s h hne hmax hn hsz hnW
  exact ⟨g, h1, h3, wm_bv_len_spec hg, wm_bv_access_spec hg, wm_bv_rank_range_spec hg, wm_bv_rank_spec hg, wm_bv_select_spec hg⟩

/-- **C06 for the generated `WaveletMatrix<BitVector>`** -/
theorem wm_bv_c06 (c : Cfg) (cv : CV) (s : List Nat) (h : CV.Rep cv s) (hne : s ≠ [])
    (hmax : s.foldl max 0 + 1 < 2^64) (hn : s.length < 2^63) (hsz : cv.len * cv.width < 2^64)
    (hnW : s.length * SpecX.bitlen (s.foldl max 0 + 1) < 2^64) :
    ∃ g, GenFn.WaveletMatrix_BitVector.new c cv = .ok (.ok g) ∧
      (∀ a b j, a < 2^64 → b < 2^64 → GenFn.WaveletMatrix_BitVector.quantile c g (a, b) j =
        .ok (if b ≤ s.length ∧ j < b - a then (SpecX.sort ((s.take b).drop a))[j]? else none)) ∧
      (∀ (ranges : Array (Nat × Nat)) j,
        (ranges.toList.any (fun r => decide (s.length < r.2)) = true →
          GenFn.WaveletMatrix_BitVector.intersect c g ranges j = .ok none) ∧
        (ranges.toList.any (fun r => decide (s.length < r.2)) = false →
          ∃ out : Array Nat, GenFn.WaveletMatrix_BitVector.intersect c g ranges j = .ok (some out) ∧
            out.toList.Pairwise (· < ·) ∧
            ∀ x, x ∈ out.toList ↔
              j < ((ranges.toList.filter fun r => decide (r.1 < r.2)).countP
                fun r => decide (x ∈ (s.take r.2).drop r.1)))) := by
  obtain ⟨g, h1, _, _, hg⟩ := wm_bv_new_eq c cv s h hne hmax hn hsz hnW
  exact ⟨g, h1, wm_bv_quantile_spec hg, wm_bv_intersect_spec hg⟩

/-- **C17 (wavelet matrix clause) for the generated `WaveletMatrix<BitVector>`** -/
theorem wm_bv_c17 (c : Cfg) (cv : CV) (s : List Nat) (h : CV.Rep cv s) (hne : s ≠ [])
    (hmax : s.foldl max 0 + 1 < 2^64) (hn : s.length < 2^63) (hsz : cv.len * cv.width < 2^64)
    (hnW : s.length * SpecX.bitlen (s.foldl max 0 + 1) < 2^64) :
    ∃ g, GenFn.WaveletMatrix_BitVector.new c cv = .ok (.ok g) ∧
      ∀ n, wm_bvRunN c (GenFn.WaveletMatrix_BitVector.iter g) n = .ok (C17.expected s n) := by
  obtain ⟨g, h1, _, _, hg⟩ := wm_bv_new_eq c cv s h hne hmax hn hsz hnW
  exact ⟨g, h1, wm_bv_iter c g s hg⟩

end Sucds.GenEq
