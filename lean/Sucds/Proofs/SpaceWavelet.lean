import Sucds.Proofs.SpaceRank9
import Sucds.Model.SerialStruct
/-! # C19, part 4c — `WaveletMatrix<Rank9Sel>`: `8·size_in_bytes ≤ width·(1.32·n + 2048) + 128`.

Every layer is a `Rank9Sel` with both hint tables over a bit vector of `n` bits (the two halves of the
stable partition always have `n` elements together), so the `Rank9Sel` bound applies layer by layer. -/
set_option linter.unusedSimpArgs false
set_option linter.unusedVariables false
namespace Sucds
namespace Space
open Codec

theorem sum_map_le {α : Type} (f : α → Nat) (B : Nat) : ∀ (l : List α), (∀ x ∈ l, f x ≤ B) →
    (l.map f).sum ≤ l.length * B := by
  intro l
  induction l with
  | nil => intro _; simp
  | cons a t ih =>
    intro h
    have h1 := h a (by simp)
    have h2 := ih (fun x hx => h x (by simp [hx]))
    simp only [List.map_cons, List.sum_cons, List.length_cons, Nat.succ_mul]
    omega

/-- `Vec<S>` held as an `Array`: length prefix + the elements -/
theorem arr_size {α : Type} (a : Codec α) (xs : Array α) : (arr a).size xs = 8 + (xs.toList.map a.size).sum := rfl

/-- `WaveletMatrix::size_in_bytes` -/
theorem WM.codec_size (k : Backing) (w : WM) :
    (WM.codec k).size w = 16 + (w.layers.toList.map (Lay.codec k).size).sum := by
  show (arr (Lay.codec k)).size w.layers + 8 = _
  rw [arr_size]; omega

theorem filter_split_length (f : Nat → Bool) (l : List Nat) :
    (l.filter (fun v => !f v) ++ l.filter f).length = l.length := by
  induction l with
  | nil => rfl
  | cons a t ih =>
    simp only [List.length_append] at ih ⊢
    cases h : f a <;> simp [List.filter_cons, h] <;> omega

/-- a layer of the `Rank9Sel` backing within the bound for `n` bits -/
def LayOK (n : Nat) (l : Lay) : Prop := 100 * (8 * (Lay.codec .r9).size l) ≤ 132 * n + 204800

theorem buildLayers_r9 (c : Cfg) (width n : Nat) :
    ∀ (fuel depth : Nat) (zeros ones : List Nat) (acc ls : Array Lay),
      (zeros ++ ones).length = n → (∀ l ∈ acc.toList, LayOK n l) →
      WM.buildLayers c .r9 width depth zeros ones acc fuel = .ok ls → ∀ l ∈ ls.toList, LayOK n l := by
  intro fuel
  induction fuel with
  | zero =>
    intro depth zeros ones acc ls _ hacc e
    simp only [WM.buildLayers] at e
    cases e; exact hacc
  | succ fuel ih =>
    intro depth zeros ones acc ls hlen hacc e
    simp only [WM.buildLayers] at e
    by_cases hd : depth < width
    · rw [if_pos hd] at e
      have hfs := filter_split_length (fun (v : Nat) => ((v >>> (width - depth - 1)) &&& 1) == 1) (zeros ++ ones)
      generalize hbit : (fun (v : Nat) => ((v >>> (width - depth - 1)) &&& 1) == 1) = bit at e hfs
      have hinv := (BV.fromBits_spec ((zeros ++ ones).map bit)).1
      have hbl : (BV.fromBits ((zeros ++ ones).map bit)).len = n := by
        rw [BV.fromBits_len, List.length_map, hlen]
      unfold Lay.build at e
      simp only [] at e
      cases hb : R9.build c (BV.fromBits ((zeros ++ ones).map bit)) true true with
      | error p => rw [hb] at e; cases e
      | ok x =>
        rw [hb, R9Index.bind_ok, R9Index.bind_ok] at e
        have hx := rank9sel_bound' c _ hinv true true x hb
        rw [hbl] at hx
        refine ih (depth + 1) _ _ _ ls ?_ ?_ e
        · rw [← hlen]; exact hfs
        · intro l hl
          rw [Array.toList_push, List.mem_append] at hl
          rcases hl with hl | hl
          · exact hacc l hl
          · simp only [List.mem_singleton] at hl
            subst hl
            exact hx
    · rw [if_neg hd] at e
      cases e; exact hacc

/-- **WaveletMatrix<Rank9Sel>** (C19): for a sequence of `n` values, the matrix returned by `new` has
    `width = alph_width()` layers and `100·(8·size_in_bytes) ≤ width·(132·n + 204800) + 12800`,
    i.e. `B ≤ width·(1.32·n + 2048) + 128`. -/
theorem waveletmatrix_r9_bound (c : Cfg) (seq : List Nat) (w : WM) (e : WM.new c .r9 seq = .ok (some w)) :
    100 * (8 * (WM.codec .r9).size w) ≤ w.alphWidth * (132 * seq.length + 204800) + 12800 := by
  unfold WM.new at e
  by_cases hemp : seq.isEmpty = true
  · rw [if_pos hemp] at e; cases e
  · rw [if_neg hemp] at e
    cases ha : cadd c (seq.foldl max 0) 1 with
    | error p => rw [ha] at e; cases e
    | ok alph =>
      rw [ha, R9Index.bind_ok] at e
      simp only [] at e
      cases hb : WM.buildLayers c .r9 (neededBits c alph) 0 seq [] #[] (neededBits c alph) with
      | error p => rw [hb] at e; cases e
      | ok ls =>
        rw [hb, R9Index.bind_ok] at e
        cases e
        have hall := buildLayers_r9 c (neededBits c alph) seq.length (neededBits c alph) 0 seq [] #[] ls
          (by simp) (by simp) hb
        have hs := sum_map_le (fun l => 100 * (8 * (Lay.codec .r9).size l)) (132 * seq.length + 204800) ls.toList hall
        rw [WM.codec_size]
        show 100 * (8 * (16 + (ls.toList.map (Lay.codec .r9).size).sum)) ≤ ls.size * _ + 12800
        have hmul : (ls.toList.map (fun l => 100 * (8 * (Lay.codec .r9).size l))).sum
            = 800 * (ls.toList.map (Lay.codec .r9).size).sum := by
          generalize ls.toList = L
          induction L with
          | nil => rfl
          | cons a t ih => simp only [List.map_cons, List.sum_cons, ih]; omega
        rw [hmul, Array.length_toList] at hs
        generalize ls.size * (132 * seq.length + 204800) = R at hs ⊢
        omega

end Space
end Sucds
