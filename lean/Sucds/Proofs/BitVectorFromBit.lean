import Sucds.Proofs.BitVectorMore
set_option linter.unusedSimpArgs false
set_option linter.unusedVariables false
namespace Sucds
namespace BV

theorem wordAt_replicate (n v i : Nat) : wordAt (Array.replicate n v) i = if i < n then v else 0 := by
  unfold wordAt
  by_cases h : i < n
  · simp [h]
  · simp [h]

theorem maxw_testBit (j : Nat) : MAXW.testBit j = decide (j < 64) := by
  unfold MAXW; exact Nat.testBit_two_pow_sub_one 64 j

/-- **from_bit**: `len` copies of `bit`, with the padding of the last word cleared -/
theorem fromBit_spec (bit : Bool) (len : Nat) :
    (fromBit bit len).Inv ∧ (fromBit bit len).len = len ∧
      ∀ i, (fromBit bit len).bitAt i = (decide (i < len) && bit) := by
  have hbit : ∀ i, (fromBit bit len).bitAt i = (decide (i < len) && bit) := by
    intro i
    unfold fromBit
    simp only [wordsFor]
    by_cases hs : len % 64 ≠ 0
    · simp only [hs, if_true, ne_eq, not_false_eq_true, bitAt, wordAt_modify, Array.size_replicate, wordAt_replicate]
      by_cases hlast : (len + 63) / 64 - 1 = i / 64 ∧ i / 64 < (len + 63) / 64
      · simp only [hlast, and_self, if_true]
        rw [Nat.testBit_and, Nat.one_shiftLeft, Nat.testBit_two_pow_sub_one]
        cases bit with
        | false => simp
        | true =>
          simp only [if_true, maxw_testBit, Bool.and_true]
          have h64 : i % 64 < 64 := Nat.mod_lt _ (by decide)
          by_cases hi : i < len
          · have : i % 64 < len % 64 := by omega
            simp [hi, this, h64]
          · have : ¬ i % 64 < len % 64 := by omega
            simp [hi, this]
      · simp only [hlast, if_false]
        by_cases hw : i / 64 < (len + 63) / 64
        · have hi : i < len := by omega
          have h64 : i % 64 < 64 := Nat.mod_lt _ (by decide)
          cases bit with
          | false => simp [hw]
          | true => simp only [hw, if_true, maxw_testBit]; simp [hi, h64]
        · have hi : ¬ i < len := by omega
          simp [hw, hi]
    · have hs0 : len % 64 = 0 := by omega
      simp only [hs, if_false, bitAt, wordAt_replicate]
      by_cases hw : i / 64 < (len + 63) / 64
      · have hi : i < len := by omega
        have h64 : i % 64 < 64 := Nat.mod_lt _ (by decide)
        cases bit with
        | false => simp [hw]
        | true => simp only [hw, if_true, maxw_testBit]; simp [hi, h64]
      · have hi : ¬ i < len := by omega
        simp [hw, hi]
  have hlen : (fromBit bit len).len = len := by
    unfold fromBit; simp only []; split <;> rfl
  refine ⟨⟨?_, ?_, ?_⟩, hlen, hbit⟩
  · rw [hlen]; unfold fromBit; simp only [wordsFor]; split <;> simp [Array.size_modify]
  · intro i
    unfold fromBit
    simp only [wordsFor]
    have hM : MAXW < 2^64 := by decide
    split
    · simp only [wordAt_modify, Array.size_replicate, wordAt_replicate]
      split
      · exact Nat.lt_of_le_of_lt Nat.and_le_left (by split <;> (try exact hM) <;> (try (split <;> first | exact hM | decide)) <;> decide)
      · split <;> (try (split <;> first | exact hM | decide)) <;> decide
    · simp only [wordAt_replicate]
      split <;> (try (split <;> first | exact hM | decide)) <;> decide
  · intro i hi
    rw [hlen] at hi
    rw [hbit i]
    have : ¬ i < len := by omega
    simp [this]

end BV
end Sucds
