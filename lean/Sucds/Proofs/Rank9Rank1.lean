import Sucds.Proofs.Rank9Rank
set_option linter.unusedSimpArgs false
set_option linter.unusedVariables false
namespace Sucds
open Spec
namespace R9Index

theorem pairs_size (c : Cfg) (bv : BV) (h : bv.Inv) :
    (buildRank c bv).pairs.size = 2 * (bv.words.size / 8) + 2 + (if bv.words.size % 8 ≠ 0 then 2 else 0) := by
  have := congrArg List.length (pairs_toList c bv h)
  rw [Array.length_toList] at this
  rw [this]
  simp only [List.length_append, specList_length, List.length_cons, List.length_nil]
  split <;> simp

theorem numOnes_ok (c : Cfg) (bv : BV) (h : bv.Inv) :
    (buildRank c bv).numOnes = .ok (prefixPop c bv.words bv.words.size) := by
  have hp := pairs_toList c bv h
  have hs := pairs_size c bv h
  have hsdm : 8 * (bv.words.size / 8) + bv.words.size % 8 = bv.words.size := Nat.div_add_mod _ 8
  unfold numOnes
  apply idx_toList
  rw [hs, hp]
  by_cases hr : bv.words.size % 8 ≠ 0
  · rw [if_pos hr, if_pos hr]
    rw [List.getElem?_append_right (by simp [specList_length])]
    simp only [List.length_append, specList_length, List.length_cons, List.length_nil]
    have : 2 * (bv.words.size / 8) + 2 + 2 - 2 - (2 * (bv.words.size / 8) + 1 + (0 + 1)) = 0 := by omega
    rw [this]; rfl
  · rw [if_neg hr, if_neg hr]
    simp only [List.append_nil, Nat.add_zero]
    have hr0 : bv.words.size % 8 = 0 := by omega
    rw [List.getElem?_append_left (by rw [specList_length]; omega)]
    have : 2 * (bv.words.size / 8) + 2 - 2 = 2 * (bv.words.size / 8) := by omega
    rw [this, specList_even c bv.words _ _ (Nat.le_refl _)]
    congr 2; omega

/-- the directory counts what the bits say -/
theorem prefixPop_eq (c : Cfg) (bv : BV) (h : bv.Inv) (i : Nat) : prefixPop c bv.words i = cnt bv.bitAt (64 * i) := by
  induction i with
  | zero => rfl
  | succ i ih =>
    simp only [prefixPop, ih]
    rw [show 64 * (i + 1) = 64 * i + 64 by omega, cnt_add, popcountN_eq c _ (h.lt i)]
    congr 1
    exact cnt_congr _ _ 64 (fun j hj => BV.word_testBit bv i j hj)

/-- popcount of a word shifted left so that only its low `l` bits remain -/
theorem popcount_shifted (c : Cfg) (w l : Nat) (hl0 : 0 < l) (hl : l < 64) :
    popcountN c ((w <<< (64 - l)) % 2^64) = cnt (fun j => w.testBit j) l := by
  rw [popcountN_eq c _ (Nat.mod_lt _ (Nat.two_pow_pos 64))]
  have hs : (64 - l) + l = 64 := by omega
  have hadd := cnt_add (fun i => ((w <<< (64 - l)) % 2^64).testBit i) (64 - l) l
  rw [hs] at hadd
  rw [hadd]
  have hz : cnt (fun i => ((w <<< (64 - l)) % 2^64).testBit i) (64 - l) = 0 := by
    apply C14.cnt_zero_of_false
    intro i hi
    rw [Nat.testBit_mod_two_pow, Nat.testBit_shiftLeft]
    have : ¬ (i ≥ 64 - l) := by omega
    simp [this]
  rw [hz, Nat.zero_add]
  apply cnt_congr
  intro j hj
  rw [Nat.testBit_mod_two_pow, Nat.testBit_shiftLeft]
  have h1 : 64 - l + j < 64 := by omega
  have h2 : 64 - l + j ≥ 64 - l := by omega
  have h3 : 64 - l + j - (64 - l) = j := by omega
  simp [h1, h2, h3]

/-- **rank1** of the Rank9 index: the number of set bits before `pos`, `none` iff `pos > len` -/
theorem rank1_ok (c : Cfg) (bv : BV) (h : bv.Inv) (pos : Nat) :
    (buildRank c bv).rank1 c bv pos = .ok (if pos ≤ bv.len then some (cnt bv.bitAt pos) else none) := by
  have hsz := h.size
  unfold rank1
  by_cases h1 : bv.len < pos
  · have : ¬ pos ≤ bv.len := by omega
    simp [h1, this]
  · have hle : pos ≤ bv.len := by omega
    simp only [h1, if_false, hle, if_true]
    by_cases h2 : pos = bv.len
    · subst h2
      simp only [if_true]
      rw [numOnes_ok c bv h]
      simp only [Except.bind]
      rw [prefixPop_eq c bv h]
      -- bits at or beyond `len` are zero
      have hsplit := cnt_add bv.bitAt bv.len (64 * bv.words.size - bv.len)
      rw [show bv.len + (64 * bv.words.size - bv.len) = 64 * bv.words.size by omega] at hsplit
      have hz : cnt (fun i => bv.bitAt (bv.len + i)) (64 * bv.words.size - bv.len) = 0 :=
        C14.cnt_zero_of_false _ _ (fun i _ => h.pad (bv.len + i) (by omega))
      rw [hsplit, hz, Nat.add_zero]
    · simp only [h2, if_false]
      rw [subBlockRank_ok c bv h (pos / 64) (by omega)]
      simp only [Except.bind]
      rw [prefixPop_eq c bv h]
      by_cases h3 : pos % 64 ≠ 0
      · simp only [h3, if_true, ne_eq, not_false_eq_true]
        rw [idx_ok _ _ (by omega)]
        simp only [Except.bind]
        rw [popcount_shifted c _ _ (by omega) (Nat.mod_lt _ (by decide))]
        have hdm : 64 * (pos / 64) + pos % 64 = pos := Nat.div_add_mod pos 64
        conv => rhs; rw [← hdm, cnt_add]
        congr 3
        exact cnt_congr _ _ _ (fun j hj => BV.word_testBit bv _ j (by omega))
      · have h0 : pos % 64 = 0 := by omega
        have : 64 * (pos / 64) = pos := by omega
        simp only [h3, if_false, this]

/-- **rank0** of the Rank9 index = `pos - rank1(pos)` = the number of unset bits before `pos`; the
    subtraction cannot underflow -/
theorem rank0_ok (c : Cfg) (bv : BV) (h : bv.Inv) (pos : Nat) :
    (buildRank c bv).rank0 c bv pos = .ok (if pos ≤ bv.len then some (cnt (fun i => !bv.bitAt i) pos) else none) := by
  unfold rank0
  rw [rank1_ok c bv h pos]
  simp only [Except.bind]
  by_cases hle : pos ≤ bv.len
  · simp only [hle, if_true]
    rw [csub_ok c (cnt_le _ _)]
    have := cnt_compl bv.bitAt pos
    simp only [Except.bind]
    congr 2; omega
  · simp [hle]

end R9Index
end Sucds
