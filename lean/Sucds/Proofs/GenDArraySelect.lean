import Sucds.Proofs.GenDArrayBuild
/-! `DArrayIndex::select` as *generated* from `src/bit_vectors/darray/inner.rs` agrees with the model
    (`DAIndex.select`, `DAIndex.scan`) on every index whose inventories hold values of their Rust types. -/
set_option linter.unusedSimpArgs false
set_option linter.unusedVariables false
namespace Sucds.GenEq
open Sucds Sucds.Spec Sucds.DAProof

/-! ### `isize` arithmetic of the overflow branch -/

theorem ineg_ok (c : Cfg) (a : Int) (h1 : -(2^63 : Int) < a) (h2 : a ≤ 2^63) : RS.ineg c a = .ok (-a) := by
  have hr : RS.inRangeI (-a) = true := by
    unfold RS.inRangeI; simp only [Bool.and_eq_true, decide_eq_true_eq]; omega
  unfold RS.ineg; rw [if_pos hr]

theorem isub_ok (c : Cfg) (a b : Int) (h1 : -(2^63 : Int) ≤ a - b) (h2 : a - b < 2^63) : RS.isub c a b = .ok (a - b) := by
  have hr : RS.inRangeI (a - b) = true := by
    unfold RS.inRangeI; simp only [Bool.and_eq_true, decide_eq_true_eq]; omega
  unfold RS.isub; rw [if_pos hr]

theorem usizeOfIsize_nonneg (i : Int) (h0 : 0 ≤ i) (h1 : i < 2^64) : RS.usizeOfIsize i = i.toNat := by
  unfold RS.usizeOfIsize; rw [Int.emod_eq_of_lt h0 h1]

/-! ### the word accessors -/

theorem get_word_eq (bv : BV) (o : Bool) (i : Nat) :
    (if o = true then GenFn.DArrayIndex.get_word_over_one bv i else GenFn.DArrayIndex.get_word_over_zero bv i : R Nat)
      = DAIndex.getWord o bv i := by
  unfold GenFn.DArrayIndex.get_word_over_one GenFn.DArrayIndex.get_word_over_zero DAIndex.getWord
  rw [words_eq, index_eq]
  cases o
  · rw [if_neg (by decide)]; rfl
  · rw [if_pos rfl]
    cases idx bv.words i <;> rfl

theorem get_word_over_one_eq (bv : BV) (i : Nat) : GenFn.DArrayIndex.get_word_over_one bv i = DAIndex.getWord true bv i :=
  get_word_eq bv true i

theorem get_word_over_zero_eq (bv : BV) (i : Nat) : GenFn.DArrayIndex.get_word_over_zero bv i = DAIndex.getWord false bv i :=
  get_word_eq bv false i

theorem getWord_cases (bv : BV) (o : Bool) (i : Nat) :
    (i < bv.words.size ∧ DAIndex.getWord o bv i = .ok (gw bv o i)) ∨
    (bv.words.size ≤ i ∧ DAIndex.getWord o bv i = .error .oob) := by
  by_cases hi : i < bv.words.size
  · exact .inl ⟨hi, getWord_ok bv o i hi⟩
  · refine .inr ⟨by omega, ?_⟩
    unfold DAIndex.getWord; rw [idx_oob _ _ (by omega)]; rfl

/-! ### the popcount scan -/

abbrev ScanSt := Nat × Nat × Nat

/-- body of the word scan of the generated `select` (copied; tied to the generated text by `select_shape : … := rfl`) -/
def daScanBody (c : Cfg) (self : DAIndex) (bv : BV) : ScanSt → R (RS.Step ScanSt (Nat × Nat)) :=
          (fun st =>
            let reminder1 := st.1
            let word_idx1 := st.2.1
            let word1 := st.2.2
            (GenFn.broadword.popcount c word1).bind fun popcnt =>
            if reminder1 < popcnt then
              .ok (.brk (reminder1, word_idx1, word1))
            else
              (csub c reminder1 popcnt).bind fun reminder2 =>
              (cadd c word_idx1 1).bind fun word_idx2 =>
              (if self.overOne = true then (GenFn.DArrayIndex.get_word_over_one bv word_idx2) else (GenFn.DArrayIndex.get_word_over_zero bv word_idx2) : R _).bind fun t7 =>
              .ok (.next (reminder2, word_idx2, t7)))

/-- the generated `select` with its loop body named -/
def daSelectShape (c : Cfg) (self : DAIndex) (bv : BV) (k : Nat) : R (Option Nat) :=
  if self.numPos ≤ k then
    .ok none
  else
    let block := (k / 1024)
    (RS.index self.blockInv block).bind fun block_pos =>
    if (block_pos : Int) < 0 then
      (RS.ineg c block_pos).bind fun t =>
      (RS.isub c t 1).bind fun t1 =>
      let overflow_pos := (RS.usizeOfIsize t1)
      (cadd c overflow_pos (k % 1024)).bind fun t2 =>
      (RS.index self.overflow t2).bind fun t3 =>
      .ok (some t3)
    else
      let subblock := (k / 32)
      let reminder := (k % 32)
      (RS.index self.subInv subblock).bind fun t4 =>
      (cadd c (RS.usizeOfIsize block_pos) t4).bind fun start_pos =>
      (if reminder = 0 then
        .ok (reminder, start_pos)
      else
        let word_idx := (start_pos / 64)
        let word_shift := (start_pos % 64)
        (if self.overOne = true then (GenFn.DArrayIndex.get_word_over_one bv word_idx) else (GenFn.DArrayIndex.get_word_over_zero bv word_idx) : R _).bind fun t5 =>
        (cshl c RS.MAX word_shift).bind fun t6 =>
        let word := (t5 &&& t6)
        (RS.loopB (reminder, word_idx, word) (daScanBody c self bv)).bind fun ex =>
        match ex with
          | .ret rv => .ok rv
          | .done st1 =>
            let reminder3 := st1.1
            let word_idx3 := st1.2.1
            let word2 := st1.2.2
            (cmul c 64 word_idx3).bind fun t8 =>
            (GenFn.broadword.select_in_word c word2 reminder3).bind fun t9 =>
            (RS.unwrap t9).bind fun t10 =>
            (cadd c t8 t10).bind fun r =>
            .ok (reminder3, r) : R _).bind fun j =>
      let sel := j.2
      .ok (some sel)

theorem select_shape (c : Cfg) (self : DAIndex) (bv : BV) (k : Nat) :
    GenFn.DArrayIndex.select c self bv k = daSelectShape c self bv k := rfl

/-- what a successful model scan returns: a word of the vector, a remainder not above the initial one -/
theorem scan_post (c : Cfg) (x : DAIndex) (bv : BV) (h : bv.Inv) : ∀ (n wi word rem : Nat) (r : Nat × Nat × Nat),
    word < 2^64 → wi < bv.words.size → DAIndex.scan c x bv wi word rem n = .ok r →
    r.1 < bv.words.size ∧ r.2.1 < 2^64 ∧ r.2.2 ≤ rem := by
  intro n
  induction n with
  | zero =>
    intro wi word rem r hw hwi hr
    simp only [DAIndex.scan] at hr
    injection hr with hr; subst hr
    exact ⟨hwi, hw, Nat.le_refl _⟩
  | succ n ih =>
    intro wi word rem r hw hwi hr
    by_cases hlt : rem < popcountN c word
    · rw [scan_stop c x bv wi word rem n hlt] at hr
      injection hr with hr; subst hr
      exact ⟨hwi, hw, Nat.le_refl _⟩
    · rcases getWord_cases bv x.overOne (wi + 1) with ⟨hi, hg⟩ | ⟨hi, hg⟩
      · rw [scan_next c x bv wi word rem n _ hlt hg] at hr
        have := ih (wi + 1) _ _ r (gw_lt bv h x.overOne (wi + 1)) hi hr
        omega
      · simp only [DAIndex.scan, hlt, if_false, hg] at hr
        cases hr

/-- **the word scan** of the generated `select` = the model's `scan` (whose fuel `words + 1` is never exhausted) -/
theorem da_scan_eq (c : Cfg) (x : DAIndex) (bv : BV) (h : bv.Inv) (hL : bv.len < 2^64) :
    ∀ (n wi word rem fuel : Nat), word < 2^64 → wi < bv.words.size → bv.words.size - wi ≤ n → n ≤ fuel →
      RS.loopFuel (daScanBody c x bv) fuel (rem, wi, word)
        = (DAIndex.scan c x bv wi word rem n).bind fun r => .ok (.done (r.2.2, r.1, r.2.1)) := by
  have hsz := h.size
  intro n
  induction n with
  | zero => intro wi word rem fuel _ hwi hn _; omega
  | succ n ih =>
    intro wi word rem fuel hw hwi hn hf
    cases fuel with
    | zero => omega
    | succ fuel =>
    rw [loopFuel_succ]
    have hbody : daScanBody c x bv (rem, wi, word) =
        if rem < popcountN c word then .ok (.brk (rem, wi, word))
        else (DAIndex.getWord x.overOne bv (wi + 1)).bind fun t7 => .ok (.next (rem - popcountN c word, wi + 1, t7)) := by
      unfold daScanBody
      simp only []
      rw [popcount_spec c word hw, bok]
      by_cases hlt : rem < popcountN c word
      · rw [if_pos hlt, if_pos hlt]
      · rw [if_neg hlt, if_neg hlt, csub_ok c (by omega), bok, cadd_ok c (by omega), bok, get_word_eq]
    rw [hbody]
    by_cases hlt : rem < popcountN c word
    · rw [if_pos hlt, bok, stepK_brk, scan_stop c x bv wi word rem n hlt, bok]
    · rw [if_neg hlt]
      rcases getWord_cases bv x.overOne (wi + 1) with ⟨hi, hg⟩ | ⟨hi, hg⟩
      · rw [hg, bok, bok, stepK_next, scan_next c x bv wi word rem n _ hlt hg]
        exact ih (wi + 1) _ _ fuel (gw_lt bv h x.overOne (wi + 1)) hi (by omega) (by omega)
      · rw [hg]
        simp only [DAIndex.scan, hlt, if_false, hg]
        rfl

/-! ### `select` -/

theorem getElem?_of_idx (a : Array Nat) (i v : Nat) (h : idx a i = .ok v) : a[i]? = some v := by
  unfold idx at h
  split at h
  · next w hw => rw [hw]; injection h with h; rw [h]
  · cases h

/-- **`DArrayIndex::select`** (generated) = the model's `DAIndex.select`, for every index whose block inventory holds
    `isize` values of magnitude at most `len < 2^63` and whose sub-block inventory holds `u16` values (`Rng`; true of
    the built index by `build_Rng`), every well-formed bit vector, every `k`, every configuration — including the
    panics of both sides -/
theorem da_select_eq_of (c : Cfg) (bv : BV) (h : bv.Inv) (hL : bv.len < 2^63) (x : DAIndex)
    (hx : Rng x.blockInv x.subInv bv.len) (k : Nat) :
    GenFn.DArrayIndex.select c x bv k = x.select c bv k := by
  have hsz := h.size
  rw [select_shape]
  unfold daSelectShape DAIndex.select
  rw [hB, hS]
  by_cases hk : x.numPos ≤ k
  · rw [if_pos hk, if_pos hk]
  rw [if_neg hk, if_neg hk]
  simp only []
  unfold RS.index
  cases hb : x.blockInv[k / 1024]? with
  | none => rfl
  | some bp =>
    simp only []
    rw [bok]
    obtain ⟨hb1, hb2⟩ := hx.bi _ _ hb
    by_cases hneg : bp < 0
    · rw [if_pos hneg, if_pos hneg, ineg_ok c bp (by omega) (by omega), bok, isub_ok c (-bp) 1 (by omega) (by omega), bok,
        usizeOfIsize_nonneg _ (by omega) (by omega), cadd_ok c (by omega), bok]
      show (RS.index x.overflow _).bind _ = _
      rw [index_eq]
    · rw [if_neg hneg, if_neg hneg]
      show (RS.index x.subInv _).bind _ = _
      rw [index_eq]
      cases hs : idx x.subInv (k / 32) with
      | error e => rfl
      | ok so =>
        have hso := hx.si _ _ (getElem?_of_idx _ _ _ hs)
        rw [bok, bok, usizeOfIsize_nonneg _ (by omega) (by omega), cadd_ok c (by omega), bok]
        by_cases h0 : k % 32 = 0
        · rw [if_pos h0, if_pos h0, bok]
        · rw [if_neg h0, if_neg h0, get_word_eq]
          generalize hst : bp.toNat + so = start
          rcases getWord_cases bv x.overOne (start / 64) with ⟨hi, hg⟩ | ⟨hi, hg⟩
          · rw [hg, bok, bok, cshl_ok c (Nat.mod_lt _ (by decide)), bok, MAX_eq]
            have hw0 : gw bv x.overOne (start / 64) &&& (BV.MAXW <<< (start % 64)) % 2^64 < 2^64 :=
              Nat.lt_of_le_of_lt Nat.and_le_left (gw_lt bv h x.overOne _)
            have hfuel : bv.words.size + 1 ≤ RS.FUEL := by unfold RS.FUEL; omega
            rw [loopB_eq, da_scan_eq c x bv h (by omega) (bv.words.size + 1) _ _ _ RS.FUEL hw0 hi (by omega) hfuel]
            cases hsc : DAIndex.scan c x bv (start / 64)
                (gw bv x.overOne (start / 64) &&& (BV.MAXW <<< (start % 64)) % 2^64) (k % 32) (bv.words.size + 1) with
            | error e => rfl
            | ok r =>
              obtain ⟨r1, r2, r3⟩ := scan_post c x bv h _ _ _ _ r hw0 hi hsc
              rw [bok, bok, bok]
              simp only []
              rw [cmul_ok c (by omega), bok, select_in_word_spec c _ _ r2 (by omega), bok]
              cases hsel : selectInWordN c r.2.1 r.2.2 with
              | none => rfl
              | some p =>
                have hp := selectInWordN_lt c _ _ p r2 hsel
                rw [unwrap_some, bok, cadd_ok c (by omega), bok, bok]
          · rw [hg]; rfl

/-- **`DArrayIndex::select`** on the index built by the model (and hence, by `da_build_eq`, by the generated `build`) -/
theorem da_select_eq (c : Cfg) (bv : BV) (h : bv.Inv) (hL : bv.len < 2^63) (overOne : Bool) (k : Nat) :
    GenFn.DArrayIndex.select c (DAIndex.build c bv overOne) bv k = (DAIndex.build c bv overOne).select c bv k :=
  da_select_eq_of c bv h hL _ (build_Rng c bv h hL overOne) k

/-- specification level: the position of the `k`-th bit equal to `overOne`, `none` iff there are at most `k` -/
theorem da_select_spec (c : Cfg) (bv : BV) (h : bv.Inv) (hL : bv.len < 2^63) (overOne : Bool) (k : Nat) :
    GenFn.DArrayIndex.select c (DAIndex.build c bv overOne) bv k
      = .ok (sel (fun i => bv.bitAt i == overOne) bv.len k) := by
  rw [da_select_eq c bv h hL overOne k, DAIndex.select_gen_ok c bv h overOne k]

theorem da_index_num_ones_eq (x : DAIndex) : GenFn.DArrayIndex.num_ones x = x.numPos := rfl

theorem da_index_num_ones_spec (c : Cfg) (bv : BV) (h : bv.Inv) (overOne : Bool) :
    GenFn.DArrayIndex.num_ones (DAIndex.build c bv overOne) = cnt (fun i => bv.bitAt i == overOne) bv.len :=
  DAIndex.build_numPos_gen c bv h overOne

end Sucds.GenEq
