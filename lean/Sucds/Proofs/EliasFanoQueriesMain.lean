import Sucds.Proofs.EliasFanoQueriesRank
import Sucds.Proofs.EliasFanoQueriesSearch
/-! Elias-Fano queries: the results instantiated for `EliasFanoBuilder::build()` and `.enable_rank()`.
    (The general versions, for any `e` with `Setting c e b xs`, are in the four imported files.) -/
set_option linter.unusedVariables false
namespace Sucds
namespace EFQ
open BV Spec EFB

section
variable (c : Cfg) (b : EFB) (xs : List Nat)

/-- queries that need no rank index, on the structure as built -/
theorem built_queries (h : Holds b xs) (hu : b.univ < 2^64) (hh : HighOK c (EF.ofBuilder c b).high b.high) :
    let e := EF.ofBuilder c b
    e.len = xs.length ∧
    (∀ k, e.select c k = .ok xs[k]?) ∧
    (∀ k, e.delta c k = .ok (if k < xs.length then some (X xs k - (if k = 0 then 0 else X xs (k - 1))) else none)) ∧
    (∀ k, ∃ it0, e.iter c k = .ok it0 ∧
      ∀ t, ∃ it', itRun c e (xs.length - k + t) it0 = .ok (it', (xs.drop k).map some ++ List.replicate t none)) ∧
    (∀ lo hi v, (hi ≤ lo ∨ xs.length < hi) → e.binsearchRange c lo hi v = .ok none) ∧
    (∀ lo hi v, lo < hi → hi ≤ xs.length → ∃ r, e.binsearchRange c lo hi v = .ok r ∧
      match r with
      | some i => lo ≤ i ∧ i < hi ∧ xs[i]? = some v
      | none => ∀ i, lo ≤ i → i < hi → xs[i]? ≠ some v) ∧
    (∀ v, e.binsearch c v = e.binsearchRange c 0 xs.length v) := by
  have S := setting_ofBuilder c b xs h hu hh
  exact ⟨len_eq S, select_ok S, delta_ok S, iter_all S, binsearchRange_none S, binsearchRange_ok S, binsearch_eq S⟩

/-- all queries on the structure with the rank index (`enable_rank`) -/
theorem ranked_queries (h : Holds b xs) (hu : b.univ < 2^64) (hh : HighOK c ((EF.ofBuilder c b).enableRank c).high b.high) :
    let e := (EF.ofBuilder c b).enableRank c
    e.len = xs.length ∧
    (∀ k, e.select c k = .ok xs[k]?) ∧
    (∀ k, e.delta c k = .ok (if k < xs.length then some (X xs k - (if k = 0 then 0 else X xs (k - 1))) else none)) ∧
    (∀ p, e.rank c p = .ok (if p ≤ b.univ then some (rk xs p) else none)) ∧
    (∀ p, e.predecessor c p = .ok (if p < b.univ then predV xs p else none)) ∧
    (∀ p, e.successor c p = .ok (if p < b.univ then succV xs p else none)) ∧
    (∀ k, ∃ it0, e.iter c k = .ok it0 ∧
      ∀ t, ∃ it', itRun c e (xs.length - k + t) it0 = .ok (it', (xs.drop k).map some ++ List.replicate t none)) ∧
    (∀ lo hi v, (hi ≤ lo ∨ xs.length < hi) → e.binsearchRange c lo hi v = .ok none) ∧
    (∀ lo hi v, lo < hi → hi ≤ xs.length → ∃ r, e.binsearchRange c lo hi v = .ok r ∧
      match r with
      | some i => lo ≤ i ∧ i < hi ∧ xs[i]? = some v
      | none => ∀ i, lo ≤ i → i < hi → xs[i]? ≠ some v) ∧
    (∀ v, e.binsearch c v = e.binsearchRange c 0 xs.length v) := by
  have S := setting_enableRank c b xs h hu hh
  have h0 := enableRank_s0 c b
  exact ⟨len_eq S, select_ok S, delta_ok S, rank_ok S h0, predecessor_ok S h0, successor_ok S h0, iter_all S,
    binsearchRange_none S, binsearchRange_ok S, binsearch_eq S⟩

end
end EFQ
end Sucds
