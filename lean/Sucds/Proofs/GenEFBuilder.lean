import Sucds.Gen.Fns
import Sucds.Proofs.GenBitVectorRW
import Sucds.Proofs.GenBroadword
import Sucds.Props.C16
/-! # The functions of `EliasFanoBuilder` generated from `src/mii_sequences/elias_fano.rs` agree with the model `EFB`

`Sucds.GenFn.EliasFanoBuilder.{new, push, extend, universe, num_vals}` (generated) versus
`EFB.new : Nat → Nat → Option EFB` (`Err ↦ none`), `EFB.push : EFB → Nat → R (EFB × Bool)` (`Err ↦ (b, false)`,
`Sucds/Model/EliasFano.lean`) and `EFB.extend : EFB → List Nat → R (EFB × Bool)` (`Sucds/Model/EliasFanoFull.lean`),
for every build configuration; then the facts of C16 restated for the generated functions. -/
set_option linter.unusedSimpArgs false
set_option linter.unusedVariables false
namespace Sucds.GenEq
open Sucds Sucds.Spec BV EFB

/-! ### result conversions -/
/-- `Option` (the model's encoding of `Result<EliasFanoBuilder>`) as `RS.Res` -/
def resOpt {α : Type} : Option α → RS.Res α
  | some a => .ok a
  | none => .err
/-- the model's `(new self, accepted?)` as the generated `(new self, Result<()>)` -/
def resB (r : EFB × Bool) : EFB × RS.Res Unit := (r.1, if r.2 then RS.Res.ok () else RS.Res.err)

@[simp] theorem resOpt_some {α : Type} (a : α) : resOpt (some a) = .ok a := rfl
@[simp] theorem resOpt_none {α : Type} : resOpt (none : Option α) = .err := rfl
@[simp] theorem resB_true (s : EFB) : resB (s, true) = (s, RS.Res.ok ()) := rfl
@[simp] theorem resB_false (s : EFB) : resB (s, false) = (s, RS.Res.err) := rfl

/-! ### accessors -/
@[simp] theorem efb_universe_eq (s : EFB) : GenFn.EliasFanoBuilder.universe s = s.univ := rfl
@[simp] theorem efb_num_vals_eq (s : EFB) : GenFn.EliasFanoBuilder.num_vals s = s.numVals := rfl

/-! ### `new` -/
/-- `low_len` as computed by `new` -/
def lowLenOf (u m : Nat) : Nat := (msbN (u / m)).getD 0

/-- `EliasFanoBuilder::new`: the generated function is the model's constructor (`Err ↦ RS.Res.err`), for every
    `u`, `m` (`m = 0` is the rejected case) such that the length of the high-bit vector,
    `m + (u >> low_len) + 2`, rounded up to words does not overflow. -/
theorem efb_new_eq (c : Cfg) (u m : Nat) (hu : u < 2^64)
    (hsz : m ≠ 0 → m + (u >>> lowLenOf u m) + 2 + 64 < 2^64) :
    GenFn.EliasFanoBuilder.new c u m = .ok (resOpt (EFB.new u m)) := by
  unfold GenFn.EliasFanoBuilder.new EFB.new
  by_cases hm : m = 0
  · rw [if_pos hm, if_pos hm]; rfl
  · have hsz' := hsz hm
    unfold lowLenOf at hsz'
    have hd : u / m < 2^64 := Nat.lt_of_le_of_lt (Nat.div_le_self _ _) hu
    have hl : (msbN (u / m)).getD 0 < 64 := msbN_lt _ hd
    have hmsb : GenFn.broadword.msb c (u / m) = .ok (msbN (u / m)) := msb_log2 c (u / m) hd
    rw [if_neg hm, if_neg hm]
    unfold RS.cdiv
    rw [if_neg hm, bind_ok, hmsb, bind_ok]
    simp only []
    generalize (msbN (u / m)).getD 0 = L at hsz' hl
    generalize hq : u >>> L = q at hsz'
    rw [cadd_ok c (by omega : m + 1 < 2^64), bind_ok, cshr_ok c hl, bind_ok, hq,
      cadd_ok c (by omega : m + 1 + q < 2^64), bind_ok,
      cadd_ok c (by omega : m + 1 + q + 1 < 2^64), bind_ok,
      from_bit_eq c false _ (by omega), bind_ok]
    rfl

/-- `u >> low_len < 2 * m`: the high-bit vector has fewer than `3 * m + 2` bits -/
theorem shr_lowLen_lt (u m : Nat) (hm : m ≠ 0) : u >>> lowLenOf u m < 2 * m := by
  unfold lowLenOf msbN
  rw [Nat.shiftRight_eq_div_pow]
  by_cases h0 : u / m = 0
  · rw [if_pos h0]
    have : u < m := by
      rcases Nat.div_eq_zero_iff.mp h0 with h | h
      · omega
      · exact h
    simp only [Option.getD_none, Nat.pow_zero, Nat.div_one]; omega
  · rw [if_neg h0]
    simp only [Option.getD_some]
    have h1 : u / m < 2 ^ (Nat.log2 (u / m) + 1) := Nat.lt_log2_self
    have h2 : u < 2 ^ (Nat.log2 (u / m) + 1) * m := (Nat.div_lt_iff_lt_mul (by omega)).mp h1
    rw [Nat.div_lt_iff_lt_mul (Nat.two_pow_pos _)]
    rw [Nat.pow_succ] at h2
    calc u < 2 ^ Nat.log2 (u / m) * 2 * m := h2
      _ = 2 * m * 2 ^ Nat.log2 (u / m) := by rw [Nat.mul_assoc, Nat.mul_comm]

/-- `new` under the simple size bound `3 * m + 66 < 2^64` -/
theorem efb_new_eq' (c : Cfg) (u m : Nat) (hu : u < 2^64) (hm3 : 3 * m + 66 < 2^64) :
    GenFn.EliasFanoBuilder.new c u m = .ok (resOpt (EFB.new u m)) :=
  efb_new_eq c u m hu (fun hm => by have := shr_lowLen_lt u m hm; omega)

/-! ### `push` -/
/-- a rejected push (any of the three checks, in the order of the code) returns `Err` and the builder
    unchanged — no hypothesis on the builder at all -/
theorem efb_push_rej (c : Cfg) (s : EFB) (val : Nat) (h : val < s.last ∨ s.univ ≤ val ∨ s.numVals ≤ s.pos) :
    GenFn.EliasFanoBuilder.push c s val = .ok (s, RS.Res.err) := by
  unfold GenFn.EliasFanoBuilder.push
  by_cases h1 : val < s.last
  · rw [if_pos h1]
  · rw [if_neg h1]
    by_cases h2 : s.univ ≤ val
    · rw [if_pos h2]
    · rw [if_neg h2, if_pos (by omega : s.numVals ≤ s.pos)]

/-- the high part of the generated `push` (after the low bits were pushed) against the model -/
theorem push_tail (c : Cfg) (h l : BV) (u m p lst ll val : Nat) (hll : ll < 64)
    (hsum : (val >>> ll) + p < 2^64) (hp : p + 1 < 2^64) :
    ((cshr c val ll).bind fun t1 =>
      (cadd c t1 p).bind fun t2 =>
      (GenFn.BitVector.set_bit c h t2 true).bind fun r1 =>
      (RS.unwrapRes r1.2).bind fun _ =>
      (cadd c p 1).bind fun p5 =>
      .ok ((⟨r1.1, l, u, m, p5, lst, ll⟩ : EFB), RS.Res.ok ()))
    = ((h.setBit ((val >>> ll) + p) true).bind fun r =>
        match r with
        | (_, false) => .error .unwrapNone
        | (h', true) => .ok ((⟨h', l, u, m, p + 1, lst, ll⟩ : EFB), true)).map resB := by
  rw [cshr_ok c hll, bind_ok, cadd_ok c hsum, bind_ok, set_bit_eq]
  cases h.setBit ((val >>> ll) + p) true with
  | error e => rfl
  | ok r =>
    obtain ⟨h', b⟩ := r
    cases b
    · rfl
    · show (cadd c p 1).bind _ = _
      rw [cadd_ok c hp, bind_ok]; rfl

/-- `EliasFanoBuilder::push`: generated = model (`(s', accepted?)` mapped to `(s', Ok(()) / Err)`, panics
    included). Hypotheses: `low_len < 64`, the low-bit vector is well formed and has room for `low_len` more
    bits, and `num_vals + (universe >> low_len)` (the positions of the high-bit vector) fits a `usize`. -/
theorem efb_push_eq_raw (c : Cfg) (s : EFB) (val : Nat) (hll : s.lowLen < 64) (hli : s.low.Inv)
    (hlow : s.low.len + s.lowLen < 2^64) (hhi : s.numVals + (s.univ >>> s.lowLen) < 2^64) :
    GenFn.EliasFanoBuilder.push c s val = (s.push val).map resB := by
  by_cases hr : val < s.last ∨ s.univ ≤ val ∨ s.numVals ≤ s.pos
  · rw [efb_push_rej c s val hr, push_rej s val hr]; rfl
  · have g1 : ¬ val < s.last := by omega
    have g2 : ¬ s.univ ≤ val := by omega
    have g3 : ¬ s.numVals ≤ s.pos := by omega
    have hle : val >>> s.lowLen ≤ s.univ >>> s.lowLen := by
      rw [Nat.shiftRight_eq_div_pow, Nat.shiftRight_eq_div_pow]
      exact Nat.div_le_div_right (by omega)
    have hsum : (val >>> s.lowLen) + s.pos < 2^64 := by
      generalize s.univ >>> s.lowLen = q at hhi hle
      generalize val >>> s.lowLen = q' at hle
      omega
    have hp : s.pos + 1 < 2^64 := by
      generalize s.univ >>> s.lowLen = q at hhi
      omega
    unfold GenFn.EliasFanoBuilder.push EFB.push
    rw [if_neg g1, if_neg g2, if_neg g3, if_neg g1, if_neg g2, if_neg g3]
    simp only []
    rw [cshl_ok c hll, bind_ok, Nat.mod_eq_of_lt (one_shl_lt _ hll), csub_ok c (one_shl_pos _), bind_ok]
    unfold pushLow
    by_cases h0 : s.lowLen ≠ 0
    · rw [if_pos h0, if_pos h0, push_bits_eq c s.low hli _ _ hlow, bind_ok]
      simp only []
      rcases s.low.pushBits (val &&& (1 <<< s.lowLen - 1)) s.lowLen with ⟨l, ok⟩
      cases ok
      · rfl
      · exact push_tail c s.high l s.univ s.numVals s.pos val s.lowLen val hll hsum hp
    · rw [if_neg h0, if_neg h0, bind_ok]
      exact push_tail c s.high s.low s.univ s.numVals s.pos val s.lowLen val hll hsum hp

/-! ### the builder invariant needed by the generated code: nothing overflows -/
/-- What the equivalence needs of a builder (a consequence of the model's `Holds b xs` plus two size bounds,
    `fits_of_holds`): `low_len < 64`, the low-bit vector is well formed and holds `pos * low_len` bits,
    `pos ≤ num_vals`, and both bit-vector lengths fit a `usize`. -/
structure Fits (s : EFB) : Prop where
  llt : s.lowLen < 64
  linv : s.low.Inv
  llen : s.low.len = s.pos * s.lowLen
  cap : s.pos ≤ s.numVals
  lowFits : s.numVals * s.lowLen < 2^64
  highFits : s.numVals + (s.univ >>> s.lowLen) < 2^64

theorem fits_of_holds (s : EFB) (xs : List Nat) (h : Holds s xs) (hlo : s.numVals * s.lowLen < 2^64)
    (hhi : s.numVals + (s.univ >>> s.lowLen) < 2^64) : Fits s :=
  { llt := h.llt, linv := h.linv, llen := by rw [h.llen, h.pos], cap := h.cap, lowFits := hlo, highFits := hhi }

/-- `EliasFanoBuilder::push`, generated = model, for a builder satisfying `Fits` -/
theorem efb_push_eq (c : Cfg) (s : EFB) (hf : Fits s) (val : Nat) :
    GenFn.EliasFanoBuilder.push c s val = (s.push val).map resB := by
  by_cases hr : val < s.last ∨ s.univ ≤ val ∨ s.numVals ≤ s.pos
  · rw [efb_push_rej c s val hr, push_rej s val hr]; rfl
  · refine efb_push_eq_raw c s val hf.llt hf.linv ?_ hf.highFits
    have h1 : (s.pos + 1) * s.lowLen ≤ s.numVals * s.lowLen := Nat.mul_le_mul_right _ (by omega)
    rw [Nat.add_mul, Nat.one_mul] at h1
    have := hf.lowFits
    rw [hf.llen]; omega

/-- `Fits` is preserved by the model's `push` (accepted or not); universe and capacity never change -/
theorem fits_push (s : EFB) (hf : Fits s) (v : Nat) (s' : EFB) (b : Bool) (hp : s.push v = .ok (s', b)) :
    Fits s' ∧ s'.univ = s.univ ∧ s'.numVals = s.numVals := by
  by_cases hr : v < s.last ∨ s.univ ≤ v ∨ s.numVals ≤ s.pos
  · rw [push_rej s v hr] at hp
    injection hp with hp; injection hp with h1 h2
    subst h1; exact ⟨hf, rfl, rfl⟩
  · have g1 : ¬ v < s.last := by omega
    have g2 : ¬ s.univ ≤ v := by omega
    have g3 : ¬ s.numVals ≤ s.pos := by omega
    have hlow : ∃ l, pushLow s v = some l ∧ l.Inv ∧ l.len = s.low.len + s.lowLen := by
      unfold pushLow
      by_cases h0 : s.lowLen ≠ 0
      · rw [if_pos h0]
        obtain ⟨p1, p2, p3, _⟩ := pushBits_ok s.low hf.linv (v &&& ((1 <<< s.lowLen) - 1)) s.lowLen
          (by have := hf.llt; omega)
        cases hpb : s.low.pushBits (v &&& ((1 <<< s.lowLen) - 1)) s.lowLen with
        | mk l ok =>
          rw [hpb] at p1 p2 p3
          have p1' : ok = true := p1
          subst p1'
          exact ⟨l, rfl, p2, p3⟩
      · rw [if_neg h0]
        exact ⟨s.low, rfl, hf.linv, by omega⟩
    obtain ⟨l, hle, hlinv, hllen⟩ := hlow
    unfold EFB.push at hp
    rw [if_neg g1, if_neg g2, if_neg g3, hle] at hp
    simp only [] at hp
    cases hset : s.high.setBit ((v >>> s.lowLen) + s.pos) true with
    | error e => rw [hset] at hp; cases hp
    | ok r =>
      obtain ⟨h', ok⟩ := r
      rw [hset, bind_ok] at hp
      cases ok
      · cases hp
      · simp only [] at hp
        injection hp with hp; injection hp with h1 h2
        subst h1
        refine ⟨?_, rfl, rfl⟩
        exact { llt := hf.llt, linv := hlinv
                llen := by
                  show l.len = (s.pos + 1) * s.lowLen
                  rw [hllen, hf.llen, Nat.add_mul, Nat.one_mul]
                cap := by show s.pos + 1 ≤ s.numVals; omega
                lowFits := hf.lowFits, highFits := hf.highFits }

/-- the builder returned by the model's `new` satisfies `Fits`, if the high-bit positions fit a `usize` -/
theorem fits_new (u m : Nat) (b : EFB) (hu : u < 2^64) (hn : EFB.new u m = some b)
    (hsz : m + (u >>> lowLenOf u m) < 2^64) : Fits b := by
  by_cases hm : m = 0
  · subst hm; rw [new_zero] at hn; cases hn
  · obtain ⟨b0, hn0, hh, hu0, hm0⟩ := new_holds u m hm hu
    rw [hn0] at hn; injection hn with hn; subst hn
    have hll : b0.lowLen = lowLenOf u m := by
      unfold EFB.new at hn0
      rw [if_neg hm] at hn0
      injection hn0 with hn0; rw [← hn0]; rfl
    refine fits_of_holds b0 [] hh ?_ ?_
    · rw [hll, hm0]
      have h1 : lowLenOf u m ≤ u / m := by
        unfold lowLenOf msbN
        by_cases h0 : u / m = 0
        · rw [if_pos h0]; simp
        · rw [if_neg h0]
          simp only [Option.getD_some]
          exact Nat.le_of_lt ((Nat.log2_lt h0).mpr Nat.lt_two_pow_self)
      have h2 : m * lowLenOf u m ≤ m * (u / m) := Nat.mul_le_mul_left _ h1
      have h3 : m * (u / m) ≤ u := Nat.mul_div_le u m
      omega
    · rw [hll, hm0, hu0]; exact hsz

/-! ### `extend` -/
/-- the model's `(builder, all accepted?)` as the exit of the generated loop -/
def exitOf (r : EFB × Bool) : RS.Exit EFB (EFB × RS.Res Unit) :=
  if r.2 then .done r.1 else .ret (r.1, RS.Res.err)

/-- the loop of `extend`: push until the first rejected item -/
theorem efb_extend_loop (c : Cfg) (body : Nat → EFB → R (RS.Step EFB (EFB × RS.Res Unit)))
    (hbody : ∀ x s, body x s = (GenFn.EliasFanoBuilder.push c s x).bind fun r =>
      match r.2 with
      | .err => .ok (.ret (r.1, RS.Res.err))
      | .ok _ => .ok (.next r.1))
    (xs : List Nat) : ∀ s, Fits s → RS.forListB body xs s = (EFB.extend s xs).map exitOf := by
  induction xs with
  | nil => intro s _; rfl
  | cons x xs ih =>
    intro s hf
    show (body x s).bind _ = Except.map exitOf ((s.push x).bind _)
    rw [hbody, efb_push_eq c s hf x]
    cases hp : s.push x with
    | error e => rfl
    | ok r =>
      obtain ⟨s', b⟩ := r
      cases b
      · rfl
      · exact ih s' (fits_push s hf x s' true hp).1

theorem extend_aux (c : Cfg) (body : Nat → EFB → R (RS.Step EFB (EFB × RS.Res Unit)))
    (hbody : ∀ x s, body x s = (GenFn.EliasFanoBuilder.push c s x).bind fun r =>
      match r.2 with
      | .err => .ok (.ret (r.1, RS.Res.err))
      | .ok _ => .ok (.next r.1))
    (post : RS.Exit EFB (EFB × RS.Res Unit) → R (EFB × RS.Res Unit))
    (hpost : ∀ ex, post ex = match ex with
      | .ret rv => .ok rv
      | .done st => .ok (st, RS.Res.ok ()))
    (xs : List Nat) (s : EFB) (hf : Fits s) :
    (RS.forListB body xs s).bind post = (EFB.extend s xs).map resB := by
  rw [efb_extend_loop c body hbody xs s hf]
  cases EFB.extend s xs with
  | error e => rfl
  | ok r =>
    obtain ⟨s', b⟩ := r
    cases b
    · show post (exitOf (s', false)) = _
      rw [hpost]; rfl
    · show post (exitOf (s', true)) = _
      rw [hpost]; rfl

/-- `EliasFanoBuilder::extend`: generated = model (`EFB.extend`, the push loop stopped at the first rejected
    item, earlier items kept), panics included -/
theorem efb_extend_eq (c : Cfg) (s : EFB) (hf : Fits s) (xs : List Nat) :
    GenFn.EliasFanoBuilder.extend c s xs = (EFB.extend s xs).map resB :=
  extend_aux c _ (fun _ _ => rfl) _ (fun _ => rfl) xs s hf

/-! ### the facts of C16, for the generated functions -/
/-- `EliasFanoBuilder::new(u, 0)` is rejected (every `u`, no hypothesis) -/
theorem gen_new_zero (c : Cfg) (u : Nat) : GenFn.EliasFanoBuilder.new c u 0 = .ok RS.Res.err := by
  unfold GenFn.EliasFanoBuilder.new; rw [if_pos rfl]

/-- `new(u, m)` with `m ≥ 1` succeeds and returns an empty builder with universe `u` and capacity `m` -/
theorem gen_new_holds (c : Cfg) (u m : Nat) (hm : m ≠ 0) (hu : u < 2^64)
    (hsz : m + (u >>> lowLenOf u m) + 2 + 64 < 2^64) :
    ∃ b, GenFn.EliasFanoBuilder.new c u m = .ok (RS.Res.ok b) ∧ Holds b [] ∧ Fits b ∧
      GenFn.EliasFanoBuilder.universe b = u ∧ GenFn.EliasFanoBuilder.num_vals b = m := by
  obtain ⟨b, hn, hh, hu0, hm0⟩ := new_holds u m hm hu
  refine ⟨b, ?_, hh, fits_new u m b hu hn (by omega), hu0, hm0⟩
  rw [efb_new_eq c u m hu (fun _ => hsz), hn]; rfl

/-- a rejected push returns `Err` and the builder unchanged (C16 `rejected_push_no_effect`) -/
theorem gen_rejected_push_no_effect (c : Cfg) (s : EFB) (v : Nat)
    (h : v < s.last ∨ s.univ ≤ v ∨ s.numVals ≤ s.pos) :
    GenFn.EliasFanoBuilder.push c s v = .ok (s, RS.Res.err) := efb_push_rej c s v h

/-- an accepted push returns `Ok(())` and appends the value (`push_holds`) -/
theorem gen_push_holds (c : Cfg) (s : EFB) (xs : List Nat) (h : Holds s xs) (hf : Fits s) (v : Nat)
    (h1 : s.last ≤ v) (h2 : v < s.univ) (h3 : s.pos < s.numVals) :
    ∃ s', GenFn.EliasFanoBuilder.push c s v = .ok (s', RS.Res.ok ()) ∧ Holds s' (xs ++ [v]) ∧ Fits s' ∧
      s'.univ = s.univ ∧ s'.numVals = s.numVals ∧ s'.lowLen = s.lowLen := by
  obtain ⟨s', hp, hh, hu, hm, hl⟩ := push_holds s xs h v h1 h2 h3
  refine ⟨s', ?_, hh, (fits_push s hf v s' true hp).1, hu, hm, hl⟩
  rw [efb_push_eq c s hf v, hp]; rfl

/-- the push answers: the model's `Bool` as the generated `Result<()>` -/
def resU (b : Bool) : RS.Res Unit := if b then RS.Res.ok () else RS.Res.err

/-- run a push history through the *generated* `push`, collecting the results (the generated counterpart
    of `EFB.run`) -/
def genRun (c : Cfg) : EFB → List Nat → R (EFB × List (RS.Res Unit))
  | b, [] => .ok (b, [])
  | b, v :: vs => (GenFn.EliasFanoBuilder.push c b v).bind fun r =>
      (genRun c r.1 vs).bind fun rr => .ok (rr.1, r.2 :: rr.2)

theorem genRun_eq (c : Cfg) (hist : List Nat) : ∀ s, Fits s →
    genRun c s hist = (EFB.run s hist).map (fun r => (r.1, r.2.map resU)) ∧
    (∀ s' vs, EFB.run s hist = .ok (s', vs) → Fits s') := by
  induction hist with
  | nil =>
    intro s hf
    refine ⟨rfl, ?_⟩
    intro s' vs h
    injection h with h; injection h with h1 h2
    subst h1; exact hf
  | cons v vs ih =>
    intro s hf
    show (GenFn.EliasFanoBuilder.push c s v).bind _ = Except.map _ ((s.push v).bind _) ∧
      ∀ s' ws, (s.push v).bind _ = .ok (s', ws) → Fits s'
    rw [efb_push_eq c s hf v]
    cases hp : s.push v with
    | error e => exact ⟨rfl, fun s' ws h => by cases h⟩
    | ok r =>
      obtain ⟨s1, b⟩ := r
      obtain ⟨ih1, ih2⟩ := ih s1 (fits_push s hf v s1 b hp).1
      show (genRun c s1 vs).bind _ = Except.map _ ((EFB.run s1 vs).bind _) ∧
        ∀ s' ws, (EFB.run s1 vs).bind _ = .ok (s', ws) → Fits s'
      rw [ih1]
      cases hr : EFB.run s1 vs with
      | error e => exact ⟨rfl, fun s' ws h => by cases h⟩
      | ok rr =>
        refine ⟨rfl, ?_⟩
        intro s' ws h
        injection h with h; injection h with h1 h2
        subst h1
        exact ih2 rr.1 rr.2 hr

/-- **C16 over whole histories, for the generated `push`**: whatever is pushed, in whatever order, the
    generated builder never panics, reports each verdict of the greedy acceptance, and ends holding exactly the
    accepted values -/
theorem gen_run_spec (c : Cfg) (hist : List Nat) (s : EFB) (xs : List Nat) (h : Holds s xs) (hf : Fits s) :
    ∃ s', genRun c s hist = .ok (s', (verdicts s.univ s.numVals xs hist).map resU) ∧
      Holds s' (accepted s.univ s.numVals xs hist) ∧ Fits s' ∧ s'.univ = s.univ ∧ s'.numVals = s.numVals := by
  obtain ⟨s', hr, hh, hu, hm⟩ := run_spec hist s xs h
  obtain ⟨e1, e2⟩ := genRun_eq c hist s hf
  refine ⟨s', ?_, hh, e2 s' _ hr, hu, hm⟩
  rw [e1, hr]; rfl

/-- `new` followed by any push history (the first half of `C16.Statement`, generated functions) -/
theorem gen_history (c : Cfg) (u m : Nat) (hist : List Nat) (hm : m ≠ 0) (hu : u < 2^64)
    (hsz : m + (u >>> lowLenOf u m) + 2 + 64 < 2^64) :
    ∃ b0 b', GenFn.EliasFanoBuilder.new c u m = .ok (RS.Res.ok b0) ∧
      genRun c b0 hist = .ok (b', (verdicts u m [] hist).map resU) ∧
      Holds b' (accepted u m [] hist) ∧
      GenFn.EliasFanoBuilder.universe b' = u ∧ GenFn.EliasFanoBuilder.num_vals b' = m := by
  obtain ⟨b0, hn, hh, hf, hu0, hm0⟩ := gen_new_holds c u m hm hu hsz
  obtain ⟨b', hr, hh', _, hu', hm'⟩ := gen_run_spec c hist b0 [] hh hf
  have hu0' : b0.univ = u := hu0
  have hm0' : b0.numVals = m := hm0
  rw [hu0', hm0'] at hr hh'
  exact ⟨b0, b', hn, hr, hh', by show b'.univ = u; rw [hu', hu0'], by show b'.numVals = m; rw [hm', hm0']⟩

/-- `extend` = the push loop stopped at the first rejected item, earlier items kept (C16 `extend_spec`) -/
theorem gen_extend_spec (c : Cfg) (vs : List Nat) (s : EFB) (xs : List Nat) (h : Holds s xs) (hf : Fits s) :
    ∃ s' n, n ≤ vs.length ∧
      GenFn.EliasFanoBuilder.extend c s vs = .ok (s', resU (decide (n = vs.length))) ∧
      Holds s' (xs ++ vs.take n) ∧ s'.univ = s.univ ∧ s'.numVals = s.numVals ∧
      (∀ v, vs[n]? = some v → v < s'.last ∨ s'.univ ≤ v ∨ s'.numVals ≤ s'.pos) := by
  obtain ⟨s', n, hn, he, hh, hu, hm, hrej⟩ := C16.extend_spec vs s xs h
  refine ⟨s', n, hn, ?_, hh, hu, hm, hrej⟩
  rw [efb_extend_eq c s hf vs, he]; rfl

end Sucds.GenEq
