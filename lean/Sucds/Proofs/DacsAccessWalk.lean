import Sucds.Model.Dacs
import Sucds.Proofs.DacsAccessLevels
import Sucds.Proofs.Rank9Rank1
import Sucds.Proofs.CompactVector
/-! DACs (C10, C11): the representation invariant of a finished `DacsByte` / `DacsOpt` and the proof that
    `access` is lossless for every structure that satisfies it. -/
set_option linter.unusedSimpArgs false
set_option linter.unusedVariables false
namespace Sucds
open Spec Dac

namespace Dac
theorem bind_ok {ε α β : Type} (v : α) (f : α → Except ε β) : (Except.ok v : Except ε α).bind f = f v := rfl
theorem unwrapO_some {α} (v : α) : unwrapO (.ok (some v) : R (Option α)) = .ok v := rfl

theorem bitAt_of_toList (bv : BV) (l : List Bool) (hl : bv.toList = l) (i : Nat) (hi : i < l.length) :
    bv.bitAt i = l[i] := by
  have h1 := BV.toList_getElem? bv i
  have hlen : bv.len = l.length := by rw [← hl, BV.toList_length]
  rw [hl, List.getElem?_eq_getElem hi, hlen, if_pos hi] at h1
  exact (Option.some.inj h1).symm

/-- reading a flag -/
theorem flag_access (c : Cfg) (bv : BV) (h : bv.Inv) (l : List Bool) (hl : bv.toList = l) (p : Nat)
    (hp : p < l.length) : unwrapO ((R9.new c bv).access p) = .ok l[p] := by
  have hlen : bv.len = l.length := by rw [← hl, BV.toList_length]
  show unwrapO (bv.getBit p) = _
  rw [BV.getBit_ok bv h p, hlen, if_pos hp, unwrapO_some, bitAt_of_toList bv l hl p hp]

/-- the rank of a flag position is the number of set flags before it -/
theorem flag_rank (c : Cfg) (bv : BV) (h : bv.Inv) (l : List Bool) (hl : bv.toList = l) (p : Nat)
    (hp : p ≤ l.length) : unwrapO ((R9.new c bv).rank1 c p) = .ok ((l.take p).countP id) := by
  have hlen : bv.len = l.length := by rw [← hl, BV.toList_length]
  show unwrapO ((R9Index.buildRank c bv).rank1 c bv p) = _
  rw [R9Index.rank1_ok c bv h p, hlen, if_pos hp, unwrapO_some,
    cnt_eq_countP_take bv.bitAt l (fun i hi => bitAt_of_toList bv l hl i hi) p hp]

theorem flag_rank_more (c : Cfg) (bv : BV) (h : bv.Inv) (w : Nat) (l : List Nat)
    (hl : bv.toList = l.map (more w)) (p : Nat) (hp : p ≤ l.length) :
    unwrapO ((R9.new c bv).rank1 c p) = .ok ((l.take p).countP (more w)) := by
  rw [flag_rank c bv h _ hl p (by simpa using hp), ← List.map_take, List.countP_map]
  rfl

theorem flag_access_more (c : Cfg) (bv : BV) (h : bv.Inv) (w : Nat) (l : List Nat)
    (hl : bv.toList = l.map (more w)) (p : Nat) (hp : p < l.length) :
    unwrapO ((R9.new c bv).access p) = .ok (more w l[p]) := by
  rw [flag_access c bv h _ hl p (by simpa using hp)]
  simp
end Dac

/-! ## `DacsByte` -/
namespace DacB

/-- representation invariant of a finished `DacsByte` with level widths `ws` storing `vs`: level `j` holds the
    chunks of `lev ws vs j`, flag vector `j` holds `more w_j` of each element of `lev ws vs j` -/
structure Rep (c : Cfg) (ws vs : List Nat) (d : DacB) : Prop where
  dsize : d.data.size = ws.length
  data : ∀ j, j < ws.length → d.data[j]? = some ((lev ws vs j).map (· % 2^(wd ws j))).toArray
  flags : ∀ j, j + 1 < ws.length →
    ∃ bv, d.flags[j]? = some (R9.new c bv) ∧ bv.Inv ∧ bv.toList = (lev ws vs j).map (more (wd ws j))

theorem walk_ok (c : Cfg) (ws vs : List Nat) (d : DacB) (hr : Rep c ws vs d)
    (hw : ∀ j, j < ws.length → wd ws j = 8) (ho : ∀ j, j < ws.length → off ws j = j * 8)
    (hsum : ws.sum ≤ 64) (hv : ∀ v ∈ vs, v < 2^ws.sum) :
    ∀ (fuel j pos x : Nat), j < ws.length → ws.length - j ≤ fuel → (hp : pos < (lev ws vs j).length) →
      walk c d j pos x fuel = .ok (x ||| (lev ws vs j)[pos] <<< (j * 8)) := by
  intro fuel
  induction fuel with
  | zero => intro j pos x hj hf; omega
  | succ fuel ih =>
    intro j pos x hj hf hp
    have hG : Gen.DACB_LEVEL_WIDTH = 8 := rfl
    have hvb := lev_bound ws vs hv j (by omega) _ (List.getElem_mem hp)
    have hod := off_add_drop ws j
    have hds := drop_sum_succ ws j hj
    rw [ho j hj] at hod
    have hwj := hw j hj
    generalize hvdef : (lev ws vs j)[pos] = v at hvb
    have hchunk : ((lev ws vs j).map (· % 2^(wd ws j))).toArray[pos]? = some (v % 2^8) := by
      simp [hp, hvdef, hwj]
    have hshl : (v % 2^8) <<< (j * 8) < 2^64 :=
      shift_lt _ 8 _ (Nat.mod_lt _ (by decide)) (by omega)
    unfold walk
    rw [hr.data j hj]
    simp only []
    rw [hchunk]
    simp only [hG, Nat.mod_eq_of_lt hshl]
    by_cases hlast : j = d.numLevels - 1
    · rw [if_pos hlast]
      have hl : j + 1 = ws.length := by
        have := hr.dsize; unfold numLevels at hlast; omega
      have := drop_sum_last ws j hl
      rw [this, hwj] at hvb
      rw [Nat.mod_eq_of_lt hvb]
    · rw [if_neg hlast]
      have hl : j + 1 < ws.length := by
        have := hr.dsize; unfold numLevels at hlast; omega
      obtain ⟨bv, hfl, hinv, hbits⟩ := hr.flags j hl
      rw [hfl]
      simp only []
      rw [flag_access_more c bv hinv _ _ hbits pos hp, bind_ok, hvdef, hwj]
      by_cases hm : more 8 v = true
      · have hm' : more (wd ws j) (lev ws vs j)[pos] = true := by rw [hwj, hvdef]; exact hm
        obtain ⟨hlt, hget⟩ := lev_succ_get ws vs j pos hp hm'
        simp only [hm, Bool.not_true, Bool.false_eq_true, if_false]
        rw [flag_rank_more c bv hinv _ _ hbits pos (by omega), bind_ok]
        rw [ih (j+1) _ _ hl (by omega) hlt, hget, hvdef, hwj, Nat.or_assoc]
        rw [show (j + 1) * 8 = j * 8 + 8 by omega, combine]
      · have hm0 : more 8 v = false := by simpa using hm
        simp only [hm0, Bool.not_false, if_true]
        rw [chunk_eq_of_not_more v 8 hm0]

theorem len_of_rep (c : Cfg) (ws vs : List Nat) (d : DacB) (hr : Rep c ws vs d) (hne : ws ≠ []) :
    d.len = .ok vs.length := by
  have h0 : 0 < ws.length := List.length_pos_iff.mpr hne
  unfold len
  rw [hr.data 0 h0]
  simp [lev]

/-- **access** of any structure satisfying the invariant (eight-bit levels) is lossless -/
theorem access_of_rep (c : Cfg) (ws vs : List Nat) (d : DacB) (hr : Rep c ws vs d) (hne : ws ≠ [])
    (hw : ∀ j, j < ws.length → wd ws j = 8) (ho : ∀ j, j < ws.length → off ws j = j * 8)
    (hsum : ws.sum ≤ 64) (hv : ∀ v ∈ vs, v < 2^ws.sum) (i : Nat) :
    d.access c i = .ok vs[i]? := by
  have h0 : 0 < ws.length := List.length_pos_iff.mpr hne
  unfold access
  rw [len_of_rep c ws vs d hr hne, bind_ok]
  by_cases hi : vs.length ≤ i
  · rw [if_pos hi, List.getElem?_eq_none hi]
  · rw [if_neg hi]
    have hi' : i < (lev ws vs 0).length := by simp only [lev]; omega
    have hnl : d.numLevels = ws.length := hr.dsize
    rw [walk_ok c ws vs d hr hw ho hsum hv d.numLevels 0 i 0 h0 (by omega) hi', bind_ok]
    have : i < vs.length := by omega
    simp [lev, this]
end DacB

/-! ## `DacsOpt` -/
namespace DacO

/-- representation invariant of a finished `DacsOpt` with level widths `ws` storing `vs` -/
structure Rep (c : Cfg) (ws vs : List Nat) (d : DacO) : Prop where
  dsize : d.data.size = ws.length
  data : ∀ j, j < ws.length →
    ∃ cv, d.data[j]? = some cv ∧ cv.width = wd ws j ∧ CV.Rep cv ((lev ws vs j).map (· % 2^(wd ws j)))
  flags : ∀ j, j + 1 < ws.length →
    ∃ bv, d.flags[j]? = some (R9.new c bv) ∧ bv.Inv ∧ bv.toList = (lev ws vs j).map (more (wd ws j))

theorem walk_ok (c : Cfg) (ws vs : List Nat) (d : DacO) (hr : Rep c ws vs d)
    (hw : ∀ j, j < ws.length → 1 ≤ wd ws j)
    (hsum : ws.sum ≤ 64) (hv : ∀ v ∈ vs, v < 2^ws.sum) :
    ∀ (fuel j pos x : Nat), j < ws.length → ws.length - j ≤ fuel → (hp : pos < (lev ws vs j).length) →
      walk c d j pos x (off ws j) fuel = .ok (x ||| (lev ws vs j)[pos] <<< off ws j) := by
  intro fuel
  induction fuel with
  | zero => intro j pos x hj hf; omega
  | succ fuel ih =>
    intro j pos x hj hf hp
    have hvb := lev_bound ws vs hv j (by omega) _ (List.getElem_mem hp)
    have hod := off_add_drop ws j
    have hds := drop_sum_succ ws j hj
    have hwj := hw j hj
    have hos := off_succ ws j hj
    generalize hvdef : (lev ws vs j)[pos] = v at hvb
    obtain ⟨cv, hcv, hcw, hcr⟩ := hr.data j hj
    have hchunk : ((lev ws vs j).map (· % 2^(wd ws j)))[pos]? = some (v % 2^(wd ws j)) := by
      simp [hp, hvdef]
    have hshl : (v % 2^(wd ws j)) <<< off ws j < 2^64 :=
      shift_lt _ (wd ws j) _ (Nat.mod_lt _ (Nat.two_pow_pos _)) (by omega)
    unfold walk
    rw [hcv]
    simp only []
    rw [CV.getInt_ok cv _ hcr pos, hchunk, unwrapO_some, bind_ok, cshl_ok c (by omega), bind_ok,
      Nat.mod_eq_of_lt hshl, hcw]
    by_cases hlast : j = d.numLevels - 1
    · rw [if_pos hlast]
      have hl : j + 1 = ws.length := by
        have := hr.dsize; unfold numLevels at hlast; omega
      have := drop_sum_last ws j hl
      rw [this] at hvb
      rw [Nat.mod_eq_of_lt hvb]
    · rw [if_neg hlast]
      have hl : j + 1 < ws.length := by
        have := hr.dsize; unfold numLevels at hlast; omega
      obtain ⟨bv, hfl, hinv, hbits⟩ := hr.flags j hl
      rw [hfl]
      simp only []
      rw [flag_access_more c bv hinv _ _ hbits pos hp, bind_ok, hvdef]
      by_cases hm : more (wd ws j) v = true
      · have hm' : more (wd ws j) (lev ws vs j)[pos] = true := by rw [hvdef]; exact hm
        obtain ⟨hlt, hget⟩ := lev_succ_get ws vs j pos hp hm'
        simp only [hm, Bool.not_true, Bool.false_eq_true, if_false]
        rw [flag_rank_more c bv hinv _ _ hbits pos (by omega), bind_ok, ← hos]
        rw [ih (j+1) _ _ hl (by omega) hlt, hget, hvdef, Nat.or_assoc, hos, combine]
      · have hm0 : more (wd ws j) v = false := by simpa using hm
        simp only [hm0, Bool.not_false, if_true]
        rw [chunk_eq_of_not_more v _ hm0]

theorem len_of_rep (c : Cfg) (ws vs : List Nat) (d : DacO) (hr : Rep c ws vs d) (hne : ws ≠ []) :
    d.len = .ok vs.length := by
  have h0 : 0 < ws.length := List.length_pos_iff.mpr hne
  unfold len
  obtain ⟨cv, hcv, _, hcr⟩ := hr.data 0 h0
  rw [hcv]
  simp [hcr.len, lev]

/-- **access** of any structure satisfying the invariant is lossless and panic-free -/
theorem access_of_rep (c : Cfg) (ws vs : List Nat) (d : DacO) (hr : Rep c ws vs d) (hne : ws ≠ [])
    (hw : ∀ j, j < ws.length → 1 ≤ wd ws j)
    (hsum : ws.sum ≤ 64) (hv : ∀ v ∈ vs, v < 2^ws.sum) (i : Nat) :
    d.access c i = .ok vs[i]? := by
  have h0 : 0 < ws.length := List.length_pos_iff.mpr hne
  unfold access
  rw [len_of_rep c ws vs d hr hne, bind_ok]
  by_cases hi : vs.length ≤ i
  · rw [if_pos hi, List.getElem?_eq_none hi]
  · rw [if_neg hi]
    have hi' : i < (lev ws vs 0).length := by simp only [lev]; omega
    have hnl : d.numLevels = ws.length := hr.dsize
    have := walk_ok c ws vs d hr hw hsum hv d.numLevels 0 i 0 h0 (by omega) hi'
    rw [off_zero] at this
    rw [this, bind_ok]
    have : i < vs.length := by omega
    simp [lev, this]
end DacO
end Sucds
