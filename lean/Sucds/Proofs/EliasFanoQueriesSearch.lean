import Sucds.Proofs.EliasFanoQueriesIter
/-! Elias-Fano queries, part 4: `binsearch_range` / `binsearch` (after repair F7). -/
set_option linter.unusedSimpArgs false
set_option linter.unusedVariables false
namespace Sucds
namespace EFQ
open BV Spec EFB

section
variable {c : Cfg} {e : EF} {b : EFB} {xs : List Nat}

/-- the binary phase: either a hit, or a sub-window that still contains every hit of the window
    (whatever the fuel: running out of fuel only leaves a longer linear scan) -/
theorem binPhase_ok (S : Setting c e b xs) (v : Nat) : ∀ fuel lo hi, lo ≤ hi → hi ≤ xs.length →
    ∃ r, EF.binPhase c e v lo hi fuel = .ok r ∧
      match r with
      | .inl i => lo ≤ i ∧ i < hi ∧ X xs i = v
      | .inr (l2, h2) => lo ≤ l2 ∧ l2 ≤ h2 ∧ h2 ≤ hi ∧
          ∀ i, lo ≤ i → i < hi → X xs i = v → l2 ≤ i ∧ i < h2 := by
  have hs := S.holds.sorted
  intro fuel
  induction fuel with
  | zero =>
    intro lo hi h1 h2
    exact ⟨.inr (lo, hi), rfl, Nat.le_refl _, h1, Nat.le_refl _, fun i a b _ => ⟨a, b⟩⟩
  | succ fuel ih =>
    intro lo hi h1 h2
    rw [EF.binPhase]
    by_cases hT : hi - lo > Gen.EF_LINEAR_SCAN_THRESHOLD
    · simp only [hT, if_true]
      have hlt : lo < hi := by omega
      have hmi : (lo + hi) / 2 < xs.length := by omega
      rw [select_ok S, getElem?_X xs _ hmi, unwrapO_some, bind_ok]
      by_cases he : v = X xs ((lo + hi) / 2)
      · simp only [he, if_true]
        exact ⟨_, rfl, by omega, by omega, rfl⟩
      · simp only [he, if_false]
        by_cases hl : v < X xs ((lo + hi) / 2)
        · simp only [hl, if_true]
          obtain ⟨r, hr, hm⟩ := ih lo ((lo + hi) / 2) (by omega) (by omega)
          refine ⟨r, hr, ?_⟩
          cases r with
          | inl i => simp only at hm ⊢; exact ⟨hm.1, by omega, hm.2.2⟩
          | inr w =>
            obtain ⟨l2, h2'⟩ := w
            simp only at hm ⊢
            refine ⟨hm.1, hm.2.1, by omega, ?_⟩
            intro i hi1 hi2 hiv
            apply hm.2.2.2 i hi1 _ hiv
            apply Nat.lt_of_not_le
            intro hge
            have := X_le xs hs _ i hge (by omega)
            omega
        · simp only [hl, if_false]
          obtain ⟨r, hr, hm⟩ := ih ((lo + hi) / 2 + 1) hi (by omega) h2
          refine ⟨r, hr, ?_⟩
          cases r with
          | inl i => simp only at hm ⊢; exact ⟨by omega, hm.2.1, hm.2.2⟩
          | inr w =>
            obtain ⟨l2, h2'⟩ := w
            simp only at hm ⊢
            refine ⟨by omega, hm.2.1, hm.2.2.1, ?_⟩
            intro i hi1 hi2 hiv
            apply hm.2.2.2 i _ hi2 hiv
            apply Classical.byContradiction
            intro hge
            have := X_le xs hs i ((lo + hi) / 2) (by omega) hmi
            omega
    · simp only [hT, if_false]
      exact ⟨.inr (lo, hi), rfl, Nat.le_refl _, h1, Nat.le_refl _, fun i a b _ => ⟨a, b⟩⟩

/-- the linear phase: the first hit among the next `cnt` values of the iterator, if any -/
theorem scanPhase_ok (S : Setting c e b xs) (v k : Nat) : ∀ cnt m it,
    Good b xs (ust c b.high (UIter.new b.high (hp b xs k))) k m it → k + m + cnt ≤ xs.length →
    ∃ r, EF.scanPhase c e v (k + m) it cnt = .ok r ∧
      match r with
      | some j => k + m ≤ j ∧ j < k + m + cnt ∧ X xs j = v
      | none => ∀ j, k + m ≤ j → j < k + m + cnt → X xs j ≠ v := by
  intro cnt
  induction cnt with
  | zero =>
    intro m it G hle
    exact ⟨none, rfl, fun j h1 h2 => by omega⟩
  | succ cnt ih =>
    intro m it G hle
    obtain ⟨it', h1, G'⟩ := good_step S k m it G
    rw [EF.scanPhase, h1, bind_ok, getElem?_X xs _ (by omega)]
    simp only []
    by_cases he : v = X xs (k + m)
    · simp only [he, if_true]
      exact ⟨_, rfl, Nat.le_refl _, by omega, rfl⟩
    · simp only [he, if_false]
      obtain ⟨r, hr, hm⟩ := ih (m + 1) it' G' (by omega)
      rw [← Nat.add_assoc] at hr
      refine ⟨r, hr, ?_⟩
      cases r with
      | some j => simp only at hm ⊢; exact ⟨by omega, by omega, hm.2.2⟩
      | none =>
        simp only at hm ⊢
        intro j hj1 hj2
        by_cases hj : j = k + m
        · subst hj; exact fun h => he h.symm
        · exact hm j (by omega) (by omega)

/-- `binsearch_range` with an empty or out-of-bounds range answers `None` -/
theorem binsearchRange_none (S : Setting c e b xs) (lo hi v : Nat) (h : hi ≤ lo ∨ xs.length < hi) :
    e.binsearchRange c lo hi v = .ok none := by
  unfold EF.binsearchRange
  rw [len_eq S]
  simp [h]

/-- **binsearch_range** on a valid range: an index of `v` inside the range if there is one (any of them
    when `v` occurs several times), `None` otherwise; no panic -/
theorem binsearchRange_ok (S : Setting c e b xs) (lo hi v : Nat) (h1 : lo < hi) (h2 : hi ≤ xs.length) :
    ∃ r, e.binsearchRange c lo hi v = .ok r ∧
      match r with
      | some i => lo ≤ i ∧ i < hi ∧ xs[i]? = some v
      | none => ∀ i, lo ≤ i → i < hi → xs[i]? ≠ some v := by
  unfold EF.binsearchRange
  rw [len_eq S]
  have hc : ¬ (hi ≤ lo ∨ xs.length < hi) := by omega
  simp only [hc, if_false]
  obtain ⟨r, hr, hm⟩ := binPhase_ok S v 65 lo hi (by omega) h2
  rw [hr, bind_ok]
  cases r with
  | inl i =>
    simp only at hm ⊢
    refine ⟨some i, rfl, hm.1, hm.2.1, ?_⟩
    rw [getElem?_X xs i (by omega), hm.2.2]
  | inr w =>
    obtain ⟨l2, h2'⟩ := w
    simp only at hm ⊢
    obtain ⟨g1, g2, g3, g4⟩ := hm
    obtain ⟨it0, hi0, G⟩ := iter_good S l2
    rw [hi0, bind_ok]
    obtain ⟨r, hr, hm⟩ := scanPhase_ok S v l2 (h2' - l2) 0 it0 G (by omega)
    rw [Nat.add_zero] at hr hm
    refine ⟨r, hr, ?_⟩
    cases r with
    | some j =>
      simp only at hm ⊢
      refine ⟨by omega, by omega, ?_⟩
      rw [getElem?_X xs j (by omega), hm.2.2]
    | none =>
      simp only at hm ⊢
      intro i hi1 hi2 hiv
      rw [getElem?_X xs i (by omega)] at hiv
      have hiv' : X xs i = v := by simpa using hiv
      have := g4 i hi1 hi2 hiv'
      exact hm i (by omega) (by omega) hiv'

/-- **binsearch** = `binsearch_range(0..len)` -/
theorem binsearch_eq (S : Setting c e b xs) (v : Nat) : e.binsearch c v = e.binsearchRange c 0 xs.length v := by
  unfold EF.binsearch; rw [len_eq S]

/-- **binsearch**: an index of `v` if `v` occurs, `None` otherwise (also on the empty sequence) -/
theorem binsearch_ok (S : Setting c e b xs) (v : Nat) :
    ∃ r, e.binsearch c v = .ok r ∧
      match r with
      | some i => xs[i]? = some v
      | none => v ∉ xs := by
  rw [binsearch_eq S]
  by_cases hn : xs.length = 0
  · refine ⟨none, binsearchRange_none S 0 xs.length v (by omega), ?_⟩
    have : xs = [] := List.length_eq_zero_iff.mp hn
    simp [this]
  · obtain ⟨r, hr, hm⟩ := binsearchRange_ok S 0 xs.length v (by omega) (Nat.le_refl _)
    refine ⟨r, hr, ?_⟩
    cases r with
    | some i => simp only at hm ⊢; exact hm.2.2
    | none =>
      simp only at hm ⊢
      intro hv
      obtain ⟨i, hi, he⟩ := List.mem_iff_getElem.mp hv
      exact hm i (Nat.zero_le _) hi (by rw [List.getElem?_eq_getElem hi, he])

end
end EFQ
end Sucds
