import Sucds.Proofs.SpaceDArray
import Sucds.Proofs.EliasFanoHigh
/-! # C19, part 4a — `EliasFano`: `8·size_in_bytes ≤ n·⌊lg(u/n)⌋ + 7n + 8192` (`11n` with the rank index).

The structure holds the low bits (`n·l` bits, `l = ⌊lg(u/n)⌋`), and a `DArray` over the high bits whose
length is `H = n + (u >> l) + 2 ≤ 3n + 1`; `enable_rank` adds the `select0` index of that `DArray`.
Each select index costs `9/16` bit per indexed position plus at most one bit per position of the high
vector (`index_cost_pos`), so without rank `B ≤ n·l + 2H + 9n/16 + c` and with rank
`B ≤ n·l + 3H + 9H/16 + c`. -/
set_option linter.unusedSimpArgs false
set_option linter.unusedVariables false
namespace Sucds
namespace Space
open Codec Spec EFB EFQ

/-- `EliasFano::size_in_bytes` -/
theorem EF.codec_size (e : EF) : EF.codec.size e = DA.codec.size e.high + BV.codec.size e.low + 16 := by
  show DA.codec.size e.high + (BV.codec.size e.low + (8 + 8)) = _
  omega

theorem ofBuilder_high (c : Cfg) (b : EFB) (h : b.high.Inv) :
    (EF.ofBuilder c b).high = DA.build c b.high false false := by
  show DA.fromBV c (BV.fromBits b.high.toList) = DA.build c b.high false false
  have : BV.fromBits b.high.toList = b.high :=
    BV.eq_of_toList _ _ (BV.fromBits_spec _).1 h (BV.fromBits_spec _).2
  rw [this]; rfl

theorem enableRank_high (c : Cfg) (b : EFB) (h : b.high.Inv) :
    ((EF.ofBuilder c b).enableRank c).high = DA.build c b.high false true := by
  show (DA.fromBV c (BV.fromBits b.high.toList)).enableSelect0 c = DA.build c b.high false true
  have : BV.fromBits b.high.toList = b.high :=
    BV.eq_of_toList _ _ (BV.fromBits_spec _).1 h (BV.fromBits_spec _).2
  rw [this]; rfl

/-- the number of ones of the high bits is the number of stored values -/
theorem high_ones (b : EFB) (xs : List Nat) (h : Holds b xs) : cnt b.high.bitAt b.high.len = xs.length := by
  have hmono : ∀ i j, i < j → j < xs.length → hp b xs i < hp b xs j := by
    intro i j hij hj
    have := sorted_getD_le xs h.sorted i j hij hj
    have : X xs i >>> b.lowLen ≤ X xs j >>> b.lowLen := by
      rw [Nat.shiftRight_eq_div_pow, Nat.shiftRight_eq_div_pow]; exact Nat.div_le_div_right this
    unfold hp; omega
  have hlt : ∀ k, k < xs.length → hp b xs k < b.high.len := by
    intro k hk
    rw [h.hlen]
    have := h.bound _ (X_mem xs k hk)
    have : X xs k >>> b.lowLen ≤ b.univ >>> b.lowLen := by
      rw [Nat.shiftRight_eq_div_pow, Nat.shiftRight_eq_div_pow]; exact Nat.div_le_div_right (by omega)
    have := h.cap; have := h.pos
    unfold hp; omega
  rw [UnaryCode.cnt_eq_below xs.length (hp b xs) b.high.bitAt hmono (h.ones) b.high.len]
  have : (List.range xs.length).countP (fun k => decide (hp b xs k < b.high.len)) = (List.range xs.length).length := by
    rw [List.countP_eq_length]
    intro k hk
    have hk' : k < xs.length := by simpa using hk
    simpa using hlt k hk'
  show (List.range xs.length).countP (fun k => decide (hp b xs k < b.high.len)) = _
  rw [this]; simp

/-- with `l = ⌊lg(u/n)⌋` (0 when `u < n`) the high part `u >> l` is below `2n` -/
theorem shr_lt (u m : Nat) (hm : m ≠ 0) : u >>> ((msbN (u / m)).getD 0) < 2 * m := by
  unfold msbN
  by_cases h0 : u / m = 0
  · rw [if_pos h0]
    have : u < m := by
      rcases Nat.div_eq_zero_iff.mp h0 with h | h
      · omega
      · exact h
    simp only [Option.getD_none, Nat.shiftRight_zero]; omega
  · rw [if_neg h0]
    simp only [Option.getD_some]
    have h1 : u / m < 2 ^ (Nat.log2 (u / m) + 1) := Nat.lt_log2_self
    have h2 : u < 2 ^ (Nat.log2 (u / m) + 1) * m := (Nat.div_lt_iff_lt_mul (by omega)).mp h1
    rw [Nat.shiftRight_eq_div_pow]
    apply (Nat.div_lt_iff_lt_mul (Nat.pow_pos (by omega))).mpr
    rw [Nat.pow_succ] at h2
    calc u < 2 ^ Nat.log2 (u / m) * 2 * m := h2
      _ = 2 * m * 2 ^ Nat.log2 (u / m) := by
        rw [Nat.mul_comm (2 ^ Nat.log2 (u / m)) 2, Nat.mul_assoc, Nat.mul_comm (2 ^ Nat.log2 (u / m)) m, Nat.mul_assoc]

/-- sharp form of the bound (constant `2048`), used for the structures that wrap an `EliasFano` -/
theorem eliasfano_bits (c : Cfg) (b : EFB) (xs : List Nat) (h : Holds b xs) (hm : b.numVals ≠ 0)
    (hl : b.lowLen = (msbN (b.univ / b.numVals)).getD 0) :
    8 * EF.codec.size (EF.ofBuilder c b) ≤ b.numVals * b.lowLen + 7 * b.numVals + 2048 ∧
    8 * EF.codec.size ((EF.ofBuilder c b).enableRank c) ≤ b.numVals * b.lowLen + 11 * b.numVals + 2048 := by
  have hH : b.high.len ≤ 3 * b.numVals + 1 := by
    have := shr_lt b.univ b.numVals hm
    rw [← hl] at this
    rw [h.hlen]; omega
  have hn : xs.length ≤ b.numVals := by rw [← h.pos]; exact h.cap
  have hlow : b.low.len ≤ b.numVals * b.lowLen := by rw [h.llen]; exact Nat.mul_le_mul_right _ hn
  have hwl := h.linv.size
  have hwh := h.hinv.size
  -- the two select indexes of the high bits
  have c1 := index_cost_pos c b.high h.hinv true
  have c0 := index_cost_pos c b.high h.hinv false
  rw [DAIndex.build_numPos c b.high h.hinv, high_ones b xs h] at c1
  rw [DAIndex.build_numPos_zeros c b.high h.hinv] at c0
  have hz := cnt_compl b.high.bitAt b.high.len
  rw [high_ones b xs h] at hz
  generalize cnt (fun i => !b.high.bitAt i) b.high.len = z at hz c0
  constructor
  · rw [EF.codec_size, ofBuilder_high c b h.hinv, DA.codec_size, DA.build_bv, DA.build_s1, DA.build_s0, DA.build_r9,
      BV.codec_size, DAIndex.codec_size]
    show 8 * (16 + 8 * b.high.words.size + _ + 1 + 1 + BV.codec.size b.low + 16) ≤ _
    rw [BV.codec_size]
    generalize b.numVals * b.lowLen = ml at hlow ⊢
    omega
  · rw [EF.codec_size, enableRank_high c b h.hinv, DA.codec_size, DA.build_bv, DA.build_s1, DA.build_s0, DA.build_r9,
      BV.codec_size, DAIndex.codec_size]
    show 8 * (16 + 8 * b.high.words.size + _ + (1 + DAIndex.codec.size (DAIndex.build c b.high false)) + 1
      + BV.codec.size b.low + 16) ≤ _
    rw [BV.codec_size, DAIndex.codec_size]
    generalize b.numVals * b.lowLen = ml at hlow ⊢
    omega

/-- **EliasFano** (C19). `b` is a builder created for `n = b.numVals` values over the universe
    `u = b.univ` (so `b.lowLen = ⌊lg(u/n)⌋`, `0` when `u < n` — the third hypothesis is what
    `EliasFanoBuilder::new` sets and `push` never changes) that has accepted the values `xs`. Then
    `8·size_in_bytes ≤ n·⌊lg(u/n)⌋ + 7n + 8192`, and `≤ n·⌊lg(u/n)⌋ + 11n + 8192` after `enable_rank`. -/
theorem eliasfano_bound (c : Cfg) (b : EFB) (xs : List Nat) (h : Holds b xs) (hm : b.numVals ≠ 0)
    (hl : b.lowLen = (msbN (b.univ / b.numVals)).getD 0) :
    8 * EF.codec.size (EF.ofBuilder c b) ≤ b.numVals * b.lowLen + 7 * b.numVals + 8192 ∧
    8 * EF.codec.size ((EF.ofBuilder c b).enableRank c) ≤ b.numVals * b.lowLen + 11 * b.numVals + 8192 := by
  have := eliasfano_bits c b xs h hm hl
  generalize b.numVals * b.lowLen = ml at this ⊢
  omega

/-! ### the builder parameters are those of `new` -/

theorem new_params (u m : Nat) (b : EFB) (e : EFB.new u m = some b) :
    b.univ = u ∧ b.numVals = m ∧ m ≠ 0 ∧ b.lowLen = (msbN (u / m)).getD 0 := by
  unfold EFB.new at e
  by_cases hm : m = 0
  · rw [if_pos hm] at e; cases e
  · rw [if_neg hm] at e
    simp only [Option.some.injEq] at e
    subst e
    exact ⟨rfl, rfl, hm, rfl⟩

theorem push_params (b b' : EFB) (v : Nat) (r : Bool) (e : b.push v = .ok (b', r)) :
    b'.univ = b.univ ∧ b'.numVals = b.numVals ∧ b'.lowLen = b.lowLen := by
  unfold EFB.push at e
  split at e
  · cases e; exact ⟨rfl, rfl, rfl⟩
  · split at e
    · cases e; exact ⟨rfl, rfl, rfl⟩
    · split at e
      · cases e; exact ⟨rfl, rfl, rfl⟩
      · split at e
        · cases e
        · cases hs : b.high.setBit ((v >>> b.lowLen) + b.pos) true with
          | error p => rw [hs] at e; cases e
          | ok q =>
            rw [hs] at e
            obtain ⟨hb, ok⟩ := q
            cases ok with
            | false => cases e
            | true => cases e; exact ⟨rfl, rfl, rfl⟩

theorem pushAll_params : ∀ (ps : List Nat) (b b' : EFB), EF.pushAll b ps = .ok (some b') →
    b'.univ = b.univ ∧ b'.numVals = b.numVals ∧ b'.lowLen = b.lowLen := by
  intro ps
  induction ps with
  | nil => intro b b' e; cases e; exact ⟨rfl, rfl, rfl⟩
  | cons v vs ih =>
    intro b b' e
    simp only [EF.pushAll] at e
    cases hp : b.push v with
    | error p => rw [hp] at e; cases e
    | ok q =>
      rw [hp] at e
      obtain ⟨b1, r⟩ := q
      have := push_params b b1 v r hp
      cases r with
      | false => cases e
      | true =>
        have := ih b1 b' e
        omega

end Space
end Sucds
