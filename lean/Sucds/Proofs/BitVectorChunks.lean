import Sucds.Proofs.BitVector
set_option linter.unusedSimpArgs false
set_option linter.unusedVariables false
namespace Sucds
namespace BV

/-! ### word-level read/write lemmas -/
theorem mask_testBit (len j : Nat) (hl : len ≤ 64) : (mask len).testBit j = decide (j < len) := by
  unfold mask MAXW
  split
  · rw [Nat.one_shiftLeft, Nat.testBit_two_pow_sub_one]
  · have : len = 64 := by omega
    subst this; rw [Nat.testBit_two_pow_sub_one]

theorem mask_lt (len : Nat) (hl : len ≤ 64) : mask len < 2^64 := by
  apply Nat.lt_pow_two_of_testBit
  intro i hi
  rw [mask_testBit _ _ hl]; simp; omega

theorem join_testBit (w0 w1 shift len j : Nat) (h0 : w0 < 2^64) (hs : shift < 64) (hl : len ≤ 64) :
    (join w0 w1 shift len).testBit j =
      (decide (j < len) && (if shift + j < 64 then w0.testBit (shift + j) else w1.testBit (shift + j - 64))) := by
  unfold join
  have hhigh : ∀ t, 64 ≤ t → w0.testBit t = false := by
    intro t ht
    apply Nat.testBit_lt_two_pow
    exact Nat.lt_of_lt_of_le h0 (Nat.pow_le_pow_right (by omega) ht)
  split
  · rw [Nat.testBit_and, mask_testBit _ _ hl, Nat.testBit_shiftRight]
    by_cases hj : j < len
    · have : shift + j < 64 := by omega
      simp [hj, this, Bool.and_comm]
    · simp [hj]
  · rw [Nat.testBit_or, Nat.testBit_and, mask_testBit _ _ hl, Nat.testBit_shiftRight,
        Nat.testBit_mod_two_pow, Nat.testBit_shiftLeft]
    by_cases hj : j < len
    · by_cases hsj : shift + j < 64
      · have h1 : ¬ (j ≥ 64 - shift) := by omega
        simp [hj, hsj, h1]
      · have h1 : j ≥ 64 - shift := by omega
        have h2 := hhigh (shift + j) (by omega)
        have h3 : j - (64 - shift) = shift + j - 64 := by omega
        have h4 : j < 64 := by omega
        simp [hj, hsj, h1, h2, h3, h4]
    · by_cases hsj : shift + j < 64
      · omega
      · have h2 := hhigh (shift + j) (by omega)
        simp [hj, h2]

theorem NOT_testBit (m j : Nat) (hm : m < 2^64) : (NOT m).testBit j = (decide (j < 64) && !m.testBit j) :=
  Nat.testBit_two_pow_sub_succ hm j

theorem wr0_testBit (w0 bits len p j : Nat) (hb : bits < 2^len) (hl : len ≤ 64) (hj : j < 64) :
    (wr0 w0 bits len p).testBit j = if p ≤ j ∧ j < p + len then bits.testBit (j - p) else w0.testBit j := by
  unfold wr0
  have hmlt : (mask len <<< p) % 2^64 < 2^64 := Nat.mod_lt _ (Nat.two_pow_pos 64)
  rw [Nat.testBit_or, Nat.testBit_and, NOT_testBit _ _ hmlt, Nat.testBit_mod_two_pow, Nat.testBit_mod_two_pow,
      Nat.testBit_shiftLeft, Nat.testBit_shiftLeft, mask_testBit _ _ hl]
  by_cases h1 : p ≤ j
  · by_cases h2 : j < p + len
    · have : j - p < len := by omega
      simp [hj, h1, h2, this]
    · have : ¬ (j - p < len) := by omega
      have hbit : bits.testBit (j - p) = false := by
        apply Nat.testBit_lt_two_pow
        exact Nat.lt_of_lt_of_le hb (Nat.pow_le_pow_right (by omega) (by omega))
      simp [hj, h1, h2, this, hbit]
  · have h1' : ¬ (j ≥ p) := by omega
    simp [hj, h1, h1']

theorem wr0_lt (w0 bits len p : Nat) (hw : w0 < 2^64) : wr0 w0 bits len p < 2^64 := by
  unfold wr0
  apply Nat.or_lt_two_pow
  · exact Nat.lt_of_le_of_lt Nat.and_le_left hw
  · exact Nat.mod_lt _ (Nat.two_pow_pos 64)

theorem wr1_testBit (w1 bits len stored j : Nat) (hb : bits < 2^len) (hl : len ≤ 64) (hs : stored < len) (hw : w1 < 2^64) :
    (wr1 w1 bits len stored).testBit j = if j < len - stored then bits.testBit (j + stored) else w1.testBit j := by
  unfold wr1
  have hmlt : mask len >>> stored < 2^64 := by
    rw [Nat.shiftRight_eq_div_pow]
    exact Nat.lt_of_le_of_lt (Nat.div_le_self _ _) (mask_lt len hl)
  rw [Nat.testBit_or, Nat.testBit_and, NOT_testBit _ _ hmlt, Nat.testBit_shiftRight, Nat.testBit_shiftRight,
      mask_testBit _ _ hl]
  by_cases h1 : j < len - stored
  · have : stored + j < len := by omega
    have hj : j < 64 := by omega
    simp [h1, this, hj, Nat.add_comm]
  · have : ¬ (stored + j < len) := by omega
    have hbit : bits.testBit (stored + j) = false := by
      apply Nat.testBit_lt_two_pow
      exact Nat.lt_of_lt_of_le hb (Nat.pow_le_pow_right (by omega) (by omega))
    by_cases hj : j < 64
    · simp [h1, this, hbit, hj]
    · have : w1.testBit j = false := by
        apply Nat.testBit_lt_two_pow
        exact Nat.lt_of_lt_of_le hw (Nat.pow_le_pow_right (by omega) (by omega))
      simp [h1, hbit, hj, this]

theorem wr1_lt (w1 bits len stored : Nat) (hw : w1 < 2^64) (hb : bits < 2^len) (hl : len ≤ 64) : wr1 w1 bits len stored < 2^64 := by
  unfold wr1
  apply Nat.or_lt_two_pow
  · exact Nat.lt_of_le_of_lt Nat.and_le_left hw
  · rw [Nat.shiftRight_eq_div_pow]
    exact Nat.lt_of_le_of_lt (Nat.div_le_self _ _) (Nat.lt_of_lt_of_le hb (Nat.pow_le_pow_right (by omega) hl))

theorem and_mask_lt (bits len : Nat) (hl : len ≤ 64) : bits &&& mask len < 2^len := by
  apply Nat.lt_pow_two_of_testBit
  intro i hi
  rw [Nat.testBit_and, mask_testBit _ _ hl]; simp; omega

theorem and_mask_testBit (bits len j : Nat) (hl : len ≤ 64) : (bits &&& mask len).testBit j = (decide (j < len) && bits.testBit j) := by
  rw [Nat.testBit_and, mask_testBit _ _ hl, Bool.and_comm]

/-! ### get_bits -/
theorem getBits_none (b : BV) (pos len : Nat) (h : ¬ (len ≤ 64 ∧ pos + len ≤ b.len)) : b.getBits pos len = .ok none := by
  unfold getBits
  have : 64 < len ∨ b.len < len ∨ b.len - len < pos := by omega
  simp [this]

theorem getBits_ok (b : BV) (h : b.Inv) (pos len : Nat) (hl : len ≤ 64) (hr : pos + len ≤ b.len) :
    ∃ v, b.getBits pos len = .ok (some v) ∧ ∀ j, v.testBit j = (decide (j < len) && b.bitAt (pos + j)) := by
  have hsz := h.size
  unfold getBits
  have hg : ¬ (64 < len ∨ b.len < len ∨ b.len - len < pos) := by omega
  simp only [hg, if_false]
  unfold getBitsCore
  by_cases h0 : len = 0
  · subst h0
    exact ⟨0, by simp, by intro j; simp⟩
  · simp only [h0, if_false]
    rw [idx_ok _ _ (by omega)]
    simp only [Except.bind]
    have hbit : ∀ j, pos % 64 + j < 64 → (wordAt b.words (pos / 64)).testBit (pos % 64 + j) = b.bitAt (pos + j) := by
      intro j hj
      rw [bitAt_div, show (pos + j) / 64 = pos / 64 by omega, show (pos + j) % 64 = pos % 64 + j by omega]
    by_cases h1 : pos % 64 + len ≤ 64
    · simp only [h1, if_true]
      refine ⟨_, rfl, ?_⟩
      intro j
      rw [join_testBit _ _ _ _ _ (h.lt _) (Nat.mod_lt _ (by decide)) hl]
      by_cases hj : j < len
      · have : pos % 64 + j < 64 := by omega
        simp [hj, this, hbit j this]
      · simp [hj]
    · simp only [h1, if_false]
      rw [idx_ok _ _ (by omega)]
      simp only [Except.bind]
      refine ⟨_, rfl, ?_⟩
      intro j
      rw [join_testBit _ _ _ _ _ (h.lt _) (Nat.mod_lt _ (by decide)) hl]
      by_cases hj : j < len
      · by_cases h2 : pos % 64 + j < 64
        · simp [hj, h2, hbit j h2]
        · simp only [hj, h2, if_false, decide_true, Bool.true_and]
          rw [bitAt_div, show (pos + j) / 64 = pos / 64 + 1 by omega, show (pos + j) % 64 = pos % 64 + j - 64 by omega]
      · simp [hj]

end BV
end Sucds
