import Sucds.Proofs.DArrayEnum
/-! DArray, part 2: `wordLoop` / `buildLoop` push exactly `plist`. -/
set_option linter.unusedSimpArgs false
set_option linter.unusedVariables false
namespace Sucds
open Spec
namespace DAProof

theorem wordLoop_none (c : Cfg) (nb cp w : Nat) (s : DAIndex.BSt) (fuel : Nat) (hl : lsbW c w = none) :
    DAIndex.wordLoop c nb cp w s (fuel + 1) = s := by
  simp only [DAIndex.wordLoop, hl]

theorem wordLoop_ge (c : Cfg) (nb cp w l : Nat) (s : DAIndex.BSt) (fuel : Nat) (hl : lsbW c w = some l) (hge : cp + l ≥ nb) :
    DAIndex.wordLoop c nb cp w s (fuel + 1) = s := by
  simp only [DAIndex.wordLoop, hl, hge, if_true]

theorem wordLoop_push (c : Cfg) (nb cp w l : Nat) (s : DAIndex.BSt) (fuel : Nat) (hl : lsbW c w = some l) (hlt : ¬ cp + l ≥ nb) :
    DAIndex.wordLoop c nb cp w s (fuel + 1) = DAIndex.wordLoop c nb (cp + l + 1) (w >>> l >>> 1) (pushOne s (cp + l)) fuel := by
  simp only [DAIndex.wordLoop, hl, hlt, if_false]
  rfl

theorem cnt_zero_false (P : Nat → Bool) (n : Nat) (h : cnt P n = 0) (i : Nat) (hi : i < n) : P i = false := by
  cases hp : P i with
  | false => rfl
  | true => have := C14.cnt_pos_of_true P n i hi hp; omega

theorem wordLoop_eq (c : Cfg) (bv : BV) (h : bv.Inv) (o : Bool) (i : Nat) : ∀ (fuel off : Nat) (s : DAIndex.BSt),
    off ≤ 64 → 64 - off < fuel →
    DAIndex.wordLoop c bv.len (64 * i + off) (gw bv o i >>> off) s fuel
      = pushAll s (plist bv o (64 * i + off) (64 - off)) := by
  intro fuel
  induction fuel with
  | zero => intro off s h1 h2; omega
  | succ fuel ih =>
    intro off s h1 h2
    have hwlt : gw bv o i >>> off < 2^64 := Nat.lt_of_le_of_lt (Nat.shiftRight_le _ _) (gw_lt bv h o i)
    have hl := lsbW_eq c _ hwlt
    cases hs : sel (fun j => (gw bv o i >>> off).testBit j) 64 0 with
    | none =>
      rw [hs] at hl
      rw [wordLoop_none c _ _ _ _ _ hl]
      have hc := sel_none_le _ _ _ hs
      rw [plist_nil_of_false, pushAll_nil]
      intro p hp1 hp2
      have hz := cnt_zero_false _ 64 (Nat.le_zero.mp hc) (p - (64 * i + off)) (by omega)
      simp only [Nat.testBit_shiftRight] at hz
      have := Pb_gw bv h o i (p - 64 * i) (by omega)
      rw [show 64 * i + (p - 64 * i) = p by omega] at this
      rw [this, show p - 64 * i = off + (p - (64 * i + off)) by omega, hz]; simp
    | some l =>
      rw [hs] at hl
      obtain ⟨hl1, hl2, hl3⟩ := sel_isKth _ _ _ _ hs
      simp only [Nat.testBit_shiftRight] at hl2
      have hol : off + l < 64 := by
        by_cases hq : off + l < 64
        · exact hq
        · rw [gw_testBit_high bv h o i _ (by omega)] at hl2; cases hl2
      -- nothing before `l`
      have hpre : plist bv o (64 * i + off) l = [] := by
        apply plist_nil_of_false
        intro p hp1 hp2
        have hz := cnt_zero_false _ l hl3 (p - (64 * i + off)) (by omega)
        simp only [Nat.testBit_shiftRight] at hz
        have := Pb_gw bv h o i (p - 64 * i) (by omega)
        rw [show 64 * i + (p - 64 * i) = p by omega] at this
        rw [this, show p - 64 * i = off + (p - (64 * i + off)) by omega, hz]; simp
      rw [show 64 - off = l + (1 + (64 - (off + l + 1))) by omega, plist_add, plist_add, hpre, List.nil_append, plist_one]
      by_cases hge : 64 * i + off + l ≥ bv.len
      · rw [wordLoop_ge c _ _ _ _ _ _ hl hge]
        have h1 : Pb bv o (64 * i + off + l) = false := by
          cases hp : Pb bv o (64 * i + off + l) with
          | false => rfl
          | true => have := Pb_lt bv o _ hp; omega
        rw [h1, plist_nil_of_false]
        · simp [pushAll_nil]
        · intro p hp1 hp2
          cases hp : Pb bv o p with
          | false => rfl
          | true => have := Pb_lt bv o _ hp; omega
      · rw [wordLoop_push c _ _ _ _ _ _ hl hge]
        have h1 : Pb bv o (64 * i + off + l) = true := by
          have := Pb_gw bv h o i (off + l) hol
          rw [show 64 * i + (off + l) = 64 * i + off + l by omega] at this
          rw [this, hl2]; simp; omega
        rw [h1, if_pos rfl, List.singleton_append, pushAll_cons]
        have := ih (off + l + 1) (pushOne s (64 * i + off + l)) (by omega) (by omega)
        rw [show 64 * i + (off + l + 1) = 64 * i + off + l + 1 by omega,
            show off + l + 1 = off + l + 1 from rfl, Nat.shiftRight_add, Nat.shiftRight_add] at this
        exact this

theorem buildLoop_eq (c : Cfg) (bv : BV) (h : bv.Inv) (o : Bool) : ∀ (fuel i : Nat) (s : DAIndex.BSt),
    bv.words.size - i ≤ fuel →
    DAIndex.buildLoop c bv o i s fuel = pushAll s (plist bv o (64 * i) (64 * (bv.words.size - i))) := by
  intro fuel
  induction fuel with
  | zero =>
    intro i s hf
    rw [show bv.words.size - i = 0 by omega]
    rfl
  | succ fuel ih =>
    intro i s hf
    simp only [DAIndex.buildLoop]
    by_cases hi : i < bv.words.size
    · rw [if_pos hi]
      have hw := wordLoop_eq c bv h o i 65 0 s (by omega) (by omega)
      simp only [Nat.add_zero, Nat.shiftRight_zero, Nat.sub_zero] at hw
      unfold gw at hw
      rw [Nat.mul_comm i 64, hw, ih (i + 1) _ (by omega), ← pushAll_append]
      rw [show 64 * (bv.words.size - i) = 64 + 64 * (bv.words.size - (i + 1)) by omega, plist_add]
      rfl
    · rw [if_neg hi, show bv.words.size - i = 0 by omega]
      rfl

/-- **enumeration**: the build loop pushes exactly the indexed positions below `len`, in increasing order -/
theorem buildLoop_all (c : Cfg) (bv : BV) (h : bv.Inv) (o : Bool) (s : DAIndex.BSt) :
    DAIndex.buildLoop c bv o 0 s bv.words.size = pushAll s (plist bv o 0 bv.len) := by
  rw [buildLoop_eq c bv h o _ 0 s (by omega)]
  have hsz := h.size
  rw [Nat.mul_zero, Nat.sub_zero, show 64 * bv.words.size = bv.len + (64 * bv.words.size - bv.len) by omega, plist_add,
      plist_nil_of_false bv o (0 + bv.len), List.append_nil]
  intro p hp1 hp2
  cases hp : Pb bv o p with
  | false => rfl
  | true => have := Pb_lt bv o _ hp; omega

end DAProof
end Sucds
