import Sucds.Proofs.Rank9Select1
set_option linter.unusedSimpArgs false
set_option linter.unusedVariables false
namespace Sucds
open Spec
namespace R9Index

theorem hH : Gen.R9_SELECT_ONES_PER_HINT = 1024 := rfl

/-- invariant of the `build_select1` loop after `i` blocks: `hs` are the hints pushed so far -/
structure HInv (c : Cfg) (bv : BV) (i : Nat) (st : Array Nat × Nat) : Prop where
  thr : st.2 = (st.1.size + 1) * 1024
  le : prefixPop c bv.words (8 * i) ≤ st.2
  ent : ∀ j, j < st.1.size → wordAt st.1 j < i ∧ prefixPop c bv.words (8 * wordAt st.1 j) ≤ (j + 1) * 1024 ∧
          (j + 1) * 1024 < prefixPop c bv.words (8 * (wordAt st.1 j + 1))

theorem hintStep_ok (c : Cfg) (bv : BV) (h : bv.Inv) (i : Nat) (hi : i < (buildRank c bv).numBlocks)
    (st : Array Nat × Nat) (hinv : HInv c bv i st) :
    ∃ st', hintStep (buildRank c bv) st i = .ok st' ∧ HInv c bv (i + 1) st' := by
  unfold hintStep
  rw [blockRank_ok c bv h (i + 1) (by omega), bind_ok, hH]
  have hstep : prefixPop c bv.words (8 * (i + 1)) ≤ prefixPop c bv.words (8 * i) + 512 := by
    have := prefixPop_le c bv.words h.lt (8 * i) 8
    rw [show 8 * (i + 1) = 8 * i + 8 by omega]; omega
  obtain ⟨h1, h2, h3⟩ := hinv
  by_cases hv : prefixPop c bv.words (8 * (i + 1)) > st.2
  · rw [if_pos hv]
    refine ⟨_, rfl, ⟨?_, ?_, ?_⟩⟩
    · simp only [Array.size_push]; omega
    · simp only []; omega
    · intro j hj
      simp only [Array.size_push] at hj
      simp only [wordAt_push]
      by_cases hjm : j = st.1.size
      · rw [if_pos hjm]; subst hjm
        exact ⟨by omega, by omega, by omega⟩
      · rw [if_neg hjm]
        have := h3 j (by omega)
        exact ⟨by omega, this.2.1, this.2.2⟩
  · rw [if_neg hv]
    refine ⟨st, rfl, ⟨h1, by omega, ?_⟩⟩
    intro j hj
    have := h3 j hj
    exact ⟨by omega, this.2.1, this.2.2⟩

theorem hintLoop_ok (c : Cfg) (bv : BV) (h : bv.Inv) :
    ∀ (fuel i : Nat) (st : Array Nat × Nat), i + fuel = (buildRank c bv).numBlocks → HInv c bv i st →
      ∃ st', hintLoop (buildRank c bv) i fuel st = .ok st' ∧ HInv c bv (buildRank c bv).numBlocks st' := by
  intro fuel
  induction fuel with
  | zero => intro i st hi hinv; exact ⟨st, rfl, by rw [← hi]; exact hinv⟩
  | succ fuel ih =>
    intro i st hi hinv
    unfold hintLoop
    obtain ⟨st1, e1, hinv1⟩ := hintStep_ok c bv h i (by omega) st hinv
    rw [e1, bind_ok]
    exact ih (i + 1) st1 (by omega) hinv1

/-- **the hint table always yields a valid window**: `build_select1` succeeds, leaves the directory
    untouched, and for every `k` below the number of ones the window it induces brackets `k`. -/
theorem buildSelect1_window (c : Cfg) (bv : BV) (h : bv.Inv) :
    ∃ x, buildSelect1 (buildRank c bv) = .ok x ∧ x.pairs = (buildRank c bv).pairs ∧
      ∀ k, k < prefixPop c bv.words bv.words.size → ∃ a b, window1 x k = .ok (a, b) ∧ a < b ∧
        b ≤ (buildRank c bv).numBlocks + 1 ∧ prefixPop c bv.words (8 * a) ≤ k ∧ k < prefixPop c bv.words (8 * b) := by
  have hnb := numBlocks_eq c bv h
  have hsdm : 8 * (bv.words.size / 8) + bv.words.size % 8 = bv.words.size := Nat.div_add_mod _ 8
  have hcover : bv.words.size ≤ 8 * (buildRank c bv).numBlocks := by rw [hnb]; split <;> omega
  obtain ⟨st, e, h1, h2, h3⟩ := hintLoop_ok c bv h (buildRank c bv).numBlocks 0 (#[], Gen.R9_SELECT_ONES_PER_HINT)
    (by omega) ⟨by simp [hH], by simp [prefixPop], fun j hj => by simp at hj⟩
  unfold buildSelect1
  rw [e, bind_ok]
  refine ⟨_, rfl, rfl, ?_⟩
  intro k hk
  rw [prefixPop_beyond c bv.words _ hcover] at h2
  -- the chunk of `k` is at most the number of threshold crossings
  have hchunk : k / 1024 ≤ st.1.size := by omega
  unfold window1
  generalize hg : Gen.R9_SELECT_ONES_PER_HINT = H
  have hH' : H = 1024 := by rw [← hg]; rfl
  subst hH'
  have hlast : ∀ j, idx (st.1.push (buildRank c bv).numBlocks) j
      = if j < st.1.size then .ok (wordAt st.1 j) else if j = st.1.size then .ok (buildRank c bv).numBlocks else .error .oob := by
    intro j
    by_cases hj : j < st.1.size
    · rw [if_pos hj, idx_ok _ _ (by simp; omega), wordAt_push, if_neg (by omega)]
    · rw [if_neg hj]
      by_cases hj2 : j = st.1.size
      · rw [if_pos hj2, idx_ok _ _ (by simp; omega), wordAt_push, if_pos hj2]
      · rw [if_neg hj2, idx_oob _ _ (by simp; omega)]
  -- lower end
  have hlow : ∃ a, (if k / 1024 ≠ 0 then idx (st.1.push (buildRank c bv).numBlocks) (k / 1024 - 1) else .ok 0) = .ok a ∧
      prefixPop c bv.words (8 * a) ≤ k ∧ (k / 1024 < st.1.size → a ≤ wordAt st.1 (k / 1024)) ∧ a ≤ (buildRank c bv).numBlocks := by
    by_cases h0 : k / 1024 = 0
    · exact ⟨0, by simp [h0], by simp [prefixPop], fun _ => Nat.zero_le _, Nat.zero_le _⟩
    · have hl : k / 1024 - 1 < st.1.size := by omega
      have e1 := h3 (k / 1024 - 1) hl
      refine ⟨wordAt st.1 (k / 1024 - 1), by rw [if_pos h0, hlast, if_pos hl], by omega, ?_, by omega⟩
      intro hlt
      -- hints are increasing: rank(a) ≤ chunk·H < rank(hint[chunk]+1)
      have e2 := h3 (k / 1024) hlt
      by_cases hq : wordAt st.1 (k / 1024 - 1) ≤ wordAt st.1 (k / 1024)
      · exact hq
      · exfalso
        have := prefixPop_mono c bv.words (show 8 * (wordAt st.1 (k / 1024) + 1) ≤ 8 * wordAt st.1 (k / 1024 - 1) by omega)
        omega
  obtain ⟨a, ea, ha1, ha2, ha3⟩ := hlow
  try simp only []
  rw [ea, bind_ok, hlast]
  by_cases hlt : k / 1024 < st.1.size
  · rw [if_pos hlt, bind_ok]
    have e2 := h3 (k / 1024) hlt
    exact ⟨a, _, rfl, by have := ha2 hlt; omega, by omega, ha1, by omega⟩
  · rw [if_neg hlt, if_pos (by omega), bind_ok]
    refine ⟨a, _, rfl, by omega, Nat.le_refl _, ha1, ?_⟩
    rw [prefixPop_beyond c bv.words _ (by omega)]; exact hk

/-- **select1 with hints** = the specification, exactly as without hints -/
theorem select1_hints_ok (c : Cfg) (bv : BV) (h : bv.Inv) (k : Nat) :
    ∃ x, buildSelect1 (buildRank c bv) = .ok x ∧ select1 c x bv k = .ok (sel bv.bitAt bv.len k) := by
  obtain ⟨x, e, hp, hw⟩ := buildSelect1_window c bv h
  exact ⟨x, e, select1_window_ok c bv h k x hp (hw k)⟩

end R9Index
end Sucds
