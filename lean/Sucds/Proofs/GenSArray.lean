import Sucds.Proofs.GenEliasFano
import Sucds.Props.C03
/-! # `SArray` as generated from `src/bit_vectors/sarray.rs` agrees with the model `SA`

`Sucds.GenFn.SArray.{from_bits, enable_rank, has_rank, len, is_empty, num_bits, num_ones, num_zeros, access, rank1,
rank0, select1, select0, predecessor1, successor1, build_from_bits}` (generated) versus `SA.fromBV`, `SA.enableRank`,
`SA.access` … (`Sucds/Model/EliasFanoFull.lean`), for every build configuration; and the trait default
`Sucds.GenFn.BitVector.num_zeros`.

* `sa_from_bits_eq`: the generated `from_bits` is the model's `SA.fromBV ∘ BV.fromBits`, for `2 * len + 2 < 2^63`
  (the high-bit vector of the Elias-Fano part, at most `ones + len + 2` bits, must stay below `2^63` — the bound of
  `DArray::from_bits`).  The generated loop interleaves `unary_iter(0).next()` and `push`; the model first collects
  the positions, then pushes them: `sa_push_loop`.
* query equalities under `SAOk c s` ("the Elias-Fano part, if there is one, satisfies `EFOk`");
  `sa_enable_rank_eq`.
* `SAGenPlain` / `SAGenRank`: the right-hand sides of `Props/C03.lean` (`SA.PlainAnswers`, `SA.RankAnswers`) for
  the generated queries; `sa_from_bits_answers` establishes them for the structure built by the generated
  `from_bits` (+ `enable_rank`), including the vector without a set bit. -/
set_option linter.unusedSimpArgs false
set_option linter.unusedVariables false
namespace Sucds.GenEq
open Sucds Sucds.Spec Sucds.EFB

/-! ## `BitVector::num_zeros` (trait default `num_bits() - num_ones()`) -/

theorem sa_bv_num_zeros_spec (c : Cfg) (b : BV) (h : b.Inv) (hl : b.len < 2^64) :
    GenFn.BitVector.num_zeros c b = .ok (b.len - cnt b.bitAt b.len) := by
  unfold GenFn.BitVector.num_zeros
  rw [num_ones_spec c b h hl, bok, num_bits_eq, csub_ok c (cnt_le b.bitAt b.len)]

/-! ## Accessors -/

theorem sa_len_eq (s : SA) : GenFn.SArray.len s = s.numBits := rfl
theorem sa_num_bits_eq (s : SA) : GenFn.SArray.num_bits s = s.numBits := rfl
theorem sa_num_ones_eq (s : SA) : GenFn.SArray.num_ones s = s.numOnes := rfl
theorem sa_has_rank_eq (s : SA) : GenFn.SArray.has_rank s = s.hasRank := rfl
theorem sa_is_empty_eq (s : SA) : GenFn.SArray.is_empty s = (s.numBits == 0) := rfl
/-- `num_zeros` (trait default): `num_bits() - num_ones()`, a checked subtraction -/
theorem sa_num_zeros_eq (c : Cfg) (s : SA) : GenFn.SArray.num_zeros c s = csub c s.numBits s.numOnes := rfl
/-- `select0` is unsupported: the generated function panics for every argument, as the Rust code does -/
theorem sa_select0_eq (s : SA) (k : Nat) : GenFn.SArray.select0 s k = .error .assertFail := rfl

/-! ## `from_bits` -/

/-- body of `for i in bv.unary_iter(0) { b.push(i).unwrap() }`, as generated -/
def saPushBody (c : Cfg) (st : GenFn.UnaryIter × EFB) : R (RS.Step (GenFn.UnaryIter × EFB) (Option EF)) :=
  (GenFn.UnaryIter.next c st.1).bind fun r =>
    match r.2 with
    | some i1 =>
      (GenFn.EliasFanoBuilder.push c st.2 i1).bind fun r1 =>
      (RS.unwrapRes r1.2).bind fun _ => .ok (.next (r.1, r1.1))
    | _ => .ok (.brk (r.1, st.2))

/-- the push loop of `from_bits`: from a cursor `cur` the loop pushes the remaining set positions, exactly those the
    model's `pushAll` is given, and leaves the builder `pushAll` returns -/
theorem sa_push_loop (c : Cfg) (bv : BV) (h : bv.Inv) (hl : bv.len + 64 < 2^64) :
    ∀ (xs : List Nat) (u : UIter) (cur : Nat) (b b' : EFB), UIter.Rep bv u cur → cur ≤ bv.len →
      xs = (SA.ones bv.bitAt bv.len).drop (cnt bv.bitAt cur) → Fits b →
      EF.pushAll b xs = .ok (some b') →
      ∃ itf, RS.loopFuel (saPushBody c) (xs.length + 1) (uiCon bv u, b) = .ok (.done (itf, b')) := by
  intro xs
  induction xs with
  | nil =>
    intro u cur b b' hr hc hx hf hp
    obtain ⟨u', e, _, _⟩ := UIter.next_ok c bv h u cur hr
    have hse : selFrom bv.bitAt bv.len cur 0 = (SA.ones bv.bitAt bv.len)[cnt bv.bitAt cur]? := by
      rw [EFQ.selFrom_eq _ _ _ _ hc, Nat.add_zero, SA.ones_getElem?]
    have hnone : selFrom bv.bitAt bv.len cur 0 = none := by
      rw [hse, List.getElem?_eq_none_iff]
      exact List.drop_eq_nil_iff.mp hx.symm
    rw [hnone] at e
    have hpos := hr.lo
    have hgen := unary_next_eq c (uiCon bv u) h (by simp only [uiCon_bv]; omega)
      (by show u.pos + 64 < 2^64; omega) hr.lt
    simp only [uiCon_bv, uiAbs_uiCon] at hgen
    rw [e, map_ok] at hgen
    cases hp
    refine ⟨uiCon bv u', ?_⟩
    show (saPushBody c (uiCon bv u, b)).bind _ = _
    unfold saPushBody
    simp only []
    rw [hgen, bok]
    rfl
  | cons q xs ih =>
    intro u cur b b' hr hc hx hf hp
    obtain ⟨u', e, e1, _⟩ := UIter.next_ok c bv h u cur hr
    have hlt : cnt bv.bitAt cur < (SA.ones bv.bitAt bv.len).length := by
      apply Nat.lt_of_not_le
      intro hle
      rw [List.drop_eq_nil_of_le hle] at hx
      cases hx
    rw [List.drop_eq_getElem_cons hlt] at hx
    injection hx with hq hxs
    have hse : selFrom bv.bitAt bv.len cur 0 = some q := by
      rw [EFQ.selFrom_eq _ _ _ _ hc, Nat.add_zero, ← SA.ones_getElem?, List.getElem?_eq_getElem hlt, hq]
    have hk : IsKth bv.bitAt bv.len (cnt bv.bitAt cur) q := by
      apply sel_isKth
      rw [← SA.ones_getElem?, List.getElem?_eq_getElem hlt, hq]
    obtain ⟨k1, k2, k3⟩ := hk
    have hc1 : cnt bv.bitAt (q + 1) = cnt bv.bitAt cur + 1 := by
      rw [cnt_succ_of_true _ _ k2, k3]
    rw [hse] at e
    obtain ⟨hr', _⟩ := e1 q hse
    have hpos := hr.lo
    have hgen := unary_next_eq c (uiCon bv u) h (by simp only [uiCon_bv]; omega)
      (by show u.pos + 64 < 2^64; omega) hr.lt
    simp only [uiCon_bv, uiAbs_uiCon] at hgen
    rw [e, map_ok] at hgen
    -- the push
    simp only [EF.pushAll] at hp
    cases hpq : b.push q with
    | error x => rw [hpq] at hp; cases hp
    | ok r =>
      obtain ⟨b1, acc⟩ := r
      rw [hpq, EFQ.bind_ok] at hp
      cases acc with
      | false => simp only [] at hp; cases hp
      | true =>
        simp only [if_true] at hp
        have hf1 := (fits_push b hf q b1 true hpq).1
        obtain ⟨itf, hit⟩ := ih u' (q + 1) b1 b' hr' (by omega) (by rw [hc1]; exact hxs) hf1 hp
        refine ⟨itf, ?_⟩
        show (saPushBody c (uiCon bv u, b)).bind _ = _
        unfold saPushBody
        simp only []
        rw [hgen, bok]
        simp only []
        rw [efb_push_eq c b hf q, hpq, map_ok, bok]
        simp only [resB_true]
        show (RS.loopFuel (saPushBody c) (xs.length + 1) (uiCon bv u', b1)) = _
        exact hit

/-- the builder `from_bits` ends with, for a vector with at least one set bit: `new(len, ones)` then all set
    positions pushed; its bit vectors fit -/
theorem sa_pushed (bv : BV) (h : bv.Inv) (hl : 2 * bv.len + 2 < 2^63) (hz : cnt bv.bitAt bv.len ≠ 0) :
    ∃ b0 b', EFB.new bv.len (cnt bv.bitAt bv.len) = some b0 ∧ Fits b0 ∧
      EF.pushAll b0 (SA.ones bv.bitAt bv.len) = .ok (some b') ∧ Holds b' (SA.ones bv.bitAt bv.len) ∧
      b'.univ = bv.len ∧ b'.high.len < 2^63 ∧ (SA.ones bv.bitAt bv.len).length * b'.lowLen < 2^64 := by
  have hcl := cnt_le bv.bitAt bv.len
  have hn : bv.len < 2^64 := by omega
  obtain ⟨b0, hnew, hh0, hu0, hm0⟩ := new_holds bv.len (cnt bv.bitAt bv.len) hz hn
  have hshr : bv.len >>> lowLenOf bv.len (cnt bv.bitAt bv.len) ≤ bv.len := by
    rw [Nat.shiftRight_eq_div_pow]; exact Nat.div_le_self _ _
  have hf0 : Fits b0 := fits_new _ _ b0 hn hnew (by omega)
  obtain ⟨b', hpa, hh', hu', hm'⟩ := SA.pushAll_ok (SA.ones bv.bitAt bv.len) b0 [] hh0
    (by simpa using SA.ones_sorted bv.bitAt bv.len)
    (by rw [hu0]; exact SA.ones_lt bv.bitAt bv.len)
    (by rw [hm0, SA.ones_length]; simp)
  obtain ⟨q1, q2, q3⟩ := Space.pushAll_params _ _ _ hpa
  rw [List.nil_append] at hh'
  have hll : b0.lowLen = lowLenOf bv.len (cnt bv.bitAt bv.len) := efb_new_lowLen _ _ b0 hnew
  refine ⟨b0, b', hnew, hf0, hpa, hh', by rw [hu', hu0], ?_, ?_⟩
  · rw [hh'.hlen, q1, q2, q3, hu0, hm0, hll]; omega
  · have := hf0.lowFits
    rw [SA.ones_length, q3, ← hm0]; exact this

/-- **`SArray::from_bits`**: for a bit sequence `bits` with `2 * len + 2 < 2^63` the generated function is the
    model's -/
theorem sa_from_bits_eq (c : Cfg) (bits : List Bool) (hl : 2 * bits.length + 2 < 2^63) :
    GenFn.SArray.from_bits c bits = SA.fromBV c (BV.fromBits bits) := by
  have hinv := (BV.fromBits_spec bits).1
  have hlen : (BV.fromBits bits).len = bits.length := BV.fromBits_len bits
  unfold GenFn.SArray.from_bits SA.fromBV
  rw [from_bits_eq c bits (by omega), bok]
  generalize BV.fromBits bits = bv at hinv hlen
  simp only [len_eq, num_words_eq, words_eq]
  have hsz := hinv.size
  have hsum : RS.forRange 0 bv.words.size 0 (fun i acc =>
        (RS.index bv.words i).bind fun t => (GenFn.broadword.popcount c t).bind fun t1 => cadd c acc t1)
      = .ok (BV.sumPop c bv.words bv.words.size) := by
    have := ef_popsum_loop c bv.words hinv.lt (by omega) _ (fun _ _ => rfl) bv.words.size 0 (by omega)
    rw [Nat.zero_add] at this
    exact this
  rw [hsum, bok]
  rw [SA.sumPop_all c bv hinv]
  by_cases hz : cnt bv.bitAt bv.len = 0
  · rw [if_neg (by simpa using hz), if_neg (by simpa using hz)]; rfl
  · rw [if_pos hz, if_pos hz]
    have hcl := cnt_le bv.bitAt bv.len
    have hn64 : bv.len < 2^64 := by omega
    have hshr : bv.len >>> lowLenOf bv.len (cnt bv.bitAt bv.len) ≤ bv.len := by
      rw [Nat.shiftRight_eq_div_pow]; exact Nat.div_le_self _ _
    obtain ⟨b0, b', hnew, hf0, hpa, hh', hu', hhl, _⟩ := sa_pushed bv hinv (by omega) hz
    rw [efb_new_eq c _ _ hn64 (fun _ => by omega), bok, hnew]
    simp only [resOpt_some]
    obtain ⟨ps, hps, hpl⟩ := SA.unaryAll_ok c bv hinv
    rw [hps, EFQ.bind_ok, hpl, hpa, EFQ.bind_ok]
    simp only []
    obtain ⟨itf, hit⟩ := sa_push_loop c bv hinv (by omega) (SA.ones bv.bitAt bv.len) (UIter.new bv 0) 0 b0 b'
      (UIter.new_rep bv 0).rep (Nat.zero_le _) (by simp [cnt]) hf0 hpa
    have hloop := loopB_of_fuel (saPushBody c) _ _ _ hit
      (by rw [SA.ones_length]; omega)
    rw [← unary_iter_eq] at hloop
    show ((RS.unwrapRes (RS.Res.ok b0)).bind fun b =>
      (RS.loopB (GenFn.BitVector.unary_iter bv 0, b) (saPushBody c)).bind _).bind _ = _
    show ((RS.loopB (GenFn.BitVector.unary_iter bv 0, b0) (saPushBody c)).bind _).bind _ = _
    rw [hloop, bok]
    show ((GenFn.EliasFanoBuilder.build c b').bind _).bind _ = _
    rw [ef_build_eq c b' hhl, bok, bok]

/-! ## `enable_rank` and the queries -/

/-- what the query equalities need of an `SArray` value: its Elias-Fano part (absent iff no bit is set) satisfies
    `EFOk` — a well-formed high-bit `DArray` below `2^63` bits, `len * low_len` and the universe within `usize` -/
def SAOk (c : Cfg) (s : SA) : Prop := ∀ e, s.ef = some e → EFOk c e

/-- **`SArray::enable_rank`** -/
theorem sa_enable_rank_eq (c : Cfg) (s : SA)
    (h : ∀ e, s.ef = some e → e.high.bv.Inv ∧ e.high.bv.len < 2^63) :
    GenFn.SArray.enable_rank c s = .ok (s.enableRank c) := by
  obtain ⟨ef, nb, no, hr⟩ := s
  unfold GenFn.SArray.enable_rank SA.enableRank
  cases ef with
  | none => rfl
  | some e =>
    obtain ⟨h1, h2⟩ := h e rfl
    simp only []
    rw [ef_enable_rank_eq c e h1 h2, bok, bok]
    rfl

/-- **`SArray::access`** -/
theorem sa_access_eq (c : Cfg) (s : SA) (ok : SAOk c s) (pos : Nat) :
    GenFn.SArray.access c s pos = s.access c pos := by
  obtain ⟨ef, nb, no, hr⟩ := s
  unfold GenFn.SArray.access SA.access
  cases ef with
  | none => rfl
  | some e =>
    simp only []
    rw [ef_binsearch_eq c e (ok e rfl)]

/-- **`SArray::rank1`** (`debug_assert!(self.has_rank)` included: without the index both sides are the assertion
    failure) -/
theorem sa_rank1_eq (c : Cfg) (s : SA) (ok : SAOk c s) (pos : Nat) :
    GenFn.SArray.rank1 c s pos = s.rank1 c pos := by
  obtain ⟨ef, nb, no, hr⟩ := s
  unfold GenFn.SArray.rank1 SA.rank1 GenFn.SArray.has_rank
  cases hr with
  | false => rfl
  | true =>
    cases ef with
    | none => rfl
    | some e =>
      simp only [not_true_eq_false, if_false, Bool.not_true, Bool.false_eq_true]
      rw [bok]
      by_cases hp : nb < pos
      · rw [if_pos hp, if_pos hp]
      · rw [if_neg hp, if_neg hp, ef_rank_eq c e (ok e rfl)]

/-- **`SArray::rank0`** -/
theorem sa_rank0_eq (c : Cfg) (s : SA) (ok : SAOk c s) (pos : Nat) :
    GenFn.SArray.rank0 c s pos = s.rank0 c pos := by
  unfold GenFn.SArray.rank0 SA.rank0
  rw [sa_rank1_eq c s ok pos]
  cases s.rank1 c pos with
  | error e => rfl
  | ok r => cases r <;> rfl

/-- **`SArray::select1`** -/
theorem sa_select1_eq (c : Cfg) (s : SA) (ok : SAOk c s) (k : Nat) :
    GenFn.SArray.select1 c s k = s.select1 c k := by
  obtain ⟨ef, nb, no, hr⟩ := s
  unfold GenFn.SArray.select1 SA.select1
  cases ef with
  | none => rfl
  | some e =>
    simp only []
    rw [ef_select_eq c e (ok e rfl)]

/-- **`SArray::predecessor1`** -/
theorem sa_predecessor1_eq (c : Cfg) (s : SA) (ok : SAOk c s) (pos : Nat) :
    GenFn.SArray.predecessor1 c s pos = s.predecessor1 c pos := by
  obtain ⟨ef, nb, no, hr⟩ := s
  unfold GenFn.SArray.predecessor1 SA.predecessor1 GenFn.SArray.has_rank
  cases hr with
  | false => rfl
  | true =>
    cases ef with
    | none => rfl
    | some e =>
      simp only [not_true_eq_false, if_false, Bool.not_true, Bool.false_eq_true]
      rw [bok, ef_predecessor_eq c e (ok e rfl)]

/-- **`SArray::successor1`** -/
theorem sa_successor1_eq (c : Cfg) (s : SA) (ok : SAOk c s) (pos : Nat) :
    GenFn.SArray.successor1 c s pos = s.successor1 c pos := by
  obtain ⟨ef, nb, no, hr⟩ := s
  unfold GenFn.SArray.successor1 SA.successor1 GenFn.SArray.has_rank
  cases hr with
  | false => rfl
  | true =>
    cases ef with
    | none => rfl
    | some e =>
      simp only [not_true_eq_false, if_false, Bool.not_true, Bool.false_eq_true]
      rw [bok, ef_successor_eq c e (ok e rfl)]

/-- all accessors and queries at once -/
structure SAQueriesEq (c : Cfg) (s : SA) : Prop where
  len : GenFn.SArray.len s = s.numBits
  is_empty : GenFn.SArray.is_empty s = (s.numBits == 0)
  num_bits : GenFn.SArray.num_bits s = s.numBits
  num_ones : GenFn.SArray.num_ones s = s.numOnes
  num_zeros : GenFn.SArray.num_zeros c s = csub c s.numBits s.numOnes
  has_rank : GenFn.SArray.has_rank s = s.hasRank
  access : ∀ i, GenFn.SArray.access c s i = s.access c i
  rank1 : ∀ i, GenFn.SArray.rank1 c s i = s.rank1 c i
  rank0 : ∀ i, GenFn.SArray.rank0 c s i = s.rank0 c i
  select1 : ∀ k, GenFn.SArray.select1 c s k = s.select1 c k
  predecessor1 : ∀ i, GenFn.SArray.predecessor1 c s i = s.predecessor1 c i
  successor1 : ∀ i, GenFn.SArray.successor1 c s i = s.successor1 c i

theorem sa_queries_eq (c : Cfg) (s : SA) (ok : SAOk c s) : SAQueriesEq c s :=
  ⟨rfl, rfl, rfl, rfl, rfl, rfl, sa_access_eq c s ok, sa_rank1_eq c s ok, sa_rank0_eq c s ok, sa_select1_eq c s ok,
    sa_predecessor1_eq c s ok, sa_successor1_eq c s ok⟩

/-! ## Where `SAOk` comes from: the structures `from_bits` returns -/

/-- the shape of what the model's `SA.fromBV` returns, with the size facts the generated code needs -/
theorem sa_fromBV_shape (c : Cfg) (bv : BV) (h : bv.Inv) (hl : 2 * bv.len + 2 < 2^63) :
    ∃ s, SA.fromBV c bv = .ok s ∧ s.numBits = bv.len ∧ s.numOnes = cnt bv.bitAt bv.len ∧ s.hasRank = false ∧
      ((cnt bv.bitAt bv.len = 0 ∧ s.ef = none) ∨
       (cnt bv.bitAt bv.len ≠ 0 ∧ ∃ b, s.ef = some (EF.ofBuilder c b) ∧ Holds b (SA.ones bv.bitAt bv.len) ∧
          b.univ = bv.len ∧ b.high.len < 2^63 ∧ (SA.ones bv.bitAt bv.len).length * b.lowLen < 2^64)) := by
  unfold SA.fromBV
  simp only [SA.sumPop_all c bv h]
  by_cases hz : cnt bv.bitAt bv.len = 0
  · rw [if_neg (by simp [hz])]
    exact ⟨_, rfl, rfl, rfl, rfl, Or.inl ⟨hz, rfl⟩⟩
  · rw [if_pos hz]
    obtain ⟨b0, b', hnew, hf0, hpa, hh', hu', hhl, hlf⟩ := sa_pushed bv h hl hz
    rw [hnew]
    simp only []
    obtain ⟨ps, hps, hpl⟩ := SA.unaryAll_ok c bv h
    rw [hps, EFQ.bind_ok, hpl, hpa, EFQ.bind_ok]
    simp only []
    exact ⟨_, rfl, rfl, rfl, rfl, Or.inr ⟨hz, b', rfl, hh', hu', hhl, hlf⟩⟩

/-- `from_bits(bits)` and `from_bits(bits).enable_rank()` satisfy `SAOk`, and the generated `enable_rank` succeeds -/
theorem sa_fromBV_ok (c : Cfg) (bv : BV) (h : bv.Inv) (hl : 2 * bv.len + 2 < 2^63) (s : SA)
    (hs : SA.fromBV c bv = .ok s) :
    SAOk c s ∧ SAOk c (s.enableRank c) ∧ GenFn.SArray.enable_rank c s = .ok (s.enableRank c) := by
  obtain ⟨s', hs', _, _, _, hcase⟩ := sa_fromBV_shape c bv h hl
  rw [hs] at hs'
  injection hs' with hs'
  subst hs'
  rcases hcase with ⟨_, he⟩ | ⟨_, b, he, hh, hu, hhl, hlf⟩
  · refine ⟨fun e h1 => ?_, fun e h1 => ?_, sa_enable_rank_eq c s (fun e h1 => ?_)⟩
    · rw [he] at h1; cases h1
    · simp only [SA.enableRank, he, Option.map_none] at h1; cases h1
    · rw [he] at h1; cases h1
  · have hu64 : b.univ < 2^64 := by rw [hu]; omega
    have hbv : (EF.ofBuilder c b).high.bv = b.high := EFQ.ofBuilder_bv c b hh.hinv
    refine ⟨fun e h1 => ?_, fun e h1 => ?_, sa_enable_rank_eq c s (fun e h1 => ?_)⟩
    · rw [he] at h1; injection h1 with h1; subst h1
      exact efok_ofBuilder c b _ hh hu64 hhl hlf
    · simp only [SA.enableRank, he, Option.map_some] at h1
      injection h1 with h1; subst h1
      exact efok_enableRank c b _ hh hu64 hhl hlf
    · rw [he] at h1; injection h1 with h1; subst h1
      rw [hbv]; exact ⟨hh.hinv, hhl⟩

/-! ## Specification level: the right-hand sides of `Props/C03.lean`, for the generated queries -/

/-- `SA.PlainAnswers` with the generated functions in place of the model's (plus the accessors `len`, `is_empty`,
    `num_zeros`, which the model reads off the fields) -/
structure SAGenPlain (c : Cfg) (s : SA) (P : Nat → Bool) (n : Nat) : Prop where
  len       : GenFn.SArray.len s = n
  is_empty  : GenFn.SArray.is_empty s = (n == 0)
  num_bits  : GenFn.SArray.num_bits s = n
  num_ones  : GenFn.SArray.num_ones s = cnt P n
  num_zeros : GenFn.SArray.num_zeros c s = .ok (n - cnt P n)
  access    : ∀ i, GenFn.SArray.access c s i = .ok (if i < n then some (P i) else none)
  select1   : ∀ k, GenFn.SArray.select1 c s k = .ok (sel P n k)

/-- `SA.RankAnswers` with the generated functions in place of the model's -/
structure SAGenRank (c : Cfg) (s : SA) (P : Nat → Bool) (n : Nat) : Prop where
  rank1 : ∀ i, GenFn.SArray.rank1 c s i = .ok (if i ≤ n then some (cnt P i) else none)
  rank0 : ∀ i, GenFn.SArray.rank0 c s i = .ok (if i ≤ n then some (i - cnt P i) else none)
  pred1 : ∀ i, GenFn.SArray.predecessor1 c s i = .ok (if i < n then Spec.predP P i else none)
  succ1 : ∀ i, GenFn.SArray.successor1 c s i = .ok (if i < n then Spec.succP P n i else none)

theorem sa_gen_plain (c : Cfg) (s : SA) (P : Nat → Bool) (n : Nat) (ok : SAOk c s) (A : SA.PlainAnswers c s P n) :
    SAGenPlain c s P n where
  len := A.numBits
  is_empty := by rw [sa_is_empty_eq, A.numBits]
  num_bits := A.numBits
  num_ones := A.numOnes
  num_zeros := by rw [sa_num_zeros_eq, A.numBits, A.numOnes, csub_ok c (cnt_le P n)]
  access := fun i => by rw [sa_access_eq c s ok]; exact A.access i
  select1 := fun k => by rw [sa_select1_eq c s ok]; exact A.select1 k

theorem sa_gen_rank (c : Cfg) (s : SA) (P : Nat → Bool) (n : Nat) (ok : SAOk c s) (A : SA.RankAnswers c s P n) :
    SAGenRank c s P n where
  rank1 := fun i => by rw [sa_rank1_eq c s ok]; exact A.rank1 i
  rank0 := fun i => by rw [sa_rank0_eq c s ok]; exact A.rank0 i
  pred1 := fun i => by rw [sa_predecessor1_eq c s ok]; exact A.pred1 i
  succ1 := fun i => by rw [sa_successor1_eq c s ok]; exact A.succ1 i

/-- **C03 over the generated definitions**: for every bit sequence with `2 * len + 2 < 2^63` (every density,
    **including no set bit**) and every build configuration, the generated `from_bits` succeeds, the generated
    `enable_rank` succeeds, and the generated queries on both structures return the specification's answers for
    every argument -/
theorem sa_from_bits_answers (c : Cfg) (bits : List Bool) (hl : 2 * bits.length + 2 < 2^63) :
    ∃ s s', GenFn.SArray.from_bits c bits = .ok s ∧ GenFn.SArray.has_rank s = false ∧
      GenFn.SArray.enable_rank c s = .ok s' ∧ GenFn.SArray.has_rank s' = true ∧
      SAGenPlain c s (C03.bitOf bits) bits.length ∧
      SAGenPlain c s' (C03.bitOf bits) bits.length ∧
      SAGenRank c s' (C03.bitOf bits) bits.length := by
  have hinv := (BV.fromBits_spec bits).1
  have hlen : (BV.fromBits bits).len = bits.length := BV.fromBits_len bits
  obtain ⟨s, hs, hr, a1, a2, a3⟩ := C03.holds c bits (by omega)
  obtain ⟨ok0, ok1, her⟩ := sa_fromBV_ok c (BV.fromBits bits) hinv (by rw [hlen]; exact hl) s hs
  exact ⟨s, s.enableRank c, by rw [sa_from_bits_eq c bits hl, hs], hr, her, rfl,
    sa_gen_plain c s _ _ ok0 a1, sa_gen_plain c _ _ _ ok1 a2, sa_gen_rank c _ _ _ ok1 a3⟩

/-- without `enable_rank` the generated rank-based queries hit their `debug_assert!` (as the model's, `SA.norank`) -/
theorem sa_norank (c : Cfg) (s : SA) (hs : GenFn.SArray.has_rank s = false) (i : Nat) :
    GenFn.SArray.rank1 c s i = .error .assertFail ∧ GenFn.SArray.rank0 c s i = .error .assertFail ∧
    GenFn.SArray.predecessor1 c s i = .error .assertFail ∧ GenFn.SArray.successor1 c s i = .error .assertFail := by
  obtain ⟨ef, nb, no, hr⟩ := s
  have : hr = false := hs
  subst this
  exact ⟨rfl, rfl, rfl, rfl⟩

/-! ## `build_from_bits` (`impl Build`) -/

/-- **`SArray::build_from_bits`**: `Err` when `select0` is requested, otherwise `from_bits` and, when `with_rank`,
    `enable_rank` -/
theorem sa_build_from_bits_eq (c : Cfg) (bits : List Bool) (hl : 2 * bits.length + 2 < 2^63)
    (with_rank with_select1 with_select0 : Bool) :
    GenFn.SArray.build_from_bits c bits with_rank with_select1 with_select0 =
      if with_select0 then .ok RS.Res.err
      else (SA.fromBV c (BV.fromBits bits)).map fun s => RS.Res.ok (if with_rank then s.enableRank c else s) := by
  have hinv := (BV.fromBits_spec bits).1
  have hlen : (BV.fromBits bits).len = bits.length := BV.fromBits_len bits
  unfold GenFn.SArray.build_from_bits
  cases with_select0 with
  | true => rfl
  | false =>
    rw [if_neg (by simp), if_neg (by simp), sa_from_bits_eq c bits hl]
    obtain ⟨s, hs, _⟩ := C03.holds c bits (by omega)
    obtain ⟨_, _, her⟩ := sa_fromBV_ok c (BV.fromBits bits) hinv (by rw [hlen]; exact hl) s hs
    rw [hs, bok, map_ok]
    cases with_rank with
    | true => rw [if_pos rfl, if_pos rfl, her, bok]
    | false => rfl

/-! ## Non-vacuity: the generated pipeline evaluated by the kernel -/

example : ((GenFn.SArray.from_bits ⟨true, false⟩ [false, true, false, true, true]).bind fun s =>
    GenFn.SArray.select1 ⟨true, false⟩ s 2).toOption = some (some 4) := by
  decide +kernel
example : ((GenFn.SArray.from_bits ⟨true, false⟩ [false, true, false, true, true]).bind fun s =>
    (GenFn.SArray.enable_rank ⟨true, false⟩ s).bind fun s' => GenFn.SArray.rank1 ⟨true, false⟩ s' 4).toOption
      = some (some 2) := by
  decide +kernel
example : ((GenFn.SArray.from_bits ⟨false, true⟩ [false, false, false]).bind fun s =>
    (GenFn.SArray.enable_rank ⟨false, true⟩ s).bind fun s' => GenFn.SArray.successor1 ⟨false, true⟩ s' 1).toOption
      = some none := by
  decide +kernel

end Sucds.GenEq
