import Sucds.Proofs.GenDArrayBuild
import Sucds.Proofs.GenDArraySelect
import Sucds.Props.C02
/-! # `DArray` / `DArrayIndex` as generated from `src/bit_vectors/darray.rs`, `darray/inner.rs` agree with the model

`Sucds.GenFn.DArrayIndex.{new, build, flush_cur_block, get_word_over_one, get_word_over_zero, select, num_ones}`
(`GenDArrayBuild`: `da_flush_eq`, `da_build_eq`, `da_new_eq`, `build_Rng`; `GenDArraySelect`: `get_word_eq`,
`da_scan_eq`, `da_select_eq_of`, `da_select_eq`, `da_select_spec`) and, here, the wrapper
`Sucds.GenFn.DArray.{from_bits, enable_rank, enable_select0, build_from_bits, access, rank1, rank0, select1, select0,
num_bits, num_ones, num_zeros, len, is_empty, has_rank, has_select0, bit_vector, s1_index, s0_index, r9_index}`
versus `DAIndex.*` / `DA.*` (`Sucds/Model/DArray.lean`), and the specification-level corollaries with the right-hand
sides of `Props/C02.lean`.

The one size hypothesis is `len < 2^63`: positions and the overflow offset are stored as `isize`
(`first as isize`, `-((overflow.len() + 1) as isize)`), and the model keeps them as unbounded `Int`s. -/
set_option linter.unusedSimpArgs false
set_option linter.unusedVariables false
namespace Sucds.GenEq
open Sucds Sucds.Spec Sucds.DAProof

/-! ## Constructors -/

/-- **`DArray::from_bits`** -/
theorem da_from_bits_eq (c : Cfg) (bs : List Bool) (hl : bs.length < 2^63) :
    GenFn.DArray.from_bits c bs = .ok (DA.fromBV c (BV.fromBits bs)) := by
  unfold GenFn.DArray.from_bits DA.fromBV
  rw [from_bits_eq c bs (by omega), bok,
    da_new_eq c _ (BV.fromBits_spec bs).1 (by rw [BV.fromBits_len]; exact hl) true, bok]

/-- **`DArray::enable_rank`** -/
theorem da_enable_rank_eq (c : Cfg) (x : DA) (h : x.bv.Inv) (hl : x.bv.len < 2^64) :
    GenFn.DArray.enable_rank c x = .ok (x.enableRank c) := by
  unfold GenFn.DArray.enable_rank DA.enableRank
  rw [r9_new_eq c x.bv h hl, bok]

/-- **`DArray::enable_select0`** -/
theorem da_enable_select0_eq (c : Cfg) (x : DA) (h : x.bv.Inv) (hl : x.bv.len < 2^63) :
    GenFn.DArray.enable_select0 c x = .ok (x.enableSelect0 c) := by
  unfold GenFn.DArray.enable_select0 DA.enableSelect0
  rw [da_new_eq c x.bv h hl false, bok]

/-- **`DArray::build_from_bits`** (`impl Build`; `with_select1` is ignored by the code: the ones index always exists) -/
theorem da_build_from_bits_eq (c : Cfg) (bs : List Bool) (rank sel1 sel0 : Bool) (hl : bs.length < 2^63) :
    GenFn.DArray.build_from_bits c bs rank sel1 sel0 = .ok (RS.Res.ok (DA.build c (BV.fromBits bs) rank sel0)) := by
  have hinv := (BV.fromBits_spec bs).1
  have hlen := BV.fromBits_len bs
  unfold GenFn.DArray.build_from_bits DA.build
  rw [da_from_bits_eq c bs hl, bok]
  cases rank with
  | false =>
    rw [if_neg (by decide), bok]
    cases sel0 with
    | false => rfl
    | true =>
      rw [if_pos rfl, da_enable_select0_eq c _ hinv (by show (BV.fromBits bs).len < 2^63; omega), bok]; rfl
  | true =>
    rw [if_pos rfl, da_enable_rank_eq c _ hinv (by show (BV.fromBits bs).len < 2^64; omega), bok]
    cases sel0 with
    | false => rfl
    | true =>
      rw [if_pos rfl, da_enable_select0_eq c _ hinv (by show (BV.fromBits bs).len < 2^63; omega), bok]; rfl

/-! ## Accessors (no hypothesis) -/

theorem da_len_eq (x : DA) : GenFn.DArray.len x = x.numBits := rfl
theorem da_num_bits_eq (x : DA) : GenFn.DArray.num_bits x = x.numBits := rfl
theorem da_num_ones_eq (x : DA) : GenFn.DArray.num_ones x = x.numOnes := rfl
theorem da_num_zeros_eq (c : Cfg) (x : DA) : GenFn.DArray.num_zeros c x = x.numZeros c := rfl
theorem da_is_empty_eq (x : DA) : GenFn.DArray.is_empty x = (x.numBits == 0) := rfl
theorem da_has_rank_eq (x : DA) : GenFn.DArray.has_rank x = x.r9.isSome := rfl
theorem da_has_select0_eq (x : DA) : GenFn.DArray.has_select0 x = x.s0.isSome := rfl
theorem da_bit_vector_eq (x : DA) : GenFn.DArray.bit_vector x = x.bv := rfl
theorem da_s1_index_eq (x : DA) : GenFn.DArray.s1_index x = x.s1 := rfl
theorem da_s0_index_eq (x : DA) : GenFn.DArray.s0_index x = x.s0 := rfl
theorem da_r9_index_eq (x : DA) : GenFn.DArray.r9_index x = x.r9 := rfl

/-- **`DArray::access`** -/
theorem da_access_eq (c : Cfg) (x : DA) (pos : Nat) : GenFn.DArray.access c x pos = x.access pos :=
  access_eq c x.bv pos

/-! ## Queries -/

/-- **`DArray::rank1`** (the `expect` panic of a missing index included) -/
theorem da_rank1_eq (c : Cfg) (x : DA) (h : x.bv.Inv)
    (hr : ∀ r, x.r9 = some r → r.pairs = (R9Index.buildRank c x.bv).pairs) (pos : Nat) (hpos : pos < 2^64) :
    GenFn.DArray.rank1 c x pos = x.rank1 c pos := by
  unfold GenFn.DArray.rank1 DA.rank1
  cases hx : x.r9 with
  | none => rfl
  | some r => exact r9_rank1_eq c x.bv h r (hr r hx) pos hpos

/-- **`DArray::rank0`** -/
theorem da_rank0_eq (c : Cfg) (x : DA) (h : x.bv.Inv)
    (hr : ∀ r, x.r9 = some r → r.pairs = (R9Index.buildRank c x.bv).pairs) (pos : Nat) (hpos : pos < 2^64) :
    GenFn.DArray.rank0 c x pos = x.rank0 c pos := by
  unfold GenFn.DArray.rank0 DA.rank0
  cases hx : x.r9 with
  | none => rfl
  | some r => exact r9_rank0_eq c x.bv h r (hr r hx) pos hpos

/-- **`DArray::select1`** -/
theorem da_select1_eq (c : Cfg) (x : DA) (h : x.bv.Inv) (hl : x.bv.len < 2^63)
    (hs : Rng x.s1.blockInv x.s1.subInv x.bv.len) (k : Nat) :
    GenFn.DArray.select1 c x k = x.select1 c k :=
  da_select_eq_of c x.bv h hl x.s1 hs k

/-- **`DArray::select0`** (the `expect` panic of a missing index included) -/
theorem da_select0_eq (c : Cfg) (x : DA) (h : x.bv.Inv) (hl : x.bv.len < 2^63)
    (hs : ∀ s, x.s0 = some s → Rng s.blockInv s.subInv x.bv.len) (k : Nat) :
    GenFn.DArray.select0 c x k = x.select0 c k := by
  unfold GenFn.DArray.select0 DA.select0
  cases hx : x.s0 with
  | none => rfl
  | some s => exact da_select_eq_of c x.bv h hl s (hs s hx) k

/-! ## The structures the constructors produce -/

/-- what the query theorems need of a `DArray`: a well-formed bit vector below `2^63` bits, inventories holding values
    of their Rust types, a Rank9 directory that is the one of `build_rank` -/
structure DAWf (c : Cfg) (x : DA) : Prop where
  inv : x.bv.Inv
  len : x.bv.len < 2^63
  s1 : Rng x.s1.blockInv x.s1.subInv x.bv.len
  s0 : ∀ s, x.s0 = some s → Rng s.blockInv s.subInv x.bv.len
  r9 : ∀ r, x.r9 = some r → r.pairs = (R9Index.buildRank c x.bv).pairs

theorem build_wf (c : Cfg) (bv : BV) (h : bv.Inv) (hl : bv.len < 2^63) (rank sel0 : Bool) :
    DAWf c (DA.build c bv rank sel0) := by
  have hbv := DA.build_bv c bv rank sel0
  have hs1 := DA.build_s1 c bv rank sel0
  have hs0 := DA.build_s0 c bv rank sel0
  have hr9 := DA.build_r9 c bv rank sel0
  refine ⟨by rw [hbv]; exact h, by rw [hbv]; exact hl, by rw [hbv, hs1]; exact build_Rng c bv h hl true, ?_, ?_⟩
  · intro s hs
    rw [hs0] at hs
    cases sel0 with
    | false => cases hs
    | true =>
      rw [if_pos rfl] at hs
      injection hs with hs
      rw [hbv, ← hs]; exact build_Rng c bv h hl false
  · intro r hr
    rw [hr9] at hr
    cases rank with
    | false => cases hr
    | true =>
      rw [if_pos rfl] at hr
      injection hr with hr
      rw [hbv, ← hr]

theorem wf_rank1_eq (c : Cfg) (x : DA) (w : DAWf c x) (pos : Nat) (hpos : pos < 2^64) :
    GenFn.DArray.rank1 c x pos = x.rank1 c pos := da_rank1_eq c x w.inv w.r9 pos hpos
theorem wf_rank0_eq (c : Cfg) (x : DA) (w : DAWf c x) (pos : Nat) (hpos : pos < 2^64) :
    GenFn.DArray.rank0 c x pos = x.rank0 c pos := da_rank0_eq c x w.inv w.r9 pos hpos
theorem wf_select1_eq (c : Cfg) (x : DA) (w : DAWf c x) (k : Nat) :
    GenFn.DArray.select1 c x k = x.select1 c k := da_select1_eq c x w.inv w.len w.s1 k
theorem wf_select0_eq (c : Cfg) (x : DA) (w : DAWf c x) (k : Nat) :
    GenFn.DArray.select0 c x k = x.select0 c k := da_select0_eq c x w.inv w.len w.s0 k

/-! ## Specification level: the right-hand sides of `Props/C02.lean` -/

/-- **C02 over the generated definitions**: for every bit sequence of fewer than `2^63` bits, every index
    configuration and every build configuration, the generated `build_from_bits` succeeds, and on its result the
    generated queries return the specification's answers (`rank` arguments are `usize` values) -/
theorem da_generated_answers (c : Cfg) (bs : List Bool) (hl : bs.length < 2^63) (rank sel1 sel0 : Bool) :
    ∃ x, GenFn.DArray.build_from_bits c bs rank sel1 sel0 = .ok (RS.Res.ok x) ∧
      (∀ k, GenFn.DArray.select1 c x k = .ok (sel (C02.bitOf bs) bs.length k)) ∧
      GenFn.DArray.num_ones x = cnt (C02.bitOf bs) bs.length ∧
      GenFn.DArray.num_bits x = bs.length ∧
      GenFn.DArray.len x = bs.length ∧
      GenFn.DArray.num_zeros c x = .ok (cnt (fun j => !C02.bitOf bs j) bs.length) ∧
      (∀ i, GenFn.DArray.access c x i = .ok bs[i]?) ∧
      GenFn.DArray.has_rank x = rank ∧ GenFn.DArray.has_select0 x = sel0 ∧ GenFn.DArray.bit_vector x = BV.fromBits bs ∧
      (sel0 = true → ∀ k, GenFn.DArray.select0 c x k = .ok (sel (fun j => !C02.bitOf bs j) bs.length k)) ∧
      (sel0 = false → ∀ k, GenFn.DArray.select0 c x k = .error .expect) ∧
      (rank = true → ∀ i, i < 2^64 →
        GenFn.DArray.rank1 c x i = .ok (if i ≤ bs.length then some (cnt (C02.bitOf bs) i) else none)) ∧
      (rank = true → ∀ i, i < 2^64 →
        GenFn.DArray.rank0 c x i = .ok (if i ≤ bs.length then some (i - cnt (C02.bitOf bs) i) else none)) ∧
      (rank = false → ∀ i, GenFn.DArray.rank1 c x i = .error .expect ∧ GenFn.DArray.rank0 c x i = .error .expect) := by
  have hinv := (BV.fromBits_spec bs).1
  have hlen : (BV.fromBits bs).len = bs.length := BV.fromBits_len bs
  have hbit : (BV.fromBits bs).bitAt = C02.bitOf bs := funext (fun j => BV.fromBits_bitAt bs j)
  have w := build_wf c (BV.fromBits bs) hinv (by omega) rank sel0
  obtain ⟨m1, m2, m3, m4, m5, m6, m7⟩ := C02.holds c bs rank sel0
  obtain ⟨_, _, _, b4, _, _, b7, _, _, b10⟩ := DA.build_answers c (BV.fromBits bs) hinv rank sel0
  simp only [hlen, hbit] at b4
  refine ⟨DA.build c (BV.fromBits bs) rank sel0, da_build_from_bits_eq c bs rank sel1 sel0 hl, ?_, m2, m3, m3, ?_, ?_,
    ?_, ?_, DA.build_bv c _ rank sel0, ?_, ?_, ?_, ?_, ?_⟩
  · intro k; rw [wf_select1_eq c _ w k]; exact m1 k
  · rw [da_num_zeros_eq]; exact b4
  · intro i; rw [da_access_eq]; exact m4 i
  · rw [da_has_rank_eq, DA.build_r9]; cases rank <;> rfl
  · rw [da_has_select0_eq, DA.build_s0]; cases sel0 <;> rfl
  · intro hs k; rw [wf_select0_eq c _ w k]; exact m5 hs k
  · intro hs k; rw [wf_select0_eq c _ w k]; exact b7 hs k
  · intro hr i hi; rw [wf_rank1_eq c _ w i hi]; exact m6 hr i
  · intro hr i hi; rw [wf_rank0_eq c _ w i hi]; exact m7 hr i
  · intro hr i
    obtain ⟨e1, e2⟩ := b10 hr i
    unfold GenFn.DArray.rank1 GenFn.DArray.rank0
    rw [DA.build_r9, hr]
    exact ⟨rfl, rfl⟩

/-- the generated `DArrayIndex::new` followed by the generated `select`, at specification level -/
theorem da_index_generated_answers (c : Cfg) (bv : BV) (h : bv.Inv) (hL : bv.len < 2^63) (overOne : Bool) :
    ∃ x, GenFn.DArrayIndex.new c bv overOne = .ok x ∧
      GenFn.DArrayIndex.num_ones x = cnt (fun i => bv.bitAt i == overOne) bv.len ∧
      ∀ k, GenFn.DArrayIndex.select c x bv k = .ok (sel (fun i => bv.bitAt i == overOne) bv.len k) :=
  ⟨DAIndex.build c bv overOne, da_new_eq c bv h hL overOne, da_index_num_ones_spec c bv h overOne,
    fun k => da_select_spec c bv h hL overOne k⟩

/-- configuration independence of the generated `DArray` queries (same hypotheses) -/
theorem da_config_independent (c c' : Cfg) (bs : List Bool) (hl : bs.length < 2^63) (rank sel1 sel0 : Bool) :
    ∃ x x', GenFn.DArray.build_from_bits c bs rank sel1 sel0 = .ok (RS.Res.ok x) ∧
      GenFn.DArray.build_from_bits c' bs rank sel1 sel0 = .ok (RS.Res.ok x') ∧
      (∀ k, GenFn.DArray.select1 c x k = GenFn.DArray.select1 c' x' k) ∧
      (∀ k, GenFn.DArray.select0 c x k = GenFn.DArray.select0 c' x' k) ∧
      (∀ i, i < 2^64 → GenFn.DArray.rank1 c x i = GenFn.DArray.rank1 c' x' i) ∧
      (∀ i, i < 2^64 → GenFn.DArray.rank0 c x i = GenFn.DArray.rank0 c' x' i) ∧
      (∀ i, GenFn.DArray.access c x i = GenFn.DArray.access c' x' i) ∧
      GenFn.DArray.num_ones x = GenFn.DArray.num_ones x' ∧ GenFn.DArray.num_zeros c x = GenFn.DArray.num_zeros c' x' := by
  obtain ⟨x, a0, a1, a2, _, _, a5, a6, _, _, _, a10, a11, a12, a13, a14⟩ := da_generated_answers c bs hl rank sel1 sel0
  obtain ⟨x', b0, b1, b2, _, _, b5, b6, _, _, _, b10, b11, b12, b13, b14⟩ := da_generated_answers c' bs hl rank sel1 sel0
  refine ⟨x, x', a0, b0, fun k => by rw [a1, b1], ?_, ?_, ?_, fun i => by rw [a6, b6], by rw [a2, b2], by rw [a5, b5]⟩
  · intro k
    cases sel0 with
    | true => rw [a10 rfl, b10 rfl]
    | false => rw [a11 rfl, b11 rfl]
  · intro i hi
    cases rank with
    | true => rw [a12 rfl i hi, b12 rfl i hi]
    | false => rw [(a14 rfl i).1, (b14 rfl i).1]
  · intro i hi
    cases rank with
    | true => rw [a13 rfl i hi, b13 rfl i hi]
    | false => rw [(a14 rfl i).2, (b14 rfl i).2]

/-! ## Non-vacuity: closed evaluations of the generated functions -/

example : GenFn.DArrayIndex.select ⟨true, false⟩
    (DAIndex.build ⟨true, false⟩ (BV.fromBits [true, false, false, true, true]) true)
    (BV.fromBits [true, false, false, true, true]) 2 = .ok (some 4) := by
  rw [da_select_spec _ _ (BV.fromBits_spec _).1 (by rw [BV.fromBits_len]; decide)]
  rfl

-- the generated code itself, evaluated by the kernel (the `loop`/`while let` fuel of `2^64` included)
set_option maxRecDepth 20000 in
example : (GenFn.DArray.from_bits ⟨true, false⟩ [true, false, false, true, true]).bind
    (fun x => GenFn.DArray.select1 ⟨true, false⟩ x 1) = .ok (some 3) := by rfl

/-! ## Outside the hypotheses: why `len < 2^63`

A position `≥ 2^63` does not survive `first as isize`: the generated `flush_cur_block` stores a negative block entry
(which `select` would then read as an overflow offset), the model stores the position itself. Such a position needs a
bit vector of more than `2^63` bits, so this is outside the hypotheses of every theorem above (and of what fits in
memory); it is the reason for the bound. -/

theorem flush_differs_above_isize_max (c : Cfg) :
    GenFn.DArrayIndex.flush_cur_block c #[2^63] #[] #[] #[] = .ok (#[], #[-(2^63 : Int)], #[0], #[], ()) ∧
    (DAIndex.flush ⟨#[2^63], #[], #[], #[], 1⟩).blockInv = #[(2^63 : Int)] := by
  constructor
  · cases c with
    | mk a b => cases a <;> cases b <;> rfl
  · rfl

end Sucds.GenEq
