import Sucds.Proofs.GenBroadword
import Sucds.Proofs.GenBitVectorRW
import Sucds.Proofs.GenBitVectorScan
import Sucds.Proofs.GenRank9Build
import Sucds.Proofs.GenRank9Query
import Sucds.Proofs.GenRank9Sel
import Sucds.Proofs.GenCompactVector
import Sucds.Proofs.C09GenAux
import Sucds.Proofs.GenEFBuilder
import Sucds.Proofs.GenIterators
import Sucds.Proofs.GenDArray
import Sucds.Proofs.GenDacsWidths
import Sucds.Proofs.GenDacs
import Sucds.Proofs.GenEliasFano
import Sucds.Proofs.GenWaveletPipeline
/-! All equivalence proofs between generated definitions and the model (import hub; checks that they coexist). -/
