import Sucds.Proofs.GenBroadword
import Sucds.Proofs.GenBitVectorRW
import Sucds.Proofs.GenBitVectorScan
import Sucds.Proofs.GenRank9Build
import Sucds.Proofs.GenRank9Query
import Sucds.Proofs.GenCompactVector
import Sucds.Proofs.GenEFBuilder
import Sucds.Proofs.GenIterators
/-! All equivalence proofs between generated definitions and the model (import hub; checks that they coexist). -/
