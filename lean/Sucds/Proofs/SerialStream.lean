import Sucds.Proofs.SerialStruct
/-! # Streams of serialized values (C08 "consequently" clause, at any length; C13 for a cut stream)

`putMany c xs` is what a loop of `serialize_into` calls writes; `getMany c n s` is a loop of `n`
`deserialize_from` calls that stops at the first `Err`. -/
namespace Sucds.Codec

/-- bytes written by serializing the values of `xs` one after another into one stream -/
def putMany {α} (c : Codec α) : List α → List Nat
  | [] => []
  | x :: xs => c.put x ++ putMany c xs

/-- `n` successive `deserialize_from` calls on one stream; `none` as soon as one of them fails -/
def getMany {α} (c : Codec α) : Nat → List Nat → Option (List α × List Nat)
  | 0, s => some ([], s)
  | n+1, s => match c.get s with
    | none => none
    | some (x, r) => match getMany c n r with
      | none => none
      | some (xs, r') => some (x :: xs, r')

/-- every value of a stream written back to back is read back, in order, and exactly the written bytes are consumed -/
theorem Good.stream_roundtrip {α} {c : Codec α} {v} (h : c.Good v) (xs : List α) (hx : ∀ x ∈ xs, v x)
    (rest : List Nat) : getMany c xs.length (putMany c xs ++ rest) = some (xs, rest) := by
  induction xs with
  | nil => rfl
  | cons x xs ih =>
    have hx0 : v x := hx x (by simp)
    have ih' := ih (fun y hy => hx y (by simp [hy]))
    simp only [putMany, List.length_cons, getMany, List.append_assoc, h.rt x _ hx0, ih']

/-- the stream is exactly the sum of the `size_in_bytes()` of its values long -/
theorem Good.stream_length {α} {c : Codec α} {v} (h : c.Good v) (xs : List α) :
    (putMany c xs).length = (xs.map c.size).sum := by
  induction xs with
  | nil => rfl
  | cons x xs ih => simp only [putMany, List.length_append, h.sz, ih, List.map_cons, List.sum_cons]

/-- a stream cut anywhere strictly before its end cannot be read back in full: some call returns `Err` -/
theorem Good.stream_truncated {α} {c : Codec α} {v} (h : c.Good v) (xs : List α) (hx : ∀ x ∈ xs, v x)
    (k : Nat) (hk : k < (putMany c xs).length) : getMany c xs.length ((putMany c xs).take k) = none := by
  induction xs generalizing k with
  | nil => simp [putMany] at hk
  | cons x xs ih =>
    have hx0 : v x := hx x (by simp)
    simp only [putMany, List.length_cons, getMany]
    by_cases hlt : k < (c.put x).length
    · rw [List.take_append_of_le_length (Nat.le_of_lt hlt), h.pre x k hx0 hlt]
    · have hge : (c.put x).length ≤ k := Nat.le_of_not_lt hlt
      have hsplit : (c.put x ++ putMany c xs).take k = c.put x ++ (putMany c xs).take (k - (c.put x).length) := by
        rw [List.take_append, List.take_of_length_le hge]
      rw [hsplit, h.rt x _ hx0]
      have hk' : k - (c.put x).length < (putMany c xs).length := by
        simp only [putMany, List.length_append] at hk; omega
      simp only [ih (fun y hy => hx y (by simp [hy])) _ hk']

/-- reading only the first `m` values leaves the stream positioned exactly at the start of value `m` -/
theorem Good.stream_partial {α} {c : Codec α} {v} (h : c.Good v) (xs : List α) (hx : ∀ x ∈ xs, v x)
    (m : Nat) (hm : m ≤ xs.length) (rest : List Nat) :
    getMany c m (putMany c xs ++ rest) = some (xs.take m, putMany c (xs.drop m) ++ rest) := by
  induction xs generalizing m with
  | nil => have : m = 0 := by simpa using hm
           subst this; rfl
  | cons x xs ih =>
    cases m with
    | zero => rfl
    | succ m =>
      have hx0 : v x := hx x (by simp)
      have ih' := ih (fun y hy => hx y (by simp [hy])) m (by simpa using hm)
      simp only [putMany, getMany, List.append_assoc, h.rt x _ hx0, ih', List.take_succ_cons, List.drop_succ_cons]

end Sucds.Codec
