import Sucds.Proofs.WaveletSelect
/-! Wavelet matrix, part 6: `intersect`. -/
set_option linter.unusedSimpArgs false
set_option linter.unusedVariables false
namespace Sucds.Wav
open Sucds Sucds.Spec WMr L

/-- a non-empty range -/
def ne (r : Nat × Nat) : Bool := decide (r.1 < r.2)
/-- the range ends beyond `n` -/
def oob (n : Nat) (r : Nat × Nat) : Bool := decide (n < r.2)
def slice (S : List Nat) (r : Nat × Nat) : List Nat := (S.take r.2).drop r.1
/-- image of a range under one layer, zero side / one side -/
def zmap (sh : Nat) (S : List Nat) (r : Nat × Nat) : Nat × Nat :=
  ((S.take r.1).countP (nbitOf sh), (S.take r.2).countP (nbitOf sh))
def omap (sh : Nat) (S : List Nat) (r : Nat × Nat) : Nat × Nat :=
  (S.countP (nbitOf sh) + (S.take r.1).countP (bitOf sh), S.countP (nbitOf sh) + (S.take r.2).countP (bitOf sh))
def zsplit (sh : Nat) (S : List Nat) (rs : List (Nat × Nat)) : List (Nat × Nat) :=
  ((rs.filter ne).map (zmap sh S)).filter ne
def osplit (sh : Nat) (S : List Nat) (rs : List (Nat × Nat)) : List (Nat × Nat) :=
  ((rs.filter ne).map (omap sh S)).filter ne

/-- number of non-empty ranges holding a value that agrees with `q` on the low `m` bits -/
def hits (m : Nat) (S : List Nat) (rs : List (Nat × Nat)) (q : Nat) : Nat :=
  (rs.filter ne).countP (fun r => (slice S r).any (lowEq m q))

/-! ### `splitRanges` -/

theorem splitRanges_ok (c : Cfg) (l : Lay) (sh : Nat) (S : List Nat) (hd : LayS c l sh S) (hn : S.length < 2 ^ 63) :
    ∀ (rs zr or : List (Nat × Nat)), WM.splitRanges c l rs zr or =
      .ok (if rs.any (oob S.length) then none
           else some (zr.reverse ++ zsplit sh S rs, or.reverse ++ osplit sh S rs))
  | [], zr, or => by simp [WM.splitRanges, zsplit, osplit]
  | (a, b) :: rs, zr, or => by
    rw [WM.splitRanges, hd.numBits]
    by_cases hob : S.length < b
    · simp [hob, oob]
    · by_cases hemp : b ≤ a
      · simp only [hob, hemp, if_false, if_true]
        rw [splitRanges_ok c l sh S hd hn rs zr or]
        have hne : ne (a, b) = false := by simp only [ne, decide_eq_false_iff_not]; omega
        have hoo : oob S.length (a, b) = false := by simp only [oob, decide_eq_false_iff_not]; omega
        simp only [List.any_cons, hoo, Bool.false_or, zsplit, osplit, List.filter_cons, hne, Bool.false_eq_true, if_false]
      · simp only [hob, hemp, if_false]
        have hab : a ≤ b := by omega
        have hb : b ≤ S.length := by omega
        obtain ⟨z1, z2, _⟩ := slice_zero sh S a b hab hb
        obtain ⟨o1, o2, _⟩ := slice_one sh S a b hab hb
        have hspa := countP_split sh (S.take a)
        have hspb := countP_split sh (S.take b)
        rw [List.length_take] at hspa hspb
        have hnz : S.countP (nbitOf sh) ≤ S.length := List.countP_le_length
        rw [hd.rank0, if_pos (by omega), unwrapO_some, bind_ok, hd.rank0, if_pos hb, unwrapO_some, bind_ok,
          hd.numZeros, bind_ok, cadd_ok c (by omega), bind_ok, csub_ok c (by omega), bind_ok,
          cadd_ok c (by omega), bind_ok, csub_ok c (by omega), bind_ok, csub_ok c z1, bind_ok]
        have ea : S.countP (nbitOf sh) + a - (S.take a).countP (nbitOf sh) =
            S.countP (nbitOf sh) + (S.take a).countP (bitOf sh) := by omega
        have eb : S.countP (nbitOf sh) + b - (S.take b).countP (nbitOf sh) =
            S.countP (nbitOf sh) + (S.take b).countP (bitOf sh) := by omega
        rw [ea, eb, csub_ok c o1, bind_ok]
        rw [splitRanges_ok c l sh S hd hn rs]
        have hne : ne (a, b) = true := by simp only [ne, decide_eq_true_eq]; omega
        have hoo : oob S.length (a, b) = false := by simp only [oob, decide_eq_false_iff_not]; omega
        simp only [List.any_cons, hoo, Bool.false_or, zsplit, osplit, List.filter_cons, hne, if_true, List.map_cons]
        congr 1
        by_cases hr : rs.any (oob S.length) = true
        · simp [hr]
        · simp only [hr, Bool.false_eq_true, if_false]
          congr 2
          · by_cases hz : (S.take a).countP (nbitOf sh) < (S.take b).countP (nbitOf sh)
            · have h1 : (S.take b).countP (nbitOf sh) - (S.take a).countP (nbitOf sh) > 0 := by omega
              have h2 : ne ((S.take a).countP (nbitOf sh), (S.take b).countP (nbitOf sh)) = true := decide_eq_true hz
              simp only [h1, h2, if_true, List.reverse_cons, List.append_assoc, List.singleton_append, zmap]
            · have h1 : ¬ (S.take b).countP (nbitOf sh) - (S.take a).countP (nbitOf sh) > 0 := by omega
              have h2 : ne ((S.take a).countP (nbitOf sh), (S.take b).countP (nbitOf sh)) = false := decide_eq_false hz
              simp only [h1, h2, if_false, Bool.false_eq_true, zmap]
          · by_cases hz : S.countP (nbitOf sh) + (S.take a).countP (bitOf sh) <
                S.countP (nbitOf sh) + (S.take b).countP (bitOf sh)
            · have h1 : S.countP (nbitOf sh) + (S.take b).countP (bitOf sh) -
                  (S.countP (nbitOf sh) + (S.take a).countP (bitOf sh)) > 0 := by omega
              have h2 : ne (S.countP (nbitOf sh) + (S.take a).countP (bitOf sh),
                  S.countP (nbitOf sh) + (S.take b).countP (bitOf sh)) = true := decide_eq_true hz
              simp only [h1, h2, if_true, List.reverse_cons, List.append_assoc, List.singleton_append, omap]
            · have h1 : ¬ S.countP (nbitOf sh) + (S.take b).countP (bitOf sh) -
                  (S.countP (nbitOf sh) + (S.take a).countP (bitOf sh)) > 0 := by omega
              have h2 : ne (S.countP (nbitOf sh) + (S.take a).countP (bitOf sh),
                  S.countP (nbitOf sh) + (S.take b).countP (bitOf sh)) = false := decide_eq_false hz
              simp only [h1, h2, if_false, Bool.false_eq_true, omap]

/-! ### the ranges after one layer -/

theorem mem_zsplit {sh S rs r'} (h : r' ∈ zsplit sh S rs) : ne r' = true ∧ r'.2 ≤ S.length := by
  simp only [zsplit, List.mem_filter, List.mem_map] at h
  obtain ⟨⟨r, _, rfl⟩, h2⟩ := h
  refine ⟨h2, ?_⟩
  simp only [zmap]
  exact Nat.le_trans List.countP_le_length (by rw [List.length_take]; omega)

theorem mem_osplit {sh S rs r'} (h : r' ∈ osplit sh S rs) : ne r' = true ∧ r'.2 ≤ S.length := by
  simp only [osplit, List.mem_filter, List.mem_map] at h
  obtain ⟨⟨r, _, rfl⟩, h2⟩ := h
  refine ⟨h2, ?_⟩
  simp only [omap]
  have h1 := count_le_take (bitOf sh) S r.2
  have h3 := countP_split sh S
  omega

theorem filter_ne_of_all {rs : List (Nat × Nat)} (h : ∀ r ∈ rs, ne r = true) : rs.filter ne = rs :=
  List.filter_eq_self.mpr h

theorem any_oob_false {n : Nat} {rs : List (Nat × Nat)} (h : ∀ r ∈ rs, r.2 ≤ n) : rs.any (oob n) = false := by
  cases hx : rs.any (oob n) with
  | false => rfl
  | true =>
    obtain ⟨r, hr, ho⟩ := List.any_eq_true.mp hx
    have := h r hr
    simp only [oob, decide_eq_true_eq] at ho; omega

theorem all_inb_of_any {n : Nat} {rs : List (Nat × Nat)} (h : rs.any (oob n) = false) : ∀ r ∈ rs, r.2 ≤ n := by
  intro r hr
  by_cases hlt : n < r.2
  · have : rs.any (oob n) = true := List.any_eq_true.mpr ⟨r, hr, by simp only [oob, decide_eq_true_eq]; exact hlt⟩
    rw [h] at this; cases this
  · omega

theorem hits_le (m : Nat) (S : List Nat) (rs : List (Nat × Nat)) (q : Nat) : hits m S rs q ≤ (rs.filter ne).length :=
  List.countP_le_length

theorem any_true_pos {α} {p : α → Bool} {L : List α} (h : L.any p = true) : 0 < L.length := by
  obtain ⟨x, hx, _⟩ := List.any_eq_true.mp h
  exact List.length_pos_of_mem hx

/-- descending on the zero side keeps the number of hits, for `q` with bit `m` clear -/
theorem hits_zero (m : Nat) (S : List Nat) (rs : List (Nat × Nat)) (q : Nat) (hq : bitOf m q = false)
    (hin : ∀ r ∈ rs, r.2 ≤ S.length) : hits (m + 1) S rs q = hits m (part m S) (zsplit m S rs) q := by
  unfold hits
  rw [filter_ne_of_all (fun r hr => (mem_zsplit hr).1)]
  simp only [zsplit]
  rw [List.countP_filter (l := List.map (zmap m S) (List.filter ne rs)), List.countP_map]
  apply List.countP_congr
  intro r hr
  obtain ⟨hr1, hr2⟩ := List.mem_filter.mp hr
  have hab : r.1 ≤ r.2 := by simp only [ne, decide_eq_true_eq] at hr2; omega
  obtain ⟨_, _, z3⟩ := slice_zero m S r.1 r.2 hab (hin r hr1)
  obtain ⟨l0, _⟩ := slice_lengths m S r.1 r.2 hab (hin r hr1)
  have hsl : slice (part m S) (zmap m S r) = (slice S r).filter (nbitOf m) := z3
  have hany : (slice (part m S) (zmap m S r)).any (lowEq m q) = (slice S r).any (lowEq (m + 1) q) := by
    rw [hsl, List.any_filter, ← lowEq_nil m q hq]
    congr 1; funext x; exact Bool.and_comm _ _
  simp only [Function.comp, hany]
  constructor
  · intro h
    rw [h, Bool.true_and]
    have hpos : 0 < ((slice S r).filter (nbitOf m)).length := by
      rw [← hsl]; apply any_true_pos (p := lowEq m q); rw [hany]; exact h
    simp only [slice] at hpos
    rw [l0] at hpos
    have hlt : (zmap m S r).1 < (zmap m S r).2 := by simp only [zmap]; omega
    exact decide_eq_true hlt
  · intro h
    simp only [Bool.and_eq_true] at h; exact h.1

/-- descending on the one side keeps the number of hits, for `q` with bit `m` set -/
theorem hits_one (m : Nat) (S : List Nat) (rs : List (Nat × Nat)) (q : Nat) (hq : bitOf m q = true)
    (hin : ∀ r ∈ rs, r.2 ≤ S.length) : hits (m + 1) S rs q = hits m (part m S) (osplit m S rs) q := by
  unfold hits
  rw [filter_ne_of_all (fun r hr => (mem_osplit hr).1)]
  simp only [osplit]
  rw [List.countP_filter (l := List.map (omap m S) (List.filter ne rs)), List.countP_map]
  apply List.countP_congr
  intro r hr
  obtain ⟨hr1, hr2⟩ := List.mem_filter.mp hr
  have hab : r.1 ≤ r.2 := by simp only [ne, decide_eq_true_eq] at hr2; omega
  obtain ⟨_, _, o3⟩ := slice_one m S r.1 r.2 hab (hin r hr1)
  obtain ⟨_, l1⟩ := slice_lengths m S r.1 r.2 hab (hin r hr1)
  have hsl : slice (part m S) (omap m S r) = (slice S r).filter (bitOf m) := o3
  have hany : (slice (part m S) (omap m S r)).any (lowEq m q) = (slice S r).any (lowEq (m + 1) q) := by
    rw [hsl, List.any_filter, ← lowEq_one m q hq]
    congr 1; funext x; exact Bool.and_comm _ _
  simp only [Function.comp, hany]
  constructor
  · intro h
    rw [h, Bool.true_and]
    have hpos : 0 < ((slice S r).filter (bitOf m)).length := by
      rw [← hsl]; apply any_true_pos (p := lowEq m q); rw [hany]; exact h
    simp only [slice] at hpos
    rw [l1] at hpos
    have hlt : (omap m S r).1 < (omap m S r).2 := by simp only [omap]; omega
    exact decide_eq_true hlt
  · intro h
    simp only [Bool.and_eq_true] at h; exact h.1

theorem hits_add_pow (m : Nat) (S : List Nat) (rs : List (Nat × Nat)) (q : Nat) :
    hits m S rs (2 ^ m + q) = hits m S rs q := by
  have : lowEq m (2 ^ m + q) = lowEq m q := by
    funext x; simp only [lowEq, Nat.add_mod_left]
  simp only [hits, this]

/-! ### `intersect_helper` -/

/-- the list `out` holds, in ascending order, exactly the values `pre·2^m + q` whose low part `q` is hit by
    more than `k` ranges -/
def OutOK (k m : Nat) (S : List Nat) (rs : List (Nat × Nat)) (pre : Nat) (out : List Nat) : Prop :=
  out.Pairwise (· < ·) ∧ ∀ x, x ∈ out ↔ ∃ q, q < 2 ^ m ∧ x = pre * 2 ^ m + q ∧ k < hits m S rs q

theorem intersectHelper_ok (c : Cfg) (k : Nat) : ∀ (ls : List Lay) (S : List Nat) (rs : List (Nat × Nat)) (pre : Nat),
    Chain c ls S → S.length < 2 ^ 63 → ls.length ≤ 64 → pre < 2 ^ (64 - ls.length) →
    (ls = [] → (∀ r ∈ rs, r.2 ≤ S.length) ∧ k < (rs.filter ne).length) →
    (rs.any (oob S.length) = true → WM.intersectHelper c k ls rs pre = .ok none) ∧
    (rs.any (oob S.length) = false →
      ∃ out, WM.intersectHelper c k ls rs pre = .ok (some out) ∧ OutOK k ls.length S rs pre out)
  | [], S, rs, pre, _, _, _, _, hbot => by
    obtain ⟨hin, hk⟩ := hbot rfl
    refine ⟨fun h => (by rw [any_oob_false hin] at h; cases h), fun _ => ⟨[pre], rfl, by simp, ?_⟩⟩
    have hh : hits 0 S rs 0 = (rs.filter ne).length := by
      unfold hits
      rw [List.countP_eq_length]
      intro r hr
      obtain ⟨hr1, hr2⟩ := List.mem_filter.mp hr
      simp only [ne, decide_eq_true_eq] at hr2
      have := hin r hr1
      have hpos : 0 < (slice S r).length := by
        simp only [slice, List.length_drop, List.length_take]; omega
      obtain ⟨x, hx⟩ := List.exists_mem_of_length_pos hpos
      exact List.any_eq_true.mpr ⟨x, hx, lowEq_zero _ _⟩
    intro x
    simp only [List.length_nil, Nat.pow_zero, Nat.mul_one, List.mem_singleton]
    constructor
    · intro hx; exact ⟨0, by omega, by omega, by rw [hh]; exact hk⟩
    · rintro ⟨q, hq, rfl, _⟩; omega
  | l :: ls, S, rs, pre, hc, hn, hm, hpre, _ => by
    have hd := hc.head
    simp only [List.length_cons] at hm hpre ⊢
    obtain ⟨hr1, hr2⟩ := room pre ls.length hm hpre
    have hlen : (part ls.length S).length = S.length := part_length _ _
    rw [WM.intersectHelper, splitRanges_ok c l ls.length S hd hn rs [] [], bind_ok]
    refine ⟨fun h => by simp only [h, if_true], fun h => ?_⟩
    have hin := all_inb_of_any h
    simp only [h, Bool.false_eq_true, if_false, List.reverse_nil, List.nil_append]
    rw [shl1_or pre (by omega), shl1 pre (by omega)]
    -- zero side
    have hz : ∃ out0, (if (zsplit ls.length S rs).length > k then
          WM.intersectHelper c k ls (zsplit ls.length S rs) (2 * pre) else .ok (some [])) = .ok (some out0) ∧
        OutOK k ls.length (part ls.length S) (zsplit ls.length S rs) (2 * pre) out0 := by
      have hall : ∀ r ∈ zsplit ls.length S rs, r.2 ≤ (part ls.length S).length := fun r hr => by
        rw [hlen]; exact (mem_zsplit hr).2
      by_cases hg : (zsplit ls.length S rs).length > k
      · simp only [hg, if_true]
        exact (intersectHelper_ok c k ls (part ls.length S) (zsplit ls.length S rs) (2 * pre) hc.tail (by omega)
          (by omega) (by omega)
          (fun _ => ⟨hall, by rw [filter_ne_of_all (fun r hr => (mem_zsplit hr).1)]; exact hg⟩)).2
          (any_oob_false hall)
      · simp only [hg, if_false]
        refine ⟨[], rfl, by simp, ?_⟩
        intro x
        simp only [List.not_mem_nil, false_iff]
        rintro ⟨q, _, _, hq⟩
        have := hits_le ls.length (part ls.length S) (zsplit ls.length S rs) q
        rw [filter_ne_of_all (fun r hr => (mem_zsplit hr).1)] at this
        omega
    -- one side
    have ho : ∃ out1, (if (osplit ls.length S rs).length > k then
          WM.intersectHelper c k ls (osplit ls.length S rs) (2 * pre + 1) else .ok (some [])) = .ok (some out1) ∧
        OutOK k ls.length (part ls.length S) (osplit ls.length S rs) (2 * pre + 1) out1 := by
      have hall : ∀ r ∈ osplit ls.length S rs, r.2 ≤ (part ls.length S).length := fun r hr => by
        rw [hlen]; exact (mem_osplit hr).2
      by_cases hg : (osplit ls.length S rs).length > k
      · simp only [hg, if_true]
        exact (intersectHelper_ok c k ls (part ls.length S) (osplit ls.length S rs) (2 * pre + 1) hc.tail (by omega)
          (by omega) hr1
          (fun _ => ⟨hall, by rw [filter_ne_of_all (fun r hr => (mem_osplit hr).1)]; exact hg⟩)).2
          (any_oob_false hall)
      · simp only [hg, if_false]
        refine ⟨[], rfl, by simp, ?_⟩
        intro x
        simp only [List.not_mem_nil, false_iff]
        rintro ⟨q, _, _, hq⟩
        have := hits_le ls.length (part ls.length S) (osplit ls.length S rs) q
        rw [filter_ne_of_all (fun r hr => (mem_osplit hr).1)] at this
        omega
    obtain ⟨out0, he0, hp0, hm0⟩ := hz
    obtain ⟨out1, he1, hp1, hm1⟩ := ho
    refine ⟨out0 ++ out1, ?_, ?_, ?_⟩
    · rw [he0, bind_ok]; simp only; rw [he1, bind_ok]
    · refine List.pairwise_append.mpr ⟨hp0, hp1, ?_⟩
      intro x hx y hy
      obtain ⟨q0, hq0, rfl, _⟩ := (hm0 x).mp hx
      obtain ⟨q1, hq1, rfl, _⟩ := (hm1 y).mp hy
      rw [Nat.add_mul]; omega
    · intro x
      have hP : 2 ^ (ls.length + 1) = 2 ^ ls.length * 2 := Nat.pow_succ ..
      rw [List.mem_append, hm0 x, hm1 x]
      constructor
      · rintro (⟨q, hq, rfl, hk⟩ | ⟨q, hq, rfl, hk⟩)
        · have hb : bitOf ls.length q = false := Nat.testBit_lt_two_pow hq
          refine ⟨q, by omega, ?_, by rw [hits_zero _ _ _ _ hb hin]; exact hk⟩
          rw [hP]; have := arith0 pre (2 ^ ls.length) q; omega
        · have hb : bitOf ls.length (2 ^ ls.length + q) = true := by
            show (2 ^ ls.length + q).testBit ls.length = true
            rw [Nat.testBit_two_pow_add_eq, Nat.testBit_lt_two_pow hq]; rfl
          refine ⟨2 ^ ls.length + q, by omega, ?_, by rw [hits_one _ _ _ _ hb hin, hits_add_pow]; exact hk⟩
          rw [hP]; exact arith1 _ _ _
      · rintro ⟨q, hq, rfl, hk⟩
        by_cases hlt : q < 2 ^ ls.length
        · left
          have hb : bitOf ls.length q = false := Nat.testBit_lt_two_pow hlt
          refine ⟨q, hlt, ?_, by rw [← hits_zero _ _ _ _ hb hin]; exact hk⟩
          rw [hP]; have := arith0 pre (2 ^ ls.length) q; omega
        · right
          obtain ⟨q', rfl⟩ := Nat.exists_eq_add_of_le (Nat.le_of_not_lt hlt)
          have hq' : q' < 2 ^ ls.length := by omega
          have hb : bitOf ls.length (2 ^ ls.length + q') = true := by
            show (2 ^ ls.length + q').testBit ls.length = true
            rw [Nat.testBit_two_pow_add_eq, Nat.testBit_lt_two_pow hq']; rfl
          refine ⟨q', hq', ?_, by rw [← hits_add_pow, ← hits_one _ _ _ _ hb hin]; exact hk⟩
          rw [hP]; exact (arith1 _ _ _).symm

/-! ### the executable spec -/

/-- strictly ascending lists with the same members are equal -/
theorem eq_of_strict_sorted_mem : ∀ (l1 l2 : List Nat), l1.Pairwise (· < ·) → l2.Pairwise (· < ·) →
    (∀ x, x ∈ l1 ↔ x ∈ l2) → l1 = l2
  | [], [], _, _, _ => rfl
  | [], b :: t2, _, _, h => by have := (h b).mpr (List.mem_cons_self); cases this
  | a :: t1, [], _, _, h => by have := (h a).mp (List.mem_cons_self); cases this
  | a :: t1, b :: t2, h1, h2, h => by
    obtain ⟨ha, ht1⟩ := List.pairwise_cons.mp h1
    obtain ⟨hb, ht2⟩ := List.pairwise_cons.mp h2
    have hab : a = b := by
      have m1 := (h a).mp List.mem_cons_self
      have m2 := (h b).mpr List.mem_cons_self
      rcases List.mem_cons.mp m1 with e | e
      · exact e
      · rcases List.mem_cons.mp m2 with e' | e'
        · exact e'.symm
        · have := hb a e; have := ha b e'; omega
    subst hab
    congr 1
    apply eq_of_strict_sorted_mem t1 t2 ht1 ht2
    intro x
    constructor
    · intro hx
      rcases List.mem_cons.mp ((h x).mp (List.mem_cons_of_mem _ hx)) with e | e
      · have := ha x hx; omega
      · exact e
    · intro hx
      rcases List.mem_cons.mp ((h x).mpr (List.mem_cons_of_mem _ hx)) with e | e
      · have := hb x hx; omega
      · exact e

theorem dedup_mem (L : List Nat) (z : Nat) : z ∈ SpecX.dedup L ↔ z ∈ L := by
  induction L using SpecX.dedup.induct with
  | case1 => simp [SpecX.dedup]
  | case2 x => simp [SpecX.dedup]
  | case3 y r ih =>
    rw [SpecX.dedup, if_pos rfl, ih]; simp
  | case4 x y r hxy ih =>
    rw [SpecX.dedup, if_neg hxy, List.mem_cons, ih, List.mem_cons (a := z) (b := x)]

theorem dedup_strict (L : List Nat) (h : L.Pairwise (· ≤ ·)) : (SpecX.dedup L).Pairwise (· < ·) := by
  induction L using SpecX.dedup.induct with
  | case1 => simp [SpecX.dedup]
  | case2 x => simp [SpecX.dedup]
  | case3 y r ih =>
    rw [SpecX.dedup, if_pos rfl]; exact ih (List.pairwise_cons.mp h).2
  | case4 x y r hxy ih =>
    rw [SpecX.dedup, if_neg hxy]
    obtain ⟨hx, hyr⟩ := List.pairwise_cons.mp h
    obtain ⟨hy, _⟩ := List.pairwise_cons.mp hyr
    refine List.pairwise_cons.mpr ⟨?_, ih hyr⟩
    intro z hz
    rw [dedup_mem] at hz
    have hxy' := hx y List.mem_cons_self
    rcases List.mem_cons.mp hz with e | e
    · subst e; omega
    · have := hy z e; omega

/-- **`intersect`**: `None` iff some range ends beyond the sequence; otherwise the values that occur in more
    than `k` of the non-empty ranges, strictly ascending — exactly the executable spec of the test driver;
    no panic (needs `2·n < 2^64`: the model computes `num_zeros + pos`) -/
theorem intersect_spec (c : Cfg) (wm : WM) (s : List Nat) (h : Built c wm s) (hn : s.length < 2 ^ 63)
    (ranges : List (Nat × Nat)) (k : Nat) :
    wm.intersect c ranges k = .ok (SpecX.intersect s.toArray ranges k) := by
  unfold WM.intersect
  have hne : wm.layers.toList ≠ [] := by
    intro e
    have := h.width; rw [e] at this
    have := bitlen_pos (s.foldl max 0 + 1); simp at *; omega
  obtain ⟨hA, hB⟩ := intersectHelper_ok c k wm.layers.toList s ranges 0 h.chain hn h.width_le
    (Nat.pow_pos (by decide)) (fun e => absurd e hne)
  have hany : (ranges.any fun r => decide (s.toArray.size < r.2)) = ranges.any (oob s.length) := by
    congr 1
  unfold SpecX.intersect
  rw [hany]
  by_cases ho : ranges.any (oob s.length) = true
  · rw [hA ho]; simp [ho]
  · have ho' : ranges.any (oob s.length) = false := by simpa using ho
    obtain ⟨out, he, hp, hmem⟩ := hB ho'
    rw [he]
    simp only [ho', Bool.false_eq_true, if_false]
    congr 2
    have hrs : (ranges.filter fun r => decide (r.1 < r.2)) = ranges.filter ne := rfl
    have hsl : ∀ r : Nat × Nat, SpecX.slice s.toArray r.1 r.2 = slice s r := fun _ => rfl
    simp only [hrs, hsl]
    apply eq_of_strict_sorted_mem _ _ hp
      (List.Pairwise.filter _ (dedup_strict _ (sort_sorted _)))
    intro x
    have hlink : x < 2 ^ wm.layers.toList.length →
        hits wm.layers.toList.length s ranges x =
          ((ranges.filter ne).filter fun r => (slice s r).contains x).length := by
      intro hx
      rw [← List.countP_eq_length_filter]
      unfold hits
      apply List.countP_congr
      intro r _
      rw [List.any_eq_true, List.contains_iff_mem]
      constructor
      · rintro ⟨y, hy, hl⟩
        have hys : y ∈ s := List.mem_of_mem_take (List.mem_of_mem_drop hy)
        rw [lowEq_eq _ _ _ hx (h.elem_lt y hys)] at hl
        have : y = x := by simpa using hl
        subst this; exact hy
      · intro hxm
        have hxs : x ∈ s := List.mem_of_mem_take (List.mem_of_mem_drop hxm)
        exact ⟨x, hxm, by rw [lowEq_eq _ _ _ hx (h.elem_lt x hxs)]; simp⟩
    rw [hmem x, List.mem_filter, dedup_mem, (sort_perm _).mem_iff, List.mem_flatMap]
    simp only [Nat.zero_mul, Nat.zero_add, decide_eq_true_eq]
    constructor
    · rintro ⟨q, hq, rfl, hk⟩
      rw [hlink hq] at hk
      refine ⟨?_, hk⟩
      have hpos : 0 < ((ranges.filter ne).filter fun r => (slice s r).contains x).length := by omega
      obtain ⟨r, hr⟩ := List.exists_mem_of_length_pos hpos
      obtain ⟨hr1, hr2⟩ := List.mem_filter.mp hr
      exact ⟨r, hr1, List.contains_iff_mem.mp hr2⟩
    · rintro ⟨⟨r, _, hxm⟩, hk⟩
      have hxs : x ∈ s := List.mem_of_mem_take (List.mem_of_mem_drop hxm)
      have hx := h.elem_lt x hxs
      exact ⟨x, hx, rfl, by rw [hlink hx]; exact hk⟩

end Sucds.Wav
