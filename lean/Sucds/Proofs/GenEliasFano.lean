import Sucds.Proofs.GenEFQueries
import Sucds.Proofs.GenEFIter
import Sucds.Proofs.SArrayBridge
import Sucds.Proofs.SpaceEliasFano
/-! # `EliasFano` as generated agrees with the model — part 3: `from_bits`, and the specification level

* `ef_from_bits_eq`: `Sucds.GenFn.EliasFano.from_bits` is the model's `EF.fromBV` (`Err ↦ none`).
* `GenAnswers`: the right-hand sides of `Props/C04.lean` (`C04.Answers`) stated for the *generated* queries;
  `ef_built_answers` establishes them for the generated `build()` + `enable_rank()` of any builder holding `xs`
  (`EFB.Holds b xs`, which the generated `new`/`push`/`extend` establish — `GenEFBuilder`), together with the
  `build()` read-back clause of `Props/C16.lean`; `ef_generated_answers` / `ef_generated_answers_extend` instantiate
  it for a sequence built by the generated `new` + push history / `new` + `extend`. -/
set_option linter.unusedSimpArgs false
set_option linter.unusedVariables false
namespace Sucds.GenEq
open Sucds Sucds.Spec Sucds.EFB

/-! ## `EliasFano::from_bits` -/

/-- the popcount loop `(0..bv.num_words()).fold(0, |acc, i| acc + popcount(bv.words()[i]))` -/
theorem ef_popsum_loop (c : Cfg) (ws : Array Nat) (hw : ∀ i, wordAt ws i < 2^64) (hsz : 64 * ws.size < 2^64)
    (body : Nat → Nat → R Nat)
    (hbody : ∀ i acc, body i acc = (RS.index ws i).bind fun t => (GenFn.broadword.popcount c t).bind fun t1 => cadd c acc t1) :
    ∀ n i, i + n ≤ ws.size → RS.forCount body i n (BV.sumPop c ws i) = .ok (BV.sumPop c ws (i + n)) := by
  intro n
  induction n with
  | zero => intro i _; rfl
  | succ n ih =>
    intro i hi
    have hle := sumPop_le c ws hw (i + 1)
    show (body i (BV.sumPop c ws i)).bind _ = _
    rw [hbody, index_wordAt _ _ (by omega), bok, popcount_spec c _ (hw i), bok,
      cadd_ok c (by show BV.sumPop c ws (i + 1) < 2^64; omega), bok]
    rw [show i + (n + 1) = (i + 1) + n by omega]
    exact ih (i + 1) (by omega)

/-- exit of the push loop of `from_bits` -/
def efFbExit : Option EFB → RS.Exit EFB (RS.Res EF)
  | some b => .done b
  | none => .ret RS.Res.err

/-- the push loop of `from_bits` -/
theorem ef_fb_loop (c : Cfg) (bv : BV) (hinv : bv.Inv) (body : Nat → EFB → R (RS.Step EFB (RS.Res EF)))
    (hbody : ∀ i b, body i b = (GenFn.BitVector.access c bv i).bind fun t4 => (RS.unwrap t4).bind fun b2 =>
      if b2 = true then
        (GenFn.EliasFanoBuilder.push c b i).bind fun r =>
          (match r.2 with
            | .err => .ok (.ret RS.Res.err)
            | .ok _ => .ok (.next r.1))
      else .ok (.next b)) :
    ∀ n i b, i + n ≤ bv.len → Fits b →
      RS.forCountB body i n b = (EF.pushAll b ((List.range' i n).filter bv.bitAt)).map efFbExit := by
  intro n
  induction n with
  | zero => intro i b _ _; rfl
  | succ n ih =>
    intro i b hi hf
    show (body i b).bind _ = _
    rw [hbody, access_eq, BV.getBit_ok bv hinv, if_pos (by omega), bok, unwrap_some, bok, List.range'_succ,
      List.filter_cons]
    cases hb : bv.bitAt i with
    | false =>
      rw [if_neg (by simp), if_neg (by simp), bok]
      exact ih (i + 1) b (by omega) hf
    | true =>
      rw [if_pos rfl, if_pos rfl, efb_push_eq c b hf i]
      show _ = Except.map efFbExit ((b.push i).bind _)
      cases hp : b.push i with
      | error x => rfl
      | ok r =>
        obtain ⟨b', acc⟩ := r
        cases acc with
        | false => rfl
        | true =>
          rw [map_ok, bok, bok]
          exact ih (i + 1) b' (by omega) (fits_push b hf i b' true hp).1

/-- **`EliasFano::from_bits`** (`Err ↦ none`): for a bit sequence `bits` with `2 * len + 2 < 2^63` (so that the
    high-bit vector, of at most `ones + len + 2` bits, stays below `2^63`) -/
theorem ef_from_bits_eq (c : Cfg) (bits : List Bool) (hl : 2 * bits.length + 2 < 2^63) :
    GenFn.EliasFano.from_bits c bits = (EF.fromBV c (BV.fromBits bits)).map resOpt := by
  have hinv := (BV.fromBits_spec bits).1
  have hlen : (BV.fromBits bits).len = bits.length := BV.fromBits_len bits
  unfold GenFn.EliasFano.from_bits EF.fromBV
  rw [from_bits_eq c bits (by omega), bok]
  generalize BV.fromBits bits = bv at hinv hlen
  simp only [num_bits_eq, num_words_eq, words_eq]
  by_cases h0 : bv.len = 0
  · rw [if_pos h0, if_pos h0]; rfl
  · rw [if_neg h0, if_neg h0]
    have hsz := hinv.size
    have hsum : RS.forRange 0 bv.words.size 0 (fun i acc =>
          (RS.index bv.words i).bind fun t => (GenFn.broadword.popcount c t).bind fun t1 => cadd c acc t1)
        = .ok (BV.sumPop c bv.words bv.words.size) := by
      have := ef_popsum_loop c bv.words hinv.lt (by omega) _ (fun _ _ => rfl) bv.words.size 0 (by omega)
      rw [Nat.zero_add] at this
      exact this
    rw [hsum, bok]
    rw [SA.sumPop_all c bv hinv]
    by_cases hz : cnt bv.bitAt bv.len = 0
    · rw [if_pos hz, if_pos hz]; rfl
    · rw [if_neg hz, if_neg hz]
      have hcl := cnt_le bv.bitAt bv.len
      have hn64 : bv.len < 2^64 := by omega
      have hshr : bv.len >>> lowLenOf bv.len (cnt bv.bitAt bv.len) ≤ bv.len := by
        rw [Nat.shiftRight_eq_div_pow]; exact Nat.div_le_self _ _
      obtain ⟨b0, hnew, hh0, hu0, hm0⟩ := new_holds bv.len (cnt bv.bitAt bv.len) hz hn64
      obtain ⟨p1, p2, p3, p4⟩ := Space.new_params _ _ _ hnew
      have hf0 : Fits b0 := fits_new _ _ b0 hn64 hnew (by omega)
      rw [efb_new_eq c _ _ hn64 (fun _ => by omega), bok, hnew]
      simp only [resOpt_some]
      obtain ⟨b', hpa, hh', hu', hm'⟩ := SA.pushAll_ok (SA.ones bv.bitAt bv.len) b0 [] hh0
        (by simpa using SA.ones_sorted bv.bitAt bv.len)
        (by rw [hu0]; exact SA.ones_lt bv.bitAt bv.len)
        (by rw [hm0, SA.ones_length]; simp)
      have hpa' : EF.pushAll b0 ((List.range bv.len).filter bv.bitAt) = .ok (some b') := hpa
      obtain ⟨q1, q2, q3⟩ := Space.pushAll_params _ _ _ hpa
      have hloop := ef_fb_loop c bv hinv _ (fun _ _ => rfl) bv.len 0 b0 (by omega) hf0
      rw [← List.range_eq_range', hpa', map_ok] at hloop
      show (RS.forCountB _ 0 (bv.len - 0) b0).bind _ = _
      rw [Nat.sub_zero]
      refine Eq.trans (congrArg (fun x => Except.bind x _) hloop) ?_
      rw [bok, hpa', EFQ.bind_ok]
      show (GenFn.EliasFanoBuilder.build c b').bind _ = _
      have hhl : b'.high.len < 2^63 := by
        rw [hh'.hlen, q1, q2, q3, p1, p2, p4]
        show _ + bv.len >>> lowLenOf bv.len (cnt bv.bitAt bv.len) + 2 < _
        omega
      rw [ef_build_eq c b' hhl, bok]
      rfl

/-! ## Specification level: the right-hand sides of `Props/C04.lean`, for the generated queries -/

/-- `n` successive calls of the generated `Iter::next`, collecting the answers (the generated counterpart of
    `EFQ.itRun`) -/
def efGenItRun (c : Cfg) : Nat → GenFn.iter_Iter → R (GenFn.iter_Iter × List (Option Nat))
  | 0, it => .ok (it, [])
  | m+1, it => (efGenItRun c m it).bind fun r =>
      (GenFn.iter_Iter.next c r.1).bind fun s => .ok (s.1, r.2 ++ [s.2])

theorem efGenItRun_eq (c : Cfg) (e : EF) (ok : EFOk c e) : ∀ (n : Nat) (m0 : EF.It), EFItOk e m0 →
    efGenItRun c n (efItCon e m0) = (EFQ.itRun c e n m0).map (fun r => (efItCon e r.1, r.2)) ∧
    ∀ r, EFQ.itRun c e n m0 = .ok r → EFItOk e r.1 := by
  intro n
  induction n with
  | zero =>
    intro m0 w
    refine ⟨rfl, ?_⟩
    intro r hr
    cases hr; exact w
  | succ n ih =>
    intro m0 w
    obtain ⟨ih1, ih2⟩ := ih m0 w
    show (efGenItRun c n (efItCon e m0)).bind _ = Except.map _ ((EFQ.itRun c e n m0).bind _) ∧
      ∀ r : EF.It × List (Option Nat), (EFQ.itRun c e n m0).bind _ = .ok r → EFItOk e r.1
    rw [ih1]
    cases hrun : EFQ.itRun c e n m0 with
    | error x => exact ⟨rfl, fun r hr => by cases hr⟩
    | ok r1 =>
      obtain ⟨m1, l⟩ := r1
      have w1 := ih2 _ hrun
      rw [map_ok, bok, EFQ.bind_ok]
      simp only []
      rw [ef_iter_next_con c e ok m1 w1]
      cases hnx : EF.It.next c e m1 with
      | error x => exact ⟨rfl, fun r hr => by cases hr⟩
      | ok r2 =>
        obtain ⟨m2, a⟩ := r2
        refine ⟨rfl, ?_⟩
        intro r hr
        cases hr
        exact ef_next_okM c e ok m1 m2 a w1 hnx

/-- what the generated queries must answer on `e` for the stored list `xs` and universe `u` — `C04.Answers` with the
    generated functions in place of the model's -/
structure GenAnswers (c : Cfg) (e : EF) (u : Nat) (xs : List Nat) : Prop where
  len      : GenFn.EliasFano.len e = xs.length
  is_empty : GenFn.EliasFano.is_empty e = (xs.length == 0)
  univ     : GenFn.EliasFano.universe e = u
  select   : ∀ k, GenFn.EliasFano.select c e k = .ok xs[k]?
  delta    : ∀ k, GenFn.EliasFano.delta c e k =
               .ok (if k < xs.length then some (EFQ.X xs k - (if k = 0 then 0 else EFQ.X xs (k - 1))) else none)
  rank     : ∀ p, GenFn.EliasFano.rank c e p = .ok (if p ≤ u then some (EFQ.rk xs p) else none)
  pred     : ∀ p, GenFn.EliasFano.predecessor c e p = .ok (if p < u then EFQ.predV xs p else none)
  succ     : ∀ p, GenFn.EliasFano.successor c e p = .ok (if p < u then EFQ.succV xs p else none)
  iter     : ∀ k, ∃ it0, GenFn.EliasFano.iter c e k = .ok it0 ∧
               ∀ t, ∃ it', efGenItRun c (xs.length - k + t) it0 = .ok (it', (xs.drop k).map some ++ List.replicate t none)
  bs_none  : ∀ lo hi v, (hi ≤ lo ∨ xs.length < hi) → GenFn.EliasFano.binsearch_range c e (lo, hi) v = .ok none
  bs_some  : ∀ lo hi v, lo < hi → hi ≤ xs.length → ∃ r, GenFn.EliasFano.binsearch_range c e (lo, hi) v = .ok r ∧
               match r with
               | some i => lo ≤ i ∧ i < hi ∧ xs[i]? = some v
               | none => ∀ i, lo ≤ i → i < hi → xs[i]? ≠ some v
  bs_all   : ∀ v, GenFn.EliasFano.binsearch c e v = GenFn.EliasFano.binsearch_range c e (0, xs.length) v

/-- the model's answers (`C04.Answers`) carry over to the generated functions on every `e` with `EFOk c e` -/
theorem ef_gen_answers (c : Cfg) (e : EF) (u : Nat) (xs : List Nat) (ok : EFOk c e) (A : C04.Answers c e u xs) :
    GenAnswers c e u xs where
  len := A.len
  is_empty := by rw [ef_is_empty_eq, A.len]
  univ := A.univ
  select := fun k => by rw [ef_select_eq c e ok]; exact A.select k
  delta := fun k => by rw [ef_delta_eq c e ok]; exact A.delta k
  rank := fun p => by rw [ef_rank_eq c e ok]; exact A.rank p
  pred := fun p => by rw [ef_predecessor_eq c e ok]; exact A.pred p
  succ := fun p => by rw [ef_successor_eq c e ok]; exact A.succ p
  iter := fun k => by
    obtain ⟨m0, h0, hrun⟩ := A.iter k
    refine ⟨efItCon e m0, by rw [ef_iter_eq c e ok, h0]; rfl, ?_⟩
    intro t
    obtain ⟨m', hm'⟩ := hrun t
    refine ⟨efItCon e m', ?_⟩
    rw [(efGenItRun_eq c e ok _ m0 (ef_iter_okM c e ok k m0 h0)).1, hm']; rfl
  bs_none := fun lo hi v h => by rw [ef_binsearch_range_eq c e ok]; exact A.bs_none lo hi v h
  bs_some := fun lo hi v h1 h2 => by rw [ef_binsearch_range_eq c e ok]; exact A.bs_some lo hi v h1 h2
  bs_all := fun v => by
    rw [ef_binsearch_eq c e ok, ef_binsearch_range_eq c e ok]; exact A.bs_all v

/-- **C04 and the `build()` clause of C16 over the generated definitions**, for any builder holding `xs`
    (`EFB.Holds b xs` — what the generated `new`/`push`/`extend` establish, `GenEFBuilder`) whose bit vectors fit:
    the generated `build()` and `enable_rank()` succeed, the generated queries on the ranked structure return the
    specification's answers for every argument, and the structure as built reads back `xs` through `len`,
    `universe`, `select` -/
theorem ef_built_answers (c : Cfg) (b : EFB) (xs : List Nat) (h : Holds b xs) (hu : b.univ < 2^64)
    (hl : b.high.len < 2^63) (hf : xs.length * b.lowLen < 2^64) :
    ∃ e0 e, GenFn.EliasFanoBuilder.build c b = .ok e0 ∧ GenFn.EliasFano.enable_rank c e0 = .ok e ∧
      GenAnswers c e b.univ xs ∧ GenFn.EliasFano.has_rank e = true ∧
      GenFn.EliasFano.len e0 = xs.length ∧ GenFn.EliasFano.universe e0 = b.univ ∧
      (∀ k, GenFn.EliasFano.select c e0 k = .ok xs[k]?) ∧ GenFn.EliasFano.has_rank e0 = false := by
  have ok0 := efok_ofBuilder c b xs h hu hl hf
  have ok1 := efok_enableRank c b xs h hu hl hf
  have hbv : (EF.ofBuilder c b).high.bv = b.high := EFQ.ofBuilder_bv c b h.hinv
  obtain ⟨a1, a2, a3, a4, a5, a6, a7, a8, a9, a10⟩ :=
    EFQ.ranked_queries c b xs h hu (EFQ.high_enableRank c b xs h)
  obtain ⟨b1, b2, _⟩ := EFQ.built_queries c b xs h hu (EFQ.high_ofBuilder c b xs h)
  refine ⟨EF.ofBuilder c b, (EF.ofBuilder c b).enableRank c, ef_build_eq c b hl,
    ef_enable_rank_eq c _ (by rw [hbv]; exact h.hinv) (by rw [hbv]; exact hl),
    ef_gen_answers c _ b.univ xs ok1 ⟨a1, rfl, a2, a3, a4, a5, a6, a7, a8, a9, a10⟩, rfl, b1, rfl, ?_, rfl⟩
  intro k
  rw [ef_select_eq c _ ok0]; exact b2 k

/-! ### sequences built by the generated `new` + push history / `new` + `extend` -/

theorem efb_run_lowLen : ∀ (hist : List Nat) (s s' : EFB) (vs : List Bool), EFB.run s hist = .ok (s', vs) →
    s'.lowLen = s.lowLen := by
  intro hist
  induction hist with
  | nil => intro s s' vs h; cases h; rfl
  | cons v hist ih =>
    intro s s' vs h
    simp only [EFB.run] at h
    cases hp : s.push v with
    | error x => rw [hp] at h; cases h
    | ok r =>
      obtain ⟨s1, a⟩ := r
      rw [hp, EFQ.bind_ok] at h
      simp only [] at h
      cases hr : EFB.run s1 hist with
      | error x => rw [hr] at h; cases h
      | ok rr =>
        obtain ⟨s2, ws⟩ := rr
        rw [hr, EFQ.bind_ok] at h
        cases h
        rw [ih s1 s2 ws hr, (Space.push_params s s1 v a hp).2.2]

theorem efb_extend_fits : ∀ (vs : List Nat) (s s' : EFB) (r : Bool), Fits s → EFB.extend s vs = .ok (s', r) →
    Fits s' ∧ s'.lowLen = s.lowLen := by
  intro vs
  induction vs with
  | nil => intro s s' r hf h; cases h; exact ⟨hf, rfl⟩
  | cons v vs ih =>
    intro s s' r hf h
    simp only [EFB.extend] at h
    cases hp : s.push v with
    | error x => rw [hp] at h; cases h
    | ok q =>
      obtain ⟨s1, a⟩ := q
      rw [hp, EFQ.bind_ok] at h
      have hf1 := (fits_push s hf v s1 a hp).1
      have hl1 := (Space.push_params s s1 v a hp).2.2
      cases a with
      | false =>
        simp only [] at h
        cases h
        exact ⟨hf1, hl1⟩
      | true =>
        simp only [if_true] at h
        obtain ⟨g1, g2⟩ := ih s1 s' r hf1 h
        exact ⟨g1, by rw [g2, hl1]⟩

/-- `low_len` of the builder the model's `new` returns -/
theorem efb_new_lowLen (u m : Nat) (b : EFB) (h : EFB.new u m = some b) : b.lowLen = lowLenOf u m :=
  (Space.new_params u m b h).2.2.2

theorem efb_built_bounds (b : EFB) (xs : List Nat) (u m : Nat) (h : Holds b xs) (hf : Fits b) (hu : b.univ = u)
    (hm : b.numVals = m) (hll : b.lowLen = lowLenOf u m) (hsz : m + (u >>> lowLenOf u m) + 2 < 2^63) :
    b.high.len < 2^63 ∧ xs.length * b.lowLen < 2^64 := by
  refine ⟨by rw [h.hlen, hu, hm, hll]; exact hsz, ?_⟩
  have h1 : xs.length * b.lowLen ≤ b.numVals * b.lowLen :=
    Nat.mul_le_mul_right _ (by rw [← h.pos]; exact h.cap)
  have := hf.lowFits
  omega

/-- **C04 / C16 over the generated definitions, whole pipeline**: for every universe `u < 2^64`, capacity `m ≥ 1`
    with a high-bit vector below `2^63` bits, **every** push history and every build configuration, the generated
    `new`, `push`… (`genRun`), `build`, `enable_rank` succeed with the greedy verdicts, and the generated queries on
    the result return the specification's answers about `accepted u m [] hist` -/
theorem ef_generated_answers (c : Cfg) (u m : Nat) (hist : List Nat) (hm : m ≠ 0) (hu : u < 2^64)
    (hsz : m + (u >>> lowLenOf u m) + 2 < 2^63) :
    ∃ b0 b' e0 e, GenFn.EliasFanoBuilder.new c u m = .ok (RS.Res.ok b0) ∧
      genRun c b0 hist = .ok (b', (verdicts u m [] hist).map resU) ∧
      GenFn.EliasFanoBuilder.build c b' = .ok e0 ∧ GenFn.EliasFano.enable_rank c e0 = .ok e ∧
      GenAnswers c e u (accepted u m [] hist) ∧ GenFn.EliasFano.has_rank e = true ∧
      GenFn.EliasFano.len e0 = (accepted u m [] hist).length ∧ GenFn.EliasFano.universe e0 = u ∧
      (∀ k, GenFn.EliasFano.select c e0 k = .ok (accepted u m [] hist)[k]?) ∧
      GenFn.EliasFano.has_rank e0 = false := by
  obtain ⟨b0, hn, hh, hu0, hm0⟩ := new_holds u m hm hu
  have hf0 : Fits b0 := fits_new u m b0 hu hn (by omega)
  have hgn : GenFn.EliasFanoBuilder.new c u m = .ok (RS.Res.ok b0) := by
    rw [efb_new_eq c u m hu (fun _ => by omega), hn]; rfl
  obtain ⟨b', hr, hh', hub, hmb⟩ := run_spec hist b0 [] hh
  obtain ⟨e1, e2⟩ := genRun_eq c hist b0 hf0
  have hf' : Fits b' := e2 b' _ hr
  have hll : b'.lowLen = lowLenOf u m := by rw [efb_run_lowLen hist b0 b' _ hr, efb_new_lowLen u m b0 hn]
  rw [hu0, hm0] at hr hh'
  rw [hu0] at hub
  rw [hm0] at hmb
  obtain ⟨g1, g2⟩ := efb_built_bounds b' _ u m hh' hf' hub hmb hll hsz
  obtain ⟨e0, e, k1, k2, k3, k4, k5, k6, k7, k8⟩ := ef_built_answers c b' _ hh' (by rw [hub]; exact hu) g1 g2
  rw [hub] at k3 k6
  refine ⟨b0, b', e0, e, hgn, ?_, k1, k2, k3, k4, k5, k6, k7, k8⟩
  rw [e1, hr]; rfl

/-- the same for a sequence built by the generated `new` + `extend(vs)`: the stored list is the longest accepted
    prefix `vs.take n` -/
theorem ef_generated_answers_extend (c : Cfg) (u m : Nat) (vs : List Nat) (hm : m ≠ 0) (hu : u < 2^64)
    (hsz : m + (u >>> lowLenOf u m) + 2 < 2^63) :
    ∃ b0 b' n e0 e, n ≤ vs.length ∧ GenFn.EliasFanoBuilder.new c u m = .ok (RS.Res.ok b0) ∧
      GenFn.EliasFanoBuilder.extend c b0 vs = .ok (b', resU (decide (n = vs.length))) ∧
      GenFn.EliasFanoBuilder.build c b' = .ok e0 ∧ GenFn.EliasFano.enable_rank c e0 = .ok e ∧
      GenAnswers c e u (vs.take n) ∧
      GenFn.EliasFano.len e0 = (vs.take n).length ∧ GenFn.EliasFano.universe e0 = u ∧
      (∀ k, GenFn.EliasFano.select c e0 k = .ok (vs.take n)[k]?) := by
  obtain ⟨b0, hn, hh, hu0, hm0⟩ := new_holds u m hm hu
  have hf0 : Fits b0 := fits_new u m b0 hu hn (by omega)
  have hgn : GenFn.EliasFanoBuilder.new c u m = .ok (RS.Res.ok b0) := by
    rw [efb_new_eq c u m hu (fun _ => by omega), hn]; rfl
  obtain ⟨b', n, hn', he, hh', hub, hmb, _⟩ := C16.extend_spec vs b0 [] hh
  obtain ⟨hf', hl'⟩ := efb_extend_fits vs b0 b' _ hf0 he
  have hll : b'.lowLen = lowLenOf u m := by rw [hl', efb_new_lowLen u m b0 hn]
  rw [hu0] at hub
  rw [hm0] at hmb
  rw [List.nil_append] at hh'
  obtain ⟨g1, g2⟩ := efb_built_bounds b' _ u m hh' hf' hub hmb hll hsz
  obtain ⟨e0, e, k1, k2, k3, k4, k5, k6, k7, k8⟩ := ef_built_answers c b' _ hh' (by rw [hub]; exact hu) g1 g2
  rw [hub] at k3 k6
  refine ⟨b0, b', n, e0, e, hn', hgn, ?_, k1, k2, k3, k5, k6, k7⟩
  rw [efb_extend_eq c b0 hf0 vs, he]; rfl

/-! ### `from_bits` at specification level -/

/-- what the model's `EF.fromBV` returns: `none` (`Err`) for an all-zero (or empty) vector, otherwise `build()` of a
    builder holding the positions of the ones -/
theorem ef_fromBV_ok (c : Cfg) (bv : BV) (h : bv.Inv) (hl : 2 * bv.len + 2 < 2^63) :
    (cnt bv.bitAt bv.len = 0 → EF.fromBV c bv = .ok none) ∧
    (cnt bv.bitAt bv.len ≠ 0 → ∃ b', EF.fromBV c bv = .ok (some (EF.ofBuilder c b')) ∧
      Holds b' (SA.ones bv.bitAt bv.len) ∧ b'.univ = bv.len ∧ b'.high.len < 2^63 ∧
      (SA.ones bv.bitAt bv.len).length * b'.lowLen < 2^64) := by
  unfold EF.fromBV
  simp only [SA.sumPop_all c bv h]
  constructor
  · intro hz
    by_cases hl0 : bv.len = 0
    · rw [if_pos hl0]
    · rw [if_neg hl0, if_pos hz]
  · intro hz
    have hl0 : bv.len ≠ 0 := by
      intro h0; rw [h0] at hz; exact hz rfl
    rw [if_neg hl0, if_neg hz]
    have hcl := cnt_le bv.bitAt bv.len
    have hn : bv.len < 2^64 := by omega
    obtain ⟨b0, hnew, hh0, hu0, hm0⟩ := new_holds bv.len (cnt bv.bitAt bv.len) hz hn
    have hshr : bv.len >>> lowLenOf bv.len (cnt bv.bitAt bv.len) ≤ bv.len := by
      rw [Nat.shiftRight_eq_div_pow]; exact Nat.div_le_self _ _
    have hf0 : Fits b0 := fits_new _ _ b0 hn hnew (by omega)
    rw [hnew]
    simp only []
    obtain ⟨b', hpa, hh', hu', hm'⟩ := SA.pushAll_ok (SA.ones bv.bitAt bv.len) b0 [] hh0
      (by simpa using SA.ones_sorted bv.bitAt bv.len)
      (by rw [hu0]; exact SA.ones_lt bv.bitAt bv.len)
      (by rw [hm0, SA.ones_length]; simp)
    have hpa' : EF.pushAll b0 ((List.range bv.len).filter bv.bitAt) = .ok (some b') := hpa
    obtain ⟨q1, q2, q3⟩ := Space.pushAll_params _ _ _ hpa
    rw [List.nil_append] at hh'
    have hll : b0.lowLen = lowLenOf bv.len (cnt bv.bitAt bv.len) := efb_new_lowLen _ _ b0 hnew
    refine ⟨b', by rw [hpa', EFQ.bind_ok], hh', by rw [hu', hu0], ?_, ?_⟩
    · rw [hh'.hlen, q1, q2, q3, hu0, hm0, hll]; omega
    · have := hf0.lowFits
      rw [SA.ones_length, q3, ← hm0]; exact this

/-- **`from_bits` over the generated definitions, at specification level**: on a bit sequence without a set bit
    `from_bits` is `Err`; otherwise it succeeds, `enable_rank` succeeds, and the generated queries answer about the
    positions of the set bits (`SA.ones`), universe `len` -/
theorem ef_from_bits_answers (c : Cfg) (bits : List Bool) (hl : 2 * bits.length + 2 < 2^63) :
    (cnt (C02.bitOf bits) bits.length = 0 → GenFn.EliasFano.from_bits c bits = .ok RS.Res.err) ∧
    (cnt (C02.bitOf bits) bits.length ≠ 0 → ∃ e0 e, GenFn.EliasFano.from_bits c bits = .ok (RS.Res.ok e0) ∧
      GenFn.EliasFano.enable_rank c e0 = .ok e ∧
      GenAnswers c e bits.length (SA.ones (C02.bitOf bits) bits.length) ∧
      GenFn.EliasFano.len e0 = cnt (C02.bitOf bits) bits.length ∧ GenFn.EliasFano.universe e0 = bits.length ∧
      (∀ k, GenFn.EliasFano.select c e0 k = .ok (sel (C02.bitOf bits) bits.length k))) := by
  have hinv := (BV.fromBits_spec bits).1
  have hlen : (BV.fromBits bits).len = bits.length := BV.fromBits_len bits
  have hbit : (BV.fromBits bits).bitAt = C02.bitOf bits := funext (fun j => BV.fromBits_bitAt bits j)
  obtain ⟨m1, m2⟩ := ef_fromBV_ok c (BV.fromBits bits) hinv (by rw [hlen]; exact hl)
  rw [hlen, hbit] at m1 m2
  rw [ef_from_bits_eq c bits hl]
  constructor
  · intro hz; rw [m1 hz]; rfl
  · intro hz
    obtain ⟨b', hfb, hh', hu', g1, g2⟩ := m2 hz
    obtain ⟨e0, e, k1, k2, k3, k4, k5, k6, k7, k8⟩ :=
      ef_built_answers c b' _ hh' (by rw [hu']; omega) g1 g2
    rw [ef_build_eq c b' g1] at k1
    cases k1
    rw [hu'] at k3 k6
    refine ⟨_, e, by rw [hfb]; rfl, k2, k3, by rw [k5, SA.ones_length], k6, ?_⟩
    intro k; rw [k7 k, SA.ones_getElem?]

/-! ## Non-vacuity: the generated pipeline evaluated by the kernel (checked build, `loop` fuel of `2^64` included) -/

/-- `new(20, 4)`, `extend([1, 3, 3, 17])`, `build()`, `enable_rank()` — all generated code -/
def efDemo (c : Cfg) : R EF :=
  (GenFn.EliasFanoBuilder.new c 20 4).bind fun r => (RS.unwrapRes r).bind fun b0 =>
  (GenFn.EliasFanoBuilder.extend c b0 [1, 3, 3, 17]).bind fun r1 =>
  (GenFn.EliasFanoBuilder.build c r1.1).bind fun e0 => GenFn.EliasFano.enable_rank c e0

example : ((efDemo ⟨true, false⟩).bind fun e => GenFn.EliasFano.select ⟨true, false⟩ e 3).toOption = some (some 17) := by
  decide +kernel
example : ((efDemo ⟨true, false⟩).bind fun e => GenFn.EliasFano.rank ⟨true, false⟩ e 4).toOption = some (some 3) := by
  decide +kernel
example : ((efDemo ⟨false, true⟩).bind fun e => GenFn.EliasFano.predecessor ⟨false, true⟩ e 16).toOption = some (some 3) := by
  decide +kernel
example : ((efDemo ⟨true, false⟩).bind fun e => GenFn.EliasFano.delta ⟨true, false⟩ e 3).toOption = some (some 14) := by
  decide +kernel
example : ((efDemo ⟨true, false⟩).bind fun e => GenFn.EliasFano.binsearch ⟨true, false⟩ e 17).toOption = some (some 3) := by
  decide +kernel
example : ((efDemo ⟨true, false⟩).bind fun e => (GenFn.EliasFano.iter ⟨true, false⟩ e 1).bind fun it =>
    (efGenItRun ⟨true, false⟩ 4 it).bind fun r => .ok r.2).toOption = some [some 3, some 3, some 17, none] := by
  decide +kernel
example : ((GenFn.EliasFano.from_bits ⟨true, false⟩ [false, true, false, true, true]).bind fun r =>
    (RS.unwrapRes r).bind fun e => GenFn.EliasFano.select ⟨true, false⟩ e 2).toOption = some (some 4) := by
  decide +kernel

end Sucds.GenEq
