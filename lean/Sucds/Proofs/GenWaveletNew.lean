import Sucds.Proofs.GenWaveletQueries
import Sucds.Proofs.GenCompactVector
import Sucds.Proofs.GenIterators
import Sucds.Proofs.GenDacsWidths
/-! # `WaveletMatrix::new` (and its helper `filter`) generated from `src/char_sequences/wavelet_matrix.rs`
    agree with `WM.new`, generically in the backing (`LOps`, see `GenWaveletOps.lean`) -/
set_option linter.unusedSimpArgs false
set_option linter.unusedVariables false
namespace Sucds.GenEq
open Sucds Sucds.Spec

namespace GW

/-- `WaveletMatrix::filter` (the same text for every backing) -/
def filter (c : Cfg) (seq : Sucds.CV) (shift : Nat) (next_zeros : Sucds.CV) (next_ones : Sucds.CV) (bv : Sucds.BV) : R (Sucds.CV × Sucds.CV × Sucds.BV × Unit) :=
  (RS.loopB ((GenFn.CompactVector.iter seq), bv, next_ones, next_zeros)
    (fun st =>
      let __it0 := st.1
      let bv1 := st.2.1
      let next_ones1 := st.2.2.1
      let next_zeros1 := st.2.2.2
      ((GenFn.compact_vector_Iter.next c __it0)).bind fun r =>
      let __it01 := r.1
      (match r.2 with
        | some val =>
          (cshr c val shift).bind fun t =>
          let bit := ((t &&& 1) == 1)
          ((GenFn.BitVector.push_bit c bv1 bit)).bind fun r1 =>
          let bv2 := r1.1
          (if bit = true then
            ((GenFn.CompactVector.push_int c next_ones1 val)).bind fun r2 =>
            let next_ones2 := r2.1
            (RS.unwrapRes r2.2).bind fun _ =>
            .ok (next_ones2, next_zeros1)
          else
            ((GenFn.CompactVector.push_int c next_zeros1 val)).bind fun r3 =>
            let next_zeros2 := r3.1
            (RS.unwrapRes r3.2).bind fun _ =>
            .ok (next_ones1, next_zeros2) : R _).bind fun j =>
          let next_ones3 := j.1
          let next_zeros3 := j.2
          .ok (.next (__it01, bv2, next_ones3, next_zeros3))
        | _ =>
          .ok (.brk (__it01, bv1, next_ones1, next_zeros1))))).bind fun ex =>
  match ex with
    | .ret rv => .ok rv
    | .done st1 =>
      let __it02 := st1.1
      let bv3 := st1.2.1
      let next_ones4 := st1.2.2.1
      let next_zeros4 := st1.2.2.2
      .ok (next_zeros4, next_ones4, bv3, ())

variable {β ω : Type} (o : LOps β) (mk : Array β → Nat → ω)

/-- the body of the `for depth in 0..alph_width` loop of `new` -/
def newBody (c : Cfg) (alph_width : Nat) (depth : Nat) (st2 : CV × CV × Array β) :
    R (RS.Step (CV × CV × Array β) (RS.Res ω)) :=
  let zeros := st2.1
  let ones1 := st2.2.1
  let layers1 := st2.2.2
  (RS.unwrapRes (GenFn.CompactVector.new alph_width)).bind fun next_zeros =>
  (RS.unwrapRes (GenFn.CompactVector.new alph_width)).bind fun next_ones =>
  let bv := GenFn.BitVector.new
  (csub c alph_width depth).bind fun t1 =>
  (csub c t1 1).bind fun t2 =>
  (filter c zeros t2 next_zeros next_ones bv).bind fun r1 =>
  let next_zeros1 := r1.1
  let next_ones1 := r1.2.1
  let bv1 := r1.2.2.1
  (csub c alph_width depth).bind fun t3 =>
  (csub c t3 1).bind fun t4 =>
  (filter c ones1 t4 next_zeros1 next_ones1 bv1).bind fun r2 =>
  let next_zeros2 := r2.1
  let next_ones2 := r2.2.1
  let bv2 := r2.2.2.1
  (o.build c (Sucds.BV.toList bv2) true true true).bind fun t5 =>
  (match t5 with
    | .err => .ok (.ret RS.Res.err)
    | .ok t6 =>
      let layers2 := layers1.push t6
      .ok (.next (next_zeros2, next_ones2, layers2)))

/-- the `max` loop of `new` (`seq.iter().max()`) -/
def maxBody (c : Cfg) (st : GenFn.compact_vector_Iter × Option Nat) :
    R (RS.Step (GenFn.compact_vector_Iter × Option Nat) (RS.Res ω)) :=
  let it__1 := st.1
  let m__ := st.2
  ((GenFn.compact_vector_Iter.next c it__1)).bind fun r =>
  let it__2 := r.1
  (match r.2 with
    | some x__ =>
      (match m__ with
        | none =>
          .ok (some x__)
        | some y__ =>
          .ok (some (if x__ ≥ y__ then x__ else y__)) : R _).bind fun j =>
      .ok (.next (it__2, j))
    | _ =>
      .ok (.brk (it__2, m__)))

/-- `WaveletMatrix::new` -/
def new (c : Cfg) (seq : Sucds.CV) : R (RS.Res ω) :=
  if (GenFn.CompactVector.is_empty seq) = true then
    .ok RS.Res.err
  else
    let it__ := (GenFn.CompactVector.iter seq)
    (RS.loopB (it__, none) (maxBody (ω := ω) c)).bind fun ex =>
    match ex with
      | .ret rv => .ok rv
      | .done st1 =>
        let it__3 := st1.1
        let m__1 := st1.2
        (RS.unwrap m__1).bind fun t =>
        (cadd c t 1).bind fun alph_size =>
        (GenFn.utils.needed_bits c alph_size).bind fun alph_width =>
        (RS.unwrapRes (GenFn.CompactVector.new alph_width)).bind fun ones =>
        let layers : Array β := #[]
        (RS.forRangeB 0 alph_width (seq, ones, layers) (newBody (ω := ω) o c alph_width)).bind fun ex1 =>
        match ex1 with
          | .ret rv1 => .ok rv1
          | .done st3 =>
            let zeros1 := st3.1
            let ones2 := st3.2.1
            let layers3 := st3.2.2
            .ok (RS.Res.ok (mk layers3 alph_size))
end GW

/-! ## loops over a `compact_vector::Iter` -/

theorem cv_next_lt (c : Cfg) (cv : CV) (xs : List Nat) (h : CV.Rep cv xs) (hsz : cv.len * cv.width < 2^64)
    (hl : xs.length < 2^64) (pos : Nat) (hp : pos < xs.length) :
    GenFn.compact_vector_Iter.next c ⟨cv, pos⟩ = .ok (⟨cv, pos + 1⟩, some xs[pos]) := by
  have hlen := h.len
  rw [cv_iter_next_eq c ⟨cv, pos⟩ xs h hsz (by simp only []; omega)]
  unfold IndexIter.next ciAbs
  simp only []
  rw [if_pos (by omega), CV.getInt_ok cv xs h pos, List.getElem?_eq_getElem hp]
  rfl

theorem cv_next_end (c : Cfg) (cv : CV) (xs : List Nat) (h : CV.Rep cv xs) (hsz : cv.len * cv.width < 2^64)
    (hl : xs.length < 2^64) :
    GenFn.compact_vector_Iter.next c ⟨cv, xs.length⟩ = .ok (⟨cv, xs.length⟩, none) := by
  have hlen := h.len
  rw [cv_iter_next_eq c ⟨cv, xs.length⟩ xs h hsz (by simp only []; omega)]
  unfold IndexIter.next ciAbs
  simp only []
  rw [if_neg (by omega)]

/-- a `while let Some(x) = it.next()` loop over a compact vector runs its body once per stored value -/
theorem cv_loop {σ ρ : Type} (cv : CV) (xs : List Nat)
    (body : GenFn.compact_vector_Iter × σ → R (RS.Step (GenFn.compact_vector_Iter × σ) ρ))
    (step : Nat → σ → R σ)
    (hsome : ∀ (pos : Nat) (s : σ) (hp : pos < xs.length),
      body (⟨cv, pos⟩, s) = (step xs[pos] s).bind fun s' => .ok (.next (⟨cv, pos + 1⟩, s')))
    (hnone : ∀ s, body (⟨cv, xs.length⟩, s) = .ok (.brk (⟨cv, xs.length⟩, s))) :
    ∀ (n pos : Nat) (s : σ) (fuel : Nat), pos + n = xs.length → n < fuel →
      RS.loopFuel body fuel (⟨cv, pos⟩, s) =
        (RS.forList step (xs.drop pos) s).bind fun s' => .ok (.done (⟨cv, xs.length⟩, s')) := by
  intro n
  induction n with
  | zero =>
    intro pos s fuel hp hf
    obtain ⟨f, rfl⟩ : ∃ f, fuel = f + 1 := ⟨fuel - 1, by omega⟩
    have : pos = xs.length := by omega
    subst this
    rw [loopFuel_succ, hnone, bok, stepK_brk, List.drop_length]
    rfl
  | succ n ih =>
    intro pos s fuel hp hf
    obtain ⟨f, rfl⟩ : ∃ f, fuel = f + 1 := ⟨fuel - 1, by omega⟩
    have hlt : pos < xs.length := by omega
    rw [loopFuel_succ, hsome pos s hlt, List.drop_eq_getElem_cons hlt, forList_cons]
    cases step xs[pos] s with
    | error e => rfl
    | ok s' =>
      rw [bok, bok, bok, stepK_next]
      exact ih (pos + 1) s' f (by omega) (by omega)

theorem cv_loopB {σ ρ : Type} (cv : CV) (xs : List Nat) (hl : xs.length < 2^64)
    (body : GenFn.compact_vector_Iter × σ → R (RS.Step (GenFn.compact_vector_Iter × σ) ρ))
    (step : Nat → σ → R σ)
    (hsome : ∀ (pos : Nat) (s : σ) (hp : pos < xs.length),
      body (⟨cv, pos⟩, s) = (step xs[pos] s).bind fun s' => .ok (.next (⟨cv, pos + 1⟩, s')))
    (hnone : ∀ s, body (⟨cv, xs.length⟩, s) = .ok (.brk (⟨cv, xs.length⟩, s))) (s : σ) :
    RS.loopB (GenFn.CompactVector.iter cv, s) body =
      (RS.forList step xs s).bind fun s' => .ok (.done (⟨cv, xs.length⟩, s')) := by
  rw [loopB_eq, cv_iter_eq]
  have := cv_loop cv xs body step hsome hnone xs.length 0 s RS.FUEL (by omega) (by rw [FUEL_eq]; exact hl)
  rw [List.drop_zero] at this
  exact this

/-! ## the `max` loop -/

def maxStep (x : Nat) (m : Option Nat) : R (Option Nat) :=
  match m with
  | none => .ok (some x)
  | some y => .ok (some (if x ≥ y then x else y))

theorem maxFold_some : ∀ (xs : List Nat) (y : Nat), RS.forList maxStep xs (some y) = .ok (some (xs.foldl max y))
  | [], y => rfl
  | x :: xs, y => by
    rw [forList_cons]
    show (Except.ok (some (if x ≥ y then x else y)) : R _).bind _ = _
    rw [bok, maxFold_some xs, List.foldl_cons]
    rfl

theorem maxFold (xs : List Nat) (hne : xs ≠ []) : RS.forList maxStep xs none = .ok (some (xs.foldl max 0)) := by
  cases xs with
  | nil => exact absurd rfl hne
  | cons a t =>
    rw [forList_cons]
    show (Except.ok (some a) : R _).bind _ = _
    rw [bok, maxFold_some, List.foldl_cons, Nat.zero_max]

theorem max_loop_eq {ω : Type} (c : Cfg) (cv : CV) (xs : List Nat) (h : CV.Rep cv xs) (hsz : cv.len * cv.width < 2^64)
    (hl : xs.length < 2^64) (hne : xs ≠ []) :
    RS.loopB (GenFn.CompactVector.iter cv, none) (GW.maxBody (ω := ω) c) =
      .ok (.done (⟨cv, xs.length⟩, some (xs.foldl max 0))) := by
  rw [cv_loopB cv xs hl (GW.maxBody (ω := ω) c) maxStep ?_ ?_ none, maxFold xs hne, bok]
  · intro pos m hp
    rw [GW.maxBody]
    simp only []
    rw [cv_next_lt c cv xs h hsz hl pos hp, bok]
    cases m <;> rfl
  · intro m
    rw [GW.maxBody]
    simp only []
    rw [cv_next_end c cv xs h hsz hl, bok]

/-! ## `filter` -/

/-- the bit that `filter` extracts -/
def bitf (shift : Nat) (v : Nat) : Bool := ((v >>> shift) &&& 1) == 1

/-- state of `filter`: the bit vector holds `bits`, the two compact vectors of width `W` hold `os`, `zs` -/
structure FS (W : Nat) (bv : BV) (no nz : CV) (bits : List Bool) (os zs : List Nat) : Prop where
  inv : bv.Inv
  bits : bv.toList = bits
  rno : CV.Rep no os
  rnz : CV.Rep nz zs
  wo : no.width = W
  wz : nz.width = W

/-- one iteration of `filter` on the value `val` -/
def filterStep (c : Cfg) (shift : Nat) (val : Nat) (st : BV × CV × CV) : R (BV × CV × CV) :=
  (cshr c val shift).bind fun t =>
  let bit := ((t &&& 1) == 1)
  ((GenFn.BitVector.push_bit c st.1 bit)).bind fun r1 =>
  (if bit = true then
    ((GenFn.CompactVector.push_int c st.2.1 val)).bind fun r2 =>
    (RS.unwrapRes r2.2).bind fun _ =>
    .ok (r2.1, st.2.2)
  else
    ((GenFn.CompactVector.push_int c st.2.2 val)).bind fun r3 =>
    (RS.unwrapRes r3.2).bind fun _ =>
    .ok (st.2.1, r3.1) : R _).bind fun j =>
  .ok (r1.1, j.1, j.2)

theorem filterStep_ok (c : Cfg) (shift W : Nat) (hsh : shift < 64) (hW : 1 ≤ W) (val : Nat) (hv : val < 2^W) (hv64 : val < 2^64)
    (bv : BV) (no nz : CV) (bits : List Bool) (os zs : List Nat) (h : FS W bv no nz bits os zs)
    (hb : bits.length + 1 < 2^64) (ho : (os.length + 1) * W < 2^64) (hz : (zs.length + 1) * W < 2^64) :
    ∃ bv' no' nz', filterStep c shift val (bv, no, nz) = .ok (bv', no', nz') ∧
      FS W bv' no' nz' (bits ++ [bitf shift val])
        (os ++ (if bitf shift val then [val] else [])) (zs ++ (if bitf shift val then [] else [val])) := by
  have hlen : bv.len = bits.length := by rw [← h.bits, BV.toList_length]
  unfold filterStep
  simp only []
  rw [cshr_ok c hsh, bok, push_bit_eq c bv h.inv _ (by omega), bok]
  have hinv' := BV.pushBit_inv bv h.inv (bitf shift val)
  have hbits' : (bv.pushBit (bitf shift val)).toList = bits ++ [bitf shift val] := by
    rw [BV.pushBit_toList bv h.inv, h.bits]
  show ∃ bv' no' nz', ((if bitf shift val = true then _ else _ : R (CV × CV)).bind _) = _ ∧ _
  cases hbit : bitf shift val
  · rw [if_neg (by simp)]
    obtain ⟨v', hp, hr, hw⟩ := cv_push_int_ok c nz zs h.rnz (by rw [h.wz]; exact hW)
      (by rw [h.rnz.len, h.wz, ← Nat.succ_mul]; exact hz) val (by rw [h.wz]; exact hv) hv64
    rw [hp, bok]
    refine ⟨_, _, _, rfl, ⟨hinv', ?_, ?_, ?_, h.wo, ?_⟩⟩
    · rw [← hbit]; exact hbits'
    · simpa using h.rno
    · simpa using hr
    · rw [← h.wz]; exact hw
  · rw [if_pos rfl]
    obtain ⟨v', hp, hr, hw⟩ := cv_push_int_ok c no os h.rno (by rw [h.wo]; exact hW)
      (by rw [h.rno.len, h.wo, ← Nat.succ_mul]; exact ho) val (by rw [h.wo]; exact hv) hv64
    rw [hp, bok]
    refine ⟨_, _, _, rfl, ⟨hinv', ?_, ?_, ?_, ?_, h.wz⟩⟩
    · rw [← hbit]; exact hbits'
    · simpa using hr
    · simpa using h.rnz
    · rw [← h.wo]; exact hw

theorem filterFold_ok (c : Cfg) (shift W : Nat) (hsh : shift < 64) (hW : 1 ≤ W) :
    ∀ (xs : List Nat), (∀ x ∈ xs, x < 2^W ∧ x < 2^64) →
    ∀ (bv : BV) (no nz : CV) (bits : List Bool) (os zs : List Nat), FS W bv no nz bits os zs →
      bits.length + xs.length < 2^64 → (os.length + zs.length + xs.length) * W < 2^64 →
      ∃ bv' no' nz', RS.forList (filterStep c shift) xs (bv, no, nz) = .ok (bv', no', nz') ∧
        FS W bv' no' nz' (bits ++ xs.map (bitf shift)) (os ++ xs.filter (bitf shift))
          (zs ++ xs.filter (fun v => !bitf shift v))
  | [], _, bv, no, nz, bits, os, zs, h, _, _ => ⟨bv, no, nz, rfl, by simpa using h⟩
  | x :: xs, hx, bv, no, nz, bits, os, zs, h, hb, hsz => by
    simp only [List.length_cons] at hb hsz
    have hx0 := hx x List.mem_cons_self
    have hle1 : (os.length + 1) * W ≤ (os.length + zs.length + (xs.length + 1)) * W :=
      Nat.mul_le_mul_right _ (by omega)
    have hle2 : (zs.length + 1) * W ≤ (os.length + zs.length + (xs.length + 1)) * W :=
      Nat.mul_le_mul_right _ (by omega)
    obtain ⟨bv1, no1, nz1, hs1, h1⟩ := filterStep_ok c shift W hsh hW x hx0.1 hx0.2 bv no nz bits os zs h
      (by omega) (by omega) (by omega)
    have hlen : (os ++ (if bitf shift x then [x] else [])).length +
        (zs ++ (if bitf shift x then [] else [x])).length = os.length + zs.length + 1 := by
      cases bitf shift x <;> simp <;> omega
    obtain ⟨bv2, no2, nz2, hs2, h2⟩ := filterFold_ok c shift W hsh hW xs (fun y hy => hx y (List.mem_cons_of_mem _ hy))
      bv1 no1 nz1 _ _ _ h1 (by simp; omega) (by rw [hlen]; rw [show os.length + zs.length + 1 + xs.length = os.length + zs.length + (xs.length + 1) by omega]; exact hsz)
    refine ⟨bv2, no2, nz2, ?_, ?_⟩
    · rw [forList_cons, hs1, bok]; exact hs2
    · cases hbx : bitf shift x <;> simp [hbx] at h2 ⊢ <;> exact h2

/-- **`filter`**: the values of `seq` are appended to `next_zeros`/`next_ones` according to bit `shift`, and that
    bit is appended to `bv` -/
theorem gw_filter_ok (c : Cfg) (seq : CV) (xs : List Nat) (hseq : CV.Rep seq xs) (hsz : seq.len * seq.width < 2^64)
    (hl : xs.length < 2^64) (shift W : Nat) (hsh : shift < 64) (hW : 1 ≤ W)
    (hx : ∀ x ∈ xs, x < 2^W ∧ x < 2^64)
    (bv : BV) (no nz : CV) (bits : List Bool) (os zs : List Nat) (h : FS W bv no nz bits os zs)
    (hb : bits.length + xs.length < 2^64) (hs : (os.length + zs.length + xs.length) * W < 2^64) :
    ∃ nz' no' bv', GW.filter c seq shift nz no bv = .ok (nz', no', bv', ()) ∧
      FS W bv' no' nz' (bits ++ xs.map (bitf shift)) (os ++ xs.filter (bitf shift))
        (zs ++ xs.filter (fun v => !bitf shift v)) := by
  obtain ⟨bv', no', nz', hf, hfs⟩ := filterFold_ok c shift W hsh hW xs hx bv no nz bits os zs h hb hs
  refine ⟨nz', no', bv', ?_, hfs⟩
  unfold GW.filter
  rw [cv_loopB seq xs hl _ (filterStep c shift) ?_ ?_ (bv, no, nz), hf, bok, bok]
  · intro pos s hp
    simp only []
    rw [cv_next_lt c seq xs hseq hsz hl pos hp, bok]
    simp only [filterStep]
    cases cshr c xs[pos] shift with
    | error e => rfl
    | ok t =>
      simp only [bok]
      cases GenFn.BitVector.push_bit c s.1 ((t &&& 1) == 1) with
      | error e => rfl
      | ok r1 =>
        simp only [bok]
        cases ((t &&& 1) == 1)
        · simp only [Bool.false_eq_true, if_false]
          cases GenFn.CompactVector.push_int c s.2.2 xs[pos] with
          | error e => rfl
          | ok r3 =>
            simp only [bok]
            cases RS.unwrapRes r3.2 <;> rfl
        · simp only [if_true]
          cases GenFn.CompactVector.push_int c s.2.1 xs[pos] with
          | error e => rfl
          | ok r2 =>
            simp only [bok]
            cases RS.unwrapRes r2.2 <;> rfl
  · intro s
    simp only []
    rw [cv_next_end c seq xs hseq hsz hl, bok]

/-! ## the per-depth loop of `new` -/

/-- what `new` needs from the backing: `B::build_from_bits(bits, true, true, true)` on `n` bits succeeds, is the
    model's `Lay.build`, and the layer satisfies `LOK` -/
def BuildOK {β : Type} (o : LOps β) (c : Cfg) (n : Nat) : Prop :=
  ∀ bits : List Bool, bits.length = n → ∃ x, o.build c bits true true true = .ok (.ok x) ∧
    Lay.build c o.kind (BV.fromBits bits) = .ok (o.toLay x) ∧ LOK o c x

theorem wv_cv_new_ok (W : Nat) (h1 : 1 ≤ W) (h2 : W ≤ 64) :
    GenFn.CompactVector.new W = RS.Res.ok (⟨BV.new, 0, W⟩ : CV) := by
  rw [cv_new_eq]; unfold CV.new; rw [if_pos ⟨h1, h2⟩]

theorem wv_new_rep (W : Nat) (h1 : 1 ≤ W) (h2 : W ≤ 64) : CV.Rep (⟨BV.new, 0, W⟩ : CV) [] := by
  obtain ⟨v, hn, hr, _⟩ := CV.new_rep W h1 h2
  unfold CV.new at hn
  rw [if_pos ⟨h1, h2⟩] at hn
  injection hn with hn
  subst hn; exact hr

theorem filter_len_add (f : Nat → Bool) : ∀ (l : List Nat),
    (l.filter (fun v => !f v)).length + (l.filter f).length = l.length
  | [] => rfl
  | x :: l => by
    have := filter_len_add f l
    cases hx : f x <;> simp [List.filter_cons, hx] <;> omega

section
variable {β ω : Type} (o : LOps β) (c : Cfg)

theorem newBody_ok (W n depth : Nat) (hb : BuildOK o c n) (hW1 : 1 ≤ W) (hW64 : W ≤ 64) (hd : depth < W)
    (zeros ones : CV) (zs os : List Nat) (hz : CV.Rep zeros zs) (ho : CV.Rep ones os)
    (hzs : zeros.len * zeros.width < 2^64) (hos : ones.len * ones.width < 2^64)
    (hn : zs.length + os.length = n) (hnW : n * W < 2^64) (hfit : ∀ x ∈ zs ++ os, x < 2^W ∧ x < 2^64)
    (layers : Array β) :
    ∃ x nz no, GW.newBody (ω := ω) o c W depth (zeros, ones, layers) = .ok (.next (nz, no, layers.push x)) ∧
      Lay.build c o.kind (BV.fromBits ((zs ++ os).map (bitf (W - depth - 1)))) = .ok (o.toLay x) ∧ LOK o c x ∧
      CV.Rep nz ((zs ++ os).filter (fun v => !bitf (W - depth - 1) v)) ∧
      CV.Rep no ((zs ++ os).filter (bitf (W - depth - 1))) ∧ nz.width = W ∧ no.width = W := by
  have hn64 : n < 2^64 := by
    have := Nat.mul_le_mul_left n hW1; omega
  have hzl : zs.length * W ≤ n * W := Nat.mul_le_mul_right _ (by omega)
  have hsh : W - depth - 1 < 64 := by omega
  rw [GW.newBody]
  simp only []
  rw [wv_cv_new_ok W hW1 hW64]
  simp only [unwrapRes_ok, bok, new_eq]
  rw [csub_ok c (Nat.le_of_lt hd), bok, csub_ok c (by omega), bok]
  have h0 : FS W BV.new ⟨BV.new, 0, W⟩ ⟨BV.new, 0, W⟩ [] [] [] :=
    ⟨BV.new_inv, BV.new_toList, wv_new_rep W hW1 hW64, wv_new_rep W hW1 hW64, rfl, rfl⟩
  obtain ⟨nz1, no1, bv1, hf1, h1⟩ := gw_filter_ok c zeros zs hz hzs (by omega) (W - depth - 1) W hsh hW1
    (fun x hx => hfit x (List.mem_append_left _ hx)) BV.new ⟨BV.new, 0, W⟩ ⟨BV.new, 0, W⟩ [] [] [] h0
    (by simp; omega) (by simp; omega)
  rw [hf1, bok]
  simp only [bok]
  rw [csub_ok c (by omega : 1 ≤ W - depth), bok]
  have hlen1 := filter_len_add (bitf (W - depth - 1)) zs
  obtain ⟨nz2, no2, bv2, hf2, h2⟩ := gw_filter_ok c ones os ho hos (by omega) (W - depth - 1) W hsh hW1
    (fun x hx => hfit x (List.mem_append_right _ hx)) bv1 no1 nz1 _ _ _ h1
    (by simp; omega)
    (by simp only [List.nil_append]
        rw [show (zs.filter (bitf (W - depth - 1))).length + (zs.filter fun v => !bitf (W - depth - 1) v).length + os.length = n by omega]
        exact hnW)
  rw [hf2, bok]
  simp only []
  have e1 : ([] ++ zs.map (bitf (W - depth - 1)) ++ os.map (bitf (W - depth - 1))) = (zs ++ os).map (bitf (W - depth - 1)) := by simp
  have e2 : ([] ++ zs.filter (bitf (W - depth - 1)) ++ os.filter (bitf (W - depth - 1))) = (zs ++ os).filter (bitf (W - depth - 1)) := by simp
  have e3 : ([] ++ (zs.filter fun v => !bitf (W - depth - 1) v) ++ (os.filter fun v => !bitf (W - depth - 1) v)) =
      (zs ++ os).filter (fun v => !bitf (W - depth - 1) v) := by simp
  rw [h2.bits, e1]
  obtain ⟨x, hx1, hx2, hx3⟩ := hb ((zs ++ os).map (bitf (W - depth - 1))) (by simp; omega)
  rw [hx1, bok]
  refine ⟨x, nz2, no2, rfl, hx2, hx3, ?_, ?_, h2.wz, h2.wo⟩
  · rw [← e3]; exact h2.rnz
  · rw [← e2]; exact h2.rno

theorem wv_forCountB_succ {σ ρ : Type} (body : Nat → σ → R (RS.Step σ ρ)) (i n : Nat) (s : σ) :
    RS.forCountB body i (n + 1) s = (body i s).bind fun r => match r with
      | .next s' => RS.forCountB body (i + 1) n s'
      | .brk s' => .ok (.done s')
      | .ret v => .ok (.ret v) := rfl

theorem newLoop_ok (W n : Nat) (hb : BuildOK o c n) (hW1 : 1 ≤ W) (hW64 : W ≤ 64) (hnW : n * W < 2^64) :
    ∀ (fuel depth : Nat) (zeros ones : CV) (zs os : List Nat) (layers : Array β), depth + fuel = W →
      CV.Rep zeros zs → CV.Rep ones os → zeros.len * zeros.width < 2^64 → ones.len * ones.width < 2^64 →
      zs.length + os.length = n → (∀ x ∈ zs ++ os, x < 2^W ∧ x < 2^64) → (∀ x ∈ layers.toList, LOK o c x) →
      ∃ ls z o', RS.forCountB (GW.newBody (ω := ω) o c W) depth fuel (zeros, ones, layers) = .ok (.done (z, o', ls)) ∧
        WM.buildLayers c o.kind W depth zs os (layers.map o.toLay) fuel = .ok (ls.map o.toLay) ∧
        (∀ x ∈ ls.toList, LOK o c x) ∧ ls.size = layers.size + fuel
  | 0, depth, zeros, ones, zs, os, layers, _, _, _, _, _, _, _, hl => ⟨layers, zeros, ones, rfl, by rw [WM.buildLayers], hl, rfl⟩
  | fuel + 1, depth, zeros, ones, zs, os, layers, hd, hz, ho, hzs, hos, hn, hfit, hl => by
    have hlt : depth < W := by omega
    obtain ⟨x, nz, no, hbody, hbuild, hx, hnz, hno, wz, wo⟩ :=
      newBody_ok (ω := ω) o c W n depth hb hW1 hW64 hlt zeros ones zs os hz ho hzs hos hn hnW hfit layers
    have hlen := filter_len_add (bitf (W - depth - 1)) (zs ++ os)
    rw [List.length_append] at hlen
    have hzl : ((zs ++ os).filter fun v => !bitf (W - depth - 1) v).length * W ≤ n * W :=
      Nat.mul_le_mul_right _ (by omega)
    have hol : ((zs ++ os).filter (bitf (W - depth - 1))).length * W ≤ n * W :=
      Nat.mul_le_mul_right _ (by omega)
    obtain ⟨ls, z, o', hloop, hmodel, hls, hsize⟩ := newLoop_ok W n hb hW1 hW64 hnW fuel (depth + 1) nz no _ _ (layers.push x)
      (by omega) hnz hno (by rw [hnz.len, wz]; omega) (by rw [hno.len, wo]; omega) (by omega)
      (by
        intro y hy
        rcases List.mem_append.mp hy with hy | hy
        · exact hfit y (List.mem_filter.mp hy).1
        · exact hfit y (List.mem_filter.mp hy).1)
      (by
        intro y hy
        rw [Array.toList_push] at hy
        rcases List.mem_append.mp hy with hy | hy
        · exact hl y hy
        · rw [List.mem_singleton] at hy; subst hy; exact hx)
    refine ⟨ls, z, o', ?_, ?_, hls, by rw [hsize, Array.size_push]; omega⟩
    · rw [wv_forCountB_succ, hbody, bok]; exact hloop
    · rw [WM.buildLayers, if_pos hlt]
      simp only []
      rw [Array.map_push] at hmodel
      have : Lay.build c o.kind (BV.fromBits ((zs ++ os).map fun v => ((v >>> (W - depth - 1)) &&& 1) == 1)) = .ok (o.toLay x) := hbuild
      rw [this, bok]
      exact hmodel

/-- **`WaveletMatrix::new`** on a non-empty sequence: the generated constructor succeeds exactly like the model's,
    the layers are the model's layers, and the result satisfies `WOK` -/
theorem gw_new_ok (mk : Array β → Nat → ω) (cv : CV) (s : List Nat) (h : CV.Rep cv s) (hne : s ≠ [])
    (hmax : s.foldl max 0 + 1 < 2^64) (hsz : cv.len * cv.width < 2^64)
    (hnW : s.length * SpecX.bitlen (s.foldl max 0 + 1) < 2^64) (hb : BuildOK o c s.length) :
    ∃ ls wm, WM.new c o.kind s = .ok (some wm) ∧ GW.new o mk c cv = .ok (.ok (mk ls wm.alphSize)) ∧
      ls.map o.toLay = wm.layers ∧ WOK o c ls := by
  have hW1 := Wav.bitlen_pos (s.foldl max 0 + 1)
  have hW64 := Wav.bitlen_le _ hmax
  have hn64 : s.length < 2^64 := by
    have := Nat.mul_le_mul_left s.length hW1; omega
  have hemp : s.isEmpty = false := by cases s <;> simp_all
  have hlen0 : cv.len ≠ 0 := by
    rw [h.len]; intro h0; exact hne (List.eq_nil_of_length_eq_zero h0)
  have hfit : ∀ x ∈ s ++ [], x < 2 ^ SpecX.bitlen (s.foldl max 0 + 1) ∧ x < 2^64 := by
    intro x hx
    rw [List.append_nil] at hx
    have := (Wav.foldl_max_ge s 0).2 x hx
    have := Wav.lt_two_pow_bitlen (s.foldl max 0 + 1)
    omega
  obtain ⟨ls, z, o', hloop, hmodel, hls, hsize⟩ := newLoop_ok (ω := ω) o c (SpecX.bitlen (s.foldl max 0 + 1)) s.length hb hW1 hW64 hnW
    (SpecX.bitlen (s.foldl max 0 + 1)) 0 cv ⟨BV.new, 0, SpecX.bitlen (s.foldl max 0 + 1)⟩ s [] #[] (by omega) h
    (wv_new_rep _ hW1 hW64) hsz (by simp) (by simp) hfit (by simp)
  refine ⟨ls, ⟨ls.map o.toLay, s.foldl max 0 + 1⟩, ?_, ?_, rfl, ⟨hls, by rw [hsize]; simpa using hW64⟩⟩
  · unfold WM.new
    simp only [hemp, Bool.false_eq_true, if_false]
    rw [cadd_ok c hmax, bok]
    simp only [Wav.neededBits_eq c _ hmax]
    have : (#[] : Array β).map o.toLay = #[] := by simp
    rw [this] at hmodel
    rw [hmodel, bok]
  · unfold GW.new
    rw [cv_is_empty_eq, if_neg (by simpa using hlen0)]
    simp only []
    rw [max_loop_eq c cv s h hsz hn64 hne, bok]
    simp only [wv_unwrap_some, bok]
    rw [cadd_ok c hmax, bok, Cow.needed_bits_eq c _ hmax, bok, Wav.neededBits_eq c _ hmax, wv_cv_new_ok _ hW1 hW64]
    simp only [unwrapRes_ok, bok]
    unfold RS.forRangeB
    rw [Nat.sub_zero, hloop, bok]

/-- **`WaveletMatrix::new`** on the empty sequence is `Err` -/
theorem gw_new_nil (mk : Array β → Nat → ω) (cv : CV) (h : CV.Rep cv []) : GW.new o mk c cv = .ok .err := by
  unfold GW.new
  have : cv.len = 0 := h.len
  rw [cv_is_empty_eq, if_pos (by simp [this])]
end

end Sucds.GenEq
