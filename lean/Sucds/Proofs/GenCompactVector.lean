import Sucds.Proofs.GenBitVectorRW
import Sucds.Proofs.CompactVectorFull
/-! Agreement of the *generated* `CompactVector` functions (`Sucds.GenFn.CompactVector.*`, from
    `src/int_vectors/compact_vector.rs`) with the hand-written model `CV`. -/
set_option linter.unusedSimpArgs false
set_option linter.unusedVariables false
namespace Sucds.GenEq
open Sucds BV

/-! ### vocabulary -/
/-- result conversion: the model's `Bool` flag vs `Result<()>` -/
def cvRes (r : CV × Bool) : CV × RS.Res Unit := (r.1, if r.2 then RS.Res.ok () else RS.Res.err)

/-- the list-free part of `CV.Rep` (plus `1 ≤ width`, which every constructor but `Default` establishes) -/
structure CVInv (v : CV) : Prop where
  inv : v.chunks.Inv
  clen : v.chunks.len = v.len * v.width
  wpos : 1 ≤ v.width
  wle : v.width ≤ 64

theorem CVInv.of_rep {v : CV} {xs : List Nat} (h : CV.Rep v xs) (hw : 1 ≤ v.width) : CVInv v :=
  ⟨h.inv, h.clen, hw, h.wle⟩

theorem succ_mul_le {a n w : Nat} (h : a < n) : a * w + w ≤ n * w := by
  calc a * w + w = (a + 1) * w := by rw [Nat.add_mul, Nat.one_mul]
    _ ≤ n * w := Nat.mul_le_mul_right _ h

/-! ### the fit tests -/
/-- `self.width() != 64 && val >> self.width() != 0` -/
theorem misfit_gen (c : Cfg) (w val : Nat) (hw : w ≤ 64) :
    ((if (w != 64) = true then (cshr c val w).bind fun t => .ok (t != 0) else .ok false : R Bool))
      = .ok (CV.misfit w val) := by
  unfold CV.misfit
  by_cases h : w = 64
  · subst h; rfl
  · have e : (w != 64) = true := by simp [h]
    rw [e, if_pos rfl, cshr_ok c (by omega : w < 64), bind_ok, Bool.true_and]

/-- `width < 64 && val >> width != 0` -/
theorem fitcheck_gen (c : Cfg) (w val : Nat) :
    ((if decide (w < 64) = true then (cshr c val w).bind fun t => .ok (t != 0) else .ok false : R Bool))
      = .ok (decide (w < 64) && (val >>> w != 0)) := by
  by_cases h : w < 64
  · rw [if_pos (decide_eq_true h), cshr_ok c h, bind_ok, decide_eq_true h, Bool.true_and]
  · rw [if_neg (by simp [h]), decide_eq_false h, Bool.false_and]

theorem width_check_iff (width : Nat) :
    (decide (1 ≤ width) && decide (width ≤ 64)) = true ↔ (1 ≤ width ∧ width ≤ 64) := by simp

/-! ### trivial accessors -/
@[simp] theorem cv_len_eq (v : CV) : GenFn.CompactVector.len v = v.len := rfl
@[simp] theorem cv_width_eq (v : CV) : GenFn.CompactVector.width v = v.width := rfl
@[simp] theorem cv_is_empty_eq (v : CV) : GenFn.CompactVector.is_empty v = (v.len == 0) := rfl
@[simp] theorem cv_num_vals_eq (v : CV) : GenFn.CompactVector.num_vals v = v.len := rfl

/-! ### constructors -/
theorem cv_new_eq (width : Nat) :
    GenFn.CompactVector.new width = (match CV.new width with | some v => RS.Res.ok v | none => RS.Res.err) := by
  unfold GenFn.CompactVector.new CV.new
  by_cases hw : 1 ≤ width ∧ width ≤ 64
  · rw [if_neg (not_not_intro ((width_check_iff width).2 hw)), if_pos hw]; rfl
  · rw [if_pos (fun h => hw ((width_check_iff width).1 h)), if_neg hw]

/-- `with_capacity`: the capacity only matters through the checked computation of the number of words -/
theorem cv_with_capacity_eq (c : Cfg) (capa width : Nat) (hsz : capa * width + 64 < 2^64) :
    GenFn.CompactVector.with_capacity c capa width
      = .ok (match CV.new width with | some v => RS.Res.ok v | none => RS.Res.err) := by
  unfold GenFn.CompactVector.with_capacity CV.new
  by_cases hw : 1 ≤ width ∧ width ≤ 64
  · rw [if_neg (not_not_intro ((width_check_iff width).2 hw)), if_pos hw,
      cmul_ok c (by omega : capa * width < 2^64), bind_ok, with_capacity_eq c _ hsz, bind_ok]
  · rw [if_pos (fun h => hw ((width_check_iff width).1 h)), if_neg hw]

/-- a rejected width never reaches the capacity computation -/
theorem cv_with_capacity_rej (c : Cfg) (capa width : Nat) (hw : ¬ (1 ≤ width ∧ width ≤ 64)) :
    GenFn.CompactVector.with_capacity c capa width = .ok RS.Res.err := by
  unfold GenFn.CompactVector.with_capacity
  rw [if_pos (fun h => hw ((width_check_iff width).1 h))]

/-! ### reads -/
/-- `get_int`: after the bounds check `pos < len` the product `pos * width` is below `len * width` -/
theorem cv_get_int_eq (c : Cfg) (v : CV) (hsz : v.len * v.width < 2^64) (pos : Nat) :
    GenFn.CompactVector.get_int c v pos = v.getInt pos := by
  unfold GenFn.CompactVector.get_int GenFn.CompactVector.len CV.getInt
  by_cases hp : v.len ≤ pos
  · rw [if_pos hp, if_pos hp]
  · have hb : pos * v.width + v.width ≤ v.len * v.width := succ_mul_le (by omega)
    rw [if_neg hp, if_neg hp, cmul_ok c (by omega : pos * v.width < 2^64), bind_ok,
      get_bits_eq_of c v.chunks _ _ (.inl (by omega))]

theorem cv_access_eq (c : Cfg) (v : CV) (hsz : v.len * v.width < 2^64) (pos : Nat) :
    GenFn.CompactVector.access c v pos = v.getInt pos :=
  cv_get_int_eq c v hsz pos

/-! ### writes -/
theorem cv_set_int_eq_cvRes (c : Cfg) (v : CV) (hw : v.width ≤ 64) (hsz : v.len * v.width < 2^64) (pos val : Nat) :
    GenFn.CompactVector.set_int c v pos val = (v.setInt pos val).map cvRes := by
  unfold GenFn.CompactVector.set_int GenFn.CompactVector.len GenFn.CompactVector.width CV.setInt
  by_cases hp : v.len ≤ pos
  · rw [if_pos hp, if_pos hp]; rfl
  · have hb : pos * v.width + v.width ≤ v.len * v.width := succ_mul_le (by omega)
    rw [if_neg hp, if_neg hp, misfit_gen c _ _ hw, bind_ok]
    cases hm : CV.misfit v.width val
    · rw [if_neg (by simp), if_neg (by simp), cmul_ok c (by omega : pos * v.width < 2^64), bind_ok,
        set_bits_eq_resOf c v.chunks _ _ _ (.inl (by omega))]
      cases hs : v.chunks.setBits (pos * v.width) val v.width with
      | error e => rfl
      | ok r =>
        rcases r with ⟨ch, fl⟩
        cases fl <;> rfl
    · rw [if_pos rfl, if_pos rfl]; rfl

theorem cv_set_int_eq (c : Cfg) (v : CV) (hw : v.width ≤ 64) (hsz : v.len * v.width < 2^64) (pos val : Nat) :
    GenFn.CompactVector.set_int c v pos val
      = (v.setInt pos val).map fun r => (r.1, if r.2 then RS.Res.ok () else RS.Res.err) :=
  cv_set_int_eq_cvRes c v hw hsz pos val

/-- `push_int` under exactly the facts it uses -/
theorem cv_push_int_eq_of (c : Cfg) (v : CV) (hi : v.chunks.Inv) (hw : v.width ≤ 64)
    (hov : v.chunks.len + v.width < 2^64) (hl : v.len + 1 < 2^64) (val : Nat) :
    GenFn.CompactVector.push_int c v val = (v.pushInt val).map cvRes := by
  unfold GenFn.CompactVector.push_int GenFn.CompactVector.width CV.pushInt
  rw [misfit_gen c _ _ hw, bind_ok]
  cases hm : CV.misfit v.width val
  · rw [if_neg (by simp), if_neg (by simp), push_bits_eq_resOf c v.chunks hi val v.width hov, bind_ok]
    rcases v.chunks.pushBits val v.width with ⟨ch, fl⟩
    cases fl
    · rfl
    · simp only [resOf, if_true, RS.unwrapRes, bind_ok]
      rw [cadd_ok c hl, bind_ok]; rfl
  · rw [if_pos rfl, if_pos rfl]; rfl

theorem len_succ_lt {v : CV} (h : CVInv v) (hsz : v.len * v.width + v.width < 2^64) : v.len + 1 < 2^64 := by
  have := Nat.mul_le_mul_left v.len h.wpos
  rw [Nat.mul_one] at this
  have := h.wpos
  omega

theorem cv_push_int_eq_cvRes (c : Cfg) (v : CV) (h : CVInv v) (hsz : v.len * v.width + v.width < 2^64) (val : Nat) :
    GenFn.CompactVector.push_int c v val = (v.pushInt val).map cvRes :=
  cv_push_int_eq_of c v h.inv h.wle (by rw [h.clen]; exact hsz) (len_succ_lt h hsz) val

theorem cv_push_int_eq (c : Cfg) (v : CV) (h : CVInv v) (hsz : v.len * v.width + v.width < 2^64) (val : Nat) :
    GenFn.CompactVector.push_int c v val
      = (v.pushInt val).map fun r => (r.1, if r.2 then RS.Res.ok () else RS.Res.err) :=
  cv_push_int_eq_cvRes c v h hsz val

/-- an accepted `pushInt` preserves the invariant, adds one element and keeps the width -/
theorem pushInt_inv (v : CV) (h : CVInv v) (val : Nat) (v1 : CV) (hp : v.pushInt val = .ok (v1, true)) :
    CVInv v1 ∧ v1.len = v.len + 1 ∧ v1.width = v.width := by
  unfold CV.pushInt at hp
  obtain ⟨_, h2, h3, _⟩ := pushBits_ok v.chunks h.inv val v.width h.wle
  cases hm : CV.misfit v.width val
  · rw [hm, if_neg (by simp)] at hp
    rcases hpb : v.chunks.pushBits val v.width with ⟨ch, fl⟩
    rw [hpb] at hp h2 h3
    cases fl
    · cases hp
    · simp only [Except.ok.injEq, Prod.mk.injEq, and_true] at hp
      subst hp
      refine ⟨⟨h2, ?_, h.wpos, h.wle⟩, rfl, rfl⟩
      show ch.len = (v.len + 1) * v.width
      rw [h3, h.clen, Nat.add_mul, Nat.one_mul]
  · rw [hm, if_pos rfl] at hp
    simp at hp

/-! ### loops -/
/-- the loop of `extend`: push until the first value that does not fit, which is an early `return Err` -/
theorem extend_loop (c : Cfg) (xs : List Nat) : ∀ (v : CV), CVInv v → (v.len + xs.length) * v.width < 2^64 →
    RS.forListB (fun x self1 => (GenFn.CompactVector.push_int c self1 x).bind fun r =>
        (match r.2 with
          | .err => .ok (.ret (r.1, RS.Res.err))
          | .ok _ => .ok (.next r.1) : R (RS.Step CV (CV × RS.Res Unit)))) xs v
      = (v.extend xs).map fun r => if r.2 then RS.Exit.done r.1 else RS.Exit.ret (r.1, RS.Res.err) := by
  induction xs with
  | nil => intro v _ _; rfl
  | cons x t ih =>
    intro v h hsz
    rw [List.length_cons] at hsz
    have hsz1 : v.len * v.width + v.width < 2^64 := by
      have : v.len * v.width + v.width ≤ (v.len + (t.length + 1)) * v.width := succ_mul_le (by omega)
      omega
    unfold RS.forListB CV.extend
    rw [cv_push_int_eq_cvRes c v h hsz1 x]
    cases hp : v.pushInt x with
    | error e => rfl
    | ok r =>
      rcases r with ⟨v1, fl⟩
      cases fl
      · rfl
      · obtain ⟨h1, hl1, hw1⟩ := pushInt_inv v h x v1 hp
        have := ih v1 h1 (by rw [hl1, hw1]; rw [show v.len + 1 + t.length = v.len + (t.length + 1) by omega]; exact hsz)
        simp only [Except.map, bind_ok, cvRes, if_true]
        exact this

theorem cv_extend_eq_cvRes (c : Cfg) (v : CV) (h : CVInv v) (xs : List Nat)
    (hsz : (v.len + xs.length) * v.width < 2^64) :
    GenFn.CompactVector.extend c v xs = (v.extend xs).map cvRes := by
  unfold GenFn.CompactVector.extend
  refine Eq.trans (congrArg (fun z => Except.bind z _) (extend_loop c xs v h hsz)) ?_
  cases he : v.extend xs with
  | error e => rfl
  | ok r =>
    rcases r with ⟨v1, fl⟩
    cases fl <;> rfl

theorem cv_extend_eq (c : Cfg) (v : CV) (h : CVInv v) (xs : List Nat)
    (hsz : (v.len + xs.length) * v.width < 2^64) :
    GenFn.CompactVector.extend c v xs
      = (v.extend xs).map fun r => (r.1, if r.2 then RS.Res.ok () else RS.Res.err) :=
  cv_extend_eq_cvRes c v h xs hsz

/-- the loop of `from_int`: `n` pushes of the same value, each unwrapped -/
theorem from_int_loop (c : Cfg) (val : Nat) (n : Nat) : ∀ (i : Nat) (v : CV), CVInv v → (v.len + n) * v.width < 2^64 →
    RS.forCount (fun _ cv1 => (GenFn.CompactVector.push_int c cv1 val).bind fun r =>
        (RS.unwrapRes r.2).bind fun _ => .ok r.1) i n v
      = (v.extend (List.replicate n val)).bind fun r => if r.2 then .ok r.1 else .error .unwrapNone := by
  induction n with
  | zero => intro i v _ _; rfl
  | succ n ih =>
    intro i v h hsz
    have hsz1 : v.len * v.width + v.width < 2^64 := by
      have : v.len * v.width + v.width ≤ (v.len + (n + 1)) * v.width := succ_mul_le (by omega)
      omega
    rw [List.replicate_succ]
    unfold RS.forCount CV.extend
    rw [cv_push_int_eq_cvRes c v h hsz1 val]
    cases hp : v.pushInt val with
    | error e => rfl
    | ok r =>
      rcases r with ⟨v1, fl⟩
      cases fl
      · rfl
      · obtain ⟨h1, hl1, hw1⟩ := pushInt_inv v h val v1 hp
        have := ih (i + 1) v1 h1 (by rw [hl1, hw1]; rw [show v.len + 1 + n = v.len + (n + 1) by omega]; exact hsz)
        simp only [Except.map, bind_ok, cvRes, if_true, RS.unwrapRes]
        exact this

theorem unwrapRes_ok {α : Type} (x : α) : RS.unwrapRes (RS.Res.ok x) = .ok x := rfl

theorem new_cvinv (width : Nat) (h1 : 1 ≤ width) (h2 : width ≤ 64) : CVInv (⟨BV.new, 0, width⟩ : CV) :=
  ⟨new_inv, by show 0 = 0 * width; omega, h1, h2⟩

theorem cv_from_int_eq (c : Cfg) (val len width : Nat) (hsz : len * width + 64 < 2^64) :
    GenFn.CompactVector.from_int c val len width
      = (CV.fromInt val len width).map fun o => match o with | some v => RS.Res.ok v | none => RS.Res.err := by
  unfold GenFn.CompactVector.from_int CV.fromInt
  by_cases hw : 1 ≤ width ∧ width ≤ 64
  · rw [if_neg (not_not_intro ((width_check_iff width).2 hw)), if_neg (not_not_intro hw), fitcheck_gen, bind_ok]
    cases hm : (decide (width < 64) && (val >>> width != 0))
    · rw [if_neg (by simp), if_neg (by simp), cv_with_capacity_eq c len width hsz, bind_ok]
      unfold CV.new
      rw [if_pos hw]
      simp only []
      rw [unwrapRes_ok, bind_ok]
      unfold RS.forRange
      rw [Nat.sub_zero]
      refine Eq.trans (congrArg (fun z => Except.bind z _) (from_int_loop c val len 0 _ (new_cvinv width hw.1 hw.2)
        (by show (0 + len) * width < 2^64; rw [Nat.zero_add]; omega))) ?_
      cases he : (⟨BV.new, 0, width⟩ : CV).extend (List.replicate len val) with
      | error e => rfl
      | ok r =>
        rcases r with ⟨v1, fl⟩
        cases fl <;> rfl
    · rw [if_pos rfl, if_pos rfl]; rfl
  · rw [if_pos (fun h => hw ((width_check_iff width).1 h)), if_pos hw]; rfl

/-! ### consequences: the list-level theorems about the model hold of the generated definitions -/
theorem rep_size {v : CV} {xs : List Nat} (h : CV.Rep v xs) : v.len * v.width = v.chunks.len := h.clen.symm

/-- `get_int`/`access` return the `i`-th stored integer, `None` for every other index, and never panic -/
theorem cv_get_int_spec (c : Cfg) (v : CV) (xs : List Nat) (h : CV.Rep v xs) (hsz : v.len * v.width < 2^64) (i : Nat) :
    GenFn.CompactVector.get_int c v i = .ok xs[i]? := by
  rw [cv_get_int_eq c v hsz i, CV.getInt_ok v xs h i]

theorem cv_access_spec (c : Cfg) (v : CV) (xs : List Nat) (h : CV.Rep v xs) (hsz : v.len * v.width < 2^64) (i : Nat) :
    GenFn.CompactVector.access c v i = .ok xs[i]? :=
  cv_get_int_spec c v xs h hsz i

/-- `push_int` of a fitting value appends it -/
theorem cv_push_int_ok (c : Cfg) (v : CV) (xs : List Nat) (h : CV.Rep v xs) (hw : 1 ≤ v.width)
    (hsz : v.len * v.width + v.width < 2^64) (val : Nat) (hv : val < 2^v.width) (hv64 : val < 2^64) :
    ∃ v', GenFn.CompactVector.push_int c v val = .ok (v', RS.Res.ok ()) ∧ CV.Rep v' (xs ++ [val]) ∧ v'.width = v.width := by
  obtain ⟨v', hp, hr, hw'⟩ := CV.pushInt_ok v xs h val hv hv64
  refine ⟨v', ?_, hr, hw'⟩
  rw [cv_push_int_eq_cvRes c v (CVInv.of_rep h hw) hsz val, hp]; rfl

/-- `push_int` of a value that does not fit is `Err` and changes nothing -/
theorem cv_push_int_rej (c : Cfg) (v : CV) (xs : List Nat) (h : CV.Rep v xs) (hw : 1 ≤ v.width)
    (hsz : v.len * v.width + v.width < 2^64) (val : Nat) (hv : ¬ val < 2^v.width) (hv64 : val < 2^64) :
    GenFn.CompactVector.push_int c v val = .ok (v, RS.Res.err) := by
  rw [cv_push_int_eq_cvRes c v (CVInv.of_rep h hw) hsz val, CV.pushInt_rej v xs h val hv hv64]; rfl

/-- `set_int` of a fitting value at a valid index replaces that element only -/
theorem cv_set_int_ok (c : Cfg) (v : CV) (xs : List Nat) (h : CV.Rep v xs) (hsz : v.len * v.width < 2^64)
    (pos val : Nat) (hp : pos < v.len) (hv : val < 2^v.width) (hv64 : val < 2^64) :
    ∃ v', GenFn.CompactVector.set_int c v pos val = .ok (v', RS.Res.ok ()) ∧ CV.Rep v' (xs.set pos val) ∧
      v'.width = v.width := by
  obtain ⟨v', hs, hr, hw'⟩ := CV.setInt_ok v xs h pos val hp hv hv64
  refine ⟨v', ?_, hr, hw'⟩
  rw [cv_set_int_eq_cvRes c v h.wle hsz pos val, hs]; rfl

/-- `set_int` outside the vector or with a value that does not fit is `Err` and changes nothing -/
theorem cv_set_int_rej (c : Cfg) (v : CV) (xs : List Nat) (h : CV.Rep v xs) (hsz : v.len * v.width < 2^64)
    (pos val : Nat) (hv64 : val < 2^64) (hrej : v.len ≤ pos ∨ ¬ val < 2^v.width) :
    GenFn.CompactVector.set_int c v pos val = .ok (v, RS.Res.err) := by
  rw [cv_set_int_eq_cvRes c v h.wle hsz pos val]
  rcases hrej with hp | hv
  · rw [CV.setInt_rej_pos v pos val hp]; rfl
  · rw [CV.setInt_rej_val v xs h pos val hv hv64]; rfl

/-- `extend` appends the values before the first misfit and says `Ok` iff there is none -/
theorem cv_extend_spec (c : Cfg) (v : CV) (xs : List Nat) (h : CV.Rep v xs) (hw : 1 ≤ v.width) (vs : List Nat)
    (hs : ∀ x ∈ vs, x < 2^64) (hsz : (v.len + vs.length) * v.width < 2^64) :
    ∃ v', GenFn.CompactVector.extend c v vs
        = .ok (v', if vs.all (fun x => decide (x < 2^v.width)) then RS.Res.ok () else RS.Res.err) ∧
      CV.Rep v' (xs ++ vs.takeWhile (fun x => decide (x < 2^v.width))) ∧ v'.width = v.width := by
  obtain ⟨v', he, hr, hw'⟩ := CV.extend_ok vs v xs h hs
  refine ⟨v', ?_, hr, hw'⟩
  rw [cv_extend_eq_cvRes c v (CVInv.of_rep h hw) vs hsz, he]; rfl

/-- `from_int`, accepted: `len` copies of `val` -/
theorem cv_from_int_ok (c : Cfg) (val len width : Nat) (hv : val < 2^64) (h1 : 1 ≤ width) (h2 : width ≤ 64)
    (hfit : val < 2^width) (hsz : len * width + 64 < 2^64) :
    ∃ v, GenFn.CompactVector.from_int c val len width = .ok (RS.Res.ok v) ∧ CV.Rep v (List.replicate len val) ∧
      v.width = width := by
  obtain ⟨v, hf, hr, hw⟩ := CV.fromInt_ok val len width hv h1 h2 hfit
  refine ⟨v, ?_, hr, hw⟩
  rw [cv_from_int_eq c val len width hsz, hf]; rfl

/-- `from_int`, rejected: a width outside `1..=64` or a value that does not fit -/
theorem cv_from_int_rej (c : Cfg) (val len width : Nat) (hv : val < 2^64)
    (h : ¬ (1 ≤ width ∧ width ≤ 64) ∨ ¬ val < 2^width) (hsz : len * width + 64 < 2^64) :
    GenFn.CompactVector.from_int c val len width = .ok RS.Res.err := by
  rw [cv_from_int_eq c val len width hsz, CV.fromInt_rej val len width hv h]; rfl

/-! ### outside the size hypotheses (expected, recorded for completeness)

    `with_capacity(capa, width)` multiplies `capa * width` with a checked multiplication before anything is
    allocated; the model does not model the capacity. So for `capa * width ≥ 2^64` a checked build panics where the
    model answers `Ok` (an unchecked build wraps the product and goes on with a small capacity); `from_int` inherits
    this through its call of `with_capacity(len, width)`. `words_for` adds 64 before dividing, hence the `+ 64` in
    the hypothesis `capa * width + 64 < 2^64`. -/
theorem with_capacity_overflow_checked :
    GenFn.CompactVector.with_capacity ⟨true, false⟩ (2^58) 64 = .error .overflow ∧
    GenFn.CompactVector.with_capacity ⟨false, false⟩ (2^58) 64 = .ok (RS.Res.ok ⟨BV.new, 0, 64⟩) ∧
    CV.new 64 = some ⟨BV.new, 0, 64⟩ := ⟨rfl, rfl, rfl⟩
theorem with_capacity_words_for_overflow_checked :
    GenFn.CompactVector.with_capacity ⟨true, false⟩ (2^58 - 1) 64 = .error .overflow := rfl
theorem from_int_overflow_checked (val : Nat) :
    GenFn.CompactVector.from_int ⟨true, false⟩ val (2^58) 64 = .error .overflow := by
  unfold GenFn.CompactVector.from_int
  rw [if_neg (by decide), fitcheck_gen, bind_ok, if_neg (by simp)]
  rfl

end Sucds.GenEq
