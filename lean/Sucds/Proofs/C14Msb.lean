import Sucds.Proofs.C14Lsb
/-! C14, continued: `msb`, and the property statement. -/
set_option linter.unusedSimpArgs false
set_option linter.unusedVariables false
namespace Sucds.C14
open Sucds Sucds.Broadword Sucds.Spec

/-- the last position satisfying `P` is the (count-1)-th one -/
theorem find_last (P : Nat → Bool) (n : Nat) :
    (List.range n).reverse.find? P = if cnt P n = 0 then none else sel P n (cnt P n - 1) := by
  induction n with
  | zero => rfl
  | succ n ih =>
    rw [List.range_succ, List.reverse_append, List.reverse_singleton, List.singleton_append, List.find?_cons]
    by_cases hP : P n = true
    · have hc := cnt_succ_of_true P n hP
      have hne : cnt P (n+1) ≠ 0 := by omega
      simp only [hP, hne, if_false]
      rw [sel_eq_some P (n+1) (cnt P (n+1) - 1) n ⟨by omega, hP, by omega⟩]
    · have hf : P n = false := by simpa using hP
      have hc := cnt_succ_of_false P n hf
      simp only [hf, ih, hc]
      by_cases h0 : cnt P n = 0
      · simp [h0]
      · simp only [h0, if_false]
        -- the same position is the answer for the larger bound
        cases hs : sel P n (cnt P n - 1) with
        | none =>
          exfalso
          have hex : ∃ p, IsKth P n (cnt P n - 1) p := by
            -- a (count-1)-th position exists below n
            clear hs ih hc hf hP
            induction n with
            | zero => simp [cnt] at h0
            | succ m ihm =>
              by_cases hPm : P m = true
              · exact ⟨m, by omega, hPm, by rw [cnt_succ_of_true P m hPm]; omega⟩
              · have hfm : P m = false := by simpa using hPm
                rw [cnt_succ_of_false P m hfm] at h0 ⊢
                obtain ⟨p, hp1, hp2, hp3⟩ := ihm h0
                exact ⟨p, by omega, hp2, hp3⟩
          obtain ⟨p, hp⟩ := hex
          rw [sel_eq_some P n _ p hp] at hs
          cases hs
        | some p =>
          have hk : IsKth P n (cnt P n - 1) p := by
            -- read back from sel
            unfold sel at hs
            have h1 := List.find?_some hs
            have h2 := List.mem_of_find?_eq_some hs
            simp only [Bool.and_eq_true, beq_iff_eq] at h1
            exact ⟨by simpa using h2, h1.1, h1.2⟩
          rw [sel_eq_some P (n+1) _ p ⟨by have := hk.1; omega, hk.2.1, hk.2.2⟩]

theorem high_clear (x p : BitVec 64) (hp : p < 64#64) (h : x >>> p = 1#64) :
    x.getLsbD p.toNat = true ∧ ∀ i, p.toNat < i → x.getLsbD i = false := by
  have key : ∀ j, x.getLsbD (p.toNat + j) = (1#64).getLsbD j := by
    intro j
    have := congrArg (fun v => v.getLsbD j) h
    simpa only [BitVec.ushiftRight_eq', BitVec.getLsbD_ushiftRight] using this
  refine ⟨by simpa using key 0, ?_⟩
  intro i hi
  have := key (i - p.toNat)
  rw [show p.toNat + (i - p.toNat) = i by omega] at this
  rw [this]
  have hne : i - p.toNat ≠ 0 := by omega
  cases hij : i - p.toNat with
  | zero => exact absurd hij hne
  | succ m => simp [BitVec.getLsbD, Nat.testBit_succ]

/-- **msb**: the position of the highest set bit, `none` iff the word is zero -/
theorem msb_ok (c : Cfg) (x : BitVec 64) :
    msb c x = .ok (if x = 0 then none else sel (bitsOf x) 64 (cnt (bitsOf x) 64 - 1)) := by
  unfold msb
  by_cases hx : x = 0
  · subst hx; split <;> simp
  · have hpos : cnt (bitsOf x) 64 ≠ 0 := by
      intro h0
      apply hx
      apply BitVec.eq_of_getLsbD_eq
      intro i hi
      have : bitsOf x i = false := by
        cases hb : bitsOf x i with
        | false => rfl
        | true => have := cnt_pos_of_true (bitsOf x) 64 i hi hb; omega
      simpa [bitsOf] using this
    split
    · congr 1
      have := find_last (fun i => x.getLsbD i) 64
      simp only [show (fun i => x.getLsbD i) = bitsOf x from rfl, hpos, if_false] at this
      exact this
    · obtain ⟨h0, h1⟩ := msb_onebit x hx
      rw [bitPosition_ok c _ h0 h1]
      simp only [Except.bind]
      obtain ⟨hp, hs⟩ := msb_bv x hx
      have hp' : (bitPositionW (msbIsolate x)).toNat < 64 := by simpa [BitVec.lt_def] using hp
      obtain ⟨hb, hcl⟩ := high_clear x _ hp hs
      -- all set bits are at or below p, and p is set
      have hsplit := cnt_add (bitsOf x) ((bitPositionW (msbIsolate x)).toNat + 1) (64 - ((bitPositionW (msbIsolate x)).toNat + 1))
      rw [show (bitPositionW (msbIsolate x)).toNat + 1 + (64 - ((bitPositionW (msbIsolate x)).toNat + 1)) = 64 by omega] at hsplit
      have hz := cnt_zero_of_false (fun i => bitsOf x ((bitPositionW (msbIsolate x)).toNat + 1 + i))
        (64 - ((bitPositionW (msbIsolate x)).toNat + 1)) (fun i _ => hcl _ (by omega))
      have hs1 := cnt_succ_of_true (bitsOf x) _ hb
      rw [sel_eq_some (bitsOf x) 64 _ _ ⟨hp', hb, by omega⟩]

#print axioms msb_ok
end Sucds.C14
