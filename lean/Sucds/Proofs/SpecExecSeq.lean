import Sucds.Proofs.SpecExecBits
import Sucds.Proofs.WaveletQuantile
/-! The executable specification computes the proof-level vocabulary: part 2, monotone sequences (Elias-Fano
    oracle: `EFQ.rk`, `EFQ.predV`, `EFQ.succV`, `EFQ.X`) and integer sequences (wavelet-matrix oracle). -/
set_option linter.unusedSimpArgs false
set_option linter.unusedVariables false
namespace Sucds.SpecX
open Sucds Sucds.Spec Sucds.EFQ

/-! ### 5. monotone sequences -/

theorem foldl_count (p : Nat) : ∀ (l : List Nat) (n : Nat),
    l.foldl (fun n x => if x < p then n + 1 else n) n = n + rk l p
  | [], n => by simp [rk]
  | x :: t, n => by
    rw [List.foldl_cons, foldl_count p t]
    unfold rk
    rw [List.countP_cons]
    by_cases h : x < p <;> simp [h] <;> omega

/-- **seqRank** (no monotonicity needed) -/
theorem seqRank_eq (xs : Array Nat) (u p : Nat) :
    seqRank xs u p = if p ≤ u then some (rk xs.toList p) else none := by
  unfold seqRank
  rw [← Array.foldl_toList, foldl_count]
  simp

/-- **seqDelta** (the difference formula of `EFQ.delta_ok`) -/
theorem seqDelta_eq (xs : Array Nat) (k : Nat) :
    seqDelta xs k =
      if k < xs.toList.length then some (X xs.toList k - (if k = 0 then 0 else X xs.toList (k - 1))) else none := by
  unfold seqDelta X
  rw [Array.getElem?_toList, Array.getElem?_toList, Array.length_toList]
  by_cases h : k < xs.size
  · rw [if_pos h, Array.getElem?_eq_getElem h]
    rfl
  · rw [if_neg h, Array.getElem?_eq_none (by omega)]

def predStep (p : Nat) (m : Option Nat) (x : Nat) : Option Nat :=
  if x ≤ p then (match m with | none => some x | some y => some (max x y)) else m
def succStep (p : Nat) (m : Option Nat) (x : Nat) : Option Nat :=
  if x ≥ p then (match m with | none => some x | some y => some (min x y)) else m

theorem foldl_pred_rev (p : Nat) : ∀ (l : List Nat), l.Pairwise (fun a b => b ≤ a) →
    l.reverse.foldl (predStep p) none = predV l.reverse p
  | [], _ => rfl
  | x :: t, hs => by
    rw [List.pairwise_cons] at hs
    rw [List.reverse_cons, List.foldl_append, foldl_pred_rev p t hs.2]
    unfold predV
    rw [List.filter_append, List.getLast?_append]
    simp only [List.foldl_cons, List.foldl_nil, predStep]
    by_cases hx : x ≤ p
    · rw [if_pos hx]
      have : List.filter (fun x => decide (x ≤ p)) [x] = [x] := by simp [hx]
      rw [this]
      cases hl : (List.filter (fun x => decide (x ≤ p)) t.reverse).getLast? with
      | none => simp
      | some y =>
        have hy : y ∈ t := by
          have := List.mem_of_getLast? hl
          exact List.mem_reverse.mp (List.mem_filter.mp this).1
        have := hs.1 y hy
        simp [Nat.max_eq_left this]
    · rw [if_neg hx]
      have : List.filter (fun x => decide (x ≤ p)) [x] = [] := by simp [hx]
      rw [this]
      simp

theorem foldl_succ_rev (p : Nat) : ∀ (l : List Nat), l.Pairwise (fun a b => b ≤ a) →
    l.reverse.foldl (succStep p) none = succV l.reverse p
  | [], _ => rfl
  | x :: t, hs => by
    rw [List.pairwise_cons] at hs
    rw [List.reverse_cons, List.foldl_append, foldl_succ_rev p t hs.2]
    unfold succV
    rw [List.find?_append]
    simp only [List.foldl_cons, List.foldl_nil, succStep]
    cases hl : List.find? (fun x => decide (p ≤ x)) t.reverse with
    | some y =>
      have hy : y ∈ t := List.mem_reverse.mp (List.mem_of_find?_eq_some hl)
      have := hs.1 y hy
      by_cases hx : x ≥ p
      · rw [if_pos hx]; simp [Nat.min_eq_right this]
      · rw [if_neg hx]; simp
    | none =>
      by_cases hx : x ≥ p
      · rw [if_pos hx]; simp [List.find?_cons, hx]
      · rw [if_neg hx]; simp [List.find?_cons, hx]

theorem rev_sorted {l : List Nat} (hs : l.Pairwise (· ≤ ·)) : l.reverse.Pairwise (fun a b => b ≤ a) :=
  List.pairwise_reverse.mpr hs

/-- **seqPred** for a non-decreasing sequence -/
theorem seqPred_eq (xs : Array Nat) (hs : xs.toList.Pairwise (· ≤ ·)) (u p : Nat) :
    seqPred xs u p = if p < u then predV xs.toList p else none := by
  unfold seqPred
  rw [← Array.foldl_toList]
  have := foldl_pred_rev p xs.toList.reverse (rev_sorted hs)
  rw [List.reverse_reverse] at this
  by_cases h : p < u
  · rw [if_pos h, if_pos h]; exact this
  · rw [if_neg h, if_neg h]

/-- **seqSucc** for a non-decreasing sequence -/
theorem seqSucc_eq (xs : Array Nat) (hs : xs.toList.Pairwise (· ≤ ·)) (u p : Nat) :
    seqSucc xs u p = if p < u then succV xs.toList p else none := by
  unfold seqSucc
  rw [← Array.foldl_toList]
  have := foldl_succ_rev p xs.toList.reverse (rev_sorted hs)
  rw [List.reverse_reverse] at this
  by_cases h : p < u
  · rw [if_pos h, if_pos h]; exact this
  · rw [if_neg h, if_neg h]

/-! Without monotonicity the folds still compute the largest element `≤ p` / the smallest element `≥ p`
    (what `predecessor`/`successor` mean); `predV`/`succV` only coincide with them on sorted lists. -/

theorem foldl_pred_spec (p : Nat) : ∀ (l : List Nat) (m : Option Nat),
    (∀ y, m = some y → y ≤ p) →
    match l.foldl (predStep p) m with
    | none => m = none ∧ ∀ x ∈ l, p < x
    | some v => v ≤ p ∧ (m = some v ∨ v ∈ l) ∧ (∀ y, m = some y → y ≤ v) ∧ ∀ x ∈ l, x ≤ p → x ≤ v
  | [], m, hm => by
    cases m with
    | none => simp
    | some y => simpa using hm y rfl
  | x :: t, m, hm => by
    rw [List.foldl_cons]
    have hm' : ∀ y, predStep p m x = some y → y ≤ p := by
      intro y hy
      unfold predStep at hy
      by_cases hx : x ≤ p
      · rw [if_pos hx] at hy
        cases m with
        | none => simp at hy; omega
        | some z => have := hm z rfl; simp at hy; omega
      · rw [if_neg hx] at hy; exact hm y hy
    have ih := foldl_pred_spec p t (predStep p m x) hm'
    cases hr : t.foldl (predStep p) (predStep p m x) with
    | none =>
      rw [hr] at ih
      simp only at ih ⊢
      obtain ⟨h1, h2⟩ := ih
      unfold predStep at h1
      by_cases hx : x ≤ p
      · rw [if_pos hx] at h1; cases m <;> simp at h1
      · rw [if_neg hx] at h1
        refine ⟨h1, ?_⟩
        intro z hz
        rcases List.mem_cons.mp hz with rfl | hz
        · omega
        · exact h2 z hz
    | some v =>
      rw [hr] at ih
      simp only at ih ⊢
      obtain ⟨h1, h2, h3, h4⟩ := ih
      refine ⟨h1, ?_, ?_, ?_⟩
      · rcases h2 with h2 | h2
        · unfold predStep at h2
          by_cases hx : x ≤ p
          · rw [if_pos hx] at h2
            cases m with
            | none => simp at h2; subst h2; simp
            | some z =>
              simp at h2
              by_cases hxz : z ≤ x
              · rw [Nat.max_eq_left hxz] at h2; subst h2; simp
              · rw [Nat.max_eq_right (by omega)] at h2; subst h2; simp
          · rw [if_neg hx] at h2; exact Or.inl h2
        · exact Or.inr (List.mem_cons_of_mem _ h2)
      · intro y hy
        subst hy
        unfold predStep at h3
        by_cases hx : x ≤ p
        · rw [if_pos hx] at h3
          have := h3 (max x y) rfl
          omega
        · rw [if_neg hx] at h3; exact h3 y rfl
      · intro z hz hzp
        rcases List.mem_cons.mp hz with rfl | hz
        · unfold predStep at h3
          rw [if_pos hzp] at h3
          cases m with
          | none => exact h3 z rfl
          | some y => have := h3 (max z y) rfl; omega
        · exact h4 z hz hzp

/-- **seqPred**, any sequence: the result is the largest element `≤ p` (`none` iff there is none) -/
theorem seqPred_spec (xs : Array Nat) (u p : Nat) (hp : p < u) :
    match seqPred xs u p with
    | none => ∀ x ∈ xs.toList, p < x
    | some v => v ≤ p ∧ v ∈ xs.toList ∧ ∀ x ∈ xs.toList, x ≤ p → x ≤ v := by
  unfold seqPred
  rw [if_pos hp, ← Array.foldl_toList]
  have := foldl_pred_spec p xs.toList none (fun y hy => by cases hy)
  change match xs.toList.foldl (predStep p) none with
    | none => ∀ x ∈ xs.toList, p < x
    | some v => v ≤ p ∧ v ∈ xs.toList ∧ ∀ x ∈ xs.toList, x ≤ p → x ≤ v
  cases hr : xs.toList.foldl (predStep p) none with
  | none => rw [hr] at this; exact this.2
  | some v =>
    rw [hr] at this
    obtain ⟨h1, h2, _, h4⟩ := this
    refine ⟨h1, ?_, h4⟩
    rcases h2 with h2 | h2
    · cases h2
    · exact h2

theorem foldl_succ_spec (p : Nat) : ∀ (l : List Nat) (m : Option Nat),
    (∀ y, m = some y → p ≤ y) →
    match l.foldl (succStep p) m with
    | none => m = none ∧ ∀ x ∈ l, x < p
    | some v => p ≤ v ∧ (m = some v ∨ v ∈ l) ∧ (∀ y, m = some y → v ≤ y) ∧ ∀ x ∈ l, p ≤ x → v ≤ x
  | [], m, hm => by
    cases m with
    | none => simp
    | some y => simpa using hm y rfl
  | x :: t, m, hm => by
    rw [List.foldl_cons]
    have hm' : ∀ y, succStep p m x = some y → p ≤ y := by
      intro y hy
      unfold succStep at hy
      by_cases hx : x ≥ p
      · rw [if_pos hx] at hy
        cases m with
        | none => simp at hy; omega
        | some z => have := hm z rfl; simp at hy; omega
      · rw [if_neg hx] at hy; exact hm y hy
    have ih := foldl_succ_spec p t (succStep p m x) hm'
    cases hr : t.foldl (succStep p) (succStep p m x) with
    | none =>
      rw [hr] at ih
      simp only at ih ⊢
      obtain ⟨h1, h2⟩ := ih
      unfold succStep at h1
      by_cases hx : x ≥ p
      · rw [if_pos hx] at h1; cases m <;> simp at h1
      · rw [if_neg hx] at h1
        refine ⟨h1, ?_⟩
        intro z hz
        rcases List.mem_cons.mp hz with rfl | hz
        · omega
        · exact h2 z hz
    | some v =>
      rw [hr] at ih
      simp only at ih ⊢
      obtain ⟨h1, h2, h3, h4⟩ := ih
      refine ⟨h1, ?_, ?_, ?_⟩
      · rcases h2 with h2 | h2
        · unfold succStep at h2
          by_cases hx : x ≥ p
          · rw [if_pos hx] at h2
            cases m with
            | none => simp at h2; subst h2; simp
            | some z =>
              simp at h2
              by_cases hxz : x ≤ z
              · rw [Nat.min_eq_left hxz] at h2; subst h2; simp
              · rw [Nat.min_eq_right (by omega)] at h2; subst h2; simp
          · rw [if_neg hx] at h2; exact Or.inl h2
        · exact Or.inr (List.mem_cons_of_mem _ h2)
      · intro y hy
        subst hy
        unfold succStep at h3
        by_cases hx : x ≥ p
        · rw [if_pos hx] at h3
          have := h3 (min x y) rfl
          omega
        · rw [if_neg hx] at h3; exact h3 y rfl
      · intro z hz hzp
        rcases List.mem_cons.mp hz with rfl | hz
        · unfold succStep at h3
          rw [if_pos hzp] at h3
          cases m with
          | none => exact h3 z rfl
          | some y => have := h3 (min z y) rfl; omega
        · exact h4 z hz hzp

/-- **seqSucc**, any sequence: the result is the smallest element `≥ p` (`none` iff there is none) -/
theorem seqSucc_spec (xs : Array Nat) (u p : Nat) (hp : p < u) :
    match seqSucc xs u p with
    | none => ∀ x ∈ xs.toList, x < p
    | some v => p ≤ v ∧ v ∈ xs.toList ∧ ∀ x ∈ xs.toList, p ≤ x → v ≤ x := by
  unfold seqSucc
  rw [if_pos hp, ← Array.foldl_toList]
  have := foldl_succ_spec p xs.toList none (fun y hy => by cases hy)
  change match xs.toList.foldl (succStep p) none with
    | none => ∀ x ∈ xs.toList, x < p
    | some v => p ≤ v ∧ v ∈ xs.toList ∧ ∀ x ∈ xs.toList, p ≤ x → v ≤ x
  cases hr : xs.toList.foldl (succStep p) none with
  | none => rw [hr] at this; exact this.2
  | some v =>
    rw [hr] at this
    obtain ⟨h1, h2, _, h4⟩ := this
    refine ⟨h1, ?_, h4⟩
    rcases h2 with h2 | h2
    · cases h2
    · exact h2

/-- **seqFind**: exactly the indices `i` with `lo ≤ i < min hi n` and `xs[i] = v` … -/
theorem mem_seqFind (xs : Array Nat) (lo hi v i : Nat) :
    i ∈ seqFind xs lo hi v ↔ lo ≤ i ∧ i < min hi xs.size ∧ xs.toList[i]? = some v := by
  unfold seqFind
  rw [List.mem_filter, List.range_eq_range', List.drop_range', List.mem_range', Array.getElem?_toList]
  simp only [Nat.mul_one, Nat.zero_add, Nat.one_mul, decide_eq_true_eq]
  constructor
  · intro ⟨⟨j, hj, he⟩, hv⟩
    exact ⟨by omega, by omega, hv⟩
  · intro ⟨h1, h2, hv⟩
    exact ⟨⟨i - lo, by omega, by omega⟩, hv⟩

/-- … in ascending order without repetition (with `mem_seqFind` this determines the list) -/
theorem seqFind_sorted (xs : Array Nat) (lo hi v : Nat) : (seqFind xs lo hi v).Pairwise (· < ·) := by
  unfold seqFind
  exact List.Pairwise.filter _ (List.Pairwise.sublist (List.drop_sublist _ _) List.pairwise_lt_range)

/-- closed form: the filtered interval -/
theorem seqFind_eq (xs : Array Nat) (lo hi v : Nat) :
    seqFind xs lo hi v
      = (List.range' lo (min hi xs.size - lo)).filter (fun i => decide (xs.toList[i]? = some v)) := by
  unfold seqFind
  rw [List.range_eq_range', List.drop_range']
  simp only [Nat.mul_one, Nat.zero_add, Array.getElem?_toList]

/-! ### 6. integer sequences -/

theorem slice_eq (xs : Array Nat) (a b : Nat) : slice xs a b = (xs.toList.take b).drop a := rfl

theorem slice_length (xs : Array Nat) (a b : Nat) : (slice xs a b).length = min b xs.size - a := by
  simp [slice]

theorem slice_getElem? (xs : Array Nat) (a b j : Nat) :
    (slice xs a b)[j]? = if a + j < b then xs.toList[a + j]? else none := by
  unfold slice
  rw [List.getElem?_drop, List.getElem?_take]

/-- **occ** -/
theorem occ_eq (xs : Array Nat) (a b v : Nat) : occ xs a b v = ((xs.toList.take b).drop a).count v := rfl

/-- **selectVal** -/
theorem selectVal_eq (xs : Array Nat) (k v : Nat) :
    selectVal xs k v = sel (fun i => decide (xs.toList[i]? = some v)) xs.size k := by
  unfold selectVal
  rw [DAProof.filter_range_getElem?]
  have : (fun i : Nat => decide (xs[i]? = some v)) = (fun i : Nat => decide (xs.toList[i]? = some v)) := by
    funext i; rw [Array.getElem?_toList]
  rw [this]

/-- `occ` in the counting vocabulary: occurrences in `[a, b)` are the difference of two prefix counts -/
theorem count_take (l : List Nat) (v : Nat) : ∀ (b : Nat),
    (l.take b).count v = cnt (fun i => decide (l[i]? = some v)) b := by
  intro b
  induction b with
  | zero => simp [cnt]
  | succ b ih =>
    simp only [cnt]
    rw [← ih]
    by_cases hb : b < l.length
    · have hg : l[b]? = some l[b] := List.getElem?_eq_getElem hb
      rw [List.take_succ_eq_append_getElem hb, List.count_append]
      by_cases he : l[b] = v <;> simp [he, hg, List.count_cons]
    · have hg : l[b]? = none := List.getElem?_eq_none (by omega)
      rw [List.take_of_length_le (by omega), List.take_of_length_le (by omega)]
      simp [hg]

theorem occ_eq_cnt (xs : Array Nat) (a b v : Nat) (hab : a ≤ b) :
    occ xs a b v = cnt (fun i => decide (xs.toList[i]? = some v)) b
                 - cnt (fun i => decide (xs.toList[i]? = some v)) a := by
  rw [occ_eq, ← count_take, ← count_take]
  have h1 : xs.toList.take b = (xs.toList.take b).take a ++ (xs.toList.take b).drop a :=
    (List.take_append_drop a _).symm
  have h2 : (xs.toList.take b).take a = xs.toList.take a := by
    rw [List.take_take, Nat.min_eq_left hab]
  have h3 : (xs.toList.take b).count v = (xs.toList.take a).count v + ((xs.toList.take b).drop a).count v := by
    conv => lhs; rw [h1, List.count_append, h2]
  omega

/-- **sort** is a sorted permutation … -/
theorem sort_perm (l : List Nat) : (sort l).Perm l := Wav.sort_perm l
theorem sort_sorted (l : List Nat) : (sort l).Pairwise (· ≤ ·) := Wav.sort_sorted l

theorem sorted_perm_unique : ∀ (l₁ l₂ : List Nat), l₁.Pairwise (· ≤ ·) → l₂.Pairwise (· ≤ ·) → l₁.Perm l₂ → l₁ = l₂
  | [], l₂, _, _, hp => (List.nil_perm.mp hp).symm
  | x :: t, [], _, _, hp => by have := hp.length_eq; simp at this
  | x :: t, y :: r, h1, h2, hp => by
    rw [List.pairwise_cons] at h1 h2
    have hxy : x = y := by
      have hx : x ∈ y :: r := hp.mem_iff.mp List.mem_cons_self
      have hy : y ∈ x :: t := hp.mem_iff.mpr List.mem_cons_self
      rcases List.mem_cons.mp hx with rfl | hx
      · rfl
      · rcases List.mem_cons.mp hy with rfl | hy
        · rfl
        · have := h1.1 y hy
          have := h2.1 x hx
          omega
    subst hxy
    rw [sorted_perm_unique t r h1.2 h2.2 (List.Perm.cons_inv hp)]

/-- … and the only one -/
theorem sort_unique (l s : List Nat) (hs : s.Pairwise (· ≤ ·)) (hp : s.Perm l) : sort l = s :=
  sorted_perm_unique _ _ (sort_sorted l) hs ((sort_perm l).trans hp.symm)

/-- **quantile** in the counting vocabulary of the wavelet proofs -/
theorem quantile_of_isQuant (xs : Array Nat) (a b k q : Nat) (hb : b ≤ xs.size) (hk : k < b - a)
    (h : Wav.IsQuant (slice xs a b) k q) : quantile xs a b k = some q := by
  unfold quantile
  rw [if_pos ⟨hb, hk⟩]
  exact Wav.sort_getElem_of_isQuant _ _ _ h

end Sucds.SpecX
