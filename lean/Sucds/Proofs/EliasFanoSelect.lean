import Sucds.Proofs.EliasFanoPush
set_option linter.unusedSimpArgs false
set_option linter.unusedVariables false
namespace Sucds
namespace EFB
open BV Spec

theorem sorted_getD_le (xs : List Nat) (hs : xs.Pairwise (· ≤ ·)) (i j : Nat) (hij : i < j) (hj : j < xs.length) :
    xs[i]?.getD 0 ≤ xs[j]?.getD 0 := by
  rw [List.pairwise_iff_getElem] at hs
  have hi : i < xs.length := by omega
  rw [List.getElem?_eq_getElem hi, List.getElem?_eq_getElem hj]
  exact hs i j hi hj hij

/-- **select**: given the answer of `select1` on the high bits (C02's theorem), `select(k)` is the k-th
    accepted value, `none` iff `k ≥ len` -/
theorem select_ok (b : EFB) (xs : List Nat) (h : Holds b xs) (k : Nat) :
    b.selectWith (sel b.high.bitAt b.high.len k) k = .ok xs[k]? := by
  unfold selectWith
  by_cases hk : b.pos ≤ k
  · have : xs.length ≤ k := by rw [← h.pos]; exact hk
    simp [hk, List.getElem?_eq_none this]
  · simp only [hk, if_false]
    have hk' : k < xs.length := by rw [← h.pos]; omega
    have hmono : ∀ i j, i < j → j < xs.length →
        (xs[i]?.getD 0 >>> b.lowLen) + i < (xs[j]?.getD 0 >>> b.lowLen) + j := by
      intro i j hij hj
      have := sorted_getD_le xs h.sorted i j hij hj
      have : xs[i]?.getD 0 >>> b.lowLen ≤ xs[j]?.getD 0 >>> b.lowLen := by
        rw [Nat.shiftRight_eq_div_pow, Nat.shiftRight_eq_div_pow]; exact Nat.div_le_div_right this
      omega
    have hxk : xs[k]?.getD 0 < b.univ := by
      rw [List.getElem?_eq_getElem hk']; exact h.bound _ (List.getElem_mem hk')
    have hN : (xs[k]?.getD 0 >>> b.lowLen) + k < b.high.len := by
      rw [h.hlen]
      have : xs[k]?.getD 0 >>> b.lowLen ≤ b.univ >>> b.lowLen := by
        rw [Nat.shiftRight_eq_div_pow, Nat.shiftRight_eq_div_pow]; exact Nat.div_le_div_right (by omega)
      have := h.cap; have := h.pos
      omega
    have hkth := UnaryCode.kth_one xs.length (fun j => (xs[j]?.getD 0 >>> b.lowLen) + j) b.high.bitAt hmono h.ones k hk' b.high.len hN
    rw [sel_eq_some _ _ _ _ hkth]
    simp only []
    -- the low chunk
    have hr : k * b.lowLen + b.lowLen ≤ b.low.len := by
      rw [h.llen]
      calc k * b.lowLen + b.lowLen = (k + 1) * b.lowLen := by rw [Nat.add_mul, Nat.one_mul]
        _ ≤ xs.length * b.lowLen := Nat.mul_le_mul_right _ (by omega)
    obtain ⟨lv, hlv, hbits⟩ := getBits_ok b.low h.linv (k * b.lowLen) b.lowLen (by have := h.llt; omega) hr
    rw [hlv]
    simp only [Except.bind]
    have hx : xs[k]?.getD 0 = xs[k] := by rw [List.getElem?_eq_getElem hk']; rfl
    rw [hx, List.getElem?_eq_getElem hk']
    congr 2
    -- bit-extensional: high part shifted back, low part below
    apply Nat.eq_of_testBit_eq
    intro j
    have e1 : xs[k] >>> b.lowLen + k - k = xs[k] >>> b.lowLen := Nat.add_sub_cancel _ _
    rw [e1, Nat.testBit_or, Nat.testBit_shiftLeft, Nat.testBit_shiftRight, hbits j]
    by_cases hj : j < b.lowLen
    · have : ¬ j ≥ b.lowLen := by omega
      have hl := h.lows k hk' j hj
      rw [hx] at hl
      simp [hj, this, hl]
    · have hge : j ≥ b.lowLen := by omega
      have : b.lowLen + (j - b.lowLen) = j := by omega
      simp [hj, hge, this]

end EFB
end Sucds
