import Sucds.Proofs.ConfigQueries
/-! C15, part B, Elias-Fano `binsearch_range` / `binsearch` on valid ranges. `C04.holds` only says that
    the answer is *an* index holding the value (any of them when the value is repeated), so equality
    of the answers in two configurations is not a corollary of it. Here the answer is pinned down as a
    function `searchSpec` of the stored list alone (binary phase on the list, then the first hit of
    the linear scan); configuration independence follows. -/
set_option linter.unusedSimpArgs false
set_option linter.unusedVariables false
namespace Sucds.Config
open Sucds Sucds.Spec Sucds.EFB Sucds.EFQ

/-- first index `j` in `[i, i + n)` with `xs[j] = v` -/
def firstHit (xs : List Nat) (v : Nat) : Nat → Nat → Option Nat
  | _, 0 => none
  | i, n+1 => if v = X xs i then some i else firstHit xs v (i + 1) n

/-- the binary phase of `binsearch_range`, on the list -/
def binSpec (xs : List Nat) (v : Nat) : Nat → Nat → Nat → Sum Nat (Nat × Nat)
  | lo, hi, 0 => .inr (lo, hi)
  | lo, hi, fuel+1 =>
    if hi - lo > Gen.EF_LINEAR_SCAN_THRESHOLD then
      if v = X xs ((lo + hi) / 2) then .inl ((lo + hi) / 2)
      else if v < X xs ((lo + hi) / 2) then binSpec xs v lo ((lo + hi) / 2) fuel
      else binSpec xs v ((lo + hi) / 2 + 1) hi fuel
    else .inr (lo, hi)

/-- what `binsearch_range(lo..hi, v)` answers, as a function of the stored list only -/
def searchSpec (xs : List Nat) (v lo hi : Nat) : Option Nat :=
  if hi ≤ lo ∨ xs.length < hi then none
  else match binSpec xs v lo hi 65 with
    | .inl i => some i
    | .inr (l, h) => firstHit xs v l (h - l)

section
variable {c : Cfg} {e : EF} {b : EFB} {xs : List Nat}

theorem binPhase_spec (S : Setting c e b xs) (v : Nat) : ∀ fuel lo hi, lo ≤ hi → hi ≤ xs.length →
    EF.binPhase c e v lo hi fuel = .ok (binSpec xs v lo hi fuel) := by
  intro fuel
  induction fuel with
  | zero => intro lo hi _ _; rfl
  | succ fuel ih =>
    intro lo hi h1 h2
    rw [EF.binPhase, binSpec]
    by_cases hT : hi - lo > Gen.EF_LINEAR_SCAN_THRESHOLD
    · simp only [hT, if_true]
      have hmi : (lo + hi) / 2 < xs.length := by omega
      rw [select_ok S, getElem?_X xs _ hmi, unwrapO_some, EFQ.bind_ok]
      by_cases he : v = X xs ((lo + hi) / 2)
      · simp only [he, if_true]
      · simp only [he, if_false]
        by_cases hl : v < X xs ((lo + hi) / 2)
        · simp only [hl, if_true]
          exact ih lo ((lo + hi) / 2) (by omega) (by omega)
        · simp only [hl, if_false]
          exact ih ((lo + hi) / 2 + 1) hi (by omega) h2
    · simp only [hT, if_false]

theorem scanPhase_first (S : Setting c e b xs) (v k : Nat) : ∀ cnt m it,
    Good b xs (ust c b.high (UIter.new b.high (hp b xs k))) k m it → k + m + cnt ≤ xs.length →
    EF.scanPhase c e v (k + m) it cnt = .ok (firstHit xs v (k + m) cnt) := by
  intro cnt
  induction cnt with
  | zero => intro m it _ _; rfl
  | succ cnt ih =>
    intro m it G hle
    obtain ⟨it', h1, G'⟩ := good_step S k m it G
    rw [EF.scanPhase, h1, EFQ.bind_ok, getElem?_X xs _ (by omega), firstHit]
    simp only []
    by_cases he : v = X xs (k + m)
    · simp only [he, if_true]
    · simp only [he, if_false]
      have := ih (m + 1) it' G' (by omega)
      rw [← Nat.add_assoc] at this
      exact this

/-- **`binsearch_range` is a function of the stored list** (every range, every value) -/
theorem binsearchRange_spec (S : Setting c e b xs) (lo hi v : Nat) :
    e.binsearchRange c lo hi v = .ok (searchSpec xs v lo hi) := by
  unfold searchSpec
  by_cases hc : hi ≤ lo ∨ xs.length < hi
  · rw [if_pos hc]; exact binsearchRange_none S lo hi v hc
  · rw [if_neg hc]
    unfold EF.binsearchRange
    rw [len_eq S]
    simp only [hc, if_false]
    obtain ⟨r, hr, hm⟩ := binPhase_ok S v 65 lo hi (by omega) (by omega)
    have hsp := binPhase_spec S v 65 lo hi (by omega) (by omega)
    rw [hsp] at hr
    have hr' : binSpec xs v lo hi 65 = r := by cases hr; rfl
    rw [hsp, EFQ.bind_ok, hr']
    cases r with
    | inl i => rfl
    | inr w =>
      obtain ⟨l2, h2'⟩ := w
      simp only at hm ⊢
      obtain ⟨g1, g2, g3, g4⟩ := hm
      obtain ⟨it0, hi0, G⟩ := iter_good S l2
      rw [hi0, EFQ.bind_ok]
      have := scanPhase_first S v l2 (h2' - l2) 0 it0 G (by omega)
      rw [Nat.add_zero] at this
      exact this
end

/-- C04, `binsearch_range` and `binsearch`: every range (valid or not), every value -/
theorem c04_binsearch (c c' : Cfg) (u m : Nat) (hist : List Nat) (hm : m ≠ 0) (hu : u < 2^64) :
    ∃ b0 b' e, EFB.new u m = some b0 ∧ EFB.run b0 hist = .ok (b', EFB.verdicts u m [] hist) ∧
      (EF.ofBuilder c b').enableRank c = e ∧ (EF.ofBuilder c' b').enableRank c' = e ∧
      (∀ lo hi v, e.binsearchRange c lo hi v = e.binsearchRange c' lo hi v) ∧
      (∀ v, e.binsearch c v = e.binsearch c' v) := by
  obtain ⟨b0, hn, hh, hu0, hm0⟩ := new_holds u m hm hu
  obtain ⟨b', hr, hh', hub, _⟩ := EFB.run_spec hist b0 [] hh
  rw [hu0, hm0] at hr hh'
  rw [hu0] at hub
  have hu' : b'.univ < 2^64 := by rw [hub]; exact hu
  have S := setting_enableRank c b' _ hh' hu' (high_enableRank c b' _ hh')
  have S' := setting_enableRank c' b' _ hh' hu' (high_enableRank c' b' _ hh')
  have ee : (EF.ofBuilder c' b').enableRank c' = (EF.ofBuilder c b').enableRank c := by
    rw [EF_ofBuilder_cfg c' c, EF_enableRank_cfg c' c]
  rw [ee] at S'
  have hb : ∀ lo hi v, ((EF.ofBuilder c b').enableRank c).binsearchRange c lo hi v =
      ((EF.ofBuilder c b').enableRank c).binsearchRange c' lo hi v := fun lo hi v => by
    rw [binsearchRange_spec S, binsearchRange_spec S']
  refine ⟨b0, b', _, hn, hr, rfl, ee, hb, fun v => ?_⟩
  unfold EF.binsearch
  exact hb _ _ _

end Sucds.Config
