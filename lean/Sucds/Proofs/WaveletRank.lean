import Sucds.Proofs.WaveletAccess
/-! Wavelet matrix, part 3: `rank_range`, `rank`. -/
set_option linter.unusedSimpArgs false
set_option linter.unusedVariables false
namespace Sucds.Wav
open Sucds Sucds.Spec WMr L

/-- `x` and `v` agree on the low `m` bits -/
def lowEq (m v x : Nat) : Bool := x % 2 ^ m == v % 2 ^ m

theorem lowEq_zero (v x : Nat) : lowEq 0 v x = true := by simp [lowEq, Nat.mod_one]

theorem lowEq_succ (m v x : Nat) : lowEq (m + 1) v x = ((bitOf m x == bitOf m v) && lowEq m v x) := by
  simp only [lowEq, bitOf, mod_succ_bit]
  have hx : x % 2 ^ m < 2 ^ m := Nat.mod_lt _ (Nat.pow_pos (by decide))
  have hv : v % 2 ^ m < 2 ^ m := Nat.mod_lt _ (Nat.pow_pos (by decide))
  generalize x % 2 ^ m = r at hx
  generalize v % 2 ^ m = t at hv
  generalize 2 ^ m = P at hx hv
  apply Bool.eq_iff_iff.mpr
  cases x.testBit m <;> cases v.testBit m <;> simp <;> omega

/-- on values below `2^m`, agreeing on the low `m` bits is equality -/
theorem lowEq_eq (m v x : Nat) (hv : v < 2 ^ m) (hx : x < 2 ^ m) : lowEq m v x = (x == v) := by
  simp only [lowEq, Nat.mod_eq_of_lt hv, Nat.mod_eq_of_lt hx]

theorem lowEq_one (m v : Nat) (hb : bitOf m v = true) :
    (fun x => lowEq m v x && bitOf m x) = lowEq (m + 1) v := by
  funext x; rw [lowEq_succ, hb, Bool.and_comm]; cases bitOf m x <;> rfl
theorem lowEq_nil (m v : Nat) (hb : bitOf m v = false) :
    (fun x => lowEq m v x && nbitOf m x) = lowEq (m + 1) v := by
  funext x; rw [lowEq_succ, hb, Bool.and_comm]; simp only [nbitOf, bitOf]; cases x.testBit m <;> rfl

/-- the positions of a slice `[a, b)` move to a slice of the partitioned sequence holding exactly the
    elements of the slice with the chosen bit (one side) -/
theorem slice_one (sh : Nat) (S : List Nat) (a b : Nat) (hab : a ≤ b) (hb : b ≤ S.length) :
    S.countP (nbitOf sh) + (S.take a).countP (bitOf sh) ≤ S.countP (nbitOf sh) + (S.take b).countP (bitOf sh) ∧
    S.countP (nbitOf sh) + (S.take b).countP (bitOf sh) ≤ S.length ∧
    ((part sh S).take (S.countP (nbitOf sh) + (S.take b).countP (bitOf sh))).drop
        (S.countP (nbitOf sh) + (S.take a).countP (bitOf sh)) = ((S.take b).drop a).filter (bitOf sh) := by
  have h1 := count_take_le (bitOf sh) S hab
  have h2 := count_le_take (bitOf sh) S b
  have h3 := countP_split sh S
  exact ⟨by omega, by omega, step_true sh S a b hab⟩

theorem slice_zero (sh : Nat) (S : List Nat) (a b : Nat) (hab : a ≤ b) (hb : b ≤ S.length) :
    (S.take a).countP (nbitOf sh) ≤ (S.take b).countP (nbitOf sh) ∧
    (S.take b).countP (nbitOf sh) ≤ S.length ∧
    ((part sh S).take ((S.take b).countP (nbitOf sh))).drop ((S.take a).countP (nbitOf sh))
      = ((S.take b).drop a).filter (nbitOf sh) := by
  have h1 := count_take_le (nbitOf sh) S hab
  have h2 := count_le_take (nbitOf sh) S b
  have h3 := countP_split sh S
  exact ⟨h1, by omega, step_false sh S a b hab⟩

theorem rankLoop_ok (c : Cfg) (width v : Nat) : ∀ (ls : List Lay) (S : List Nat) (depth a b : Nat),
    Chain c ls S → S.length < 2 ^ 64 → depth + ls.length = width → a ≤ b → b ≤ S.length →
    ∃ a' b', WM.rankLoop c width v ls depth a b = .ok (a', b') ∧ a' ≤ b' ∧
      b' - a' = ((S.take b).drop a).countP (lowEq ls.length v)
  | [], S, depth, a, b, _, _, _, hab, hb => by
    refine ⟨a, b, rfl, hab, ?_⟩
    have : lowEq 0 v = fun _ => true := by funext x; exact lowEq_zero v x
    simp only [List.length_nil, this, List.countP_true, List.length_drop, List.length_take]
    omega
  | l :: ls, S, depth, a, b, hc, hn, hw, hab, hb => by
    have hd := hc.head
    simp only [List.length_cons] at hw ⊢
    have hlen : (part ls.length S).length = S.length := part_length _ _
    have hsh : width - depth - 1 = ls.length := by omega
    rw [WM.rankLoop, getMsb_eq, hsh]
    by_cases hbit : bitOf ls.length v = true
    · obtain ⟨h1, h2, h3⟩ := slice_one ls.length S a b hab hb
      obtain ⟨a', b', hr, hle, hcnt⟩ := rankLoop_ok c width v ls (part ls.length S) (depth + 1) _ _ hc.tail
        (by omega) (by omega) h1 (by omega)
      refine ⟨a', b', ?_, hle, ?_⟩
      · simp only [hbit, if_true]
        rw [hd.rank1, if_pos (by omega), unwrapO_some, bind_ok, hd.rank1, if_pos hb, unwrapO_some, bind_ok,
          hd.numZeros, bind_ok, cadd_ok c (by omega), bind_ok, cadd_ok c (by omega), bind_ok]
        rw [Nat.add_comm ((S.take a).countP (bitOf ls.length)), Nat.add_comm ((S.take b).countP (bitOf ls.length))]
        exact hr
      · rw [hcnt, h3, List.countP_filter, lowEq_one _ _ hbit]
    · have hbit0 : bitOf ls.length v = false := by simpa using hbit
      obtain ⟨h1, h2, h3⟩ := slice_zero ls.length S a b hab hb
      obtain ⟨a', b', hr, hle, hcnt⟩ := rankLoop_ok c width v ls (part ls.length S) (depth + 1) _ _ hc.tail
        (by omega) (by omega) h1 (by omega)
      refine ⟨a', b', ?_, hle, ?_⟩
      · simp only [hbit0, Bool.false_eq_true, if_false]
        rw [hd.rank0, if_pos (by omega), unwrapO_some, bind_ok, hd.rank0, if_pos hb, unwrapO_some, bind_ok]
        exact hr
      · rw [hcnt, h3, List.countP_filter, lowEq_nil _ _ hbit0]

/-- **`rank_range`**: the number of occurrences of `v` in `s[a..b)`, for every `a`, `b`, `v`; no panic -/
theorem rankRange_ok (c : Cfg) (wm : WM) (s : List Nat) (h : Built c wm s) (a b v : Nat) :
    wm.rankRange c a b v = .ok (if b ≤ s.length then some (((s.take b).drop a).count v) else none) := by
  unfold WM.rankRange
  rw [h.len]
  by_cases hb : s.length < b
  · simp [hb, show ¬ b ≤ s.length by omega]
  · have hb' : b ≤ s.length := by omega
    simp only [hb, hb', if_true, if_false]
    by_cases hz : b ≤ a ∨ wm.alphSize ≤ v
    · simp only [hz, if_true]
      congr 2
      symm
      rw [List.count_eq_zero]
      intro hmem
      rcases hz with hz | hz
      · rw [List.drop_eq_nil_of_le (by rw [List.length_take]; omega)] at hmem; cases hmem
      · have hx := (foldl_max_ge s 0).2 v (List.mem_of_mem_take (List.mem_of_mem_drop hmem))
        rw [h.alph] at hz; omega
    · simp only [hz, if_false]
      have hab : a ≤ b := by omega
      have hv : v < wm.alphSize := by omega
      obtain ⟨a', b', hr, hle, hcnt⟩ := rankLoop_ok c wm.alphWidth v wm.layers.toList s 0 a b h.chain h.nlt
        (by simp [WM.alphWidth]) hab hb'
      rw [hr, bind_ok]
      simp only
      rw [hcnt, List.count_eq_countP]
      congr 2
      apply List.countP_congr
      intro x hx
      have hxs : x ∈ s := List.mem_of_mem_take (List.mem_of_mem_drop hx)
      rw [lowEq_eq _ _ _ (Nat.lt_of_lt_of_le hv h.alph_le) (h.elem_lt x hxs)]

/-- **`rank`** = `rank_range(0..pos)` -/
theorem rank_ok (c : Cfg) (wm : WM) (s : List Nat) (h : Built c wm s) (p v : Nat) :
    wm.rank c p v = .ok (if p ≤ s.length then some ((s.take p).count v) else none) := by
  unfold WM.rank; rw [rankRange_ok c wm s h]; simp

/-- in the terms of the executable spec of the test driver -/
theorem rankRange_spec (c : Cfg) (wm : WM) (s : List Nat) (h : Built c wm s) (a b v : Nat) :
    wm.rankRange c a b v = .ok (if b ≤ s.length then some (SpecX.occ s.toArray a b v) else none) :=
  rankRange_ok c wm s h a b v

end Sucds.Wav
