import Sucds.Proofs.SpaceBasic
import Sucds.Proofs.Rank9Full
/-! # C19, part 2 — `Rank9Sel`: `8·size_in_bytes ≤ 1.32·u + 2048` for every hint configuration.

The rank directory has `2·(⌈words/8⌉+1)` entries (`pairs_size`). The hint loops push an entry only when
the running count passes a threshold that grows by 1024 per entry, so the one-side table has at most
`ones/1024 + 1` entries and the zero-side table at most `(512·blocks − ones)/1024 + 1` (the zero count
includes the padding of the last block). -/
set_option linter.unusedSimpArgs false
set_option linter.unusedVariables false
namespace Sucds
namespace Space
open Codec R9Index

/-- `Rank9SelIndex::size_in_bytes` -/
theorem R9Index.codec_size (x : R9Index) :
    R9Index.codec.size x = 16 + 8 * x.pairs.size + optArrSize x.sel1 + optArrSize x.sel0 := by
  show 8 + ((arr u64).size x.pairs + ((opt (arr u64)).size x.sel1 + (opt (arr u64)).size x.sel0)) = _
  rw [arr_u64_size, opt_arr_u64_size, opt_arr_u64_size]; omega

/-- `Rank9Sel::size_in_bytes` -/
theorem R9.codec_size (x : R9) : R9.codec.size x = BV.codec.size x.bv + R9Index.codec.size x.rs := rfl

/-- number of 512-bit blocks of the directory -/
theorem numBlocks_le (c : Cfg) (bv : BV) (h : bv.Inv) : 8 * (buildRank c bv).numBlocks ≤ bv.words.size + 7 := by
  rw [numBlocks_eq c bv h]; split <;> omega

theorem pairs_size_nb (c : Cfg) (bv : BV) (h : bv.Inv) :
    (buildRank c bv).pairs.size = 2 * (buildRank c bv).numBlocks + 2 := by
  rw [numBlocks_eq c bv h, pairs_size c bv h]; split <;> omega

/-- **size of the one-side hint table**: at most `ones/1024 + 1` entries -/
theorem buildSelect1_size (c : Cfg) (bv : BV) (h : bv.Inv) (x : R9Index)
    (e : buildSelect1 (buildRank c bv) = .ok x) :
    x.pairs = (buildRank c bv).pairs ∧ x.len = bv.len ∧ x.sel0 = none ∧
    ∃ a, x.sel1 = some a ∧ 1 ≤ a.size ∧ 1024 * (a.size - 1) ≤ prefixPop c bv.words bv.words.size := by
  have hnb := numBlocks_eq c bv h
  have hsdm : 8 * (bv.words.size / 8) + bv.words.size % 8 = bv.words.size := Nat.div_add_mod _ 8
  have hcover : bv.words.size ≤ 8 * (buildRank c bv).numBlocks := by rw [hnb]; split <;> omega
  obtain ⟨st, e', h1, h2, h3⟩ := hintLoop_ok c bv h (buildRank c bv).numBlocks 0 (#[], Gen.R9_SELECT_ONES_PER_HINT)
    (by omega) ⟨by simp [hH], by simp [prefixPop], fun j hj => by simp at hj⟩
  unfold buildSelect1 at e
  rw [e', bind_ok] at e
  cases e
  refine ⟨rfl, rfl, rfl, _, rfl, by simp, ?_⟩
  simp only [Array.size_push, Nat.add_sub_cancel]
  by_cases h0 : st.1.size = 0
  · rw [h0]; omega
  · have := h3 (st.1.size - 1) (by omega)
    have hm := prefixPop_mono c bv.words (show 8 * (wordAt st.1 (st.1.size - 1) + 1) ≤ 8 * (buildRank c bv).numBlocks by omega)
    rw [prefixPop_beyond c bv.words _ hcover] at hm
    omega

/-- **size of the zero-side hint table**: at most `(512·blocks − ones)/1024 + 1` entries -/
theorem buildSelect0_size (c : Cfg) (bv : BV) (h : bv.Inv) (x y : R9Index) (hx : x.pairs = (buildRank c bv).pairs)
    (e : buildSelect0 c x = .ok y) :
    y.pairs = x.pairs ∧ y.len = x.len ∧ y.sel1 = x.sel1 ∧
    ∃ a, y.sel0 = some a ∧ 1 ≤ a.size ∧
      1024 * (a.size - 1) + prefixPop c bv.words bv.words.size ≤ 512 * (buildRank c bv).numBlocks := by
  have hnb := numBlocks_eq c bv h
  have e2 : x.numBlocks = (buildRank c bv).numBlocks := numBlocks_congr x _ hx
  have hsdm : 8 * (bv.words.size / 8) + bv.words.size % 8 = bv.words.size := Nat.div_add_mod _ 8
  have hcover : bv.words.size ≤ 8 * (buildRank c bv).numBlocks := by rw [hnb]; split <;> omega
  obtain ⟨st, e', h1, h2, h3⟩ := hintLoop0_ok c bv h x hx (buildRank c bv).numBlocks 0 (#[], Gen.R9_SELECT_ZEROS_PER_HINT)
    (by omega) ⟨by simp [hH0], by simp [prefixZ], fun j hj => by simp at hj⟩
  unfold buildSelect0 at e
  rw [e2, e', bind_ok] at e
  cases e
  refine ⟨rfl, rfl, rfl, _, rfl, by simp, ?_⟩
  simp only [Array.size_push, Nat.add_sub_cancel]
  have hle := prefixPop_le64 c bv.words h.lt (8 * (buildRank c bv).numBlocks)
  rw [prefixPop_beyond c bv.words _ hcover] at hle
  by_cases h0 : st.1.size = 0
  · rw [h0]; omega
  · have := h3 (st.1.size - 1) (by omega)
    have hm := prefixZ_mono c bv.words h.lt (show 8 * (wordAt st.1 (st.1.size - 1) + 1) ≤ 8 * (buildRank c bv).numBlocks by omega)
    unfold prefixZ at hm this
    rw [prefixPop_beyond c bv.words (8 * (buildRank c bv).numBlocks) hcover] at hm
    omega

/-- the two hint tables of the index produced by `build`, whatever the configuration: together they
    cost at most `8·(blocks/2 + 2) + 18` bytes -/
theorem build_hints (c : Cfg) (bv : BV) (h : bv.Inv) (h1 h0 : Bool) :
    ∃ rs, R9.build c bv h1 h0 = .ok ⟨bv, rs⟩ ∧ rs.pairs = (buildRank c bv).pairs ∧ rs.len = bv.len ∧
      2 * (optArrSize rs.sel1 + optArrSize rs.sel0) ≤ 8 * (buildRank c bv).numBlocks + 68 := by
  obtain ⟨rs1, e1, hp, hl, hs0, hw1⟩ := R9.stage1_ok c bv h h1
  obtain ⟨rs, e2, hp2, hl2, _, _⟩ := R9.stage2_ok c bv h rs1 hp hl hs0 hw1 h0
  refine ⟨rs, by unfold R9.build; rw [e1, bind_ok, e2], hp2, hl2, ?_⟩
  have hle := prefixPop_le64 c bv.words h.lt bv.words.size
  -- the one side
  have hone : (optArrSize rs1.sel1 = 1 ∨
      ∃ a, rs1.sel1 = some a ∧ 1 ≤ a.size ∧ 1024 * (a.size - 1) ≤ prefixPop c bv.words bv.words.size) := by
    cases h1 with
    | false =>
      simp only [Bool.false_eq_true, if_false] at e1
      cases e1; left; rfl
    | true =>
      simp only [if_true] at e1
      unfold R9.select1Hints R9.new at e1
      simp only [] at e1
      cases hb : buildSelect1 (buildRank c bv) with
      | error p => rw [hb] at e1; cases e1
      | ok z =>
        rw [hb, bind_ok] at e1
        cases e1
        obtain ⟨_, _, _, a, ha⟩ := buildSelect1_size c bv h _ hb
        right; exact ⟨a, ha⟩
  cases h0 with
  | false =>
    simp only [Bool.false_eq_true, if_false] at e2
    cases e2
    rw [hs0]
    show 2 * (optArrSize rs1.sel1 + 1) ≤ _
    rcases hone with ho | ⟨a, ha, ha1, ha2⟩
    · rw [ho]; omega
    · rw [ha]
      show 2 * (9 + 8 * a.size + 1) ≤ _
      have hcov : prefixPop c bv.words bv.words.size ≤ 512 * (buildRank c bv).numBlocks := by
        have hnb := numBlocks_eq c bv h
        have hsdm : 8 * (bv.words.size / 8) + bv.words.size % 8 = bv.words.size := Nat.div_add_mod _ 8
        have : bv.words.size ≤ 8 * (buildRank c bv).numBlocks := by rw [hnb]; split <;> omega
        omega
      omega
  | true =>
    simp only [if_true] at e2
    unfold R9.select0Hints at e2
    simp only [] at e2
    cases hb : buildSelect0 c rs1 with
    | error p => rw [hb] at e2; cases e2
    | ok z =>
      rw [hb, bind_ok] at e2
      cases e2
      obtain ⟨_, _, g3, b, hb0, hb1, hb2⟩ := buildSelect0_size c bv h rs1 _ hp hb
      rw [g3, hb0]
      show 2 * (optArrSize rs1.sel1 + (9 + 8 * b.size)) ≤ _
      rcases hone with ho | ⟨a, ha, ha1, ha2⟩
      · rw [ho]; omega
      · rw [ha]
        show 2 * (9 + 8 * a.size + (9 + 8 * b.size)) ≤ _
        omega

/-- **Rank9Sel** (C19): for every valid bit vector and every hint configuration the structure is built
    and `100·(8·size_in_bytes) ≤ 132·u + 204800`, i.e. `B ≤ 1.32·u + 2048`. -/
theorem rank9sel_bound (c : Cfg) (bv : BV) (h : bv.Inv) (h1 h0 : Bool) :
    ∃ x, R9.build c bv h1 h0 = .ok x ∧ 100 * (8 * R9.codec.size x) ≤ 132 * bv.len + 204800 := by
  obtain ⟨rs, e, hp, hl, hh⟩ := build_hints c bv h h1 h0
  refine ⟨⟨bv, rs⟩, e, ?_⟩
  rw [R9.codec_size, BV.codec_size, R9Index.codec_size]
  simp only []
  rw [hp, pairs_size_nb c bv h]
  have h1 := numBlocks_le c bv h
  have h2 := h.size
  omega

/-- the same, for whatever `build` returns -/
theorem rank9sel_bound' (c : Cfg) (bv : BV) (h : bv.Inv) (h1 h0 : Bool) (x : R9)
    (e : R9.build c bv h1 h0 = .ok x) : 100 * (8 * R9.codec.size x) ≤ 132 * bv.len + 204800 := by
  obtain ⟨y, e', hb⟩ := rank9sel_bound c bv h h1 h0
  rw [e] at e'; cases e'; exact hb

/-- the rank directory alone (as used by `DArray` with rank enabled) -/
theorem rank_index_bits (c : Cfg) (bv : BV) (h : bv.Inv) :
    8 * R9Index.codec.size (buildRank c bv) = 128 * (buildRank c bv).numBlocks + 272 := by
  rw [R9Index.codec_size, pairs_size_nb c bv h]
  show 8 * (16 + 8 * (2 * (buildRank c bv).numBlocks + 2) + 1 + 1) = _
  omega

end Space
end Sucds
