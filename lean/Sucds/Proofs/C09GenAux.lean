import Sucds.Proofs.GenCompactVector
import Sucds.Proofs.GenIterators
import Sucds.Proofs.GenBroadword
import Sucds.Proofs.GenBitVectorScan
import Sucds.Proofs.GenEFBuilder
/-! Helper lemmas for `Sucds/Props/C09Gen.lean`: the generated `CompactVector` operations agree with the model
    under bounds on the **resulting** contents only (a rejected `push_int` needs no bound at all, a failed
    `extend` only one for the items before the first misfit), for every width `0..=64` (width 0 is the `Default`
    vector returned by `from_slice(&[])`); and the generated `from_slice`. -/
set_option linter.unusedSimpArgs false
set_option linter.unusedVariables false
namespace Sucds.GenEq
open Sucds Sucds.CV

/-! ### the list semantics never shrinks the contents -/
theorem c09_specApply_len_le (w : Nat) (xs : List Nat) (op : Op) : xs.length ≤ (specApply w xs op).1.length := by
  cases op with
  | pushInt v => simp only [specApply]; split <;> simp
  | setInt p v => simp only [specApply]; split <;> simp
  | extend vs => simp [specApply]

theorem c09_specRun_len_le (w : Nat) (ops : List Op) : ∀ xs : List Nat, xs.length ≤ (specRun w xs ops).length := by
  induction ops with
  | nil => intro xs; exact Nat.le_refl _
  | cons op t ih => intro xs; exact Nat.le_trans (c09_specApply_len_le w xs op) (ih _)

theorem c09_specRun_cons (w : Nat) (xs : List Nat) (op : Op) (t : List Op) :
    specRun w xs (op :: t) = specRun w (specApply w xs op).1 t := rfl

theorem c09_specRun_split (w : Nat) (xs : List Nat) (pre post : List Op) (op : Op) :
    specRun w xs (pre ++ op :: post) = specRun w (specApply w (specRun w xs pre) op).1 post := by
  rw [specRun_append, c09_specRun_cons]

theorem c09_mul_le {a b w : Nat} (h : a ≤ b) : a * w ≤ b * w := Nat.mul_le_mul_right _ h

/-! ### `push_int` -/
theorem c09_misfit_true (v : CV) (xs : List Nat) (h : Rep v xs) (val : Nat) (hv : ¬ val < 2^v.width) (hv64 : val < 2^64) :
    CV.misfit v.width val = true := by
  cases hmf : CV.misfit v.width val with
  | true => rfl
  | false => exact absurd ((misfit_false_iff _ _ h.wle hv64).mp hmf) hv

/-- a value that does not fit is rejected before anything is computed: no size hypothesis -/
theorem c09_push_rej_gen (c : Cfg) (v : CV) (hw : v.width ≤ 64) (val : Nat) (hm : CV.misfit v.width val = true) :
    GenFn.CompactVector.push_int c v val = .ok (v, RS.Res.err) := by
  unfold GenFn.CompactVector.push_int GenFn.CompactVector.width
  rw [misfit_gen c _ _ hw, bind_ok, hm, if_pos rfl]

/-- `push_int`: generated = model; the size bound is only needed when the value is accepted -/
theorem c09_push_eq (c : Cfg) (v : CV) (xs : List Nat) (h : Rep v xs) (val : Nat) (hv64 : val < 2^64)
    (hsz : val < 2^v.width → (xs.length + 1) * v.width < 2^64 ∧ xs.length + 1 < 2^64) :
    GenFn.CompactVector.push_int c v val = (v.pushInt val).map cvRes := by
  by_cases hv : val < 2^v.width
  · obtain ⟨h1, h2⟩ := hsz hv
    rw [Nat.add_mul, Nat.one_mul] at h1
    exact cv_push_int_eq_of c v h.inv h.wle (by rw [h.clen, h.len]; exact h1) (by rw [h.len]; exact h2) val
  · rw [c09_push_rej_gen c v h.wle val (c09_misfit_true v xs h val hv hv64), pushInt_rej v xs h val hv hv64]; rfl

/-! ### `extend` -/
/-- the loop of `extend` under a bound on the accepted items only -/
theorem c09_extend_loop (c : Cfg) (vs : List Nat) : ∀ (v : CV) (xs : List Nat), Rep v xs → (∀ x ∈ vs, x < 2^64) →
    (xs.length + (vs.takeWhile fun x => decide (x < 2^v.width)).length) * v.width < 2^64 →
    xs.length + (vs.takeWhile fun x => decide (x < 2^v.width)).length < 2^64 →
    RS.forListB (fun x self1 => (GenFn.CompactVector.push_int c self1 x).bind fun r =>
        (match r.2 with
          | .err => .ok (.ret (r.1, RS.Res.err))
          | .ok _ => .ok (.next r.1) : R (RS.Step CV (CV × RS.Res Unit)))) vs v
      = (v.extend vs).map fun r => if r.2 then RS.Exit.done r.1 else RS.Exit.ret (r.1, RS.Res.err) := by
  induction vs with
  | nil => intro v _ _ _ _ _; rfl
  | cons x t ih =>
    intro v xs h hs hsz hl
    have hx64 : x < 2^64 := hs x (by simp)
    by_cases hx : x < 2^v.width
    · rw [List.takeWhile_cons, if_pos (by simpa using hx), List.length_cons] at hsz hl
      obtain ⟨v1, hp, hr, hw⟩ := pushInt_ok v xs h x hx hx64
      have hb : (xs.length + 1) * v.width ≤
          (xs.length + ((t.takeWhile fun x => decide (x < 2^v.width)).length + 1)) * v.width :=
        c09_mul_le (by omega)
      have := ih v1 (xs ++ [x]) hr (fun y hy => hs y (by simp [hy]))
        (by rw [hw, List.length_append, List.length_singleton, Nat.add_assoc, Nat.add_comm 1]; exact hsz)
        (by rw [hw, List.length_append, List.length_singleton]; omega)
      unfold RS.forListB CV.extend
      rw [c09_push_eq c v xs h x hx64 (fun _ => ⟨by omega, by omega⟩), hp]
      simp only [Except.map, bind_ok, cvRes, if_true]
      exact this
    · unfold RS.forListB CV.extend
      rw [c09_push_eq c v xs h x hx64 (fun hx' => absurd hx' hx), pushInt_rej v xs h x hx hx64]
      rfl

/-- `extend`: generated = model, under a bound on what the vector holds afterwards -/
theorem c09_extend_eq (c : Cfg) (v : CV) (xs : List Nat) (h : Rep v xs) (vs : List Nat) (hs : ∀ x ∈ vs, x < 2^64)
    (hsz : (xs.length + (vs.takeWhile fun x => decide (x < 2^v.width)).length) * v.width < 2^64)
    (hl : xs.length + (vs.takeWhile fun x => decide (x < 2^v.width)).length < 2^64) :
    GenFn.CompactVector.extend c v vs = (v.extend vs).map cvRes := by
  unfold GenFn.CompactVector.extend
  refine Eq.trans (congrArg (fun z => Except.bind z _) (c09_extend_loop c vs v xs h hs hsz hl)) ?_
  cases he : v.extend vs with
  | error e => rfl
  | ok r =>
    rcases r with ⟨v1, fl⟩
    cases fl <;> rfl

/-! ### `from_int`, rejected: decided before the capacity is computed -/
theorem c09_from_int_rej (c : Cfg) (val len width : Nat) (hv : val < 2^64)
    (h : ¬ ((1 ≤ width ∧ width ≤ 64) ∧ val < 2^width)) :
    GenFn.CompactVector.from_int c val len width = .ok RS.Res.err := by
  unfold GenFn.CompactVector.from_int
  by_cases hw : 1 ≤ width ∧ width ≤ 64
  · have hnf : ¬ val < 2^width := fun hf => h ⟨hw, hf⟩
    have hm : (decide (width < 64) && (val >>> width != 0)) = true := by
      rw [fitcheck_eq_misfit width val hw.2]
      cases hmf : CV.misfit width val with
      | true => rfl
      | false => exact absurd ((misfit_false_iff _ _ hw.2 hv).mp hmf) hnf
    rw [if_neg (not_not_intro ((width_check_iff width).2 hw)), fitcheck_gen, bind_ok, hm, if_pos rfl]
  · rw [if_pos (fun h' => hw ((width_check_iff width).1 h'))]

theorem new_rep_of (w : Nat) (h1 : 1 ≤ w) (h2 : w ≤ 64) : Rep (⟨BV.new, 0, w⟩ : CV) [] := by
  obtain ⟨v, hn, hr, _⟩ := new_rep w h1 h2
  unfold CV.new at hn
  rw [if_pos ⟨h1, h2⟩] at hn
  injection hn with hn
  subst hn; exact hr

/-! ### `from_slice` -/
/-- the loop computing the maximum never returns early -/
theorem c09_max_loop {ρ : Type} (body : Nat → Nat → R (RS.Step Nat ρ))
    (hbody : ∀ x a, body x a = .ok (.next (Nat.max a x))) (l : List Nat) :
    ∀ a : Nat, RS.forListB body l a = .ok (.done (l.foldl max a)) := by
  induction l with
  | nil => intro a; rfl
  | cons x t ih =>
    intro a
    unfold RS.forListB
    rw [hbody, bind_ok]
    exact ih _

/-- the loop `for x in vals { cv.push_int(x).unwrap() }` -/
theorem c09_push_all_loop (c : Cfg) (body : Nat → CV → R CV)
    (hbody : ∀ x v, body x v = (GenFn.CompactVector.push_int c v x).bind fun r =>
      (RS.unwrapRes r.2).bind fun _ => .ok r.1)
    (vs : List Nat) : ∀ (v : CV) (xs : List Nat), Rep v xs → (∀ x ∈ vs, x < 2^64) →
      (xs.length + vs.length) * v.width < 2^64 → xs.length + vs.length < 2^64 →
      RS.forList body vs v = (v.extend vs).bind fun r => if r.2 then .ok r.1 else .error .unwrapNone := by
  induction vs with
  | nil => intro v _ _ _ _ _; rfl
  | cons x t ih =>
    intro v xs h hs hsz hl
    rw [List.length_cons] at hsz hl
    have hx64 : x < 2^64 := hs x (by simp)
    have hb : (xs.length + 1) * v.width ≤ (xs.length + (t.length + 1)) * v.width := c09_mul_le (by omega)
    unfold RS.forList CV.extend
    rw [hbody, c09_push_eq c v xs h x hx64 (fun _ => ⟨by omega, by omega⟩)]
    by_cases hx : x < 2^v.width
    · obtain ⟨v1, hp, hr, hw⟩ := pushInt_ok v xs h x hx hx64
      have := ih v1 (xs ++ [x]) hr (fun y hy => hs y (by simp [hy]))
        (by rw [hw, List.length_append, List.length_singleton, Nat.add_assoc, Nat.add_comm 1]; exact hsz)
        (by rw [List.length_append, List.length_singleton]; omega)
      rw [hp]
      simp only [Except.map, bind_ok, cvRes, if_true, RS.unwrapRes]
      exact this
    · rw [pushInt_rej v xs h x hx hx64]; rfl

/-- `CompactVector::from_slice`: generated = model (`Err ↦ none`), for `usize` values and a bound on the bits stored -/
theorem c09_from_slice_eq (c : Cfg) (vals : List Nat) (hs : ∀ x ∈ vals, x < 2^64)
    (hsz : vals.length * CV.bitlen (vals.foldl max 0) + 64 < 2^64) :
    GenFn.CompactVector.from_slice c vals.toArray = (CV.fromSlice c vals).map resOpt := by
  cases vals with
  | nil => rfl
  | cons a t =>
    have hm64 : (a :: t).foldl max 0 < 2^64 := CV.foldl_max_lt (a :: t) (2^64) 0 (by decide) hs
    have h1 := CV.bitlen_pos ((a :: t).foldl max 0)
    have h2 := CV.bitlen_le_64 _ hm64
    unfold GenFn.CompactVector.from_slice CV.fromSlice
    simp only [List.size_toArray, List.toList_toArray]
    rw [if_neg (by simp), c09_max_loop _ (fun _ _ => rfl), bind_ok]
    simp only []
    rw [needed_bits_spec c _ hm64, bind_ok, CV.neededBits_eq c _ hm64]
    show (GenFn.CompactVector.with_capacity c (a :: t).length (CV.bitlen ((a :: t).foldl max 0))).bind _ = _
    rw [cv_with_capacity_eq c _ _ hsz, bind_ok]
    generalize CV.bitlen ((a :: t).foldl max 0) = w at h1 h2 hsz
    unfold CV.new
    rw [if_pos ⟨h1, h2⟩]
    simp only []
    have hl : 0 + (a :: t).length < 2^64 := by
      have := Nat.mul_le_mul_left (a :: t).length h1
      omega
    have key := fun body hb => c09_push_all_loop c body hb (a :: t) ⟨BV.new, 0, w⟩ [] (new_rep_of w h1 h2) hs
      (by rw [List.length_nil, Nat.zero_add]; show (a :: t).length * w < 2^64; omega) hl
    rw [key]
    case hb => intro _ _; rfl
    cases he : (⟨BV.new, 0, w⟩ : CV).extend (a :: t) with
    | error e => rfl
    | ok r =>
      rcases r with ⟨v1, fl⟩
      cases fl <;> rfl

end Sucds.GenEq
