import Sucds.Gen.Fns
import Sucds.Proofs.GenBroadword
import Sucds.Proofs.GenBitVectorRW
import Sucds.Proofs.GenRank9Sel
import Sucds.Proofs.GenDacsWidths
import Sucds.Proofs.GenIterators
import Sucds.Proofs.DacsAccess
import Sucds.Props.C11
set_option linter.unusedSimpArgs false
set_option linter.unusedVariables false
namespace Sucds.GenEq
open Sucds Sucds.Dac

/-! ### general lemmas -/
theorem list_mapM_ok {α β : Type} (f : α → R β) (g : α → β) :
    ∀ (l : List α), (∀ x ∈ l, f x = .ok (g x)) → l.mapM f = .ok (l.map g) := by
  intro l
  induction l with
  | nil => intro _; rfl
  | cons a t ih =>
    intro h
    rw [List.mapM_cons, h a (by simp), ih (fun x hx => h x (by simp [hx]))]
    rfl

theorem array_mapM_ok {α β : Type} (f : α → R β) (g : α → β) (a : Array α) (h : ∀ x ∈ a, f x = .ok (g x)) :
    a.mapM f = .ok (a.map g) := by
  rw [Array.mapM_eq_mapM_toList, list_mapM_ok f g a.toList (fun x hx => h x (Array.mem_toList_iff.mp hx))]
  have e : (List.map g a.toList).toArray = a.map g := by rw [← Array.toList_map, Array.toArray_toList]
  exact congrArg Except.ok e

theorem index_some {α : Type} (v : Array α) (i : Nat) (x : α) (h : v[i]? = some x) : RS.index v i = .ok x := by
  unfold RS.index; rw [h]
theorem index_none {α : Type} (v : Array α) (i : Nat) (h : v[i]? = none) : RS.index v i = .error .oob := by
  unfold RS.index; rw [h]
theorem index_lt {α : Type} (v : Array α) (i : Nat) (h : i < v.size) : RS.index v i = .ok v[i] := by
  unfold RS.index; rw [Array.getElem?_eq_getElem h]

theorem forCountB_succ {σ ρ : Type} (body : Nat → σ → R (RS.Step σ ρ)) (i n : Nat) (s : σ) :
    RS.forCountB body i (n+1) s = (body i s).bind fun r => match r with
      | .next s' => RS.forCountB body (i+1) n s'
      | .brk s' => .ok (.done s')
      | .ret v => .ok (.ret v) := rfl

theorem unwrap_some {α : Type} (x : α) : RS.unwrap (some x) = .ok x := rfl
theorem unwrap_none {α : Type} : RS.unwrap (none : Option α) = .error .unwrapNone := rfl

/-- `unwrapO r` followed by `k` is `r` followed by `RS.unwrap` and `k` -/
theorem unwrapO_bind {α β : Type} (r : R (Option α)) (k : α → R β) :
    (unwrapO r).bind k = r.bind fun o => (RS.unwrap o).bind k := by
  cases r with
  | error e => rfl
  | ok o => cases o <;> rfl

/-- `v[j] = f(v[j])` written as read / write is `Array.modify` -/
theorem modify_eq_set {α : Type} (v : Array α) (j : Nat) (f : α → α) (h : j < v.size) :
    v.setIfInBounds j (f v[j]) = v.modify j f := by
  apply Array.ext_getElem?
  intro i
  rw [Array.getElem?_setIfInBounds, Array.getElem?_modify]
  by_cases hij : j = i
  · subst hij; simp [h]
  · simp [hij]

/-! ## `DacsByte`: accessors -/
theorem dacs_byte_default_eq : GenFn.DacsByte.default = DacB.default := rfl

theorem dacs_byte_len_eq (d : DacB) : GenFn.DacsByte.len d = d.len := by
  unfold GenFn.DacsByte.len DacB.len RS.index
  cases d.data[0]? <;> rfl
theorem dacs_byte_num_vals_eq (d : DacB) : GenFn.DacsByte.num_vals d = d.len := dacs_byte_len_eq d
theorem dacs_byte_is_empty_eq (d : DacB) : GenFn.DacsByte.is_empty d = d.len.bind fun n => .ok (n == 0) := by
  unfold GenFn.DacsByte.is_empty
  rw [dacs_byte_len_eq]
theorem dacs_byte_num_levels_eq (d : DacB) : GenFn.DacsByte.num_levels d = d.numLevels := rfl
theorem dacs_byte_widths_eq (d : DacB) : (GenFn.DacsByte.widths d).toList = d.widths := by
  unfold GenFn.DacsByte.widths DacB.widths DacB.numLevels
  apply List.ext_getElem
  · simp
  · intro i h1 h2; simp; rfl
theorem dacs_byte_iter_eq (d : DacB) : GenFn.DacsByte.iter d = ⟨d, 0⟩ := rfl
theorem dacs_byte_iter_new_eq (d : DacB) : GenFn.dacs_byte_Iter.new d = ⟨d, 0⟩ := rfl

/-! ## `DacsByte::access` -/

/-- what `access` needs of the structure: at most 8 levels (the shift `j * 8` stays below 64) and a flag vector
    built by `Rank9Sel::new` from a well-formed bit vector under every level but the last.  Implied by the
    representation invariant `DacB.Rep` of the model proofs, hence true of every `from_slice` result. -/
structure DacBInv (c : Cfg) (d : DacB) : Prop where
  levels : d.data.size ≤ 8
  flags : ∀ j, j + 1 < d.data.size → ∃ bv, d.flags[j]? = some (R9.new c bv) ∧ bv.Inv

/-- the body of the level loop of `access`, as generated -/
def dacbAccBody (c : Cfg) (self : DacB) : Nat → Nat × Nat → R (RS.Step (Nat × Nat) (Option Nat)) := fun j st =>
  let x := st.1
  let pos1 := st.2
  (RS.index self.data j).bind fun t1 =>
  (RS.index t1 pos1).bind fun t2 =>
  (cmul c j GenFn.dacs_byte.LEVEL_WIDTH).bind fun t3 =>
  (cshl c t2 t3).bind fun t4 =>
  let x1 := (x ||| t4)
  (csub c (GenFn.DacsByte.num_levels self) 1).bind fun t5 =>
  (if (j == t5) then .ok true else
    (RS.index self.flags j).bind fun t6 =>
    (GenFn.Rank9Sel.access c t6 pos1).bind fun t7 =>
    (RS.unwrap t7).bind fun t8 =>
    .ok (!t8) : R _).bind fun b =>
  if b = true then
    .ok (.brk (x1, pos1))
  else
    (RS.index self.flags j).bind fun t9 =>
    (GenFn.Rank9Sel.rank1 c t9 pos1).bind fun t10 =>
    (RS.unwrap t10).bind fun t11 =>
    .ok (.next (x1, t11))

def dacbAccTail (ex : RS.Exit (Nat × Nat) (Option Nat)) : R (Option Nat) :=
  match ex with
    | .ret rv => .ok rv
    | .done st1 => .ok (some st1.1)

theorem dacs_byte_access_unfold (c : Cfg) (d : DacB) (pos : Nat) :
    GenFn.DacsByte.access c d pos =
      (GenFn.DacsByte.len d).bind fun t =>
        if t ≤ pos then .ok none
        else (RS.forCountB (dacbAccBody c d) 0 (d.data.size - 0) (0, pos)).bind dacbAccTail := rfl

/-- the level loop is the model's `walk` -/
theorem dacb_walk_eq (c : Cfg) (d : DacB) (h : DacBInv c d) :
    ∀ (fuel j pos x : Nat), j + fuel = d.data.size → pos < 2^64 →
      (RS.forCountB (dacbAccBody c d) j fuel (x, pos)).bind dacbAccTail
        = (DacB.walk c d j pos x fuel).bind fun x => .ok (some x) := by
  intro fuel
  induction fuel with
  | zero => intro j pos x _ _; rfl
  | succ fuel ih =>
    intro j pos x hj hpos
    have hlev := h.levels
    have hG : Gen.DACB_LEVEL_WIDTH = 8 := rfl
    rw [forCountB_succ]
    unfold DacB.walk
    conv => lhs; arg 1; arg 1; unfold dacbAccBody
    simp only [GenFn.dacs_byte.LEVEL_WIDTH, GenFn.DacsByte.num_levels, DacB.numLevels, hG]
    cases hd : d.data[j]? with
    | none => rw [index_none _ _ hd]; rfl
    | some lv =>
      rw [index_some _ _ _ hd, bok]
      simp only []
      cases hb : lv[pos]? with
      | none => rw [index_none _ _ hb]; rfl
      | some b =>
        rw [index_some _ _ _ hb, bok, cmul_ok c (by omega : j * 8 < 2^64), bok, cshl_ok c (by omega : j * 8 < 64), bok,
          csub_ok c (by omega : 1 ≤ d.data.size), bok]
        simp only []
        by_cases hlast : j = d.data.size - 1
        · have e : (j == d.data.size - 1) = true := by simp [hlast]
          rw [if_pos hlast, e, if_pos rfl, bok, if_pos rfl, bok]
          rfl
        · have e : (j == d.data.size - 1) = false := by simp [hlast]
          rw [if_neg hlast, e, if_neg (by simp)]
          obtain ⟨bv, hfl, hinv⟩ := h.flags j (by omega)
          rw [index_some _ _ _ hfl, bok, hfl]
          simp only []
          rw [rs_access_eq, unwrapO_bind]
          cases ha : (R9.new c bv).access pos with
          | error e => rfl
          | ok o =>
            cases o with
            | none => rfl
            | some bit =>
              cases bit with
              | false => rfl
              | true =>
                simp only [bok, unwrap_some, Bool.not_true, Bool.false_eq_true, if_false]
                rw [rs_rank1_eq c (R9.new c bv) hinv rfl pos hpos, unwrapO_bind]
                have hr : (R9.new c bv).rank1 c pos
                    = .ok (if pos ≤ bv.len then some (Spec.cnt bv.bitAt pos) else none) :=
                  R9Index.rank1_ok c bv hinv pos
                rw [hr]
                by_cases hp : pos ≤ bv.len
                · rw [if_pos hp]
                  simp only [bok, unwrap_some]
                  have hc : Spec.cnt bv.bitAt pos ≤ pos := Spec.cnt_le _ _
                  exact ih (j + 1) _ _ (by omega) (by omega)
                · rw [if_neg hp]; rfl

/-- **`DacsByte::access`**: generated = model, on every structure satisfying the invariant, every `usize` index -/
theorem dacs_byte_access_eq (c : Cfg) (d : DacB) (h : DacBInv c d) (pos : Nat) (hpos : pos < 2^64) :
    GenFn.DacsByte.access c d pos = d.access c pos := by
  rw [dacs_byte_access_unfold, dacs_byte_len_eq]
  unfold DacB.access
  cases d.len with
  | error e => rfl
  | ok n =>
    rw [bok, bok]
    by_cases hn : n ≤ pos
    · rw [if_pos hn, if_pos hn]
    · rw [if_neg hn, if_neg hn, Nat.sub_zero]
      exact dacb_walk_eq c d h d.data.size 0 pos 0 (by omega) hpos

end Sucds.GenEq
