import Sucds.Gen.Fns
import Sucds.Proofs.GenBroadword
import Sucds.Proofs.GenBitVectorRW
import Sucds.Proofs.GenCompactVector
import Sucds.Proofs.GenRank9Sel
import Sucds.Proofs.C09GenAux
import Sucds.Proofs.GenDacsWidths
import Sucds.Proofs.GenIterators
import Sucds.Proofs.DacsAccess
import Sucds.Props.C11
/-! # The functions generated from `src/int_vectors/dacs_byte.rs` agree with the model `DacB`

`Sucds.GenFn.DacsByte.{from_slice, build_from_slice, default, access, len, num_vals, is_empty, num_levels, widths, iter}`
and `Sucds.GenFn.dacs_byte_Iter.{new, next, size_hint}` (generated) versus `Sucds.DacB.{fromSlice, default, access, len,
numLevels, widths}` (hand-written model, `Sucds/Model/Dacs.lean`) and the index-iterator model `IndexIter`.

* `dacs_byte_from_slice_eq`: `from_slice` = `Ok (DacB.fromSlice …)` for every slice of `usize` values (the
  `assert_eq!(x, 0)` on the last level, the `u8` conversions, every index and every `push_bit` are shown to succeed).
* `dacs_byte_access_eq`: `access` = `DacB.access` on every structure with at most 8 levels whose flag vectors were built
  by `Rank9Sel::new` (`DacBInv`, implied by the invariant `DacB.Rep` of the C11 proofs), every `usize` index.
* `dacs_byte_c11`: the right-hand sides of `Props/C11.lean` and of the `DacsByte` clause of `Props/C17.lean`, stated
  for the generated functions.

General lemmas at the top (`list_mapM_ok`, `array_mapM_ok`, `forCountB_succ`, `index_some/none/lt`, `unwrapO_bind`,
`set!_eq_modify_of_get`, `dacSplit_cons2`) are reused by `GenDacsOpt`. -/
set_option linter.unusedSimpArgs false
set_option linter.unusedVariables false
namespace Sucds.GenEq
open Sucds Sucds.Dac

/-! ### general lemmas -/
theorem list_mapM_ok {α β : Type} (f : α → R β) (g : α → β) :
    ∀ (l : List α), (∀ x ∈ l, f x = .ok (g x)) → l.mapM f = .ok (l.map g) := by
  intro l
  induction l with
  | nil => intro _; rfl
  | cons a t ih =>
    intro h
    rw [List.mapM_cons, h a (by simp), ih (fun x hx => h x (by simp [hx]))]
    rfl

theorem array_mapM_ok {α β : Type} (f : α → R β) (g : α → β) (a : Array α) (h : ∀ x ∈ a, f x = .ok (g x)) :
    a.mapM f = .ok (a.map g) := by
  rw [Array.mapM_eq_mapM_toList, list_mapM_ok f g a.toList (fun x hx => h x (Array.mem_toList_iff.mp hx))]
  have e : (List.map g a.toList).toArray = a.map g := by rw [← Array.toList_map, Array.toArray_toList]
  exact congrArg Except.ok e

theorem index_some {α : Type} (v : Array α) (i : Nat) (x : α) (h : v[i]? = some x) : RS.index v i = .ok x := by
  unfold RS.index; rw [h]
theorem index_none {α : Type} (v : Array α) (i : Nat) (h : v[i]? = none) : RS.index v i = .error .oob := by
  unfold RS.index; rw [h]
theorem index_lt {α : Type} (v : Array α) (i : Nat) (h : i < v.size) : RS.index v i = .ok v[i] := by
  unfold RS.index; rw [Array.getElem?_eq_getElem h]

theorem forCountB_succ {σ ρ : Type} (body : Nat → σ → R (RS.Step σ ρ)) (i n : Nat) (s : σ) :
    RS.forCountB body i (n+1) s = (body i s).bind fun r => match r with
      | .next s' => RS.forCountB body (i+1) n s'
      | .brk s' => .ok (.done s')
      | .ret v => .ok (.ret v) := rfl

theorem db_unwrap_some {α : Type} (x : α) : RS.unwrap (some x) = .ok x := rfl
theorem unwrap_none {α : Type} : RS.unwrap (none : Option α) = .error .unwrapNone := rfl

/-- `unwrapO r` followed by `k` is `r` followed by `RS.unwrap` and `k` -/
theorem unwrapO_bind {α β : Type} (r : R (Option α)) (k : α → R β) :
    (unwrapO r).bind k = r.bind fun o => (RS.unwrap o).bind k := by
  cases r with
  | error e => rfl
  | ok o => cases o <;> rfl

/-- `v[j] = f(v[j])` written as read / write is `Array.modify` -/
theorem set!_eq_modify_of_get {α : Type} (v : Array α) (j : Nat) (f : α → α) (x : α) (h : v[j]? = some x) :
    v.set! j (f x) = v.modify j f := by
  apply Array.ext_getElem?
  intro i
  rw [Array.set!_eq_setIfInBounds, Array.getElem?_setIfInBounds, Array.getElem?_modify]
  by_cases hij : j = i
  · subst hij
    have hj : j < v.size := by
      apply Classical.byContradiction; intro hn
      rw [Array.getElem?_eq_none (by omega)] at h; cases h
    have hx : v[j] = x := by rw [Array.getElem?_eq_getElem hj] at h; exact Option.some.inj h
    simp [hj, hx]
  · simp [hij]

theorem get_lt_size {α : Type} (v : Array α) (j : Nat) (x : α) (h : v[j]? = some x) : j < v.size := by
  apply Classical.byContradiction; intro hn
  rw [Array.getElem?_eq_none (by omega)] at h; cases h

theorem dacSplit_cons2 (w w' : Nat) (ws : List Nat) (x : Nat) :
    dacSplit (w :: w' :: ws) x =
      if x >>> w = 0 then [(x &&& ((1 <<< w) - 1), some false)]
      else (x &&& ((1 <<< w) - 1), some true) :: dacSplit (w' :: ws) (x >>> w) := by
  rw [dacSplit]
  simp

theorem shr_lt_of_lt (y w s : Nat) (h : y < 2^(w + s)) : y >>> w < 2^s := by
  rw [Nat.shiftRight_eq_div_pow]
  apply Nat.div_lt_of_lt_mul
  rw [← Nat.pow_add]; exact h

theorem shr_eq_zero_of_lt (y w : Nat) (h : y < 2^w) : y >>> w = 0 := by
  rw [Nat.shiftRight_eq_div_pow]; exact Nat.div_eq_of_lt h

/-! ## `DacsByte`: accessors -/
theorem dacs_byte_default_eq : GenFn.DacsByte.default = DacB.default := rfl

theorem dacs_byte_len_eq (d : DacB) : GenFn.DacsByte.len d = d.len := by
  unfold GenFn.DacsByte.len DacB.len RS.index
  cases d.data[0]? <;> rfl
theorem dacs_byte_num_vals_eq (d : DacB) : GenFn.DacsByte.num_vals d = d.len := dacs_byte_len_eq d
theorem dacs_byte_is_empty_eq (d : DacB) : GenFn.DacsByte.is_empty d = d.len.bind fun n => .ok (n == 0) := by
  unfold GenFn.DacsByte.is_empty
  rw [dacs_byte_len_eq]
theorem dacs_byte_num_levels_eq (d : DacB) : GenFn.DacsByte.num_levels d = d.numLevels := rfl
theorem dacs_byte_widths_eq (d : DacB) : (GenFn.DacsByte.widths d).toList = d.widths := by
  unfold GenFn.DacsByte.widths DacB.widths DacB.numLevels
  apply List.ext_getElem
  · simp
  · intro i h1 h2; simp; rfl
theorem dacs_byte_iter_eq (d : DacB) : GenFn.DacsByte.iter d = ⟨d, 0⟩ := rfl
theorem dacs_byte_iter_new_eq (d : DacB) : GenFn.dacs_byte_Iter.new d = ⟨d, 0⟩ := rfl

/-! ## `DacsByte::access` -/

/-- what `access` needs of the structure: at most 8 levels (the shift `j * 8` stays below 64) and a flag vector
    built by `Rank9Sel::new` from a well-formed bit vector under every level but the last.  Implied by the
    representation invariant `DacB.Rep` of the model proofs, hence true of every `from_slice` result. -/
structure DacBInv (c : Cfg) (d : DacB) : Prop where
  levels : d.data.size ≤ 8
  flags : ∀ j, j + 1 < d.data.size → ∃ bv, d.flags[j]? = some (R9.new c bv) ∧ bv.Inv

/-- the body of the level loop of `access`, as generated -/
def dacbAccBody (c : Cfg) (self : DacB) : Nat → Nat × Nat → R (RS.Step (Nat × Nat) (Option Nat)) := fun j st =>
  let x := st.1
  let pos1 := st.2
  (RS.index self.data j).bind fun t1 =>
  (RS.index t1 pos1).bind fun t2 =>
  (cmul c j GenFn.dacs_byte.LEVEL_WIDTH).bind fun t3 =>
  (cshl c t2 t3).bind fun t4 =>
  let x1 := (x ||| t4)
  (csub c (GenFn.DacsByte.num_levels self) 1).bind fun t5 =>
  (if (j == t5) then .ok true else
    (RS.index self.flags j).bind fun t6 =>
    (GenFn.Rank9Sel.access c t6 pos1).bind fun t7 =>
    (RS.unwrap t7).bind fun t8 =>
    .ok (!t8) : R _).bind fun b =>
  if b = true then
    .ok (.brk (x1, pos1))
  else
    (RS.index self.flags j).bind fun t9 =>
    (GenFn.Rank9Sel.rank1 c t9 pos1).bind fun t10 =>
    (RS.unwrap t10).bind fun t11 =>
    .ok (.next (x1, t11))

def dacbAccTail (ex : RS.Exit (Nat × Nat) (Option Nat)) : R (Option Nat) :=
  match ex with
    | .ret rv => .ok rv
    | .done st1 => .ok (some st1.1)

theorem dacs_byte_access_unfold (c : Cfg) (d : DacB) (pos : Nat) :
    GenFn.DacsByte.access c d pos =
      (GenFn.DacsByte.len d).bind fun t =>
        if t ≤ pos then .ok none
        else (RS.forCountB (dacbAccBody c d) 0 (d.data.size - 0) (0, pos)).bind dacbAccTail := rfl

/-- the level loop is the model's `walk` -/
theorem dacb_walk_eq (c : Cfg) (d : DacB) (h : DacBInv c d) :
    ∀ (fuel j pos x : Nat), j + fuel = d.data.size → pos < 2^64 →
      (RS.forCountB (dacbAccBody c d) j fuel (x, pos)).bind dacbAccTail
        = (DacB.walk c d j pos x fuel).bind fun x => .ok (some x) := by
  intro fuel
  induction fuel with
  | zero => intro j pos x _ _; rfl
  | succ fuel ih =>
    intro j pos x hj hpos
    have hlev := h.levels
    have hG : Gen.DACB_LEVEL_WIDTH = 8 := rfl
    rw [forCountB_succ]
    unfold DacB.walk
    conv => lhs; arg 1; arg 1; unfold dacbAccBody
    simp only [GenFn.dacs_byte.LEVEL_WIDTH, GenFn.DacsByte.num_levels, DacB.numLevels, hG]
    cases hd : d.data[j]? with
    | none => rw [index_none _ _ hd]; rfl
    | some lv =>
      rw [index_some _ _ _ hd, bok]
      simp only []
      cases hb : lv[pos]? with
      | none => rw [index_none _ _ hb]; rfl
      | some b =>
        rw [index_some _ _ _ hb, bok, cmul_ok c (by omega : j * 8 < 2^64), bok, cshl_ok c (by omega : j * 8 < 64), bok,
          csub_ok c (by omega : 1 ≤ d.data.size), bok]
        simp only []
        by_cases hlast : j = d.data.size - 1
        · have e : (j == d.data.size - 1) = true := by simp [hlast]
          rw [if_pos hlast, e, if_pos rfl, bok, if_pos rfl, bok]
          rfl
        · have e : (j == d.data.size - 1) = false := by simp [hlast]
          rw [if_neg hlast, e, if_neg (by simp)]
          obtain ⟨bv, hfl, hinv⟩ := h.flags j (by omega)
          rw [index_some _ _ _ hfl, bok, hfl]
          simp only []
          rw [rs_access_eq, unwrapO_bind]
          cases ha : (R9.new c bv).access pos with
          | error e => rfl
          | ok o =>
            cases o with
            | none => rfl
            | some bit =>
              cases bit with
              | false => rfl
              | true =>
                simp only [bok, db_unwrap_some, Bool.not_true, Bool.false_eq_true, if_false]
                rw [rs_rank1_eq c (R9.new c bv) hinv rfl pos hpos, unwrapO_bind]
                have hr : (R9.new c bv).rank1 c pos
                    = .ok (if pos ≤ bv.len then some (Spec.cnt bv.bitAt pos) else none) :=
                  R9Index.rank1_ok c bv hinv pos
                rw [hr]
                by_cases hp : pos ≤ bv.len
                · rw [if_pos hp]
                  simp only [bok, db_unwrap_some]
                  have hc : Spec.cnt bv.bitAt pos ≤ pos := Spec.cnt_le _ _
                  exact ih (j + 1) _ _ (by omega) (by omega)
                · rw [if_neg hp]; rfl

/-- **`DacsByte::access`**: generated = model, on every structure satisfying the invariant, every `usize` index -/
theorem dacs_byte_access_eq (c : Cfg) (d : DacB) (h : DacBInv c d) (pos : Nat) (hpos : pos < 2^64) :
    GenFn.DacsByte.access c d pos = d.access c pos := by
  rw [dacs_byte_access_unfold, dacs_byte_len_eq]
  unfold DacB.access
  cases d.len with
  | error e => rfl
  | ok n =>
    rw [bok, bok]
    by_cases hn : n ≤ pos
    · rw [if_pos hn, if_pos hn]
    · rw [if_neg hn, if_neg hn, Nat.sub_zero]
      exact dacb_walk_eq c d h d.data.size 0 pos 0 (by omega) hpos

theorem dacb_inv_of_rep (c : Cfg) (ws vs : List Nat) (d : DacB) (hr : DacB.Rep c ws vs d) (h8 : ws.length ≤ 8) :
    DacBInv c d := by
  refine ⟨by rw [hr.dsize]; exact h8, ?_⟩
  intro j hj
  obtain ⟨bv, h1, h2, _⟩ := hr.flags j (by rw [← hr.dsize]; exact hj)
  exact ⟨bv, h1, h2⟩

theorem dacb_inv_fromSlice (c : Cfg) (vals : List Nat) (hv : ∀ v ∈ vals, v < 2^64) : DacBInv c (DacB.fromSlice c vals) :=
  dacb_inv_of_rep c _ vals _ (DacB.fromSlice_rep c vals hv)
    (by rw [List.length_replicate]; exact (DacB.levels_bounds vals hv).2.1)

/-- `access` on a `from_slice` result: generated = model -/
theorem dacs_byte_access_fromSlice_eq (c : Cfg) (vals : List Nat) (hv : ∀ v ∈ vals, v < 2^64) (pos : Nat) (hpos : pos < 2^64) :
    GenFn.DacsByte.access c (DacB.fromSlice c vals) pos = (DacB.fromSlice c vals).access c pos :=
  dacs_byte_access_eq c _ (dacb_inv_fromSlice c vals hv) pos hpos

/-! ## `dacs_byte::Iter` -/
open Sucds.IndexIter

def dbAbs (it : GenFn.dacs_byte_Iter) : It := ⟨it.pos⟩

theorem dacb_iter_next_eq (c : Cfg) (it : GenFn.dacs_byte_Iter) (xs : List Nat) (hI : DacBInv c it.seq)
    (hlen : it.seq.len = .ok xs.length) (hacc : ∀ i, it.seq.access c i = .ok xs[i]?) (hl : xs.length < 2^64) :
    GenFn.dacs_byte_Iter.next c it =
      .ok (⟨it.seq, (IndexIter.next xs.length (fun i => C17.okv (it.seq.access c i)) (dbAbs it)).2.pos⟩,
           (IndexIter.next xs.length (fun i => C17.okv (it.seq.access c i)) (dbAbs it)).1) := by
  obtain ⟨d, pos⟩ := it
  simp only [] at hI hlen hacc
  show ((GenFn.DacsByte.len d).bind fun t => (if pos < t then
      (GenFn.DacsByte.access c d pos).bind fun t1 => (RS.unwrap t1).bind fun x => (cadd c pos 1).bind fun p =>
        .ok ((⟨d, p⟩ : GenFn.dacs_byte_Iter), some x)
    else .ok (⟨d, pos⟩, none) : R _).bind fun j => .ok (j.1, j.2)) = _
  unfold IndexIter.next dbAbs
  rw [dacs_byte_len_eq, hlen, bok]
  by_cases hp : pos < xs.length
  · rw [if_pos hp, if_pos hp, dacs_byte_access_eq c d hI pos (by omega), hacc pos, List.getElem?_eq_getElem hp, bok,
      db_unwrap_some, bok, cadd_ok c (by omega), bok, bok]
    simp only [C17.okv, hacc pos, List.getElem?_eq_getElem hp]
  · rw [if_neg hp, if_neg hp, bok]

theorem dacb_iter_size_hint_eq (c : Cfg) (it : GenFn.dacs_byte_Iter) (n : Nat) (hlen : it.seq.len = .ok n)
    (hp : it.pos ≤ n) :
    GenFn.dacs_byte_Iter.size_hint c it = .ok (IndexIter.sizeHint n (dbAbs it)) := by
  unfold GenFn.dacs_byte_Iter.size_hint IndexIter.sizeHint dbAbs
  rw [dacs_byte_len_eq, hlen, bok, csub_ok c hp, bok]

/-- `n` calls of the generated `next`, each preceded by the generated `size_hint` -/
def dbRunN (c : Cfg) : GenFn.dacs_byte_Iter → Nat → R (List (Option Nat × (Nat × Option Nat)))
  | _, 0 => .ok []
  | it, n+1 =>
    (GenFn.dacs_byte_Iter.size_hint c it).bind fun sh =>
    (GenFn.dacs_byte_Iter.next c it).bind fun r =>
    (dbRunN c r.1 n).bind fun l => .ok ((r.2, sh) :: l)

theorem dacb_iter_runN (c : Cfg) (d : DacB) (xs : List Nat) (hI : DacBInv c d)
    (hlen : d.len = .ok xs.length) (hacc : ∀ i, d.access c i = .ok xs[i]?) (hl : xs.length < 2^64) :
    ∀ (n pos : Nat), pos ≤ xs.length →
      dbRunN c ⟨d, pos⟩ n = .ok (runN xs.length (fun i => C17.okv (d.access c i)) ⟨pos⟩ n) := by
  intro n
  induction n with
  | zero => intro pos _; rfl
  | succ n ih =>
    intro pos hp
    simp only [dbRunN, runN]
    rw [dacb_iter_size_hint_eq c ⟨d, pos⟩ xs.length hlen hp, bok, dacb_iter_next_eq c ⟨d, pos⟩ xs hI hlen hacc hl, bok]
    simp only [dbAbs]
    rw [ih _ (indexNext_pos_le xs.length _ ⟨pos⟩ hp), bok]

/-- C17 for the generated `DacsByte::iter` on the model's `from_slice` result: the stored values in order, then `None`
    forever, exact size hints -/
theorem dacs_byte_iter_c17 (c : Cfg) (vals : List Nat) (hv : ∀ v ∈ vals, v < 2^64) (hl : vals.length < 2^64) (n : Nat) :
    dbRunN c (GenFn.DacsByte.iter (DacB.fromSlice c vals)) n = .ok (C17.expected vals n) := by
  rw [dacs_byte_iter_eq, dacb_iter_runN c _ vals (dacb_inv_fromSlice c vals hv) (DacB.len_ok c vals hv)
    (DacB.access_ok c vals hv) hl n 0 (Nat.zero_le _)]
  rw [C17.holds.2.2.1 c vals hv n]

/-! ## `DacsByte::from_slice` -/

/-- the body of the level loop for one value, as generated -/
def dacbPushBody (c : Cfg) (num_levels : Nat) :
    Nat → Array (Array Nat) × Nat × Array BV → R (RS.Step (Array (Array Nat) × Nat × Array BV) Empty) := fun j st3 =>
  let data3 := st3.1
  let x4 := st3.2.1
  let flags2 := st3.2.2
  (RS.unwrapRes (if (x4 &&& GenFn.dacs_byte.LEVEL_MASK) < 256 then RS.Res.ok (x4 &&& GenFn.dacs_byte.LEVEL_MASK) else RS.Res.err)).bind fun t4 =>
  (RS.index data3 j).bind fun v =>
  (RS.setIndex data3 j (v.push t4)).bind fun arr =>
  (cshr c x4 GenFn.dacs_byte.LEVEL_WIDTH).bind fun x5 =>
  (csub c num_levels 1).bind fun t5 =>
  if j = t5 then
    (RS.assert (x5 == 0)).bind fun _ =>
    .ok (.brk (arr, x5, flags2))
  else
    if x5 = 0 then
      (RS.index flags2 j).bind fun self_ =>
      ((GenFn.BitVector.push_bit c self_ false)).bind fun r =>
      (RS.setIndex flags2 j r.1).bind fun arr1 =>
      .ok (.brk (arr, x5, arr1))
    else
      (RS.index flags2 j).bind fun self_1 =>
      ((GenFn.BitVector.push_bit c self_1 true)).bind fun r1 =>
      (RS.setIndex flags2 j r1.1).bind fun arr2 =>
      .ok (.next (arr, x5, arr2))

def dacbPushTail (ex1 : RS.Exit (Array (Array Nat) × Nat × Array BV) Empty) : R (Array (Array Nat) × Array BV) :=
  match ex1 with
    | .ret rv1 => nomatch rv1
    | .done st4 =>
      let data4 := st4.1
      let x6 := st4.2.1
      let flags3 := st4.2.2
      .ok (data4, flags3)

/-- the body of the loop over the values, as generated -/
def dacbValBody (c : Cfg) (num_levels : Nat) : Nat → Array (Array Nat) × Array BV → R (Array (Array Nat) × Array BV) :=
  fun x2 st2 =>
  let data2 := st2.1
  let flags1 := st2.2
  (RS.unwrap (some x2)).bind fun x3 =>
  (RS.forRangeB (ρ := Empty) 0 num_levels (data2, x3, flags1) (dacbPushBody c num_levels)).bind dacbPushTail

/-- what follows the computation of the maximum, as generated -/
def dacbTail (c : Cfg) (vals : Array Nat) (maxv2 : Nat) : R (RS.Res DacB) :=
  (GenFn.utils.needed_bits c maxv2).bind fun num_bits =>
  (GenFn.utils.ceiled_divide c num_bits GenFn.dacs_byte.LEVEL_WIDTH).bind fun num_levels =>
  (RS.assert (num_levels != 0)).bind fun _ =>
  if num_levels = 1 then
    (Array.mapM (fun x1 =>
        (RS.unwrap (some x1)).bind fun t1 =>
        RS.unwrapRes (if t1 < 256 then RS.Res.ok t1 else RS.Res.err)) vals).bind fun data =>
    .ok (RS.Res.ok ({ data := #[data], flags := #[] } : Sucds.DacB))
  else
    let data1 := (Array.replicate num_levels (#[]))
    (csub c num_levels 1).bind fun t3 =>
    let flags := (Array.replicate t3 ({ words := #[], len := 0 } : Sucds.BV))
    (RS.forList (dacbValBody c num_levels) vals.toList (data1, flags)).bind fun st5 =>
    let data5 := st5.1
    let flags4 := st5.2
    (Array.mapM (fun x__ =>
        (GenFn.Rank9Sel.new c x__)) flags4).bind fun flags5 =>
    .ok (RS.Res.ok ({ data := data5, flags := flags5 } : Sucds.DacB))

theorem dacs_byte_from_slice_unfold (c : Cfg) (vals : Array Nat) :
    GenFn.DacsByte.from_slice c vals =
      if (vals.size == 0) = true then .ok (RS.Res.ok GenFn.DacsByte.default)
      else
        (RS.forListB (fun x maxv => (.ok (.next (Nat.max maxv x)) : R (RS.Step Nat (RS.Res DacB)))) vals.toList 0).bind fun ex =>
        match ex with
          | .ret rv => .ok rv
          | .done st1 => dacbTail c vals st1 := rfl

/-- the level loop for one value is the model's `pushVal` on the chunks of `dacSplit` (the `assert_eq!(x, 0)` on the
    last level holds because the value fits the remaining levels) -/
theorem dacb_push_loop (c : Cfg) (n : Nat) :
    ∀ (m j y : Nat) (data : Array (Array Nat)) (flags : Array BV), j + (m + 1) = n → data.size = n →
      flags.size = n - 1 →
      (∀ i, j ≤ i → i + 1 < n → ∃ bv, flags[i]? = some bv ∧ bv.Inv ∧ bv.len + 1 < 2^64) →
      y < 2^(8 * (m + 1)) →
      (RS.forCountB (dacbPushBody c n) j (m + 1) (data, y, flags)).bind dacbPushTail =
        .ok (DacB.pushVal data flags j (dacSplit (List.replicate (m + 1) 8) y)) := by
  intro m
  induction m with
  | zero =>
    intro j y data flags hj hd hf hfl hy
    have hjd : j < data.size := by omega
    have hmask : y &&& 255 < 256 := Nat.and_lt_two_pow y (by decide : 255 < 2^8)
    have hz : y >>> 8 = 0 := shr_eq_zero_of_lt y 8 (by simpa using hy)
    rw [forCountB_succ]
    conv => lhs; arg 1; arg 1; unfold dacbPushBody
    simp only [GenFn.dacs_byte.LEVEL_MASK, GenFn.dacs_byte.LEVEL_WIDTH]
    rw [if_pos hmask, unwrapRes_ok, bok, index_lt _ _ hjd, bok, setIndex_ok _ _ _ hjd, bok,
      cshr_ok c (by decide : 8 < 64), bok, csub_ok c (by omega : 1 ≤ n), bok, if_pos (by omega), hz,
      Cow.assert_ok (0 == 0) rfl, bok, bok]
    have hdm : data.set! j (data[j].push (y &&& 255)) = data.modify j (fun d => d.push (y &&& 255)) :=
      set!_eq_modify_of_get data j (fun d => d.push (y &&& 255)) data[j] (Array.getElem?_eq_getElem hjd)
    simp only [List.replicate, dacSplit, DacB.pushVal]
    rw [hdm]
    rfl
  | succ m ih =>
    intro j y data flags hj hd hf hfl hy
    have hjd : j < data.size := by omega
    have hmask : y &&& 255 < 256 := Nat.and_lt_two_pow y (by decide : 255 < 2^8)
    obtain ⟨bv, hbv, hinv, hlen⟩ := hfl j (Nat.le_refl _) (by omega)
    have hjf : j < flags.size := get_lt_size _ _ _ hbv
    have hy' : y >>> 8 < 2^(8 * (m + 1)) := shr_lt_of_lt y 8 _ (by rw [show 8 + 8 * (m + 1) = 8 * (m + 1 + 1) by omega]; exact hy)
    have hdm : data.set! j (data[j].push (y &&& 255)) = data.modify j (fun d => d.push (y &&& 255)) :=
      set!_eq_modify_of_get data j (fun d => d.push (y &&& 255)) data[j] (Array.getElem?_eq_getElem hjd)
    rw [forCountB_succ]
    conv => lhs; arg 1; arg 1; unfold dacbPushBody
    simp only [GenFn.dacs_byte.LEVEL_MASK, GenFn.dacs_byte.LEVEL_WIDTH]
    rw [if_pos hmask, unwrapRes_ok, bok, index_lt _ _ hjd, bok, setIndex_ok _ _ _ hjd, bok,
      cshr_ok c (by decide : 8 < 64), bok, csub_ok c (by omega : 1 ≤ n), bok, if_neg (by omega), hdm]
    rw [show List.replicate (m + 1 + 1) 8 = 8 :: 8 :: List.replicate m 8 from rfl, dacSplit_cons2]
    by_cases hz : y >>> 8 = 0
    · rw [if_pos hz, if_pos hz, index_some _ _ _ hbv, bok, push_bit_eq c bv hinv false hlen, bok,
        setIndex_ok _ _ _ hjf, bok, bok]
      simp only [DacB.pushVal]
      rw [set!_eq_modify_of_get flags j (fun f => f.pushBit false) bv hbv]
      rfl
    · rw [if_neg hz, if_neg hz, index_some _ _ _ hbv, bok, push_bit_eq c bv hinv true hlen, bok,
        setIndex_ok _ _ _ hjf, bok, bok]
      simp only []
      rw [set!_eq_modify_of_get flags j (fun f => f.pushBit true) bv hbv]
      have hz' := ih (j + 1) (y >>> 8) (data.modify j (fun d => d.push (y &&& 255)))
        (flags.modify j (fun f => f.pushBit true)) (by omega) (by rw [Array.size_modify]; exact hd)
        (by rw [Array.size_modify]; exact hf)
        (by
          intro i hji hin
          obtain ⟨bv', h1, h2, h3⟩ := hfl i (by omega) hin
          refine ⟨bv', ?_, h2, h3⟩
          rw [Array.getElem?_modify, if_neg (by omega)]; exact h1)
        hy'
      simp only [DacB.pushVal]
      exact hz'

theorem lev_length_le (ws vs : List Nat) (j : Nat) : (lev ws vs j).length ≤ vs.length := by
  induction j with
  | zero => exact Nat.le_refl _
  | succ j ih =>
    simp only [lev, Dac.next, List.length_map]
    exact Nat.le_trans (List.length_filter_le _ _) ih

/-- a flag vector during the build is well formed and no longer than the number of values pushed so far -/
theorem frep_flag (ws pre : List Nat) (flags : Array BV) (hf : FRep ws (lev ws pre) flags) (i : Nat)
    (hi : i + 1 < ws.length) : ∃ bv, flags[i]? = some bv ∧ bv.Inv ∧ bv.len ≤ pre.length := by
  obtain ⟨bv, h1, h2, h3⟩ := hf.flags i hi
  refine ⟨bv, h1, h2, ?_⟩
  have := congrArg List.length h3
  rw [BV.toList_length, List.length_map] at this
  rw [this]; exact lev_length_le ws pre i

/-- the loop over the values is the model's `foldl` of `pushVal` -/
theorem dacb_vals_loop (c : Cfg) (n : Nat) (hn : 2 ≤ n) :
    ∀ (xs pre : List Nat) (data : Array (Array Nat)) (flags : Array BV),
      DacB.DRep (List.replicate n 8) (lev (List.replicate n 8) pre) data →
      FRep (List.replicate n 8) (lev (List.replicate n 8) pre) flags →
      (∀ x ∈ xs, x < 2^(8 * n)) → pre.length + xs.length < 2^64 →
      RS.forList (dacbValBody c n) xs (data, flags) =
        .ok (xs.foldl (fun (s : Array (Array Nat) × Array BV) x =>
          DacB.pushVal s.1 s.2 0 (dacSplit (List.replicate n 8) x)) (data, flags)) := by
  have hne : List.replicate n 8 ≠ [] := by
    intro h; have := congrArg List.length h; simp at this; omega
  intro xs
  induction xs with
  | nil => intro _ _ _ _ _ _ _; rfl
  | cons x t ih =>
    intro pre data flags hd hf hx hl
    have hds := hd.dsize
    have hfs := hf.fsize
    rw [List.length_replicate] at hds hfs
    rw [List.length_cons] at hl
    have hstep := dacb_push_loop c n (n - 1) 0 x data flags (by omega) hds hfs
      (by
        intro i _ hin
        obtain ⟨bv, h1, h2, h3⟩ := frep_flag _ pre flags hf i (by rw [List.length_replicate]; exact hin)
        exact ⟨bv, h1, h2, by omega⟩)
      (by rw [show n - 1 + 1 = n by omega]; exact hx x (by simp))
    rw [show n - 1 + 1 = n by omega] at hstep
    have hs := DacB.foldl_spec (List.replicate n 8) hne [x] pre data flags hd hf
    rw [List.foldl_cons, List.foldl_nil] at hs
    unfold RS.forList
    unfold dacbValBody
    simp only []
    rw [db_unwrap_some, bok]
    unfold RS.forRangeB
    rw [Nat.sub_zero, hstep, bok, List.foldl_cons]
    exact ih (pre ++ [x]) _ _ hs.1 hs.2 (fun y hy => hx y (by simp [hy]))
      (by rw [List.length_append, List.length_singleton]; omega)

theorem ceiled_divide_eq (c : Cfg) (x y : Nat) (hy : 1 ≤ y) (h : x + y < 2^64) :
    GenFn.utils.ceiled_divide c x y = .ok ((x + y - 1) / y) := by
  unfold GenFn.utils.ceiled_divide RS.cdiv
  rw [cadd_ok c h, bok, csub_ok c (by omega), bok, if_neg (by omega)]

theorem toList_ne_nil {α : Type} (a : Array α) (h : a.size ≠ 0) : a.toList.isEmpty = false := by
  cases hl : a.toList with
  | nil => exfalso; apply h; rw [← Array.length_toList, hl]; rfl
  | cons x t => rfl

/-- **`DacsByte::from_slice`**: generated = model (always `Ok`), every build configuration, every slice of `usize`
    values (`vals.size < 2^64` is true of every slice) -/
theorem dacs_byte_from_slice_eq (c : Cfg) (vals : Array Nat) (hv : ∀ x ∈ vals, x < 2^64) (hn : vals.size < 2^64) :
    GenFn.DacsByte.from_slice c vals = .ok (RS.Res.ok (DacB.fromSlice c vals.toList)) := by
  rw [dacs_byte_from_slice_unfold]
  by_cases h0 : vals.size = 0
  · have : vals = #[] := Array.eq_empty_of_size_eq_zero h0
    subst this; rfl
  · have he : vals.toList.isEmpty = false := toList_ne_nil vals h0
    have hv' : ∀ v ∈ vals.toList, v < 2^64 := fun v h => hv v (Array.mem_toList_iff.mp h)
    have hmax := foldl_max_lt (2^64) vals.toList 0 (by decide) hv'
    have hnb := neededBits_eq c _ hmax
    have hb1 := bitlen_pos (vals.toList.foldl max 0)
    have hb2 := bitlen_le _ hmax
    have hG : Gen.DACB_LEVEL_WIDTH = 8 := rfl
    obtain ⟨hl1, hl2, hl3⟩ := DacB.levels_bounds vals.toList hv'
    have hlev : DacB.levels vals.toList = (neededBits c (vals.toList.foldl max 0) + 8 - 1) / 8 := by
      unfold DacB.levels
      rw [he, hnb]
      simp only [Bool.false_eq_true, if_false]
      omega
    rw [if_neg (by simp [h0]), c09_max_loop _ (fun _ _ => rfl), bok]
    simp only []
    unfold dacbTail
    simp only [GenFn.dacs_byte.LEVEL_WIDTH]
    rw [Cow.needed_bits_eq c _ hmax, bok, ceiled_divide_eq c _ 8 (by decide) (by rw [hnb]; omega), bok, ← hlev]
    rw [DacB.fromSlice_unfold c vals.toList he (DacB.levels vals.toList) (by rw [hG]; exact hlev)]
    generalize hnd : DacB.levels vals.toList = n at *
    rw [Cow.assert_ok _ (by simp; omega), bok]
    by_cases h1 : n = 1
    · rw [if_pos h1, if_pos h1]
      have h256 : ∀ x ∈ vals, x < 256 := by
        intro x hx
        have := hl3 x (Array.mem_toList_iff.mpr hx)
        rw [h1] at this; exact this
      rw [array_mapM_ok _ (fun x => x % 256) vals (by
        intro x hx
        rw [db_unwrap_some, bok, if_pos (h256 x hx), Nat.mod_eq_of_lt (h256 x hx)]; rfl), bok, Array.toArray_toList]
    · rw [if_neg h1, if_neg h1]
      rw [csub_ok c (by omega : 1 ≤ n), bok]
      have hd0 := DacB.DRep.init (List.replicate n 8)
      have hf0 := FRep.init (List.replicate n 8)
      rw [List.length_replicate] at hd0 hf0
      have hne : List.replicate n 8 ≠ [] := by
        intro h; have := congrArg List.length h; simp at this; omega
      rw [show ({ words := #[], len := 0 } : BV) = BV.new from rfl,
        dacb_vals_loop c n (by omega) vals.toList [] _ _ hd0 hf0
        (fun x hx => by rw [Nat.mul_comm]; exact hl3 x hx)
        (by rw [Array.length_toList]; simpa using hn), bok]
      have hs := DacB.foldl_spec (List.replicate n 8) hne vals.toList [] _ _ hd0 hf0
      rw [List.nil_append] at hs
      rw [hG]
      generalize (vals.toList.foldl (fun (s : Array (Array Nat) × Array BV) x =>
          DacB.pushVal s.1 s.2 0 (dacSplit (List.replicate n 8) x))
          (Array.replicate n #[], Array.replicate (n - 1) BV.new)) = r at hs
      rw [array_mapM_ok _ (R9.new c) r.2 (by
        intro bv hbv
        obtain ⟨i, hi⟩ := Array.getElem?_of_mem hbv
        have his := get_lt_size _ _ _ hi
        have hfs := hs.2.fsize
        rw [List.length_replicate] at hfs
        obtain ⟨bv', g1, g2, g3⟩ := frep_flag _ vals.toList r.2 hs.2 i (by rw [List.length_replicate]; omega)
        rw [hi] at g1
        cases g1
        rw [Array.length_toList] at g3
        exact rs_new_eq c bv g2 (by omega)), bok]

theorem dacs_byte_build_from_slice_eq (c : Cfg) (vals : Array Nat) (hv : ∀ x ∈ vals, x < 2^64) (hn : vals.size < 2^64) :
    GenFn.DacsByte.build_from_slice c vals = .ok (RS.Res.ok (DacB.fromSlice c vals.toList)) :=
  dacs_byte_from_slice_eq c vals hv hn

/-! ## C11 (and the `DacsByte` clause of C17) for the generated functions -/

/-- **C11 for the generated `DacsByte`**: for every build configuration and every slice of `usize` values, the
    generated `from_slice` (= `build_from_slice`) returns `Ok(d)` without panicking, and on `d` the generated `access`
    returns `vals[i]` for `i < n` and `None` for every other `usize` index, `len`/`num_vals` report `n`, the number of
    levels is `⌈bitlen(max)/8⌉` (1 for empty input), all widths are 8, and the generated iterator yields the input
    in order, then `None` forever, with exact size hints. -/
theorem dacs_byte_c11 (c : Cfg) (vals : Array Nat) (hv : ∀ x ∈ vals, x < 2^64) (hn : vals.size < 2^64) :
    ∃ d, GenFn.DacsByte.from_slice c vals = .ok (RS.Res.ok d) ∧
      GenFn.DacsByte.build_from_slice c vals = .ok (RS.Res.ok d) ∧
      d = DacB.fromSlice c vals.toList ∧
      (∀ i, i < 2^64 → GenFn.DacsByte.access c d i = .ok vals[i]?) ∧
      GenFn.DacsByte.len d = .ok vals.size ∧
      GenFn.DacsByte.num_vals d = .ok vals.size ∧
      GenFn.DacsByte.is_empty d = .ok (vals.size == 0) ∧
      GenFn.DacsByte.num_levels d = (if vals.size = 0 then 1 else (bitlen (vals.toList.foldl max 0) + 7) / 8) ∧
      (GenFn.DacsByte.widths d).toList = List.replicate (DacB.levels vals.toList) 8 ∧
      ∀ n, dbRunN c (GenFn.DacsByte.iter d) n = .ok (C17.expected vals.toList n) := by
  have hv' : ∀ v ∈ vals.toList, v < 2^64 := fun v h => hv v (Array.mem_toList_iff.mp h)
  obtain ⟨a1, a2, a3, a4⟩ := C11.holds c vals.toList hv'
  rw [Array.length_toList] at a2
  refine ⟨_, dacs_byte_from_slice_eq c vals hv hn, dacs_byte_build_from_slice_eq c vals hv hn, rfl, ?_, ?_, ?_, ?_, ?_, ?_, ?_⟩
  · intro i hi
    rw [dacs_byte_access_fromSlice_eq c _ hv' i hi, a1 i, Array.getElem?_toList]
  · rw [dacs_byte_len_eq, a2]
  · rw [dacs_byte_num_vals_eq, a2]
  · rw [dacs_byte_is_empty_eq, a2]; rfl
  · rw [dacs_byte_num_levels_eq, a3]
    by_cases h0 : vals.size = 0
    · have : vals = #[] := Array.eq_empty_of_size_eq_zero h0
      subst this; rfl
    · rw [toList_ne_nil vals h0, if_neg h0]; rfl
  · rw [dacs_byte_widths_eq, a4]
  · intro n
    exact dacs_byte_iter_c17 c vals.toList hv' (by rw [Array.length_toList]; exact hn) n

end Sucds.GenEq
