import Sucds.Proofs.GenDArray
import Sucds.Proofs.ConfigPrim
/-! # C15 over the generated definitions — the one fact no existing file states: `DArray::build_from_bits` returns
the same value in every build configuration

`Props/C02Gen.lean` has no `config_independent` theorem; `GenEq.da_config_independent` (`Proofs/GenDArray.lean`) states
that the generated queries answer the same on the two structures built in two configurations, but not that the two
structures are equal. They are: the generated constructor returns the model's `DA.build`
(`GenEq.da_build_from_bits_eq`), which is configuration independent (`Config.DA_build_cfg`). -/
namespace Sucds.GenEq
open Sucds

theorem da_build_from_bits_cfg (c c' : Cfg) (bs : List Bool) (rank sel1 sel0 : Bool) (hl : bs.length < 2^63) :
    GenFn.DArray.build_from_bits c bs rank sel1 sel0 = GenFn.DArray.build_from_bits c' bs rank sel1 sel0 := by
  rw [da_build_from_bits_eq c bs rank sel1 sel0 hl, da_build_from_bits_eq c' bs rank sel1 sel0 hl,
    Config.DA_build_cfg c c']

end Sucds.GenEq
