import Sucds.Proofs.DacsAccessWalk
import Sucds.Proofs.CompactVectorHistory
/-! DACs (C10, C11): the invariant of the build loops (`pushVal` per value, `foldl`/`pushAll` over the input):
    after the values `vs`, level `j` holds the chunks of `lev ws vs j` and flag vector `j` the `more` flags. -/
set_option linter.unusedSimpArgs false
set_option linter.unusedVariables false
namespace Sucds
open Spec Dac

namespace Dac

/-! ### `dacSplit` -/
theorem dacSplit_one (w x : Nat) : dacSplit [w] x = [(x % 2^w, none)] := by
  simp [dacSplit, mask_eq_mod]
theorem dacSplit_two (w w' : Nat) (ws : List Nat) (x : Nat) :
    dacSplit (w :: w' :: ws) x =
      if more w x = false then [(x % 2^w, some false)]
      else (x % 2^w, some true) :: dacSplit (w' :: ws) (x >>> w) := by
  rw [dacSplit]
  simp only [mask_eq_mod, more]
  · by_cases h : x >>> w = 0
    · simp [h]
    · simp [h]
  · simp

theorem drop_last (ws : List Nat) (j : Nat) (h : j + 1 = ws.length) : ws.drop j = [wd ws j] := by
  rw [List.drop_eq_getElem_cons (by omega), List.drop_of_length_le (by omega), wd_eq ws j (by omega)]
theorem drop_two (ws : List Nat) (j : Nat) (h : j + 1 < ws.length) :
    ws.drop j = wd ws j :: wd ws (j+1) :: ws.drop (j+2) := by
  rw [List.drop_eq_getElem_cons (by omega), List.drop_eq_getElem_cons (by omega), wd_eq ws j (by omega),
    wd_eq ws (j+1) (by omega)]

/-! ### the levels of a single value -/
theorem lev_single_nil (ws : List Nat) (x : Nat) (j : Nat) (h : lev ws [x] j = []) :
    ∀ k, j ≤ k → lev ws [x] k = [] := by
  intro k hk
  induction k with
  | zero => have : j = 0 := by omega
            subst this; exact h
  | succ k ih =>
    by_cases hjk : j = k + 1
    · subst hjk; exact h
    · simp only [lev, ih (by omega), next_nil]

/-- the part of value `x` already stored when the push loop is at level `j`, appended to `B` -/
def stage (ws : List Nat) (B : Nat → List Nat) (x j : Nat) : Nat → List Nat :=
  fun k => B k ++ (if k < j then lev ws [x] k else [])
/-- append `y` on level `j` -/
def upd (A : Nat → List Nat) (j y : Nat) : Nat → List Nat := fun k => if k = j then A k ++ [y] else A k

theorem stage_succ (ws : List Nat) (B : Nat → List Nat) (x j y : Nat) (h : lev ws [x] j = [y]) :
    stage ws B x (j+1) = upd (stage ws B x j) j y := by
  funext k
  unfold stage upd
  by_cases h1 : k < j
  · have : k < j + 1 := by omega
    have h2 : ¬ k = j := by omega
    simp [h1, this, h2]
  · by_cases h2 : k = j
    · subst h2; simp [h]
    · have : ¬ k < j + 1 := by omega
      simp [h1, h2, this]
theorem stage_zero (ws : List Nat) (B : Nat → List Nat) (x : Nat) : stage ws B x 0 = B := by
  funext k; simp [stage]

/-! ### flag vectors during the build -/
structure FRep (ws : List Nat) (A : Nat → List Nat) (flags : Array BV) : Prop where
  fsize : flags.size = ws.length - 1
  flags : ∀ j, j + 1 < ws.length →
    ∃ bv, flags[j]? = some bv ∧ bv.Inv ∧ bv.toList = (A j).map (more (wd ws j))

theorem FRep.congr {ws A A' flags} (h : FRep ws A flags) (e : ∀ k, k + 1 < ws.length → A k = A' k) :
    FRep ws A' flags :=
  ⟨h.fsize, fun j hj => by rw [← e j hj]; exact h.flags j hj⟩

theorem FRep.push {ws A flags} (h : FRep ws A flags) (j y : Nat) (hj : j + 1 < ws.length) :
    FRep ws (upd A j y) (flags.modify j (fun f => f.pushBit (more (wd ws j) y))) := by
  refine ⟨by rw [Array.size_modify]; exact h.fsize, ?_⟩
  intro k hk
  obtain ⟨bv, h1, h2, h3⟩ := h.flags k hk
  rw [Array.getElem?_modify]
  by_cases hjk : j = k
  · subst hjk
    refine ⟨bv.pushBit (more (wd ws j) y), by simp [h1], BV.pushBit_inv bv h2 _, ?_⟩
    rw [BV.pushBit_toList bv h2, h3]
    simp [upd]
  · have : ¬ k = j := fun e => hjk e.symm
    exact ⟨bv, by simp [hjk, h1], h2, by simp [upd, this, h3]⟩

theorem FRep.init (ws : List Nat) : FRep ws (lev ws []) (Array.replicate (ws.length - 1) BV.new) := by
  refine ⟨by simp, ?_⟩
  intro j hj
  refine ⟨BV.new, ?_, BV.new_inv, by simp [lev_nil, BV.new_toList]⟩
  rw [Array.getElem?_replicate, if_pos (by omega)]

end Dac

/-! ## `DacsByte` -/
namespace DacB

structure DRep (ws : List Nat) (A : Nat → List Nat) (data : Array (Array Nat)) : Prop where
  dsize : data.size = ws.length
  data : ∀ j, j < ws.length → data[j]? = some ((A j).map (· % 2^(wd ws j))).toArray

theorem DRep.congr {ws A A' data} (h : DRep ws A data) (e : ∀ k, k < ws.length → A k = A' k) :
    DRep ws A' data :=
  ⟨h.dsize, fun j hj => by rw [← e j hj]; exact h.data j hj⟩

theorem DRep.push {ws A data} (h : DRep ws A data) (j y : Nat) :
    DRep ws (upd A j y) (data.modify j (fun d => d.push (y % 2^(wd ws j)))) := by
  refine ⟨by rw [Array.size_modify]; exact h.dsize, ?_⟩
  intro k hk
  rw [Array.getElem?_modify, h.data k hk]
  by_cases hjk : j = k
  · subst hjk; simp [upd]
  · have : ¬ k = j := fun e => hjk e.symm
    simp [hjk, upd, this]

theorem DRep.init (ws : List Nat) : DRep ws (lev ws []) (Array.replicate ws.length #[]) := by
  refine ⟨by simp, ?_⟩
  intro j hj
  rw [Array.getElem?_replicate, if_pos hj]
  simp [lev_nil]

/-- one value of the main loop: the loop standing at level `j` with the remaining value `y` completes the
    levels of `x` -/
theorem pushVal_spec (ws : List Nat) (B : Nat → List Nat) (x : Nat) :
    ∀ (m j y : Nat) (data : Array (Array Nat)) (flags : Array BV), ws.length - j = m + 1 →
      DRep ws (stage ws B x j) data → FRep ws (stage ws B x j) flags → lev ws [x] j = [y] →
      DRep ws (fun k => B k ++ lev ws [x] k) (pushVal data flags j (dacSplit (ws.drop j) y)).1 ∧
      FRep ws (fun k => B k ++ lev ws [x] k) (pushVal data flags j (dacSplit (ws.drop j) y)).2 := by
  intro m
  induction m with
  | zero =>
    intro j y data flags hm hd hf hy
    have hl : j + 1 = ws.length := by omega
    rw [drop_last ws j hl, dacSplit_one]
    simp only [pushVal]
    have hd' := hd.push j y
    rw [← stage_succ ws B x j y hy] at hd'
    refine ⟨hd'.congr ?_, hf.congr ?_⟩
    · intro k hk; have : k < j + 1 := by omega
      simp [stage, this]
    · intro k hk; have : k < j := by omega
      simp [stage, this]
  | succ m ih =>
    intro j y data flags hm hd hf hy
    have hl : j + 1 < ws.length := by omega
    rw [drop_two ws j hl, dacSplit_two]
    have hd' := hd.push j y
    have hf' := hf.push j y hl
    rw [← stage_succ ws B x j y hy] at hd' hf'
    have hnext : lev ws [x] (j+1) = if more (wd ws j) y then [y >>> wd ws j] else [] := by
      simp only [lev, hy, next_singleton]
    by_cases hmore : more (wd ws j) y = true
    · have hmf : ¬ more (wd ws j) y = false := by simp [hmore]
      rw [if_neg hmf]
      simp only [pushVal]
      rw [hmore] at hf'
      rw [hmore, if_pos rfl] at hnext
      have := ih (j+1) (y >>> wd ws j) _ _ (by omega) hd' hf' hnext
      have e : ws.drop (j+1) = wd ws (j+1) :: ws.drop (j+2) := by
        rw [List.drop_eq_getElem_cons hl, wd_eq ws (j+1) hl]
      rw [← e]; exact this
    · have hmf : more (wd ws j) y = false := by simpa using hmore
      rw [if_pos hmf]
      simp only [pushVal]
      rw [hmf] at hf'
      rw [hmf] at hnext
      have hnil := lev_single_nil ws x (j+1) (by simpa using hnext)
      have hagree : ∀ k, stage ws B x (j+1) k = B k ++ lev ws [x] k := by
        intro k
        by_cases hk : k < j + 1
        · simp [stage, hk]
        · simp [stage, hk, hnil k (by omega)]
      exact ⟨hd'.congr (fun k _ => hagree k), hf'.congr (fun k _ => hagree k)⟩

/-- **invariant of the main loop of `from_slice`** -/
theorem foldl_spec (ws : List Nat) (hne : ws ≠ []) :
    ∀ (xs pre : List Nat) (data : Array (Array Nat)) (flags : Array BV),
      DRep ws (lev ws pre) data → FRep ws (lev ws pre) flags →
      DRep ws (lev ws (pre ++ xs))
        (xs.foldl (fun (s : Array (Array Nat) × Array BV) x => pushVal s.1 s.2 0 (dacSplit ws x)) (data, flags)).1 ∧
      FRep ws (lev ws (pre ++ xs))
        (xs.foldl (fun (s : Array (Array Nat) × Array BV) x => pushVal s.1 s.2 0 (dacSplit ws x)) (data, flags)).2 := by
  have h0 : 0 < ws.length := List.length_pos_iff.mpr hne
  intro xs
  induction xs with
  | nil => intro pre data flags hd hf; simpa using ⟨hd, hf⟩
  | cons x t ih =>
    intro pre data flags hd hf
    rw [List.foldl_cons]
    have hs := pushVal_spec ws (lev ws pre) x (ws.length - 1) 0 x data flags (by omega)
      (by rw [stage_zero]; exact hd) (by rw [stage_zero]; exact hf) rfl
    rw [List.drop_zero] at hs
    have he : (fun k => lev ws pre k ++ lev ws [x] k) = lev ws (pre ++ [x]) :=
      funext fun k => (lev_append ws pre [x] k).symm
    rw [he] at hs
    have := ih (pre ++ [x]) _ _ hs.1 hs.2
    simpa using this

/-- the structure assembled from the loop result satisfies the representation invariant -/
theorem rep_of_build (c : Cfg) (ws vs : List Nat) (data : Array (Array Nat)) (flags : Array BV)
    (hd : DRep ws (lev ws vs) data) (hf : FRep ws (lev ws vs) flags) :
    Rep c ws vs ⟨data, flags.map (R9.new c)⟩ := by
  refine ⟨hd.dsize, hd.data, ?_⟩
  intro j hj
  obtain ⟨bv, h1, h2, h3⟩ := hf.flags j hj
  exact ⟨bv, by simp [h1], h2, h3⟩
end DacB

/-! ## `DacsOpt` -/
namespace DacO

structure DRep (ws : List Nat) (A : Nat → List Nat) (data : Array CV) : Prop where
  dsize : data.size = ws.length
  data : ∀ j, j < ws.length →
    ∃ cv, data[j]? = some cv ∧ cv.width = wd ws j ∧ CV.Rep cv ((A j).map (· % 2^(wd ws j)))

theorem DRep.congr {ws A A' data} (h : DRep ws A data) (e : ∀ k, k < ws.length → A k = A' k) :
    DRep ws A' data :=
  ⟨h.dsize, fun j hj => by rw [← e j hj]; exact h.data j hj⟩

/-- pushing the chunk of `y` on level `j` succeeds (the value fits) and appends it -/
theorem DRep.push {ws A data} (h : DRep ws A data) (j y : Nat) (hj : j < ws.length) :
    ∃ cv cv', data[j]? = some cv ∧ cv.pushInt (y % 2^(wd ws j)) = .ok (cv', true) ∧
      DRep ws (upd A j y) (data.set! j cv') := by
  obtain ⟨cv, h1, h2, h3⟩ := h.data j hj
  have hlt : y % 2^(wd ws j) < 2^cv.width := by rw [h2]; exact Nat.mod_lt _ (Nat.two_pow_pos _)
  have hlt64 : y % 2^(wd ws j) < 2^64 :=
    Nat.lt_of_lt_of_le hlt (Nat.pow_le_pow_right (by omega) h3.wle)
  obtain ⟨cv', hp, hr, hw⟩ := CV.pushInt_ok cv _ h3 _ hlt hlt64
  refine ⟨cv, cv', h1, hp, ?_, ?_⟩
  · rw [Array.set!_eq_setIfInBounds, Array.size_setIfInBounds]; exact h.dsize
  · intro k hk
    rw [Array.set!_eq_setIfInBounds, Array.getElem?_setIfInBounds]
    by_cases hjk : j = k
    · subst hjk
      have : j < data.size := by rw [h.dsize]; exact hj
      refine ⟨cv', by simp [this], by rw [hw, h2], ?_⟩
      simpa [upd] using hr
    · have : ¬ k = j := fun e => hjk e.symm
      obtain ⟨cvk, hk1, hk2, hk3⟩ := h.data k hk
      exact ⟨cvk, by simp [hjk, hk1], hk2, by simpa [upd, this] using hk3⟩

theorem pushVal_spec (ws : List Nat) (B : Nat → List Nat) (x : Nat) :
    ∀ (m j y : Nat) (data : Array CV) (flags : Array BV), ws.length - j = m + 1 →
      DRep ws (stage ws B x j) data → FRep ws (stage ws B x j) flags → lev ws [x] j = [y] →
      ∃ r, pushVal data flags j (dacSplit (ws.drop j) y) = .ok r ∧
        DRep ws (fun k => B k ++ lev ws [x] k) r.1 ∧ FRep ws (fun k => B k ++ lev ws [x] k) r.2 := by
  intro m
  induction m with
  | zero =>
    intro j y data flags hm hd hf hy
    have hl : j + 1 = ws.length := by omega
    rw [drop_last ws j hl, dacSplit_one]
    obtain ⟨cv, cv', h1, hp, hd'⟩ := hd.push j y (by omega)
    simp only [pushVal, h1, hp, bind_ok, Bool.not_true, Bool.false_eq_true, if_false]
    rw [← stage_succ ws B x j y hy] at hd'
    refine ⟨_, rfl, hd'.congr ?_, hf.congr ?_⟩
    · intro k hk; have : k < j + 1 := by omega
      simp [stage, this]
    · intro k hk; have : k < j := by omega
      simp [stage, this]
  | succ m ih =>
    intro j y data flags hm hd hf hy
    have hl : j + 1 < ws.length := by omega
    rw [drop_two ws j hl, dacSplit_two]
    obtain ⟨cv, cv', h1, hp, hd'⟩ := hd.push j y (by omega)
    have hf' := hf.push j y hl
    rw [← stage_succ ws B x j y hy] at hd' hf'
    have hnext : lev ws [x] (j+1) = if more (wd ws j) y then [y >>> wd ws j] else [] := by
      simp only [lev, hy, next_singleton]
    by_cases hmore : more (wd ws j) y = true
    · have hmf : ¬ more (wd ws j) y = false := by simp [hmore]
      rw [if_neg hmf]
      simp only [pushVal, h1, hp, bind_ok, Bool.not_true, Bool.false_eq_true, if_false]
      rw [hmore] at hf'
      rw [hmore, if_pos rfl] at hnext
      have := ih (j+1) (y >>> wd ws j) _ _ (by omega) hd' hf' hnext
      have e : ws.drop (j+1) = wd ws (j+1) :: ws.drop (j+2) := by
        rw [List.drop_eq_getElem_cons hl, wd_eq ws (j+1) hl]
      rw [← e]; exact this
    · have hmf : more (wd ws j) y = false := by simpa using hmore
      rw [if_pos hmf]
      simp only [pushVal, h1, hp, bind_ok, Bool.not_true, Bool.false_eq_true, if_false]
      rw [hmf] at hf'
      rw [hmf] at hnext
      have hnil := lev_single_nil ws x (j+1) (by simpa using hnext)
      have hagree : ∀ k, stage ws B x (j+1) k = B k ++ lev ws [x] k := by
        intro k
        by_cases hk : k < j + 1
        · simp [stage, hk]
        · simp [stage, hk, hnil k (by omega)]
      exact ⟨_, rfl, hd'.congr (fun k _ => hagree k), hf'.congr (fun k _ => hagree k)⟩

/-- **invariant of the main loop of `build`**: no push fails -/
theorem pushAll_spec (ws : List Nat) (hne : ws ≠ []) :
    ∀ (xs pre : List Nat) (data : Array CV) (flags : Array BV),
      DRep ws (lev ws pre) data → FRep ws (lev ws pre) flags →
      ∃ r, pushAll ws xs (data, flags) = .ok r ∧
        DRep ws (lev ws (pre ++ xs)) r.1 ∧ FRep ws (lev ws (pre ++ xs)) r.2 := by
  have h0 : 0 < ws.length := List.length_pos_iff.mpr hne
  intro xs
  induction xs with
  | nil => intro pre data flags hd hf; exact ⟨_, rfl, by simpa using hd, by simpa using hf⟩
  | cons x t ih =>
    intro pre data flags hd hf
    obtain ⟨r, hr, hs1, hs2⟩ := pushVal_spec ws (lev ws pre) x (ws.length - 1) 0 x data flags (by omega)
      (by rw [stage_zero]; exact hd) (by rw [stage_zero]; exact hf) rfl
    rw [List.drop_zero] at hr
    have he : (fun k => lev ws pre k ++ lev ws [x] k) = lev ws (pre ++ [x]) :=
      funext fun k => (lev_append ws pre [x] k).symm
    rw [he] at hs1 hs2
    obtain ⟨r', hr', h1, h2⟩ := ih (pre ++ [x]) r.1 r.2 hs1 hs2
    refine ⟨r', ?_, by simpa using h1, by simpa using h2⟩
    simp only [pushAll]
    rw [hr, bind_ok]
    exact hr'

theorem mapM_new (ws : List Nat) (h : ∀ w ∈ ws, 1 ≤ w ∧ w ≤ 64) :
    ws.mapM CV.new = some (ws.map fun w => (⟨BV.new, 0, w⟩ : CV)) := by
  induction ws with
  | nil => rfl
  | cons w t ih =>
    have hw := h w (by simp)
    rw [List.mapM_cons, ih (fun w' hw' => h w' (by simp [hw']))]
    simp [CV.new, hw]

theorem DRep.init (ws : List Nat) (h : ∀ w ∈ ws, 1 ≤ w ∧ w ≤ 64) :
    DRep ws (lev ws []) (ws.map fun w => (⟨BV.new, 0, w⟩ : CV)).toArray := by
  refine ⟨by simp, ?_⟩
  intro j hj
  have hwj := h ws[j] (List.getElem_mem hj)
  refine ⟨⟨BV.new, 0, ws[j]⟩, by simp [hj], (wd_eq ws j hj).symm, ?_⟩
  rw [lev_nil]
  exact { len := rfl, inv := BV.new_inv, clen := by simp [BV.new], wle := hwj.2, vals := by intro i hi; simp at hi }

theorem rep_of_build (c : Cfg) (ws vs : List Nat) (data : Array CV) (flags : Array BV)
    (hd : DRep ws (lev ws vs) data) (hf : FRep ws (lev ws vs) flags) :
    Rep c ws vs ⟨data, flags.map (R9.new c)⟩ := by
  refine ⟨hd.dsize, hd.data, ?_⟩
  intro j hj
  obtain ⟨bv, h1, h2, h3⟩ := hf.flags j hj
  exact ⟨bv, by simp [h1], h2, h3⟩
end DacO
end Sucds
