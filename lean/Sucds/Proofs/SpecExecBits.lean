import Sucds.Spec.Exec
import Sucds.Proofs.SArrayBridge
/-! The executable specification (`Sucds.SpecX`, the run-time oracle of the test driver) computes exactly the
    proof-level vocabulary (`cnt`, `sel`, `predP`, `succP`, `testBit`): part 1, bit sequences. -/
set_option linter.unusedSimpArgs false
set_option linter.unusedVariables false
namespace Sucds.SpecX
open Sucds Sucds.Spec

/-- the bit sequence of an array, `false` beyond the end -/
def P (a : Array Bool) : Nat → Bool := fun j => a.getD j false
/-- the complement, used for the `false` queries -/
def N (a : Array Bool) : Nat → Bool := fun j => !P a j
/-- "position `j` exists and holds `b`" -/
def Q (b : Bool) (a : Array Bool) : Nat → Bool := fun j => decide (a[j]? = some b)

theorem P_def (a : Array Bool) (j : Nat) : P a j = a.getD j false := rfl
theorem P_toList (a : Array Bool) (j : Nat) : P a j = a.toList.getD j false := by
  simp [P, Array.getD_eq_getD_getElem?, List.getD_eq_getElem?_getD]

theorem Q_true (a : Array Bool) (j : Nat) : Q true a j = P a j := by
  unfold Q P
  rw [Array.getD_eq_getD_getElem?]
  cases h : a[j]? with
  | none => simp
  | some v => cases v <;> simp

theorem Q_false (a : Array Bool) (j : Nat) (hj : j < a.size) : Q false a j = N a j := by
  unfold Q N P
  rw [Array.getD_eq_getD_getElem?, Array.getElem?_eq_getElem hj]
  cases a[j] <;> simp

theorem Q_false_oob (a : Array Bool) (j : Nat) (hj : a.size ≤ j) : Q false a j = false := by
  unfold Q
  rw [Array.getElem?_eq_none hj]; simp

/-! ### 1. `count`, `rank` -/

theorem count_eq (b : Bool) (a : Array Bool) (i : Nat) :
    count b a i = cnt (fun j => decide (a[j]? = some b)) i := by
  unfold count
  induction i with
  | zero => rfl
  | succ i ih =>
    rw [Nat.fold_succ, ih]
    simp only [cnt]
    by_cases h : a[i]? = some b <;> simp [h]

theorem count_true (a : Array Bool) (i : Nat) : count true a i = cnt (P a) i := by
  rw [count_eq]
  exact cnt_congr _ _ _ (fun j _ => Q_true a j)

theorem count_false (a : Array Bool) (i : Nat) (hi : i ≤ a.size) : count false a i = i - cnt (P a) i := by
  rw [count_eq]
  have h1 : cnt (fun j => decide (a[j]? = some false)) i = cnt (fun j => !P a j) i :=
    cnt_congr _ _ _ (fun j hj => Q_false a j (by omega))
  have h2 := cnt_compl (P a) i
  omega

/-- beyond the end `count false` stops growing (it counts existing positions only) -/
theorem count_false_ge (a : Array Bool) (i : Nat) (hi : a.size ≤ i) :
    count false a i = a.size - cnt (P a) a.size := by
  rw [← count_false a a.size (Nat.le_refl _), count_eq, count_eq]
  exact SA.cnt_pad _ _ _ hi (fun j hj => Q_false_oob a j hj)

theorem rank_eq (b : Bool) (a : Array Bool) (i : Nat) :
    rank b a i = if i ≤ a.size then some (cnt (fun j => decide (a[j]? = some b)) i) else none := by
  unfold rank; rw [count_eq]

theorem rank_true (a : Array Bool) (i : Nat) :
    rank true a i = if i ≤ a.size then some (cnt (P a) i) else none := by
  unfold rank; rw [count_true]

theorem rank_false (a : Array Bool) (i : Nat) :
    rank false a i = if i ≤ a.size then some (i - cnt (P a) i) else none := by
  unfold rank
  by_cases h : i ≤ a.size
  · rw [if_pos h, if_pos h, count_false a i h]
  · rw [if_neg h, if_neg h]

theorem access_eq (a : Array Bool) (i : Nat) :
    access a i = if i < a.size then some (P a i) else none := by
  unfold access P
  by_cases h : i < a.size
  · rw [if_pos h, Array.getD_eq_getD_getElem?, Array.getElem?_eq_getElem h]; rfl
  · rw [if_neg h, Array.getElem?_eq_none (by omega)]

/-! ### 2. `positions`, `select` -/

theorem positions_fold (b : Bool) (a : Array Bool) (n : Nat) :
    (Nat.fold n (fun p _ (acc : Array Nat) => if a[p]? = some b then acc.push p else acc) #[]).toList
      = (List.range n).filter (fun p => a[p]? = some b) := by
  induction n with
  | zero => rfl
  | succ n ih =>
    rw [Nat.fold_succ, List.range_succ, List.filter_append, ← ih]
    by_cases h : a[n]? = some b <;> simp [h]

theorem positions_toList (b : Bool) (a : Array Bool) :
    (positions b a).toList = (List.range a.size).filter (fun p => a[p]? = some b) :=
  positions_fold b a a.size

theorem filter_congr_mem {α : Type} (f g : α → Bool) : ∀ (l : List α), (∀ x ∈ l, f x = g x) → l.filter f = l.filter g
  | [], _ => rfl
  | x :: t, h => by
    rw [List.filter_cons, List.filter_cons, h x (List.mem_cons_self), filter_congr_mem f g t (fun y hy => h y (List.mem_cons_of_mem _ hy))]

theorem positions_true (a : Array Bool) : (positions true a).toList = SA.ones (P a) a.size := by
  rw [positions_toList]
  exact filter_congr_mem _ _ _ (fun j _ => Q_true a j)

theorem positions_false (a : Array Bool) : (positions false a).toList = SA.ones (N a) a.size := by
  rw [positions_toList]
  exact filter_congr_mem _ _ _ (fun j hj => Q_false a j (List.mem_range.mp hj))

theorem select_eq (b : Bool) (a : Array Bool) (k : Nat) :
    select b a k = sel (fun j => decide (a[j]? = some b)) a.size k := by
  unfold select
  rw [← Array.getElem?_toList, positions_toList]
  exact DAProof.filter_range_getElem? _ _ _

theorem select_true (a : Array Bool) (k : Nat) : select true a k = sel (P a) a.size k := by
  unfold select
  rw [← Array.getElem?_toList, positions_true]
  exact SA.ones_getElem? _ _ _

theorem select_false (a : Array Bool) (k : Nat) : select false a k = sel (fun j => !P a j) a.size k := by
  unfold select
  rw [← Array.getElem?_toList, positions_false]
  exact SA.ones_getElem? _ _ _

/-! ### 3. `pred`, `succ` -/

theorem find?_congr_mem {α : Type} (f g : α → Bool) : ∀ (l : List α), (∀ x ∈ l, f x = g x) → l.find? f = l.find? g
  | [], _ => rfl
  | x :: t, h => by
    rw [List.find?_cons, List.find?_cons, h x (List.mem_cons_self), find?_congr_mem f g t (fun y hy => h y (List.mem_cons_of_mem _ hy))]

theorem find?_reverse_range (f : Nat → Bool) (i : Nat) :
    (List.range (i + 1)).reverse.find? f = predP f i := by
  induction i with
  | zero =>
    simp only [predP]
    cases h : f 0 <;> simp [List.range_succ, h]
  | succ i ih =>
    rw [List.range_succ, List.reverse_append, List.reverse_singleton, List.singleton_append, List.find?_cons, ih]
    simp only [predP]
    cases h : f (i + 1) <;> simp

theorem find?_range' (f : Nat → Bool) (d i : Nat) : (List.range' i d).find? f = succAux f i d := by
  induction d generalizing i with
  | zero => rfl
  | succ d ih =>
    rw [List.range'_succ, List.find?_cons, ih]
    simp only [succAux]
    cases h : f i <;> simp

theorem find?_drop_range (f : Nat → Bool) (n i : Nat) : ((List.range n).drop i).find? f = succP f n i := by
  rw [List.range_eq_range', List.drop_range']
  simp only [Nat.mul_one, Nat.zero_add]
  exact find?_range' f (n - i) i

theorem pred_eq (b : Bool) (a : Array Bool) (i : Nat) :
    pred b a i = if i < a.size then predP (fun j => decide (a[j]? = some b)) i else none := by
  unfold pred
  rw [find?_reverse_range]

theorem pred_true (a : Array Bool) (i : Nat) :
    pred true a i = if i < a.size then predP (P a) i else none := by
  rw [pred_eq]
  by_cases h : i < a.size
  · rw [if_pos h, if_pos h]
    exact predP_congr _ _ _ (fun q _ => Q_true a q)
  · rw [if_neg h, if_neg h]

theorem pred_false (a : Array Bool) (i : Nat) :
    pred false a i = if i < a.size then predP (fun j => !P a j) i else none := by
  rw [pred_eq]
  by_cases h : i < a.size
  · rw [if_pos h, if_pos h]
    exact predP_congr _ _ _ (fun q hq => Q_false a q (by omega))
  · rw [if_neg h, if_neg h]

theorem succ_eq (b : Bool) (a : Array Bool) (i : Nat) :
    succ b a i = if i < a.size then succP (fun j => decide (a[j]? = some b)) a.size i else none := by
  unfold succ
  rw [find?_drop_range]

theorem succ_true (a : Array Bool) (i : Nat) :
    succ true a i = if i < a.size then succP (P a) a.size i else none := by
  unfold succ
  by_cases h : i < a.size
  · rw [if_pos h, if_pos h, ← find?_drop_range]
    exact find?_congr_mem _ _ _ (fun q _ => Q_true a q)
  · rw [if_neg h, if_neg h]

theorem succ_false (a : Array Bool) (i : Nat) :
    succ false a i = if i < a.size then succP (fun j => !P a j) a.size i else none := by
  unfold succ
  by_cases h : i < a.size
  · rw [if_pos h, if_pos h, ← find?_drop_range]
    refine find?_congr_mem _ _ _ (fun q hq => Q_false a q ?_)
    exact List.mem_range.mp ((List.drop_sublist i _).subset hq)
  · rw [if_neg h, if_neg h]

/-! ### 4. `getBits`, `getWord64` -/

/-- the little-endian number with bits `f 0 … f (len-1)`, as the oracle computes it -/
def bitsNum (f : Nat → Bool) (len : Nat) : Nat :=
  (List.range len).foldl (fun n j => if f j then n + 2^j else n) 0

theorem bitsNum_succ (f : Nat → Bool) (len : Nat) :
    bitsNum f (len + 1) = if f len then bitsNum f len + 2^len else bitsNum f len := by
  unfold bitsNum
  rw [List.range_succ, List.foldl_append]
  rfl

theorem bitsNum_lt (f : Nat → Bool) (len : Nat) : bitsNum f len < 2^len := by
  induction len with
  | zero => simp [bitsNum]
  | succ len ih =>
    rw [bitsNum_succ, Nat.pow_succ]
    split <;> omega

/-- the bit characterisation (the form used by `BV.getBits_ok`) -/
theorem bitsNum_testBit (f : Nat → Bool) (len j : Nat) :
    (bitsNum f len).testBit j = (decide (j < len) && f j) := by
  induction len with
  | zero => simp [bitsNum]
  | succ len ih =>
    have hlt := bitsNum_lt f len
    rw [bitsNum_succ]
    by_cases hf : f len = true
    · rw [if_pos hf, Nat.add_comm]
      by_cases h1 : j < len
      · rw [Nat.testBit_two_pow_add_gt h1, ih]
        have : j < len + 1 := by omega
        simp [h1, this]
      · by_cases h2 : j = len
        · subst h2
          rw [Nat.testBit_two_pow_add_eq, Nat.testBit_lt_two_pow hlt]
          simp [hf]
        · have h3 : len + 1 ≤ j := by omega
          have hb : 2 ^ len + bitsNum f len < 2 ^ j := by
            have : 2 ^ (len + 1) ≤ 2 ^ j := Nat.pow_le_pow_right (by omega) h3
            rw [Nat.pow_succ] at this
            omega
          rw [Nat.testBit_lt_two_pow hb]
          have : ¬ j < len + 1 := by omega
          simp [this]
    · have hf' : f len = false := by simpa using hf
      rw [if_neg hf, ih]
      by_cases h2 : j = len
      · subst h2; simp [hf']
      · have : (j < len + 1) = (j < len) := by apply propext; omega
        simp [this]

theorem bitsNum_congr (f g : Nat → Bool) (len : Nat) (h : ∀ j, j < len → f j = g j) : bitsNum f len = bitsNum g len := by
  apply Nat.eq_of_testBit_eq
  intro j
  rw [bitsNum_testBit, bitsNum_testBit]
  by_cases hj : j < len
  · rw [h j hj]
  · simp [hj]

/-- a number is determined by the bit characterisation -/
theorem eq_bitsNum (f : Nat → Bool) (len v : Nat) (h : ∀ j, v.testBit j = (decide (j < len) && f j)) :
    v = bitsNum f len := by
  apply Nat.eq_of_testBit_eq
  intro j
  rw [h, bitsNum_testBit]

theorem getBits_eq (a : Array Bool) (pos len : Nat) :
    getBits a pos len =
      if len ≤ 64 ∧ pos + len ≤ a.size then some (bitsNum (fun j => P a (pos + j)) len) else none := by
  unfold getBits bitsNum
  have : (fun (n j : Nat) => if a[pos + j]? = some true then n + 2 ^ j else n)
       = (fun (n j : Nat) => if P a (pos + j) = true then n + 2 ^ j else n) := by
    funext n j
    rw [← Q_true]
    simp [Q]
  rw [this]

/-- **getBits**: defined iff `len ≤ 64` and in range; the result is the number with bits `a[pos + j]`, `j < len` -/
theorem getBits_some_iff (a : Array Bool) (pos len v : Nat) :
    getBits a pos len = some v ↔
      (len ≤ 64 ∧ pos + len ≤ a.size) ∧ ∀ j, v.testBit j = (decide (j < len) && P a (pos + j)) := by
  rw [getBits_eq]
  by_cases h : len ≤ 64 ∧ pos + len ≤ a.size
  · rw [if_pos h]
    constructor
    · intro hv
      have hv' : bitsNum (fun j => P a (pos + j)) len = v := Option.some.inj hv
      subst hv'
      exact ⟨h, fun j => bitsNum_testBit _ _ _⟩
    · intro ⟨_, hv⟩
      rw [eq_bitsNum (fun j => P a (pos + j)) len v hv]
  · rw [if_neg h]
    constructor
    · intro hv; cases hv
    · intro ⟨h', _⟩; exact absurd h' h

theorem getBits_none_iff (a : Array Bool) (pos len : Nat) :
    getBits a pos len = none ↔ ¬ (len ≤ 64 ∧ pos + len ≤ a.size) := by
  rw [getBits_eq]
  by_cases h : len ≤ 64 ∧ pos + len ≤ a.size
  · rw [if_pos h]; simp [h]
  · rw [if_neg h]; simp [h]

/-- the form of `BV.getBits_ok` -/
theorem getBits_ok (a : Array Bool) (pos len : Nat) (hl : len ≤ 64) (hr : pos + len ≤ a.size) :
    ∃ v, getBits a pos len = some v ∧ ∀ j, v.testBit j = (decide (j < len) && P a (pos + j)) := by
  refine ⟨bitsNum (fun j => P a (pos + j)) len, ?_, fun j => bitsNum_testBit _ _ _⟩
  rw [getBits_eq, if_pos ⟨hl, hr⟩]

theorem getWord64_eq (a : Array Bool) (pos : Nat) :
    getWord64 a pos = if pos < a.size then some (bitsNum (fun j => P a (pos + j)) 64) else none := by
  unfold getWord64 bitsNum
  have : (fun (n j : Nat) => if a[pos + j]? = some true then n + 2 ^ j else n)
       = (fun (n j : Nat) => if P a (pos + j) = true then n + 2 ^ j else n) := by
    funext n j
    rw [← Q_true]
    simp [Q]
  rw [this]

/-- **getWord64**: defined iff `pos < size`; 64 bits from `pos`, zero beyond the end (`P a` is `false` there) -/
theorem getWord64_some_iff (a : Array Bool) (pos v : Nat) :
    getWord64 a pos = some v ↔
      pos < a.size ∧ ∀ j, v.testBit j = (decide (j < 64) && P a (pos + j)) := by
  rw [getWord64_eq]
  by_cases h : pos < a.size
  · rw [if_pos h]
    constructor
    · intro hv
      have hv' : bitsNum (fun j => P a (pos + j)) 64 = v := Option.some.inj hv
      subst hv'
      exact ⟨h, fun j => bitsNum_testBit _ _ _⟩
    · intro ⟨_, hv⟩
      rw [eq_bitsNum (fun j => P a (pos + j)) 64 v hv]
  · rw [if_neg h]
    constructor
    · intro hv; cases hv
    · intro ⟨h', _⟩; exact absurd h' h

theorem getWord64_none_iff (a : Array Bool) (pos : Nat) : getWord64 a pos = none ↔ a.size ≤ pos := by
  rw [getWord64_eq]
  by_cases h : pos < a.size
  · rw [if_pos h]; simp; omega
  · rw [if_neg h]; simp; omega

/-- `getWord64` agrees with `getBits` where both are defined -/
theorem getWord64_eq_getBits (a : Array Bool) (pos : Nat) (h : pos + 64 ≤ a.size) :
    getWord64 a pos = getBits a pos 64 := by
  rw [getWord64_eq, getBits_eq, if_pos (by omega), if_pos ⟨Nat.le_refl _, h⟩]

end Sucds.SpecX
