import Sucds.Proofs.Serial
import Sucds.Model.SerialStruct
/-! # Serialization of every serializable structure (C08 / C13)

For every codec of `Sucds/Model/SerialStruct.lean` (and `CV.codec`, `BV.codec`): a validity predicate
`X.Wf` ("every stored number fits its serialized width, every vector length is `< 2^64`") and
`X.codec_good : X.codec.Good X.Wf` = round trip with exact consumption ∧ byte count ∧ failure on every
strict prefix. Generic corollaries of `Good` are in namespace `Codec.Good` at the end. -/
set_option linter.unusedSimpArgs false
set_option linter.unusedVariables false
namespace Sucds
namespace Codec

/-- a good codec stays good on a smaller set of valid values -/
theorem Good.mono {α} {c : Codec α} {v v' : α → Prop} (h : c.Good v) (hv : ∀ x, v' x → v x) : c.Good v' where
  rt x rest hx := h.rt x rest (hv x hx)
  sz := h.sz
  pre x k hx hk := h.pre x k (hv x hx) hk

theorem u8_good : u8.Good (fun n => n < 256) := uint_good 1
theorem u16_good : u16.Good (fun n => n < 65536) := uint_good 2
theorem u64_good : u64.Good (fun n => n < 2^64) := uint_good 8

/-! ### `i64` -/

theorem i64_good : Codec.i64.Good (fun x => -(2^63 : Int) ≤ x ∧ x < 2^63) where
  rt := by
    intro x rest ⟨hlo, hhi⟩
    simp only [Codec.i64]
    have e63 : (2:Int)^63 = 9223372036854775808 := by decide
    have e64 : (2:Int)^64 = 18446744073709551616 := by decide
    have n63 : (2:Nat)^63 = 9223372036854775808 := by decide
    have n256 : (256:Nat)^8 = 18446744073709551616 := by decide
    rw [e63] at hlo hhi
    have hn : ((x % 2^64).toNat : Int) = x % 18446744073709551616 := by rw [e64]; omega
    generalize (x % 2^64).toNat = n at hn
    have hl := leBytes_length n 8
    have h1 : ¬ (leBytes n 8 ++ rest).length < 8 := by simp [hl]
    rw [if_neg h1]
    rw [List.take_append_of_le_length (by omega), List.take_of_length_le (by omega),
        List.drop_append_of_le_length (by omega), List.drop_of_length_le (by omega),
        ofLe_leBytes]
    simp only [e64, n63, n256, List.nil_append]
    congr 1
    congr 1
    split <;> omega
  sz := by intro x; exact leBytes_length _ 8
  pre := by
    intro x j _ hj
    simp only [Codec.i64] at hj ⊢
    rw [leBytes_length] at hj
    have : ((leBytes (x % 2^64).toNat 8).take j).length < 8 := by
      rw [List.length_take, leBytes_length]; omega
    rw [if_pos this]

/-! ### `Vec<S>` as an `Array` -/

theorem arr_good {α} {a : Codec α} {va} (ha : a.Good va) :
    (arr a).Good (fun xs => xs.size < 2^64 ∧ ∀ x ∈ xs, va x) := by
  apply iso_good (vec_good ha)
  · intro xs _; rfl
  · intro xs ⟨h1, h2⟩
    exact ⟨by simpa using h1, fun x hx => h2 x (Array.mem_toList_iff.mp hx)⟩

end Codec

open Codec

/-! ### validity predicates -/

/-- a `Vec<u64>` / `Vec<usize>` -/
def U64s (a : Array Nat) : Prop := a.size < 2^64 ∧ ∀ w ∈ a, w < 2^64

def BV.Wf (b : BV) : Prop := U64s b.words ∧ b.len < 2^64

def CV.Wf (v : CV) : Prop := v.chunks.Wf ∧ v.len < 2^64 ∧ v.width < 2^64

def R9Index.Wf (x : R9Index) : Prop :=
  x.len < 2^64 ∧ U64s x.pairs ∧ (∀ a, x.sel1 = some a → U64s a) ∧ (∀ a, x.sel0 = some a → U64s a)

def R9.Wf (x : R9) : Prop := x.bv.Wf ∧ x.rs.Wf

def DAIndex.Wf (x : DAIndex) : Prop :=
  (x.blockInv.size < 2^64 ∧ ∀ v ∈ x.blockInv, -(2^63 : Int) ≤ v ∧ v < 2^63) ∧
  (x.subInv.size < 2^64 ∧ ∀ v ∈ x.subInv, v < 65536) ∧
  U64s x.overflow ∧ x.numPos < 2^64

def DA.Wf (x : DA) : Prop :=
  x.bv.Wf ∧ x.s1.Wf ∧ (∀ i, x.s0 = some i → i.Wf) ∧ (∀ i, x.r9 = some i → i.Wf)

def EF.Wf (x : EF) : Prop := x.high.Wf ∧ x.low.Wf ∧ x.lowLen < 2^64 ∧ x.univ < 2^64

def SA.Wf (x : SA) : Prop := (∀ e, x.ef = some e → e.Wf) ∧ x.numBits < 2^64 ∧ x.numOnes < 2^64

def DacB.Wf (x : DacB) : Prop :=
  (x.data.size < 2^64 ∧ ∀ lv ∈ x.data, lv.size < 2^64 ∧ ∀ b ∈ lv, b < 256) ∧
  (x.flags.size < 2^64 ∧ ∀ f ∈ x.flags, f.Wf)

def DacO.Wf (x : DacO) : Prop :=
  (x.data.size < 2^64 ∧ ∀ v ∈ x.data, v.Wf) ∧ (x.flags.size < 2^64 ∧ ∀ f ∈ x.flags, f.Wf)

def PS.Wf (x : PS) : Prop := x.ef.Wf

/-- a layer of backing kind `k` whose content is well formed -/
def Lay.Wf (k : Backing) (l : Lay) : Prop :=
  match k, l with
  | .r9, .r9 x => x.Wf
  | .da, .da x => x.Wf
  | .bv, .bv x => x.Wf
  | _, _ => False

def WM.Wf (k : Backing) (w : WM) : Prop :=
  (w.layers.size < 2^64 ∧ ∀ l ∈ w.layers, l.Wf k) ∧ w.alphSize < 2^64

/-! ### the structure codecs -/

theorem U64s.codec_good : (arr u64).Good U64s := arr_good u64_good

theorem BV.codec_wf_good : BV.codec.Good BV.Wf := by
  apply iso_good (seq_good U64s.codec_good u64_good)
  · intro x _; rfl
  · intro x h; exact h

theorem CV.codec_good : CV.codec.Good CV.Wf := by
  apply iso_good (seq_good BV.codec_wf_good (seq_good u64_good u64_good))
  · intro v _; rfl
  · intro v h; exact h

theorem R9Index.codec_good : R9Index.codec.Good R9Index.Wf := by
  apply iso_good (seq_good u64_good (seq_good U64s.codec_good
    (seq_good (opt_good U64s.codec_good) (opt_good U64s.codec_good))))
  · intro x _; rfl
  · intro x h; exact h

theorem R9.codec_good : R9.codec.Good R9.Wf := by
  apply iso_good (seq_good BV.codec_wf_good R9Index.codec_good)
  · intro x _; rfl
  · intro x h; exact h

theorem DAIndex.codec_good : DAIndex.codec.Good DAIndex.Wf := by
  apply iso_good (seq_good (arr_good i64_good) (seq_good (arr_good u16_good)
    (seq_good U64s.codec_good (seq_good u64_good bool_good))))
  · intro x _; rfl
  · intro x ⟨h1, h2, h3, h4⟩; exact ⟨h1, h2, h3, h4, trivial⟩

theorem DA.codec_good : DA.codec.Good DA.Wf := by
  apply iso_good (seq_good BV.codec_wf_good (seq_good DAIndex.codec_good
    (seq_good (opt_good DAIndex.codec_good) (opt_good R9Index.codec_good))))
  · intro x _; rfl
  · intro x h; exact h

theorem EF.codec_good : EF.codec.Good EF.Wf := by
  apply iso_good (seq_good DA.codec_good (seq_good BV.codec_wf_good (seq_good u64_good u64_good)))
  · intro x _; rfl
  · intro x h; exact h

theorem SA.codec_good : SA.codec.Good SA.Wf := by
  apply iso_good (seq_good (opt_good EF.codec_good) (seq_good u64_good (seq_good u64_good bool_good)))
  · intro x _; rfl
  · intro x ⟨h1, h2, h3⟩; exact ⟨h1, h2, h3, trivial⟩

theorem DacB.codec_good : DacB.codec.Good DacB.Wf := by
  apply iso_good (seq_good (arr_good (arr_good u8_good)) (arr_good R9.codec_good))
  · intro x _; rfl
  · intro x h; exact h

theorem DacO.codec_good : DacO.codec.Good DacO.Wf := by
  apply iso_good (seq_good (arr_good CV.codec_good) (arr_good R9.codec_good))
  · intro x _; rfl
  · intro x h; exact h

theorem PS.codec_good : PS.codec.Good PS.Wf := by
  apply iso_good EF.codec_good
  · intro x _; rfl
  · intro x h; exact h

theorem Lay.codec_good (k : Backing) : (Lay.codec k).Good (Lay.Wf k) := by
  cases k with
  | r9 =>
    apply iso_good R9.codec_good
    · intro l h; cases l <;> first | rfl | exact h.elim
    · intro l h; cases l <;> first | exact h | exact h.elim
  | da =>
    apply iso_good DA.codec_good
    · intro l h; cases l <;> first | rfl | exact h.elim
    · intro l h; cases l <;> first | exact h | exact h.elim
  | bv =>
    apply iso_good BV.codec_wf_good
    · intro l h; cases l <;> first | rfl | exact h.elim
    · intro l h; cases l <;> first | exact h | exact h.elim

theorem WM.codec_good (k : Backing) : (WM.codec k).Good (WM.Wf k) := by
  apply iso_good (seq_good (arr_good (Lay.codec_good k)) u64_good)
  · intro x _; rfl
  · intro x h; exact h

/-! ### what `Good` says, spelled out (generic in the codec) -/
namespace Codec.Good
variable {α β : Type} {a : Codec α} {b : Codec β} {va : α → Prop} {vb : β → Prop}

/-- (d) a value alone is read back and nothing is left -/
theorem roundtrip (ha : a.Good va) (x : α) (hx : va x) : a.get (a.put x) = some (x, []) := by
  have := ha.rt x [] hx
  rwa [List.append_nil] at this

/-- (a) the first of two back-to-back values is read and the stream is left at the second -/
theorem get_first (ha : a.Good va) (x : α) (hx : va x) (y : β) (rest : List Nat) :
    a.get (a.put x ++ (b.put y ++ rest)) = some (x, b.put y ++ rest) := ha.rt x _ hx

/-- (a) two back-to-back values are read in order, leaving exactly the rest (C08) -/
theorem back_to_back (ha : a.Good va) (hb : b.Good vb) (x : α) (y : β) (hx : va x) (hy : vb y) (rest : List Nat) :
    ∃ r, a.get (a.put x ++ (b.put y ++ rest)) = some (x, r) ∧ b.get r = some (y, rest) :=
  ⟨b.put y ++ rest, ha.rt x _ hx, hb.rt y rest hy⟩

/-- (a) the same for a whole list of values of one type: `getN` reads them all, in order -/
theorem back_to_back_list (ha : a.Good va) (xs : List α) (hx : ∀ x ∈ xs, va x) (rest : List Nat) :
    getN a xs.length ((xs.map a.put).flatten ++ rest) = some (xs, rest) := getN_flatten ha xs hx rest

/-- (b) `size_in_bytes` is the number of bytes written -/
theorem length_put (ha : a.Good va) (x : α) : (a.put x).length = a.size x := ha.sz x

/-- (b) the bytes consumed by a read are exactly `size` many -/
theorem consumed (ha : a.Good va) (x : α) (hx : va x) (rest : List Nat) :
    ∃ r, a.get (a.put x ++ rest) = some (x, r) ∧ (a.put x ++ rest).length = a.size x + r.length :=
  ⟨rest, ha.rt x rest hx, by rw [List.length_append, ha.sz]⟩

/-- (c) every strict prefix of an encoding fails to decode (C13) -/
theorem strict_prefix_fails (ha : a.Good va) (x : α) (hx : va x) (k : Nat) (hk : k < a.size x) :
    a.get ((a.put x).take k) = none := ha.pre x k hx (by rw [ha.sz]; exact hk)

/-- (c) a truncation inside the second of two back-to-back values makes the second read fail -/
theorem truncated_second_fails (ha : a.Good va) (hb : b.Good vb) (x : α) (y : β) (hx : va x) (hy : vb y)
    (k : Nat) (hk : k < b.size y) :
    ∃ r, a.get (a.put x ++ (b.put y).take k) = some (x, r) ∧ b.get r = none :=
  ⟨(b.put y).take k, ha.rt x _ hx, hb.strict_prefix_fails y hy k hk⟩

end Codec.Good
end Sucds
