import Sucds.Proofs.GenEFQueries
/-! # `EliasFano` as generated agrees with the model — part 2: the iterator and the searches

`Sucds.GenFn.iter_Iter.{new, next}` (`src/mii_sequences/elias_fano/iter.rs`), `Sucds.GenFn.EliasFano.{iter,
binsearch_range, binsearch}` versus `EF.iter`, `EF.It.next`, `EF.binsearchRange`, `EF.binsearch`
(`Sucds/Model/EliasFanoFull.lean`).

The generated iterator carries the borrowed `ef`; `efItAbs` forgets it (and the bit vector inside the unary iterator),
`efItCon e` puts them back.  `EFItOk e m` is what a model iterator state must satisfy for the generated `next` to
agree (cursor inside the high-bit words, buffer a word, `k ≤ len`); it holds of `EF.iter c e k` and is kept by every
successful `next`. -/
set_option linter.unusedSimpArgs false
set_option linter.unusedVariables false
namespace Sucds.GenEq
open Sucds Sucds.Spec

/-! ## Abstraction -/

/-- the generated iterator as the model's: forget `ef` and the vector inside `high_iter` -/
def efItAbs (it : GenFn.iter_Iter) : EF.It :=
  ⟨it.k, it.high_iter.map uiAbs, it.low_buf, it.low_mask, it.chunks_in_word, it.chunks_avail⟩
/-- the model's iterator over `e` as the generated one -/
def efItCon (e : EF) (m : EF.It) : GenFn.iter_Iter :=
  ⟨e, m.k, m.high.map (uiCon e.high.bv), m.lowBuf, m.lowMask, m.chunksInWord, m.chunksAvail⟩

@[simp] theorem efItAbs_efItCon (e : EF) (m : EF.It) : efItAbs (efItCon e m) = m := by
  obtain ⟨k, h, a, b, c, d⟩ := m
  cases h <;> rfl
@[simp] theorem efItCon_ef (e : EF) (m : EF.It) : (efItCon e m).ef = e := rfl

/-- well-formedness of a generated iterator: its unary iterator runs over the high bits of its `ef` -/
def EFItBv (it : GenFn.iter_Iter) : Prop := ∀ u, it.high_iter = some u → u.bv = it.ef.high.bv

theorem efItCon_efItAbs (it : GenFn.iter_Iter) (h : EFItBv it) : efItCon it.ef (efItAbs it) = it := by
  obtain ⟨e, k, hi, a, b, c, d⟩ := it
  cases hi with
  | none => rfl
  | some u =>
    have := h u rfl
    obtain ⟨bv, p, bf⟩ := u
    simp only [] at this
    subst this
    rfl

/-- what the generated `next` needs of the iterator state (model side) -/
structure EFItOk (e : EF) (m : EF.It) : Prop where
  pos : ∀ u, m.high = some u → u.pos / 64 < e.high.bv.words.size
  buf : ∀ u, m.high = some u → u.buf < 2^64
  k   : ∀ u, m.high = some u → m.k ≤ e.len

/-! ## `Iter::new` / `EliasFano::iter` -/

/-- **`Iter::new`**: needs only the well-formed high-bit `DArray` and `low_len < 64` -/
theorem ef_iter_new_eq_of (c : Cfg) (e : EF) (wf : DAWf c e.high) (hl : e.lowLen < 64) (k : Nat) :
    GenFn.iter_Iter.new c e k = (EF.iter c e k).map (efItCon e) := by
  unfold GenFn.iter_Iter.new EF.iter
  rw [ef_len_eq]
  cases hd : dassert c (decide (e.lowLen < 64)) with
  | error x => rfl
  | ok _ =>
    rw [bok, bok, cshl_ok c hl, bok, Nat.mod_eq_of_lt (one_shl_lt _ hl), csub_ok c (one_shl_pos _), bok]
    by_cases h0 : e.lowLen ≠ 0
    · rw [if_pos h0, if_pos h0]
      unfold RS.cdiv
      rw [if_neg h0, bok, bok]
      simp only []
      by_cases hk : k < e.len
      · rw [if_pos hk, if_pos hk, wf_select1_eq c _ wf, da_bit_vector_eq]
        cases e.high.select1 c k with
        | error x => rfl
        | ok o =>
          cases o with
          | none => rfl
          | some p =>
            rw [bok, EFQ.unwrapO_some, bok, unwrap_some, bok, bok, unary_iter_eq]
            rfl
      · rw [if_neg hk, if_neg hk]; rfl
    · rw [if_neg h0, if_neg h0, bok]
      simp only []
      by_cases hk : k < e.len
      · rw [if_pos hk, if_pos hk, wf_select1_eq c _ wf, da_bit_vector_eq]
        cases e.high.select1 c k with
        | error x => rfl
        | ok o =>
          cases o with
          | none => rfl
          | some p =>
            rw [bok, EFQ.unwrapO_some, bok, unwrap_some, bok, bok, unary_iter_eq]
            rfl
      · rw [if_neg hk, if_neg hk]; rfl

theorem ef_iter_new_eq (c : Cfg) (e : EF) (ok : EFOk c e) (k : Nat) :
    GenFn.iter_Iter.new c e k = (EF.iter c e k).map (efItCon e) := ef_iter_new_eq_of c e ok.wf ok.llt k

/-- **`EliasFano::iter`** -/
theorem ef_iter_eq (c : Cfg) (e : EF) (ok : EFOk c e) (k : Nat) :
    GenFn.EliasFano.iter c e k = (EF.iter c e k).map (efItCon e) := ef_iter_new_eq c e ok k

/-- the state `iter(k)` returns satisfies `EFItOk` -/
theorem ef_iter_okM (c : Cfg) (e : EF) (ok : EFOk c e) (k : Nat) (m : EF.It) (h : EF.iter c e k = .ok m) : EFItOk e m := by
  unfold EF.iter at h
  cases hd : dassert c (decide (e.lowLen < 64)) with
  | error x => rw [hd] at h; cases h
  | ok _ =>
    rw [hd, EFQ.bind_ok] at h
    simp only [] at h
    by_cases hk : k < e.len
    · rw [if_pos hk] at h
      obtain ⟨p, _, hm, hkth, _⟩ := ef_high_one c e ok k hk
      rw [hm, EFQ.unwrapO_some, EFQ.bind_ok, EFQ.bind_ok] at h
      cases h
      have hsz := ok.wf.inv.size
      refine ⟨?_, ?_, ?_⟩
      · intro u hu; cases hu
        show p / 64 < _
        have := hkth.1
        omega
      · intro u hu; cases hu
        exact Nat.and_lt_two_pow _ (ScanB.shlMax_lt _)
      · intro u hu; exact Nat.le_of_lt hk
    · rw [if_neg hk, EFQ.bind_ok] at h
      cases h
      exact ⟨fun u hu => (by cases hu), fun u hu => (by cases hu), fun u hu => (by cases hu)⟩

/-! ## `Iter::next` -/

/-- the refill part of `next` (the generated text, `ef_it_next_unfold`) -/
def efItRefill (c : Cfg) (s : GenFn.iter_Iter) : R GenFn.iter_Iter :=
  (if s.chunks_avail = 0 then
    (cmul c s.k s.ef.lowLen).bind fun t =>
    (GenFn.BitVector.get_word64 c s.ef.low t).bind fun t1 =>
    (RS.unwrap t1).bind fun t2 =>
    let self3 := { s with low_buf := t2 }
    (csub c self3.chunks_in_word 1).bind fun t3 =>
    let self4 := { self3 with chunks_avail := t3 }
    .ok self4
  else
    (csub c s.chunks_avail 1).bind fun self5 =>
    let self6 := { s with chunks_avail := self5 }
    .ok self6 : R _)

/-- the part of `next` after the refill -/
def efItTail (c : Cfg) (high_iter : GenFn.UnaryIter) (self7 : GenFn.iter_Iter) : R (GenFn.iter_Iter × Option Nat) :=
  ((GenFn.UnaryIter.next c high_iter)).bind fun r =>
  let high_iter1 := r.1
  let self8 := { self7 with high_iter := some high_iter1 }
  (RS.unwrap r.2).bind fun high =>
  let low := (self8.low_buf &&& self8.low_mask)
  (csub c high self8.k).bind fun t4 =>
  (cshl c t4 self8.ef.lowLen).bind fun t5 =>
  let ret := (t5 ||| low)
  (cadd c self8.k 1).bind fun self9 =>
  let self10 := { self8 with k := self9 }
  (cshr c self10.low_buf self10.ef.lowLen).bind fun self11 =>
  let self12 := { self10 with low_buf := self11 }
  .ok (self12, some ret)

theorem ef_it_next_unfold (c : Cfg) (it : GenFn.iter_Iter) :
    GenFn.iter_Iter.next c it =
      ((if it.k = GenFn.DArray.num_ones it.ef.high then .ok { it with high_iter := none } else .ok it : R _).bind
        fun self2 =>
        (match self2.high_iter with
          | some high_iter => (efItRefill c self2).bind (efItTail c high_iter)
          | _ => .ok (self2, none) : R _).bind fun j => .ok (j.1, j.2)) := rfl

/-- the model's refill as a function of the iterator state -/
def efMRefill (c : Cfg) (e : EF) (m : EF.It) : R (Nat × Nat) :=
  if m.chunksAvail = 0 then
    (unwrapO (e.low.getWord64 (m.k * e.lowLen))).bind fun w =>
    (csub c m.chunksInWord 1).bind fun a => .ok (w, a)
  else .ok (m.lowBuf, m.chunksAvail - 1)

/-- the model's tail -/
def efMTail (c : Cfg) (e : EF) (m : EF.It) (hi : UIter) (ba : Nat × Nat) : R (EF.It × Option Nat) :=
  (UIter.next c e.high.bv hi).bind fun hn =>
    match hn.2 with
    | none => .error .unwrapNone
    | some h =>
      (csub c h m.k).bind fun d =>
      (cshl c d e.lowLen).bind fun hv =>
      .ok (⟨m.k + 1, some hn.1, ba.1 >>> e.lowLen, m.lowMask, m.chunksInWord, ba.2⟩, some (hv ||| (ba.1 &&& m.lowMask)))

theorem ef_m_next_unfold (c : Cfg) (e : EF) (m : EF.It) :
    EF.It.next c e m =
      match (if m.k = e.len then none else m.high) with
      | none => .ok ({ m with high := none }, none)
      | some hi => (efMRefill c e m).bind (efMTail c e m hi) := rfl

theorem ef_refill_eq (c : Cfg) (e : EF) (m : EF.It) (hk : m.k * e.lowLen < 2^64) :
    efItRefill c (efItCon e m) =
      (efMRefill c e m).map fun ba => efItCon e { m with lowBuf := ba.1, chunksAvail := ba.2 } := by
  obtain ⟨k, hi, lb, lm, ciw, ca⟩ := m
  unfold efItRefill efMRefill efItCon
  simp only []
  by_cases h0 : ca = 0
  · rw [if_pos h0, if_pos h0, cmul_ok c hk, bok, get_word64_eq c e.low _ hk]
    cases e.low.getWord64 (k * e.lowLen) with
    | error x => rfl
    | ok o =>
      cases o with
      | none => rfl
      | some w =>
        rw [bok, unwrap_some, bok, EFQ.unwrapO_some, bok]
        cases csub c ciw 1 <;> rfl
  · rw [if_neg h0, if_neg h0, csub_ok c (by omega : 1 ≤ ca), bok]
    rfl

/-- where the unary cursor is after a call that found a one -/
theorem uiter_nextLoop_some_lt (bv : BV) : ∀ (n pos buf p b : Nat), pos / 64 < bv.words.size →
    UIter.nextLoop bv pos buf n = (p, some b) → p / 64 < bv.words.size := by
  intro n
  induction n with
  | zero =>
    intro pos buf p b hp h
    simp only [UIter.nextLoop] at h
    split at h
    · cases h
    · cases h; exact hp
  | succ n ih =>
    intro pos buf p b hp h
    simp only [UIter.nextLoop] at h
    by_cases hb0 : buf ≠ 0
    · rw [if_pos hb0] at h
      cases h; exact hp
    · rw [if_neg hb0] at h
      by_cases hs : bv.words.size ≤ (pos + 64) / 64
      · rw [if_pos hs] at h; cases h
      · rw [if_neg hs] at h
        exact ih _ _ p b (by omega) h

theorem uiter_next_some (c : Cfg) (bv : BV) (h : bv.Inv) (hsz : bv.words.size * 64 < 2^64) (u u' : UIter) (a : Nat)
    (hp : u.pos / 64 < bv.words.size) (hb : u.buf < 2^64) (he : UIter.next c bv u = .ok (u', some a)) :
    u'.pos / 64 < bv.words.size ∧ u'.buf < 2^64 := by
  have hp64 : u.pos + 64 < 2^64 := by omega
  refine ⟨?_, (next_step_bound c bv h hsz u u' (some a) bv.words.size (Nat.le_refl _) (by omega) hp64 hb he).2⟩
  obtain ⟨pos, buf⟩ := u
  have hq0 := uiter_nextLoop_some_lt bv (bv.words.size + 1) pos buf
  obtain ⟨hq1, hq2⟩ := nextLoop_bounds bv h.lt hsz (bv.words.size + 1) pos buf hp64 hb
  simp only [UIter.next] at he
  generalize UIter.nextLoop bv pos buf (bv.words.size + 1) = res at hq0 hq1 hq2 he
  obtain ⟨q, ob⟩ := res
  cases ob with
  | none => simp only [] at he; cases he
  | some b =>
    obtain ⟨hb2, hq3⟩ := hq2 b rfl
    have hq := hq0 q b hp rfl
    simp only [] at he
    cases hm : lsbW c b with
    | none => rw [hm] at he; cases he
    | some r =>
      rw [hm] at he
      obtain ⟨hr1, _, _⟩ := ScanB.lsbW_some c b r hb2 hm
      cases he
      show (q / 64 * 64 + r) / 64 < _
      omega

theorem ef_tail_eq (c : Cfg) (e : EF) (h : e.high.bv.Inv) (hlen : e.high.bv.len + 63 < 2^64) (hl : e.lowLen < 64)
    (m : EF.It) (u : UIter) (hk : m.k + 1 < 2^64)
    (hp : u.pos / 64 < e.high.bv.words.size) (hb : u.buf < 2^64) (ba : Nat × Nat) :
    efItTail c (uiCon e.high.bv u) (efItCon e { m with lowBuf := ba.1, chunksAvail := ba.2 }) =
      (efMTail c e m u ba).map fun r => (efItCon e r.1, r.2) := by
  have hsz := size_bound e.high.bv h hlen
  unfold efItTail efMTail
  rw [unary_next_eq c (uiCon e.high.bv u) h hlen (by show u.pos + 64 < 2^64; omega) hb]
  simp only [uiCon_bv, uiAbs_uiCon]
  cases UIter.next c e.high.bv u with
  | error x => rfl
  | ok r =>
    obtain ⟨u', a⟩ := r
    cases a with
    | none => rfl
    | some hv =>
      rw [map_ok, bok, bok]
      simp only [unwrap_some]
      rw [bok]
      show (csub c hv m.k).bind _ = Except.map _ ((csub c hv m.k).bind _)
      cases csub c hv m.k with
      | error x => rfl
      | ok d =>
        rw [bok, bok]
        show (cshl c d e.lowLen).bind _ = Except.map _ ((cshl c d e.lowLen).bind _)
        cases cshl c d e.lowLen with
        | error x => rfl
        | ok t5 =>
          rw [bok, bok]
          show (cadd c m.k 1).bind _ = _
          rw [cadd_ok c hk, bok]
          show (cshr c ba.1 e.lowLen).bind _ = _
          rw [cshr_ok c hl, bok]
          rfl

/-- **`Iter::next`**, on the generated image of a model state: same answer, same successor state -/
theorem ef_iter_next_con (c : Cfg) (e : EF) (ok : EFOk c e) (m : EF.It) (w : EFItOk e m) :
    GenFn.iter_Iter.next c (efItCon e m) = (EF.It.next c e m).map fun r => (efItCon e r.1, r.2) := by
  rw [ef_it_next_unfold, ef_m_next_unfold]
  obtain ⟨k, hi, lb, lm, ciw, ca⟩ := m
  show ((if k = e.len then _ else _ : R _).bind _) = _
  by_cases hk : k = e.len
  · rw [if_pos hk, if_pos hk, bok]; rfl
  · rw [if_neg hk, if_neg hk, bok]
    cases hi with
    | none => rfl
    | some u =>
      have hkl : k < e.len := by have := w.k u rfl; simp only [] at this; omega
      have hmul : k * e.lowLen < 2^64 := by have := ef_chunk_fits c e ok k hkl; omega
      have hlen := ok.wf.len
      have hcl : e.len ≤ e.high.bv.len := by
        show e.high.numOnes ≤ _
        rw [ok.numOnes]; exact cnt_le _ _
      show ((efItRefill c (efItCon e ⟨k, some u, lb, lm, ciw, ca⟩)).bind (efItTail c (uiCon e.high.bv u))).bind _ = _
      rw [ef_refill_eq c e _ hmul]
      simp only []
      cases efMRefill c e ⟨k, some u, lb, lm, ciw, ca⟩ with
      | error x => rfl
      | ok ba =>
        rw [map_ok, bok, bok,
          ef_tail_eq c e ok.wf.inv (by omega) ok.llt ⟨k, some u, lb, lm, ciw, ca⟩ u (by show k + 1 < 2^64; omega)
            (w.pos u rfl) (w.buf u rfl) ba]
        cases efMTail c e ⟨k, some u, lb, lm, ciw, ca⟩ u ba <;> rfl

/-- `EFItOk` is kept by every successful `next` -/
theorem ef_next_okM (c : Cfg) (e : EF) (ok : EFOk c e) (m m' : EF.It) (a : Option Nat) (w : EFItOk e m)
    (h : EF.It.next c e m = .ok (m', a)) : EFItOk e m' := by
  rw [ef_m_next_unfold] at h
  by_cases hk : m.k = e.len
  · rw [if_pos hk] at h
    cases h
    exact ⟨fun u hu => (by cases hu), fun u hu => (by cases hu), fun u hu => (by cases hu)⟩
  · rw [if_neg hk] at h
    cases hh : m.high with
    | none =>
      rw [hh] at h
      cases h
      exact ⟨fun u hu => (by cases hu), fun u hu => (by cases hu), fun u hu => (by cases hu)⟩
    | some u =>
      rw [hh] at h
      simp only [] at h
      have hkl : m.k < e.len := by have := w.k u hh; omega
      have hlen := ok.wf.len
      have hsz := size_bound e.high.bv ok.wf.inv (by omega)
      cases hr : efMRefill c e m with
      | error x => rw [hr] at h; cases h
      | ok ba =>
        rw [hr, EFQ.bind_ok] at h
        unfold efMTail at h
        cases hn : UIter.next c e.high.bv u with
        | error x => rw [hn] at h; cases h
        | ok r =>
          obtain ⟨u', o⟩ := r
          rw [hn, EFQ.bind_ok] at h
          cases o with
          | none => cases h
          | some hv =>
            simp only [] at h
            obtain ⟨g1, g2⟩ := uiter_next_some c e.high.bv ok.wf.inv hsz u u' hv (w.pos u hh) (w.buf u hh) hn
            cases h1 : csub c hv m.k with
            | error x => rw [h1] at h; cases h
            | ok d =>
              rw [h1, EFQ.bind_ok] at h
              cases h2 : cshl c d e.lowLen with
              | error x => rw [h2] at h; cases h
              | ok t =>
                rw [h2, EFQ.bind_ok] at h
                cases h
                refine ⟨?_, ?_, ?_⟩
                · intro v hv'; cases hv'; exact g1
                · intro v hv'; cases hv'; exact g2
                · intro v hv'; show m.k + 1 ≤ e.len; omega

/-- **`Iter::next`** for any generated iterator state whose abstraction satisfies `EFItOk` -/
theorem ef_iter_next_eq (c : Cfg) (it : GenFn.iter_Iter) (ok : EFOk c it.ef) (hbv : EFItBv it)
    (w : EFItOk it.ef (efItAbs it)) :
    GenFn.iter_Iter.next c it = (EF.It.next c it.ef (efItAbs it)).map fun r => (efItCon it.ef r.1, r.2) := by
  have := ef_iter_next_con c it.ef ok (efItAbs it) w
  rw [efItCon_efItAbs it hbv] at this
  exact this

/-! ## `binsearch_range`, `binsearch` -/

/-- body of the binary phase (the generated text, `ef_bs_unfold`) -/
def efBsBody (c : Cfg) (e : EF) (val : Nat) (st : Nat × Nat) : R (RS.Step (Nat × Nat) (Option Nat)) :=
  let hi1 := st.1
  let lo1 := st.2
  (csub c hi1 lo1).bind fun t =>
  if t > GenFn.elias_fano.LINEAR_SCAN_THRESHOLD then
    (cadd c lo1 hi1).bind fun t1 =>
    let mi := (t1 / 2)
    (GenFn.EliasFano.select c e mi).bind fun t2 =>
    (RS.unwrap t2).bind fun x =>
    if val = x then
      .ok (.ret (some mi))
    else
      (if val < x then
        .ok (mi, lo1)
      else
        (cadd c mi 1).bind fun t3 =>
        .ok (hi1, t3) : R _).bind fun j =>
      let hi2 := j.1
      let lo2 := j.2
      .ok (.next (hi2, lo2))
  else
    .ok (.brk (hi1, lo1))

/-- body of the linear scan -/
def efScanBody (c : Cfg) (val : Nat) (i : Nat) (it1 : GenFn.iter_Iter) : R (RS.Step GenFn.iter_Iter (Option Nat)) :=
  ((GenFn.iter_Iter.next c it1)).bind fun r =>
  let it2 := r.1
  (RS.unwrap r.2).bind fun x1 =>
  if val = x1 then
    .ok (.ret (some i))
  else
    .ok (.next it2)

def efScanPost (ex1 : RS.Exit GenFn.iter_Iter (Option Nat)) : R (Option Nat) :=
  match ex1 with
  | .ret rv1 => .ok rv1
  | .done st3 => .ok none

def efBsPost (c : Cfg) (e : EF) (val : Nat) (ex : RS.Exit (Nat × Nat) (Option Nat)) : R (Option Nat) :=
  match ex with
  | .ret rv => .ok rv
  | .done st1 =>
    let hi3 := st1.1
    let lo3 := st1.2
    (GenFn.EliasFano.iter c e lo3).bind fun it =>
    (RS.forRangeB lo3 hi3 it (efScanBody c val)).bind efScanPost

theorem ef_bs_unfold (c : Cfg) (e : EF) (range : Nat × Nat) (val : Nat) :
    GenFn.EliasFano.binsearch_range c e range val =
      if ((decide (range.2 ≤ range.1)) = true) ∨ ((GenFn.EliasFano.len e) < range.2) then .ok none
      else (RS.loopB (range.2, range.1) (efBsBody c e val)).bind (efBsPost c e val) := rfl

/-- the model's outcome of the binary phase as the exit of the generated loop -/
def efBinExit : Sum Nat (Nat × Nat) → RS.Exit (Nat × Nat) (Option Nat)
  | .inl i => .ret (some i)
  | .inr (lo, hi) => .done (hi, lo)

/-- the binary phase: the window halves, so the model's budget of 65 rounds is never exhausted with a window
    above the threshold -/
theorem ef_bin_loop (c : Cfg) (e : EF) (ok : EFOk c e) (val : Nat) :
    ∀ (n N lo hi : Nat), n < N → lo ≤ hi → hi ≤ e.len → hi - lo < 64 * 2^n →
      RS.loopFuel (efBsBody c e val) N (hi, lo) = (EF.binPhase c e val lo hi n).map efBinExit := by
  have hT : Gen.EF_LINEAR_SCAN_THRESHOLD = 64 := rfl
  have hlen := ok.wf.len
  have hcl : e.len ≤ e.high.bv.len := by
    show e.high.numOnes ≤ _
    rw [ok.numOnes]; exact cnt_le _ _
  intro n
  induction n with
  | zero =>
    intro N lo hi hN hle hhi hw
    obtain ⟨N', rfl⟩ : ∃ N', N = N' + 1 := ⟨N - 1, by omega⟩
    rw [loopFuel_succ]
    unfold efBsBody
    simp only []
    rw [csub_ok c hle, bok, if_neg (by show ¬ hi - lo > 64; omega)]
    rfl
  | succ n ih =>
    intro N lo hi hN hle hhi hw
    obtain ⟨N', rfl⟩ : ∃ N', N = N' + 1 := ⟨N - 1, by omega⟩
    rw [loopFuel_succ, EF.binPhase]
    unfold efBsBody
    simp only []
    rw [csub_ok c hle, bok]
    by_cases hgt : hi - lo > 64
    · rw [if_pos (show hi - lo > GenFn.elias_fano.LINEAR_SCAN_THRESHOLD from hgt), if_pos (by rw [hT]; exact hgt),
        cadd_ok c (by omega), bok, ef_select_eq c e ok, ef_unwrap_bind_eq]
      cases unwrapO (e.select c ((lo + hi) / 2)) with
      | error x => rfl
      | ok x =>
        rw [bok, bok]
        by_cases hv : val = x
        · rw [if_pos hv, if_pos hv]; rfl
        · rw [if_neg hv, if_neg hv]
          rw [Nat.pow_succ] at hw
          by_cases hlt : val < x
          · rw [if_pos hlt, if_pos hlt, bok, bok, stepK_next]
            exact ih N' lo ((lo + hi) / 2) (by omega) (by omega) (by omega) (by omega)
          · rw [if_neg hlt, if_neg hlt, cadd_ok c (by omega), bok, bok, bok, stepK_next]
            exact ih N' ((lo + hi) / 2 + 1) hi (by omega) (by omega) (by omega) (by omega)
    · rw [if_neg (show ¬ hi - lo > GenFn.elias_fano.LINEAR_SCAN_THRESHOLD from hgt), if_neg (by rw [hT]; exact hgt)]
      rfl

/-- the linear scan -/
theorem ef_scan_loop (c : Cfg) (e : EF) (ok : EFOk c e) (val : Nat) :
    ∀ (n i : Nat) (m : EF.It), EFItOk e m →
      (RS.forCountB (efScanBody c val) i n (efItCon e m)).bind efScanPost = EF.scanPhase c e val i m n := by
  intro n
  induction n with
  | zero => intro i m _; rfl
  | succ n ih =>
    intro i m w
    rw [EF.scanPhase]
    show ((efScanBody c val i (efItCon e m)).bind _).bind efScanPost = _
    unfold efScanBody
    rw [ef_iter_next_con c e ok m w]
    cases hn : EF.It.next c e m with
    | error x => rfl
    | ok r =>
      obtain ⟨m', a⟩ := r
      cases a with
      | none => rfl
      | some x =>
        rw [map_ok, bok, bok]
        simp only [unwrap_some]
        rw [bok]
        by_cases hv : val = x
        · rw [if_pos hv, if_pos hv]; rfl
        · rw [if_neg hv, if_neg hv, bok]
          exact ih (i + 1) m' (ef_next_okM c e ok m m' (some x) w hn)

/-- **`EliasFano::binsearch_range`** (`Range<usize>` as the pair `(start, end)`): the generated function equals the
    model's, which `C04` characterises ("an index in the range holding `val` iff one exists") -/
theorem ef_binsearch_range_eq (c : Cfg) (e : EF) (ok : EFOk c e) (range : Nat × Nat) (val : Nat) :
    GenFn.EliasFano.binsearch_range c e range val = EF.binsearchRange c e range.1 range.2 val := by
  rw [ef_bs_unfold]
  unfold EF.binsearchRange
  simp only [decide_eq_true_eq]
  rw [ef_len_eq]
  by_cases hc : range.2 ≤ range.1 ∨ e.len < range.2
  · rw [if_pos hc, if_pos hc]
  · rw [if_neg hc, if_neg hc, loopB_eq,
      ef_bin_loop c e ok val 65 RS.FUEL range.1 range.2 (by rw [FUEL_eq]; decide) (by omega) (by omega)
        (by have := ok.wf.len
            have hcl : e.len ≤ e.high.bv.len := by
              show e.high.numOnes ≤ _
              rw [ok.numOnes]; exact cnt_le _ _
            show _ < 64 * 36893488147419103232
            omega)]
    cases EF.binPhase c e val range.1 range.2 65 with
    | error x => rfl
    | ok r =>
      cases r with
      | inl i => rfl
      | inr p =>
        obtain ⟨lo, hi⟩ := p
        rw [map_ok, bok, bok]
        show (GenFn.EliasFano.iter c e lo).bind _ = _
        rw [ef_iter_eq c e ok]
        simp only []
        cases hit : EF.iter c e lo with
        | error x => rfl
        | ok m =>
          rw [map_ok, bok, bok]
          exact ef_scan_loop c e ok val (hi - lo) lo m (ef_iter_okM c e ok lo m hit)

/-- **`EliasFano::binsearch`** -/
theorem ef_binsearch_eq (c : Cfg) (e : EF) (ok : EFOk c e) (val : Nat) :
    GenFn.EliasFano.binsearch c e val = EF.binsearch c e val :=
  ef_binsearch_range_eq c e ok (0, e.len) val

end Sucds.GenEq
