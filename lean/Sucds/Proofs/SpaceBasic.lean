import Sucds.Proofs.SerialStruct
import Sucds.Proofs.CompactVector
import Sucds.Proofs.BitVector
/-! # C19, part 1 — byte counts of the codecs in closed form; BitVector and CompactVector.

`size_in_bytes()` of a structure is `Codec.size` of its codec. This file gives the closed forms of the
sizes of the primitive containers and proves the documented bounds of the plain bit vector and of the
compact vector. -/
set_option linter.unusedSimpArgs false
set_option linter.unusedVariables false
namespace Sucds
namespace Space
open Codec

theorem sum_map_const {α : Type} (k : Nat) (l : List α) : (l.map fun _ => k).sum = k * l.length := by
  induction l with
  | nil => simp
  | cons a t ih => simp only [List.map_cons, List.sum_cons, ih, List.length_cons]; rw [Nat.mul_succ]; omega

/-- a `Vec` of fixed-width primitives: 8-byte length prefix + `k` bytes per element -/
theorem arr_uint_size (k : Nat) (a : Array Nat) : (arr (uint k)).size a = 8 + k * a.size := by
  show 8 + (a.toList.map fun _ => k).sum = _
  rw [sum_map_const, Array.length_toList]

theorem arr_u64_size (a : Array Nat) : (arr u64).size a = 8 + 8 * a.size := arr_uint_size 8 a
theorem arr_u16_size (a : Array Nat) : (arr u16).size a = 8 + 2 * a.size := arr_uint_size 2 a
theorem arr_u8_size (a : Array Nat) : (arr u8).size a = 8 + 1 * a.size := arr_uint_size 1 a

theorem arr_i64_size (a : Array Int) : (arr Codec.i64).size a = 8 + 8 * a.size := by
  show 8 + (a.toList.map fun _ => 8).sum = _
  rw [sum_map_const, Array.length_toList]

/-- `Option<Vec<u64>>` -/
def optArrSize (o : Option (Array Nat)) : Nat :=
  match o with
  | none => 1
  | some a => 9 + 8 * a.size

theorem opt_arr_u64_size (o : Option (Array Nat)) : (opt (arr u64)).size o = optArrSize o := by
  cases o with
  | none => rfl
  | some a =>
    show 1 + (arr u64).size a = 9 + 8 * a.size
    rw [arr_u64_size]; omega

/-- `BitVector::size_in_bytes`: the words, their length prefix, and `len` -/
theorem BV.codec_size (b : BV) : BV.codec.size b = 16 + 8 * b.words.size := by
  show (8 + (b.words.toList.map fun _ => 8).sum) + 8 = _
  rw [sum_map_const, Array.length_toList]; omega

/-- `CompactVector::size_in_bytes` -/
theorem CV.codec_size (v : CV) : CV.codec.size v = 32 + 8 * v.chunks.words.size := by
  show BV.codec.size v.chunks + (8 + 8) = _
  rw [BV.codec_size]; omega

/-- **BitVector**: `8·size_in_bytes = payload rounded up to 64 bits + 128` (two `usize` fields) -/
theorem bitvector_bits (b : BV) (h : b.Inv) : 8 * BV.codec.size b = 64 * ((b.len + 63) / 64) + 128 := by
  rw [BV.codec_size, h.size]; omega

/-- **BitVector**, in the documented form (`+ 256`) -/
theorem bitvector_bound (b : BV) (h : b.Inv) : 8 * BV.codec.size b ≤ 64 * ((b.len + 63) / 64) + 256 := by
  rw [bitvector_bits b h]; omega

/-- **CompactVector** storing `xs`: exactly the `len·width` payload bits rounded up to 64, plus 256 -/
theorem compactvector_bits (v : CV) (xs : List Nat) (h : CV.Rep v xs) :
    8 * CV.codec.size v = 64 * ((v.len * v.width + 63) / 64) + 256 := by
  rw [CV.codec_size, h.inv.size, h.clen]; omega

theorem compactvector_bound (v : CV) (xs : List Nat) (h : CV.Rep v xs) :
    8 * CV.codec.size v ≤ 64 * ((v.len * v.width + 63) / 64) + 256 := by
  rw [compactvector_bits v xs h]; exact Nat.le_refl _

end Space
end Sucds
