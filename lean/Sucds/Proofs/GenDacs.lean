import Sucds.Proofs.GenDacsByte
import Sucds.Proofs.GenDacsOpt
/-! # `DacsByte` and `DacsOpt`: the generated functions agree with the model (namespace `Sucds.GenEq`)

The proofs are split over two files:

* `GenDacsByte` — `dacs_byte_from_slice_eq`, `dacs_byte_access_eq` (`DacBInv`), accessors, `dacs_byte_iter_c17`,
  `dacs_byte_c11` (C11 and the `DacsByte` clause of C17 for the generated functions);
* `GenDacsOpt` — `dacs_opt_build_eq`, `dacs_opt_from_slice_eq`, `dacs_opt_access_eq` (`DacOInv`), accessors,
  `daco_iter_expected`, `dacs_opt_c10`, `dacs_opt_c18` (C10, the `DacsOpt` clause of C17 and C18 for the generated
  functions). -/
