import Sucds.Proofs.CompactVectorFullBits
import Sucds.Proofs.CompactVectorHistory
import Sucds.Proofs.IndexIter
/-! C09 (full), part 2: the constructors `from_int`/`from_slice`, canonical (structural) equality,
    iteration, and the assembled statement `CV.full_spec` over every constructor and every history. -/
set_option linter.unusedSimpArgs false
set_option linter.unusedVariables false
namespace Sucds
namespace CV
open Sucds.Spec

/-! ### the constructors `from_int`, `from_slice` -/

-- `CV.fromInt` and `CV.fromSlice` (the models of `from_int` / `from_slice`) are defined in the model files
-- `Sucds/Model/CompactVector.lean` and `Sucds/Model/Dacs.lean`; the driver executes those definitions.

theorem takeWhile_all {α} (p : α → Bool) (l : List α) (h : ∀ x ∈ l, p x = true) : l.takeWhile p = l := by
  induction l with
  | nil => rfl
  | cons a t ih =>
    rw [List.takeWhile_cons, h a (by simp), if_pos rfl, ih (fun x hx => h x (by simp [hx]))]

/-- `extend` with values that all fit appends all of them -/
theorem extend_all (v : CV) (xs vs : List Nat) (h : Rep v xs) (hs : ∀ x ∈ vs, x < 2^64)
    (hfit : ∀ x ∈ vs, x < 2^v.width) :
    ∃ v', v.extend vs = .ok (v', true) ∧ Rep v' (xs ++ vs) ∧ v'.width = v.width := by
  obtain ⟨v', he, hr, hw⟩ := extend_ok vs v xs h hs
  have hall : ∀ x ∈ vs, (fun x => decide (x < 2^v.width)) x = true := by
    intro x hx; simpa using hfit x hx
  have h1 : vs.all (fun x => decide (x < 2^v.width)) = true := by
    rw [List.all_eq_true]; exact hall
  rw [h1] at he
  rw [takeWhile_all _ vs hall] at hr
  exact ⟨v', he, hr, hw⟩

theorem fitcheck_eq_misfit (width val : Nat) (hw : width ≤ 64) :
    (decide (width < 64) && (val >>> width != 0)) = misfit width val := by
  unfold misfit
  by_cases h : width = 64
  · subst h; simp
  · have h1 : width < 64 := by omega
    simp [h, h1]

/-- **from_int**, accepted: widths `1..=64` and a value that fits give `len` copies of `val` -/
theorem fromInt_ok (val len width : Nat) (hv : val < 2^64) (h1 : 1 ≤ width) (h2 : width ≤ 64)
    (hfit : val < 2^width) :
    ∃ v, fromInt val len width = .ok (some v) ∧ Rep v (List.replicate len val) ∧ v.width = width := by
  unfold fromInt
  have hw : ¬ ¬ (1 ≤ width ∧ width ≤ 64) := by omega
  rw [if_neg hw, fitcheck_eq_misfit width val h2, (misfit_false_iff width val h2 hv).mpr hfit]
  obtain ⟨v0, hn, hr, hw0⟩ := new_rep width h1 h2
  rw [hn]
  obtain ⟨v', he, hr', hw'⟩ := extend_all v0 [] (List.replicate len val) hr
    (by intro x hx; rw [List.eq_of_mem_replicate hx]; exact hv)
    (by intro x hx; rw [List.eq_of_mem_replicate hx, hw0]; exact hfit)
  refine ⟨v', ?_, by simpa using hr', by rw [hw', hw0]⟩
  simp [he, Except.bind]

/-- **from_int**, rejected: a width outside `1..=64` or a value that does not fit gives `Err` -/
theorem fromInt_rej (val len width : Nat) (hv : val < 2^64)
    (h : ¬ (1 ≤ width ∧ width ≤ 64) ∨ ¬ val < 2^width) : fromInt val len width = .ok none := by
  unfold fromInt
  by_cases hw : 1 ≤ width ∧ width ≤ 64
  · have hnf : ¬ val < 2^width := by
      cases h with
      | inl h => exact absurd hw h
      | inr h => exact h
    have hm : misfit width val = true := by
      cases hmf : misfit width val with
      | true => rfl
      | false => exact absurd ((misfit_false_iff _ _ hw.2 hv).mp hmf) hnf
    rw [if_neg (by omega), fitcheck_eq_misfit width val hw.2, hm]; rfl
  · rw [if_pos hw]

/-- **from_int** answers `Err` exactly when the width is outside `1..=64` or the value does not fit;
    it never panics -/
theorem fromInt_none_iff (val len width : Nat) (hv : val < 2^64) :
    fromInt val len width = .ok none ↔ (¬ (1 ≤ width ∧ width ≤ 64) ∨ ¬ val < 2^width) := by
  constructor
  · intro h
    by_cases hg : (1 ≤ width ∧ width ≤ 64) ∧ val < 2^width
    · obtain ⟨v, hv', _, _⟩ := fromInt_ok val len width hv hg.1.1 hg.1.2 hg.2
      rw [hv'] at h; cases h
    · omega
  · exact fromInt_rej val len width hv

theorem le_foldl_max (l : List Nat) : ∀ (a : Nat), a ≤ l.foldl max a ∧ ∀ x ∈ l, x ≤ l.foldl max a := by
  induction l with
  | nil => intro a; exact ⟨Nat.le_refl _, by simp⟩
  | cons b t ih =>
    intro a
    rw [List.foldl_cons]
    obtain ⟨h1, h2⟩ := ih (max a b)
    refine ⟨by omega, ?_⟩
    intro x hx
    rcases List.mem_cons.mp hx with rfl | hx
    · omega
    · exact h2 x hx

theorem foldl_max_lt (l : List Nat) (B : Nat) : ∀ (a : Nat), a < B → (∀ x ∈ l, x < B) → l.foldl max a < B := by
  induction l with
  | nil => intro a ha _; exact ha
  | cons b t ih =>
    intro a ha hl
    rw [List.foldl_cons]
    have hb : b < B := hl b (by simp)
    exact ih (max a b) (by omega) (fun x hx => hl x (by simp [hx]))

/-- **from_slice** of a non-empty slice: every value fits the computed width, nothing panics, the
    result stores `vals` with width = bit length of the maximum -/
theorem fromSlice_ok (c : Cfg) (vals : List Nat) (hne : vals ≠ []) (hs : ∀ x ∈ vals, x < 2^64) :
    ∃ v, fromSlice c vals = .ok (some v) ∧ Rep v vals ∧ v.width = bitlen (vals.foldl max 0) := by
  unfold fromSlice
  have he : vals.isEmpty = false := by cases vals with | nil => exact absurd rfl hne | cons a t => rfl
  have hm64 : vals.foldl max 0 < 2^64 := foldl_max_lt vals (2^64) 0 (by decide) hs
  rw [he, neededBits_eq c _ hm64]
  simp only [Bool.false_eq_true, if_false]
  obtain ⟨v0, hn, hr, hw0⟩ := new_rep (bitlen (vals.foldl max 0)) (bitlen_pos _) (bitlen_le_64 _ hm64)
  rw [hn]
  obtain ⟨v', hex, hr', hw'⟩ := extend_all v0 [] vals hr hs (by
    intro x hx
    rw [hw0]
    have hle : x ≤ vals.foldl max 0 := (le_foldl_max vals 0).2 x hx
    exact Nat.lt_of_lt_of_le (lt_two_pow_bitlen x) (Nat.pow_le_pow_right (by omega) (bitlen_mono hle)))
  refine ⟨v', ?_, by simpa using hr', by rw [hw', hw0]⟩
  simp [hex, Except.bind]

/-- **from_slice(&[])** is the `Default` vector -/
theorem fromSlice_nil (c : Cfg) : fromSlice c [] = .ok (some default) := rfl

/-- the `Default` vector (width 0): empty, every read answers `None` -/
theorem default_rep : Rep default [] :=
  { len := rfl, inv := BV.new_inv, clen := rfl, wle := by decide, vals := by intro i hi; exact absurd hi (Nat.not_lt_zero i) }
theorem default_len : default.len = 0 := rfl
theorem default_width : default.width = 0 := rfl
theorem default_getInt (i : Nat) : default.getInt i = .ok none := by
  simpa using getInt_ok default [] default_rep i

/-! ### canonical equality (the derived `PartialEq` is structural) -/

/-- two vectors with the same width that store the same list are equal field by field -/
theorem rep_canonical (v v' : CV) (xs : List Nat) (h : Rep v xs) (h' : Rep v' xs)
    (hw : v.width = v'.width) : v = v' := by
  have hl : v.len = v'.len := by rw [h.len, h'.len]
  have hcl : v.chunks.len = v'.chunks.len := by rw [h.clen, h'.clen, hl, hw]
  have hch : v.chunks = v'.chunks := by
    apply BV.eq_of_toList v.chunks v'.chunks h.inv h'.inv
    unfold BV.toList
    rw [← hcl]
    apply List.map_congr_left
    intro p hp
    have hp' : p < v.len * v.width := by rw [← h.clen]; simpa using hp
    have hwpos : 0 < v.width := by
      rcases Nat.eq_zero_or_pos v.width with h0 | h0
      · rw [h0, Nat.mul_zero] at hp'; exact absurd hp' (Nat.not_lt_zero _)
      · exact h0
    have hq : p / v.width < v.len := (Nat.div_lt_iff_lt_mul hwpos).mpr hp'
    have hr : p % v.width < v.width := Nat.mod_lt _ hwpos
    have hp_eq : p / v.width * v.width + p % v.width = p := by
      rw [Nat.mul_comm]; exact Nat.div_add_mod p v.width
    have e1 := h.vals (p / v.width) hq (p % v.width)
    have e2 := h'.vals (p / v.width) (hl ▸ hq) (p % v.width)
    rw [← hw] at e2
    rw [hp_eq] at e1 e2
    simp only [hr, decide_true, Bool.true_and] at e1 e2
    rw [← e1, ← e2]
  cases v with
  | mk c l w =>
    cases v' with
    | mk c' l' w' =>
      simp only at hl hw hch
      subst hl; subst hw; subst hch; rfl

/-- conversely equal vectors store the same list (of values that fit): `Rep` determines the contents -/
theorem rep_unique (v : CV) (xs ys : List Nat) (h : Rep v xs) (h' : Rep v ys) : xs = ys := by
  apply List.ext_getElem?
  intro i
  have := getInt_ok v xs h i
  rw [getInt_ok v ys h' i] at this
  injection this with this
  exact this.symm

/-! ### iteration (`Iter`: `next` = `access(pos)` then `pos += 1`) -/

/-- `access(i)` as the iterator sees it -/
def accOf (v : CV) (i : Nat) : Option Nat := match v.getInt i with | .ok r => r | .error _ => none

theorem accOf_eq (v : CV) (xs : List Nat) (h : Rep v xs) (i : Nat) : accOf v i = xs[i]? := by
  unfold accOf; rw [getInt_ok v xs h i]

/-- inside `next` the `access(pos).unwrap()` never panics: for `pos < len` the answer is `Some` -/
theorem iter_unwrap_ok (v : CV) (xs : List Nat) (h : Rep v xs) (i : Nat) (hi : i < v.len) :
    ∃ x, v.getInt i = .ok (some x) ∧ xs[i]? = some x := by
  have hx : i < xs.length := by rw [← h.len]; exact hi
  exact ⟨xs[i], by rw [getInt_ok v xs h i, List.getElem?_eq_getElem hx], List.getElem?_eq_getElem hx⟩

/-- **iteration**: from any position `p ≤ len` the iterator yields `xs[p..]` in order, then `None` on
    every further call; the size hint before each call is exact -/
theorem iter_from (v : CV) (xs : List Nat) (h : Rep v xs) (n p : Nat) (hp : p ≤ xs.length) :
    IndexIter.runN v.len (accOf v) ⟨p⟩ n =
      (List.range n).map (fun j => (xs[p + j]?, (xs.length - (p + j), some (xs.length - (p + j))))) := by
  rw [h.len]
  exact IndexIter.runN_spec xs (accOf v) (fun i _ => accOf_eq v xs h i) n p hp

/-- **iteration** from `iter()` (position 0) -/
theorem iter_spec (v : CV) (xs : List Nat) (h : Rep v xs) (n : Nat) :
    IndexIter.runN v.len (accOf v) ⟨0⟩ n =
      (List.range n).map (fun j => (xs[j]?, (xs.length - j, some (xs.length - j)))) := by
  have := iter_from v xs h n 0 (Nat.zero_le _)
  simpa only [Nat.zero_add] using this

/-- the first `len` answers are exactly the stored values, all later ones are `None` -/
theorem iter_values (v : CV) (xs : List Nat) (h : Rep v xs) (k : Nat) :
    (IndexIter.runN v.len (accOf v) ⟨0⟩ (xs.length + k)).map (·.1) = xs.map some ++ List.replicate k none := by
  rw [iter_spec v xs h, List.map_map]
  apply List.ext_getElem?
  intro i
  simp only [List.getElem?_map, List.getElem?_range, Function.comp]
  by_cases hi : i < xs.length
  · rw [List.getElem?_append_left (by simpa using hi)]
    have : i < xs.length + k := by omega
    simp [List.getElem?_range this, hi]
  · rw [List.getElem?_append_right (by simpa using Nat.le_of_not_lt hi)]
    simp only [List.length_map, List.getElem?_replicate]
    by_cases hk : i < xs.length + k
    · have h1 : i - xs.length < k := by omega
      have h2 : xs[i]? = none := List.getElem?_eq_none (by omega)
      simp [List.getElem?_range hk, h1, h2]
    · have h1 : ¬ i - xs.length < k := by omega
      have h3 : (List.range (xs.length + k))[i]? = none := List.getElem?_eq_none (by simpa using Nat.le_of_not_lt hk)
      simp [h1, h3]

/-! ### the full statement: every constructor followed by every history -/

/-- the constructors of `CompactVector` (`with_capacity` = `new`: the capacity is not observable) -/
inductive Ctor
  | new (width : Nat)
  | fromInt (val len width : Nat)
  | fromSlice (vals : List Nat)

/-- operands are `usize` values -/
def Ctor.Small : Ctor → Prop
  | .new _ => True
  | .fromInt val _ _ => val < 2^64
  | .fromSlice vals => ∀ x ∈ vals, x < 2^64

/-- what the code does: `none` = `Err` -/
def construct (c : Cfg) : Ctor → R (Option CV)
  | .new w => .ok (CV.new w)
  | .fromInt val len w => fromInt val len w
  | .fromSlice vals => fromSlice c vals

/-- list semantics of a constructor: `none` = `Err`, otherwise the declared width and the contents -/
def specCtor : Ctor → Option (Nat × List Nat)
  | .new w => if 1 ≤ w ∧ w ≤ 64 then some (w, []) else none
  | .fromInt val len w => if (1 ≤ w ∧ w ≤ 64) ∧ val < 2^w then some (w, List.replicate len val) else none
  | .fromSlice vals => if vals = [] then some (0, []) else some (bitlen (vals.foldl max 0), vals)

/-- list semantics of a history on a vector of width `w` -/
def specRun (w : Nat) (xs : List Nat) (ops : List Op) : List Nat :=
  ops.foldl (fun l op => (specApply w l op).1) xs

/-- every constructor refines its list semantics and never panics -/
theorem construct_spec (c : Cfg) (k : Ctor) (hk : k.Small) :
    match specCtor k with
    | none => construct c k = .ok none
    | some (w, xs) => ∃ v, construct c k = .ok (some v) ∧ Rep v xs ∧ v.width = w := by
  cases k with
  | new w =>
    simp only [specCtor, construct]
    by_cases h : 1 ≤ w ∧ w ≤ 64
    · simp only [h, and_self, if_true]
      obtain ⟨v, hn, hr, hw⟩ := new_rep w h.1 h.2
      exact ⟨v, by rw [hn], hr, hw⟩
    · rw [if_neg h]
      show Except.ok (CV.new w) = Except.ok none
      rw [new_rej w (by omega)]
  | fromInt val len w =>
    simp only [specCtor, construct]
    by_cases h : (1 ≤ w ∧ w ≤ 64) ∧ val < 2^w
    · rw [if_pos h]
      exact fromInt_ok val len w hk h.1.1 h.1.2 h.2
    · rw [if_neg h]
      exact fromInt_rej val len w hk (by omega)
  | fromSlice vals =>
    simp only [specCtor, construct]
    by_cases h : vals = []
    · subst h
      rw [if_pos rfl]
      exact ⟨default, rfl, default_rep, rfl⟩
    · rw [if_neg h]
      exact fromSlice_ok c vals h hk

theorem run_append (pre post : List Op) : ∀ (v : CV), run v (pre ++ post) = (run v pre).bind fun v1 => run v1 post := by
  induction pre with
  | nil => intro v; rfl
  | cons op t ih =>
    intro v
    simp only [List.cons_append, run]
    cases h : v.apply op with
    | error e => rfl
    | ok r => simp only [Except.bind]; exact ih r.1

theorem specRun_append (w : Nat) (xs : List Nat) (pre post : List Op) :
    specRun w xs (pre ++ post) = specRun w (specRun w xs pre) post := by
  unfold specRun; rw [List.foldl_append]

/-- what holds of a vector `v` that stores `xs` with declared width `w` -/
structure Faithful (v : CV) (w : Nat) (xs : List Nat) : Prop where
  rep : Rep v xs
  len : v.len = xs.length
  width : v.width = w
  /-- `get_int(i)` for EVERY `i : Nat` (no bound on `i`: includes positions whose bit offset overflows) -/
  get : ∀ i, v.getInt i = .ok xs[i]?
  /-- iteration: the elements in order, then `None` for ever, with exact size hints -/
  iter : ∀ n, IndexIter.runN v.len (accOf v) ⟨0⟩ n =
      (List.range n).map (fun j => (xs[j]?, (xs.length - j, some (xs.length - j))))
  /-- structural equality: any vector with the same width and contents is this one -/
  canon : ∀ u, Rep u xs → u.width = w → u = v

theorem faithful_of_rep (v : CV) (w : Nat) (xs : List Nat) (h : Rep v xs) (hw : v.width = w) : Faithful v w xs :=
  { rep := h, len := h.len, width := hw, get := getInt_ok v xs h, iter := iter_spec v xs h,
    canon := fun u hu hwu => rep_canonical u v xs hu h (by rw [hwu, hw]) }

/-- **C09, full statement.** For every build configuration, every constructor call (`new`/`with_capacity`,
    `from_int`, `from_slice`, operands in `usize`) and every history of `push_int`/`set_int`/`extend`
    (operands in `usize`):
    * the constructor answers `Err` exactly when its list semantics does (width outside `1..=64`, misfit);
    * otherwise nothing panics, and the final vector stores the list-semantics contents: `len`, `width`
      (declared one; `from_slice`: bit length of the maximum, `0` for the empty slice), `get_int(i)` for every
      `i : Nat`, iteration and structural equality (`Faithful`);
    * every single operation in the history answers `Ok`/`Err` as the list semantics says, and a rejected
      `push_int`/`set_int` returns the vector unchanged (a rejected `extend` keeps the items before the
      first misfit: that is its list semantics). -/
theorem full_spec (c : Cfg) (k : Ctor) (hk : k.Small) (ops : List Op) (hs : ∀ op ∈ ops, op.Small) :
    match specCtor k with
    | none => construct c k = .ok none
    | some (w, xs0) =>
      ∃ v0 v', construct c k = .ok (some v0) ∧ Faithful v0 w xs0 ∧
        run v0 ops = .ok v' ∧ Faithful v' w (specRun w xs0 ops) ∧
        ∀ pre op post, ops = pre ++ op :: post →
          ∃ v1 v2, run v0 pre = .ok v1 ∧ Faithful v1 w (specRun w xs0 pre) ∧
            v1.apply op = .ok (v2, (specApply w (specRun w xs0 pre) op).2) ∧
            Faithful v2 w (specApply w (specRun w xs0 pre) op).1 ∧
            run v2 post = .ok v' ∧
            ((specApply w (specRun w xs0 pre) op).2 = false → (∀ o, op ≠ .extend o) → v2 = v1) := by
  have hc := construct_spec c k hk
  cases hsp : specCtor k with
  | none => rw [hsp] at hc; exact hc
  | some p =>
    obtain ⟨w, xs0⟩ := p
    rw [hsp] at hc
    obtain ⟨v0, hcon, hr0, hw0⟩ := hc
    show ∃ v0 v', _
    obtain ⟨v', hrun, hw', hr', _⟩ := run_spec ops v0 xs0 hr0 hs
    rw [hw0] at hw' hr'
    refine ⟨v0, v', hcon, faithful_of_rep v0 w xs0 hr0 hw0, hrun, faithful_of_rep v' w _ hr' hw', ?_⟩
    intro pre op post hsplit
    subst hsplit
    have hs_pre : ∀ o ∈ pre, o.Small := fun o ho => hs o (by simp [ho])
    have hs_op : op.Small := hs op (by simp)
    obtain ⟨v1, hrun1, hw1, hr1, _⟩ := run_spec pre v0 xs0 hr0 hs_pre
    rw [hw0] at hw1 hr1
    obtain ⟨v2, hap, hr2, hw2, hrej⟩ := apply_spec v1 _ hr1 op hs_op
    rw [hw1] at hap hr2 hw2 hrej
    refine ⟨v1, v2, hrun1, faithful_of_rep v1 w _ hr1 hw1, hap, faithful_of_rep v2 w _ hr2 hw2, ?_, hrej⟩
    have := run_append pre (op :: post) v0
    rw [hrun, hrun1] at this
    simp only [Except.bind, run, hap] at this
    exact this.symm

/-- two histories (constructor + operations) that end with the same width and the same contents end in
    equal vectors -/
theorem full_eq (c c' : Cfg) (k k' : Ctor) (hk : k.Small) (hk' : k'.Small) (ops ops' : List Op)
    (hs : ∀ op ∈ ops, op.Small) (hs' : ∀ op ∈ ops', op.Small)
    (w : Nat) (xs0 xs0' : List Nat) (h : specCtor k = some (w, xs0)) (h' : specCtor k' = some (w, xs0'))
    (hsame : specRun w xs0 ops = specRun w xs0' ops') :
    ∃ v0 v0' v, construct c k = .ok (some v0) ∧ construct c' k' = .ok (some v0') ∧
      run v0 ops = .ok v ∧ run v0' ops' = .ok v := by
  have h1 := full_spec c k hk ops hs
  have h2 := full_spec c' k' hk' ops' hs'
  rw [h] at h1; rw [h'] at h2
  obtain ⟨v0, v, hc, _, hr, hf, _⟩ := h1
  obtain ⟨v0', v', hc', _, hr', hf', _⟩ := h2
  have : v' = v := hf.canon v' (hsame ▸ hf'.rep) hf'.width
  subst this
  exact ⟨v0, v0', v', hc, hc', hr, hr'⟩

/-! ### closed instances (evaluated by the kernel) -/
example : (fromInt 7 2 3).map (·.map fun v => (v.len, v.width, v.getInt 0, v.getInt 2)) =
    .ok (some (2, 3, .ok (some 7), .ok none)) := by rfl
example : fromInt 8 1 3 = .ok none := by rfl                      -- `test_from_int_unfit`
example : fromInt 0 1 0 = .ok none ∧ fromInt 0 1 65 = .ok none := ⟨rfl, rfl⟩
example : (fromInt (2^64 - 1) 3 64).map (·.map fun v => (v.len, v.width, v.getInt 2, v.getInt (2^63))) =
    .ok (some (3, 64, .ok (some (2^64 - 1)), .ok none)) := by rfl   -- `test_64b_from_int`, and a position ≥ 2^63
example : (fromSlice ⟨true, false⟩ [7, 2]).map (·.map fun v => (v.len, v.width, v.getInt 0, v.getInt 1)) =
    .ok (some (2, 3, .ok (some 7), .ok (some 2))) := by rfl
example : (fromSlice ⟨false, true⟩ [5, 256, 0]).map (·.map fun v => (v.width, v.getInt 1, v.getInt 3)) =
    .ok (some (9, .ok (some 256), .ok none)) := by rfl
example : (fromSlice ⟨true, true⟩ [0, 0]).map (·.map fun v => (v.len, v.width)) = .ok (some (2, 1)) := by rfl


end CV
end Sucds
