import Sucds.Proofs.DArraySelect
/-! DArray: the index built by the model answers `select` correctly, over ones and over zeros, in every build
    configuration; assembled API statement `DA.build_answers`.

    No size hypothesis is needed: the model's `block_inventory` holds unbounded `Int`s and positions are
    `Nat`s (the Rust `isize`/`usize` casts are exact for every vector that fits in memory, `len < 2^63`);
    the only narrowing cast, `(pos - first) as u16`, is modelled by `% 65536` and proved exact
    (`flush_spec`: inside a dense block `pos - first ≤ last - first < 65536`). -/
set_option linter.unusedSimpArgs false
set_option linter.unusedVariables false
namespace Sucds
open Spec DAProof

/-! ### generic formulation: `o = true` indexes the ones, `o = false` the zeros -/

theorem DAIndex.build_numPos_gen (c : Cfg) (bv : BV) (h : bv.Inv) (o : Bool) :
    (DAIndex.build c bv o).numPos = cnt (fun i => bv.bitAt i == o) bv.len := by
  rw [(build_FInv c bv h o).np]
  exact cnt_congr _ _ _ (fun i hi => by unfold Pb; simp [hi])

theorem DAIndex.select_gen_ok (c : Cfg) (bv : BV) (h : bv.Inv) (o : Bool) (k : Nat) :
    (DAIndex.build c bv o).select c bv k = .ok (sel (fun i => bv.bitAt i == o) bv.len k) := by
  rw [select_of_FInv c bv h o _ (build_overOne c bv o) (build_FInv c bv h o) k]
  congr 1
  exact sel_congr _ _ _ _ (fun i hi => by unfold Pb; simp [hi])

/-! ### deliverable 1 -/

theorem DAIndex.build_numPos (c : Cfg) (bv : BV) (h : bv.Inv) :
    (DAIndex.build c bv true).numPos = cnt bv.bitAt bv.len := by
  rw [DAIndex.build_numPos_gen c bv h true]
  exact cnt_congr _ _ _ (fun i _ => by cases bv.bitAt i <;> rfl)

theorem DAIndex.build_numPos_zeros (c : Cfg) (bv : BV) (h : bv.Inv) :
    (DAIndex.build c bv false).numPos = cnt (fun i => !bv.bitAt i) bv.len := by
  rw [DAIndex.build_numPos_gen c bv h false]
  exact cnt_congr _ _ _ (fun i _ => by cases bv.bitAt i <;> rfl)

/-! ### deliverable 2 -/

/-- **select over the ones index**: the position of the `k`-th set bit, `none` iff there are at most `k`;
    never a panic, in either arithmetic mode and with either broadword variant -/
theorem DAIndex.select_ones_ok (c : Cfg) (bv : BV) (h : bv.Inv) (k : Nat) :
    (DAIndex.build c bv true).select c bv k = .ok (sel bv.bitAt bv.len k) := by
  rw [DAIndex.select_gen_ok c bv h true k]
  congr 1
  exact sel_congr _ _ _ _ (fun i _ => by cases bv.bitAt i <;> rfl)

/-- **select over the zeros index**: the position of the `k`-th unset bit below `len` -/
theorem DAIndex.select_zeros_ok (c : Cfg) (bv : BV) (h : bv.Inv) (k : Nat) :
    (DAIndex.build c bv false).select c bv k = .ok (sel (fun i => !bv.bitAt i) bv.len k) := by
  rw [DAIndex.select_gen_ok c bv h false k]
  congr 1
  exact sel_congr _ _ _ _ (fun i _ => by cases bv.bitAt i <;> rfl)

/-! ### deliverable 3: the assembled API -/

theorem DA.build_bv (c : Cfg) (bv : BV) (rank sel0 : Bool) : (DA.build c bv rank sel0).bv = bv := by
  unfold DA.build DA.enableSelect0 DA.enableRank DA.fromBV
  cases rank <;> cases sel0 <;> rfl

theorem DA.build_s1 (c : Cfg) (bv : BV) (rank sel0 : Bool) : (DA.build c bv rank sel0).s1 = DAIndex.build c bv true := by
  unfold DA.build DA.enableSelect0 DA.enableRank DA.fromBV
  cases rank <;> cases sel0 <;> rfl

theorem DA.build_s0 (c : Cfg) (bv : BV) (rank sel0 : Bool) :
    (DA.build c bv rank sel0).s0 = if sel0 then some (DAIndex.build c bv false) else none := by
  unfold DA.build DA.enableSelect0 DA.enableRank DA.fromBV
  cases rank <;> cases sel0 <;> rfl

theorem DA.build_r9 (c : Cfg) (bv : BV) (rank sel0 : Bool) :
    (DA.build c bv rank sel0).r9 = if rank then some (R9Index.buildRank c bv) else none := by
  unfold DA.build DA.enableSelect0 DA.enableRank DA.fromBV
  cases rank <;> cases sel0 <;> rfl

/-- **DArray answers**: whatever optional indexes are enabled, `select1`, `num_ones`, `num_zeros`, `access` are
    the specification's answers; `select0` is when `sel0` was requested, `rank1`/`rank0` are when `rank` was
    requested (and they are the documented `expect` panic otherwise). -/
theorem DA.build_answers (c : Cfg) (bv : BV) (h : bv.Inv) (rank sel0 : Bool) :
    (∀ k, (DA.build c bv rank sel0).select1 c k = .ok (sel bv.bitAt bv.len k)) ∧
    (DA.build c bv rank sel0).numOnes = cnt bv.bitAt bv.len ∧
    (DA.build c bv rank sel0).numBits = bv.len ∧
    (DA.build c bv rank sel0).numZeros c = .ok (cnt (fun i => !bv.bitAt i) bv.len) ∧
    (∀ i, (DA.build c bv rank sel0).access i = .ok (if i < bv.len then some (bv.bitAt i) else none)) ∧
    (sel0 = true → ∀ k, (DA.build c bv rank sel0).select0 c k = .ok (sel (fun i => !bv.bitAt i) bv.len k)) ∧
    (sel0 = false → ∀ k, (DA.build c bv rank sel0).select0 c k = .error .expect) ∧
    (rank = true → ∀ i, (DA.build c bv rank sel0).rank1 c i
        = .ok (if i ≤ bv.len then some (cnt bv.bitAt i) else none)) ∧
    (rank = true → ∀ i, (DA.build c bv rank sel0).rank0 c i
        = .ok (if i ≤ bv.len then some (cnt (fun j => !bv.bitAt j) i) else none)) ∧
    (rank = false → ∀ i, (DA.build c bv rank sel0).rank1 c i = .error .expect ∧
        (DA.build c bv rank sel0).rank0 c i = .error .expect) := by
  have hbv := DA.build_bv c bv rank sel0
  have hs1 := DA.build_s1 c bv rank sel0
  have hs0 := DA.build_s0 c bv rank sel0
  have hr9 := DA.build_r9 c bv rank sel0
  have hones : (DA.build c bv rank sel0).numOnes = cnt bv.bitAt bv.len := by
    unfold DA.numOnes; rw [hs1]; exact DAIndex.build_numPos c bv h
  have hbits : (DA.build c bv rank sel0).numBits = bv.len := by unfold DA.numBits; rw [hbv]
  refine ⟨?_, hones, hbits, ?_, ?_, ?_, ?_, ?_, ?_, ?_⟩
  · intro k; unfold DA.select1; rw [hs1, hbv]; exact DAIndex.select_ones_ok c bv h k
  · unfold DA.numZeros
    rw [hones, hbits, csub_ok c (cnt_le _ _)]
    have := cnt_compl bv.bitAt bv.len
    congr 1; omega
  · intro i; unfold DA.access; rw [hbv]; exact BV.getBit_ok bv h i
  · intro hs k; unfold DA.select0; rw [hs0, hbv, hs, if_pos rfl]; exact DAIndex.select_zeros_ok c bv h k
  · intro hs k; unfold DA.select0; rw [hs0, hs]; rfl
  · intro hr i; unfold DA.rank1; rw [hr9, hbv, hr, if_pos rfl]; exact R9Index.rank1_ok c bv h i
  · intro hr i; unfold DA.rank0; rw [hr9, hbv, hr, if_pos rfl]; exact R9Index.rank0_ok c bv h i
  · intro hr i; unfold DA.rank1 DA.rank0; rw [hr9, hr]; exact ⟨rfl, rfl⟩

end Sucds
