import Sucds.Proofs.Rank9ZeroHints
import Sucds.Model.Rank9Sel
/-! `Rank9Sel` (`src/bit_vectors/rank9sel.rs`): every query of the public API answers according to the
    bit sequence the structure was built from, with or without either hint table. -/
set_option linter.unusedSimpArgs false
set_option linter.unusedVariables false
namespace Sucds
open Spec
namespace R9Index

/-! ### queries that read only the directory are unaffected by the hint tables -/
theorem numOnes_congr (x y : R9Index) (hxy : x.pairs = y.pairs) : x.numOnes = y.numOnes := by
  unfold numOnes; rw [hxy]

theorem rank1_congr (c : Cfg) (x y : R9Index) (hxy : x.pairs = y.pairs) (bv : BV) (pos : Nat) :
    x.rank1 c bv pos = y.rank1 c bv pos := by
  unfold rank1 subBlockRank numOnes blockRank subBlockRanks; rw [hxy]

theorem rank0_congr (c : Cfg) (x y : R9Index) (hxy : x.pairs = y.pairs) (bv : BV) (pos : Nat) :
    x.rank0 c bv pos = y.rank0 c bv pos := by
  unfold rank0; rw [rank1_congr c x y hxy]

theorem window1_congr (x y : R9Index) (hp : x.pairs = y.pairs) (hs : x.sel1 = y.sel1) (k : Nat) :
    window1 x k = window1 y k := by
  unfold window1 numBlocks; rw [hp, hs]

/-- the hint table of the one side yields a bracketing window for every `k` below the number of ones -/
def Win1 (c : Cfg) (bv : BV) (x : R9Index) : Prop :=
  ∀ k, k < prefixPop c bv.words bv.words.size → ∃ a b, window1 x k = .ok (a, b) ∧ a < b ∧
    b ≤ (buildRank c bv).numBlocks + 1 ∧ prefixPop c bv.words (8 * a) ≤ k ∧ k < prefixPop c bv.words (8 * b)

/-- the hint table of the zero side yields a bracketing window for every `k` below the number of zeros -/
def Win0 (c : Cfg) (bv : BV) (x : R9Index) : Prop :=
  ∀ k, k < cnt (fun i => !bv.bitAt i) bv.len → ∃ a b, window0 x k = .ok (a, b) ∧ a < b ∧
    b ≤ (buildRank c bv).numBlocks + 1 ∧ prefixZ c bv.words (8 * a) ≤ k ∧ k < prefixZ c bv.words (8 * b)

/-- without a one-side hint table the window is the whole directory -/
theorem win1_none (c : Cfg) (bv : BV) (h : bv.Inv) (x : R9Index) (hx : x.pairs = (buildRank c bv).pairs)
    (hs : x.sel1 = none) : Win1 c bv x := by
  intro k hk
  have hnb := numBlocks_eq c bv h
  have e2 : x.numBlocks = (buildRank c bv).numBlocks := numBlocks_congr x _ hx
  have hsdm : 8 * (bv.words.size / 8) + bv.words.size % 8 = bv.words.size := Nat.div_add_mod _ 8
  have hpos : 0 < bv.words.size := by
    cases hz : bv.words.size with
    | zero => rw [hz] at hk; simp [prefixPop] at hk
    | succ n => omega
  have hnb0 : 0 < (buildRank c bv).numBlocks := by rw [hnb]; split <;> omega
  have hcover : bv.words.size ≤ 8 * (buildRank c bv).numBlocks := by rw [hnb]; split <;> omega
  refine ⟨0, (buildRank c bv).numBlocks, ?_, hnb0, Nat.le_succ _, by simp [prefixPop],
    by rw [prefixPop_beyond c bv.words _ hcover]; exact hk⟩
  unfold window1; rw [hs, e2]

/-- without a zero-side hint table the window is the whole directory -/
theorem win0_none (c : Cfg) (bv : BV) (h : bv.Inv) (x : R9Index) (hx : x.pairs = (buildRank c bv).pairs)
    (hs : x.sel0 = none) : Win0 c bv x := by
  intro k hk
  have hnb := numBlocks_eq c bv h
  have e2 : x.numBlocks = (buildRank c bv).numBlocks := numBlocks_congr x _ hx
  have hsdm : 8 * (bv.words.size / 8) + bv.words.size % 8 = bv.words.size := Nat.div_add_mod _ 8
  have hcover : bv.words.size ≤ 8 * (buildRank c bv).numBlocks := by rw [hnb]; split <;> omega
  have hZ := zeros_le_prefixZ c bv h
  have hm := prefixZ_mono c bv.words h.lt hcover
  have h0 : prefixZ c bv.words (8 * 0) = 0 := by simp [prefixZ]
  have hnb0 : 0 < (buildRank c bv).numBlocks := by
    cases hz : (buildRank c bv).numBlocks with
    | zero => rw [hz] at hm; omega
    | succ n => omega
  refine ⟨0, (buildRank c bv).numBlocks, ?_, hnb0, Nat.le_succ _, by omega, by omega⟩
  unfold window0; rw [hs, e2]

/-- `build_select1` only sets the `sel1` field -/
theorem buildSelect1_fields (x y : R9Index) (e : buildSelect1 x = .ok y) :
    y.len = x.len ∧ y.pairs = x.pairs ∧ y.sel0 = x.sel0 := by
  unfold buildSelect1 at e
  cases hl : hintLoop x 0 x.numBlocks (#[], Gen.R9_SELECT_ONES_PER_HINT) with
  | error p => rw [hl] at e; cases e
  | ok st => rw [hl, bind_ok] at e; cases e; exact ⟨rfl, rfl, rfl⟩

end R9Index

namespace R9
open R9Index

/-- first stage of `build`: the directory, optionally with the one-side hints -/
theorem stage1_ok (c : Cfg) (bv : BV) (h : bv.Inv) (h1 : Bool) :
    ∃ rs, (if h1 then (new c bv).select1Hints else .ok (new c bv)) = .ok ⟨bv, rs⟩ ∧
      rs.pairs = (buildRank c bv).pairs ∧ rs.len = bv.len ∧ rs.sel0 = none ∧ Win1 c bv rs := by
  cases h1 with
  | false => exact ⟨buildRank c bv, rfl, rfl, rfl, rfl, win1_none c bv h _ rfl rfl⟩
  | true =>
    obtain ⟨x, e, hp, hw⟩ := buildSelect1_window c bv h
    obtain ⟨f1, f2, f3⟩ := buildSelect1_fields _ _ e
    refine ⟨x, ?_, hp, f1, f3, hw⟩
    simp only [if_true]
    unfold select1Hints new
    simp only []
    rw [e, bind_ok]

/-- second stage of `build`: optionally the zero-side hints, which leave the one side untouched -/
theorem stage2_ok (c : Cfg) (bv : BV) (h : bv.Inv) (rs1 : R9Index)
    (hp : rs1.pairs = (buildRank c bv).pairs) (hl : rs1.len = bv.len) (hs0 : rs1.sel0 = none)
    (hw1 : Win1 c bv rs1) (h0 : Bool) :
    ∃ rs, (if h0 then (⟨bv, rs1⟩ : R9).select0Hints c else .ok ⟨bv, rs1⟩) = .ok ⟨bv, rs⟩ ∧
      rs.pairs = (buildRank c bv).pairs ∧ rs.len = bv.len ∧ Win1 c bv rs ∧ Win0 c bv rs := by
  cases h0 with
  | false => exact ⟨rs1, rfl, hp, hl, hw1, win0_none c bv h rs1 hp hs0⟩
  | true =>
    obtain ⟨y, e, g1, g2, g3, hw0⟩ := buildSelect0_window c bv h rs1 hp
    refine ⟨y, ?_, by rw [g1, hp], by rw [g2, hl], ?_, hw0⟩
    · simp only [if_true]
      unfold select0Hints
      simp only []
      rw [e, bind_ok]
    · intro k hk
      rw [window1_congr y rs1 g1 g3 k]
      exact hw1 k hk

/-- `build` succeeds, keeps the bit vector, and produces an index whose directory is the one of
    `build_rank` and whose hint tables (present or not) always yield bracketing windows -/
theorem build_ok (c : Cfg) (bv : BV) (h : bv.Inv) (h1 h0 : Bool) :
    ∃ rs, build c bv h1 h0 = .ok ⟨bv, rs⟩ ∧
      rs.pairs = (buildRank c bv).pairs ∧ rs.len = bv.len ∧ Win1 c bv rs ∧ Win0 c bv rs := by
  obtain ⟨rs1, e1, hp, hl, hs0, hw1⟩ := stage1_ok c bv h h1
  obtain ⟨rs, e2, q⟩ := stage2_ok c bv h rs1 hp hl hs0 hw1 h0
  refine ⟨rs, ?_, q⟩
  unfold build
  rw [e1, bind_ok, e2]

/-- **Rank9Sel over a valid bit vector**: all queries of the structure built with any combination of hint
    tables answer according to the bits of `bv`. -/
theorem build_answers_bv (c : Cfg) (bv : BV) (h : bv.Inv) (h1 h0 : Bool) :
    ∃ x, build c bv h1 h0 = .ok x ∧ x.bv = bv ∧
      (∀ i, x.access i = .ok (if i < bv.len then some (bv.bitAt i) else none)) ∧
      (∀ i, x.rank1 c i = .ok (if i ≤ bv.len then some (cnt bv.bitAt i) else none)) ∧
      (∀ i, x.rank0 c i = .ok (if i ≤ bv.len then some (cnt (fun j => !bv.bitAt j) i) else none)) ∧
      (∀ k, x.select1 c k = .ok (sel bv.bitAt bv.len k)) ∧
      (∀ k, x.select0 c k = .ok (sel (fun j => !bv.bitAt j) bv.len k)) ∧
      x.numBits = bv.len ∧
      x.numOnes = .ok (cnt bv.bitAt bv.len) ∧
      x.numZeros c = .ok (bv.len - cnt bv.bitAt bv.len) := by
  obtain ⟨rs, e, hp, hl, hw1, hw0⟩ := build_ok c bv h h1 h0
  have hsz := h.size
  have htot : cnt bv.bitAt (64 * bv.words.size) = cnt bv.bitAt bv.len := by
    have hsplit := cnt_add bv.bitAt bv.len (64 * bv.words.size - bv.len)
    rw [show bv.len + (64 * bv.words.size - bv.len) = 64 * bv.words.size by omega] at hsplit
    rw [hsplit, C14.cnt_zero_of_false _ _ (fun i _ => h.pad (bv.len + i) (by omega))]; omega
  have hones : rs.numOnes = .ok (cnt bv.bitAt bv.len) := by
    rw [numOnes_congr rs _ hp, numOnes_ok c bv h, prefixPop_eq c bv h, htot]
  refine ⟨⟨bv, rs⟩, e, rfl, ?_, ?_, ?_, ?_, ?_, rfl, hones, ?_⟩
  · intro i; exact BV.getBit_ok bv h i
  · intro i
    show rs.rank1 c bv i = _
    rw [rank1_congr c rs _ hp, rank1_ok c bv h i]
  · intro i
    show rs.rank0 c bv i = _
    rw [rank0_congr c rs _ hp, rank0_ok c bv h i]
  · intro k; exact select1_window_ok c bv h k rs hp (hw1 k)
  · intro k; exact select0_window_ok c bv h k rs hp hl (hw0 k)
  · show (rs.numOnes.bind fun n => csub c bv.len n) = _
    rw [hones, bind_ok, csub_ok c (cnt_le _ _)]

end R9

/-- the bits of `from_bits(bs)` are the elements of `bs` (and `false` beyond) -/
theorem BV.fromBits_bitAt (bs : List Bool) (j : Nat) : (BV.fromBits bs).bitAt j = bs.getD j false := by
  obtain ⟨hinv, hl⟩ := BV.fromBits_spec bs
  have hlen : (BV.fromBits bs).len = bs.length := by rw [← BV.toList_length, hl]
  by_cases hj : j < (BV.fromBits bs).len
  · have e : bs[j]? = (BV.fromBits bs).toList[j]? := by rw [hl]
    rw [List.getD_eq_getElem?_getD, e]
    unfold BV.toList
    simp [hj]
  · rw [hinv.pad j (by omega), List.getD_eq_getElem?_getD, List.getElem?_eq_none (by omega)]
    rfl

theorem BV.fromBits_len (bs : List Bool) : (BV.fromBits bs).len = bs.length := by
  rw [← BV.toList_length, (BV.fromBits_spec bs).2]

/-- **Rank9Sel, public API** (`Rank9Sel::from_bits(bs)` with any combination of `select1_hints()` /
    `select0_hints()`): the structure is built without panic and `access`, `rank1`, `rank0`, `select1`,
    `select0`, `num_bits`, `num_ones`, `num_zeros` all answer according to the list `bs` — in every build
    configuration `c` (overflow checks / debug assertions on or off, either broadword variant). -/
theorem R9.build_answers (c : Cfg) (bs : List Bool) (h1 h0 : Bool) :
    let P : Nat → Bool := fun j => bs.getD j false
    ∃ x, R9.build c (BV.fromBits bs) h1 h0 = .ok x ∧
      (∀ i, x.access i = .ok bs[i]?) ∧
      (∀ i, x.rank1 c i = .ok (if i ≤ bs.length then some (cnt P i) else none)) ∧
      (∀ i, x.rank0 c i = .ok (if i ≤ bs.length then some (i - cnt P i) else none)) ∧
      (∀ k, x.select1 c k = .ok (sel P bs.length k)) ∧
      (∀ k, x.select0 c k = .ok (sel (fun j => !P j) bs.length k)) ∧
      x.numBits = bs.length ∧
      x.numOnes = .ok (cnt P bs.length) ∧
      x.numZeros c = .ok (bs.length - cnt P bs.length) := by
  intro P
  have hinv := (BV.fromBits_spec bs).1
  have hlen := BV.fromBits_len bs
  have hP : (BV.fromBits bs).bitAt = P := funext (fun j => BV.fromBits_bitAt bs j)
  obtain ⟨x, e, _, a1, a2, a3, a4, a5, a6, a7, a8⟩ := R9.build_answers_bv c (BV.fromBits bs) hinv h1 h0
  rw [hP, hlen] at a1 a2 a4 a7 a8
  rw [hlen] at a6
  refine ⟨x, e, ?_, a2, ?_, a4, ?_, a6, a7, a8⟩
  · intro i
    rw [a1 i]
    by_cases hi : i < bs.length
    · simp [hi, P]
    · simp [hi]
  · intro i
    rw [a3 i, hlen]
    by_cases hi : i ≤ bs.length
    · simp only [hi, if_true]
      have := cnt_compl (BV.fromBits bs).bitAt i
      rw [hP] at this ⊢
      congr 2; omega
    · simp [hi]
  · intro k
    have := a5 k
    rw [hlen] at this
    rw [this, hP]

end Sucds
