import Sucds.Proofs.DacsOptWidthsDP
import Sucds.Model.Dacs
/-! # Array-level tables of `compute_opt_widths` = the functions of `DP.lean` (task F3, deliverable 2)

`N` is any array (`nums_ints`), read through `Nf N j = wordAt N j`. No size hypothesis is needed here. -/
namespace Sucds.DacsOptW
open Sucds

/-- `nums_ints` as a function -/
def Nf (N : Array Nat) : Nat → Nat := fun j => wordAt N j

/-! ### the inner loop -/

theorem scanB_eq (N : Array Nat) (prev : Nat → Nat) (j numBits : Nat) : ∀ m,
    DacO.scanB N prev j numBits m (2^64 - 1, 0) = DP.scan (fun b => (b+1) * wordAt N j + prev (j+b)) m := by
  intro m
  induction m with
  | zero => rfl
  | succ m ih => simp only [DacO.scanB, DP.scan, ih]

/-! ### rows -/

/-- row `r` of `dp_s` (indexed by `j = 0..=W`) -/
def rowS (W : Nat) (N : Array Nat) (r : Nat) : Array Nat := (Array.range (W + 1)).map fun j => DP.S W (Nf N) r j
/-- row `r` of `dp_b` -/
def rowB (W : Nat) (N : Array Nat) (r : Nat) : Array Nat := (Array.range (W + 1)).map fun j => DP.B W (Nf N) r j

theorem wordAt_map_range (n : Nat) (f : Nat → Nat) (i : Nat) :
    wordAt ((Array.range n).map f) i = if i < n then f i else 0 := by
  simp only [wordAt, Array.getElem?_map, Array.getElem?_range]
  split <;> rfl

/-- reading a row beyond its end gives 0, and so does the function -/
theorem wordAt_rowS (W : Nat) (N : Array Nat) (r i : Nat) : wordAt (rowS W N r) i = DP.S W (Nf N) r i := by
  rw [rowS, wordAt_map_range]
  split
  · rfl
  · rw [DPB.S_ge W (Nf N) r i (by omega)]

theorem wordAt_rowB (W : Nat) (N : Array Nat) (r i : Nat) : wordAt (rowB W N r) i = DP.B W (Nf N) r i := by
  rw [rowB, wordAt_map_range]
  split
  · rfl
  · rw [DPB.B_ge W (Nf N) r i (by omega)]

theorem row0S (W : Nat) (N : Array Nat) :
    ((Array.range (W + 1)).map fun j => if j < W then (W - j) * wordAt N j else 0) = rowS W N 0 := by
  unfold rowS
  congr 1
  funext j
  simp only [DP.S, Nf]
  split
  · rfl
  · have : W - j = 0 := by omega
    rw [this, Nat.zero_mul]

theorem row0B (W : Nat) (N : Array Nat) :
    ((Array.range (W + 1)).map fun j => if j < W then W - j else 0) = rowB W N 0 := by
  unfold rowB
  congr 1
  funext j
  simp only [DP.B]
  split
  · rfl
  · omega

/-- one iteration of the `for r in 1..max_levels` loop, given the previous row -/
theorem rowStep (W : Nat) (N : Array Nat) (r : Nat) :
    ((Array.range (W + 1)).map fun j =>
        if j < W then DacO.scanB N (fun i => wordAt (rowS W N r) i) j W (W - j) (2^64 - 1, 0) else (0, 0))
      = (Array.range (W + 1)).map fun j => (DP.S W (Nf N) (r+1) j, DP.B W (Nf N) (r+1) j) := by
  congr 1
  funext j
  have hprev : (fun i => wordAt (rowS W N r) i) = DP.S W (Nf N) r := by
    funext i; exact wordAt_rowS W N r i
  rw [hprev, scanB_eq]
  simp only [DP.S, DP.B, Nf]
  split <;> rfl

/-! ### the tables -/

def tabS (W : Nat) (N : Array Nat) : Nat → Array (Array Nat)
  | 0 => #[rowS W N 0]
  | k+1 => (tabS W N k).push (rowS W N (k+1))
def tabB (W : Nat) (N : Array Nat) : Nat → Array (Array Nat)
  | 0 => #[rowB W N 0]
  | k+1 => (tabB W N k).push (rowB W N (k+1))

theorem tabS_size (W : Nat) (N : Array Nat) (k : Nat) : (tabS W N k).size = k + 1 := by
  induction k with
  | zero => rfl
  | succ k ih => simp only [tabS, Array.size_push, ih]
theorem tabB_size (W : Nat) (N : Array Nat) (k : Nat) : (tabB W N k).size = k + 1 := by
  induction k with
  | zero => rfl
  | succ k ih => simp only [tabB, Array.size_push, ih]

theorem tabS_get (W : Nat) (N : Array Nat) (k r : Nat) (hr : r ≤ k) : (tabS W N k)[r]? = some (rowS W N r) := by
  induction k with
  | zero => have : r = 0 := by omega
            subst this; rfl
  | succ k ih =>
    simp only [tabS, Array.getElem?_push, tabS_size]
    by_cases h : r = k + 1
    · subst h; simp
    · rw [if_neg h]; exact ih (by omega)
theorem tabB_get (W : Nat) (N : Array Nat) (k r : Nat) (hr : r ≤ k) : (tabB W N k)[r]? = some (rowB W N r) := by
  induction k with
  | zero => have : r = 0 := by omega
            subst this; rfl
  | succ k ih =>
    simp only [tabB, Array.getElem?_push, tabB_size]
    by_cases h : r = k + 1
    · subst h; simp
    · rw [if_neg h]; exact ih (by omega)

theorem tabS_back (W : Nat) (N : Array Nat) (k : Nat) : (tabS W N k).back! = rowS W N k := by
  cases k with
  | zero => rfl
  | succ k => simp only [tabS, Array.back!_push]

/-- the body of the `r` loop in `DacO.dpTables` -/
def tabStep (N : Array Nat) (W : Nat) (t : Array (Array Nat) × Array (Array Nat)) : Array (Array Nat) × Array (Array Nat) :=
  let prev := t.1.back!
  let row := (Array.range (W + 1)).map fun j =>
    if j < W then DacO.scanB N (fun i => wordAt prev i) j W (W - j) (2^64 - 1, 0) else (0, 0)
  (t.1.push (row.map (·.1)), t.2.push (row.map (·.2)))

theorem tabStep_tab (N : Array Nat) (W k : Nat) :
    tabStep N W (tabS W N k, tabB W N k) = (tabS W N (k+1), tabB W N (k+1)) := by
  unfold tabStep
  simp only [tabS_back]
  rw [rowStep]
  simp only [tabS, tabB, rowS, rowB, Array.map_map]
  rfl

theorem foldl_tabStep (N : Array Nat) (W : Nat) : ∀ k,
    (List.range k).foldl (fun t _ => tabStep N W t) (tabS W N 0, tabB W N 0) = (tabS W N k, tabB W N k) := by
  intro k
  induction k with
  | zero => rfl
  | succ k ih =>
    rw [List.range_succ, List.foldl_append, ih, List.foldl_cons, List.foldl_nil, tabStep_tab]

/-- **Deliverable 2a**: the tables computed by the model are the rows of `DP.S` / `DP.B` -/
theorem dpTables_eq (N : Array Nat) (W ml : Nat) :
    DacO.dpTables N W ml = (tabS W N (ml - 1), tabB W N (ml - 1)) := by
  have h := foldl_tabStep N W (ml - 1)
  simp only [tabS, tabB, ← row0S, ← row0B] at h
  exact h

/-- entry `[r][j]` of the tables, for `r < max_levels` (every `j`; both sides are 0 beyond `W`) -/
theorem dpTables_S (N : Array Nat) (W ml r j : Nat) (hr : r < ml) :
    wordAt ((DacO.dpTables N W ml).1[r]?.getD #[]) j = DP.S W (Nf N) r j := by
  rw [dpTables_eq, tabS_get W N (ml - 1) r (by omega)]
  exact wordAt_rowS W N r j
theorem dpTables_B (N : Array Nat) (W ml r j : Nat) (hr : r < ml) :
    wordAt ((DacO.dpTables N W ml).2[r]?.getD #[]) j = DP.B W (Nf N) r j := by
  rw [dpTables_eq, tabB_get W N (ml - 1) r (by omega)]
  exact wordAt_rowB W N r j

/-! ### `min_level_idx` -/

/-- first index attaining the minimum of `s` below `k` (function level) -/
def amin (s : Nat → Nat) : Nat → Nat
  | 0 => 0
  | k+1 => if k ≠ 0 ∧ s k < s (amin s k) then k else amin s k

theorem amin_spec (s : Nat → Nat) : ∀ k, 1 ≤ k →
    amin s k < k ∧ (∀ r', r' < amin s k → s (amin s k) < s r') ∧ (∀ r', r' < k → s (amin s k) ≤ s r') := by
  intro k
  induction k with
  | zero => intro h; omega
  | succ k ih =>
    intro _
    by_cases hk : k = 0
    · subst hk
      simp only [amin, ne_eq, not_true_eq_false, false_and, if_false]
      refine ⟨by omega, fun r' h => by omega, fun r' h => ?_⟩
      have : r' = 0 := by omega
      subst this; exact Nat.le_refl _
    · obtain ⟨a1, a2, a3⟩ := ih (by omega)
      simp only [amin]
      by_cases hlt : s k < s (amin s k)
      · rw [if_pos ⟨hk, hlt⟩]
        refine ⟨by omega, fun r' h => ?_, fun r' h => ?_⟩
        · have := a3 r' h; omega
        · by_cases e : r' = k
          · subst e; exact Nat.le_refl _
          · have := a3 r' (by omega); omega
      · rw [if_neg (fun h => hlt h.2)]
        refine ⟨by omega, a2, fun r' h => ?_⟩
        by_cases e : r' = k
        · subst e; omega
        · exact a3 r' (by omega)

theorem minLevel_eq (Sarr : Array (Array Nat)) (s : Nat → Nat) (ml : Nat)
    (hs : ∀ r, r < ml → wordAt (Sarr[r]?.getD #[]) 0 = s r) : ∀ k, k ≤ ml →
    DacO.minLevel Sarr k = amin s k := by
  intro k
  induction k with
  | zero => intro _; rfl
  | succ k ih =>
    intro hk
    have e := ih (by omega)
    unfold DacO.minLevel at e ⊢
    rw [List.range_succ, List.foldl_append, e, List.foldl_cons, List.foldl_nil]
    simp only [amin]
    by_cases hk0 : k = 0
    · subst hk0; simp
    · have hlt : amin s k < k := (amin_spec s k (by omega)).1
      rw [hs k (by omega), hs (amin s k) (by omega)]

/-- **Deliverable 2b**: `min_level_idx` is the first index attaining the minimum of `dp_s[0][·]` -/
theorem minLevel_spec (N : Array Nat) (W ml : Nat) (hml : 1 ≤ ml) :
    let m := DacO.minLevel (DacO.dpTables N W ml).1 ml
    m < ml ∧ (∀ r', r' < m → DP.S W (Nf N) m 0 < DP.S W (Nf N) r' 0) ∧
      (∀ r', r' < ml → DP.S W (Nf N) m 0 ≤ DP.S W (Nf N) r' 0) := by
  have e := minLevel_eq (DacO.dpTables N W ml).1 (fun r => DP.S W (Nf N) r 0) ml
    (fun r hr => dpTables_S N W ml r 0 hr) ml (Nat.le_refl _)
  simp only [e]
  exact amin_spec (fun r => DP.S W (Nf N) r 0) ml hml

/-! ### the reconstruction loop -/

theorem recon_len (W : Nat) (N : Nat → Nat) : ∀ R j, (DP.recon W N R j).length ≤ R + 1 := by
  intro R
  induction R with
  | zero => intro j; simp only [DP.recon]; split <;> simp
  | succ R ih =>
    intro j
    simp only [DP.recon]
    split
    · simp only [List.length_cons]; have := ih (j + DP.B W N (R+1) j); omega
    · simp

/-- **Deliverable 2c**: the `while j < num_bits` loop writes `DP.recon` into `widths[r..]`
    (`Barr` holds rows `0..numLevels-1` of `dp_b`; enough fuel; room for `R+1` more widths) -/
theorem recon_eq (Barr : Array (Array Nat)) (W numLevels : Nat) (N : Nat → Nat)
    (hB : ∀ r j, r < numLevels → wordAt (Barr[r]?.getD #[]) j = DP.B W N r j) :
    ∀ (R j r : Nat) (pre suf : List Nat) (ws : Array Nat) (fuel : Nat),
      r + R + 1 = numLevels → ws.toList = pre ++ suf → pre.length = r → R + 1 ≤ suf.length → R + 1 ≤ fuel →
      ∃ ws', DacO.recon Barr W numLevels j r ws fuel
          = .ok (ws', j + (DP.recon W N R j).sum, r + (DP.recon W N R j).length) ∧
        ws'.toList = pre ++ DP.recon W N R j ++ suf.drop (DP.recon W N R j).length := by
  intro R
  induction R with
  | zero =>
    intro j r pre suf ws fuel hr hws hpre hsuf hfuel
    obtain ⟨fuel, rfl⟩ : ∃ f, fuel = f + 1 := ⟨fuel - 1, by omega⟩
    have hsz : ws.size = pre.length + suf.length := by rw [← Array.length_toList, hws, List.length_append]
    by_cases hj : j < W
    · have hrs : r < ws.size := by omega
      have hidx : numLevels - r - 1 = 0 := by omega
      have hw : wordAt (Barr[numLevels - r - 1]?.getD #[]) j = W - j := by
        rw [hidx, hB 0 j (by omega)]; rfl
      have hnot : ¬ (j + (W - j) < W) := by omega
      refine ⟨ws.set! r (W - j), ?_, ?_⟩
      · simp only [DacO.recon, hj, hrs, if_true, hw, DP.recon, List.length_cons, List.length_nil]
        cases fuel with
        | zero => simp only [DacO.recon, List.sum_cons, List.sum_nil, Nat.add_zero]
        | succ f => simp only [DacO.recon, hnot, if_false, List.sum_cons, List.sum_nil, Nat.add_zero]
      · simp only [DP.recon, hj, if_true, Array.set!_eq_setIfInBounds, Array.toList_setIfInBounds, hws,
          List.length_cons, List.length_nil]
        rw [List.set_append_right _ _ (by omega)]
        cases suf with
        | nil => simp at hsuf
        | cons s suf' =>
          have : r - pre.length = 0 := by omega
          rw [this]; simp
    · refine ⟨ws, ?_, ?_⟩
      · simp only [DacO.recon, DP.recon, hj, if_false, List.length_nil, List.sum_nil, Nat.add_zero]
      · simp only [DP.recon, hj, if_false, List.length_nil, List.drop_zero, List.append_nil, hws]
  | succ R ih =>
    intro j r pre suf ws fuel hr hws hpre hsuf hfuel
    obtain ⟨fuel, rfl⟩ : ∃ f, fuel = f + 1 := ⟨fuel - 1, by omega⟩
    have hsz : ws.size = pre.length + suf.length := by rw [← Array.length_toList, hws, List.length_append]
    by_cases hj : j < W
    · have hrs : r < ws.size := by omega
      have hidx : numLevels - r - 1 = R + 1 := by omega
      have hw : wordAt (Barr[numLevels - r - 1]?.getD #[]) j = DP.B W N (R+1) j := by
        rw [hidx, hB (R+1) j (by omega)]
      cases suf with
      | nil => simp at hsuf
      | cons s suf' =>
        have hset : (ws.set! r (DP.B W N (R+1) j)).toList = (pre ++ [DP.B W N (R+1) j]) ++ suf' := by
          rw [Array.set!_eq_setIfInBounds, Array.toList_setIfInBounds, hws, List.set_append_right _ _ (by omega)]
          have : r - pre.length = 0 := by omega
          rw [this]; simp
        obtain ⟨ws', e1, e2⟩ := ih (j + DP.B W N (R+1) j) (r+1) (pre ++ [DP.B W N (R+1) j]) suf'
          (ws.set! r (DP.B W N (R+1) j)) fuel (by omega) hset (by simp; omega)
          (by simp only [List.length_cons] at hsuf; omega) (by omega)
        refine ⟨ws', ?_, ?_⟩
        · simp only [DacO.recon, hj, hrs, if_true, hw, DP.recon, List.length_cons]
          rw [e1]
          congr 3
          · simp only [List.sum_cons]; omega
          · omega
        · rw [e2]
          simp only [DP.recon, hj, if_true, List.length_cons, List.drop_succ_cons, List.append_assoc,
            List.singleton_append]
    · refine ⟨ws, ?_, ?_⟩
      · simp only [DacO.recon, DP.recon, hj, if_false, List.length_nil, List.sum_nil, Nat.add_zero]
      · simp only [DP.recon, hj, if_false, List.length_nil, List.drop_zero, List.append_nil, hws]

end Sucds.DacsOptW
