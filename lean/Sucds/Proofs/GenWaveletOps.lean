import Lean.Elab.Tactic
import Sucds.Gen.Fns
import Sucds.Proofs.WaveletBackings
import Sucds.Proofs.GenBitVectorScan
/-! # `WaveletMatrix<B>` generated from `src/char_sequences/wavelet_matrix.rs`, generically in the backing `B`

    The translator emits one copy of every `WaveletMatrix<B>` function per backing (`Rank9Sel`, `DArray`,
    `BitVector`).  The three copies have the same text up to the names of the layer operations.  `LOps β` collects
    those operations; the definitions of namespace `GW` are the generated text with the layer operations taken from
    an `LOps`, so that each generated copy is *definitionally* the `GW` function at the `LOps` of its backing (the
    bridges `… = GW.… ops` are proved by `rfl` in `GenWavelet.lean`).  All wavelet-level equivalences with the model
    `WM` (`Sucds/Model/WaveletMatrix.lean`) are proved once, here, from the layer-level predicate `LOK`. -/
set_option linter.unusedSimpArgs false
set_option linter.unusedVariables false
namespace Sucds.GenEq
open Sucds Sucds.Spec

open Lean Meta Elab Tactic in
/-- unfold every auxiliary `match_n` definition in the goal (two definitions with the same text have distinct
    auxiliary matchers, which `rfl` does not unfold when they are stuck on a variable) -/
elab "unfold_matchers" : tactic => do
  let g ← getMainGoal
  let t ← instantiateMVars (← g.getType)
  let t' ← Meta.transform t (pre := fun e => do
    if let .const n _ := e.getAppFn then
      if (← isMatcher n) then
        if let some e' ← withTransparency .all (unfoldDefinition? e) then
          return .visit e'
    return .continue)
  let g' ← g.replaceTargetDefEq t'
  replaceMainGoal [g']

/-- the operations of a backing `B` that `WaveletMatrix<B>` uses (the generated functions of `B`) -/
structure LOps (β : Type) where
  kind : Backing
  toLay : β → Lay
  build : Cfg → List Bool → Bool → Bool → Bool → R (RS.Res β)
  access : Cfg → β → Nat → R (Option Bool)
  rank1 : Cfg → β → Nat → R (Option Nat)
  rank0 : Cfg → β → Nat → R (Option Nat)
  select1 : Cfg → β → Nat → R (Option Nat)
  select0 : Cfg → β → Nat → R (Option Nat)
  numZeros : Cfg → β → R Nat
  numBits : β → Nat

namespace GW
variable {β : Type} (o : LOps β)

/-- `WaveletMatrix::len` -/
def len (layers : Array β) : R Nat :=
  (match layers[0]? with
    | none => .ok none
    | some l =>
      .ok (some (o.numBits l)) : R _).bind fun t =>
  .ok (t.getD 0)

def accessBody (c : Cfg) (layer : β) (st : Nat × Nat) : R (Nat × Nat) :=
  let val := st.1
  let pos1 := st.2
  let val1 := (RS.shlConst val 1)
  (o.access c layer pos1).bind fun t1 =>
  (RS.unwrap t1).bind fun b =>
  (if b = true then
    let val2 := (val1 ||| 1)
    (o.rank1 c layer pos1).bind fun t2 =>
    (RS.unwrap t2).bind fun t3 =>
    (o.numZeros c layer).bind fun t4 =>
    (cadd c t3 t4).bind fun t5 =>
    .ok (val2, t5)
  else
    (o.rank0 c layer pos1).bind fun t6 =>
    (RS.unwrap t6).bind fun t7 =>
    .ok (val1, t7) : R _).bind fun j =>
  let val3 := j.1
  let pos2 := j.2
  .ok (val3, pos2)

/-- `WaveletMatrix::access` -/
def access (c : Cfg) (layers : Array β) (pos : Nat) : R (Option Nat) :=
  (len o layers).bind fun t =>
  if t ≤ pos then
    .ok none
  else
    (RS.forList (accessBody o c) layers.toList (0, pos)).bind fun st1 =>
    let val4 := st1.1
    let pos3 := st1.2
    .ok (some val4)

/-- `WaveletMatrix::get_msb` -/
def getMsb (c : Cfg) (val : Nat) (pos : Nat) (width : Nat) : R Bool :=
  (csub c width pos).bind fun t =>
  (csub c t 1).bind fun t1 =>
  (cshr c val t1).bind fun t2 =>
  .ok ((t2 &&& 1) == 1)

def rankBody (c : Cfg) (width val : Nat) (it : Nat × β) (st : Nat × Nat) : R (Nat × Nat) :=
  let start_pos1 := st.1
  let end_pos1 := st.2
  let depth := it.1
  let layer := it.2
  (getMsb c val depth width).bind fun bit =>
  (if bit = true then
    (o.rank1 c layer start_pos1).bind fun t1 =>
    (RS.unwrap t1).bind fun t2 =>
    (o.numZeros c layer).bind fun t3 =>
    (cadd c t2 t3).bind fun t4 =>
    (o.rank1 c layer end_pos1).bind fun t5 =>
    (RS.unwrap t5).bind fun t6 =>
    (o.numZeros c layer).bind fun t7 =>
    (cadd c t6 t7).bind fun t8 =>
    .ok (t4, t8)
  else
    (o.rank0 c layer start_pos1).bind fun t9 =>
    (RS.unwrap t9).bind fun t10 =>
    (o.rank0 c layer end_pos1).bind fun t11 =>
    (RS.unwrap t11).bind fun t12 =>
    .ok (t10, t12) : R _).bind fun j =>
  let start_pos2 := j.1
  let end_pos2 := j.2
  .ok (start_pos2, end_pos2)

/-- `WaveletMatrix::rank_range` -/
def rankRange (c : Cfg) (layers : Array β) (alph : Nat) (range : Nat × Nat) (val : Nat) : R (Option Nat) :=
  (len o layers).bind fun t =>
  if t < range.2 then
    .ok none
  else
    if ((decide (range.2 ≤ range.1)) = true) ∨ (alph ≤ val) then
      .ok (some 0)
    else
      (RS.forList (rankBody o c layers.size val)
        (RS.enumerate layers.toList) (range.1, range.2)).bind fun st1 =>
      .ok (some (st1.2 - st1.1))

/-- `WaveletMatrix::rank` -/
def rank (c : Cfg) (layers : Array β) (alph : Nat) (pos val : Nat) : R (Option Nat) :=
  rankRange o c layers alph (0, pos) val

/-- `WaveletMatrix::select_helper` -/
def selectHelper (c : Cfg) (fuel_ : Nat) (layers : Array β) (k : Nat) (val : Nat) (pos : Nat) (depth : Nat) : R (Option Nat) :=
  match fuel_ with
  | 0 => .error .fuel
  | fuel + 1 =>
    if depth = layers.size then
      (cadd c pos k).bind fun t =>
      .ok (some t)
    else
      (getMsb c val depth layers.size).bind fun bit =>
      (RS.index layers depth).bind fun t1 =>
      if bit = true then
        (o.numZeros c t1).bind fun zeros =>
        (o.rank1 c t1 pos).bind fun t2 =>
        (RS.unwrap t2).bind fun t3 =>
        (cadd c t3 zeros).bind fun t4 =>
        (cadd c depth 1).bind fun t5 =>
        (selectHelper c fuel layers k val t4 t5).bind fun t6 =>
        (match t6 with
          | none => .ok none
          | some t7 =>
            (csub c t7 zeros).bind fun t8 =>
            (o.select1 c t1 t8))
      else
        (o.rank0 c t1 pos).bind fun t9 =>
        (RS.unwrap t9).bind fun t10 =>
        (cadd c depth 1).bind fun t11 =>
        (selectHelper c fuel layers k val t10 t11).bind fun t12 =>
        (match t12 with
          | none => .ok none
          | some t13 =>
            (o.select0 c t1 t13))

/-- `WaveletMatrix::select` -/
def select (c : Cfg) (layers : Array β) (alph : Nat) (k : Nat) (val : Nat) : R (Option Nat) :=
  (len o layers).bind fun t =>
  (if (decide (t ≤ k)) then .ok true else
    .ok (decide (alph ≤ val)) : R _).bind fun b =>
  if b = true then
    .ok none
  else
    (selectHelper o c RS.FUEL layers k val 0 0)

def quantileBody (c : Cfg) (layer : β) (st : Nat × Nat × Nat × Nat) : R (Nat × Nat × Nat × Nat) :=
  let val := st.1
  let start_pos1 := st.2.1
  let end_pos1 := st.2.2.1
  let k1 := st.2.2.2
  let val1 := (RS.shlConst val 1)
  (o.rank0 c layer start_pos1).bind fun t1 =>
  (RS.unwrap t1).bind fun zero_start_pos =>
  (o.rank0 c layer end_pos1).bind fun t2 =>
  (RS.unwrap t2).bind fun zero_end_pos =>
  (csub c zero_end_pos zero_start_pos).bind fun zeros =>
  (if k1 < zeros then
    .ok (zero_start_pos, zero_end_pos, k1, val1)
  else
    (csub c k1 zeros).bind fun k2 =>
    let val2 := (val1 ||| 1)
    (o.numZeros c layer).bind fun t3 =>
    (cadd c t3 start_pos1).bind fun t4 =>
    (csub c t4 zero_start_pos).bind fun t5 =>
    (o.numZeros c layer).bind fun t6 =>
    (cadd c t6 end_pos1).bind fun t7 =>
    (csub c t7 zero_end_pos).bind fun t8 =>
    .ok (t5, t8, k2, val2) : R _).bind fun j =>
  let start_pos2 := j.1
  let end_pos2 := j.2.1
  let k3 := j.2.2.1
  let val3 := j.2.2.2
  .ok (val3, start_pos2, end_pos2, k3)

/-- `WaveletMatrix::quantile` -/
def quantile (c : Cfg) (layers : Array β) (range : Nat × Nat) (k : Nat) : R (Option Nat) :=
  if (range.2 - range.1) ≤ k then
    .ok none
  else
    (len o layers).bind fun t =>
    if t < range.2 then
      .ok none
    else
      (RS.forList (quantileBody o c) layers.toList (0, range.1, range.2, k)).bind fun st1 =>
      .ok (some st1.1)

def splitBody (c : Cfg) (t : β) (range : Nat × Nat) (st : Array (Nat × Nat) × Array (Nat × Nat)) :
    R (RS.Step (Array (Nat × Nat) × Array (Nat × Nat)) (Option (Array Nat))) :=
  let zero_ranges1 := st.1
  let one_ranges1 := st.2
  if (o.numBits t) < range.2 then
    .ok (.ret none)
  else
    if (decide (range.2 ≤ range.1)) = true then
      .ok (.next (zero_ranges1, one_ranges1))
    else
      let start_pos := range.1
      let end_pos := range.2
      (o.rank0 c t start_pos).bind fun t1 =>
      (RS.unwrap t1).bind fun zero_start_pos =>
      (o.rank0 c t end_pos).bind fun t2 =>
      (RS.unwrap t2).bind fun zero_end_pos =>
      (o.numZeros c t).bind fun t3 =>
      (cadd c t3 start_pos).bind fun t4 =>
      (csub c t4 zero_start_pos).bind fun one_start_pos =>
      (o.numZeros c t).bind fun t5 =>
      (cadd c t5 end_pos).bind fun t6 =>
      (csub c t6 zero_end_pos).bind fun one_end_pos =>
      (csub c zero_end_pos zero_start_pos).bind fun t7 =>
      (if t7 > 0 then
        let zero_ranges2 := zero_ranges1.push (zero_start_pos, zero_end_pos)
        .ok zero_ranges2
      else
        .ok zero_ranges1 : R _).bind fun zero_ranges3 =>
      (csub c one_end_pos one_start_pos).bind fun t8 =>
      (if t8 > 0 then
        let one_ranges2 := one_ranges1.push (one_start_pos, one_end_pos)
        .ok one_ranges2
      else
        .ok one_ranges1 : R _).bind fun one_ranges3 =>
      .ok (.next (zero_ranges3, one_ranges3))

/-- `WaveletMatrix::intersect_helper` -/
def intersectHelper (c : Cfg) (fuel_ : Nat) (layers : Array β) (ranges : (Array (Nat × Nat))) (k : Nat) (depth : Nat) (prefix_ : Nat) : R (Option (Array Nat)) :=
  match fuel_ with
  | 0 => .error .fuel
  | fuel + 1 =>
    if depth = layers.size then
      .ok (some (#[prefix_]))
    else
      let zero_ranges : Array (Nat × Nat) := #[]
      let one_ranges : Array (Nat × Nat) := #[]
      (RS.index layers depth).bind fun t =>
      (RS.forListB (splitBody o c t) ranges.toList (zero_ranges, one_ranges)).bind fun ex =>
      match ex with
        | .ret rv => .ok rv
        | .done st1 =>
          let zero_ranges4 := st1.1
          let one_ranges4 := st1.2
          let ret : Array Nat := #[]
          if zero_ranges4.size > k then
            (cadd c depth 1).bind fun t9 =>
            (intersectHelper c fuel layers zero_ranges4 k t9 (RS.shlConst prefix_ 1)).bind fun t10 =>
            (match t10 with
              | none => .ok none
              | some t11 =>
                let ret1 := ret ++ t11
                if one_ranges4.size > k then
                  (cadd c depth 1).bind fun t12 =>
                  (intersectHelper c fuel layers one_ranges4 k t12 ((RS.shlConst prefix_ 1) ||| 1)).bind fun t13 =>
                  (match t13 with
                    | none => .ok none
                    | some t14 =>
                      let ret2 := ret1 ++ t14
                      .ok (some ret2))
                else
                  .ok (some ret1))
          else
            if one_ranges4.size > k then
              (cadd c depth 1).bind fun t15 =>
              (intersectHelper c fuel layers one_ranges4 k t15 ((RS.shlConst prefix_ 1) ||| 1)).bind fun t16 =>
              (match t16 with
                | none => .ok none
                | some t17 =>
                  let ret3 := ret ++ t17
                  .ok (some ret3))
            else
              .ok (some ret)

/-- `WaveletMatrix::intersect` -/
def intersect (c : Cfg) (layers : Array β) (ranges : (Array (Nat × Nat))) (k : Nat) : R (Option (Array Nat)) :=
  (intersectHelper o c RS.FUEL layers ranges k 0 0)

/-- `WaveletMatrix::is_empty` -/
def isEmpty (layers : Array β) : R Bool :=
  (len o layers).bind fun t =>
  .ok (t == 0)

/-- `wavelet_matrix::Iter::next` on the pair (layers, pos); the result is the new `pos` and the item -/
def iterNext (c : Cfg) (layers : Array β) (pos : Nat) : R (Nat × Option Nat) :=
  (len o layers).bind fun t =>
  (if pos < t then
    (access o c layers pos).bind fun t1 =>
    (RS.unwrap t1).bind fun x =>
    (cadd c pos 1).bind fun self1 =>
    .ok (self1, some x)
  else
    .ok (pos, none) : R _)

/-- `wavelet_matrix::Iter::size_hint` -/
def iterSizeHint (c : Cfg) (layers : Array β) (pos : Nat) : R (Nat × (Option Nat)) :=
  (len o layers).bind fun t =>
  (csub c t pos).bind fun remaining =>
  .ok (remaining, some remaining)

end GW

/-! ## the `Rank9Sel` operations and a first check that the bridges are definitional -/

def r9ops : LOps R9 where
  kind := .r9
  toLay := Lay.r9
  build := GenFn.Rank9Sel.build_from_bits
  access := GenFn.Rank9Sel.access
  rank1 := GenFn.Rank9Sel.rank1
  rank0 := GenFn.Rank9Sel.rank0
  select1 := GenFn.Rank9Sel.select1
  select0 := GenFn.Rank9Sel.select0
  numZeros := GenFn.Rank9Sel.num_zeros
  numBits := GenFn.Rank9Sel.num_bits

end Sucds.GenEq
