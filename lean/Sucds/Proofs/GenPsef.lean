import Sucds.Proofs.GenEliasFano
import Sucds.Proofs.SpaceEFTop
import Sucds.Props.C12
import Sucds.Props.C17
/-! # `PrefixSummedEliasFano` as generated from `src/int_vectors/prefix_summed_elias_fano.rs` agrees with the model `PS`

`Sucds.GenFn.PrefixSummedEliasFano.{from_slice, build_from_slice, access, len, sum, is_empty, num_vals, iter}`,
`Sucds.GenFn.psef_Iter.{new, next, size_hint}` (generated) versus `PS.fromSlice`, `PS.access`, `PS.len`, `PS.sum`
(`Sucds/Model/Dacs.lean`) and the index-iterator model `IndexIter`, for every build configuration.

* `ps_from_slice_eq`: the generated `from_slice` is the model's (`Err ↦ none`, which includes the empty slice) when
  the sum is below `usize::MAX` (`sum + 1 < 2^64`, the hypothesis of C12) and `3 * len + 2 < 2^63` (the high-bit
  vector of the Elias-Fano sequence, fewer than `3 * len + 2` bits, must stay below `2^63` — the bound of
  `DArray::from_bits`; a slice of `usize` has at most `2^60` elements).
* `ps_access_eq` (under `EFOk`), `ps_len_eq`, `ps_sum_eq`, `ps_is_empty_eq`, `ps_num_vals_eq`, `ps_iter_eq`.
* the iterator: `ps_iter_next_eq`, `ps_iter_size_hint_eq`, `ps_iter_runN`, `ps_iter_c17` (`= C17.expected`).
* `ps_from_slice_answers`: the right-hand sides of `Props/C12.lean` for the generated functions. -/
set_option linter.unusedSimpArgs false
set_option linter.unusedVariables false
namespace Sucds.GenEq
open Sucds Sucds.Spec Sucds.EFB Sucds.IndexIter

/-! ## Accessors -/

theorem ps_len_eq (p : PS) : GenFn.PrefixSummedEliasFano.len p = p.len := rfl
theorem ps_num_vals_eq (p : PS) : GenFn.PrefixSummedEliasFano.num_vals p = p.len := rfl
theorem ps_is_empty_eq (p : PS) : GenFn.PrefixSummedEliasFano.is_empty p = (p.len == 0) := rfl
/-- **`sum`**: `universe - 1`, a checked subtraction on both sides -/
theorem ps_sum_eq (c : Cfg) (p : PS) : GenFn.PrefixSummedEliasFano.sum c p = p.sum c := rfl
theorem ps_iter_new_eq (p : PS) : GenFn.psef_Iter.new p = ⟨p, 0⟩ := rfl
theorem ps_iter_eq (p : PS) : GenFn.PrefixSummedEliasFano.iter p = ⟨p, 0⟩ := rfl

/-- **`access`** = `EliasFano::delta` -/
theorem ps_access_eq (c : Cfg) (p : PS) (ok : EFOk c p.ef) (pos : Nat) :
    GenFn.PrefixSummedEliasFano.access c p pos = p.access c pos := by
  unfold GenFn.PrefixSummedEliasFano.access PS.access
  exact ef_delta_eq c p.ef ok pos

/-! ## `from_slice` -/

/-- first loop, `universe += x` -/
def psSumBody (c : Cfg) (x : Nat) (u : Nat) : R (RS.Step Nat (RS.Res PS)) :=
  (cadd c u x).bind fun u1 => .ok (.next u1)

theorem ps_sum_loop (c : Cfg) (body : Nat → Nat → R (RS.Step Nat (RS.Res PS)))
    (hbody : ∀ x u, body x u = psSumBody c x u) :
    ∀ (l : List Nat) (acc : Nat), acc + l.sum < 2^64 → RS.forListB body l acc = .ok (.done (acc + l.sum)) := by
  intro l
  induction l with
  | nil => intro acc _; rfl
  | cons x xs ih =>
    intro acc h
    simp only [List.sum_cons] at h
    show (body x acc).bind _ = _
    rw [hbody]
    unfold psSumBody
    rw [cadd_ok c (by omega), bok, bok]
    show RS.forListB body xs (acc + x) = _
    rw [ih (acc + x) (by omega), List.sum_cons, Nat.add_assoc]

/-- second loop, `cur += x; b.push(cur)?` -/
def psPushBody (c : Cfg) (x : Nat) (st : Nat × EFB) : R (RS.Step (Nat × EFB) (RS.Res PS)) :=
  (cadd c st.1 x).bind fun cur1 =>
  (GenFn.EliasFanoBuilder.push c st.2 cur1).bind fun r =>
    match r.2 with
    | .err => .ok (.ret RS.Res.err)
    | .ok _ => .ok (.next (cur1, r.1))

theorem ps_push_loop (c : Cfg) (body : Nat → Nat × EFB → R (RS.Step (Nat × EFB) (RS.Res PS)))
    (hbody : ∀ x st, body x st = psPushBody c x st) :
    ∀ (l : List Nat) (cur : Nat) (b b' : EFB), Fits b → cur + l.sum < 2^64 →
      PS.pushSums c b l cur = .ok (some b') →
      RS.forListB body l (cur, b) = .ok (.done (cur + l.sum, b')) := by
  intro l
  induction l with
  | nil => intro cur b b' _ _ hp; cases hp; rfl
  | cons x xs ih =>
    intro cur b b' hf h hp
    simp only [List.sum_cons] at h
    unfold PS.pushSums at hp
    rw [cadd_ok c (by omega : cur + x < 2^64), EFQ.bind_ok] at hp
    show (body x (cur, b)).bind _ = _
    rw [hbody]
    unfold psPushBody
    simp only []
    rw [cadd_ok c (by omega : cur + x < 2^64), bok, efb_push_eq c b hf (cur + x)]
    cases hpq : b.push (cur + x) with
    | error e => rw [hpq] at hp; cases hp
    | ok r =>
      obtain ⟨b1, acc⟩ := r
      rw [hpq, EFQ.bind_ok] at hp
      cases acc with
      | false => simp only [] at hp; cases hp
      | true =>
        simp only [if_true] at hp
        rw [map_ok, bok]
        simp only [resB_true]
        rw [bok]
        show RS.forListB body xs (cur + x, b1) = _
        rw [ih (cur + x) b1 b' (fits_push b hf _ b1 true hpq).1 (by omega) hp, List.sum_cons, Nat.add_assoc]

/-- the builder `from_slice` ends with, for a non-empty slice: `new(sum + 1, n)` then all running sums pushed; its
    bit vectors fit -/
theorem ps_pushed (c : Cfg) (vals : List Nat) (hne : vals ≠ []) (hs : vals.sum + 1 < 2^64)
    (hn : 3 * vals.length + 2 < 2^63) :
    ∃ b0 b', EFB.new (vals.sum + 1) vals.length = some b0 ∧ Fits b0 ∧
      PS.pushSums c b0 vals 0 = .ok (some b') ∧ Holds b' (PS.psums 0 vals) ∧
      b'.univ = vals.sum + 1 ∧ b'.high.len < 2^63 ∧ (PS.psums 0 vals).length * b'.lowLen < 2^64 := by
  have hm : vals.length ≠ 0 := by cases vals with
    | nil => exact absurd rfl hne
    | cons _ _ => simp
  obtain ⟨b0, hnew, hh0, hu0, hm0⟩ := new_holds (vals.sum + 1) vals.length hm hs
  have hshr := shr_lowLen_lt (vals.sum + 1) vals.length hm
  have hf0 : Fits b0 := fits_new _ _ b0 hs hnew (by omega)
  obtain ⟨b', hr, hh, hub⟩ := PS.pushSums_ok c vals b0 [] 0 hh0 hh0.last (by rw [hu0]; omega) (by rw [hu0]; omega)
    (by rw [hh0.pos, hm0]; simp)
  obtain ⟨q1, q2, q3⟩ := Space.pushSums_params c _ _ _ _ hr
  rw [List.nil_append] at hh
  have hll : b0.lowLen = lowLenOf (vals.sum + 1) vals.length := efb_new_lowLen _ _ b0 hnew
  refine ⟨b0, b', hnew, hf0, hr, hh, by rw [hub, hu0], ?_, ?_⟩
  · rw [hh.hlen, q1, q2, q3, hu0, hm0, hll]; omega
  · have := hf0.lowFits
    rw [PS.psums_length, q3, ← hm0]; exact this

/-- **`PrefixSummedEliasFano::from_slice`** (`Err ↦ none`): for a slice whose sum is below `usize::MAX` and with
    `3 * len + 2 < 2^63`; the empty slice (both sides `Err`) is included -/
theorem ps_from_slice_eq (c : Cfg) (vals : Array Nat) (hs : vals.toList.sum + 1 < 2^64)
    (hn : 3 * vals.size + 2 < 2^63) :
    GenFn.PrefixSummedEliasFano.from_slice c vals = (PS.fromSlice c vals.toList).map resOpt := by
  unfold GenFn.PrefixSummedEliasFano.from_slice
  by_cases h0 : vals.size = 0
  · have : vals.toList = [] := by
      apply List.eq_nil_of_length_eq_zero; rw [Array.length_toList]; exact h0
    rw [if_pos (by simp [h0]), this]
    rfl
  · rw [if_neg (by simpa using h0)]
    have hne : vals.toList ≠ [] := by
      intro h; apply h0; rw [← Array.length_toList, h]; rfl
    have hlen : vals.toList.length = vals.size := Array.length_toList
    obtain ⟨b0, b', hnew, hf0, hr, hh, hub, hhl, _⟩ := ps_pushed c vals.toList hne hs (by rw [hlen]; exact hn)
    rw [hlen] at hnew
    have hshr := shr_lowLen_lt (vals.toList.sum + 1) vals.size h0
    -- the model
    have hemp : vals.toList.isEmpty = false := by
      cases hv : vals.toList with
      | nil => exact absurd hv hne
      | cons _ _ => rfl
    have hmodel : PS.fromSlice c vals.toList = .ok (some ⟨EF.ofBuilder c b'⟩) := by
      unfold PS.fromSlice
      rw [hemp]
      have hsum := PS.sumAll_ok c vals.toList 0 (by omega)
      rw [Nat.zero_add] at hsum
      simp only [Bool.false_eq_true, if_false]
      rw [hsum, EFQ.bind_ok, cadd_ok c hs, EFQ.bind_ok, hlen]
      simp only [hnew]
      rw [hr, EFQ.bind_ok]
    rw [hmodel, map_ok, resOpt_some]
    -- the generated code
    have h1 := ps_sum_loop c _ (fun _ _ => rfl) vals.toList 0 (by omega)
    rw [Nat.zero_add] at h1
    refine Eq.trans (congrArg (fun x => Except.bind x _) h1) ?_
    rw [bok]
    simp only []
    rw [cadd_ok c hs, bok, efb_new_eq c _ _ hs (fun _ => by omega), bok, hnew]
    simp only [resOpt_some]
    have h2 := ps_push_loop c _ (fun _ _ => rfl) vals.toList 0 b0 b' hf0 (by omega) hr
    refine Eq.trans (congrArg (fun x => Except.bind x _) h2) ?_
    rw [bok]
    simp only []
    rw [ef_build_eq c b' hhl, bok]

/-- `from_slice(&[])` is `Err` -/
theorem ps_from_slice_empty (c : Cfg) : GenFn.PrefixSummedEliasFano.from_slice c #[] = .ok RS.Res.err := rfl

/-- **`build_from_slice`** (`impl Build`) is `from_slice` -/
theorem ps_build_from_slice_eq (c : Cfg) (vals : Array Nat) :
    GenFn.PrefixSummedEliasFano.build_from_slice c vals = GenFn.PrefixSummedEliasFano.from_slice c vals := rfl

/-! ## `Iter` -/

def psAbs (it : GenFn.psef_Iter) : It := ⟨it.pos⟩

/-- **`Iter::next`** on a sequence whose generated `access` reads back `xs` -/
theorem ps_iter_next_eq (c : Cfg) (it : GenFn.psef_Iter) (xs : List Nat) (hlen : it.efl.len = xs.length)
    (hacc : ∀ i, GenFn.PrefixSummedEliasFano.access c it.efl i = .ok xs[i]?) (hl : xs.length < 2^64) :
    GenFn.psef_Iter.next c it =
      .ok (⟨it.efl, (IndexIter.next xs.length (fun i => xs[i]?) (psAbs it)).2.pos⟩,
           (IndexIter.next xs.length (fun i => xs[i]?) (psAbs it)).1) := by
  obtain ⟨p, pos⟩ := it
  simp only [] at hlen hacc
  unfold GenFn.psef_Iter.next IndexIter.next psAbs
  simp only [ps_len_eq, hlen]
  by_cases hp : pos < xs.length
  · rw [if_pos hp, if_pos hp, hacc pos, List.getElem?_eq_getElem hp, bok, unwrap_some, bok, cadd_ok c (by omega), bok, bok]
  · rw [if_neg hp, if_neg hp, bok]

/-- **`Iter::size_hint`** -/
theorem ps_iter_size_hint_eq (c : Cfg) (it : GenFn.psef_Iter) (n : Nat) (hlen : it.efl.len = n) (hp : it.pos ≤ n) :
    GenFn.psef_Iter.size_hint c it = .ok (IndexIter.sizeHint n (psAbs it)) := by
  unfold GenFn.psef_Iter.size_hint IndexIter.sizeHint psAbs
  rw [ps_len_eq, hlen, csub_ok c hp, bok]

/-- `n` calls of the generated `next`, each preceded by the generated `size_hint` -/
def psRunN (c : Cfg) : GenFn.psef_Iter → Nat → R (List (Option Nat × (Nat × Option Nat)))
  | _, 0 => .ok []
  | it, n+1 =>
    (GenFn.psef_Iter.size_hint c it).bind fun sh =>
    (GenFn.psef_Iter.next c it).bind fun r =>
    (psRunN c r.1 n).bind fun l => .ok ((r.2, sh) :: l)

theorem ps_iter_runN (c : Cfg) (p : PS) (xs : List Nat) (hlen : p.len = xs.length)
    (hacc : ∀ i, GenFn.PrefixSummedEliasFano.access c p i = .ok xs[i]?) (hl : xs.length < 2^64) :
    ∀ (n pos : Nat), pos ≤ xs.length →
      psRunN c ⟨p, pos⟩ n = .ok (runN xs.length (fun i => xs[i]?) ⟨pos⟩ n) := by
  intro n
  induction n with
  | zero => intro pos _; rfl
  | succ n ih =>
    intro pos hp
    simp only [psRunN, runN]
    rw [ps_iter_size_hint_eq c ⟨p, pos⟩ xs.length hlen hp, bok, ps_iter_next_eq c ⟨p, pos⟩ xs hlen hacc hl, bok]
    simp only [psAbs]
    rw [ih _ (indexNext_pos_le xs.length _ ⟨pos⟩ hp), bok]

/-- C17 for the generated `PrefixSummedEliasFano::iter`: the stored values in order, then `None` forever, exact size
    hints -/
theorem ps_iter_c17 (c : Cfg) (p : PS) (xs : List Nat) (hlen : p.len = xs.length)
    (hacc : ∀ i, GenFn.PrefixSummedEliasFano.access c p i = .ok xs[i]?) (hl : xs.length < 2^64) (n : Nat) :
    psRunN c (GenFn.PrefixSummedEliasFano.iter p) n = .ok (C17.expected xs n) := by
  rw [ps_iter_eq, ps_iter_runN c p xs hlen hacc hl n 0 (Nat.zero_le _), C17.generic xs _ (fun _ => rfl) n]

/-! ## Specification level: the right-hand sides of `Props/C12.lean`, for the generated functions -/

/-- what the model's `PS.fromSlice` returns satisfies `EFOk` -/
theorem ps_fromSlice_ok (c : Cfg) (vals : List Nat) (hne : vals ≠ []) (hs : vals.sum + 1 < 2^64)
    (hn : 3 * vals.length + 2 < 2^63) (p : PS) (hp : PS.fromSlice c vals = .ok (some p)) : EFOk c p.ef := by
  obtain ⟨b0, b', hnew, hf0, hr, hh, hub, hhl, hlf⟩ := ps_pushed c vals hne hs hn
  have hemp : vals.isEmpty = false := by cases vals with
    | nil => exact absurd rfl hne
    | cons _ _ => rfl
  have hmodel : PS.fromSlice c vals = .ok (some ⟨EF.ofBuilder c b'⟩) := by
    unfold PS.fromSlice
    rw [hemp]
    have hsum := PS.sumAll_ok c vals 0 (by omega)
    rw [Nat.zero_add] at hsum
    simp only [Bool.false_eq_true, if_false]
    rw [hsum, EFQ.bind_ok, cadd_ok c hs, EFQ.bind_ok]
    simp only [hnew]
    rw [hr, EFQ.bind_ok]
  rw [hmodel] at hp
  injection hp with hp; injection hp with hp
  subst hp
  exact efok_ofBuilder c b' _ hh (by rw [hub]; exact hs) hhl hlf

/-- **C12 over the generated definitions**: for every build configuration and every non-empty slice whose sum is below
    `usize::MAX` (and `3 * len + 2 < 2^63`), the generated `from_slice` succeeds and the generated `len`, `sum`,
    `access` (every index), `is_empty`, `num_vals` and iterator return exactly the input -/
theorem ps_from_slice_answers (c : Cfg) (vals : Array Nat) (hne : vals.size ≠ 0) (hs : vals.toList.sum + 1 < 2^64)
    (hn : 3 * vals.size + 2 < 2^63) :
    ∃ p, GenFn.PrefixSummedEliasFano.from_slice c vals = .ok (RS.Res.ok p) ∧
      GenFn.PrefixSummedEliasFano.len p = vals.size ∧
      GenFn.PrefixSummedEliasFano.num_vals p = vals.size ∧
      GenFn.PrefixSummedEliasFano.is_empty p = false ∧
      GenFn.PrefixSummedEliasFano.sum c p = .ok vals.toList.sum ∧
      (∀ i, GenFn.PrefixSummedEliasFano.access c p i = .ok vals.toList[i]?) ∧
      (∀ n, psRunN c (GenFn.PrefixSummedEliasFano.iter p) n = .ok (C17.expected vals.toList n)) := by
  have hlen : vals.toList.length = vals.size := Array.length_toList
  have hne' : vals.toList ≠ [] := by
    intro h; apply hne; rw [← Array.length_toList, h]; rfl
  obtain ⟨p, hp, hl, hsum, hacc⟩ := PS.fromSlice_ok c vals.toList hne' hs
  have ok := ps_fromSlice_ok c vals.toList hne' hs (by rw [hlen]; exact hn) p hp
  have hacc' : ∀ i, GenFn.PrefixSummedEliasFano.access c p i = .ok vals.toList[i]? := fun i => by
    rw [ps_access_eq c p ok]; exact hacc i
  rw [hlen] at hl
  refine ⟨p, by rw [ps_from_slice_eq c vals hs hn, hp]; rfl, hl, hl, ?_, hsum, hacc', fun n => ?_⟩
  · rw [ps_is_empty_eq, hl]; simpa using hne
  · exact ps_iter_c17 c p _ (by rw [hlen]; exact hl) hacc' (by rw [hlen]; omega) n

/-! ## Non-vacuity: the generated pipeline evaluated by the kernel -/

example : ((GenFn.PrefixSummedEliasFano.from_slice ⟨true, false⟩ #[5, 0, 14, 3]).bind fun r =>
    (RS.unwrapRes r).bind fun p => GenFn.PrefixSummedEliasFano.access ⟨true, false⟩ p 2).toOption = some (some 14) := by
  decide +kernel
example : ((GenFn.PrefixSummedEliasFano.from_slice ⟨false, true⟩ #[5, 0, 14, 3]).bind fun r =>
    (RS.unwrapRes r).bind fun p => GenFn.PrefixSummedEliasFano.sum ⟨false, true⟩ p).toOption = some 22 := by
  decide +kernel
example : ((GenFn.PrefixSummedEliasFano.from_slice ⟨true, false⟩ #[5, 0, 14, 3]).bind fun r =>
    (RS.unwrapRes r).bind fun p => psRunN ⟨true, false⟩ (GenFn.PrefixSummedEliasFano.iter p) 5).toOption
      = some (C17.expected [5, 0, 14, 3] 5) := by
  decide +kernel

end Sucds.GenEq
