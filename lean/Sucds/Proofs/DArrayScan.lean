import Sucds.Proofs.DArrayInv
/-! DArray, part 6: the finished index satisfies `FInv`; the popcount scan of `select`. -/
set_option linter.unusedSimpArgs false
set_option linter.unusedVariables false
namespace Sucds
open Spec
namespace DAProof

theorem nth_Pb_mono (bv : BV) (o : Bool) : ∀ a b, a ≤ b → b < cnt (Pb bv o) bv.len →
    nth (Pb bv o) bv.len a ≤ nth (Pb bv o) bv.len b := fun a b hab hb => nth_mono _ _ a b hab hb

/-- the index built by the model holds the block/sub-block/overflow data of the indexed positions -/
theorem build_FInv (c : Cfg) (bv : BV) (h : bv.Inv) (o : Bool) :
    FInv (nth (Pb bv o) bv.len) (cnt (Pb bv o) bv.len) (DAIndex.build c bv o) := by
  unfold DAIndex.build
  rw [buildLoop_all c bv h o, plist_eq_map]
  have := SInv.pushAll (nth (Pb bv o) bv.len) (cnt (Pb bv o) bv.len) (nth_Pb_mono bv o) (cnt (Pb bv o) bv.len) 0
    ⟨#[], #[], #[], #[], 0⟩ (by omega) (SInv.init _)
  rw [Nat.zero_add] at this
  exact FInv.final _ _ (nth_Pb_mono bv o) _ this o

theorem build_overOne (c : Cfg) (bv : BV) (o : Bool) : (DAIndex.build c bv o).overOne = o := rfl

/-- the predicate seen by the scan: the indexed bit value, from `start` on (padding included) -/
def Q (bv : BV) (o : Bool) (start i : Nat) : Bool := (bv.bitAt i == o) && decide (start ≤ i)

theorem getWord_ok (bv : BV) (o : Bool) (i : Nat) (hi : i < bv.words.size) : DAIndex.getWord o bv i = .ok (gw bv o i) := by
  unfold DAIndex.getWord gw
  rw [idx_ok _ _ hi]; rfl

theorem scan_stop (c : Cfg) (x : DAIndex) (bv : BV) (wi word rem fuel : Nat) (hlt : rem < popcountN c word) :
    DAIndex.scan c x bv wi word rem (fuel + 1) = .ok (wi, word, rem) := by
  simp only [DAIndex.scan, hlt, if_true]

theorem scan_next (c : Cfg) (x : DAIndex) (bv : BV) (wi word rem fuel w : Nat) (hge : ¬ rem < popcountN c word)
    (hw : DAIndex.getWord x.overOne bv (wi + 1) = .ok w) :
    DAIndex.scan c x bv wi word rem (fuel + 1) = DAIndex.scan c x bv (wi + 1) w (rem - popcountN c word) fuel := by
  simp only [DAIndex.scan, hge, if_false, hw]
  rfl

theorem scan_spec (c : Cfg) (bv : BV) (h : bv.Inv) (o : Bool) (x : DAIndex) (hxo : x.overOne = o)
    (start pstar R : Nat) (hQ : Q bv o start pstar = true) (hcnt : cnt (Q bv o start) pstar = R) (hlen : pstar < bv.len) :
    ∀ (fuel wi word rem : Nat), (∀ j, j < 64 → word.testBit j = Q bv o start (64 * wi + j)) → word < 2^64 →
      cnt (Q bv o start) (64 * wi) + rem = R → 64 * wi ≤ pstar → start < 64 * (wi + 1) → pstar / 64 - wi < fuel →
      ∃ wi' word' rem', DAIndex.scan c x bv wi word rem fuel = .ok (wi', word', rem') ∧
        selectInWordN c word' rem' = some (pstar - 64 * wi') ∧ 64 * wi' ≤ pstar := by
  intro fuel
  induction fuel with
  | zero => intro wi word rem _ _ _ _ _ hf; omega
  | succ fuel ih =>
    intro wi word rem hbits hwlt hrem hle hst hf
    have hpc : popcountN c word = cnt (fun j => Q bv o start (64 * wi + j)) 64 := by
      rw [popcountN_eq c word hwlt]; exact cnt_congr _ _ 64 hbits
    have hadd := cnt_add (Q bv o start) (64 * wi) 64
    by_cases hlt : rem < popcountN c word
    · rw [scan_stop c x bv wi word rem fuel hlt]
      refine ⟨wi, word, rem, rfl, ?_, hle⟩
      have hin : pstar < 64 * wi + 64 := by
        by_cases hq : pstar < 64 * wi + 64
        · exact hq
        · have := cnt_mono (Q bv o start) (show 64 * wi + 64 ≤ pstar by omega); omega
      rw [selectInWordN_eq c word rem hwlt]
      apply sel_eq_some
      refine ⟨by omega, ?_, ?_⟩
      · show word.testBit (pstar - 64 * wi) = true
        rw [hbits (pstar - 64 * wi) (by omega), show 64 * wi + (pstar - 64 * wi) = pstar by omega]; exact hQ
      · rw [cnt_congr _ _ _ (fun j hj => hbits j (by omega))]
        have := cnt_add (Q bv o start) (64 * wi) (pstar - 64 * wi)
        rw [show 64 * wi + (pstar - 64 * wi) = pstar by omega] at this
        omega
    · have hnext : 64 * (wi + 1) ≤ pstar := by
        by_cases hq : 64 * (wi + 1) ≤ pstar
        · exact hq
        · have h1 := cnt_mono (Q bv o start) (show pstar + 1 ≤ 64 * wi + 64 by omega)
          have h2 := cnt_succ_of_true (Q bv o start) pstar hQ
          omega
      have hsz := h.size
      have hw : DAIndex.getWord x.overOne bv (wi + 1) = .ok (gw bv o (wi + 1)) := by
        rw [hxo]; exact getWord_ok bv o (wi + 1) (by omega)
      rw [scan_next c x bv wi word rem fuel _ hlt hw]
      apply ih (wi + 1) (gw bv o (wi + 1)) (rem - popcountN c word)
      · intro j hj
        rw [gw_testBit bv h o (wi + 1) j hj]
        unfold Q
        have : start ≤ 64 * (wi + 1) + j := by omega
        simp [this]
      · exact gw_lt bv h o (wi + 1)
      · rw [show 64 * (wi + 1) = 64 * wi + 64 by omega]; omega
      · exact hnext
      · omega
      · omega

end DAProof
end Sucds
