import Sucds.Proofs.Rank9Build
import Sucds.Proofs.C14Lsb
set_option linter.unusedSimpArgs false
set_option linter.unusedVariables false
namespace Sucds
open Spec
namespace R9Index

/-! ### reading the directory -/
theorem specList_even (c : Cfg) (ws : Array Nat) (b t : Nat) (ht : t ≤ b) :
    (specList c ws b)[2*t]? = some (prefixPop c ws (8*t)) := by
  induction b with
  | zero => have : t = 0 := by omega
            subst this; rfl
  | succ b ih =>
    simp only [specList]
    by_cases htb : t ≤ b
    · rw [List.getElem?_append_left (by rw [specList_length]; omega)]; exact ih htb
    · have : t = b + 1 := by omega
      subst this
      rw [List.getElem?_append_right (by rw [specList_length]; omega), specList_length]
      have : 2 * (b + 1) - (2 * b + 1) = 1 := by omega
      rw [this]; rfl

theorem specList_odd (c : Cfg) (ws : Array Nat) (b t : Nat) (ht : t < b) :
    (specList c ws b)[2*t+1]? = some (packTo (inBlk c ws t) 7) := by
  induction b with
  | zero => omega
  | succ b ih =>
    simp only [specList]
    by_cases htb : t < b
    · rw [List.getElem?_append_left (by rw [specList_length]; omega)]; exact ih htb
    · have : t = b := by omega
      subst this
      rw [List.getElem?_append_right (by rw [specList_length]; omega), specList_length]
      have : 2 * t + 1 - (2 * t + 1) = 0 := by omega
      rw [this]; rfl

/-- extraction of the j-th 9-bit counter, as `sub_block_rank` does -/
theorem extract (e : Nat → Nat) (he : ∀ j, e j < 512) (j : Nat) (hj : j ≤ 7) :
    ((packTo e 7) >>> ((7 - j) * 9)) &&& 0x1FF = if j = 0 then 0 else e j := by
  have h1 := he 1; have h2 := he 2; have h3 := he 3; have h4 := he 4; have h5 := he 5; have h6 := he 6; have h7 := he 7
  have hm : (0x1FF : Nat) = 2^9 - 1 := by decide
  rw [hm, Nat.and_two_pow_sub_one_eq_mod, Nat.shiftRight_eq_div_pow]
  simp only [packTo]
  have : j = 0 ∨ j = 1 ∨ j = 2 ∨ j = 3 ∨ j = 4 ∨ j = 5 ∨ j = 6 ∨ j = 7 := by omega
  rcases this with h|h|h|h|h|h|h|h <;> subst h <;> simp <;> omega

theorem idx_toList (ws : Array Nat) (i v : Nat) (h : ws.toList[i]? = some v) : idx ws i = .ok v := by
  unfold idx
  rw [← Array.getElem?_toList] at *
  rw [h]

theorem pad_zero (n : Nat) : pad 0 0 n = 0 := by
  induction n with
  | zero => rfl
  | succ n ih => simp only [pad]; simpa using ih

/-- the counters word of the last (partial or empty) block -/
def padEntry (c : Cfg) (ws : Array Nat) : Nat :=
  if ws.size % 8 = 0 then 0
  else packTo (ext (inBlk c ws (ws.size / 8)) (ws.size % 8 - 1) (inBlk c ws (ws.size / 8) (ws.size % 8))) 7

/-- the list of directory entries of the built index -/
theorem pairs_toList (c : Cfg) (bv : BV) (h : bv.Inv) :
    (buildRank c bv).pairs.toList =
      specList c bv.words (bv.words.size / 8) ++ [padEntry c bv.words] ++
        (if bv.words.size % 8 ≠ 0 then [prefixPop c bv.words bv.words.size, 0] else []) := by
  have hinv := inv_run c bv.words h.lt bv.words.size 0 _ (inv_init c bv.words) (by omega) (by omega)
  obtain ⟨h1, h2, h3, h4⟩ := hinv
  have hlt := inBlk_lt c bv.words h.lt (bv.words.size / 8) (bv.words.size % 8) (by omega)
  unfold buildRank
  simp only [hB]
  by_cases hr : bv.words.size % 8 ≠ 0
  · have hpad : pad (run c bv.words 0 ⟨0, 0, 0, #[0]⟩ bv.words.size).subranks
        (run c bv.words 0 ⟨0, 0, 0, #[0]⟩ bv.words.size).curSub (8 - bv.words.size % 8) = padEntry c bv.words := by
      rw [h3, h2, pad_spec _ hlt]
      have hr' : ¬ bv.words.size % 8 = 0 := hr
      simp only [padEntry, hr', if_false]
      congr 1; omega
    simp only [hr, if_true, ne_eq, not_false_eq_true, Array.toList_push, h4, hpad, h1, List.append_assoc, List.cons_append, List.nil_append]
  · have hr0 : bv.words.size % 8 = 0 := by omega
    have hpad : pad (run c bv.words 0 ⟨0, 0, 0, #[0]⟩ bv.words.size).subranks
        (run c bv.words 0 ⟨0, 0, 0, #[0]⟩ bv.words.size).curSub (8 - bv.words.size % 8) = padEntry c bv.words := by
      rw [h3, h2, hr0]
      simp only [padEntry, hr0, if_true]
      have : inBlk c bv.words (bv.words.size / 8) 0 = 0 := by simp [inBlk]
      rw [this]; exact pad_zero _
    simp only [hr, if_false, Array.toList_push, h4, hpad, List.append_nil]

theorem inBlk_lt' (c : Cfg) (bv : BV) (h : bv.Inv) (b j : Nat) (hj : j ≤ 7) : inBlk c bv.words b j < 512 :=
  inBlk_lt c bv.words h.lt b j hj

/-- `sub_block_rank`: the number of set bits in the first `wi` words -/
theorem subBlockRank_ok (c : Cfg) (bv : BV) (h : bv.Inv) (wi : Nat) (hwi : wi < bv.words.size) :
    (buildRank c bv).subBlockRank wi = .ok (prefixPop c bv.words wi) := by
  have hp := pairs_toList c bv h
  have hdm : 8 * (wi / 8) + wi % 8 = wi := Nat.div_add_mod wi 8
  have hblk : wi / 8 ≤ bv.words.size / 8 := Nat.div_le_div_right (by omega)
  have hsdm : 8 * (bv.words.size / 8) + bv.words.size % 8 = bv.words.size := Nat.div_add_mod _ 8
  unfold subBlockRank blockRank subBlockRanks
  simp only [hB]
  have hbr : (buildRank c bv).pairs.toList[wi / 8 * 2]? = some (prefixPop c bv.words (8 * (wi / 8))) := by
    rw [hp, List.append_assoc, List.getElem?_append_left (by rw [specList_length]; omega), Nat.mul_comm]
    exact specList_even c bv.words _ _ hblk
  rw [idx_toList _ _ _ hbr]
  simp only [Except.bind]
  have hmono : prefixPop c bv.words (8 * (wi / 8)) ≤ prefixPop c bv.words wi := prefixPop_mono c bv.words (by omega)
  have hin : inBlk c bv.words (wi / 8) (wi % 8) = prefixPop c bv.words wi - prefixPop c bv.words (8 * (wi / 8)) := by
    unfold inBlk; rw [hdm]
  by_cases hfull : wi / 8 < bv.words.size / 8
  · have hsr : (buildRank c bv).pairs.toList[wi / 8 * 2 + 1]? = some (packTo (inBlk c bv.words (wi / 8)) 7) := by
      rw [hp, List.append_assoc, List.getElem?_append_left (by rw [specList_length]; omega), Nat.mul_comm]
      exact specList_odd c bv.words _ _ hfull
    rw [idx_toList _ _ _ hsr]
    simp only [Except.bind]
    -- the counters of a full block, with values for indices > 7 irrelevant
    have hpk : packTo (inBlk c bv.words (wi / 8)) 7 = packTo (fun j => if j ≤ 7 then inBlk c bv.words (wi / 8) j else 0) 7 :=
      packTo_congr _ _ 7 (fun j _ h2 => by simp [h2])
    rw [hpk, extract _ (fun j => by
      by_cases hj : j ≤ 7
      · simp only [hj, if_true]; exact inBlk_lt' c bv h _ _ hj
      · simp [hj]) (wi % 8) (by omega)]
    by_cases h0 : wi % 8 = 0
    · have e8 : 8 * (wi / 8) = wi := by omega
      simp only [h0, if_true, e8, Nat.add_zero]
    · have : wi % 8 ≤ 7 := by omega
      simp only [h0, if_false, this, if_true, hin]
      have e : prefixPop c bv.words (8 * (wi / 8)) + (prefixPop c bv.words wi - prefixPop c bv.words (8 * (wi / 8))) = prefixPop c bv.words wi := by omega
      rw [e]
  · -- the partial last block
    have hlast : wi / 8 = bv.words.size / 8 := by omega
    have hr : bv.words.size % 8 ≠ 0 := by omega
    have hr' : ¬ bv.words.size % 8 = 0 := hr
    have hsr : (buildRank c bv).pairs.toList[wi / 8 * 2 + 1]? = some (padEntry c bv.words) := by
      rw [hp, List.append_assoc, List.getElem?_append_right (by rw [specList_length]; omega), specList_length, hlast]
      have : bv.words.size / 8 * 2 + 1 - (2 * (bv.words.size / 8) + 1) = 0 := by omega
      rw [this]; rfl
    rw [idx_toList _ _ _ hsr]
    simp only [Except.bind, padEntry, hr', if_false]
    have hpk : packTo (ext (inBlk c bv.words (bv.words.size / 8)) (bv.words.size % 8 - 1) (inBlk c bv.words (bv.words.size / 8) (bv.words.size % 8))) 7
        = packTo (fun j => if j ≤ 7 then ext (inBlk c bv.words (bv.words.size / 8)) (bv.words.size % 8 - 1) (inBlk c bv.words (bv.words.size / 8) (bv.words.size % 8)) j else 0) 7 :=
      packTo_congr _ _ 7 (fun j _ h2 => by simp [h2])
    rw [hpk, extract _ (fun j => by
      by_cases hj : j ≤ 7
      · simp only [hj, if_true, ext]
        split
        · exact inBlk_lt' c bv h _ _ hj
        · exact inBlk_lt' c bv h _ _ (by omega)
      · simp [hj]) (wi % 8) (by omega)]
    by_cases h0 : wi % 8 = 0
    · have e8 : 8 * (wi / 8) = wi := by omega
      simp only [h0, if_true, e8, Nat.add_zero]
    · have h7 : wi % 8 ≤ 7 := by omega
      have hle : wi % 8 ≤ bv.words.size % 8 - 1 := by omega
      simp only [h0, if_false, h7, if_true, ext, hle, ← hlast, hin]
      have e : prefixPop c bv.words (8 * (wi / 8)) + (prefixPop c bv.words wi - prefixPop c bv.words (8 * (wi / 8))) = prefixPop c bv.words wi := by omega
      rw [e]

end R9Index
end Sucds
