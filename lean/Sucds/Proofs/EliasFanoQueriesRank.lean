import Sucds.Proofs.EliasFanoQueries
/-! Elias-Fano queries, part 2: `rank`, `predecessor`, `successor` (need the select0 index of the high bits). -/
set_option linter.unusedSimpArgs false
set_option linter.unusedVariables false
namespace Sucds
namespace EFQ
open BV Spec EFB

/-! ### the specification functions -/

/-- number of values `< p` -/
def rk (xs : List Nat) (p : Nat) : Nat := xs.countP (fun x => decide (x < p))
/-- the largest value `≤ p` (of a non-decreasing list) -/
def predV (xs : List Nat) (p : Nat) : Option Nat := (xs.filter (fun x => decide (x ≤ p))).getLast?
/-- the smallest value `≥ p` (of a non-decreasing list) -/
def succV (xs : List Nat) (p : Nat) : Option Nat := xs.find? (fun x => decide (p ≤ x))

theorem X_zero (a : Nat) (t : List Nat) : X (a :: t) 0 = a := rfl
theorem X_succ (a : Nat) (t : List Nat) (k : Nat) : X (a :: t) (k + 1) = X t k := by simp [X]

theorem rk_le (xs : List Nat) (p : Nat) : rk xs p ≤ xs.length := List.countP_le_length

/-- in a non-decreasing list the values below `p` are exactly the first `rk xs p` ones -/
theorem lt_rk_iff (xs : List Nat) (hs : xs.Pairwise (· ≤ ·)) (p k : Nat) (hk : k < xs.length) :
    k < rk xs p ↔ X xs k < p := by
  induction xs generalizing k with
  | nil => simp at hk
  | cons a t ih =>
    rw [List.pairwise_cons] at hs
    have hrk : rk (a :: t) p = rk t p + (if a < p then 1 else 0) := by
      unfold rk; rw [List.countP_cons]; simp
    have hz : ¬ a < p → rk t p = 0 := by
      intro ha
      unfold rk
      rw [List.countP_eq_zero]
      intro x hx
      have := hs.1 x hx
      simp only [decide_eq_true_eq]; omega
    cases k with
    | zero =>
      rw [X_zero, hrk]
      by_cases ha : a < p
      · rw [if_pos ha]; omega
      · have := hz ha
        rw [if_neg ha]; omega
    | succ k =>
      have hk' : k < t.length := by simpa using hk
      rw [X_succ, hrk, ← ih hs.2 k hk']
      by_cases ha : a < p
      · rw [if_pos ha]; omega
      · have := hz ha
        rw [if_neg ha]; omega

theorem rk_unique (xs : List Nat) (hs : xs.Pairwise (· ≤ ·)) (p r : Nat) (hr : r ≤ xs.length)
    (h1 : ∀ k, k < r → X xs k < p) (h2 : ∀ k, r ≤ k → k < xs.length → p ≤ X xs k) : rk xs p = r := by
  have hle := rk_le xs p
  by_cases ha : rk xs p < r
  · have := (lt_rk_iff xs hs p (rk xs p) (by omega)).mpr (h1 _ ha); omega
  · by_cases hb : r < rk xs p
    · have := (lt_rk_iff xs hs p r (by omega)).mp hb
      have := h2 r (Nat.le_refl _) (by omega); omega
    · omega

theorem rk_all (xs : List Nat) (p : Nat) (h : ∀ x ∈ xs, x < p) : rk xs p = xs.length := by
  unfold rk; rw [List.countP_eq_length]; intro x hx; simpa using h x hx

/-- characterisation of `predV` -/
theorem predV_some_iff (xs : List Nat) (hs : xs.Pairwise (· ≤ ·)) (p v : Nat) :
    predV xs p = some v ↔ v ∈ xs ∧ v ≤ p ∧ ∀ x ∈ xs, x ≤ p → x ≤ v := by
  have hfs : (xs.filter (fun x => decide (x ≤ p))).Pairwise (· ≤ ·) := hs.filter _
  have fwd : ∀ w, predV xs p = some w → w ∈ xs ∧ w ≤ p ∧ ∀ x ∈ xs, x ≤ p → x ≤ w := by
    intro w hw
    unfold predV at hw
    obtain ⟨ys, hys⟩ := List.getLast?_eq_some_iff.mp hw
    have hmem : w ∈ xs.filter (fun x => decide (x ≤ p)) := by rw [hys]; simp
    rw [List.mem_filter] at hmem
    refine ⟨hmem.1, by simpa using hmem.2, ?_⟩
    intro x hx hxp
    have hxf : x ∈ xs.filter (fun x => decide (x ≤ p)) := by rw [List.mem_filter]; exact ⟨hx, by simpa using hxp⟩
    have := le_getLast_of_sorted _ hfs x hxf
    rw [hw] at this; simpa using this
  constructor
  · exact fwd v
  · intro ⟨h1, h2, h3⟩
    have hvf : v ∈ xs.filter (fun x => decide (x ≤ p)) := by rw [List.mem_filter]; exact ⟨h1, by simpa using h2⟩
    cases hw : predV xs p with
    | none =>
      unfold predV at hw
      rw [List.getLast?_eq_none_iff] at hw
      rw [hw] at hvf; simp at hvf
    | some w =>
      obtain ⟨g1, g2, g3⟩ := fwd w hw
      have := g3 v h1 h2
      have := h3 w g1 g2
      congr 1; omega

theorem predV_none_iff (xs : List Nat) (p : Nat) : predV xs p = none ↔ ∀ x ∈ xs, p < x := by
  unfold predV
  rw [List.getLast?_eq_none_iff, List.filter_eq_nil_iff]
  constructor
  · intro h x hx; have := h x hx; simp only [decide_eq_true_eq] at this; omega
  · intro h x hx; have := h x hx; simp only [decide_eq_true_eq]; omega

/-- characterisation of `succV` -/
theorem succV_some_iff (xs : List Nat) (hs : xs.Pairwise (· ≤ ·)) (p v : Nat) :
    succV xs p = some v ↔ v ∈ xs ∧ p ≤ v ∧ ∀ x ∈ xs, p ≤ x → v ≤ x := by
  have fwd : ∀ w, succV xs p = some w → w ∈ xs ∧ p ≤ w ∧ ∀ x ∈ xs, p ≤ x → w ≤ x := by
    intro w hw
    unfold succV at hw
    obtain ⟨hpw, as, bs, hx, has⟩ := List.find?_eq_some_iff_append.mp hw
    have hpw' : p ≤ w := by simpa using hpw
    refine ⟨by rw [hx]; simp, hpw', ?_⟩
    intro x hxm hxp
    rw [hx, List.pairwise_append, List.pairwise_cons] at hs
    rw [hx] at hxm
    rcases List.mem_append.mp hxm with h | h
    · have := has x h; simp at this; omega
    · rcases List.mem_cons.mp h with h | h
      · omega
      · exact hs.2.1.1 x h
  constructor
  · exact fwd v
  · intro ⟨h1, h2, h3⟩
    cases hw : succV xs p with
    | none =>
      unfold succV at hw
      rw [List.find?_eq_none] at hw
      have := hw v h1; simp at this; omega
    | some w =>
      obtain ⟨g1, g2, g3⟩ := fwd w hw
      have := g3 v h1 h2
      have := h3 w g1 g2
      congr 1; omega

theorem succV_none_iff (xs : List Nat) (p : Nat) : succV xs p = none ↔ ∀ x ∈ xs, x < p := by
  unfold succV
  rw [List.find?_eq_none]
  constructor
  · intro h x hx; have := h x hx; simp only [decide_eq_true_eq] at this; omega
  · intro h x hx; have := h x hx; simp only [decide_eq_true_eq]; omega

/-! ### rank -/
section
variable {c : Cfg} {e : EF} {b : EFB} {xs : List Nat}

/-- high and low part of a value (as opaque atoms for `omega`) -/
def hiP (b : EFB) (x : Nat) : Nat := x / 2 ^ b.lowLen
def loP (b : EFB) (x : Nat) : Nat := x % 2 ^ b.lowLen

theorem shr_eq_hiP (b : EFB) (x : Nat) : x >>> b.lowLen = hiP b x := Nat.shiftRight_eq_div_pow _ _
theorem hiP_mono (b : EFB) {x y : Nat} (h : x ≤ y) : hiP b x ≤ hiP b y := Nat.div_le_div_right h

theorem hp_eq (b : EFB) (xs : List Nat) (k : Nat) : hp b xs k = hiP b (X xs k) + k := by
  unfold hp; rw [shr_eq_hiP]

/-- the number of values whose high part is at most `h` -/
def upto (b : EFB) (xs : List Nat) (h : Nat) : Nat := rk xs ((h + 1) * 2 ^ b.lowLen)

theorem lt_upto_iff (S : Setting c e b xs) (h k : Nat) (hk : k < xs.length) :
    k < upto b xs h ↔ hiP b (X xs k) ≤ h := by
  unfold upto hiP
  rw [lt_rk_iff xs S.holds.sorted _ k hk, ← Nat.div_lt_iff_lt_mul (Nat.two_pow_pos _)]
  exact Nat.lt_succ_iff

theorem upto_le (b : EFB) (xs : List Nat) (h : Nat) : upto b xs h ≤ xs.length := rk_le _ _

/-- where the `h`-th zero of the high bits is -/
theorem zero_pos (S : Setting c e b xs) (h : Nat) (hh : h ≤ hiP b b.univ) :
    sel (fun i => !b.high.bitAt i) b.high.len h = some (h + upto b xs h) := by
  have hC := upto_le b xs h
  have hbit : b.high.bitAt (h + upto b xs h) = false := by
    cases hb : b.high.bitAt (h + upto b xs h) with
    | false => rfl
    | true =>
      exfalso
      obtain ⟨k, hk, hkq⟩ := (hp_ones S _).mp hb
      rw [hp_eq] at hkq
      have := lt_upto_iff S h k hk
      by_cases h1 : k < upto b xs h
      · have := this.mp h1; omega
      · have : ¬ hiP b (X xs k) ≤ h := fun hh => h1 (this.mpr hh)
        omega
  have hcnt : cnt b.high.bitAt (h + upto b xs h) = upto b xs h := by
    rw [cnt_high S]
    have : (List.range xs.length).countP (fun k => decide (hp b xs k < h + upto b xs h))
        = (List.range xs.length).countP (fun k => decide (k < upto b xs h)) := by
      apply List.countP_congr
      intro k hk
      have hk' : k < xs.length := by simpa using hk
      simp only [decide_eq_true_eq]
      rw [hp_eq]
      have := lt_upto_iff S h k hk'
      constructor
      · intro h1
        apply Classical.byContradiction
        intro h2
        have : ¬ hiP b (X xs k) ≤ h := fun hh => h2 (this.mpr hh)
        omega
      · intro h1; have := this.mp h1; omega
    rw [this, UnaryCode.countP_range_lt _ _ hC]
  apply sel_eq_some
  refine ⟨?_, by simp [hbit], ?_⟩
  · rw [S.holds.hlen, shr_eq_hiP]
    have := S.holds.cap; have := S.holds.pos
    omega
  · have := cnt_compl b.high.bitAt (h + upto b xs h)
    omega

theorem div_lt_imp (b : EFB) (x y : Nat) (h : hiP b x < hiP b y) : x < y := by
  apply Nat.lt_of_not_le
  intro hle
  have := hiP_mono b hle
  omega

theorem same_div (b : EFB) (x y : Nat) (h : hiP b x = hiP b y) : (x < y ↔ loP b x < loP b y) := by
  unfold hiP at h
  unfold loP
  have h1 := Nat.div_add_mod x (2 ^ b.lowLen)
  have h2 := Nat.div_add_mod y (2 ^ b.lowLen)
  rw [h] at h1
  omega

/-- the backward scan of `rank`, with its invariant -/
theorem rankLoop_ok (S : Setting c e b xs) (pos : Nat) (hpos : pos < b.univ) :
    ∀ fuel r, r < fuel → r ≤ upto b xs (hiP b pos) →
      (∀ k, r ≤ k → k < xs.length → pos ≤ X xs k) →
      e.rankLoop (loP b pos) (hiP b pos + r) r fuel = .ok (rk xs pos) := by
  have hs := S.holds.sorted
  intro fuel
  induction fuel with
  | zero => intro r hr; omega
  | succ fuel ih =>
    intro r hr hrC hge
    have hC := upto_le b xs (hiP b pos)
    rw [EF.rankLoop]
    by_cases h0 : hiP b pos + r = 0
    · simp only [h0, if_true]
      have hr0 : r = 0 := by omega
      subst hr0
      rw [rk_unique xs hs pos 0 (by omega) (fun k hk => by omega) hge]
    · simp only [h0, if_false]
      have hlen : hiP b pos + r - 1 < b.high.len := by
        rw [S.holds.hlen, shr_eq_hiP]
        have := S.holds.cap; have := S.holds.pos
        have : hiP b pos ≤ hiP b b.univ := hiP_mono b (by omega)
        omega
      rw [S.high.access]
      simp only [hlen, if_true]
      rw [unwrapO_some, bind_ok]
      cases hb : b.high.bitAt (hiP b pos + r - 1) with
      | false =>
        simp only [Bool.not_false, if_true]
        -- every value below index r is smaller than pos
        congr 1
        symm
        apply rk_unique xs hs pos r (by omega) _ hge
        intro k hk
        have hr1 : r - 1 < xs.length := by omega
        have hu := (lt_upto_iff S (hiP b pos) (r - 1) hr1).mp (by omega)
        have hne : hiP b (X xs (r - 1)) ≠ hiP b pos := by
          intro heq
          have : b.high.bitAt (hiP b pos + r - 1) = true :=
            (hp_ones S _).mpr ⟨r - 1, hr1, by rw [hp_eq, heq]; omega⟩
          rw [hb] at this; cases this
        have h1 := div_lt_imp b (X xs (r - 1)) pos (by omega)
        have := X_le xs hs k (r - 1) (by omega) hr1
        omega
      | true =>
        simp only [Bool.not_true, Bool.false_eq_true, if_false]
        obtain ⟨k, hk, hkq⟩ := (hp_ones S _).mp hb
        rw [hp_eq] at hkq
        -- the one at `hPos - 1` is the value number `r - 1`, and its high part is that of `pos`
        have hk1 : k + 1 = r ∧ hiP b (X xs k) = hiP b pos := by
          have hiff := lt_upto_iff S (hiP b pos) k hk
          by_cases h1 : r ≤ k
          · exfalso
            have hge' := hge k h1 hk
            have : hiP b pos ≤ hiP b (X xs k) := hiP_mono b hge'
            omega
          · have := hiff.mp (by omega)
            omega
        obtain ⟨hkr, hdiv⟩ := hk1
        have hr0 : r ≠ 0 := by omega
        simp only [hr0, if_false]
        have hkr' : r - 1 = k := by omega
        rw [hkr', S.low, S.lowLen, low_ok S k hk, unwrapO_some, bind_ok]
        show (if loP b (X xs k) ≥ loP b pos then _ else _) = _
        have hsame := same_div b (X xs k) pos hdiv
        by_cases hlv : loP b (X xs k) ≥ loP b pos
        · simp only [hlv, if_true]
          have e1 : hiP b pos + r - 1 = hiP b pos + k := by omega
          rw [e1]
          apply ih k (by omega) (by omega)
          intro j hj hjn
          by_cases hjk : j = k
          · subst hjk; omega
          · exact hge j (by omega) hjn
        · simp only [hlv, if_false]
          congr 1
          symm
          apply rk_unique xs hs pos r (by omega) _ hge
          intro j hj
          have := X_le xs hs j k (by omega) hk
          omega

/-- **rank**: the number of values `< p`, `none` iff `p > universe`; no `unwrap`/`csub` fails
    (needs the select0 index: `enable_rank`) -/
theorem rank_ok (S : Setting c e b xs) (h0 : e.high.s0.isSome) (p : Nat) :
    e.rank c p = .ok (if p ≤ b.univ then some (rk xs p) else none) := by
  unfold EF.rank
  rw [S.univ, len_eq S]
  by_cases h1 : b.univ < p
  · have : ¬ p ≤ b.univ := by omega
    simp [h1, this]
  · simp only [h1, if_false]
    have hle : p ≤ b.univ := by omega
    simp only [hle, if_true]
    by_cases h2 : b.univ = p
    · simp only [h2, if_true]
      rw [rk_all xs p (fun x hx => by rw [← h2]; exact S.holds.bound x hx)]
    · simp only [h2, if_false]
      have hpos : p < b.univ := by omega
      have hh : hiP b p ≤ hiP b b.univ := hiP_mono b hle
      rw [S.lowLen, S.high.select0 h0, shr_eq_hiP, zero_pos S _ hh, unwrapO_some, bind_ok,
        csub_ok c (Nat.le_add_right _ _), bind_ok, Nat.add_sub_cancel_left, Nat.one_shiftLeft,
        Nat.and_two_pow_sub_one_eq_mod]
      show (EF.rankLoop e (loP b p) _ _ _).bind _ = _
      have hC := upto_le b xs (hiP b p)
      rw [rankLoop_ok S p hpos (xs.length + 1) (upto b xs (hiP b p)) (by omega) (Nat.le_refl _), bind_ok]
      intro k hk hkn
      have := (lt_upto_iff S (hiP b p) k hkn)
      have : ¬ hiP b (X xs k) ≤ hiP b p := fun hh => by have := this.mpr hh; omega
      have := div_lt_imp b p (X xs k) (by omega)
      omega

/-- **predecessor**: the largest value `≤ p`, `none` when there is none or `p ≥ universe` -/
theorem predecessor_ok (S : Setting c e b xs) (h0 : e.high.s0.isSome) (p : Nat) :
    e.predecessor c p = .ok (if p < b.univ then predV xs p else none) := by
  unfold EF.predecessor
  rw [S.univ]
  by_cases h1 : b.univ ≤ p
  · have : ¬ p < b.univ := by omega
    simp [h1, this]
  · have hlt : p < b.univ := by omega
    have hle : p + 1 ≤ b.univ := by omega
    simp only [h1, hlt, if_false, if_true]
    rw [rank_ok S h0, if_pos hle, unwrapO_some, bind_ok]
    have hs := S.holds.sorted
    have hrl := rk_le xs (p + 1)
    by_cases hi : rk xs (p + 1) > 0
    · simp only [hi, if_true]
      have hlt : rk xs (p + 1) - 1 < xs.length := by omega
      rw [select_ok S, getElem?_X xs _ hlt, unwrapO_some, bind_ok]
      congr 1
      symm
      rw [predV_some_iff xs hs]
      have hv := (lt_rk_iff xs hs (p + 1) _ hlt).mp (by omega)
      refine ⟨X_mem xs _ hlt, by omega, ?_⟩
      intro x hx hxp
      obtain ⟨j, hj, rfl⟩ := mem_X xs x hx
      have := (lt_rk_iff xs hs (p + 1) j hj).mpr (by omega)
      exact X_le xs hs j _ (by omega) hlt
    · simp only [hi, if_false]
      congr 1
      symm
      rw [predV_none_iff]
      intro x hx
      obtain ⟨j, hj, rfl⟩ := mem_X xs x hx
      have := (lt_rk_iff xs hs (p + 1) j hj)
      apply Classical.byContradiction
      intro hh
      have := this.mpr (by omega)
      omega

/-- **successor**: the smallest value `≥ p`, `none` when there is none or `p ≥ universe` -/
theorem successor_ok (S : Setting c e b xs) (h0 : e.high.s0.isSome) (p : Nat) :
    e.successor c p = .ok (if p < b.univ then succV xs p else none) := by
  unfold EF.successor
  rw [S.univ, len_eq S]
  by_cases h1 : b.univ ≤ p
  · have : ¬ p < b.univ := by omega
    simp [h1, this]
  · have hlt : p < b.univ := by omega
    have hle : p ≤ b.univ := by omega
    simp only [h1, hlt, if_false, if_true]
    rw [rank_ok S h0, if_pos hle, unwrapO_some, bind_ok]
    have hs := S.holds.sorted
    have hrl := rk_le xs p
    by_cases hi : rk xs p < xs.length
    · simp only [hi, if_true]
      rw [select_ok S, getElem?_X xs _ hi, unwrapO_some, bind_ok]
      congr 1
      symm
      rw [succV_some_iff xs hs]
      have hv := (lt_rk_iff xs hs p _ hi)
      refine ⟨X_mem xs _ hi, by omega, ?_⟩
      intro x hx hxp
      obtain ⟨j, hj, rfl⟩ := mem_X xs x hx
      have := (lt_rk_iff xs hs p j hj)
      have hji : rk xs p ≤ j := by
        apply Nat.le_of_not_lt
        intro hh; have := this.mp hh; omega
      exact X_le xs hs _ j hji hj
    · simp only [hi, if_false]
      congr 1
      symm
      rw [succV_none_iff]
      intro x hx
      obtain ⟨j, hj, rfl⟩ := mem_X xs x hx
      exact (lt_rk_iff xs hs p j hj).mp (by omega)

end
end EFQ
end Sucds
