import Sucds.Gen.Fns
import Sucds.Model.WaveletMatrix
/-! Evaluation of generated definitions against the hand-written model on concrete inputs (all four build
    configurations). This is a *test of the translator*, not a proof: it covers the groups of functions whose
    equivalence with the model is not (yet) proved — DArray, Elias-Fano queries and iterator, SArray, DACs,
    PrefixSummedEliasFano, WaveletMatrix — so that a mis-translation in them is noticed. `#guard` fails the build
    of this file when a comparison is false. Run by `tools/check.py` in the thorough tier. -/
open Sucds
namespace Sucds.Test

def cfgs : List Cfg := [⟨true, false⟩, ⟨true, true⟩, ⟨false, false⟩, ⟨false, true⟩]
def get {α} [Inhabited α] (r : R α) : α := match r with | .ok x => x | .error _ => default
def resv {α} [Inhabited α] (r : R (RS.Res α)) : α := match r with | .ok (.ok x) => x | _ => default
/-- same outcome: equal values, or both panic -/
def okq {α} [BEq α] (a b : R α) : Bool := match a, b with | .ok x, .ok y => x == y | .error _, .error _ => true | _, _ => false

def bits : List Bool := (List.range 3000).map fun i => i % 3 == 0 || i % 7 == 1
def sparse : List Bool := (List.range 3000).map fun i => i % 13 == 0 || i % 101 == 1
def bv := BV.fromBits bits

-- DArray: builders (all three indexes) and every query
#guard cfgs.all fun c =>
  let da := DA.build c bv true true
  let g := get ((GenFn.DArray.from_bits c bits).bind fun d => (GenFn.DArray.enable_rank c d).bind fun d => GenFn.DArray.enable_select0 c d)
  g == da &&
  (List.range 45).all fun j =>
    okq (GenFn.DArray.select1 c da (j * 40)) (da.select1 c (j * 40)) && okq (GenFn.DArray.select0 c da (j * 40)) (da.select0 c (j * 40)) &&
    okq (GenFn.DArray.rank1 c da (j * 80)) (da.rank1 c (j * 80)) && okq (GenFn.DArray.rank0 c da (j * 80)) (da.rank0 c (j * 80)) &&
    okq (GenFn.DArray.access c da (j * 77)) (da.access (j * 77))

-- Elias-Fano: build, enable_rank, queries, binary search, iterator
def xs : List Nat := (List.range 500).map fun i => i * i / 7
#guard cfgs.all fun c =>
  let efb := get ((GenFn.EliasFanoBuilder.new c 40000 500).bind fun r => match r with
    | .ok b => (GenFn.EliasFanoBuilder.extend c b xs).bind (fun p => .ok p.1) | .err => .error .oob)
  let efM := EF.ofBuilder c efb
  let ef := get ((GenFn.EliasFanoBuilder.build c efb).bind fun e => GenFn.EliasFano.enable_rank c e)
  get (GenFn.EliasFanoBuilder.build c efb) == efM &&
  (List.range 52).all fun j =>
    okq (GenFn.EliasFano.select c ef (j * 11)) (EF.select c ef (j * 11)) && okq (GenFn.EliasFano.delta c ef (j * 11)) (EF.delta c ef (j * 11)) &&
    okq (GenFn.EliasFano.rank c ef (j * 801)) (EF.rank c ef (j * 801)) && okq (GenFn.EliasFano.predecessor c ef (j * 801)) (EF.predecessor c ef (j * 801)) &&
    okq (GenFn.EliasFano.successor c ef (j * 801)) (EF.successor c ef (j * 801))
#guard cfgs.all fun c =>
  let efb := get ((GenFn.EliasFanoBuilder.new c 40000 500).bind fun r => match r with
    | .ok b => (GenFn.EliasFanoBuilder.extend c b xs).bind (fun p => .ok p.1) | .err => .error .oob)
  let ef := get (GenFn.EliasFanoBuilder.build c efb)
  get (GenFn.EliasFano.binsearch c ef 343) == some 49 && get (GenFn.EliasFano.binsearch c ef 344) == none &&
  get (GenFn.EliasFano.binsearch_range c ef (10, 400) 343) == some 49 &&
  get ((GenFn.EliasFano.iter c ef 495).bind fun it => (GenFn.iter_Iter.next c it).bind fun p => (GenFn.iter_Iter.next c p.1).bind fun q => .ok (p.2, q.2))
    == (some 35003, some 35145)

-- SArray
#guard cfgs.all fun c =>
  let saM := get (SA.fromBV c (BV.fromBits sparse))
  get (GenFn.SArray.from_bits c sparse) == saM &&
  (List.range 100).all fun i => okq (GenFn.SArray.access c saM (i * 31)) (saM.access c (i * 31)) && okq (GenFn.SArray.select1 c saM (i * 3)) (saM.select1 c (i * 3))

-- DACs and PrefixSummedEliasFano: constructors (incl. the dynamic program) and access
def vals : List Nat := (List.range 300).map fun i => (i * i * 7919) % (if i % 5 == 0 then 2^40 else 300)
#guard cfgs.all fun c =>
  let db := DacB.fromSlice c vals
  resv (GenFn.DacsByte.from_slice c vals.toArray) == db && (List.range 310).all fun i => okq (GenFn.DacsByte.access c db i) (db.access c i)
#guard cfgs.all fun c => [none, some 1, some 3, some 64].all fun ml =>
  let d := (get (DacO.fromSlice c vals ml)).getD default
  some (resv (GenFn.DacsOpt.from_slice c vals.toArray ml)) == get (DacO.fromSlice c vals ml) &&
  (List.range 310).all fun i => okq (GenFn.DacsOpt.access c d i) (d.access c i)
#guard cfgs.all fun c =>
  let ps := (get (PS.fromSlice c vals)).getD default
  some (resv (GenFn.PrefixSummedEliasFano.from_slice c vals.toArray)) == get (PS.fromSlice c vals) &&
  (List.range 310).all fun i => okq (GenFn.PrefixSummedEliasFano.access c ps i) (ps.access c i)

-- WaveletMatrix over Rank9Sel
def seq : List Nat := (List.range 500).map fun i => (i * 7919 + i / 7) % 37
#guard cfgs.all fun c =>
  let cv := resv (GenFn.CompactVector.from_slice c seq.toArray)
  let g := resv (GenFn.WaveletMatrix_Rank9Sel.new c cv)
  let m := (get (WM.new c .r9 seq)).getD default
  g.layers.map Lay.r9 == m.layers && g.alph_size_ == m.alphSize &&
  (List.range 60).all fun i =>
    okq (GenFn.WaveletMatrix_Rank9Sel.access c g (i * 9)) (m.access c (i * 9)) &&
    okq (GenFn.WaveletMatrix_Rank9Sel.rank_range c g (i, i * 8) (i % 40)) (m.rankRange c i (i * 8) (i % 40)) &&
    okq (GenFn.WaveletMatrix_Rank9Sel.select c g (i % 9) (i % 40)) (m.select c (i % 9) (i % 40)) &&
    okq (GenFn.WaveletMatrix_Rank9Sel.quantile c g (i, i * 8) (i % 11)) (m.quantile c i (i * 8) (i % 11))
#guard cfgs.all fun c =>
  let cv := resv (GenFn.CompactVector.from_slice c seq.toArray)
  let g := resv (GenFn.WaveletMatrix_Rank9Sel.new c cv)
  let m := (get (WM.new c .r9 seq)).getD default
  [([(0, 100), (50, 200), (150, 400)], 1), ([(0, 500), (3, 7)], 0), ([(10, 20), (600, 700)], 0), ([(5, 5), (7, 90)], 1)].all fun (rs, k) =>
    okq ((GenFn.WaveletMatrix_Rank9Sel.intersect c g rs.toArray k).map (Option.map Array.toList)) (m.intersect c rs k)
end Sucds.Test
