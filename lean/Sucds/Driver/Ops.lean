import Sucds.Model.RustSem
import Sucds.Driver.Core
import Sucds.Model.IndexIter
import Std.Data.HashMap
/-! Model driver, part 2: the object table and every request of the line protocol. Each request yields
    the model's answer (`m`) and what the specification expects of an answer (`e`). -/
namespace Sucds.Driver
open Sucds

inductive Obj
  | bv (m : BV) (s : Array Bool)
  | r9 (m : R9) (s : Array Bool)
  | da (m : DA) (s : Array Bool)
  | sa (m : SA) (s : Array Bool)
  | efb (m : EFB) (u cap : Nat) (xs : Array Nat)
  | ef (m : EF) (u : Nat) (xs : Array Nat)
  | cv (m : CV) (w : Nat) (xs : Array Nat)
  | db (m : DacB) (xs : Array Nat)
  | dopt (m : DacO) (lim : Nat) (xs : Array Nat)
  | ps (m : PS) (xs : Array Nat)
  | wm (k : Backing) (m : WM) (xs : Array Nat)

abbrev Tbl := Std.HashMap Nat Obj

structure Out where
  m : String
  e : Exp := .any

def bad (msg : String) : Out := ⟨"SCRIPT-ERROR " ++ msg, .any⟩

def okErr (b : Bool) : String := if b then "ok" else "err"

/-! ### serialization helpers, generic in the codec -/

def extraBytes (n : Nat) : List Nat := (List.range n).map fun i => (i * 37 + 0xa5) % 256

def serLine {α} (cd : Codec α) (x : α) : String :=
  let b := cd.put x
  s!"ret={b.length} sib={cd.size x} bytes={bytesHex b}"

def rtLine {α} [DecidableEq α] (cd : Codec α) (x : α) (extra : Nat) : String :=
  let b := cd.put x
  match cd.get (b ++ extraBytes extra) with
  | none => "err"
  | some (y, rest) => s!"ok consumed={b.length + extra - rest.length} size={b.length} eq={showB (decide (y = x))}"

/-- `all` offsets: every offset for images up to 4096 bytes, otherwise the first 64, the last 64 and 256 evenly
    spaced ones (the harness uses the same rule) -/
def allOffsets (size : Nat) (inclusive : Bool) : List Nat :=
  let top := if inclusive then size + 1 else size
  if size ≤ 4096 then List.range top
  else
    let v := List.range 64 ++ (List.range 256).map (fun i => i * size / 256) ++ (List.range 64).map (fun i => top - 64 + i)
    (v.toArray.qsort (· < ·)).toList.eraseDups

def truncLine {α} (cd : Codec α) (x : α) (offs : Option (List Nat)) : String :=
  let b := cd.put x
  let offsets := (match offs with | none => allOffsets b.length false | some l => l).filter (· < b.length)
  let oks := offsets.filter fun k => (cd.get (b.take k)).isSome
  s!"size={b.length} ok={oks.length} err={offsets.length - oks.length} panic=0 first_bad={showON oks.head?}"

def wfailLine {α} (cd : Codec α) (x : α) (offs : Option (List Nat)) : String :=
  let n := (cd.put x).length
  let offsets := match offs with | none => allOffsets n true | some l => l
  let oks := offsets.filter (· ≥ n)
  s!"size={n} ok={oks.length} err={offsets.length - oks.length} panic=0 prefix_ok=1 first_bad=none"

/-- C08: `ret = sib = number of bytes written` -/
def expSer : Exp := .sat "ret=sib=len(bytes)" fun a =>
  match fieldNat a "ret", fieldNat a "sib", field a "bytes" with
  | some r, some s, some b => r == s && b.length == 2 * r
  | _, _, _ => false
/-- C08/C13: round trip consumed exactly the serialized size and compares equal -/
def expRt : Exp := .sat "ok consumed=size eq=1" fun a =>
  a.startsWith "ok " && (match fieldNat a "consumed", fieldNat a "size", fieldNat a "eq" with
    | some c, some s, some e => c == s && e == 1
    | _, _, _ => false)
/-- C13: every strict prefix is rejected with `Err` -/
def expTrunc : Exp := .sat "ok=0 panic=0" fun a => fieldNat a "ok" == some 0 && fieldNat a "panic" == some 0
/-- C13: a writer failing after `j < size` bytes gives `Err`, after `≥ size` bytes `Ok`; never a panic -/
def expWfail : Exp := .sat "panic=0 first_bad=none prefix_ok=1" fun a =>
  fieldNat a "panic" == some 0 && field a "first_bad" == some "none" && fieldNat a "prefix_ok" == some 1

/-- run `k` on the object's codec and model value -/
def withCodec (o : Obj) (k : (α : Type) → [DecidableEq α] → Codec α → α → String) : Option String :=
  match o with
  | .bv m _ => some (k BV BV.codec m)
  | .r9 m _ => some (k R9 R9.codec m)
  | .da m _ => some (k DA DA.codec m)
  | .sa m _ => some (k SA SA.codec m)
  | .ef m _ _ => some (k EF EF.codec m)
  | .cv m _ _ => some (k CV CV.codec m)
  | .db m _ => some (k DacB DacB.codec m)
  | .dopt m _ _ => some (k DacO DacO.codec m)
  | .ps m _ => some (k PS PS.codec m)
  | .wm b m _ => some (k WM (WM.codec b) m)
  | .efb .. => none

/-- deserialize the model bytes of `o` again (the model of `new … deser`) -/
def reDeser (o : Obj) : Option Obj :=
  match o with
  | .bv m s => (BV.codec.get (BV.codec.put m)).map fun p => .bv p.1 s
  | .r9 m s => (R9.codec.get (R9.codec.put m)).map fun p => .r9 p.1 s
  | .da m s => (DA.codec.get (DA.codec.put m)).map fun p => .da p.1 s
  | .sa m s => (SA.codec.get (SA.codec.put m)).map fun p => .sa p.1 s
  | .ef m u xs => (EF.codec.get (EF.codec.put m)).map fun p => .ef p.1 u xs
  | .cv m w xs => (CV.codec.get (CV.codec.put m)).map fun p => .cv p.1 w xs
  | .db m xs => (DacB.codec.get (DacB.codec.put m)).map fun p => .db p.1 xs
  | .dopt m l xs => (DacO.codec.get (DacO.codec.put m)).map fun p => .dopt p.1 l xs
  | .ps m xs => (PS.codec.get (PS.codec.put m)).map fun p => .ps p.1 xs
  | .wm b m xs => ((WM.codec b).get ((WM.codec b).put m)).map fun p => .wm b p.1 xs
  | .efb .. => none

/-- `size_in_bytes()` as written in the Rust source (generated `X.sizeInBytes`) -/
def sizeInBytesOf (o : Obj) : Option Nat :=
  match o with
  | .bv m _ => some (BV.sizeInBytes m) | .r9 m _ => some (R9.sizeInBytes m) | .da m _ => some (DA.sizeInBytes m)
  | .sa m _ => some (SA.sizeInBytes m) | .ef m _ _ => some (EF.sizeInBytes m) | .cv m _ _ => some (CV.sizeInBytes m)
  | .db m _ => some (DacB.sizeInBytes m) | .dopt m _ _ => some (DacO.sizeInBytes m) | .ps m _ => some (PS.sizeInBytes m)
  | .wm b m _ => some (WM.sizeInBytes b m) | .efb .. => none

def kindOf : Obj → String
  | .bv .. => "bv" | .r9 .. => "r9" | .da .. => "da" | .sa .. => "sa" | .efb .. => "efb" | .ef .. => "ef"
  | .cv .. => "cv" | .db .. => "db" | .dopt .. => "do" | .ps .. => "ps"
  | .wm .r9 .. => "wmr" | .wm .da .. => "wmd" | .wm .bv .. => "wmb"

/-! ### C19: the documented space bounds, in bits, scaled by 100 -/
def ceil64 (n : Nat) : Nat := (n + 63) / 64 * 64
def lg (x : Nat) : Nat := if x = 0 then 0 else Nat.log2 x

/-- `8 * size_in_bytes ≤ bound/100` as an expectation on the byte count -/
def leBits100 (bound100 : Nat) : Exp := .le (bound100 / 800)

def efBound100 (n u : Nat) (rank : Bool) : Nat :=
  100 * (n * lg (if n = 0 then 0 else u / n) + (if rank then 11 else 7) * n + 8192)

/-- per-level DAC accounting: `(chunk bits + flag bits)` of every level for the given widths -/
def dacLevelBits (vals : List Nat) (widths : List Nat) : List Nat :=
  let rec go (ws : List Nat) (consumed : Nat) : List Nat :=
    match ws with
    | [] => []
    | [w] => [w * (vals.filter fun v => consumed = 0 ∨ SpecX.bitlen v > consumed).length]
    | w :: rest => (w + 1) * (vals.filter fun v => consumed = 0 ∨ SpecX.bitlen v > consumed).length :: go rest (consumed + w)
  go widths 0
def dacBound100 (vals : List Nat) (widths : List Nat) : Nat :=
  ((dacLevelBits vals widths).map fun b => 132 * b + 204800).sum + 12800

def sizeExp (o : Obj) : Exp :=
  match o with
  | .bv _ s => leBits100 (100 * (ceil64 s.size + 256))
  | .cv _ w xs => leBits100 (100 * (ceil64 (w * xs.size) + 256))
  | .r9 _ s => leBits100 (132 * s.size + 204800)
  | .da m s =>
    let sel := 1 + (if m.s0.isSome then 1 else 0)
    let r := if m.r9.isSome then 1 else 0
    leBits100 (s.size * (100 + 102 * sel + 26 * r) + 409600)
  | .ef m u xs => leBits100 (efBound100 xs.size u m.hasRank)
  | .sa m s => leBits100 (efBound100 (SpecX.count true s s.size) s.size m.hasRank)
  | .ps _ xs => leBits100 (efBound100 xs.size (xs.foldl (· + ·) 0 + 1) false)
  | .db m xs => leBits100 (dacBound100 xs.toList m.widths)
  | .dopt m _ xs => leBits100 (dacBound100 xs.toList m.widths)
  | .wm .r9 m xs => leBits100 (m.alphWidth * (132 * xs.size + 204800) + 12800)
  | _ => .any

/-! ### bit-vector style queries -/

def bitSpec (s : Array Bool) (meth : String) (a : List Nat) (lazySel : Bool := false) : Exp :=
  if lazySel && (meth == "select1" || meth == "select0") then .eq "" else      -- filled in from the position cache
  match meth, a with
  | "access", [i] => .eq (showOB (SpecX.access s i))
  | "get_bit", [i] => .eq (showOB (SpecX.access s i))
  | "rank1", [i] => .eq (showON (SpecX.rank true s i))
  | "rank0", [i] => .eq (showON (SpecX.rank false s i))
  | "select1", [k] => .eq (showON (SpecX.select true s k))
  | "select0", [k] => .eq (showON (SpecX.select false s k))
  | "predecessor1", [i] => .eq (showON (SpecX.pred true s i))
  | "predecessor0", [i] => .eq (showON (SpecX.pred false s i))
  | "successor1", [i] => .eq (showON (SpecX.succ true s i))
  | "successor0", [i] => .eq (showON (SpecX.succ false s i))
  | "num_bits", [] => .eq (toString s.size)
  | "len", [] => .eq (toString s.size)
  | "is_empty", [] => .eq (showB (s.size == 0))
  | "num_ones", [] => .eq (toString (SpecX.count true s s.size))
  | "num_zeros", [] => .eq (toString (SpecX.count false s s.size))
  | "get_bits", [p, l] => .eq (showON (SpecX.getBits s p l))
  | "get_word64", [p] => .eq (showON (SpecX.getWord64 s p))
  | _, _ => .any

def qBV (c : Cfg) (m : BV) (meth : String) (a : List Nat) : Option String :=
  match meth, a with
  | "len", [] => some (toString m.len)
  | "num_bits", [] => some (toString m.len)
  | "is_empty", [] => some (showB (m.len == 0))
  | "num_words", [] => some (toString m.words.size)
  | "words", [] => some (showWords m.words)
  | "get_bit", [i] => some (showR showOB (m.getBit i))
  | "access", [i] => some (showR showOB (m.getBit i))
  | "get_bits", [p, l] => some (showR showON (m.getBits p l))
  | "get_word64", [p] => some (showR showON (m.getWord64 p))
  | "rank1", [i] => some (showR showON (m.rank1 c i))
  | "rank0", [i] => some (showR showON (m.rank0 c i))
  | "select1", [k] => some (showR showON (m.select1 c k))
  | "select0", [k] => some (showR showON (m.select0 c k))
  | "predecessor1", [i] => some (showR showON (m.predecessor1 c i))
  | "predecessor0", [i] => some (showR showON (m.predecessor0 c i))
  | "successor1", [i] => some (showR showON (m.successor1 c i))
  | "successor0", [i] => some (showR showON (m.successor0 c i))
  | "num_ones", [] => some (showR toString (m.numOnes c))
  | "num_zeros", [] => some (showR toString ((m.numOnes c).bind fun n => csub c m.len n))
  | _, _ => none

def qR9 (c : Cfg) (m : R9) (meth : String) (a : List Nat) : Option String :=
  match meth, a with
  | "len", [] => some (toString m.numBits)
  | "num_bits", [] => some (toString m.numBits)
  | "is_empty", [] => some (showB (m.numBits == 0))
  | "words", [] => some (showWords m.bv.words)
  | "access", [i] => some (showR showOB (m.access i))
  | "rank1", [i] => some (showR showON (m.rank1 c i))
  | "rank0", [i] => some (showR showON (m.rank0 c i))
  | "select1", [k] => some (showR showON (m.select1 c k))
  | "select0", [k] => some (showR showON (m.select0 c k))
  | "num_ones", [] => some (showR toString m.numOnes)
  | "num_zeros", [] => some (showR toString (m.numZeros c))
  | _, _ => none

def qDA (c : Cfg) (m : DA) (meth : String) (a : List Nat) : Option String :=
  match meth, a with
  | "len", [] => some (toString m.numBits)
  | "num_bits", [] => some (toString m.numBits)
  | "is_empty", [] => some (showB (m.numBits == 0))
  | "has_rank", [] => some (showB m.r9.isSome)
  | "has_select0", [] => some (showB m.s0.isSome)
  | "words", [] => some (showWords m.bv.words)
  | "access", [i] => some (showR showOB (m.access i))
  | "rank1", [i] => some (showR showON (m.rank1 c i))
  | "rank0", [i] => some (showR showON (m.rank0 c i))
  | "select1", [k] => some (showR showON (m.select1 c k))
  | "select0", [k] => some (showR showON (m.select0 c k))
  | "num_ones", [] => some (toString m.numOnes)
  | "num_zeros", [] => some (showR toString (m.numZeros c))
  | _, _ => none

def qSA (c : Cfg) (m : SA) (meth : String) (a : List Nat) : Option String :=
  match meth, a with
  | "len", [] => some (toString m.numBits)
  | "num_bits", [] => some (toString m.numBits)
  | "is_empty", [] => some (showB (m.numBits == 0))
  | "has_rank", [] => some (showB m.hasRank)
  | "access", [i] => some (showR showOB (m.access c i))
  | "rank1", [i] => some (showR showON (m.rank1 c i))
  | "rank0", [i] => some (showR showON (m.rank0 c i))
  | "select1", [k] => some (showR showON (m.select1 c k))
  | "select0", [_] => some "panic"
  | "predecessor1", [i] => some (showR showON (m.predecessor1 c i))
  | "successor1", [i] => some (showR showON (m.successor1 c i))
  | "num_ones", [] => some (toString m.numOnes)
  | "num_zeros", [] => some (showR toString (csub c m.numBits m.numOnes))
  | _, _ => none

/-! ### iterators -/

def showHint (lo : Nat) (hi : Option Nat) : String :=
  s!"({lo},{match hi with | some h => toString h | none => "inf"})"

/-- does a `size_hint` answer bracket `r` remaining elements -/
def hintBrackets (ans : String) (r : Nat) : Bool :=
  let t := ((ans.drop 1).dropEnd 1).toString
  match t.splitOn "," with
  | [lo, hi] => (match lo.toNat? with | some l => l ≤ r | none => false) &&
      (hi == "inf" || (match hi.toNat? with | some h => r ≤ h | none => false))
  | _ => false

/-- expectation for an index-style iterator over `elems` (already dropped to the start offset) -/
def iterExp (elems : List String) (ops : List String) : Exp :=
  .sat "yields the remaining elements, then none; size_hint brackets" fun ans =>
    let answers := ans.splitOn ";"
    if answers.length ≠ ops.length then false else
    let rec go (ops answers : List String) (rest : List String) : Bool :=
      match ops, answers with
      | [], _ => true
      | _, [] => false
      | op :: ops', a :: as' =>
        if op == "n" then
          match rest with
          | [] => a == "none" && go ops' as' []
          | x :: r => a == "some " ++ x && go ops' as' r
        else if op == "h" then hintBrackets a rest.length && go ops' as' rest
        else if op.startsWith "t" then
          -- `nth(k)`: the element k places further on, and the iterator stands behind it
          match (op.drop 1).toString.toNat? with
          | none => false
          | some k => match rest.drop k with
            | [] => a == "none" && go ops' as' []
            | x :: r => a == "some " ++ x && go ops' as' r
        else go ops' as' rest
    go ops answers elems

/-- `t<k>` is `Iterator::nth(k)`; none of the modelled iterators overrides it, so it is `k + 1` calls of `next` of which
    the last answer is returned: the request list is expanded for the model and the answers are folded back -/
def expandNth (bound : Nat) (ops : List String) : List String × List Nat :=
  ops.foldr (fun op (acc : List String × List Nat) =>
    if op.startsWith "t" then
      match (op.drop 1).toString.toNat? with
      -- more calls than there are elements left (plus the ones that find the end) change nothing: `k` may be `usize::MAX`
      | some k => let g := min (k + 1) bound; (List.replicate g "n" ++ acc.1, g :: acc.2)
      | none => (op :: acc.1, 1 :: acc.2)
    else (op :: acc.1, 1 :: acc.2)) ([], [])

def collapseNth (groups : List Nat) (answers : List String) : List String :=
  match groups with
  | [] => []
  | g :: gs =>
    let mine := answers.take g
    if mine.isEmpty then []
    else if mine.length < g then [mine.getLast!]      -- cut short by a panic inside the group
    else mine.getLast! :: collapseNth gs (answers.drop g)

def withNth (bound : Nat) (run : List String → String) (ops : List String) : String :=
  if ops.any (·.startsWith "t") then
    let (eops, groups) := expandNth bound ops
    ";".intercalate (collapseNth groups ((run eops).splitOn ";"))
  else run ops

/-- run `n`/`h` requests on the model of the index iterators (`IndexIter.next`, `IndexIter.sizeHint`); `acc`
    gives the printed answer of `access(i)` (`none` = the model panicked) -/
def runIndexIter (len : Nat) (acc : Nat → Option String) (ops : List String) : String :=
  let rec go (ops : List String) (it : IndexIter.It) (out : List String) : List String :=
    match ops with
    | [] => out.reverse
    | op :: r =>
      if op == "n" then
        if it.pos < len && (acc it.pos).isNone then ("panic" :: out).reverse
        else
          let (a, it') := IndexIter.next len acc it
          go r it' ((match a with | some s => s | none => "none") :: out)
      else
        let (lo, hi) := IndexIter.sizeHint len it
        go r it (showHint lo hi :: out)
  ";".intercalate (go ops ⟨0⟩ [])

/-- unary iterator: specification with a set of candidate cursors (`none` = exhausted) -/
def kthFrom (b : Bool) (s : Array Bool) (c k : Nat) : Option Nat :=
  (((List.range s.size).drop c).filter fun p => s[p]? = some b)[k]?

def unarySpecStep (s : Array Bool) (cur : Option Nat) (op : String) : Option (String × List (Option Nat)) :=
  match cur with
  | none => if op == "n" || op.startsWith "s1:" || op.startsWith "s0:" then some ("none", [none]) else none
  | some c =>
    if op == "n" then
      match kthFrom true s c 0 with
      | some q => some (s!"some {q}", [some (q + 1)])
      | none => some ("none", [none])
    else if op.startsWith "s1:" then
      match (op.drop 3).toString.toNat? with
      | none => none
      | some k => match kthFrom true s c k with
        | some q => some (s!"some {q}", [some q])
        | none => some ("none", [some c, none])
    else if op.startsWith "s0:" then
      match (op.drop 3).toString.toNat? with
      | none => none
      | some k => match kthFrom false s c k with
        | some q => some (s!"some {q}", [some q])
        | none => some ("none", [some c, none])
    else none

def unaryExp (s : Array Bool) (start : Nat) (ops : List String) : Exp :=
  let real := ops.filter fun o => o != "h" && o != "p"
  let nextOnly := real.all (· == "n")
  let skipOnly := real.all fun o => o.startsWith "s1:" || o.startsWith "s0:"
  if start > s.size || !(nextOnly || skipOnly) then .any else
  .sat "unary iterator per cursor semantics" fun ans =>
    let answers := ans.splitOn ";"
    if answers.length ≠ ops.length then false else
    let rec go (ops answers : List String) (cands : List (Option Nat)) : Bool :=
      match ops, answers with
      | [], _ => true
      | _, [] => false
      | op :: ops', a :: as' =>
        if op == "h" then hintOk a && go ops' as' cands
        else if op == "p" then go ops' as' cands
        else
          let next := cands.flatMap fun c => match unarySpecStep s c op with
            | some (e, ncs) => if e == a then ncs else []
            | none => []
          !next.isEmpty && go ops' as' next.eraseDups
    go ops answers [some start]
where
  hintOk (a : String) : Bool := a.startsWith "(0,"   -- the default `(0, None)` brackets anything; a lower bound 0 always does

def runUnary (c : Cfg) (bv : BV) (start : Nat) (ops : List String) : String :=
  let rec go (ops : List String) (it : UIter) (out : List String) : List String :=
    match ops with
    | [] => out.reverse
    | op :: r =>
      if op == "h" then go r it ("(0,inf)" :: out)
      else if op == "p" then go r it (toString it.pos :: out)
      else
        let res : Option (R (UIter × Option Nat)) :=
          if op == "n" then some (it.next c bv)
          else if op.startsWith "s1:" then (op.drop 3).toString.toNat?.map (it.skip1 c bv)
          else if op.startsWith "s0:" then (op.drop 3).toString.toNat?.map (it.skip0 c bv)
          else none
        match res with
        | none => ("SCRIPT-ERROR bad unary op" :: out).reverse
        | some (.error _) => ("panic" :: out).reverse
        | some (.ok (it', v)) => go r it' (showON v :: out)
  ";".intercalate (go ops (UIter.new bv start) [])

def runEfIter (c : Cfg) (e : EF) (k : Nat) (ops : List String) : String :=
  match e.iter c k with
  | .error _ => "panic"
  | .ok it0 =>
    let rec go (ops : List String) (it : EF.It) (out : List String) : List String :=
      match ops with
      | [] => out.reverse
      | op :: r =>
        if op == "h" then go r it ("(0,inf)" :: out)
        else match it.next c e with
          | .error _ => ("panic" :: out).reverse
          | .ok (it', v) => go r it' (showON v :: out)
    ";".intercalate (go ops it0 [])

/-! ### constructors -/

def specMax (l : List Nat) : Nat := l.foldl max 0

def mkBits (c : Cfg) (kind ctor : String) (a : List String) : Option (Option Obj × Exp) :=
  match kind, ctor, a with
  | "bv", "new", [] => some (some (.bv BV.new #[]), .eq "ok")
  | "bv", "from_bit", [b, l] => match flag? b, num? l with
    | some b, some l => some (some (.bv (BV.fromBit b l) (Array.replicate l b)), .eq "ok")
    | _, _ => none
  | "bv", "from_bits", [bs] => (bits? bs).map fun (l, w) => (some (.bv (bvOfBits l w) (bitsArray l w)), .eq "ok")
  -- the same bits through an iterator reporting another (legal) size hint: the hint is not part of the value
  | "bv", "from_bits", [bs, _hint] => (bits? bs).map fun (l, w) => (some (.bv (bvOfBits l w) (bitsArray l w)), .eq "ok")
  | "bv", "build", [bs, _, _, _] => (bits? bs).map fun (l, w) => (some (.bv (bvOfBits l w) (bitsArray l w)), .eq "ok")
  | "r9", "new", [bs, h1, h0] => match bits? bs, flag? h1, flag? h0 with
    | some (l, w), some h1, some h0 => match R9.build c (bvOfBits l w) h1 h0 with
      | .ok x => some (some (.r9 x (bitsArray l w)), .eq "ok")
      | .error _ => some (none, .eq "ok")
    | _, _, _ => none
  | "r9", "build", [bs, _, h1, h0] => match bits? bs, flag? h1, flag? h0 with
    | some (l, w), some h1, some h0 => match R9.build c (bvOfBits l w) h1 h0 with
      | .ok x => some (some (.r9 x (bitsArray l w)), .eq "ok")
      | .error _ => some (none, .eq "ok")
    | _, _, _ => none
  | "da", "new", [bs, r, s0] => match bits? bs, flag? r, flag? s0 with
    | some (l, w), some r, some s0 => some (some (.da (DA.build c (bvOfBits l w) r s0) (bitsArray l w)), .eq "ok")
    | _, _, _ => none
  | "da", "build", [bs, r, _, s0] => match bits? bs, flag? r, flag? s0 with
    | some (l, w), some r, some s0 => some (some (.da (DA.build c (bvOfBits l w) r s0) (bitsArray l w)), .eq "ok")
    | _, _, _ => none
  | "sa", "new", [bs, r] => match bits? bs, flag? r with
    | some (l, w), some r => match SA.fromBV c (bvOfBits l w) with
      | .ok x => some (some (.sa (if r then x.enableRank c else x) (bitsArray l w)), .eq "ok")
      | .error _ => some (none, .eq "ok")
    | _, _ => none
  | "sa", "build", [bs, r, _, s0] => match bits? bs, flag? r, flag? s0 with
    | some (l, w), some r, some s0 =>
      if s0 then some (none, .eq "err")
      else match SA.fromBV c (bvOfBits l w) with
        | .ok x => some (some (.sa (if r then x.enableRank c else x) (bitsArray l w)), .eq "ok")
        | .error _ => some (none, .eq "ok")
    | _, _, _ => none
  | _, _, _ => none

/-- result of a constructor: the object (if any), the model answer and the expectation -/
structure NewRes where
  obj : Option Obj
  m : String
  e : Exp

def newObj (c : Cfg) (tbl : Tbl) (kind ctor : String) (a : List String) : Option NewRes :=
  let okObj (o : Obj) (e : Exp) : Option NewRes := some ⟨some o, "ok", e⟩
  let errRes (e : Exp) : Option NewRes := some ⟨none, "err", e⟩
  let panicRes (e : Exp) : Option NewRes := some ⟨none, "panic", e⟩
  match mkBits c kind ctor a with
  | some (some o, e) => okObj o e
  | some (none, e) => if e.descr == "err" then errRes e else panicRes e
  | none =>
  match kind, ctor, a with
  | _, "deser", [src] => (match (num? src).bind (tbl.get? ·) with
    | some o => if kindOf o != kind then none else (match reDeser o with
      | some o' => okObj o' (.eq "ok")
      | none => errRes (.eq "ok"))
    | none => none)
  | _, "clone", [src] => (match (num? src).bind (tbl.get? ·) with
    | some o => okObj o (.eq "ok")
    | none => none)
  | "r9", "from_bv", [src, h1, h0] => match (num? src).bind (tbl.get? ·), flag? h1, flag? h0 with
    | some (.bv m s), some h1, some h0 => match R9.build c m h1 h0 with
      | .ok x => okObj (.r9 x s) (.eq "ok")
      | .error _ => panicRes (.eq "ok")
    | _, _, _ => none
  | "efb", "new", [u, n] => match num? u, num? n with
    | some u, some n => match EFB.new u n with
      | some b => okObj (.efb b u n #[]) (.eq (okErr (n != 0)))
      | none => errRes (.eq (okErr (n != 0)))
    | _, _ => none
  | "ef", "build", src :: rest => match (num? src).bind (tbl.get? ·) with
    | some (.efb b u _ xs) =>
      let r := match rest with | [f] => flag? f == some true | _ => false
      let e := EF.ofBuilder c b
      okObj (.ef (if r then e.enableRank c else e) u xs) (.eq "ok")
    | _ => none
  | "ef", "from_bits", bs :: rest => match bits? bs with
    | some (l, w) =>
      let s := bitsArray l w
      let xs := SpecX.positions true s
      let exp := Exp.eq (okErr (l != 0 && xs.size != 0))
      let r := match rest with | [f] => f == "1" | _ => false
      match EF.fromBV c (bvOfBits l w) with
      | .ok (some e) => okObj (.ef (if r then e.enableRank c else e) l xs) exp
      | .ok none => errRes exp
      | .error _ => panicRes exp
    | none => none
  | "ef", "default", [] => okObj (.ef (EF.default c) 0 #[]) (.eq "ok")
  | "cv", "new", [w] => (num? w).bind fun w => match CV.new w with
    | some v => okObj (.cv v w #[]) (.eq (okErr (1 ≤ w && w ≤ 64)))
    | none => errRes (.eq (okErr (1 ≤ w && w ≤ 64)))
  | "cv", "with_capacity", [_, w] => (num? w).bind fun w => match CV.new w with
    | some v => okObj (.cv v w #[]) (.eq (okErr (1 ≤ w && w ≤ 64)))
    | none => errRes (.eq (okErr (1 ≤ w && w ≤ 64)))
  | "cv", "from_int", [v, l, w] => match num? v, num? l, num? w with
    | some v, some l, some w =>
      let good := 1 ≤ w && w ≤ 64 && (w == 64 || v < 2^w)
      (match CV.fromInt v l w with
      | .ok (some cv) => okObj (.cv cv w (Array.replicate l v)) (.eq (okErr good))
      | .ok none => errRes (.eq (okErr good))
      | .error _ => panicRes (.eq (okErr good)))
    | _, _, _ => none
  | "cv", "default", [] => okObj (.cv CV.default 0 #[]) (.eq "ok")
  | "cv", ct, [vs] =>
    if ct == "from_slice" || ct == "build" || ct == "from_slice_u8" || ct == "from_slice_u32" then
      (list? vs).bind fun l =>
        match CV.fromSlice c l with
        | .ok (some cv) => okObj (.cv cv (if l.isEmpty then 0 else SpecX.bitlen (specMax l)) l.toArray) (.eq "ok")
        | .ok none => errRes (.eq "ok")
        | .error _ => panicRes (.eq "ok")
    else if ct == "from_slice_i64" then
      (ilist? vs).bind fun l => if l.any (· < 0) then errRes (.eq "err") else none
    else none
  | "db", "default", [] => okObj (.db DacB.default #[]) (.eq "ok")
  | "db", ct, [vs] =>
    if ct == "from_slice" || ct == "build" || ct == "from_slice_u8" || ct == "from_slice_u32" then
      (list? vs).bind fun l => okObj (.db (DacB.fromSlice c l) l.toArray) (.eq "ok")
    else if ct == "from_slice_i64" then
      (ilist? vs).bind fun l => if l.any (· < 0) then errRes (.eq "err") else none
    else none
  | "do", "default", [] => okObj (.dopt DacO.default 64 #[]) (.eq "ok")
  | "do", "build", [vs] => (list? vs).bind fun l => match DacO.fromSlice c l none with
    | .ok (some d) => okObj (.dopt d 64 l.toArray) (.eq "ok")
    | .ok none => errRes (.eq "ok")
    | .error _ => panicRes (.eq "ok")
  | "do", ct, [lim, vs] =>
    let lim? : Option (Option Nat) := if lim == "none" then some none else (num? lim).map some
    match lim? with
    | none => none
    | some lim =>
      let limOk := match lim with | none => true | some L => 1 ≤ L && L ≤ 64
      if ct == "from_slice" then
        (list? vs).bind fun l => match DacO.fromSlice c l lim with
          | .ok (some d) => okObj (.dopt d (lim.getD 64) l.toArray) (.eq (okErr limOk))
          | .ok none => errRes (.eq (okErr limOk))
          | .error _ => panicRes (.eq (okErr limOk))
      else if ct == "from_slice_i64" then
        (ilist? vs).bind fun l => if !limOk || l.any (· < 0) then errRes (.eq "err") else none
      else none
  | "ps", ct, [vs] =>
    if ct == "from_slice" || ct == "build" || ct == "from_slice_u8" || ct == "from_slice_u32" then
      (list? vs).bind fun l => match PS.fromSlice c l with
        | .ok (some p) => okObj (.ps p l.toArray) (.eq (okErr (!l.isEmpty)))
        | .ok none => errRes (.eq (okErr (!l.isEmpty)))
        | .error _ => panicRes (if l.foldl (· + ·) 0 + 1 < 2^64 then .eq (okErr (!l.isEmpty)) else .any)
    else if ct == "from_slice_i64" then
      (ilist? vs).bind fun l => if l.isEmpty || l.any (· < 0) then errRes (.eq "err") else none
    else none
  | k, "from_cv", [src] =>
    let b? : Option Backing := if k == "wmr" then some .r9 else if k == "wmd" then some .da else if k == "wmb" then some .bv else none
    (match b?, (num? src).bind (tbl.get? ·) with
    | some b, some (.cv _ _ xs) =>
      let l := xs.toList
      let inContract := specMax l + 1 < 2^64
      let exp := if inContract then Exp.eq (okErr (!l.isEmpty)) else Exp.any
      (match WM.new c b l with
      | .ok (some w) => okObj (.wm b w xs) exp
      | .ok none => errRes exp
      | .error _ => panicRes exp)
    | _, _ => none)
  | k, "new", [vs] =>
    let b? : Option Backing := if k == "wmr" then some .r9 else if k == "wmd" then some .da else if k == "wmb" then some .bv else none
    match b?, list? vs with
    | some b, some l =>
      let inContract := specMax l + 1 < 2^64
      let exp := if inContract then Exp.eq (okErr (!l.isEmpty)) else Exp.any
      (match WM.new c b l with
      | .ok (some w) => okObj (.wm b w l.toArray) exp
      | .ok none => errRes exp
      | .error _ => panicRes exp)
    | _, _ => none
  | _, _, _ => none

/-! ### queries -/

def qCommonSer (o : Obj) (meth : String) (a : List String) : Option Out :=
  match meth, a with
  | "ser", [] => (withCodec o fun _ _ cd x =>
      let b := cd.put x
      s!"ret={b.length} sib={(sizeInBytesOf o).getD 0} bytes={bytesHex b}").map fun s => ⟨s, expSer⟩
  | "size_in_bytes", [] => (sizeInBytesOf o).map fun n => ⟨toString n, sizeExp o⟩
  | "rt", [ex] => (num? ex).bind fun ex => (withCodec o fun _ _ cd x => rtLine cd x ex).map fun s => ⟨s, expRt⟩
  | "trunc", [offs] =>
    let l? : Option (Option (List Nat)) := if offs == "all" then some none else (list? offs).map some
    l?.bind fun l => (withCodec o fun _ _ cd x => truncLine cd x l).map fun s => ⟨s, expTrunc⟩
  | "sched", [_] => (withCodec o fun _ _ cd x => rtLine cd x 0).map fun s => ⟨s, expRt⟩
  | "wfail", [offs, _] =>
    let l? : Option (Option (List Nat)) := if offs == "all" then some none else (list? offs).map some
    l?.bind fun l => (withCodec o fun _ _ cd x => wfailLine cd x l).map fun s => ⟨s, expWfail⟩
  | _, _ => none

def query (c : Cfg) (o : Obj) (meth : String) (a : List String) (lazySel : Bool := false) : Out :=
  match qCommonSer o meth a with
  | some r => r
  | none =>
  let nums := a.mapM num?
  match o with
  | .bv m s => (match nums.bind (qBV c m meth) with
      | some r => ⟨r, bitSpec s meth (nums.getD []) lazySel⟩
      | none => bad s!"bv query {meth}")
  | .r9 m s => (match nums.bind (qR9 c m meth) with
      | some r => ⟨r, bitSpec s meth (nums.getD []) lazySel⟩
      | none => bad s!"r9 query {meth}")
  | .da m s => (match nums.bind (qDA c m meth) with
      | some r => ⟨r, if meth == "has_rank" || meth == "has_select0" then .any else bitSpec s meth (nums.getD []) lazySel⟩
      | none => bad s!"da query {meth}")
  | .sa m s => (match nums.bind (qSA c m meth) with
      | some r => ⟨r, if meth == "select0" || meth == "has_rank" || (!m.hasRank && (meth == "rank1" || meth == "rank0" || meth == "predecessor1" || meth == "successor1")) then .any
                       else bitSpec s meth (nums.getD []) lazySel⟩
      | none => bad s!"sa query {meth}")
  | .efb _ u cap _ => (match meth with
      | "universe" => ⟨toString u, .eq (toString u)⟩
      | "num_vals" => ⟨toString cap, .eq (toString cap)⟩
      | _ => bad s!"efb query {meth}")
  | .ef m u xs =>
    (match meth, a with
    | "len", [] => ⟨toString m.len, .eq (toString xs.size)⟩
    | "is_empty", [] => ⟨showB (m.len == 0), .eq (showB (xs.size == 0))⟩
    | "universe", [] => ⟨toString m.univ, .eq (toString u)⟩
    | "has_rank", [] => ⟨showB m.hasRank, .any⟩
    | "select", [k] => (match num? k with
      | some k => ⟨showR showON (m.select c k), .eq (showON xs[k]?)⟩ | none => bad "arg")
    | "delta", [k] => (match num? k with
      | some k => ⟨showR showON (m.delta c k), .eq (showON (SpecX.seqDelta xs k))⟩ | none => bad "arg")
    | "rank", [p] => (match num? p with
      | some p => ⟨showR showON (m.rank c p), if m.hasRank then .eq (showON (SpecX.seqRank xs u p)) else .any⟩ | none => bad "arg")
    | "predecessor", [p] => (match num? p with
      | some p => ⟨showR showON (m.predecessor c p), if m.hasRank then .eq (showON (SpecX.seqPred xs u p)) else .any⟩ | none => bad "arg")
    | "successor", [p] => (match num? p with
      | some p => ⟨showR showON (m.successor c p), if m.hasRank then .eq (showON (SpecX.seqSucc xs u p)) else .any⟩ | none => bad "arg")
    | "binsearch", [v] => (match num? v with
      | some v =>
        let idxs := SpecX.seqFind xs 0 xs.size v
        ⟨showR showON (m.binsearch c v), if idxs.isEmpty then .eq "none" else .oneof (idxs.map fun i => s!"some {i}")⟩
      | none => bad "arg")
    | "binsearch_range", [r, v] => (match range? r, num? v with
      | some (lo, hi), some v =>
        let idxs := SpecX.seqFind xs lo hi v
        -- a range reaching beyond `len` is outside the documented domain: `none` is accepted as well
        let opts := (idxs.map fun i => s!"some {i}") ++ (if idxs.isEmpty || xs.size < hi then ["none"] else [])
        ⟨showR showON (m.binsearchRange c lo hi v), .oneof opts⟩
      | _, _ => bad "arg")
    | _, _ => bad s!"ef query {meth}")
  | .cv m w xs =>
    (match meth, a with
    | "len", [] => ⟨toString m.len, .eq (toString xs.size)⟩
    | "num_vals", [] => ⟨toString m.len, .eq (toString xs.size)⟩
    | "is_empty", [] => ⟨showB (m.len == 0), .eq (showB (xs.size == 0))⟩
    | "width", [] => ⟨toString m.width, if xs.size == 0 && w == 0 then .any else .eq (toString w)⟩
    | mm, [i] => if mm == "get_int" || mm == "access" then (match num? i with
        | some i => ⟨showR showON (m.getInt i), .eq (showON xs[i]?)⟩ | none => bad "arg")
      else bad s!"cv query {meth}"
    | _, _ => bad s!"cv query {meth}")
  | .db m xs =>
    (match meth, a with
    | "len", [] => ⟨showR toString m.len, .eq (toString xs.size)⟩
    | "num_vals", [] => ⟨showR toString m.len, .eq (toString xs.size)⟩
    | "is_empty", [] => ⟨showR (fun n => showB (n == 0)) m.len, .eq (showB (xs.size == 0))⟩
    | "num_levels", [] => ⟨toString m.numLevels, .eq (toString ((SpecX.bitlen (specMax xs.toList) + 7) / 8))⟩
    | "widths", [] => ⟨showL m.widths, .eq (showL (List.replicate ((SpecX.bitlen (specMax xs.toList) + 7) / 8) 8))⟩
    | "access", [i] => (match num? i with
      | some i => ⟨showR showON (m.access c i), .eq (showON xs[i]?)⟩ | none => bad "arg")
    | _, _ => bad s!"db query {meth}")
  | .dopt m lim xs =>
    (match meth, a with
    | "len", [] => ⟨showR toString m.len, .eq (toString xs.size)⟩
    | "num_vals", [] => ⟨showR toString m.len, .eq (toString xs.size)⟩
    | "is_empty", [] => ⟨showR (fun n => showB (n == 0)) m.len, .eq (showB (xs.size == 0))⟩
    | "num_levels", [] => ⟨toString m.numLevels, .sat s!"1..=min({lim},64)" fun s =>
        match s.toNat? with | some n => 1 ≤ n && n ≤ min lim 64 | none => false⟩
    | "widths", [] =>
      let vals := xs.toList
      let mcost := SpecX.dacCost vals m.widths
      ⟨showL m.widths,
        if vals.isEmpty then .any
        else .sat s!"valid split into ≤{lim} positive widths of cost {mcost}" fun s =>
          match list? (((s.drop 1).dropEnd 1).toString.replace "," ",") with
          | some ws => SpecX.validSplit vals lim ws && SpecX.dacCost vals ws == mcost
          | none => false⟩
    | "brute_cost", [] =>   -- model-vs-spec only: the model's cost against brute force (small bit lengths)
      let vals := xs.toList
      ⟨toString (SpecX.dacCost vals m.widths), if vals.isEmpty then .any else .eq (toString (SpecX.bruteOpt vals lim))⟩
    | "access", [i] => (match num? i with
      | some i => ⟨showR showON (m.access c i), .eq (showON xs[i]?)⟩ | none => bad "arg")
    | _, _ => bad s!"do query {meth}")
  | .ps m xs =>
    (match meth, a with
    | "len", [] => ⟨toString m.len, .eq (toString xs.size)⟩
    | "num_vals", [] => ⟨toString m.len, .eq (toString xs.size)⟩
    | "is_empty", [] => ⟨showB (m.len == 0), .eq (showB (xs.size == 0))⟩
    | "sum", [] => ⟨showR toString (m.sum c), .eq (toString (xs.foldl (· + ·) 0))⟩
    | "access", [i] => (match num? i with
      | some i => ⟨showR showON (m.access c i), .eq (showON xs[i]?)⟩ | none => bad "arg")
    | _, _ => bad s!"ps query {meth}")
  | .wm _ m xs =>
    (match meth, a with
    | "len", [] => ⟨toString m.len, .eq (toString xs.size)⟩
    | "is_empty", [] => ⟨showB (m.len == 0), .eq (showB (xs.size == 0))⟩
    | "alph_size", [] => ⟨toString m.alphSize, .eq (toString (specMax xs.toList + 1))⟩
    | "alph_width", [] => ⟨toString m.alphWidth, .any⟩
    | "access", [i] => (match num? i with
      | some i => ⟨showR showON (m.access c i), .eq (showON xs[i]?)⟩ | none => bad "arg")
    | "rank", [p, v] => (match num? p, num? v with
      | some p, some v => ⟨showR showON (m.rank c p v), .eq (showON (if p ≤ xs.size then some (SpecX.occ xs 0 p v) else none))⟩
      | _, _ => bad "arg")
    | "rank_range", [r, v] => (match range? r, num? v with
      | some (lo, hi), some v => ⟨showR showON (m.rankRange c lo hi v), .eq (showON (if hi ≤ xs.size then some (SpecX.occ xs lo hi v) else none))⟩
      | _, _ => bad "arg")
    | "select", [k, v] => (match num? k, num? v with
      | some k, some v => ⟨showR showON (m.select c k v), .eq (showON (SpecX.selectVal xs k v))⟩
      | _, _ => bad "arg")
    | "quantile", [r, k] => (match range? r, num? k with
      | some (lo, hi), some k => ⟨showR showON (m.quantile c lo hi k), .eq (showON (SpecX.quantile xs lo hi k))⟩
      | _, _ => bad "arg")
    | "intersect", [rs, k] => (match ranges? rs, num? k with
      | some rs, some k => ⟨showR showOL (m.intersect c rs k), .eq (showOL (SpecX.intersect xs rs k))⟩
      | _, _ => bad "arg")
    | _, _ => bad s!"wm query {meth}")

/-! ### mutators: `(new object or none when poisoned, answer, expectation)` -/

def setBitsSpec (s : Array Bool) (pos bits len : Nat) : Array Bool :=
  Nat.fold len (fun j _ acc => acc.set! (pos + j) (bits.testBit j)) s

def mutate (c : Cfg) (o : Obj) (meth : String) (a : List String) : Option (Option Obj × Out) :=
  match o with
  | .bv m s =>
    (match meth, a with
    | "push_bit", [b] => (flag? b).map fun b => (some (.bv (m.pushBit b) (s.push b)), ⟨"ok", .eq "ok"⟩)
    | "push_bits", [bits, len] => (match num? bits, num? len with
      | some bits, some len =>
        let r := m.pushBits bits len
        let good := len ≤ 64
        some (some (.bv r.1 (if good then Nat.fold len (fun j _ acc => acc.push (bits.testBit j)) s else s)),
          ⟨okErr r.2, .eq (okErr good)⟩)
      | _, _ => none)
    | "set_bit", [pos, b] => (match num? pos, flag? b with
      | some pos, some b =>
        let good := pos < s.size
        (match m.setBit pos b with
        | .ok r => some (some (.bv r.1 (if good then s.set! pos b else s)), ⟨okErr r.2, .eq (okErr good)⟩)
        | .error _ => some (none, ⟨"panic", .eq (okErr good)⟩))
      | _, _ => none)
    | "set_bits", [pos, bits, len] => (match num? pos, num? bits, num? len with
      | some pos, some bits, some len =>
        let good := len ≤ 64 && pos + len ≤ s.size
        (match m.setBits pos bits len with
        | .ok r => some (some (.bv r.1 (if good then setBitsSpec s pos bits len else s)), ⟨okErr r.2, .eq (okErr good)⟩)
        | .error _ => some (none, ⟨"panic", .eq (okErr good)⟩))
      | _, _, _ => none)
    | "extend", [bs] => (bits? bs).map fun (l, w) =>
        let add := bitsArray l w
        (some (.bv (m.extend add.toList) (s ++ add)), ⟨"ok", .eq "ok"⟩)
    | "extend", [bs, _hint] => (bits? bs).map fun (l, w) =>
        let add := bitsArray l w
        (some (.bv (m.extend add.toList) (s ++ add)), ⟨"ok", .eq "ok"⟩)
    | "shrink_to_fit", [] => some (some o, ⟨"ok", .eq "ok"⟩)
    | _, _ => none)
  | .cv m w xs =>
    let fits (v : Nat) : Bool := w == 64 || v < 2^w
    (match meth, a with
    | "push_int", [v] => (num? v).map fun v =>
        (match m.pushInt v with
        | .ok r => (some (.cv r.1 w (if fits v then xs.push v else xs)), ⟨okErr r.2, .eq (okErr (fits v))⟩)
        | .error _ => (none, ⟨"panic", .eq (okErr (fits v))⟩))
    | "set_int", [pos, v] => (match num? pos, num? v with
      | some pos, some v =>
        let good := pos < xs.size && fits v
        (match m.setInt pos v with
        | .ok r => some (some (.cv r.1 w (if good then xs.set! pos v else xs)), ⟨okErr r.2, .eq (okErr good)⟩)
        | .error _ => some (none, ⟨"panic", .eq (okErr good)⟩))
      | _, _ => none)
    | "extend", [vs] => (list? vs).map fun l =>
        let pre := l.takeWhile fits
        let good := pre.length == l.length
        (match m.extend l with
        | .ok r => (some (.cv r.1 w (xs ++ pre.toArray)), ⟨okErr r.2, .eq (okErr good)⟩)
        | .error _ => (none, ⟨"panic", .eq (okErr good)⟩))
    | _, _ => none)
  | .efb m u cap xs =>
    let accepts (xs : Array Nat) (v : Nat) : Bool := xs.back?.getD 0 ≤ v && v < u && xs.size < cap
    (match meth, a with
    | "push", [v] => (num? v).map fun v =>
        let good := accepts xs v
        (match m.push v with
        | .ok r => (some (.efb r.1 u cap (if good then xs.push v else xs)), ⟨okErr r.2, .eq (okErr good)⟩)
        | .error _ => (none, ⟨"panic", .eq (okErr good)⟩))
    | "extend", [vs] => (list? vs).map fun l =>
        let rec go (l : List Nat) (xs : Array Nat) : Array Nat × Bool :=
          match l with
          | [] => (xs, true)
          | v :: r => if accepts xs v then go r (xs.push v) else (xs, false)
        let sp := go l xs
        (match m.extend l with
        | .ok r => (some (.efb r.1 u cap sp.1), ⟨okErr r.2, .eq (okErr sp.2)⟩)
        | .error _ => (none, ⟨"panic", .eq (okErr sp.2)⟩))
    | _, _ => none)
  -- enabling an index (again): the builder methods may be applied to a structure that already has the index, e.g. after
  -- `build_from_bits(.., true, true, true)` or a round trip; the value they describe does not change
  | .r9 m s => (match meth, a with
    | "select1_hints", [] => some (match m.select1Hints with | .ok m' => (some (.r9 m' s), ⟨"ok", .eq "ok"⟩) | .error _ => (none, ⟨"panic", .eq "ok"⟩))
    | "select0_hints", [] => some (match m.select0Hints c with | .ok m' => (some (.r9 m' s), ⟨"ok", .eq "ok"⟩) | .error _ => (none, ⟨"panic", .eq "ok"⟩))
    | _, _ => none)
  | .da m s => (match meth, a with
    | "enable_rank", [] => some (some (.da (m.enableRank c) s), ⟨"ok", .eq "ok"⟩)
    | "enable_select0", [] => some (some (.da (m.enableSelect0 c) s), ⟨"ok", .eq "ok"⟩)
    | _, _ => none)
  | .sa m s => (match meth, a with
    | "enable_rank", [] => some (some (.sa (m.enableRank c) s), ⟨"ok", .eq "ok"⟩)
    | _, _ => none)
  | .ef m u xs => (match meth, a with
    | "enable_rank", [] => some (some (.ef (m.enableRank c) u xs), ⟨"ok", .eq "ok"⟩)
    | _, _ => none)
  | _ => none

/-! ### iterators -/

def iterate (c : Cfg) (o : Obj) (kind arg : String) (ops : List String) : Option Out :=
  let idx (len : R Nat) (acc : Nat → Option String) (elems : List String) : Option Out :=
    match len with
    | .ok n => some ⟨withNth (elems.length + 2) (runIndexIter n acc) ops, iterExp elems ops⟩
    | .error _ => some ⟨"panic", iterExp elems ops⟩
  let unw (r : R (Option Nat)) : Option String := match r with | .ok (some v) => some s!"some {v}" | _ => none
  match o, kind with
  | .bv m s, "iter" => idx (.ok m.len) (fun p => match m.getBit p with | .ok (some b) => some s!"some {showB b}" | _ => none) (s.toList.map showB)
  | .cv m _ xs, "iter" => idx (.ok m.len) (fun p => unw (m.getInt p)) (xs.toList.map toString)
  | .db m xs, "iter" => idx m.len (fun p => unw (m.access c p)) (xs.toList.map toString)
  | .dopt m _ xs, "iter" => idx m.len (fun p => unw (m.access c p)) (xs.toList.map toString)
  | .ps m xs, "iter" => idx (.ok m.len) (fun p => unw (m.access c p)) (xs.toList.map toString)
  | .wm _ m xs, "iter" => idx (.ok m.len) (fun p => unw (m.access c p)) (xs.toList.map toString)
  | .ef m _ xs, "iter" => (num? arg).map fun k => ⟨withNth (xs.size + 2) (runEfIter c m k) ops, iterExp ((xs.toList.drop k).map toString) ops⟩
  | .bv m s, "unary" => (num? arg).map fun p => ⟨runUnary c m p ops, unaryExp s p ops⟩
  | _, _ => none

/-! ### equality and back-to-back round trips -/

def eqObjs (x y : Obj) : Option Out :=
  match x, y with
  | .bv a s, .bv b t => some ⟨showB (decide (a = b)), .eq (showB (s == t))⟩
  | .cv a w s, .cv b v t => some ⟨showB (decide (a = b)), .eq (showB (w == v && s == t))⟩
  | .r9 a _, .r9 b _ => some ⟨showB (decide (a = b)), .any⟩
  | .da a _, .da b _ => some ⟨showB (decide (a = b)), .any⟩
  | .sa a _, .sa b _ => some ⟨showB (decide (a = b)), .any⟩
  | .ef a _ _, .ef b _ _ => some ⟨showB (decide (a = b)), .any⟩
  | .db a _, .db b _ => some ⟨showB (decide (a = b)), .any⟩
  | .dopt a _ _, .dopt b _ _ => some ⟨showB (decide (a = b)), .any⟩
  | .ps a _, .ps b _ => some ⟨showB (decide (a = b)), .any⟩
  | .wm _ a _, .wm _ b _ => some ⟨showB (decide (a = b)), .any⟩
  | _, _ => none

def rt2 (x y : Obj) : Option Out :=
  let bytes (o : Obj) : Option (List Nat) := match o with
    | .bv m _ => some (BV.codec.put m) | .r9 m _ => some (R9.codec.put m) | .da m _ => some (DA.codec.put m)
    | .sa m _ => some (SA.codec.put m) | .ef m _ _ => some (EF.codec.put m) | .cv m _ _ => some (CV.codec.put m)
    | .db m _ => some (DacB.codec.put m) | .dopt m _ _ => some (DacO.codec.put m) | .ps m _ => some (PS.codec.put m)
    | .wm b m _ => some ((WM.codec b).put m) | .efb .. => none
  let readBack (o : Obj) (s : List Nat) : Option (Bool × List Nat) := match o with
    | .bv m _ => (BV.codec.get s).map fun p => (decide (p.1 = m), p.2)
    | .r9 m _ => (R9.codec.get s).map fun p => (decide (p.1 = m), p.2)
    | .da m _ => (DA.codec.get s).map fun p => (decide (p.1 = m), p.2)
    | .sa m _ => (SA.codec.get s).map fun p => (decide (p.1 = m), p.2)
    | .ef m _ _ => (EF.codec.get s).map fun p => (decide (p.1 = m), p.2)
    | .cv m _ _ => (CV.codec.get s).map fun p => (decide (p.1 = m), p.2)
    | .db m _ => (DacB.codec.get s).map fun p => (decide (p.1 = m), p.2)
    | .dopt m _ _ => (DacO.codec.get s).map fun p => (decide (p.1 = m), p.2)
    | .ps m _ => (PS.codec.get s).map fun p => (decide (p.1 = m), p.2)
    | .wm b m _ => ((WM.codec b).get s).map fun p => (decide (p.1 = m), p.2)
    | .efb .. => none
  match bytes x, bytes y with
  | some bx, some by_ =>
    let all := bx ++ by_
    let exp : Exp := .sat "ok consumed=all eq=1" fun a =>
      a.startsWith "ok " && fieldNat a "eq" == some 1 && fieldNat a "consumed" == some all.length
    (match readBack x all with
    | none => some ⟨"err", exp⟩
    | some (e1, rest) => match readBack y rest with
      | none => some ⟨"err", exp⟩
      | some (e2, rest') => some ⟨s!"ok consumed={all.length - rest'.length} eq={showB (e1 && e2)}", exp⟩)
  | _, _ => none

/-! ### free functions -/

def bitsOfWord (x : Nat) : Array Bool := Nat.fold 64 (fun i _ acc => acc.push (x.testBit i)) #[]

def broadword (c : Cfg) (a : List String) : Option Out :=
  match a with
  | [f, xs] => (hexToNat? xs).bind fun x =>
    let w := BitVec.ofNat 64 x
    let s := bitsOfWord x
    if f == "popcount" then some ⟨showR toString (Broadword.popcount c w), .eq (toString (SpecX.count true s 64))⟩
    else if f == "lsb" then some ⟨showR showON (Broadword.lsb c w), .eq (showON (SpecX.select true s 0))⟩
    else if f == "msb" then some ⟨showR showON (Broadword.msb c w), .eq (showON ((SpecX.positions true s).back?))⟩
    else none
  | ["select_in_word", xs, k] => match hexToNat? xs, num? k with
    | some x, some k => some ⟨showR showON (Broadword.selectInWord c (BitVec.ofNat 64 x) k), .eq (showON (SpecX.select true (bitsOfWord x) k))⟩
    | _, _ => none
  | _ => none

def utils (c : Cfg) (a : List String) : Option Out :=
  match a with
  | ["needed_bits", x] => (num? x).map fun x => ⟨toString (neededBits c x), .eq (toString (SpecX.bitlen x))⟩
  | ["ceiled_divide", x, y] => match num? x, num? y with
    | some x, some y => if y = 0 then none else some ⟨toString ((x + y - 1) / y), .eq (toString ((x + y - 1) / y))⟩
    | _, _ => none
  | _ => none

/-- `sem <op> a [b]`: the semantics library of the function-body translator (`RustSem.lean`, `Prim.lean`) evaluated on the
    operands; the implementation side is what the compiler does in this build -/
def semOp (c : Cfg) (a : List String) : Option Out :=
  let showR (r : R Nat) : String := match r with | .ok v => toString v | .error _ => "panic"
  let showI (r : R Int) : String := match r with | .ok v => toString v | .error _ => "panic"
  let mk (s : String) : Option Out := some ⟨s, .any⟩
  match a with
  | [op, x] => (num? x).bind fun x =>
    let ix := RS.isizeOfUsize x
    match op with
    | "not" => mk (toString (wnot x))
    | "count_ones" => mk (toString (RS.countOnes x))
    | "trailing_zeros" => mk (toString (RS.trailingZeros x))
    | "leading_zeros" => mk (toString (RS.leadingZeros x))
    | "as_u8" => mk (toString (x % 256))
    | "as_u16" => mk (toString (x % 65536))
    | "as_u32" => mk (toString (x % 4294967296))
    | "as_isize" => mk (toString ix)
    | "isize_as_usize" => mk (toString (RS.usizeOfIsize ix))
    | "ineg" => mk (showI (RS.ineg c ix))
    | "b2u" => mk (toString (RS.b2u (x != 0)))
    | "shl_const9" => mk (toString (RS.shlConst x 9))
    | "shl_const8" => mk (toString (RS.shlConst x 8))
    | _ => none
  | [op, x, y] => match num? x, num? y with
    | some x, some y =>
      let ix := RS.isizeOfUsize x; let iy := RS.isizeOfUsize y
      (match op with
      | "add" => mk (showR (cadd c x y))
      | "sub" => mk (showR (csub c x y))
      | "mul" => mk (showR (cmul c x y))
      | "shl" => mk (showR (cshl c x y))
      | "shr" => mk (showR (cshr c x y))
      | "div" => mk (showR (RS.cdiv x y))
      | "rem" => mk (showR (RS.crem x y))
      | "wrapping_add" => mk (toString (RS.wrappingAdd x y))
      | "wrapping_sub" => mk (toString (RS.wrappingSub x y))
      | "wrapping_mul" => mk (toString (RS.wrappingMul x y))
      | "wrapping_shl" => mk (toString (RS.wrappingShl x (y % 4294967296)))
      | "wrapping_shr" => mk (toString (RS.wrappingShr x (y % 4294967296)))
      | "saturating_add" => mk (toString (RS.saturatingAdd x y))
      | "saturating_sub" => mk (toString (RS.saturatingSub x y))
      | "and" => mk (toString (x &&& y))
      | "or" => mk (toString (x ||| y))
      | "xor" => mk (toString (x ^^^ y))
      | "iadd" => mk (showI (RS.iadd c ix iy))
      | "isub" => mk (showI (RS.isub c ix iy))
      | "min" => mk (toString (Nat.min x y))
      | "max" => mk (toString (Nat.max x y))
      | _ => none)
    | _, _ => none
  | _ => none

/-- signed primitive of `k` bytes -/
def sint (k : Nat) : Codec Int where
  put x := Codec.leBytes (x % (2 ^ (8 * k) : Nat)).toNat k
  get s := if s.length < k then none else
    let n := Codec.ofLe (s.take k)
    some (if n ≥ 2 ^ (8 * k - 1) then (n : Int) - (2 ^ (8 * k) : Nat) else (n : Int), s.drop k)
  size _ := k

def primLine {α} [DecidableEq α] (cd : Codec α) (x : α) : Out :=
  ⟨serLine cd x ++ " rt=" ++ rtLine cd x 3, .sat "ret=sib=len(bytes), round trip exact" fun a =>
    match a.splitOn " rt=" with
    | [s, r] => (expSer.check s == some true) && (expRt.check r == some true)
    | _ => false⟩

def prim (a : List String) : Option Out :=
  open Codec in
  match a with
  | [ty, v] =>
    let un (k : Nat) : Option Out := (num? v).map fun n => primLine (uint k) (n % 256 ^ k)
    let sg (k : Nat) : Option Out := v.toInt?.map fun n => primLine (sint k) n
    if ty == "u8" then un 1 else if ty == "u16" then un 2 else if ty == "u32" then un 4
    else if ty == "u64" || ty == "usize" then un 8
    else if ty == "i8" then sg 1 else if ty == "i16" then sg 2 else if ty == "i32" then sg 4
    else if ty == "i64" || ty == "isize" then sg 8
    else if ty == "bool" then (flag? v).map fun b => primLine Codec.bool b
    else if ty == "vec_u16" then (list? v).map fun l => primLine (vec u16) (l.map (· % 65536))
    else if ty == "vec_usize" then (list? v).map fun l => primLine (vec u64) l
    else if ty == "vec_i64" then (ilist? v).map fun l => primLine (vec (sint 8)) l
    else if ty == "opt_usize" then (if v == "none" then some (primLine (opt u64) none) else (num? v).map fun n => primLine (opt u64) (some n))
    else if ty == "vec_opt_bool" then
      some (primLine (vec (opt Codec.bool)) (((v.splitOn ",").filter (· != "-")).map fun s =>
        if s == "n" then none else if s == "1" then some true else some false))
    else if ty == "opt_vec_usize" then (if v == "none" then some (primLine (opt (vec u64)) none) else (list? v).map fun l => primLine (opt (vec u64)) (some l))
    else if ty == "vec_vec_u8" then
      (((v.splitOn "/").filter (· != "")).mapM list?).map fun ls => primLine (vec (vec u8)) (ls.map fun l => l.map (· % 256))
    else none
  | _ => none

/-! ### one request -/

def step1 (c : Cfg) (tbl : Tbl) (toks : List String) : Tbl × Out :=
  match toks with
  | "case" :: rest => (({} : Tbl), ⟨"case " ++ " ".intercalate rest, .any⟩)
  | "new" :: id :: kind :: ctor :: a0 =>
    -- a trailing `h<lower>:<upper>` says that the harness hands the bits over through an iterator reporting that (legal) size
    -- hint; the hint is not part of the value
    let a := match a0.getLast? with
      | some h => if h.startsWith "h" && (h.drop 1).toString.any (· == ':') && a0.length > 1 then a0.dropLast else a0
      | none => a0
    (match num? id with
    | none => (tbl, bad "id")
    | some id => match newObj c tbl kind ctor a with
      | none => (tbl, bad s!"constructor {kind} {ctor}")
      | some r =>
        let tbl := if ctor == "build" && kind == "ef" then (match a.head?.bind num? with | some s => tbl.erase s | none => tbl) else tbl
        (match r.obj with | some o => tbl.insert id o | none => tbl.erase id, ⟨r.m, r.e⟩))
  | "q" :: id :: meth :: a =>
    (match (num? id).bind (tbl.get? ·) with
    | none => (tbl, ⟨"noobj", .any⟩)
    | some o => (tbl, query c o meth a))
  | "m" :: id :: meth :: a =>
    (match num? id with
    | none => (tbl, bad "id")
    | some id => match tbl.get? id with
      | none => (tbl, ⟨"noobj", .any⟩)
      | some o => match mutate c o meth a with
        | none => (tbl, bad s!"mutator {meth}")
        | some (some o', out) => (tbl.insert id o', out)
        | some (none, out) => (tbl.erase id, out))
  | ["it", id, kind, arg, ops] =>
    (match (num? id).bind (tbl.get? ·) with
    | none => (tbl, ⟨"noobj", .any⟩)
    | some o => match iterate c o kind arg (ops.splitOn ",") with
      | some out => (tbl, out)
      | none => (tbl, bad s!"iterator {kind}"))
  | ["eq", x, y] =>
    (match (num? x).bind (tbl.get? ·), (num? y).bind (tbl.get? ·) with
    | some a, some b => (match eqObjs a b with | some o => (tbl, o) | none => (tbl, bad "eq kinds"))
    | _, _ => (tbl, ⟨"noobj", .any⟩))
  | ["rt2", x, y] =>
    (match (num? x).bind (tbl.get? ·), (num? y).bind (tbl.get? ·) with
    | some a, some b => (match rt2 a b with | some o => (tbl, o) | none => (tbl, bad "rt2 kinds"))
    | _, _ => (tbl, ⟨"noobj", .any⟩))
  | "bw" :: a => (tbl, (broadword c a).getD (bad "bw"))
  | "ut" :: a => (tbl, (utils c a).getD (bad "ut"))
  | "sem" :: a => (tbl, (semOp c a).getD (bad "sem"))
  | "prim" :: a => (tbl, (prim a).getD (bad "prim"))
  | ["drop", id] => (match num? id with | some i => (tbl.erase i, ⟨"ok", .any⟩) | none => (tbl, bad "id"))
  | _ => (tbl, bad "command")

/-- per-object cache of `SpecX.positions true/false` (what `SpecX.select b a k = (positions b a)[k]?` indexes):
    computed once per object instead of once per `select` request; dropped whenever the object may change -/
abbrev PosCache := Std.HashMap Nat (Array Nat × Array Nat)

def bitsOf? : Obj → Option (Array Bool)
  | .bv _ s => some s | .r9 _ s => some s | .da _ s => some s | .sa _ s => some s | _ => none

def step (c : Cfg) (st : Tbl × PosCache) (toks : List String) : (Tbl × PosCache) × Out :=
  let (tbl, cache) := st
  match toks with
  | ["q", id, meth, k] =>
    if meth == "select1" || meth == "select0" then
      match num? id, num? k with
      | some i, some kk =>
        (match tbl.get? i, (tbl.get? i).bind bitsOf? with
        | some ob, some s =>
          let (pc, cache') := match cache.get? i with
            | some pc => (pc, cache)
            | none => let pc := (SpecX.positions true s, SpecX.positions false s); (pc, cache.insert i pc)
          let out := query c ob meth [k] true
          -- same value as `SpecX.select b s kk = (SpecX.positions b s)[kk]?`, read from the cached positions
          let e : Exp := match out.e with
            | .any => .any
            | _ => .eq (showON ((if meth == "select1" then pc.1 else pc.2)[kk]?))
          ((tbl, cache'), { out with e := e })
        | _, _ => let (tbl', out) := step1 c tbl toks; ((tbl', cache), out))
      | _, _ => let (tbl', out) := step1 c tbl toks; ((tbl', cache), out)
    else let (tbl', out) := step1 c tbl toks; ((tbl', cache), out)
  | "q" :: _ => let (tbl', out) := step1 c tbl toks; ((tbl', cache), out)
  | "it" :: _ => let (tbl', out) := step1 c tbl toks; ((tbl', cache), out)
  | _ => let (tbl', out) := step1 c tbl toks; ((tbl', {}), out)      -- anything that may create or change objects

end Sucds.Driver
