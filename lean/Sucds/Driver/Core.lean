import Sucds.Model.SerialStruct
import Sucds.Spec.Exec
/-! Model driver, part 1: parsing and printing of the line protocol, expectations (`Exp`). -/
namespace Sucds.Driver
open Sucds

def hexDigit (c : Char) : Option Nat :=
  if '0' ≤ c ∧ c ≤ '9' then some (c.toNat - '0'.toNat)
  else if 'a' ≤ c ∧ c ≤ 'f' then some (c.toNat - 'a'.toNat + 10)
  else if 'A' ≤ c ∧ c ≤ 'F' then some (c.toNat - 'A'.toNat + 10)
  else none

def hexToNat? (s : String) : Option Nat :=
  if s.isEmpty then none else
  s.foldl (fun acc c => match acc, hexDigit c with
    | some n, some d => some (n * 16 + d)
    | _, _ => none) (some 0)

def num? (s : String) : Option Nat :=
  if s.startsWith "0x" then hexToNat? (s.drop 2).toString else s.toNat?

def flag? (s : String) : Option Bool :=
  if s = "0" then some false else if s = "1" then some true else none

def list? (s : String) : Option (List Nat) :=
  if s = "-" then some [] else (s.splitOn ",").mapM num?

def ilist? (s : String) : Option (List Int) :=
  if s = "-" then some [] else (s.splitOn ",").mapM String.toInt?

def range? (s : String) : Option (Nat × Nat) :=
  match s.splitOn ".." with
  | [a, b] => match num? a, num? b with
    | some x, some y => some (x, y)
    | _, _ => none
  | _ => none

def ranges? (s : String) : Option (List (Nat × Nat)) :=
  if s = "-" then some [] else (s.splitOn ",").mapM range?

/-- `len:hexword,hexword,…` → (len, words) -/
def bits? (s : String) : Option (Nat × Array Nat) :=
  match s.splitOn ":" with
  | [l, w] => match num? l with
    | none => none
    | some len =>
      if w.isEmpty then some (len, #[])
      else match (w.splitOn ",").mapM hexToNat? with
        | some ws => some (len, ws.toArray)
        | none => none
  | _ => none

/-- the bits of a `len:words` literal as the spec sees them -/
def bitsArray (len : Nat) (ws : Array Nat) : Array Bool :=
  Nat.fold len (fun i _ acc => acc.push ((ws[i / 64]?.getD 0).testBit (i % 64))) (Array.mkEmpty len)

/-- the model bit vector a `from_bits` call over that literal produces (push_bit by push_bit) -/
def bvOfBits (len : Nat) (ws : Array Nat) : BV := BV.fromBits (bitsArray len ws).toList

def hexNib (n : Nat) : Char := if n < 10 then Char.ofNat (48 + n) else Char.ofNat (87 + n)
def natToHex (n : Nat) : String :=
  if n = 0 then "0" else
  let rec go (n : Nat) (acc : List Char) (fuel : Nat) : List Char :=
    match fuel with
    | 0 => acc
    | f+1 => if n = 0 then acc else go (n / 16) (hexNib (n % 16) :: acc) f
  String.ofList (go n [] 200)
def byteHex (b : Nat) : String := String.ofList [hexNib (b / 16 % 16), hexNib (b % 16)]
def bytesHex (bs : List Nat) : String := String.join (bs.map byteHex)

def showON : Option Nat → String
  | some v => s!"some {v}"
  | none => "none"
def showOB : Option Bool → String
  | some v => s!"some {if v then 1 else 0}"
  | none => "none"
def showL (l : List Nat) : String := "[" ++ ",".intercalate (l.map toString) ++ "]"
def showOL : Option (List Nat) → String
  | some l => s!"some {showL l}"
  | none => "none"
def showB (b : Bool) : String := if b then "1" else "0"
def showWords (ws : Array Nat) : String := "[" ++ ",".intercalate (ws.toList.map natToHex) ++ "]"

/-- model results: a panic of any kind prints as `panic` -/
def showR {α} (f : α → String) : R α → String
  | .ok v => f v
  | .error _ => "panic"

/-- what the specification expects of an answer line -/
inductive Exp
  | any                                   -- the property says nothing about this observation
  | eq (s : String)
  | oneof (l : List String)
  | le (bound : Nat)                      -- a number not above the bound
  | sat (descr : String) (p : String → Bool)

def Exp.descr : Exp → String
  | .any => "-"
  | .eq s => s
  | .oneof l => "oneof{" ++ "|".intercalate l ++ "}"
  | .le b => s!"le {b}"
  | .sat d _ => s!"sat({d})"

def Exp.check (e : Exp) (ans : String) : Option Bool :=
  match e with
  | .any => none
  | .eq s => some (s == ans)
  | .oneof l => some (l.contains ans)
  | .le b => match ans.toNat? with
    | some n => some (n ≤ b)
    | none => some false
  | .sat _ p => some (p ans)

/-- fields `key=value` of an answer line -/
def field (ans key : String) : Option String :=
  (ans.splitOn " ").findSome? fun t =>
    if t.startsWith (key ++ "=") then some (t.drop (key.length + 1)).toString else none
def fieldNat (ans key : String) : Option Nat := (field ans key).bind String.toNat?

end Sucds.Driver
