def hello := "world"
