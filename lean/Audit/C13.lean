import Sucds.Props.C13
#print axioms Sucds.C13.bit_vector_prefix_fails
#print axioms Sucds.C13.read_exact_schedule_independent
