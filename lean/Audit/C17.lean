import Sucds.Props.C17
#print axioms Sucds.C17.index_iterators
