import Sucds.Props.C10
#print axioms Sucds.C10.walk_lossless
#print axioms Sucds.C10.reconstruction_asserts_hold
