import Sucds.Props.C15
#print axioms Sucds.C15.primitives
#print axioms Sucds.C15.rank9_rank1
#print axioms Sucds.C15.rank9_select1
#print axioms Sucds.C15.bitvector_scans
