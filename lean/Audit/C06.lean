import Sucds.Props.C06
#print axioms Sucds.C06.range_maps_zero
#print axioms Sucds.C06.range_maps_one
