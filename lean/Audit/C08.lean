import Sucds.Props.C08
#print axioms Sucds.C08.bit_vector_codec
#print axioms Sucds.C08.vec_preserves
#print axioms Sucds.C08.opt_preserves
#print axioms Sucds.C08.seq_preserves
