import Sucds.Props.C18
#print axioms Sucds.C18.dp_optimal
#print axioms Sucds.C18.dp_lower_bound
