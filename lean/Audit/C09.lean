import Sucds.Props.C09
#print axioms Sucds.C09.histories
#print axioms Sucds.C09.new_accepts
#print axioms Sucds.C09.new_rejects
