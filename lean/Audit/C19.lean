import Sucds.Props.C19
#print axioms Sucds.C19.sum_map_const
#print axioms Sucds.C19.bitvector_size
#print axioms Sucds.C19.bitvector_bound
#print axioms Sucds.C19.rank9_directory_size
