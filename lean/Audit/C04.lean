import Sucds.Props.C04
#print axioms Sucds.C04.select_via_high_bits
#print axioms Sucds.C04.builder_invariant
