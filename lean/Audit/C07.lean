import Sucds.Props.C07
#print axioms Sucds.C07.histories
#print axioms Sucds.C07.canonical
#print axioms Sucds.C07.from_bits
#print axioms Sucds.C07.get_bit
#print axioms Sucds.C07.get_bits_in_range
#print axioms Sucds.C07.get_bits_out_of_range
#print axioms Sucds.C07.rank1
#print axioms Sucds.C07.rank0
#print axioms Sucds.C07.select1
