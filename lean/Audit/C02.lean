import Sucds.Props.C02
#print axioms Sucds.C02.rank1_after_enable_rank
#print axioms Sucds.C02.rank0_after_enable_rank
