import Sucds.Props.C12
#print axioms Sucds.C12.prefix_sums_accepted
