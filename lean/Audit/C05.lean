import Sucds.Props.C05
#print axioms Sucds.C05.rank_range_counts
#print axioms Sucds.C05.slice_invariant
