import Sucds.Props.C16
#print axioms Sucds.C16.new_zero_rejected
#print axioms Sucds.C16.histories
