import Sucds.Props.C03
#print axioms Sucds.C03.select1_via_elias_fano
