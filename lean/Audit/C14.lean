import Sucds.Props.C14
#print axioms Sucds.C14.holds
#print axioms Sucds.C14.sel_meaning
#print axioms Sucds.C14.config_independent
