import Sucds.Props.C11
#print axioms Sucds.C11.sum_replicate
#print axioms Sucds.C11.walk_lossless_bytes
