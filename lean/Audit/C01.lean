import Sucds.Props.C01
#print axioms Sucds.C01.holds_partial_rank1
#print axioms Sucds.C01.holds_partial_rank0
#print axioms Sucds.C01.holds_partial_select1_nohints
#print axioms Sucds.C01.holds_partial_select1_hints
#print axioms Sucds.C01.hints_irrelevant_select1
