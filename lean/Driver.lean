import Sucds.Driver.Ops
/-! Model driver: `sucds_model <checked 0|1> <intrinsics 0|1> <script> <impl-transcript | ->`.
    For every request line prints, tab separated: the model's answer, what the specification expects,
    the verdict implementation-vs-spec (`ok`/`BAD`/`-`) and the verdict model-vs-spec. -/
open Sucds Sucds.Driver

def verdict (e : Exp) (ans : Option String) : String :=
  match ans with
  | none => "-"
  | some a => if a == "-" then "-" else match e.check a with
    | none => "-"
    | some true => "ok"
    | some false => "BAD"

def isReq (l : String) : Bool := !(l.isEmpty || l.startsWith "#")

partial def loop (c : Cfg) (script : IO.FS.Stream) (impl : Option IO.FS.Stream) (out : IO.FS.Stream) (tbl : Tbl × PosCache) : IO Unit := do
  let line ← script.getLine
  if line.isEmpty then return ()
  let l := (line.dropEndWhile fun ch => ch == '\n' || ch == '\r').toString
  if !isReq l then loop c script impl out tbl else
  let ians ← match impl with
    | none => pure none
    | some h => do
      let a ← h.getLine
      pure (if a.isEmpty then none else some (a.dropEndWhile fun ch => ch == '\n' || ch == '\r').toString)
  let (tbl', o) := step c tbl (l.splitOn " ")
  -- an implementation `panic` is never acceptable to a specification that has an opinion
  out.putStrLn s!"{o.m}\t{o.e.descr}\t{verdict o.e ians}\t{verdict o.e (some o.m)}"
  loop c script impl out tbl'

def main (args : List String) : IO UInt32 := do
  match args with
  | [ck, intr, script, impl] =>
    let c : Cfg := ⟨ck == "1", intr == "1"⟩
    let sh ← IO.FS.Handle.mk script .read
    let ih ← if impl == "-" then pure none else do
      let h ← IO.FS.Handle.mk impl .read
      pure (some (IO.FS.Stream.ofHandle h))
    let out ← IO.getStdout
    loop c (IO.FS.Stream.ofHandle sh) ih out ({}, {})
    return 0
  | _ =>
    IO.eprintln "usage: sucds_model <checked 0|1> <intrinsics 0|1> <script> <impl-transcript|->"
    return 2
